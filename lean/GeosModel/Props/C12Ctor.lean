import GeosModel.Model.Api.Construct
/-!
# C12, section C — the constructors that take ownership of their arguments

Theorems about `Model/Api/Construct.lean` (the decision core and the ownership choreography of
`GEOSGeom_createCollection_r`, `createPolygon_r`, `createCurvePolygon_r`, `createCompoundCurve_r` and the four constructors from
a coordinate sequence), which the stream `ctor-own` (harness/c12_own.h ↔ Driver/C12.lean) compares call by call with the
real functions: outcome, type id of the result and the fate of every argument (freed — seen by the sanitizer's free hook —,
moved — same address as the corresponding part of the result).

The ownership clause of the property ("nothing … leaks", with geos_c.h: ownership of the arguments is transferred
*whatever the outcome*) is, for these calls:

* `ctor_args_settled` — after the call, accepted or refused, every argument is freed, owned by the result, or was NULL:
  nothing is left as a bare pointer (`raw`: leaked) or in a local (`held`);
* `ctor_refused_frees_all` — a refused call has freed every non-null argument (nothing is moved into a result that does not exist);
* `ctor_accepted_moves_or_frees` — an accepted call owns or has freed every argument;
* `ctor_fates_length` — one fate per argument.

The variant "validate, then adopt in one loop" of `createCollection` (a plausible refactoring) returns the same outcome for
every argument list (`validateThenAdopt_same_outcome`) — results, error value and message cannot tell the two apart — but leaks
exactly the refused member and everything after it (`validateThenAdopt_leaks_from_refused`, `validateThenAdopt_settled_iff`).
Core Lean only.
-/
namespace GeosModel.Api.Construct

/-! ### fates: small algebra -/

theorem settled_unwind_adopt_init (m : Option Member) : (unwind (adopt (init m))).settled = true := by
  cases m <;> rfl

theorem settled_move_adopt_init (m : Option Member) : (move (adopt (init m))).settled = true := by
  cases m <;> rfl

theorem settled_del_init (m : Option Member) : (del (init m)).settled = true := by
  cases m <;> rfl

theorem settled_unwind_adoptOrDelete (p : Option Member → Bool) (m : Option Member) :
    (unwind (adoptOrDelete p m)).settled = true := by
  unfold adoptOrDelete; cases m <;> cases p _ <;> rfl

theorem settled_move_adoptOrDelete (p : Option Member → Bool) (m : Option Member) :
    (move (adoptOrDelete p m)).settled = true := by
  unfold adoptOrDelete; cases m <;> cases p _ <;> rfl

/-- a fate that is freed or null (what a refused call must leave behind) -/
def Fate.gone : Fate → Bool | .null | .freed => true | _ => false

theorem gone_unwind_adopt_init (m : Option Member) : (unwind (adopt (init m))).gone = true := by
  cases m <;> rfl

theorem gone_del_init (m : Option Member) : (del (init m)).gone = true := by
  cases m <;> rfl

theorem gone_unwind_adoptOrDelete (p : Option Member → Bool) (m : Option Member) :
    (unwind (adoptOrDelete p m)).gone = true := by
  unfold adoptOrDelete; cases m <;> cases p _ <;> rfl

theorem gone_settled (f : Fate) (h : f.gone = true) : f.settled = true := by
  cases f <;> simp_all [Fate.gone, Fate.settled]

/-! ### per constructor -/

theorem createCollection_settled (t : Int) (ms : List (Option Member)) :
    (createCollection t ms).fates.all Fate.settled = true := by
  unfold createCollection
  simp only []
  split
  · simp [List.all_map, Function.comp_def, settled_unwind_adopt_init]
  · split
    · simp [List.all_map, Function.comp_def, settled_move_adopt_init]
    · simp [List.all_map, Function.comp_def, settled_unwind_adopt_init]

theorem createCollection_err_gone (t : Int) (ms : List (Option Member)) (h : (createCollection t ms).out = .err) :
    (createCollection t ms).fates.all Fate.gone = true := by
  unfold createCollection at h ⊢
  simp only [] at h ⊢
  split
  · simp [List.all_map, Function.comp_def, gone_unwind_adopt_init]
  · split
    · rename_i h1 h2; simp [h1, h2] at h
    · simp [List.all_map, Function.comp_def, gone_unwind_adopt_init]

theorem createPolygon_settled (s : Option Member) (hs : List (Option Member)) :
    (createPolygon s hs).fates.all Fate.settled = true := by
  unfold createPolygon
  simp only []
  split
  · simp [List.all_map, Function.comp_def, settled_del_init]
  · split
    · simp [List.all_map, Function.comp_def, settled_unwind_adopt_init]
    · simp [List.all_map, Function.comp_def, settled_move_adopt_init]

theorem createPolygon_err_gone (s : Option Member) (hs : List (Option Member)) (h : (createPolygon s hs).out = .err) :
    (createPolygon s hs).fates.all Fate.gone = true := by
  unfold createPolygon at h ⊢
  simp only [] at h ⊢
  split
  · simp [List.all_map, Function.comp_def, gone_del_init]
  · split
    · simp [List.all_map, Function.comp_def, gone_unwind_adopt_init]
    · rename_i h1 h2; simp [h1, h2] at h

theorem createCurvePolygon_settled (s : Option Member) (hs : List (Option Member)) :
    (createCurvePolygon s hs).fates.all Fate.settled = true := by
  unfold createCurvePolygon
  simp only []
  split
  · simp [List.all_map, Function.comp_def, settled_unwind_adoptOrDelete]
  · split
    · simp [List.all_map, Function.comp_def, settled_unwind_adoptOrDelete]
    · simp [List.all_map, Function.comp_def, settled_move_adoptOrDelete]

theorem createCurvePolygon_err_gone (s : Option Member) (hs : List (Option Member))
    (h : (createCurvePolygon s hs).out = .err) : (createCurvePolygon s hs).fates.all Fate.gone = true := by
  unfold createCurvePolygon at h ⊢
  simp only [] at h ⊢
  split
  · simp [List.all_map, Function.comp_def, gone_unwind_adoptOrDelete]
  · split
    · simp [List.all_map, Function.comp_def, gone_unwind_adoptOrDelete]
    · rename_i h1 h2; simp [h1, h2] at h

theorem createCompoundCurve_settled (ms : List (Option Member)) :
    (createCompoundCurve ms).fates.all Fate.settled = true := by
  unfold createCompoundCurve
  simp only []
  split
  · simp [List.all_map, Function.comp_def, settled_unwind_adoptOrDelete]
  · split
    · simp [List.all_map, Function.comp_def, settled_unwind_adoptOrDelete]
    · simp [List.all_map, Function.comp_def, settled_move_adoptOrDelete]

theorem createCompoundCurve_err_gone (ms : List (Option Member)) (h : (createCompoundCurve ms).out = .err) :
    (createCompoundCurve ms).fates.all Fate.gone = true := by
  unfold createCompoundCurve at h ⊢
  simp only [] at h ⊢
  split
  · simp [List.all_map, Function.comp_def, gone_unwind_adoptOrDelete]
  · split
    · simp [List.all_map, Function.comp_def, gone_unwind_adoptOrDelete]
    · rename_i h1 h2; simp [h1, h2] at h

/-! ### all constructors -/

/-- **whatever the outcome, no argument is leaked or left in a local**: every argument of every ownership-taking constructor
is freed, owned by the result, or was NULL -/
theorem ctor_args_settled (c : Ctor) : c.run.fates.all Fate.settled = true := by
  cases c with
  | coll t ms => exact createCollection_settled t ms
  | poly s hs => exact createPolygon_settled s hs
  | cpoly s hs => exact createCurvePolygon_settled s hs
  | ccurve ms => exact createCompoundCurve_settled ms
  | point n => simp only [Ctor.run, createPoint]; split <;> rfl
  | line n => simp only [Ctor.run, createLineString]; split <;> rfl
  | ring n cl => simp only [Ctor.run, createLinearRing]; repeat' split
                 all_goals rfl
  | circ n => simp only [Ctor.run, createCircularString]; split <;> rfl

/-- the form quoted by harness/c12_own.h: the predicted line of the stream `ctor-own` never contains `L` (nor a pointer still
sitting in a local) -/
theorem ctor_consumes_every_argument (c : Ctor) : Fate.raw ∉ c.run.fates ∧ Fate.held ∉ c.run.fates := by
  have h := List.all_eq_true.mp (ctor_args_settled c)
  exact ⟨fun hm => by simpa [Fate.settled] using h _ hm, fun hm => by simpa [Fate.settled] using h _ hm⟩

/-- **a refused call has freed everything it was given** (no argument is owned by a result that does not exist) -/
theorem ctor_refused_frees_all (c : Ctor) (h : c.run.out = .err) : c.run.fates.all Fate.gone = true := by
  cases c with
  | coll t ms => exact createCollection_err_gone t ms h
  | poly s hs => exact createPolygon_err_gone s hs h
  | cpoly s hs => exact createCurvePolygon_err_gone s hs h
  | ccurve ms => exact createCompoundCurve_err_gone ms h
  | point n => simp only [Ctor.run, createPoint] at h ⊢; split <;> rfl
  | line n => simp only [Ctor.run, createLineString] at h ⊢; split <;> simp_all <;> rfl
  | ring n cl => simp only [Ctor.run, createLinearRing] at h ⊢; repeat' split
                 all_goals first | rfl | simp_all
  | circ n => simp only [Ctor.run, createCircularString] at h ⊢; split <;> simp_all <;> rfl

/-- an accepted call owns or has freed every argument (corollary of `ctor_args_settled`, stated for the reader) -/
theorem ctor_accepted_moves_or_frees (c : Ctor) (t : Int) (_h : c.run.out = .ok t) :
    ∀ f ∈ c.run.fates, f = .moved ∨ f = .freed ∨ f = .null := by
  intro f hf
  have := List.all_eq_true.mp (ctor_args_settled c) f hf
  cases f <;> simp_all [Fate.settled]

/-- one fate per argument -/
theorem ctor_fates_length (c : Ctor) : c.run.fates.length = c.nargs := by
  cases c with
  | coll t ms => simp only [Ctor.run, Ctor.nargs, createCollection]; repeat' split
                 all_goals simp
  | poly s hs => simp only [Ctor.run, Ctor.nargs, createPolygon]; repeat' split
                 all_goals simp
  | cpoly s hs => simp only [Ctor.run, Ctor.nargs, createCurvePolygon]; repeat' split
                  all_goals simp
  | ccurve ms => simp only [Ctor.run, Ctor.nargs, createCompoundCurve]; repeat' split
                 all_goals simp
  | point n => simp only [Ctor.run, Ctor.nargs, createPoint]; split <;> rfl
  | line n => simp only [Ctor.run, Ctor.nargs, createLineString]; split <;> rfl
  | ring n cl => simp only [Ctor.run, Ctor.nargs, createLinearRing]; repeat' split
                 all_goals rfl
  | circ n => simp only [Ctor.run, Ctor.nargs, createCircularString]; split <;> rfl

/-! ### the variant "validate, then adopt" -/

theorem validateThenAdoptLoop_isSome (t : Int) (ms : List (Option Member)) :
    (validateThenAdoptLoop t ms).isSome = ms.all (memberOk t) := by
  induction ms with
  | nil => rfl
  | cons m rest ih =>
    simp only [validateThenAdoptLoop, List.all_cons]
    cases hm : memberOk t m <;> simp [ih]

/-- **results, error value and message cannot tell the variant from the code**: same outcome for every argument list -/
theorem validateThenAdopt_same_outcome (t : Int) (ms : List (Option Member)) :
    (createCollectionValidateThenAdopt t ms).out = (createCollection t ms).out := by
  have h := validateThenAdoptLoop_isSome t ms
  unfold createCollectionValidateThenAdopt createCollection
  cases hv : validateThenAdoptLoop t ms with
  | none =>
    rw [hv] at h
    have h' : ms.all (memberOk t) = false := by simpa using h.symm
    simp only [h', Bool.not_false, ↓reduceIte]
  | some st =>
    rw [hv] at h
    have h' : ms.all (memberOk t) = true := by simpa using h.symm
    simp only [h', Bool.not_true, Bool.false_eq_true, ↓reduceIte]
    split <;> rfl

theorem fatesAfterThrowAt_settled_iff (t : Int) (ms : List (Option Member)) :
    (fatesAfterThrowAt t ms).all Fate.settled = true ↔
      ∀ l1 m l2, ms = l1 ++ m :: l2 → l1.all (memberOk t) = true → memberOk t m = false → (m :: l2).all (· == none) = true := by
  induction ms with
  | nil => simp [fatesAfterThrowAt]
  | cons a rest ih =>
    unfold fatesAfterThrowAt
    cases ha : memberOk t a
    · simp only [Bool.false_eq_true, ↓reduceIte]
      constructor
      · intro hall l1 m l2 heq hl1 hm
        cases l1 with
        | nil =>
          simp only [List.nil_append, List.cons.injEq] at heq
          obtain ⟨rfl, rfl⟩ := heq
          rw [List.all_eq_true] at hall ⊢
          intro x hx
          have := hall (init x) (List.mem_map.mpr ⟨x, hx, rfl⟩)
          cases x <;> simp_all [init, Fate.settled]
        | cons b l1' =>
          simp only [List.cons_append, List.cons.injEq] at heq
          obtain ⟨rfl, _⟩ := heq
          simp [ha] at hl1
      · intro hspec
        have := hspec [] a rest rfl rfl ha
        rw [List.all_eq_true] at this ⊢
        intro f hf
        obtain ⟨x, hx, rfl⟩ := List.mem_map.mp hf
        have hx' := this x hx
        cases x <;> simp_all [init, Fate.settled]
    · simp only [↓reduceIte, List.all_cons, settled_unwind_adopt_init, Bool.true_and]
      rw [ih]
      constructor
      · intro hspec l1 m l2 heq hl1 hm
        cases l1 with
        | nil =>
          simp only [List.nil_append, List.cons.injEq] at heq
          obtain ⟨rfl, rfl⟩ := heq
          simp [ha] at hm
        | cons b l1' =>
          simp only [List.cons_append, List.cons.injEq] at heq
          obtain ⟨rfl, rfl⟩ := heq
          simp only [List.all_cons, Bool.and_eq_true] at hl1
          exact hspec l1' m l2 rfl hl1.2 hm
      · intro hspec l1 m l2 heq hl1 hm
        exact hspec (a :: l1) m l2 (by simp [heq]) (by simp [ha, hl1]) hm

/-- **the variant leaks exactly from the first refused member on**: its arguments are all settled iff the first refused member
and everything after it are NULL (otherwise a non-null refused member, or one behind it, stays a bare pointer nobody owns) -/
theorem validateThenAdopt_settled_iff (t : Int) (ms : List (Option Member)) (h : ms.all (memberOk t) = false) :
    (createCollectionValidateThenAdopt t ms).fates.all Fate.settled = true ↔
      ∀ l1 m l2, ms = l1 ++ m :: l2 → l1.all (memberOk t) = true → memberOk t m = false → (m :: l2).all (· == none) = true := by
  have hs := validateThenAdoptLoop_isSome t ms
  rw [h] at hs
  unfold createCollectionValidateThenAdopt
  cases hv : validateThenAdoptLoop t ms with
  | none => simp only []; exact fatesAfterThrowAt_settled_iff t ms
  | some st => simp [hv] at hs

/-- concretely: a point, a line, a point offered as MULTIPOINT — the code frees all three, the variant leaks the line and the
point behind it -/
theorem validateThenAdopt_leaks_from_refused :
    let pt : Option Member := some ⟨.point, false, 0, 0⟩
    let ls : Option Member := some ⟨.lineString, false, 0, 1⟩
    (createCollection tMultiPoint [pt, ls, pt]) = ⟨.err, [.freed, .freed, .freed]⟩ ∧
    (createCollectionValidateThenAdopt tMultiPoint [pt, ls, pt]) = ⟨.err, [.freed, .raw, .raw]⟩ := by
  decide

/-! ### non-vacuity -/

example : (Ctor.coll tMultiLineString [some ⟨.lineString, false, 0, 1⟩, some ⟨.linearRing, false, 2, 2⟩]).run =
    ⟨.ok 5, [.moved, .moved]⟩ := by decide
example : (Ctor.poly (some ⟨.linearRing, true, 0, 0⟩) [some ⟨.linearRing, false, 1, 1⟩]).run = ⟨.err, [.freed, .freed]⟩ := by decide
example : (Ctor.poly (some ⟨.lineString, false, 0, 1⟩) [none]).run = ⟨.err, [.freed, .null]⟩ := by decide
example : (Ctor.cpoly (some ⟨.compoundCurve, false, 0, 0⟩) [some ⟨.point, false, 1, 1⟩]).run = ⟨.err, [.freed, .freed]⟩ := by decide
example : (Ctor.ccurve [some ⟨.lineString, false, 0, 1⟩, some ⟨.circularString, false, 1, 2⟩]).run = ⟨.ok 9, [.moved, .moved]⟩ := by decide
example : (Ctor.ccurve [some ⟨.lineString, false, 0, 1⟩, some ⟨.circularString, false, 5, 2⟩]).run = ⟨.err, [.freed, .freed]⟩ := by decide
example : (Ctor.ring 3 false).run = ⟨.err, [.freed]⟩ ∧ (Ctor.ring 4 true).run = ⟨.ok 2, [.moved]⟩ ∧ (Ctor.point 1).run = ⟨.ok 0, [.freed]⟩ := by decide

end GeosModel.Api.Construct
