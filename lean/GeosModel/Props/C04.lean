import GeosModel.Proofs.Precision.RoundLemmas
import GeosModel.Proofs.Precision.SymRound
import GeosModel.Proofs.Precision.RoundF64
import GeosModel.Proofs.Precision.RoundNE
import GeosModel.Proofs.Precision.Glue
import GeosModel.Proofs.Precision.HotPixelLemmas
import GeosModel.Proofs.Precision.ReduceLemmas
import GeosModel.Proofs.Precision.CollapseLemmas
/-!
# C04 — fixed-precision results are on the grid, valid, near exact, and never fail

CORE theorems (FULL for the models of `java_math_round`, `PrecisionModel::makePrecise`, `HotPixel::intersects*`,
pointwise reduction; PARTIAL for the floating composition of `makePrecise`).  The remaining clauses of the
property (valid, within 2g of the exact result, never fails, KEEP_COLLAPSED) are SPEC+C: they are checked on every
output of the real operations by the exact oracle of `Model/Precision/Near.lean` (see checks/C04.py).

Models: `Model/Precision/Round.lean`, `HotPixel.lean`, `Reduce.lean`; proofs in `Proofs/Precision/*`.
-/
namespace GeosModel.Precision
open GeosModel

/-! ## 1. the rounding rule -/

/-- `java_math_round` (modelled branch for branch) is `⌊x + ½⌋`; the result is an integer within ½ of `x`,
no integer is closer, and it lies in `(x − ½, x + ½]`, i.e. exact ties go toward +∞ (`−2.5 ↦ −2`,
not "half away from zero"). -/
theorem javaRound_nearest (x : ℚ) :
    javaRound x = ⌊x + 1 / 2⌋ ∧
    |(javaRound x : ℚ) - x| ≤ 1 / 2 ∧
    (∀ k : ℤ, |(javaRound x : ℚ) - x| ≤ |(k : ℚ) - x|) ∧
    (x - 1 / 2 < (javaRound x : ℚ) ∧ (javaRound x : ℚ) ≤ x + 1 / 2) :=
  ⟨javaRound_eq_floor x, javaRound_abs_le x, javaRound_closest x, javaRound_mem x⟩

/-- ties: `k + ½ ↦ k + 1` for every integer `k`, negative ones included -/
theorem javaRound_ties_up (k : ℤ) : javaRound ((k : ℚ) + 1 / 2) = k + 1 := javaRound_tie k

example : javaRound (-(5 / 2) : ℚ) = -2 := by
  have h := javaRound_tie (-3); norm_num at h; exact h
example : javaRound (5 / 2 : ℚ) = 3 := by
  have h := javaRound_tie 2; norm_num at h; exact h
example : javaRound (-(1 / 2) : ℚ) = 0 := by
  have h := javaRound_tie (-1); norm_num at h; exact h

/-- "round half away from zero" (the wording of the property's mechanism note) is `sym_round`, the OTHER rounding function
of `src/util/math.cpp`, which `util::round` does not call (bridge `gen_round_eq`): the two agree on every argument except
the negative ties `k + ½ < 0`, where `sym_round` gives `k` and `java_math_round` gives `k + 1`. -/
theorem symRound_differs_only_at_negative_ties (x : ℚ) :
    symRound x = javaRound x ∨ (x < 0 ∧ (∃ k : ℤ, x = (k : ℚ) + 1 / 2) ∧ symRound x = javaRound x - 1) :=
  symRound_vs_javaRound x

/-- `sym_round` sends ties away from zero -/
theorem symRound_ties_away (k : ℤ) : symRound ((k : ℚ) + 1 / 2) = if 0 ≤ k then k + 1 else k := symRound_tie k

example : symRound (-(5 / 2) : ℚ) = -3 ∧ javaRound (-(5 / 2) : ℚ) = -2 := by
  constructor
  · have h := symRound_tie (-3); norm_num at h; exact h
  · have h := javaRound_tie (-3); norm_num at h; exact h

/-! ## 2. `makePrecise` over exact rationals -/

/-- over the rationals `makePrecise ∘ makePrecise = makePrecise`: both arithmetic branches and the branch selection
of `PrecisionModel::makePrecise` (whatever scale and grid size are) -/
theorem makePrecise_idem_exact :
    (∀ s x : ℚ, s ≠ 0 → makePreciseScale s (makePreciseScale s x) = makePreciseScale s x) ∧
    (∀ g x : ℚ, g ≠ 0 → makePreciseGrid g (makePreciseGrid g x) = makePreciseGrid g x) ∧
    (∀ s g x : ℚ, makePreciseQ s g (makePreciseQ s g (x)) = makePreciseQ s g x) :=
  ⟨makePreciseScale_idem, makePreciseGrid_idem, makePreciseQ_idem⟩

/-- "moves to the NEAREST grid point": the image is a grid value `k/s` (resp. `k·g`), at most half a cell away,
and no grid value is closer -/
theorem makePrecise_nearest_exact :
    (∀ s x : ℚ, 0 < s → (∃ k : ℤ, makePreciseScale s x = (k : ℚ) / s) ∧ |makePreciseScale s x - x| ≤ 1 / (2 * s) ∧
        ∀ k : ℤ, |makePreciseScale s x - x| ≤ |(k : ℚ) / s - x|) ∧
    (∀ g x : ℚ, 0 < g → (∃ k : ℤ, makePreciseGrid g x = (k : ℚ) * g) ∧ |makePreciseGrid g x - x| ≤ g / 2 ∧
        ∀ k : ℤ, |makePreciseGrid g x - x| ≤ |(k : ℚ) * g - x|) :=
  ⟨fun s x hs => ⟨⟨_, rfl⟩, makePreciseScale_near s x hs, makePreciseScale_closest s x hs⟩,
   fun g x hg => ⟨⟨_, rfl⟩, makePreciseGrid_near g x hg, makePreciseGrid_closest g x hg⟩⟩

/-! ## 3. `makePrecise` in binary64 (PARTIAL) -/

/-- FULL statement (NOT proved in this generality): the floating `makePrecise` of the model — `roundNE` after every
`*` and `/`, exactly what `PM.makePrecise` computes and what stream `precise` compares with the library bit for bit
— is idempotent on every finite double for every model built by `PrecisionModel(scale)` with a positive finite
scale, as long as the scaled value stays below 2^51. -/
def makePrecise_idem_f64_full : Prop :=
  ∀ (newScale v : F64.Val), vIsFin newScale = true → vLt zero newScale = true → vIsFin v = true →
    vLt (vFabs (mulF v (PM.setScale newScale).scale)) (.fin false (pow2 51) 0) = true →
    vLt (vFabs (divF v (PM.setScale newScale).gridSize)) (.fin false (pow2 51) 0) = true →
    (PM.setScale newScale).makePrecise ((PM.setScale newScale).makePrecise v) = (PM.setScale newScale).makePrecise v

/-- PARTIAL (bit-level model, scale branch = grid size ≤ 1).  For ANY positive finite scale `≤ 2^1022` — no power
of two or ten is needed — and any double `v`: if no intermediate result overflows (`y = v * scale`, the first result
`z = r / scale` and the product `z * scale` are finite) and the integer `r = java_math_round(y)` satisfies
`0 < |r| ≤ 2^50`, then `makePrecise (makePrecise v) = makePrecise v` as bit patterns.  (That `z` and `z * scale`
are normal numbers with a full 53-bit mantissa is derived, via the correctness of the binade selection.)
Missing w.r.t. `makePrecise_idem_f64_full`: (a) finiteness of the three intermediates is assumed rather than
derived from magnitude bounds; (b) `r = 0` (signed zeros); (c) `2^50 < |r| < 2^51`; (d) the grid branch
(`gridSize > 1`) at bit level — for it only the abstract composition is proved (`makePrecise_idem_f64_abstract`);
(e) that `PM.setScale` always yields such a model.  All of (a)–(e) are exercised by stream `precise`. -/
theorem makePrecise_idem_f64 (pm : PM) (ms : ℕ) (es : ℤ) (hs : pm.scale = .fin false ms es) (hms : ms ≠ 0)
    (hS : finRat false ms es ≤ 2 ^ (1022 : ℤ))
    (hg : vLt one pm.gridSize = false) (v : F64.Val)
    (ny : Bool) (my : ℕ) (ey : ℤ) (hy : mulF v pm.scale = .fin ny my ey)
    (hr0 : javaRound (finRat ny my ey) ≠ 0) (hr : (javaRound (finRat ny my ey)).natAbs ≤ 2 ^ 50)
    (nz : Bool) (mz : ℕ) (ez : ℤ) (hz : pm.makePrecise v = .fin nz mz ez)
    (ny' : Bool) (my' : ℕ) (ey' : ℤ) (hy' : mulF (.fin nz mz ez) pm.scale = .fin ny' my' ey') :
    pm.makePrecise (pm.makePrecise v) = pm.makePrecise v :=
  makePrecise_idem_model' pm ms es hs hms hS hg v ny my ey hy hr0 hr nz mz ez hz ny' my' ey' hy'

-- non-vacuity: PrecisionModel(1000.0), v = 1.2345 (bits 0x3ff3c083126e978d): y = 1234.5 ↦ r = 1235 ↦ z = 1.235
example : (PM.setScale (F64.decode 0x408f400000000000)).makePrecise
      ((PM.setScale (F64.decode 0x408f400000000000)).makePrecise (F64.decode 0x3ff3c083126e978d)) =
    (PM.setScale (F64.decode 0x408f400000000000)).makePrecise (F64.decode 0x3ff3c083126e978d) :=
  makePrecise_idem_f64 _ 8796093022208000 (-43) (by decide +kernel) (by decide)
    (le_trans (b := (2 : ℚ) ^ (10 : ℤ)) (by rw [finRat_eq]; norm_num) (zpow_le_zpow_right₀ (by norm_num) (by norm_num)))
    (by decide +kernel) _
    false 5429388417957888 (-42) (by decide +kernel) (by decide +kernel) (by decide +kernel)
    false 5561945539802563 (-52) (by decide +kernel)
    false 5431587441213440 (-42) (by decide +kernel)

/-- PARTIAL (any rounding function obeying the standard model, both branches): for the floating composition
`rnd(javaRound(rnd(x·s)) / s)` (scale branch) and `rnd(javaRound(rnd(x/g)) · g)` (grid branch), with ANY positive
scale or grid size, `makePrecise ∘ makePrecise = makePrecise` provided the integer `r` the first application
rounds to satisfies `|r| ≤ 2^50` and `rnd` has relative error `≤ 2^-53` (relative to the rounded value) at the two
operations of the second application. -/
theorem makePrecise_idem_f64_abstract (rnd : ℚ → ℚ) :
    (∀ s x : ℚ, 0 < s →
      |(javaRound (rnd (x * s)) : ℚ)| ≤ 2 ^ 50 →
      |mpScale rnd s x - (javaRound (rnd (x * s)) : ℚ) / s| ≤ (2 : ℚ)⁻¹ ^ 53 * |mpScale rnd s x| →
      |rnd (mpScale rnd s x * s) - mpScale rnd s x * s| ≤ (2 : ℚ)⁻¹ ^ 53 * |rnd (mpScale rnd s x * s)| →
      mpScale rnd s (mpScale rnd s x) = mpScale rnd s x) ∧
    (∀ g x : ℚ, 0 < g →
      |(javaRound (rnd (x / g)) : ℚ)| ≤ 2 ^ 50 →
      |mpGrid rnd g x - (javaRound (rnd (x / g)) : ℚ) * g| ≤ (2 : ℚ)⁻¹ ^ 53 * |mpGrid rnd g x| →
      |rnd (mpGrid rnd g x / g) - mpGrid rnd g x / g| ≤ (2 : ℚ)⁻¹ ^ 53 * |rnd (mpGrid rnd g x / g)| →
      mpGrid rnd g (mpGrid rnd g x) = mpGrid rnd g x) :=
  ⟨fun s x hs => mpScale_idem rnd s x hs, fun g x hg => mpGrid_idem rnd g x hg⟩

/-- the model's `roundNE` (`roundMag`: exact round-to-nearest-even of `a/d` to a 53-bit mantissa) obeys that
standard model on the normal range: if the result is `m·2^e` with a full mantissa (`2^52 ≤ m`), then
`|m·2^e − a/d| ≤ 2^-53 · (m·2^e)`; and it converts integers below 2^53 exactly. -/
theorem roundNE_relative_error (a d m : ℕ) (e : ℤ) (ha : 0 < a) (hd : 0 < d)
    (h : roundMag a d = some (m, e)) (hn : 2 ^ 52 ≤ m) :
    |(m : ℚ) * 2 ^ e - (a : ℚ) / d| ≤ (2 : ℚ)⁻¹ ^ 53 * ((m : ℚ) * 2 ^ e) :=
  roundMag_rel_err a d m e ha hd h hn

theorem roundNE_int_exact (z : Bool) (r : ℤ) (h0 : r ≠ 0) (hb : r.natAbs < 2 ^ 53) :
    ∃ m e, ofInt z r = .fin (decide (r < 0)) m e ∧ finRat (decide (r < 0)) m e = r ∧ m ≠ 0 :=
  ofInt_exact z r h0 hb

/-! ## 4. hot pixels -/

/-- `HotPixel::intersectsScaled` returns true **iff** the closed segment `p0 p1` has a point in the half-open pixel
`[minx, maxx) × [miny, maxy)`: "every segment passing through a pixel is noded there", including the open
Top/Right sides and the four corner rules (UL, UR, LR excluded, LL included).  Ordinates are integers in a common
unit (doubles scaled by a power of two); `t` ranges over the rationals. -/
theorem hotpixel_iff (h : Px) (hw : h.minx < h.maxx) (hh : h.miny < h.maxy) (p0x p0y p1x p1y : ℤ) :
    intersectsScaled h p0x p0y p1x p1y = true ↔
      ∃ t : ℚ, 0 ≤ t ∧ t ≤ 1 ∧
        (h.minx : ℚ) ≤ p0x + t * (p1x - p0x) ∧ (p0x : ℚ) + t * (p1x - p0x) < h.maxx ∧
        (h.miny : ℚ) ≤ p0y + t * (p1y - p0y) ∧ (p0y : ℚ) + t * (p1y - p0y) < h.maxy :=
  intersectsScaled_iff h hw hh p0x p0y p1x p1y

/-- the same for a pixel centred at the integer point `(hx, hy)` with all coordinates doubled: the pixel is
`[hx − ½, hx + ½) × [hy − ½, hy + ½)` and the segment runs from `(P0x/2, P0y/2)` to `(P1x/2, P1y/2)` -/
theorem hotpixel_iff_centre (hx hy P0x P0y P1x P1y : ℤ) :
    intersectsScaled (Px.ofCentre2 hx hy) P0x P0y P1x P1y = true ↔
      ∃ t : ℚ, 0 ≤ t ∧ t ≤ 1 ∧
        (hx : ℚ) - 1 / 2 ≤ P0x / 2 + t * ((P1x : ℚ) / 2 - P0x / 2) ∧ (P0x : ℚ) / 2 + t * ((P1x : ℚ) / 2 - P0x / 2) < hx + 1 / 2 ∧
        (hy : ℚ) - 1 / 2 ≤ P0y / 2 + t * ((P1y : ℚ) / 2 - P0y / 2) ∧ (P0y : ℚ) / 2 + t * ((P1y : ℚ) / 2 - P0y / 2) < hy + 1 / 2 := by
  rw [hotpixel_iff _ (by simp only [Px.ofCentre2, Px.ofCentre]; omega) (by simp only [Px.ofCentre2, Px.ofCentre]; omega)]
  simp only [Px.ofCentre2, Px.ofCentre]
  push_cast
  constructor <;> rintro ⟨t, h0, h1, a, b, c, d⟩ <;> exact ⟨t, h0, h1, by linarith, by linarith, by linarith, by linarith⟩

/-- `HotPixel::intersects(p)`: membership in the half-open pixel -/
theorem hotpixel_point_iff (h : Px) (x y : ℤ) :
    intersectsPt h x y = true ↔ (h.minx ≤ x ∧ x < h.maxx ∧ h.miny ≤ y ∧ y < h.maxy) :=
  intersectsPt_iff h x y

/-- a vertex is in its own pixel, and a segment is noded at the pixels of its endpoints -/
theorem hotpixel_endpoint (h : Px) (hw : h.minx < h.maxx) (hh : h.miny < h.maxy) (p0x p0y p1x p1y : ℤ)
    (hp : intersectsPt h p0x p0y = true) : intersectsScaled h p0x p0y p1x p1y = true := by
  rw [hotpixel_iff h hw hh]
  rw [hotpixel_point_iff] at hp
  obtain ⟨a, b, c, d⟩ := hp
  exact ⟨0, le_refl _, by norm_num, by simpa using (by exact_mod_cast a : (h.minx : ℚ) ≤ p0x),
    by simpa using (by exact_mod_cast b : (p0x : ℚ) < h.maxx), by simpa using (by exact_mod_cast c : (h.miny : ℚ) ≤ p0y),
    by simpa using (by exact_mod_cast d : (p0y : ℚ) < h.maxy)⟩

-- non-vacuity: the four corner rules on the pixel [-1,1)² (unit ½, centre 0)
example : intersectsScaled (Px.ofCentre2 0 0) (-3) (-1) 1 3 = false := by decide    -- upward through UL
example : intersectsScaled (Px.ofCentre2 0 0) (-3) 3 1 (-1) = true := by decide     -- downward through UL
example : intersectsScaled (Px.ofCentre2 0 0) (-1) (-1) 3 3 = true := by decide     -- upward through UR (and LL)
example : intersectsScaled (Px.ofCentre2 0 0) (-1) 3 3 (-1) = false := by decide    -- downward through UR
example : intersectsScaled (Px.ofCentre2 0 0) (-3) 1 1 (-3) = true := by decide     -- downward through LL only
example : intersectsScaled (Px.ofCentre2 0 0) (-1) (-3) 3 1 = false := by decide    -- upward through LR
example : intersectsScaled (Px.ofCentre2 0 0) 1 (-2) 1 2 = false := by decide       -- on the open Right side
example : intersectsScaled (Px.ofCentre2 0 0) (-1) (-2) (-1) 2 = true := by decide  -- on the closed Left side
example : intersectsScaled (Px.ofCentre2 0 0) (-2) 1 2 1 = false := by decide       -- on the open Top side
example : intersectsScaled (Px.ofCentre2 0 0) (-2) (-1) 2 (-1) = true := by decide  -- on the closed Bottom side

/-! ## 5. pointwise reduction -/

/-- `GEOS_PREC_NO_TOPO`: the reduced tree has the same skeleton (types, nesting, dimension flags, ring and vertex
counts, order), its coordinates are the input coordinates in order, each with X and Y replaced by `makePrecise`
(bitwise, the floating model) and Z, M untouched — "moves every vertex to its grid point and nothing else".
That the grid point is the *nearest* one is `makePrecise_nearest_exact` for the exact rule. -/
theorem pointwise_moves_to_nearest (pm : PM) (g : G) :
    skeleton (pointwise pm g) = skeleton g ∧
    coordsG (pointwise pm g) = (coordsG g).map (roundC pm) ∧
    (coordsG (pointwise pm g)).length = (coordsG g).length ∧
    ∀ c : Coord, (roundC pm c).x = pm.makePreciseBits c.x ∧ (roundC pm c).y = pm.makePreciseBits c.y ∧
      (roundC pm c).z = c.z ∧ (roundC pm c).m = c.m :=
  ⟨skeleton_pointwise pm g, coords_pointwise pm g, by rw [coords_pointwise]; simp, roundC_spec pm⟩

/-! ## 6. an operand that collapses completely

Ported decision core of `OverlayNG::computeEdgeOverlay` (the two `setCollapsed` calls), `InputGeometry::locatePointInArea`,
`OverlayLabeller::labelDisconnectedEdge` / `locateEdgeBothEnds` and `OverlayNG::isResultOfOp`
(`Model/Precision/Collapse.lean`).  The API-level consequences are checked on the real operations by stream `collapse`. -/

/-- a vertex chain (ring or line) keeps no edge under rounding iff all of its vertices round to one and the same point -/
theorem chain_collapses_iff {α β : Type} [DecidableEq β] (rd : α → β) (chain : List α) :
    Collapse.keepsEdge rd chain = false ↔ Collapse.allSame rd chain = true :=
  Collapse.keepsEdge_false_iff rd chain

/-- **collapsed_operand_is_exterior**: with the flags `computeEdgeOverlay` sets, an operand none of whose own edges
survived noding is EXTERIOR at every point and for every disconnected edge of the other operand — the answer of the
locator of its original, un-rounded geometry is never consulted; an operand that kept an edge is located by its own locator -/
theorem collapsed_operand_is_exterior {P : Type} (hasEdgesFor empty area : Fin 2 → Bool)
    (locator : Fin 2 → P → Collapse.Loc) (i : Fin 2) :
    (hasEdgesFor i = false → ∀ orig dest : P,
      Collapse.locatePointInArea (Collapse.inputAfterNoding hasEdgesFor empty area locator) i orig = .exterior ∧
      Collapse.labelDisconnectedEdge (Collapse.inputAfterNoding hasEdgesFor empty area locator) i orig dest = .exterior) ∧
    (hasEdgesFor i = true → empty i = false → ∀ pt : P,
      Collapse.locatePointInArea (Collapse.inputAfterNoding hasEdgesFor empty area locator) i pt = locator i pt) :=
  ⟨fun h orig dest => ⟨Collapse.locate_collapsed hasEdgesFor empty area locator i h orig,
                       Collapse.label_collapsed hasEdgesFor empty area locator i h orig dest⟩,
   fun h he pt => Collapse.locate_not_collapsed hasEdgesFor empty area locator i h he pt⟩

/-- **collapse_laws**: where the second operand is EXTERIOR, intersection selects nothing and union, difference and
symmetric difference select exactly the same edges (those not EXTERIOR to the first operand); where the first operand is
EXTERIOR, intersection and difference select nothing and union and symmetric difference agree -/
theorem collapse_laws (l : Collapse.Loc) :
    (Collapse.isResultOfOp .intersection l .exterior = false ∧
     Collapse.isResultOfOp .union l .exterior = decide (l ≠ .exterior) ∧
     Collapse.isResultOfOp .difference l .exterior = decide (l ≠ .exterior) ∧
     Collapse.isResultOfOp .symdifference l .exterior = decide (l ≠ .exterior)) ∧
    (Collapse.isResultOfOp .intersection .exterior l = false ∧
     Collapse.isResultOfOp .difference .exterior l = false ∧
     Collapse.isResultOfOp .union .exterior l = decide (l ≠ .exterior) ∧
     Collapse.isResultOfOp .symdifference .exterior l = decide (l ≠ .exterior)) :=
  ⟨Collapse.ops_second_exterior l, Collapse.ops_first_exterior l⟩

-- non-vacuity: a triangle inside one cell keeps no edge, one spanning two cells does (rounding = nearest integer of 10ths)
example : Collapse.keepsEdge (fun p : Int × Int => ((p.1 + 5) / 10, (p.2 + 5) / 10)) [(47, 48), (53, 48), (50, 54), (47, 48)] = false := by decide
example : Collapse.keepsEdge (fun p : Int × Int => ((p.1 + 5) / 10, (p.2 + 5) / 10)) [(47, 48), (57, 48), (50, 54), (47, 48)] = true := by decide
-- the flag of operand 1 comes from operand 1's edges: A kept edges, B did not => only B is located EXTERIOR
example :
    let inp := Collapse.inputAfterNoding (P := Unit) (fun i => i = 0) (fun _ => false) (fun _ => true) (fun _ _ => .interior)
    Collapse.labelDisconnectedEdge inp 1 () () = .exterior ∧ Collapse.labelDisconnectedEdge inp 0 () () = .interior := by decide

end GeosModel.Precision
