import GeosModel.Model.Api.Precond
/-!
# C12, section D — the documented life cycle of an STRtree ("no more items may be added" once built)

Theorems about `Model/Api/Precond.lean` (`TreeLife`), the part of legality that is not ownership.  They say that the
filter applied by the driver accepts exactly the sequences that never insert into a tree after a building call on it.
-/
namespace GeosModel.Api.TreeLife

/-- the trees built so far only grow -/
theorem step_mono (built : List Nat) (fn : String) (t : Option Nat) (b : List Nat) (h : step built fn t = some b) :
    ∀ x ∈ built, x ∈ b := by
  unfold step at h
  cases t with
  | none => simp at h; subst h; exact fun _ hx => hx
  | some t =>
    simp only at h
    split at h
    · split at h
      · simp at h
      · simp at h; subst h; exact fun _ hx => hx
    · split at h
      · simp at h; subst h; exact fun _ hx => List.mem_cons_of_mem _ hx
      · simp at h; subst h; exact fun _ hx => hx

/-- a building call records its tree -/
theorem step_builder (built : List Nat) (fn : String) (t : Nat) (hb : builders.contains fn = true) :
    step built fn (some t) = some (t :: built) := by
  have hne : (fn == inserter) = false := by
    unfold builders inserter at *
    simp only [List.contains_cons, List.contains_nil, Bool.or_false, Bool.or_eq_true, beq_iff_eq] at hb
    rcases hb with h | h | h | h | h <;> subst h <;> decide
  have hb2 : fn ∈ builders := by simpa using hb
  simp [step, hne, hb2]

/-- **an insertion is refused exactly when its tree was built before** -/
theorem step_insert (built : List Nat) (t : Nat) :
    step built inserter (some t) = if built.contains t then none else some built := by
  simp [step]

theorem run_mono : ∀ (cs : List (String × Option Nat)) (built b : List Nat), run built cs = some b → ∀ x ∈ built, x ∈ b
  | [], built, b, h => by simp [run] at h; subst h; exact fun _ hx => hx
  | (fn, t) :: rest, built, b, h => by
    simp only [run] at h
    cases hs : step built fn t with
    | none => simp [hs] at h
    | some b1 =>
      simp only [hs] at h
      intro x hx
      exact run_mono rest b1 b h x (step_mono built fn t b1 hs x hx)

/-- **soundness of the filter**: a sequence is refused whenever it contains a building call on a tree followed, anywhere
later, by an insertion into the same tree -/
theorem run_refuses_insert_after_build (pre mid post : List (String × Option Nat)) (fn : String) (t : Nat) (built : List Nat)
    (hb : builders.contains fn = true) :
    run built (pre ++ (fn, some t) :: mid ++ (inserter, some t) :: post) = none := by
  induction pre generalizing built with
  | cons c pre ih =>
    obtain ⟨f, a⟩ := c
    simp only [List.cons_append, run]
    cases step built f a with
    | none => rfl
    | some b1 => exact ih b1
  | nil =>
    simp only [List.nil_append, List.cons_append, run, step_builder built fn t hb]
    -- from here on `t` is in the state
    have key : ∀ (mid : List (String × Option Nat)) (b : List Nat), t ∈ b → run b (mid ++ (inserter, some t) :: post) = none := by
      intro mid
      induction mid with
      | nil =>
        intro b hb'
        simp only [List.nil_append, run, step_insert]
        simp [hb']
      | cons c mid ih2 =>
        intro b hb'
        obtain ⟨f, a⟩ := c
        simp only [List.cons_append, run]
        cases hs : step b f a with
        | none => rfl
        | some b1 => exact ih2 b1 (step_mono b f a b1 hs t hb')
    exact key mid (t :: built) (by simp)

/-- **completeness**: a sequence in which no insertion into a tree comes after a building call on that tree (and none of the
trees was built at the start) is accepted -/
theorem run_accepts (cs : List (String × Option Nat)) (built : List Nat)
    (h : ∀ pre t post, cs = pre ++ (inserter, some t) :: post →
      t ∉ built ∧ ∀ fn, builders.contains fn = true → (fn, some t) ∉ pre) :
    (run built cs).isSome = true := by
  induction cs generalizing built with
  | nil => simp [run]
  | cons c rest ih =>
    obtain ⟨f, a⟩ := c
    simp only [run]
    cases hs : step built f a with
    | none =>
      -- only an insertion into a built tree is refused
      exfalso
      unfold step at hs
      cases a with
      | none => simp at hs
      | some t =>
        simp only at hs
        split at hs
        · rename_i hf
          split at hs
          · rename_i hc
            have hf' : f = inserter := by simpa using hf
            subst hf'
            have := (h [] t rest rfl).1
            exact this (by simpa using hc)
          · simp at hs
        · split at hs <;> simp at hs
    | some b1 =>
      simp only
      apply ih b1
      intro pre t post hcs
      have h0 := h ((f, a) :: pre) t post (by simp [hcs])
      refine ⟨?_, fun fn hfn hmem => h0.2 fn hfn (List.mem_cons_of_mem _ hmem)⟩
      -- `t ∉ b1`: the state grew only by the tree of a building call, and `(f, a)` is no building call on `t`
      intro hmem
      unfold step at hs
      cases a with
      | none => simp at hs; subst hs; exact h0.1 hmem
      | some u =>
        simp only at hs
        split at hs
        · split at hs
          · simp at hs
          · simp at hs; subst hs; exact h0.1 hmem
        · split at hs
          · rename_i hb
            simp at hs; subst hs
            rcases List.mem_cons.mp hmem with rfl | hm
            · exact h0.2 f hb (by simp)
            · exact h0.1 hm
          · simp at hs; subst hs; exact h0.1 hmem

/-! non-vacuity: insert, insert, query, iterate is fine; an insert after the query is refused; iterate does not build -/
example : (run [] [("GEOSSTRtree_insert_r", some 0), ("GEOSSTRtree_insert_r", some 0), ("GEOSSTRtree_query_r", some 0),
    ("GEOSSTRtree_iterate_r", some 0)]) = some [0] := by decide
example : (run [] [("GEOSSTRtree_insert_r", some 0), ("GEOSSTRtree_query_r", some 0), ("GEOSSTRtree_insert_r", some 0)]) = none := by decide
example : (run [] [("GEOSSTRtree_insert_r", some 0), ("GEOSSTRtree_iterate_r", some 0), ("GEOSSTRtree_insert_r", some 0)]) = some [] := by decide
example : (run [] [("GEOSSTRtree_query_r", some 0), ("GEOSSTRtree_insert_r", some 1)]) = some [0] := by decide

end GeosModel.Api.TreeLife
