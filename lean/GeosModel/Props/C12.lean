import GeosModel.Generated.Api
import GeosModel.Model.Api.Bridge
import GeosModel.Proofs.Api.HeapLemmas
/-!
# C12 — any legal C API call sequence is contained: error codes, no crash, no aliasing

Two groups of theorems.

**A. The generated table** (`GeosModel/Generated/Api.lean`, rewritten from `capi/geos_c.h.in` and
`capi/geos_ts_c.cpp` by `translate/api_table.py` on every run).  The quantifier `∀ e ∈ apiTable` *is* the
finite set of reentrant entry points of the current source, so evaluation by the kernel is a proof.  A
changed error literal, a removed `execute`, a dropped `setSRID` changes the table and the proof fails.

**B. The ownership discipline** (`Model/Api/Heap.lean`): for every call sequence accepted by `run`
(all finite sequences, by induction) no object is used, borrowed or viewed after it died, results get
fresh ids, a call changes only what its signature lets it change, and destroying every caller-owned
object leaves nothing alive.

That the C++ honours the contract (and never crashes, leaks or hangs while doing so) is *not* proved; it is
observed by the sanitizer-instrumented correspondence run (`harness/c12.cpp` ↔ `Driver/C12.lean`).
-/
namespace GeosModel.Api
open GeosModel.Generated

/-! ## A. table theorems -/

/-- every entry point that documents an error value implements exactly that value -/
theorem api_errval_matches_doc : ∀ e ∈ apiTable, e.errvalMatchesDoc = true := by decide +kernel

/-- entry points that are allowed to run without exception protection: context creation/destruction,
the handler setters, `free`, and three `delete`s of plain parameter structs -/
def unwrappedAllowed : List String :=
  ["GEOSBufferParams_destroy_r", "GEOSClusterInfo_destroy_r",
   "GEOSContext_setErrorHandler_r", "GEOSContext_setErrorMessageHandler_r",
   "GEOSContext_setNoticeHandler_r", "GEOSContext_setNoticeMessageHandler_r",
   "GEOSFree_r", "GEOSMakeValidParams_destroy_r", "GEOS_finish_r", "GEOS_init_r", "finishGEOS_r", "initGEOS_r"]

/-- every other entry point runs inside `execute` (directly, or only by calling entry points that do) or
inside a hand-written `try/catch(...)` -/
theorem api_all_wrapped : ∀ e ∈ apiTable, e.guarded = true ∨ e.name ∈ unwrappedAllowed := by decide +kernel

/-- the allow-list is tight: it is exactly the list of unprotected entry points (in table order) -/
theorem api_unwrapped_exact : (apiTable.filter (fun e => !e.guarded)).map (·.name) = unwrappedAllowed := by
  decide +kernel

/-- every predicate returning `char` reports an exception as 2 -/
theorem api_bool_promoted : ∀ e ∈ apiTable, e.boolPromoted = true := by decide +kernel

/-- pointer-returning entry points fail with NULL (never with another literal) -/
theorem api_ptr_null : ∀ e ∈ apiTable, e.ptrNull = true := by decide +kernel

/-- pointer-returning entry points without any error path: only context creation -/
theorem api_ptr_has_err_path : ∀ e ∈ apiTable, e.ret = .ptr → e.hasErrPath = true ∨ e.name ∈ ["GEOS_init_r", "initGEOS_r"] := by
  decide +kernel

/-- constructive operations that take the SRID of the result from their first geometry argument -/
def sridFromFirstList : List String :=
  ["GEOSBoundary_r", "GEOSBufferWithParams_r", "GEOSBufferWithStyle_r", "GEOSBuffer_r", "GEOSBuildArea_r",
   "GEOSClipByRect_r", "GEOSConcaveHullByLength_r", "GEOSConcaveHullOfPolygons_r", "GEOSConcaveHull_r",
   "GEOSConstrainedDelaunayTriangulation_r", "GEOSConvexHull_r", "GEOSCoverageSimplifyVW_r", "GEOSCoverageUnion_r", "GEOSDelaunayTriangulation_r",
   "GEOSDensify_r", "GEOSDifferencePrec_r", "GEOSDifference_r", "GEOSDisjointSubsetUnion_r", "GEOSEnvelope_r",
   "GEOSGeomGetEndPoint_r", "GEOSGeomGetPointN_r", "GEOSGeomGetStartPoint_r", "GEOSGeom_extractUniquePoints_r",
   "GEOSGeom_setPrecision_r", "GEOSGetCentroid_r", "GEOSInterpolateNormalized_r", "GEOSInterpolate_r",
   "GEOSIntersectionPrec_r", "GEOSIntersection_r", "GEOSLargestEmptyCircle_r", "GEOSLineMergeDirected_r",
   "GEOSLineMerge_r", "GEOSLineSubstring_r", "GEOSMakeValidWithParams_r", "GEOSMakeValid_r",
   "GEOSMaximumInscribedCircle_r", "GEOSMinimumBoundingCircle_r", "GEOSMinimumClearanceLine_r",
   "GEOSMinimumRotatedRectangle_r", "GEOSMinimumWidth_r", "GEOSNode_r", "GEOSOffsetCurve_r", "GEOSPointOnSurface_r",
   "GEOSPolygonHullSimplifyMode_r", "GEOSPolygonHullSimplify_r", "GEOSPolygonize_full_r", "GEOSRemoveRepeatedPoints_r",
   "GEOSReverse_r", "GEOSSharedPaths_r", "GEOSSimplify_r", "GEOSSingleSidedBuffer_r", "GEOSSnap_r",
   "GEOSSymDifferencePrec_r", "GEOSSymDifference_r", "GEOSTopologyPreserveSimplify_r", "GEOSUnaryUnionPrec_r",
   "GEOSUnaryUnion_r", "GEOSUnionPrec_r", "GEOSUnion_r", "GEOSVoronoiDiagram_r"]

/-- constructive operations whose body has **no** `setSRID(first->getSRID())`.  The first group keeps the
SRID by construction (the result is a copy of the argument, or is built by the argument's factory); whether the SRID
really arrives is observed at run time by the `api-seq` stream for every constructive call.  (Five functions that were
listed here as findings — `GEOSGeomGetPointN/StartPoint/EndPoint_r`, `GEOSConstrainedDelaunayTriangulation_r`,
`GEOSGeom_setPrecision_r` — were repaired in /repo by commit 4f07ce3c6 and are now in `sridFromFirstList`; `GEOSCoverageSimplifyVW_r`,
whose result carried the SRID of the factory, by e7874c13b.) -/
def sridNotSyntactic : List String :=
  ["GEOSGeom_clone_r", "GEOSGeom_transformXY_r", "GEOSGeom_transformXYZ_r", "GEOSUnionCascaded_r",
   -- operations on arrays of geometries (no single "first argument")
   "GEOSPolygonize_r", "GEOSPolygonize_valid_r", "GEOSPolygonizer_getCutEdges_r"]

/-- the constructive entry points that set the SRID of their result from their first geometry argument
are exactly the functions of the explicit list (in table order): each of them exists, is constructive and
has the `setSRID(first->getSRID())` -/
theorem api_srid_from_first :
    (apiTable.filter (fun e => e.isConstructive && e.sridFromFirst)).map (·.name) = sridFromFirstList := by
  decide +kernel

/-- *every* constructive entry point of the current source either sets the SRID from its first argument
or is named in `sridNotSyntactic`: a new constructive function without SRID handling cannot slip in
unnoticed -/
theorem api_constructive_classified :
    ∀ e ∈ apiTable, e.isConstructive = true → e.sridFromFirst = true ∨ e.name ∈ sridNotSyntactic := by
  decide +kernel

/-- every entry point gets a result specification, and borrowed results only come from functions with an
object argument to own them (so the model's `borrowed` legality condition can be met) -/
theorem api_borrowed_has_parent :
    ∀ e ∈ apiTable, e.retBorrowed = true →
      (e.params.any (fun p => match p.cls with | .obj _ => p.mode != .consume | _ => false)) = true := by
  decide +kernel

/-- the table theorems are not vacuous: the translator found the entry points, their documentation and their
protection (a silent loss of, say, all "on exception" phrases would make `api_errval_matches_doc` trivially true) -/
theorem api_table_nonvacuous :
    250 ≤ apiTable.length ∧
    165 ≤ (apiTable.filter (fun e => e.docErr.isSome)).length ∧
    35 ≤ (apiTable.filter (fun e => e.ret == .charBool)).length ∧
    100 ≤ (apiTable.filter (fun e => e.ret == .ptr)).length ∧
    250 ≤ (apiTable.filter (fun e => e.wrap == .execute)).length ∧
    20 ≤ (apiTable.filter (fun e => e.params.any (fun p => p.mode == .consume))).length ∧
    (lookup apiTable "GEOSDisjoint_r").any (fun e => e.docErr == some (.int 2) && e.implErr == some (.int 2) && e.wrap == .execute) = true ∧
    (lookup apiTable "GEOSBuffer_r").any (fun e => e.docErr == some .null && e.implErr == some .null && e.sridFromFirst) = true ∧
    (lookup apiTable "GEOSGeomGetNumPoints_r").any (fun e => e.docErr == some (.int (-1)) && e.implErr == some (.int (-1))) = true ∧
    (lookup apiTable "GEOSArea_r").any (fun e => e.docErr == some (.int 0) && e.implErr == some (.int 0)) = true := by
  decide +kernel

/-! ## B. the ownership discipline, for all call sequences -/

/-- **no dangling, one call**: a legal call only receives live objects of the declared kind -/
theorem legal_call_args_live (h : Heap) (c : Call) (obs : Obs) (h' : Heap) (out : Outcome)
    (hs : step h c obs = .ok (h', out)) : ∀ i ∈ c.allIds, isLive h i = true := by
  obtain ⟨hl, _, _⟩ := (step_ok_iff h c obs h' out).mp hs
  intro i hi
  obtain ⟨o, hg, hlive⟩ := hl.arg_live i hi
  simp [isLive, hg, hlive]

/-- **legal_seq_no_dangling**: along any call sequence accepted from the empty heap, at every call
(1) every argument is live, and (2) the heap is well formed, i.e. every live view has a live parent and
everything a live object borrows (the base of a prepared geometry, the items of a tree) is live — no
object that the C side may still dereference has been freed. -/
theorem legal_seq_no_dangling (pre post : List (Call × Obs)) (c : Call) (obs : Obs) (h' : Heap) (outs : List Outcome)
    (hr : run [] (pre ++ (c, obs) :: post) = .ok (h', outs)) :
    ∃ hk outs1, run [] pre = .ok (hk, outs1) ∧ WF hk ∧ (∀ i ∈ c.allIds, isLive hk i = true) ∧ WF h' := by
  obtain ⟨hk, o1, o2, h1, h2, _⟩ := run_append pre ((c, obs) :: post) [] h' outs hr
  have wfk : WF hk := run_wf pre [] hk o1 wf_nil h1
  obtain ⟨out, outs', hl, _, _, _⟩ := run_cons_ok hk c obs post h' o2 h2
  refine ⟨hk, o1, h1, wfk, ?_, run_wf _ [] h' outs wf_nil hr⟩
  intro i hi
  obtain ⟨o, hg, hlive⟩ := hl.arg_live i hi
  simp [isLive, hg, hlive]

/-- using an object after it was consumed (destroyed, or given to a constructor) is rejected -/
theorem use_after_consume_illegal (h : Heap) (c : Call) (obs : Obs) (i : Id) (hi : i ∈ c.allIds)
    (hd : isLive h i = false) : ∃ e, step h c obs = .error e := by
  cases hs : step h c obs with
  | error e => exact ⟨e, rfl⟩
  | ok p =>
    obtain ⟨h', out⟩ := p
    have := legal_call_args_live h c obs h' out hs i hi
    rw [hd] at this; cases this

/-- **results_fresh**: the ids of the results of a call are not ids of any object of the heap before the
call (live or dead), are pairwise distinct, and name live objects afterwards: a result never aliases an
existing object -/
theorem results_fresh (h : Heap) (c : Call) (obs : Obs) (h' : Heap) (ids : List Id)
    (hs : step h c obs = .ok (h', .result ids)) :
    (∀ i ∈ ids, h[i]? = none ∧ isLive h' i = true) ∧ ids.Nodup := by
  obtain ⟨hl, rfl, hout⟩ := (step_ok_iff h c obs _ _).mp hs
  cases obs with
  | err => simp [outcome] at hout
  | ok n =>
    have hids : ids = (List.range n).map (· + h.length) := by
      unfold outcome at hout
      cases hres : c.res <;> simp_all
    subst hids
    constructor
    · intro i hi
      simp only [List.mem_map, List.mem_range] at hi
      obtain ⟨k, hk, rfl⟩ := hi
      refine ⟨by rw [List.getElem?_eq_none_iff]; omega, ?_⟩
      -- the k-th new object
      have hlen : (newObjs h c n).length = n := by
        unfold newObjs
        have hobs := hl.obs
        cases hres : c.res with
        | none =>
          simp only [obsOk, hres, beq_iff_eq] at hobs
          subst hobs; omega
        | owned _ => simp
        | ownedMany _ => simp
        | borrowed _ => simp
      have hget : (apply h c (.ok n))[k + h.length]? = (newObjs h c n)[k]? := by
        simp only [apply]
        rw [List.getElem?_append_right (by simp)]
        simp
      have hk' : k < (newObjs h c n).length := by omega
      have hlive : ((newObjs h c n)[k]).live = true := newObjs_live h c n _ (List.getElem_mem hk')
      simp only [isLive, hget, List.getElem?_eq_getElem hk', hlive]
    · exact range_shift_nodup n h.length

/-- **const_args_unchanged**: a call changes only the objects its signature lets it consume or modify
(and the views into them): every other object — in particular every `const` argument and every object
that was not passed at all — is bit-for-bit the same record afterwards -/
theorem const_args_unchanged (h : Heap) (c : Call) (obs : Obs) (h' : Heap) (out : Outcome)
    (hs : step h c obs = .ok (h', out)) (i : Id) (o : Obj) (hg : h[i]? = some o)
    (hi : i ∉ c.excl) (hp : ∀ p, o.owner = some p → p ∉ c.excl) : h'[i]? = some o := by
  obtain ⟨_, rfl, _⟩ := (step_ok_iff h c obs _ _).mp hs
  have hlt : i < h.length := (List.getElem?_eq_some_iff.mp hg).1
  rw [apply_old h c obs i hlt, hg]
  simp [touch_untouched c _ i o hi hp]

/-- read-only arguments of a legal call are among the unchanged objects -/
theorem readOnly_arg_unchanged (h : Heap) (c : Call) (obs : Obs) (h' : Heap) (out : Outcome)
    (hs : step h c obs = .ok (h', out)) (i : Id) (hi : i ∈ c.readOnly) : h'[i]? = h[i]? := by
  obtain ⟨hl, _, _⟩ := (step_ok_iff h c obs _ _).mp hs
  obtain ⟨o, hg, hlive⟩ := hl.arg_live i (idsOf_sub_allIds c _ i hi)
  rw [hg]
  have hsep := hl.sep i hi
  refine const_args_unchanged h c obs h' out hs i o hg ?_ ?_
  · cases ho : o.owner with
    | none => rw [root_of_owned i o hg ho] at hsep; exact hsep
    | some p =>
      -- a view is never in the consumed/modified set: those are caller-owned
      intro hh
      obtain ⟨⟨o2, hg2, ho2⟩, _⟩ := hl.excl_owned i hh
      rw [hg] at hg2; cases hg2
      rw [ho] at ho2; cases ho2
  · intro p ho
    have : root h i = p := by simp [root, hg, ho]
    rw [this] at hsep; exact hsep

/-- **finish_no_leak**: if every caller-owned object that exists at the end of an accepted sequence was
consumed somewhere in it (destroyed — or handed to a constructor; a second destruction would have been
rejected by `use_after_consume_illegal`), then nothing is alive at `GEOS_finish_r`: views and borrowers
cannot outlive what they depend on -/
theorem finish_no_leak (cs : List (Call × Obs)) (h' : Heap) (outs : List Outcome)
    (hr : run [] cs = .ok (h', outs))
    (hall : ∀ (i : Id) (o : Obj), h'[i]? = some o → o.owner = none → i ∈ consumedAll cs) :
    ∀ o ∈ h', o.live = false := by
  have wf : WF h' := run_wf cs [] h' outs wf_nil hr
  have hdead := run_consumed_dead cs [] h' outs [] (by intro i hi; simp at hi) hr
  intro o ho
  obtain ⟨i, hg⟩ := List.mem_iff_getElem?.mp ho
  cases hlive : o.live with
  | false => rfl
  | true =>
    cases hown : o.owner with
    | none =>
      obtain ⟨o2, hg2, hd⟩ := hdead i (Or.inr (hall i o hg hown))
      rw [hg] at hg2; cases hg2
      rw [hlive] at hd; cases hd
    | some p =>
      obtain ⟨po, hpg, hpl, hpo⟩ := wf.owner i o p hg hlive hown
      obtain ⟨o2, hg2, hd⟩ := hdead p (Or.inr (hall p po hpg hpo))
      rw [hpg] at hg2; cases hg2
      rw [hpl] at hd; cases hd

/-- **error_is_documented**: when the model reports an error outcome its value is the table's value for
that entry point, and no object was created -/
theorem error_is_documented (h : Heap) (c : Call) (obs : Obs) (h' : Heap) (v : Option ErrVal)
    (hs : step h c obs = .ok (h', .error v)) : v = c.errv ∧ obs = .err ∧ h'.length = h.length := by
  obtain ⟨_, rfl, hout⟩ := (step_ok_iff h c obs _ _).mp hs
  cases obs with
  | err =>
    simp only [outcome, Outcome.error.injEq] at hout
    exact ⟨hout, rfl, by simp [apply]⟩
  | ok n =>
    unfold outcome at hout
    cases hres : c.res <;> simp_all

/-! ## non-vacuity: concrete signatures from the generated table, a legal history, illegal histories -/

def sigCoordSeqCreate : Call := { args := [], res := .owned .coordSeq, errv := some .null }
def sigCreateLineString (cs : Id) : Call := { args := [⟨.consume, .coordSeq, [cs]⟩], res := .owned .geom, errv := some .null }
def sigGetCoordSeq (g : Id) : Call := { args := [⟨.const_, .geom, [g]⟩], res := .borrowed .coordSeq, errv := some .null }
def sigPrepare (g : Id) : Call := { args := [⟨.retain, .geom, [g]⟩], res := .owned .prepared, errv := some .null }
def sigPreparedDestroy (p : Id) : Call := { args := [⟨.consume, .prepared, [p]⟩], res := .none, errv := none }
def sigGeomDestroy (g : Id) : Call := { args := [⟨.consume, .geom, [g]⟩], res := .none, errv := none }
def sigCoordSeqDestroy (s : Id) : Call := { args := [⟨.consume, .coordSeq, [s]⟩], res := .none, errv := none }
def sigSetSRID (g : Id) : Call := { args := [⟨.modify, .geom, [g]⟩], res := .none, errv := none }
def sigIntersects (a b : Id) : Call := { args := [⟨.const_, .geom, [a]⟩, ⟨.const_, .geom, [b]⟩], res := .none, errv := some (.int 2) }
def sigCreateCollection (gs : List Id) : Call := { args := [⟨.consume, .geom, gs⟩], res := .owned .geom, errv := some .null }

/-- the signatures above are what the bridge derives from the generated table -/
example : (lookup apiTable "GEOSGeom_createLineString_r").bind (·.toCall [.objs [0]]) = some (sigCreateLineString 0) := by
  decide +kernel
example : (lookup apiTable "GEOSGeom_getCoordSeq_r").bind (·.toCall [.objs [1]]) = some (sigGetCoordSeq 1) := by
  decide +kernel
example : (lookup apiTable "GEOSPrepare_r").bind (·.toCall [.objs [1]]) = some (sigPrepare 1) := by decide +kernel
example : (lookup apiTable "GEOSGeom_destroy_r").bind (·.toCall [.objs [1]]) = some (sigGeomDestroy 1) := by
  decide +kernel
example : (lookup apiTable "GEOSIntersects_r").bind (·.toCall [.objs [1], .objs [4]]) = some (sigIntersects 1 4) := by
  decide +kernel
example : (lookup apiTable "GEOSGeom_createCollection_r").bind (·.toCall [.other, .objs [1, 4], .other])
    = some (sigCreateCollection [1, 4]) := by decide +kernel

/-- a legal history: cs₀ → line₁ (consumes cs₀) → view₂ of its coordinates → prepared₃ (borrows line₁) →
predicate → destroy prepared → destroy line: everything is dead at the end -/
def demo : List (Call × Obs) :=
  [(sigCoordSeqCreate, .ok 1), (sigCreateLineString 0, .ok 1), (sigGetCoordSeq 1, .ok 1), (sigPrepare 1, .ok 1),
   (sigIntersects 1 1, .ok 0), (sigPreparedDestroy 3, .ok 0), (sigGeomDestroy 1, .ok 0)]

example : ∃ h' outs, run [] demo = .ok (h', outs) ∧
    outs = [.result [0], .result [1], .result [2], .result [3], .scalar, .scalar, .scalar] ∧
    (∀ o ∈ h', o.live = false) := by
  refine ⟨_, _, rfl, ?_, ?_⟩ <;> decide +kernel

/-- the hypothesis of `finish_no_leak` is satisfiable (by the history above) -/
example : ∀ (i : Id) (o : Obj), (heapAfter demo)[i]? = some o → o.owner = none → i ∈ consumedAll demo :=
  allOwnedConsumed_spec _ _ (by decide +kernel)

/-- illegal: destroying the base geometry while a prepared geometry built on it is alive -/
example : accepted [(sigCoordSeqCreate, .ok 1), (sigCreateLineString 0, .ok 1), (sigPrepare 1, .ok 1),
    (sigGeomDestroy 1, .ok 0)] = false := by decide +kernel

/-- illegal: double destroy -/
example : accepted [(sigCoordSeqCreate, .ok 1), (sigCoordSeqDestroy 0, .ok 0), (sigCoordSeqDestroy 0, .ok 0)]
    = false := by decide +kernel

/-- illegal: using a coordinate sequence after a constructor took it — even if the constructor failed -/
example : accepted [(sigCoordSeqCreate, .ok 1), (sigCreateLineString 0, .err), (sigCoordSeqDestroy 0, .ok 0)]
    = false := by decide +kernel

/-- illegal: destroying a view; using a view after its parent was modified -/
example : accepted [(sigCoordSeqCreate, .ok 1), (sigCreateLineString 0, .ok 1), (sigGetCoordSeq 1, .ok 1),
    (sigCoordSeqDestroy 2, .ok 0)] = false := by decide +kernel
example : accepted [(sigCoordSeqCreate, .ok 1), (sigCreateLineString 0, .ok 1), (sigGetCoordSeq 1, .ok 1),
    (sigSetSRID 1, .ok 0), (sigIntersects 2 2, .ok 0)] = false := by decide +kernel

/-- illegal: the same geometry twice in a consumed array (would be a double free) -/
example : accepted [(sigCoordSeqCreate, .ok 1), (sigCreateLineString 0, .ok 1), (sigCreateCollection [1, 1], .ok 1)]
    = false := by decide +kernel

/-- …while the legal history is accepted -/
example : accepted demo = true := by decide +kernel

end GeosModel.Api
