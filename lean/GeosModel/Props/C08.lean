import GeosModel.Proofs.Distance.SpecProofs
import GeosModel.Proofs.Distance.Frechet
import GeosModel.Proofs.Distance.BBProofs
import GeosModel.Model.Distance.BB
/-!
# C08 — distance functions return the true minimum distance across all variants

Property theorems about the exact specification `GeosModel.Distance` (Model/Distance/Spec.lean) and about the
branch-and-bound search `GeosModel.STR.nnLoop` (Model/Index/STR.lean).  Points have `Int` coordinates (a grid,
or doubles scaled to a common power of two), squared distances are exact rationals `Q = num/den`, and every
statement about "all points of a segment" quantifies over rational parameters `k/n ∈ [0,1]`, written
cross-multiplied over `Int` (`paramDist2 p a b k n = n²·|p − (a + (k/n)(b−a))|²`).

The implementation is tied to this specification by the correspondence stream `distance`
(harness/c08.cpp ↔ Driver/C08.lean), which evaluates these very definitions on every generated pair.
-/
namespace GeosModel.Distance
open GeosModel.Kernel GeosModel.STR

/-! ## point – segment -/

/-- **the clamp formula is the minimum over the segment**: `pointSeg2 p a b` is (i) a lower bound of the squared
distance from `p` to `a + t(b−a)` for every rational `t = k/n ∈ [0,1]` and (ii) attained for some such `t`. -/
theorem dist2_pointSeg_exact (p a b : Pt) :
    (∀ k n : Int, 0 < n → 0 ≤ k → k ≤ n →
      (pointSeg2 p a b).num * (n * n) ≤ paramDist2 p a b k n * (pointSeg2 p a b).den) ∧
    (∃ k n : Int, 0 < n ∧ 0 ≤ k ∧ k ≤ n ∧
      (pointSeg2 p a b).num * (n * n) = paramDist2 p a b k n * (pointSeg2 p a b).den) :=
  ⟨fun k n hn hk0 hkn => pointSeg2_le p a b k n hn hk0 hkn, pointSeg2_attained p a b⟩

/-- the point–segment distance is 0 exactly when the point is `a + (k/n)(b−a)` for some `0 ≤ k ≤ n` -/
theorem spec_zero_iff_intersects_pointSeg (p a b : Pt) : (pointSeg2 p a b).num = 0 ↔ OnSegQ p a b :=
  pointSeg2_zero_iff p a b

/-! ## segment – segment -/

/-- the segment–segment distance is 0 exactly when the exact predicate `Kernel.segRel` reports contact
(or an endpoint lies on the other segment) -/
theorem spec_zero_iff_intersects_segSeg (a b c d : Pt) :
    (segSeg2 a b c d).num = 0 ↔
      (segRel a b c d ≠ .disjoint ∨ OnSegQ a c d ∨ OnSegQ b c d ∨ OnSegQ c a b ∨ OnSegQ d a b) :=
  segSeg2_zero_iff a b c d

/-- **PARTIAL** (full statement: `dist2_segSeg_full`).  `segSeg2` is a lower bound of the squared distance
between `a + (k/n)(b−a)` and `c + (j/m)(d−c)` whenever the segments are in contact according to `segRel`
(then it is 0) *or the parameter pair lies on the boundary of the unit square* (one of the two points is an
endpoint); and when `segRel` says disjoint it is attained at such a boundary pair.
Missing for the full statement: (1) for disjoint segments, an interior parameter pair is never better than
the boundary — the convexity step (the quadratic `|u + s·p − t·q|²` restricted to the ray from an interior
point towards the lines' intersection / along the common direction decreases until it leaves the square);
(2) for `segRel ≠ disjoint`, existence of a common point with rational parameters (correctness of
`Kernel.segRel`, property C07). -/
theorem dist2_segSeg_exact_partial (a b c d : Pt) :
    (∀ k n j m : Int, 0 < n → 0 ≤ k → k ≤ n → 0 < m → 0 ≤ j → j ≤ m →
      (segRel a b c d ≠ .disjoint ∨ k = 0 ∨ k = n ∨ j = 0 ∨ j = m) →
      (segSeg2 a b c d).num * ((n * m) * (n * m)) ≤ biDist2 a b c d k n j m * (segSeg2 a b c d).den) ∧
    (segRel a b c d = .disjoint →
      ∃ k n j m : Int, 0 < n ∧ 0 ≤ k ∧ k ≤ n ∧ 0 < m ∧ 0 ≤ j ∧ j ≤ m ∧ (k = 0 ∨ k = n ∨ j = 0 ∨ j = m) ∧
        (segSeg2 a b c d).num * ((n * m) * (n * m)) = biDist2 a b c d k n j m * (segSeg2 a b c d).den) := by
  constructor
  · intro k n j m hn hk0 hkn hm hj0 hjm hcase
    by_cases hd : segRel a b c d = .disjoint
    · have hval : segSeg2 a b c d = min4 (pointSeg2 a c d) (pointSeg2 b c d) (pointSeg2 c a b) (pointSeg2 d a b) := by
        simp [segSeg2, hd]
      obtain ⟨h1, h2, h3, h4⟩ := min4_le (pointSeg2 a c d) (pointSeg2 b c d) (pointSeg2 c a b) (pointSeg2 d a b)
      rw [← hval] at h1 h2 h3 h4
      have hnn : 0 ≤ n * n := mul_self_nonneg' n
      have hmm : 0 ≤ m * m := mul_self_nonneg' m
      rcases hcase with h | rfl | rfl | rfl | rfl
      · exact absurd hd h
      · have := lower_of_le _ a c d h1 j m hm hj0 hjm
        rw [biDist2_left0]
        have h5 := Int.mul_le_mul_of_nonneg_left this hnn
        have e1 : (segSeg2 a b c d).num * ((n * m) * (n * m)) = n * n * ((segSeg2 a b c d).num * (m * m)) := by grind
        have e2 : n * n * paramDist2 a c d j m * (segSeg2 a b c d).den = n * n * (paramDist2 a c d j m * (segSeg2 a b c d).den) := by grind
        omega
      · have := lower_of_le _ b c d h2 j m hm hj0 hjm
        rw [biDist2_left1]
        have h5 := Int.mul_le_mul_of_nonneg_left this hnn
        have e1 : (segSeg2 a b c d).num * ((k * m) * (k * m)) = k * k * ((segSeg2 a b c d).num * (m * m)) := by grind
        have e2 : k * k * paramDist2 b c d j m * (segSeg2 a b c d).den = k * k * (paramDist2 b c d j m * (segSeg2 a b c d).den) := by grind
        omega
      · have := lower_of_le _ c a b h3 k n hn hk0 hkn
        rw [biDist2_right0]
        have h5 := Int.mul_le_mul_of_nonneg_left this hmm
        have e1 : (segSeg2 a b c d).num * ((n * m) * (n * m)) = m * m * ((segSeg2 a b c d).num * (n * n)) := by grind
        have e2 : m * m * paramDist2 c a b k n * (segSeg2 a b c d).den = m * m * (paramDist2 c a b k n * (segSeg2 a b c d).den) := by grind
        omega
      · have := lower_of_le _ d a b h4 k n hn hk0 hkn
        rw [biDist2_right1]
        have h5 := Int.mul_le_mul_of_nonneg_left this (mul_self_nonneg' j)
        have e1 : (segSeg2 a b c d).num * ((n * j) * (n * j)) = j * j * ((segSeg2 a b c d).num * (n * n)) := by grind
        have e2 : j * j * paramDist2 d a b k n * (segSeg2 a b c d).den = j * j * (paramDist2 d a b k n * (segSeg2 a b c d).den) := by grind
        omega
    · have hz : (segSeg2 a b c d).num = 0 := (segSeg2_zero_iff a b c d).mpr (Or.inl hd)
      rw [hz, Int.zero_mul]
      exact Int.mul_nonneg (biDist2_nonneg _ _ _ _ _ _ _ _) (by have := (segSeg2 a b c d).pos; omega)
  · intro hd
    have hval : segSeg2 a b c d = min4 (pointSeg2 a c d) (pointSeg2 b c d) (pointSeg2 c a b) (pointSeg2 d a b) := by
      simp [segSeg2, hd]
    rcases min4_mem (pointSeg2 a c d) (pointSeg2 b c d) (pointSeg2 c a b) (pointSeg2 d a b) with h | h | h | h <;>
      rw [← hval] at h
    · obtain ⟨j, m, hm, hj0, hjm, heq⟩ := pointSeg2_attained a c d
      refine ⟨0, 1, j, m, by decide, by decide, by decide, hm, hj0, hjm, Or.inl rfl, ?_⟩
      rw [biDist2_left0, h]; simp only [Int.one_mul]; exact heq
    · obtain ⟨j, m, hm, hj0, hjm, heq⟩ := pointSeg2_attained b c d
      refine ⟨1, 1, j, m, by decide, by decide, by decide, hm, hj0, hjm, Or.inr (Or.inl rfl), ?_⟩
      rw [biDist2_left1, h]; simp only [Int.one_mul]; exact heq
    · obtain ⟨k, n, hn, hk0, hkn, heq⟩ := pointSeg2_attained c a b
      refine ⟨k, n, 0, 1, hn, hk0, hkn, by decide, by decide, by decide, Or.inr (Or.inr (Or.inl rfl)), ?_⟩
      rw [biDist2_right0, h]; simp only [Int.one_mul, Int.mul_one]; exact heq
    · obtain ⟨k, n, hn, hk0, hkn, heq⟩ := pointSeg2_attained d a b
      refine ⟨k, n, 1, 1, hn, hk0, hkn, by decide, by decide, by decide, Or.inr (Or.inr (Or.inr rfl)), ?_⟩
      rw [biDist2_right1, h]; simp only [Int.one_mul, Int.mul_one]; exact heq

/-! ## geometries -/

/-- **symmetry**: `dist2 A B` and `dist2 B A` (and the facet distances) are equal as rationals -/
theorem spec_symm (A B : IGeom) : OptEqv (dist2 A B) (dist2 B A) ∧ OptEqv (facetDist2 A B) (facetDist2 B A) :=
  ⟨dist2_symm A B, facetDist2_symm A B⟩

/-- **exactly 0 when and only when they intersect**: the distance is 0 iff some facets are in contact
(`segSeg2 = 0`, see `spec_zero_iff_intersects_segSeg`) or a vertex of one lies in an area of the other -/
theorem spec_zero_iff_intersects (A B : IGeom) (q : Q) (h : dist2 A B = some q) :
    q.isZero = true ↔ intersects A B = true :=
  dist2_zero_iff A B q h

/-- when the geometries do not intersect the distance is realised by a pair of facets and no pair of facets
is closer (with `dist2_pointSeg_exact`: by a vertex and a point of a segment) -/
theorem spec_is_min (A B : IGeom) (q : Q) (h : dist2 A B = some q) (hi : intersects A B = false) :
    (∃ fa ∈ facets A, ∃ fb ∈ facets B, fdist fa fb = q) ∧
    ∀ fa ∈ facets A, ∀ fb ∈ facets B, Q.le q (fdist fa fb) = true :=
  dist2_is_min A B q h hi

/-- the distance is undefined exactly when one side has no points -/
theorem spec_none_iff (A B : IGeom) (hi : intersects A B = false) :
    dist2 A B = none ↔ (facets A = [] ∨ facets B = []) := by
  unfold dist2 facetDist2
  simp only [hi, Bool.false_eq_true, if_false, minOver_eq_none]
  constructor
  · intro h
    by_cases ha : facets A = []
    · exact Or.inl ha
    · right
      cases hA : facets A with
      | nil => exact absurd hA ha
      | cons fa _ =>
        cases hB : facets B with
        | nil => rfl
        | cons fb _ =>
          have : fdist fa fb ∈ facetPairs A B := (mem_facetPairs A B _).mpr ⟨fa, by simp [hA], fb, by simp [hB], rfl⟩
          rw [h] at this; cases this
  · intro h
    rcases h with h | h <;> simp [facetPairs, h]

/-! ## Hausdorff -/

/-- **max–min**: the directed Hausdorff value `h` is the distance from some sample point to its nearest facet
of `B`, and every sample point has a facet of `B` within `h` -/
theorem hausdorff_def (ps : List Pt) (B : IGeom) (h : Q) (hh : directedH2 ps B = some h) (hB : facets B ≠ []) :
    (∃ p ∈ ps, (∃ f ∈ facets B, pointSeg2 p f.1 f.2 = h) ∧ ∀ f ∈ facets B, Q.le h (pointSeg2 p f.1 f.2) = true) ∧
    (∀ p ∈ ps, ∃ f ∈ facets B, Q.le (pointSeg2 p f.1 f.2) h = true) := by
  obtain ⟨⟨row, hrow, hmem, hmin⟩, hall⟩ := maxMin_spec qLeOK _ h hh
  simp only [List.mem_map] at hrow
  obtain ⟨p, hp, rfl⟩ := hrow
  constructor
  · refine ⟨p, hp, ?_, ?_⟩
    · simp only [rowOf, List.mem_map] at hmem
      exact hmem
    · intro f hf
      exact hmin _ (by simp only [rowOf, List.mem_map]; exact ⟨f, hf, rfl⟩)
  · intro p hp
    have hne : rowOf B p ≠ [] := by
      simp only [rowOf, ne_eq, List.map_eq_nil_iff]; exact hB
    obtain ⟨x, hx, hle⟩ := hall (rowOf B p) (by simp only [List.mem_map]; exact ⟨p, hp, rfl⟩) hne
    simp only [rowOf, List.mem_map] at hx
    obtain ⟨f, hf, rfl⟩ := hx
    exact ⟨f, hf, hle⟩

/-- the symmetric Hausdorff value is the larger of the two directed ones -/
theorem hausdorff_two_sided (n : Nat) (A B : IGeom) (x y : Q)
    (hx : directedH2 (samplePts n A) B = some x) (hy : directedH2 (samplePts n B) A = some y) :
    ∃ h, hausdorff2 n A B = some h ∧ (h = x ∨ h = y) ∧ Q.le x h = true ∧ Q.le y h = true := by
  simp only [hausdorff2, hx, hy, optMax]
  by_cases hle : Q.le x y = true
  · exact ⟨y, by simp [hle], Or.inr rfl, hle, qLeOK.refl y⟩
  · have : Q.le y x = true := by
      cases Q.le_total x y with
      | inl h => exact absurd h hle
      | inr h => exact h
    exact ⟨x, by simp [hle], Or.inl rfl, qLeOK.refl x, this⟩

/-! ## Fréchet -/

/-- **the DP equals the recursive definition** (any order `le`, any distance `d`, sequences `p₀…p_n`, `q₀…q_m`) -/
theorem frechet_dp_correct {α D : Type} (le : D → D → Bool) (d : α → α → D) (pf qf : Nat → α) (n m : Nat) :
    frechetDP le d ((List.range (n + 1)).map pf) ((List.range (m + 1)).map qf) =
      some (frechetRec le (fun i j => d (pf i) (qf j)) n m) :=
  frechetDP_eq le d pf qf n m

/-- the instance the driver evaluates: squared Euclidean vertex distances -/
theorem frechet2_correct (pf qf : Nat → Pt) (n m : Nat) :
    frechet2 ((List.range (n + 1)).map pf) ((List.range (m + 1)).map qf) =
      some (frechetRec ile (fun i j => sqDist (pf i) (qf j)) n m) :=
  frechetDP_eq ile sqDist pf qf n m

theorem list_eq_map_range {α : Type} (l : List α) (x : α) :
    l = (List.range l.length).map (fun i => l.getD i x) := by
  apply List.ext_getElem
  · simp
  · intro i h1 h2
    simp [List.getD, List.getElem?_eq_getElem h1]

/-- the same for arbitrary non-empty vertex lists (indices read with `getD`) -/
theorem frechet2_correct_lists (p : Pt) (ps : List Pt) (q : Pt) (qs : List Pt) :
    frechet2 (p :: ps) (q :: qs) =
      some (frechetRec ile (fun i j => sqDist ((p :: ps).getD i p) ((q :: qs).getD j q)) ps.length qs.length) := by
  have h := frechet2_correct (fun i => (p :: ps).getD i p) (fun j => (q :: qs).getD j q) ps.length qs.length
  have e1 := list_eq_map_range (p :: ps) p
  have e2 := list_eq_map_range (q :: qs) q
  simp only [List.length_cons] at e1 e2
  rw [← e1, ← e2] at h
  exact h

/-! ## branch and bound (CORE) -/

/-- **`bb_returns_min`** — the best-first branch-and-bound search of `TemplateSTRtreeDistance::nearestNeighbour`
(model: `STR.nearestRoot` / `nnLoop`, queue = sorted list).  For every tree, every total preorder `le` on
distances, every lower-bound function `lb` that is admissible (`lb(bounds of a branch) ≤ dist item` for each
live item below it) and fuel at least the number of tree nodes: the search returns a live item, with its exact
distance, that is no farther than any live item; it returns nothing only when no item is live.
(This is also the nearest-neighbour theorem left open for C15.) -/
theorem bb_returns_min {β ι D : Type} (le : D → D → Bool) (ok : LeOK le) (lb : β → D) (dist : ι → D)
    (r : Node β ι) (hadm : r.Adm le lb dist) (fuel : Nat) (hf : r.numNodes ≤ fuel) :
    match nearestRoot le lb dist fuel (some r) with
    | some (m, i) => (∃ e ∈ r.leaves, e.deleted = false ∧ e.item = i ∧ m = dist i) ∧
        ∀ e ∈ r.leaves, e.deleted = false → le m (dist e.item) = true
    | none => ∀ e ∈ r.leaves, e.deleted = true := by
  cases r with
  | leaf e =>
    simp only [nearestRoot]
    by_cases hd : e.deleted = true
    · simp only [hd, if_true]
      intro e' he'
      simp only [Node.leaves, List.mem_singleton] at he'
      subst he'; exact hd
    · have hd' : e.deleted = false := by simpa using hd
      simp only [hd', Bool.false_eq_true, if_false]
      refine ⟨⟨e, by simp [Node.leaves], by simp [hd']⟩, ?_⟩
      intro e' he' _
      simp only [Node.leaves, List.mem_singleton] at he'
      subst he'; exact ok.refl _
  | branch b ks =>
    simp only [nearestRoot]
    have hinv : Inv le lb dist (leavesL ks) [(⟨lb b, .branch b ks⟩ : QE β ι D)] none := by
      refine ⟨by simp [Sorted], ?_, ?_, ?_⟩
      · intro x hx
        simp only [List.mem_singleton] at hx
        subst hx
        exact ⟨⟨rfl, hadm⟩, fun e he => by simpa [Node.leaves] using he⟩
      · intro m i h; cases h
      · intro e he _
        exact Or.inl ⟨⟨lb b, .branch b ks⟩, by simp, by simpa [Node.leaves] using he⟩
    have hres := nnLoop_spec ok (leavesL ks) fuel _ none (by simpa [qsize] using hf) hinv
    simp only [Node.leaves]
    cases hr : nnLoop le lb dist fuel [⟨lb b, .branch b ks⟩] none with
    | none => rw [hr] at hres; exact hres
    | some p => obtain ⟨m, i⟩ := p; rw [hr] at hres; exact hres

/-- the same for the search inside the loop, started from any queue satisfying the invariant -/
theorem bb_loop_returns_min {β ι D : Type} (le : D → D → Bool) (ok : LeOK le) (lb : β → D) (dist : ι → D)
    (S : List (Entry β ι)) (f : Nat) (q : List (QE β ι D)) (best : Option (D × ι))
    (hf : qsize q ≤ f) (hinv : Inv le lb dist S q best) : Res le dist S (nnLoop le lb dist f q best) :=
  nnLoop_spec ok S f q best hf hinv

/-- `Envelope::distance²` never exceeds the squared distance of two points taken from the two envelopes:
the bound the facet search uses is a lower bound -/
theorem env_distance_lower_bound (a b : Box) (p q : Pt) (hp : inBoxPt a p) (hq : inBoxPt b q) :
    boxBox2 a b ≤ sqDist p q := by
  obtain ⟨h1, h2, h3, h4⟩ := hp
  obtain ⟨g1, g2, g3, g4⟩ := hq
  have hx : gap a.minx a.maxx b.minx b.maxx * gap a.minx a.maxx b.minx b.maxx ≤ (p.x - q.x) * (p.x - q.x) := by
    unfold gap
    split
    · have e : (p.x - q.x) * (p.x - q.x) = (q.x - p.x) * (q.x - p.x) := by grind
      rw [e]; exact Int.mul_le_mul (by omega) (by omega) (by omega) (by omega)
    · split
      · exact Int.mul_le_mul (by omega) (by omega) (by omega) (by omega)
      · simpa using mul_self_nonneg' (p.x - q.x)
  have hy : gap a.miny a.maxy b.miny b.maxy * gap a.miny a.maxy b.miny b.maxy ≤ (p.y - q.y) * (p.y - q.y) := by
    unfold gap
    split
    · have e : (p.y - q.y) * (p.y - q.y) = (q.y - p.y) * (q.y - p.y) := by grind
      rw [e]; exact Int.mul_le_mul (by omega) (by omega) (by omega) (by omega)
    · split
      · exact Int.mul_le_mul (by omega) (by omega) (by omega) (by omega)
      · simpa using mul_self_nonneg' (p.y - q.y)
  simp only [boxBox2, sqDist]
  omega

/-! ## non-vacuity -/

-- the three branches of the clamp formula
example : (pointSeg2 ⟨-3, 4⟩ ⟨0, 0⟩ ⟨10, 0⟩).num = 25 ∧ (pointSeg2 ⟨-3, 4⟩ ⟨0, 0⟩ ⟨10, 0⟩).den = 1 := by decide
example : (pointSeg2 ⟨13, 4⟩ ⟨0, 0⟩ ⟨10, 0⟩).num = 25 ∧ (pointSeg2 ⟨13, 4⟩ ⟨0, 0⟩ ⟨10, 0⟩).den = 1 := by decide
example : (pointSeg2 ⟨1, 3⟩ ⟨0, 0⟩ ⟨4, 2⟩).num = 100 ∧ (pointSeg2 ⟨1, 3⟩ ⟨0, 0⟩ ⟨4, 2⟩).den = 20 := by decide
-- crossing, touching and separate segments
example : (segSeg2 ⟨0, 0⟩ ⟨4, 4⟩ ⟨0, 4⟩ ⟨4, 0⟩).num = 0 := by decide
example : (segSeg2 ⟨0, 0⟩ ⟨4, 0⟩ ⟨2, 0⟩ ⟨2, 5⟩).num = 0 := by decide
example : Q.eqv (segSeg2 ⟨0, 0⟩ ⟨4, 0⟩ ⟨1, 3⟩ ⟨9, 7⟩) (Q.ofInt 9) = true := by decide
-- a point inside a polygon with a hole: distance 0 outside the hole, positive inside it
def demoPoly : IGeom := [.poly [[⟨0,0⟩, ⟨10,0⟩, ⟨10,10⟩, ⟨0,10⟩, ⟨0,0⟩], [⟨4,4⟩, ⟨6,4⟩, ⟨6,6⟩, ⟨4,6⟩, ⟨4,4⟩]]]
example : (dist2 [.pt ⟨2, 2⟩] demoPoly).map (·.num) = some 0 := by decide
example : (dist2 [.pt ⟨5, 5⟩] demoPoly).map (Q.eqv (Q.ofInt 1)) = some true := by decide
example : (dist2 [.pt ⟨13, 14⟩] demoPoly).map (Q.eqv (Q.ofInt 25)) = some true := by decide
example : (facetDist2 [.pt ⟨2, 2⟩] demoPoly).map (Q.eqv (Q.ofInt 4)) = some true := by decide
example : dist2 [] demoPoly = none := by decide
-- Hausdorff and Fréchet on small inputs
example : (hausdorff2 1 [.line [⟨0,0⟩, ⟨10,0⟩]] [.line [⟨0,3⟩, ⟨10,3⟩, ⟨10, 8⟩]]).map (Q.eqv (Q.ofInt 64)) = some true := by decide
example : frechet2 [⟨0,0⟩, ⟨10,0⟩] [⟨0,3⟩, ⟨10,3⟩, ⟨10,8⟩] = some 64 := by decide
example : frechetRec ile (fun i j => sqDist ([⟨0,0⟩, ⟨10,0⟩].getD i ⟨0,0⟩) ([⟨0,3⟩, ⟨10,3⟩, ⟨10,8⟩].getD j ⟨0,0⟩)) 1 2 = 64 := by
  simp [frechetRec, dmax, min3, ile, sqDist]

-- a tree with admissible bounds, a live minimum and a deleted closer item
def demoTree : Node Int Nat :=
  .branch 0 [.branch 1 [.leaf ⟨1, 10, false⟩, .leaf ⟨2, 11, true⟩], .branch 5 [.leaf ⟨5, 12, false⟩, .leaf ⟨7, 13, false⟩]]

def demoDist : Nat → Int | 10 => 4 | 11 => 1 | 12 => 6 | _ => 9

theorem demoTree_adm : demoTree.Adm ile id demoDist := by
  simp [demoTree, Node.Adm, AdmL, leavesL, Node.leaves, ile, demoDist]

example : nearestRoot ile id demoDist demoTree.numNodes (some demoTree) = some (4, 10) := by decide

end GeosModel.Distance
