import GeosModel.Model.Fix.Cxx
import GeosModel.Generated.MakeValid
/-!
# C17 — the regenerated dispatch of `MakeValid::build` (linework method) is `Fix.buildRoute`

`Generated/MakeValid.lean` is rewritten from `src/operation/valid/MakeValid.cpp` by `translate/cxx2lean.py` (spec
`make_valid`) on every run.  The input is seen through `IsValidOp(geom).getValidationError()` and its type id; every
repair routine is represented by the `Route` it stands for.
-/
namespace GeosModel.C17GenMV
open GeosModel GeosModel.Fix GeosModel.Generated

/-- the regenerated dispatch is `buildRoute`: a valid input is cloned, an invalid one goes to the routine of its type, and
an invalid Point / MultiPoint / LinearRing makes `build` throw (the known "returns no geometry" family of the linework
method: the property's "every well-formed input" is false of it) -/
theorem gen_build_eq (g : MVIn) :
    MakeValid.build g = match buildRoute g.valid g.ty with
      | some r => .ok (some r)
      | none => .error "UnsupportedOperationException" := by
  rcases g with ⟨v, t⟩
  cases v <;> cases t <;> rfl

theorem gen_build_unsupported (t : Ty) (h : t = .point ∨ t = .multiPoint ∨ t = .linearRing) :
    MakeValid.build ⟨false, t⟩ = .error "UnsupportedOperationException" := by
  rcases h with rfl | rfl | rfl <;> rfl

end GeosModel.C17GenMV
