import GeosModel.Proofs.Simplify.VertexIndex
import GeosModel.Proofs.Simplify.VertexIndexBuild
import GeosModel.Proofs.Simplify.Jump
/-!
# C18 — two decision cores of the simplifiers, modelled function by function and tied by direct streams

* `index::VertexSequencePackedRtree` (Model/Simplify/VertexIndex.lean; stream `vsindex`): the vertex index `RingHull` asks
  "is any vertex inside this corner triangle's box?" and `TPVWSimplifier::Edge` uses for coverage simplification.
  Theorems: a query never returns a removed or outside item (any state); for a well-formed tree it returns *every* item that was
  not removed and lies in the box; `remove` keeps well-formedness (this is where `isItemsNodeEmpty` / `isNodeEmpty` must answer
  `true` only for really empty nodes), the tree `build` produces is well-formed for every non-empty coordinate list, so the
  answer is exact after any sequence of removals (`vsindex_end_to_end`).  (The driver additionally evaluates the decidable
  well-formedness check on every tree it builds; that is a cross-check of the executable model, not an assumption.)
* `simplify::ComponentJumpChecker` (Model/Simplify/Jump.lean; stream `jump`): `hasJump` is `true` exactly when SOME other
  component with its point in the section's box has differing crossing parities — independent of the order of the components.
-/
namespace GeosModel.VSPR

/-- **no false positives**, in any state of the tree: what `query` returns is an item index, not removed, inside the box -/
theorem vsindex_query_sound (t : Tree) (q : Env) (i : Nat) (h : i ∈ query t q) :
    i < t.items.length ∧ isRemoved t i = false ∧ Env.containsPt q (item t i).1 (item t i).2 = true :=
  queryNode_sound t q _ _ i h

/-- **no false negatives** for a well-formed tree -/
theorem vsindex_query_complete (t : Tree) (q : Env) (hw : WF t) (i : Nat) (hi : i < t.items.length)
    (hr : isRemoved t i = false) (hq : Env.containsPt q (item t i).1 (item t i).2 = true) : i ∈ query t q :=
  query_complete' t q hw.1 hw.2 i hi hr hq

/-- the decidable check the driver runs on the tree it has built implies well-formedness -/
theorem vsindex_wf_check_sound (t : Tree) (h : wfCheck t = true) : WF t := by
  unfold wfCheck at h
  simp only [Bool.and_eq_true, decide_eq_true_eq] at h
  exact ⟨h.1, invC_inv t h.2⟩

/-- **`remove` keeps well-formedness** (and marks exactly the given item) -/
theorem vsindex_remove_wf (t : Tree) (k : Nat) (hw : WF t) (hk : k < t.items.length) :
    WF (remove t k) ∧ (remove t k).items = t.items ∧
      ∀ i, isRemoved (remove t k) i = if i = k then true else isRemoved t i :=
  ⟨⟨shape_remove t k hw.1, inv_remove t k hw.1 hw.2 hk⟩, items_remove t k, isRemoved_remove t k⟩

/-- **exactness after any history of removals**: the query answers are precisely the items inside the box that were
neither removed before nor by one of the `remove` calls -/
theorem vsindex_query_exact (t : Tree) (hw : WF t) (ks : List Nat) (hk : ∀ k ∈ ks, k < t.items.length) (q : Env) (i : Nat) :
    i ∈ query (ks.foldl remove t) q ↔
      i < t.items.length ∧ isRemoved t i = false ∧ ks.contains i = false ∧ Env.containsPt q (item t i).1 (item t i).2 = true := by
  have hw' := wf_removes t hw ks hk
  have hitems := items_removes t ks
  have hitem : ∀ j, item (ks.foldl remove t) j = item t j := by intro j; unfold item; rw [hitems]
  constructor
  · intro h
    have := vsindex_query_sound _ q i h
    rw [hitems, isRemoved_removes, hitem] at this
    simp only [Bool.or_eq_false_iff] at this
    exact ⟨this.1, this.2.1.1, this.2.1.2, this.2.2⟩
  · rintro ⟨h1, h2, h3, h4⟩
    apply vsindex_query_complete _ q hw' i
    · rw [hitems]; exact h1
    · rw [isRemoved_removes]; simp only [h2, Bool.false_or]; exact h3
    · rw [hitem]; exact h4

/-- **the constructor establishes well-formedness**, for every non-empty coordinate list (the loops of `computeLevelOffsets`,
`fillItemBounds`, `fillLevelBounds`, `createBounds`) -/
theorem vsindex_build_wf (items : List (Int × Int)) (h : items ≠ []) : WF (build items) := wf_build items h

/-- **end to end**: build the index over any non-empty coordinate list, remove any items in any order, ask any box —
the answer is exactly the set of positions that were not removed and whose coordinate lies in the box -/
theorem vsindex_end_to_end (items : List (Int × Int)) (h : items ≠ []) (ks : List Nat) (hk : ∀ k ∈ ks, k < items.length)
    (q : Env) (i : Nat) :
    i ∈ query (ks.foldl remove (build items)) q ↔
      i < items.length ∧ ks.contains i = false ∧ Env.containsPt q (items.getD i (0, 0)).1 (items.getD i (0, 0)).2 = true := by
  have hw := wf_build items h
  have hit : (build items).items = items := rfl
  rw [vsindex_query_exact (build items) hw ks (by rw [hit]; exact hk) q i, hit]
  have hitem : item (build items) i = items.getD i (0, 0) := rfl
  rw [hitem]
  constructor
  · rintro ⟨h1, _, h3, h4⟩; exact ⟨h1, h3, h4⟩
  · rintro ⟨h1, h3, h4⟩
    refine ⟨h1, ?_, h3, h4⟩
    show (List.replicate items.length false).getD i true = false
    simp [List.getD_eq_getElem?_getD, h1]

/-- **the way `RingHull::hasIntersectingVertex` and `TPVWSimplifier::Edge` use the index is lossless**: for a well-formed tree,
looking for a vertex with property `P` among the answers of `query(box)` finds one exactly when some vertex that was not
removed has `P` — for every `P` that implies lying in the box (a vertex inside the corner triangle lies inside the
triangle's envelope) -/
theorem vsindex_any_via_query (t : Tree) (hw : WF t) (q : Env) (P : Nat → Bool)
    (hP : ∀ i, P i = true → Env.containsPt q (item t i).1 (item t i).2 = true) :
    (query t q).any P = (List.range t.items.length).any (fun i => !isRemoved t i && P i) :=
  any_query t hw q P hP

/-! non-vacuity: a two-level tree (17 items, the shape of a 17-coordinate ring) is well-formed as built; removing the closing
vertex (what `RingHull::init` does) empties the second leaf only, and a query still finds the vertices under the first leaf -/
private def pts17 : List (Int × Int) := (List.range 17).map fun i => (Int.ofNat i, Int.ofNat (i * i % 7))

example : wfCheck (build pts17) = true := by decide
example : (build pts17).levelOffset = [0, 2, 3] := by decide
example : query (remove (build pts17) 16) (some ⟨0, 3, 0, 10⟩) = [0, 1, 2, 3] := by decide
example : (remove (build pts17) 16).bounds.map Env.isNull = [false, true, false, false] := by decide

end GeosModel.VSPR

namespace GeosModel.Jump
open GeosModel.Kernel GeosModel.RayCount

/-- **meaning of `hasJump(line, start, end, seg)`**: some *other* component has its point in the bounding box of the section and
sees different crossing parities for the section and for the flattening segment -/
theorem jump_section_iff (comps : List (Nat × Pt)) (self : Nat) (line : List Pt) (start stop : Nat) (seg : Seg) :
    hasJumpSection comps self line start stop seg = true ↔
      ∃ c ∈ comps, c.1 ≠ self ∧ Env.containsPt (sectionEnv line start stop) c.2.x c.2.y = true ∧
        crossingCount c.2 (sectionSegs line start stop) % 2 ≠ crossingCount c.2 [seg] % 2 := by
  unfold hasJumpSection
  rw [hasJumpLoop_iff]
  simp [Jumps, hasJumpAtComponent]

/-- the same for the ring-endpoint overload `hasJump(line, seg1, seg2, seg)` -/
theorem jump_segs_iff (comps : List (Nat × Pt)) (self : Nat) (seg1 seg2 seg : Seg) :
    hasJumpSegs comps self seg1 seg2 seg = true ↔
      ∃ c ∈ comps, c.1 ≠ self ∧ Env.containsPt (envOf [seg1.1, seg1.2, seg2.1, seg2.2]) c.2.x c.2.y = true ∧
        crossingCount c.2 [seg1, seg2] % 2 ≠ crossingCount c.2 [seg] % 2 := by
  unfold hasJumpSegs
  rw [hasJumpLoop_iff]
  simp [Jumps, hasJumpAtComponent]

/-- **what the parity test means**: if no component point lies on the section or on the flattening segment `(a, b)` (`b` = last
vertex of the section), `hasJump` is `true` exactly when some other component has its point in the section's box and *inside
the closed curve formed by the section and the flattening segment* (even–odd rule, `Kernel.locateInRing`, the specification
C07 proves `RayCrossingCounter` against): flattening would move that component to the other side of the line -/
theorem jump_section_iff_inside (comps : List (Nat × Pt)) (self : Nat) (line : List Pt) (start stop : Nat) (a b : Pt)
    (hb : (sectionPts line start stop).getLast? = some b)
    (hoff : ∀ c ∈ comps, ∀ e ∈ edges (sectionPts line start stop ++ [a]), onSegment e.1 e.2 c.2 = false) :
    hasJumpSection comps self line start stop (a, b) = true ↔
      ∃ c ∈ comps, c.1 ≠ self ∧ Env.containsPt (sectionEnv line start stop) c.2.x c.2.y = true ∧
        locateInRing c.2 (sectionPts line start stop ++ [a]) = Loc.interior := by
  unfold hasJumpSection
  rw [hasJumpLoop_iff]
  constructor
  · rintro ⟨c, hc, h1, h2, h3⟩
    refine ⟨c, hc, h1, h2, ?_⟩
    unfold sectionSegs at h3
    rw [hasJumpAtComponent_iff_inside c.2 _ a b hb (hoff c hc)] at h3
    simpa using h3
  · rintro ⟨c, hc, h1, h2, h3⟩
    refine ⟨c, hc, h1, h2, ?_⟩
    unfold sectionSegs
    rw [hasJumpAtComponent_iff_inside c.2 _ a b hb (hoff c hc)]
    simpa using h3

/-- **the order of the components is irrelevant** (holes in any order, elements in any order) -/
theorem jump_order_irrelevant (c1 c2 : List (Nat × Pt)) (h : c1.Perm c2) (self : Nat) (line : List Pt) (start stop : Nat)
    (seg : Seg) : hasJumpSection c1 self line start stop seg = hasJumpSection c2 self line start stop seg :=
  hasJumpLoop_perm _ _ _ _ _ _ h

theorem jump_segs_order_irrelevant (c1 c2 : List (Nat × Pt)) (h : c1.Perm c2) (self : Nat) (seg1 seg2 seg : Seg) :
    hasJumpSegs c1 self seg1 seg2 seg = hasJumpSegs c2 self seg1 seg2 seg :=
  hasJumpLoop_perm _ _ _ _ _ _ h

/-- further components can only add jumps: the answer for `c1 ++ c2` is the disjunction of the answers -/
theorem jump_components_append (c1 c2 : List (Nat × Pt)) (self : Nat) (line : List Pt) (start stop : Nat) (seg : Seg) :
    hasJumpSection (c1 ++ c2) self line start stop seg =
      (hasJumpSection c1 self line start stop seg || hasJumpSection c2 self line start stop seg) :=
  hasJumpLoop_append _ _ _ _ _ _

/-- a section that already is its flattening segment never jumps anything -/
theorem jump_single_segment (comps : List (Nat × Pt)) (self : Nat) (env : Env) (seg : Seg) :
    hasJumpLoop self env [seg] seg comps = false := by
  cases h : hasJumpLoop self env [seg] seg comps with
  | false => rfl
  | true =>
    obtain ⟨c, _, hj⟩ := (hasJumpLoop_iff _ _ _ _ _).1 h
    have := hasJumpAtComponent_self c.2 seg
    have h3 : hasJumpAtComponent c.2 [seg] seg = true := hj.2.2
    rw [this] at h3
    exact absurd h3 (by simp)

/-! non-vacuity: the shell section (0,0) (6,-1) (10,-5) flattened to (0,0)–(10,-5); component 1 lies below the base segment
(not jumped), component 2 inside the bump (jumped): the answer is `true` whatever the order -/
private def lineA : List Pt := [⟨0, 0⟩, ⟨60, -10⟩, ⟨100, -50⟩, ⟨100, -120⟩, ⟨0, -120⟩, ⟨0, 0⟩]
example : hasJumpSection [(0, ⟨60, -10⟩), (1, ⟨22, -40⟩), (2, ⟨54, -20⟩)] 0 lineA 0 2 (⟨0, 0⟩, ⟨100, -50⟩) = true := by decide
example : hasJumpSection [(0, ⟨60, -10⟩), (2, ⟨54, -20⟩), (1, ⟨22, -40⟩)] 0 lineA 0 2 (⟨0, 0⟩, ⟨100, -50⟩) = true := by decide
example : hasJumpSection [(0, ⟨60, -10⟩), (1, ⟨22, -40⟩)] 0 lineA 0 2 (⟨0, 0⟩, ⟨100, -50⟩) = false := by decide

end GeosModel.Jump
