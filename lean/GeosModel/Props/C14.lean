import GeosModel.Proofs.Interrupt.ProtoLemmas
/-!
# C14 — an interrupt at any checkpoint aborts cleanly and leaves the library usable

Theorems about the protocol model `Model/Interrupt/Proto.lean` (a literal transcription of
`Interrupt::{request,cancel,check,registerCallback,process}`, `GEOS_init_r`, and of `execute`'s
"exception → error value").  An operation is the pair (`polls` = N, `result` = r) *observed* on the
implementation; that the operation is deterministic (same N, same r when re-run on unchanged inputs
from the same interrupt state) is the explicit modelling hypothesis carried by `Op` being a value.
What the theorems say for all N, k, callbacks and states:

* `interrupt_at_k`            a request made by the callback at poll k (1 ≤ k ≤ N) stops the call at poll k
                              with the error outcome, and the request is cleared;
* `rerun_equals_clean`        the interrupt state left behind is the state before the call, so the repeated
                              call (any callback) is the same as if the interrupted call never happened; with a
                              benign callback it returns the uninterrupted result after exactly N polls;
* `benign_callback_noop`      a callback that never requests/cancels is indistinguishable from no callback;
* `pre_request`               a request pending before the call interrupts at poll 1 (N ≥ 1);
* `pre_request_zero_polls`    EDGE, outside the property's wording: with N = 0 the call completes and the
                              request SURVIVES (it will hit the next polling operation — `stale_request_hits_next`);
* `cancel_before_poll`        request then `GEOS_interruptCancel()` (or `GEOS_init_r`) before the call = clean call;
* `callback_cancel_before_test` the callback runs *before* the test: a pending request cancelled by the
                              callback at poll 1 never fires;
* `interrupted_iff`           complete characterisation: from a clear flag the call is interrupted at k iff k is
                              the first poll in 1..N at which the callback requests;
* `usable_afterwards`         any later sequence of operations behaves as from the initial state.

What is *not* here (runtime, see manifest): that unwinding from each of the poll sites frees
everything and leaves inputs unchanged — that is exception safety of the C++, observed per (op, k)
under LeakSanitizer by the correspondence harness.
-/
namespace GeosModel.Interrupt
variable {ρ : Type}

/-- **interrupt_at_k.**  No request pending, callback `cb` registered; `cb` requests at poll `k`
    (and not before), `1 ≤ k ≤ N`: the call is interrupted exactly at poll `k`, and afterwards the
    flag is clear (and the callback still registered). -/
theorem interrupt_at_k (N k : Nat) (r : ρ) (cb : Cb) (h1 : 1 ≤ k) (hN : k ≤ N)
    (hbefore : ∀ j, 1 ≤ j → j < k → cb j ≠ .request) (hk : cb k = .request) :
    run ⟨false, some cb⟩ ⟨N, r⟩ = (⟨false, some cb⟩, .interrupted k) := by
  unfold run
  exact runFrom_first_request r (some cb) k N 1 h1 (by omega)
    (fun j a b => by simpa [State.act] using hbefore j a b) (by simpa [State.act] using hk)

/-- the harness' callback: counts, requests at its k-th invocation -/
theorem interrupt_at_k_requestAt (N k : Nat) (r : ρ) (h1 : 1 ≤ k) (hN : k ≤ N) :
    run ⟨false, some (requestAt k)⟩ ⟨N, r⟩ = (⟨false, some (requestAt k)⟩, .interrupted k) :=
  interrupt_at_k N k r (requestAt k) h1 hN
    (fun j _ hj => by simp [requestAt]; omega) (by simp [requestAt])

/-- a request at a poll index the operation never reaches (k = 0 or k > N) has no effect -/
theorem request_beyond_polls (N k : Nat) (r : ρ) (h : k = 0 ∨ N < k) :
    run ⟨false, some (requestAt k)⟩ ⟨N, r⟩ = (⟨false, some (requestAt k)⟩, .done r) := by
  unfold run
  apply runFrom_quiet
  intro j h1 h2
  simp only at h2
  simp only [State.act, requestAt]
  split
  · omega
  · simp

/-- **benign_callback_noop.**  A callback that never touches the flag changes neither the outcome nor
    the flag, whatever the initial flag is (compare: no callback registered). -/
theorem benign_callback_noop (q : Bool) (cb : Cb) (op : Op ρ) (hb : ∀ i, cb i = .nothing) :
    (run ⟨q, some cb⟩ op).2 = (run ⟨q, none⟩ op).2 ∧
    (run ⟨q, some cb⟩ op).1.requested = (run ⟨q, none⟩ op).1.requested ∧
    (run ⟨q, some cb⟩ op).1.callback = some cb := by
  obtain ⟨N, r⟩ := op
  unfold run
  simp only
  suffices h : ∀ (rem i : Nat) (q : Bool),
      (runFrom r rem i ⟨q, some cb⟩).2 = (runFrom r rem i ⟨q, none⟩).2 ∧
      (runFrom r rem i ⟨q, some cb⟩).1.requested = (runFrom r rem i ⟨q, none⟩).1.requested ∧
      (runFrom r rem i ⟨q, some cb⟩).1.callback = some cb from h N 1 q
  intro rem
  induction rem with
  | zero => intro i q; simp [runFrom]
  | succ n ih =>
    intro i q
    rw [runFrom_succ, runFrom_succ]
    have hf : (State.mk q (some cb)).fires i = (State.mk q none).fires i := by
      simp [State.fires, State.act, hb]
    rw [hf]
    cases (State.mk q none).fires i with
    | true => simp
    | false => simpa using ih (i + 1) false

/-- with a benign callback and no pending request the call completes with its result after N polls -/
theorem clean_run (cb : Option Cb) (op : Op ρ) (hb : ∀ c, cb = some c → ∀ i, c i = .nothing) :
    run ⟨false, cb⟩ op = (⟨false, cb⟩, .done op.result) := by
  unfold run
  apply runFrom_quiet
  intro j _ _
  cases cb with
  | none => simp [State.act]
  | some c => simp [State.act, hb c rfl j]

/-- **rerun_equals_clean.**  After a call interrupted at poll k the interrupt state equals the state
    before the call.  Hence (i) re-running *any* operation with *any* newly registered callback from
    the state left behind equals running it from the initial state, and (ii) in particular the same
    operation re-run with a benign callback returns the uninterrupted result `r` after N polls. -/
theorem rerun_equals_clean (N k : Nat) (r : ρ) (cb : Cb) (h1 : 1 ≤ k) (hN : k ≤ N)
    (hbefore : ∀ j, 1 ≤ j → j < k → cb j ≠ .request) (hk : cb k = .request) :
    let s' := (run ⟨false, some cb⟩ ⟨N, r⟩).1
    s' = ⟨false, some cb⟩ ∧
    (∀ (cb2 : Option Cb) (op2 : Op ρ), run (registerCallback s' cb2).1 op2 = run ⟨false, cb2⟩ op2) ∧
    run (registerCallback s' (some never)).1 ⟨N, r⟩ = (⟨false, some never⟩, .done r) := by
  have h := interrupt_at_k N k r cb h1 hN hbefore hk
  simp only [h]
  refine ⟨trivial, fun _ _ => rfl, ?_⟩
  exact clean_run (some never) ⟨N, r⟩ (fun c hc i => by cases hc; rfl)

/-- **pre_request.**  A request is pending when the call starts (made directly with
    `GEOS_interruptRequest`), the callback (if any) does not cancel at poll 1, and the operation
    polls at least once: interrupted at the first poll, request cleared. -/
theorem pre_request (N : Nat) (r : ρ) (cb : Option Cb) (hN : 1 ≤ N)
    (hc : ∀ c, cb = some c → c 1 ≠ .cancel) :
    run ⟨true, cb⟩ ⟨N, r⟩ = (⟨false, cb⟩, .interrupted 1) := by
  unfold run
  obtain ⟨n, rfl⟩ : ∃ n, N = n + 1 := ⟨N - 1, by omega⟩
  rw [runFrom_succ]
  have hf : (State.mk true cb).fires 1 = true := by
    cases cb with
    | none => simp [State.fires, State.act]
    | some c =>
      have := hc c rfl
      simp only [State.fires, State.act]
      cases h : c 1 <;> simp_all
  simp [hf]

/-- **pre_request_zero_polls** (edge outside the property's wording).  If the operation performs no
    poll at all, a pending request neither interrupts it nor is cleared: it *survives* the call. -/
theorem pre_request_zero_polls (r : ρ) (cb : Option Cb) :
    run ⟨true, cb⟩ ⟨0, r⟩ = (⟨true, cb⟩, .done r) ∧ check (run ⟨true, cb⟩ ⟨0, r⟩).1 = true := by
  simp [run, runFrom, check]

/-- consequence of the edge: the surviving request interrupts the *next* operation that polls,
    although nobody asked for that one to be interrupted -/
theorem stale_request_hits_next (r r2 : ρ) (N2 : Nat) (h : 1 ≤ N2) :
    run (run ⟨true, none⟩ ⟨0, r⟩).1 ⟨N2, r2⟩ = (⟨false, none⟩, .interrupted 1) := by
  rw [(pre_request_zero_polls r none).1]
  exact pre_request N2 r2 none h (fun c hc => by cases hc)

/-- **cancel_before_poll.**  `GEOS_interruptRequest(); GEOS_interruptCancel();` (or a `GEOS_init_r()`
    in between) before the call: the call runs exactly as from the clear state. -/
theorem cancel_before_poll (s : State) (op : Op ρ) (hs : s.requested = false) :
    run (cancel (request s)) op = run s op ∧ run (geosInit (request s)) op = run s op := by
  obtain ⟨q, c⟩ := s
  simp only at hs
  subst hs
  simp [cancel, request, geosInit]

/-- the callback is invoked *before* the flag is tested: a pending request that the callback cancels
    at poll 1 never fires (callback quiet afterwards) -/
theorem callback_cancel_before_test (N : Nat) (r : ρ) (cb : Cb) (h1 : cb 1 = .cancel)
    (hq : ∀ j, 2 ≤ j → cb j ≠ .request) (hN : 1 ≤ N) :
    run ⟨true, some cb⟩ ⟨N, r⟩ = (⟨false, some cb⟩, .done r) := by
  unfold run
  obtain ⟨n, rfl⟩ : ∃ n, N = n + 1 := ⟨N - 1, by omega⟩
  rw [runFrom_succ]
  have hf : (State.mk true (some cb)).fires 1 = false := by simp [State.fires, State.act, h1]
  rw [hf]
  simp only [Bool.false_eq_true, if_false]
  apply runFrom_quiet
  intro j a _
  simpa [State.act] using hq j (by omega)

/-- **complete characterisation** from a clear flag: interrupted at `k` iff `k` is the first poll in
    `1..N` at which the callback requests; otherwise the result is returned. -/
theorem interrupted_iff (N k : Nat) (r : ρ) (cb : Cb) :
    (run ⟨false, some cb⟩ ⟨N, r⟩).2 = .interrupted k ↔
      (1 ≤ k ∧ k ≤ N ∧ cb k = .request ∧ ∀ j, 1 ≤ j → j < k → cb j ≠ .request) := by
  constructor
  · intro h
    -- either some first requesting poll exists in 1..N, or none does
    by_cases hex : ∃ m, 1 ≤ m ∧ m ≤ N ∧ cb m = .request
    · -- take the least such m
      have hleast : ∃ m, (1 ≤ m ∧ m ≤ N ∧ cb m = .request) ∧ ∀ j, 1 ≤ j → j < m → cb j ≠ .request := by
        obtain ⟨m, hm⟩ := hex
        induction m using Nat.strongRecOn with
        | _ m ih =>
          by_cases hlt : ∃ j, 1 ≤ j ∧ j < m ∧ cb j = .request
          · obtain ⟨j, hj1, hj2, hj3⟩ := hlt
            exact ih j hj2 ⟨hj1, by omega, hj3⟩
          · exact ⟨m, hm, fun j a b c => hlt ⟨j, a, b, c⟩⟩
      obtain ⟨m, ⟨hm1, hm2, hm3⟩, hm4⟩ := hleast
      have := interrupt_at_k N m r cb hm1 hm2 hm4 hm3
      rw [this] at h
      simp only [Outcome.interrupted.injEq] at h
      subst h
      exact ⟨hm1, hm2, hm3, hm4⟩
    · have hq : run ⟨false, some cb⟩ ⟨N, r⟩ = (⟨false, some cb⟩, .done r) := by
        unfold run
        apply runFrom_quiet
        intro j a b hc
        simp only at b
        exact hex ⟨j, a, by omega, by simpa [State.act] using hc⟩
      rw [hq] at h
      cases h
  · rintro ⟨h1, h2, h3, h4⟩
    rw [interrupt_at_k N k r cb h1 h2 h4 h3]

/-- sequences of API calls of interruptible operations, each with its own callback registration -/
def runSeq (s : State) : List (Option Cb × Op ρ) → List (Outcome ρ)
  | [] => []
  | (cb, op) :: rest =>
    let (s', o) := run (registerCallback s cb).1 op
    o :: runSeq s' rest

/-- **usable_afterwards.**  After an interrupted call, every later sequence of operations (with
    whatever callbacks) gives exactly the outcomes it gives when the interrupted call never happened. -/
theorem usable_afterwards (N k : Nat) (r : ρ) (cb : Cb) (h1 : 1 ≤ k) (hN : k ≤ N)
    (hbefore : ∀ j, 1 ≤ j → j < k → cb j ≠ .request) (hk : cb k = .request)
    (later : List (Option Cb × Op ρ)) :
    runSeq (run ⟨false, some cb⟩ ⟨N, r⟩).1 later = runSeq ⟨false, some cb⟩ later := by
  rw [interrupt_at_k N k r cb h1 hN hbefore hk]

/-- whatever the callback does, after a call that polled at least once no request is left pending -/
theorem flag_clear_after_polling_call (s : State) (op : Op ρ) (h : 1 ≤ op.polls) :
    check (run s op).1 = false := by
  unfold run check
  rw [runFrom_clears op.result op.polls 1 s (by omega)]

/-! ### non-vacuity -/
example : run ⟨false, some (requestAt 3)⟩ (⟨5, "r"⟩ : Op String) = (⟨false, some (requestAt 3)⟩, .interrupted 3) :=
  interrupt_at_k_requestAt 5 3 "r" (by decide) (by decide)
example : (run ⟨false, some (requestAt 3)⟩ (⟨5, "r"⟩ : Op String)).2 = .interrupted 3 := by decide
example : (run ⟨false, some never⟩ (⟨5, "r"⟩ : Op String)).2 = .done "r" := by decide
example : (run ⟨true, none⟩ (⟨0, "r"⟩ : Op String)).2 = .done "r" := by decide
example : (run ⟨true, some (cancelAt 1)⟩ (⟨4, "r"⟩ : Op String)).2 = .done "r" := by decide
example : (run ⟨true, some (cancelAt 2)⟩ (⟨4, "r"⟩ : Op String)).2 = .interrupted 1 := by decide

end GeosModel.Interrupt
