import GeosModel.Model.Relate.Pred
import GeosModel.Model.Relate.EnvExit
import GeosModel.Model.Relate.Ref
/-!
# C01 — relate matrix and named predicates equal the exact DE-9IM on grid inputs

What is *proved* here (for every matrix, every dimension pair, every event sequence):

* `named_*_eq_pattern` — each named predicate of `IntersectionMatrix` is exactly the disjunction of its
  documented DE-9IM patterns ("every named predicate returns the truth value its DE-9IM definition
  assigns to the matrix");
* `determined_stable` — once `isDetermined()` holds on a partial matrix, `valueIM()` has the same value on
  every larger matrix (entries only grow), so freezing the answer early is sound;
* `early_exit_eq_final` — for every sequence of `updateDimension` events, the value an IM predicate ends
  up with (frozen early or computed in `finish()`) equals `valueIM` of the matrix all the events build;
  `basic_intersects_final` / `basic_disjoint_final` — the same for the two matrix-free predicates;
* `run_im_eq_fold` — the matrix held by the predicate is the fold of the events;
* `envelope_exit_sound` — the `false` that `RelateNG::evaluate` returns without looking at the geometry when
  `hasRequiredEnvelopeInteraction` fails (per-predicate `requireCovers` / `requireInteraction` against the envelopes)
  is the DE-9IM definition's answer, for every predicate kind and every true matrix compatible with the envelope facts;
  `exterior_check_irrelevant_A/B` — when `requireExteriorCheck` is false, the matrix entries the skipped point tests
  could raise do not influence the predicate's value (Model/Relate/EnvExit.lean).

The models `Model/Relate/Pred.lean` and `Model/Relate/EnvExit.lean` are tied to the source by the translator:
`Props/C01GenPred.lean` proves the functions regenerated from the current C++ equal to them, for all arguments.

What is *not* proved: that the geometric engine of RelateNG emits the right events.  That part is
tied by correspondence against `GeosModel.Relate.refIM` (Model/Relate/Ref.lean), an independent exact
evaluation of the DE-9IM by arrangement sampling, which is part of the trusted base as the definition
of "the true matrix" (see DESIGN.md, C01).
-/
namespace GeosModel.Relate
open GeosModel

/-! ### entries only grow -/

theorem IM.le_refl (m : IM) : m.le m := by
  simp [IM.le]

theorem IM.le_trans {a b c : IM} (h1 : a.le b) (h2 : b.le c) : a.le c := by
  simp only [IM.le] at *
  omega

theorem raise_le (m : IM) (a b : Loc3) (d : Int) : m.le (m.raise a b d) := by
  unfold IM.raise
  split
  · rename_i h
    cases a <;> cases b <;> simp only [IM.get] at h <;> simp only [IM.set, IM.le] <;> omega
  · exact IM.le_refl m

theorem foldIM_le (us : List Upd) : ∀ (m : IM), m.le (foldIM m us) := by
  induction us with
  | nil => intro m; exact IM.le_refl m
  | cons u us ih =>
    intro m
    exact IM.le_trans (raise_le m u.a u.b u.d) (ih _)

/-! ### named predicates are their DE-9IM patterns -/

theorem T_iff (v : Int) (hv : -1 ≤ v) : IM.T v = decide (v ≥ 0) := by
  unfold IM.T IM.matchesSym
  by_cases h : v ≥ 0
  · simp [h]
  · have : v = -1 := by omega
    subst this; decide

theorem mp (m : IM) (a b c d e f g h i : Char) :
    m.matchesPat [a, b, c, d, e, f, g, h, i] =
      (IM.matchesSym m.ii a && IM.matchesSym m.ib b && IM.matchesSym m.ie c &&
       IM.matchesSym m.bi d && IM.matchesSym m.bb e && IM.matchesSym m.be f &&
       IM.matchesSym m.ei g && IM.matchesSym m.eb h && IM.matchesSym m.ee i) := by
  simp [IM.matchesPat, IM.entries, List.zipWith, List.all, Bool.and_assoc]

theorem ms_star (v : Int) : IM.matchesSym v '*' = true := by simp [IM.matchesSym]
theorem ms_F (v : Int) : IM.matchesSym v 'F' = (v == -1) := by
  simp [IM.matchesSym]; rfl
theorem ms_T (v : Int) : IM.matchesSym v 'T' = IM.T v := rfl
theorem ms_0 (v : Int) : IM.matchesSym v '0' = (v == 0) := by
  simp [IM.matchesSym]; rfl
theorem ms_1 (v : Int) : IM.matchesSym v '1' = (v == 1) := by
  simp [IM.matchesSym]; rfl

theorem beqF (v : Int) (h : -1 ≤ v) : (v == -1) = !decide (v ≥ 0) := by
  by_cases hv : v = -1
  · subst hv; decide
  · have : (v == -1) = false := by simpa using hv
    rw [this]; simp; omega

theorem named_disjoint_eq_pattern (m : IM) : m.isDisjoint = m.matchesPat "FF*FF****".toList := by
  show m.isDisjoint = m.matchesPat ['F','F','*','F','F','*','*','*','*']
  rw [mp]; simp [IM.isDisjoint, ms_star, ms_F]

theorem named_intersects_eq_pattern (m : IM) (hv : m.valid) :
    m.isIntersects = (m.matchesPat "T********".toList || m.matchesPat "*T*******".toList ||
                      m.matchesPat "***T*****".toList || m.matchesPat "****T****".toList) := by
  show m.isIntersects = (m.matchesPat ['T','*','*','*','*','*','*','*','*'] || m.matchesPat ['*','T','*','*','*','*','*','*','*'] ||
      m.matchesPat ['*','*','*','T','*','*','*','*','*'] || m.matchesPat ['*','*','*','*','T','*','*','*','*'])
  simp only [mp, ms_star, ms_T, Bool.and_true, Bool.true_and]
  obtain ⟨h1, h2, _, h4, h5, _⟩ := hv
  rw [T_iff _ h1.1, T_iff _ h2.1, T_iff _ h4.1, T_iff _ h5.1]
  simp only [IM.isIntersects, IM.isDisjoint, beqF _ h1.1, beqF _ h2.1, beqF _ h4.1, beqF _ h5.1]
  generalize decide (m.ii ≥ 0) = a; generalize decide (m.ib ≥ 0) = b
  generalize decide (m.bi ≥ 0) = c; generalize decide (m.bb ≥ 0) = d
  cases a <;> cases b <;> cases c <;> cases d <;> rfl

theorem named_within_eq_pattern (m : IM) : m.isWithin = m.matchesPat "T*F**F***".toList := by
  show m.isWithin = m.matchesPat ['T','*','F','*','*','F','*','*','*']
  rw [mp]; simp [IM.isWithin, ms_star, ms_F, ms_T]

theorem named_contains_eq_pattern (m : IM) : m.isContains = m.matchesPat "T*****FF*".toList := by
  show m.isContains = m.matchesPat ['T','*','*','*','*','*','F','F','*']
  rw [mp]; simp [IM.isContains, ms_star, ms_F, ms_T]

theorem named_equals_eq_pattern (m : IM) (d : Int) :
    m.isEquals d d = m.matchesPat "T*F**FFF*".toList := by
  show m.isEquals d d = m.matchesPat ['T','*','F','*','*','F','F','F','*']
  rw [mp]
  simp only [IM.isEquals, ms_star, ms_F, ms_T, bne_self_eq_false, Bool.false_eq_true, if_false, Bool.and_true]
  generalize IM.T m.ii = a; generalize (m.ei == -1) = b; generalize (m.ie == -1) = c
  generalize (m.eb == -1) = e; generalize (m.be == -1) = f
  cases a <;> cases b <;> cases c <;> cases e <;> cases f <;> rfl

theorem named_covers_eq_pattern (m : IM) :
    m.isCovers = (m.matchesPat "T*****FF*".toList || m.matchesPat "*T****FF*".toList ||
                  m.matchesPat "***T**FF*".toList || m.matchesPat "****T*FF*".toList) := by
  show m.isCovers = (m.matchesPat ['T','*','*','*','*','*','F','F','*'] || m.matchesPat ['*','T','*','*','*','*','F','F','*'] ||
      m.matchesPat ['*','*','*','T','*','*','F','F','*'] || m.matchesPat ['*','*','*','*','T','*','F','F','*'])
  simp only [mp, ms_star, ms_T, ms_F, Bool.and_true, Bool.true_and, IM.isCovers, IM.hasPointInCommon]
  by_cases a : IM.T m.ii = true <;> by_cases b : IM.T m.ib = true <;> by_cases c : IM.T m.bi = true <;>
    by_cases d : IM.T m.bb = true <;> by_cases e : m.ei = -1 <;> by_cases f : m.eb = -1 <;> simp [a, b, c, d, e, f]

theorem named_coveredBy_eq_pattern (m : IM) :
    m.isCoveredBy = (m.matchesPat "T*F**F***".toList || m.matchesPat "*TF**F***".toList ||
                     m.matchesPat "**FT*F***".toList || m.matchesPat "**F*TF***".toList) := by
  show m.isCoveredBy = (m.matchesPat ['T','*','F','*','*','F','*','*','*'] || m.matchesPat ['*','T','F','*','*','F','*','*','*'] ||
      m.matchesPat ['*','*','F','T','*','F','*','*','*'] || m.matchesPat ['*','*','F','*','T','F','*','*','*'])
  simp only [mp, ms_star, ms_T, ms_F, Bool.and_true, Bool.true_and, IM.isCoveredBy, IM.hasPointInCommon]
  by_cases a : IM.T m.ii = true <;> by_cases b : IM.T m.ib = true <;> by_cases c : IM.T m.bi = true <;>
    by_cases d : IM.T m.bb = true <;> by_cases e : m.ie = -1 <;> by_cases f : m.be = -1 <;> simp [a, b, c, d, e, f]

/-- touches, for every dimension pair the code accepts (A/A, L/L, L/A, P/A, P/L and their swaps) -/
theorem named_touches_eq_pattern (m : IM) (dA dB : Int)
    (hd : (dA, dB) ∈ [((2 : Int), (2 : Int)), (1, 1), (1, 2), (2, 1), (0, 2), (2, 0), (0, 1), (1, 0)]) :
    m.isTouches dA dB = (m.matchesPat "FT*******".toList || m.matchesPat "F**T*****".toList ||
                         m.matchesPat "F***T****".toList) := by
  show m.isTouches dA dB = (m.matchesPat ['F','T','*','*','*','*','*','*','*'] || m.matchesPat ['F','*','*','T','*','*','*','*','*'] ||
      m.matchesPat ['F','*','*','*','T','*','*','*','*'])
  simp only [mp, ms_star, ms_T, ms_F, Bool.and_true, Bool.true_and]
  simp only [List.mem_cons, Prod.mk.injEq, List.mem_nil_iff, or_false] at hd
  rcases hd with ⟨rfl, rfl⟩ | ⟨rfl, rfl⟩ | ⟨rfl, rfl⟩ | ⟨rfl, rfl⟩ | ⟨rfl, rfl⟩ | ⟨rfl, rfl⟩ | ⟨rfl, rfl⟩ | ⟨rfl, rfl⟩ <;>
    simp [IM.isTouches] <;>
    (by_cases a : m.ii = -1 <;> by_cases b : IM.T m.ib = true <;> by_cases c : IM.T m.bi = true <;>
      by_cases d : IM.T m.bb = true <;> simp [a, b, c, d])

/-- touches is false for P/P -/
theorem named_touches_PP (m : IM) : m.isTouches 0 0 = false := by
  simp [IM.isTouches]

theorem named_crosses_lower_eq_pattern (m : IM) (dA dB : Int)
    (hd : (dA, dB) ∈ [((0 : Int), (1 : Int)), (0, 2), (1, 2)]) :
    m.isCrosses dA dB = m.matchesPat "T*T******".toList := by
  show m.isCrosses dA dB = m.matchesPat ['T','*','T','*','*','*','*','*','*']
  simp only [mp, ms_star, ms_T, Bool.and_true]
  simp only [List.mem_cons, Prod.mk.injEq, List.mem_nil_iff, or_false] at hd
  rcases hd with ⟨rfl, rfl⟩ | ⟨rfl, rfl⟩ | ⟨rfl, rfl⟩ <;> simp [IM.isCrosses]

theorem named_crosses_higher_eq_pattern (m : IM) (dA dB : Int)
    (hd : (dA, dB) ∈ [((1 : Int), (0 : Int)), (2, 0), (2, 1)]) :
    m.isCrosses dA dB = m.matchesPat "T*****T**".toList := by
  show m.isCrosses dA dB = m.matchesPat ['T','*','*','*','*','*','T','*','*']
  simp only [mp, ms_star, ms_T, Bool.and_true]
  simp only [List.mem_cons, Prod.mk.injEq, List.mem_nil_iff, or_false] at hd
  rcases hd with ⟨rfl, rfl⟩ | ⟨rfl, rfl⟩ | ⟨rfl, rfl⟩ <;> simp [IM.isCrosses]

theorem named_crosses_LL_eq_pattern (m : IM) : m.isCrosses 1 1 = m.matchesPat "0********".toList := by
  show m.isCrosses 1 1 = m.matchesPat ['0','*','*','*','*','*','*','*','*']
  simp [mp, ms_star, ms_0, IM.isCrosses]

theorem named_overlaps_PP_AA_eq_pattern (m : IM) (d : Int) (hd : d = 0 ∨ d = 2) :
    m.isOverlaps d d = m.matchesPat "T*T***T**".toList := by
  show m.isOverlaps d d = m.matchesPat ['T','*','T','*','*','*','T','*','*']
  simp only [mp, ms_star, ms_T, Bool.and_true]
  rcases hd with rfl | rfl <;> simp [IM.isOverlaps]

theorem named_overlaps_LL_eq_pattern (m : IM) : m.isOverlaps 1 1 = m.matchesPat "1*T***T**".toList := by
  show m.isOverlaps 1 1 = m.matchesPat ['1','*','T','*','*','*','T','*','*']
  simp [mp, ms_star, ms_T, ms_1, IM.isOverlaps]

/-! ### an early exit can never change the answer -/

theorem T_mono {v w : Int} (h : v ≤ w) (hv : IM.T v = true) (hw : -1 ≤ v) : IM.T w = true := by
  rw [T_iff _ hw] at hv
  rw [T_iff _ (by omega)]
  simp only [decide_eq_true_iff] at *
  omega

theorem T_of_nonneg {v : Int} (h : v ≥ 0) : IM.T v = true := by
  rw [T_iff _ (by omega)]; simpa using h

theorem not_F_of_nonneg {v : Int} (h : v ≥ 0) : (v == -1) = false := by
  simp; omega

theorem patDetermined_stable : ∀ (vs ws ps : List Int), vs.length = ws.length →
    (∀ i (h1 : i < vs.length) (h2 : i < ws.length), vs[i] ≤ ws[i]) →
    patDetermined vs ps = true →
    (List.zipWith matchEntry ws ps).all id = false
  | [], _, _, _, _, h => by simp [patDetermined] at h
  | _ :: _, _, [], _, _, h => by simp [patDetermined] at h
  | v :: vs, [], _ :: _, hl, _, _ => by simp at hl
  | v :: vs, w :: ws, p :: ps, hl, hle, h => by
    have hvw : v ≤ w := hle 0 (by simp) (by simp)
    have hrest : ∀ i (h1 : i < vs.length) (h2 : i < ws.length), vs[i] ≤ ws[i] := by
      intro i h1 h2
      have := hle (i + 1) (by simp; omega) (by simp; omega)
      simpa using this
    have hl' : vs.length = ws.length := by simpa using hl
    simp only [patDetermined] at h
    simp only [List.zipWith_cons_cons, List.all_cons, id]
    by_cases h3 : p = -3
    · subst h3
      simp only [beq_self_eq_true, if_true] at h
      simp [patDetermined_stable vs ws ps hl' hrest h]
    · have h3' : (p == -3) = false := by simpa using h3
      simp only [h3', Bool.false_eq_true, if_false] at h
      by_cases h2 : p = -2
      · subst h2
        simp only [beq_self_eq_true, if_true] at h
        split at h
        · cases h
        · simp [patDetermined_stable vs ws ps hl' hrest h]
      · have h2' : (p == -2) = false := by simpa using h2
        simp only [h2', Bool.false_eq_true, if_false] at h
        split at h
        · rename_i hgt
          have : matchEntry w p = false := by
            unfold matchEntry
            simp only [h3', h2', Bool.false_eq_true, if_false]
            simp; omega
          simp [this]
        · simp [patDetermined_stable vs ws ps hl' hrest h]

theorem entries_le {m n : IM} (h : m.le n) :
    ∀ i (h1 : i < m.entries.length) (h2 : i < n.entries.length), m.entries[i] ≤ n.entries[i] := by
  intro i h1 h2
  simp only [IM.entries, List.length_cons, List.length_nil] at h1
  simp only [IM.le] at h
  have : i = 0 ∨ i = 1 ∨ i = 2 ∨ i = 3 ∨ i = 4 ∨ i = 5 ∨ i = 6 ∨ i = 7 ∨ i = 8 := by omega
  rcases this with rfl | rfl | rfl | rfl | rfl | rfl | rfl | rfl | rfl <;> simp [IM.entries] <;> omega

theorem nF {v : Int} (h : v ≥ 0) : (v == -1) = false := by
  simp; omega

theorem isContains_false (m : IM) (h : m.ei ≥ 0 ∨ m.eb ≥ 0) : m.isContains = false := by
  unfold IM.isContains; rcases h with h | h <;> simp [nF h]
theorem isCovers_false (m : IM) (h : m.ei ≥ 0 ∨ m.eb ≥ 0) : m.isCovers = false := by
  unfold IM.isCovers; rcases h with h | h <;> simp [nF h]
theorem isWithin_false (m : IM) (h : m.ie ≥ 0 ∨ m.be ≥ 0) : m.isWithin = false := by
  unfold IM.isWithin; rcases h with h | h <;> simp [nF h]
theorem isCoveredBy_false (m : IM) (h : m.ie ≥ 0 ∨ m.be ≥ 0) : m.isCoveredBy = false := by
  unfold IM.isCoveredBy; rcases h with h | h <;> simp [nF h]
theorem isTouches_false (m : IM) (dA dB : Int) (h : m.ii ≥ 0) : m.isTouches dA dB = false := by
  unfold IM.isTouches; simp only [nF h]; split <;> simp
theorem isEquals_false (m : IM) (dA dB : Int) (h : m.ie ≥ 0 ∨ m.be ≥ 0 ∨ m.ei ≥ 0 ∨ m.eb ≥ 0) :
    m.isEquals dA dB = false := by
  unfold IM.isEquals; split
  · rfl
  · rcases h with h | h | h | h <;> simp [nF h]

/-- **`determined_stable`**: if `isDetermined()` holds on a (valid) partial matrix `m`, then `valueIM()`
gives the same answer on `m` and on every matrix `m'` with larger entries.  The only side condition is
the one the geometry guarantees for two lines: their interiors cannot meet in dimension 2. -/
theorem determined_stable (k : Kind) (dA dB : Int) (m m' : IM) (hv : m.valid) (hle : m.le m')
    (hLL : dA = 1 → dB = 1 → m'.ii ≤ 1)
    (hdet : isDetermined k dA dB m = true) :
    valueIM k dA dB m' = valueIM k dA dB m := by
  simp only [IM.le] at hle
  obtain ⟨⟨v1, _⟩, ⟨v2, _⟩, ⟨v3, _⟩, ⟨v4, _⟩, ⟨v5, _⟩, ⟨v6, _⟩, ⟨v7, _⟩, ⟨v8, _⟩, ⟨v9, _⟩⟩ := hv
  cases k with
  | intersects => simp [isDetermined] at hdet
  | disjoint => simp [isDetermined] at hdet
  | matrix => simp [isDetermined] at hdet
  | contains =>
    simp [isDetermined, intersectsExteriorOf, isIntersectsE, IM.get] at hdet
    simp only [valueIM]
    rw [isContains_false m (by omega), isContains_false m' (by omega)]
  | covers =>
    simp [isDetermined, intersectsExteriorOf, isIntersectsE, IM.get] at hdet
    simp only [valueIM]
    rw [isCovers_false m (by omega), isCovers_false m' (by omega)]
  | within =>
    simp [isDetermined, intersectsExteriorOf, isIntersectsE, IM.get] at hdet
    simp only [valueIM]
    rw [isWithin_false m (by omega), isWithin_false m' (by omega)]
  | coveredBy =>
    simp [isDetermined, intersectsExteriorOf, isIntersectsE, IM.get] at hdet
    simp only [valueIM]
    rw [isCoveredBy_false m (by omega), isCoveredBy_false m' (by omega)]
  | touches =>
    simp [isDetermined, isIntersectsE, IM.get] at hdet
    simp only [valueIM]
    rw [isTouches_false m _ _ (by omega), isTouches_false m' _ _ (by omega)]
  | equalsTopo =>
    simp [isDetermined, isIntersectsE, IM.get] at hdet
    simp only [valueIM]
    rw [isEquals_false m _ _ (by omega), isEquals_false m' _ _ (by omega)]
  | crosses =>
    simp only [valueIM, IM.isCrosses]
    by_cases hll : dA = 1 ∧ dB = 1
    · obtain ⟨rfl, rfl⟩ := hll
      simp [isDetermined, isIntersectsE, IM.get] at hdet
      have e1 : (m'.ii == 0) = false := by simp; omega
      have e2 : (m.ii == 0) = false := by simp; omega
      simp [e1, e2]
    · have hll' : (dA == 1 && dB == 1) = false := by
        simp only [Bool.and_eq_false_iff, beq_eq_false_iff_ne, ne_eq]
        by_cases h : dA = 1
        · right; exact fun hb => hll ⟨h, hb⟩
        · left; exact h
      simp only [isDetermined, hll', Bool.false_eq_true, if_false] at hdet ⊢
      by_cases hlt : dA < dB
      · simp [hlt, isIntersectsE, IM.get] at hdet
        rw [T_of_nonneg (show m.ii ≥ 0 by omega), T_of_nonneg (show m.ie ≥ 0 by omega),
          T_of_nonneg (show m'.ii ≥ 0 by omega), T_of_nonneg (show m'.ie ≥ 0 by omega)]
        split
        · rfl
        · split
          · rename_i h
            simp only [Bool.or_eq_true, Bool.and_eq_true, beq_iff_eq] at h
            omega
          · rfl
      · simp only [hlt, if_false] at hdet
        by_cases hgt : dA > dB
        · simp [hgt, isIntersectsE, IM.get] at hdet
          rw [T_of_nonneg (show m.ii ≥ 0 by omega), T_of_nonneg (show m.ei ≥ 0 by omega),
            T_of_nonneg (show m'.ii ≥ 0 by omega), T_of_nonneg (show m'.ei ≥ 0 by omega)]
          split
          · rename_i h
            simp only [Bool.or_eq_true, Bool.and_eq_true, beq_iff_eq] at h
            omega
          · rfl
        · simp [hgt] at hdet
  | overlaps =>
    simp [isDetermined, isIntersectsE, IM.get] at hdet
    simp only [valueIM, IM.isOverlaps]
    rcases hdet with ⟨⟨⟨_, h1⟩, h2⟩, h3⟩ | ⟨⟨⟨hd, h1⟩, h2⟩, h3⟩
    · rw [T_of_nonneg (show m.ii ≥ 0 by omega), T_of_nonneg (show m.ie ≥ 0 by omega), T_of_nonneg (show m.ei ≥ 0 by omega),
        T_of_nonneg (show m'.ii ≥ 0 by omega), T_of_nonneg (show m'.ie ≥ 0 by omega), T_of_nonneg (show m'.ei ≥ 0 by omega)]
      split
      · rfl
      · split
        · rename_i hll
          simp only [Bool.and_eq_true, beq_iff_eq] at hll
          omega
        · rfl
    · subst hd
      rw [T_of_nonneg (show m.ie ≥ 0 by omega), T_of_nonneg (show m.ei ≥ 0 by omega),
        T_of_nonneg (show m'.ie ≥ 0 by omega), T_of_nonneg (show m'.ei ≥ 0 by omega)]
      by_cases hb : dB = 1
      · subst hb
        have e1 : m'.ii = 1 := by have := hLL rfl rfl; omega
        simp [e1, h1]
      · have hb' : (dB == 1) = false := by simpa using hb
        simp [hb, hb']
  | pattern p =>
    simp only [isDetermined] at hdet
    simp only [valueIM, matchesP]
    have hlen : m.entries.length = m'.entries.length := by simp [IM.entries]
    have h1 := patDetermined_stable m.entries m'.entries p hlen (entries_le (by simpa [IM.le] using hle)) hdet
    have h2 := patDetermined_stable m.entries m.entries p rfl (entries_le (IM.le_refl m)) hdet
    simp [h1, h2]

/-! ### the state machine -/

theorem setValue_value (s : PState) (v : Bool) :
    (s.setValue v).value = match s.value with | some w => some w | none => some v := by
  unfold PState.setValue; cases h : s.value <;> simp [h]

theorem setValue_fields (s : PState) (v : Bool) :
    (s.setValue v).im = s.im ∧ (s.setValue v).kind = s.kind ∧ (s.setValue v).dimA = s.dimA ∧ (s.setValue v).dimB = s.dimB := by
  unfold PState.setValue; cases s.value <;> simp

theorem update_eq_updateIM (s : PState) (hk : s.kind.isBasic = false) (a b : Loc3) (d : Int) :
    s.update a b d = s.updateIM a b d := by
  unfold PState.update
  cases h : s.kind <;> simp_all [Kind.isBasic]

theorem updateIM_fields (s : PState) (a b : Loc3) (d : Int) :
    (s.updateIM a b d).im = s.im.raise a b d ∧ (s.updateIM a b d).kind = s.kind ∧
    (s.updateIM a b d).dimA = s.dimA ∧ (s.updateIM a b d).dimB = s.dimB := by
  unfold PState.updateIM IM.raise
  by_cases hgt : d > s.im.get a b
  · simp only [hgt, if_true]
    split
    · have := setValue_fields { s with im := s.im.set a b d } (valueIM s.kind s.dimA s.dimB (s.im.set a b d))
      simpa using this
    · simp
  · simp [hgt]

/-- after one update the value is the old one if it was known, else either still unknown or
`valueIM` of the new matrix which is determined -/
theorem updateIM_value (s : PState) (a b : Loc3) (d : Int) :
    (s.updateIM a b d).value = s.value ∨
    (s.value = none ∧ isDetermined s.kind s.dimA s.dimB (s.im.raise a b d) = true ∧
      (s.updateIM a b d).value = some (valueIM s.kind s.dimA s.dimB (s.im.raise a b d))) := by
  unfold PState.updateIM IM.raise
  by_cases hgt : d > s.im.get a b
  · simp only [hgt, if_true]
    by_cases hdet : isDetermined s.kind s.dimA s.dimB (s.im.set a b d) = true
    · simp only [hdet, if_true, setValue_value]
      cases hv : s.value with
      | some w => left; rfl
      | none => right; exact ⟨rfl, trivial, rfl⟩
    · simp [hdet]
  · simp [hgt]

/-- the matrix a predicate holds after a run is the fold of the events -/
theorem run_im_eq_fold (us : List Upd) : ∀ (s : PState), s.kind.isBasic = false →
    (s.run us).im = foldIM s.im us ∧ (s.run us).kind = s.kind ∧ (s.run us).dimA = s.dimA ∧ (s.run us).dimB = s.dimB := by
  induction us with
  | nil => intro s _; simp [PState.run, foldIM]
  | cons u us ih =>
    intro s hk
    obtain ⟨h1, h2, h3, h4⟩ := updateIM_fields s u.a u.b u.d
    rw [← update_eq_updateIM s hk] at h1 h2 h3 h4
    have := ih (s.update u.a u.b u.d) (by rw [h2]; exact hk)
    simp only [PState.run, foldIM, List.foldl_cons] at this ⊢
    rw [h1, h2, h3, h4] at this
    exact this

theorem raise_valid (m : IM) (hv : m.valid) (a b : Loc3) (d : Int) (hd : -1 ≤ d ∧ d ≤ 2) : (m.raise a b d).valid := by
  unfold IM.raise
  split
  · cases a <;> cases b <;> simp only [IM.set, IM.valid] at * <;> omega
  · exact hv

theorem finish_value (s : PState) (hk : s.kind.isBasic = false) :
    s.finish.value = match s.value with | some w => some w | none => some (valueIM s.kind s.dimA s.dimB s.im) := by
  unfold PState.finish
  cases h : s.kind <;> simp_all [Kind.isBasic, setValue_value]

/-- **`early_exit_eq_final`**: for every IM predicate (named ones, pattern matcher) and every sequence of
update events with dimensions in F..A, starting from an undecided state with a valid matrix: the value
after `finish()` — whether it was frozen at the first determined prefix or computed at the end — is
`valueIM` of the matrix built from all events. -/
theorem early_exit_eq_final (us : List Upd) : ∀ (s : PState), s.kind.isBasic = false →
    s.im.valid → (∀ u ∈ us, -1 ≤ u.d ∧ u.d ≤ 2) →
    (s.dimA = 1 → s.dimB = 1 → (foldIM s.im us).ii ≤ 1) →
    (s.value = none ∨ s.value = some (valueIM s.kind s.dimA s.dimB (foldIM s.im us))) →
    ((s.run us).finish).value = some (valueIM s.kind s.dimA s.dimB (foldIM s.im us)) := by
  induction us with
  | nil =>
    intro s hk _ _ _ hval
    simp only [PState.run, List.foldl_nil, foldIM] at hval ⊢
    rw [finish_value s hk]
    rcases hval with h | h <;> simp [h]
  | cons u us ih =>
    intro s hk hv hds hLL hval
    obtain ⟨h1, h2, h3, h4⟩ := updateIM_fields s u.a u.b u.d
    have hval' := updateIM_value s u.a u.b u.d
    rw [← update_eq_updateIM s hk] at h1 h2 h3 h4 hval'
    have hu := hds u (by simp)
    have hv' : (s.update u.a u.b u.d).im.valid := by rw [h1]; exact raise_valid _ hv _ _ _ hu
    have hfold : foldIM s.im (u :: us) = foldIM (s.update u.a u.b u.d).im us := by
      simp [foldIM, h1]
    have key := ih (s.update u.a u.b u.d) (by rw [h2]; exact hk) hv'
      (fun w hw => hds w (by simp [hw])) (by rw [h3, h4, ← hfold]; exact hLL)
    rw [h2, h3, h4, ← hfold] at key
    simp only [PState.run, List.foldl_cons] at key ⊢
    apply key
    rcases hval' with hsame | ⟨hnone, hdet, hnew⟩
    · rw [hsame]; exact hval
    · right
      rw [hnew]
      congr 1
      have hle : (s.im.raise u.a u.b u.d).le (foldIM s.im (u :: us)) := by
        simp only [foldIM, List.foldl_cons]; exact foldIM_le us _
      exact (determined_stable _ s.dimA s.dimB _ _ (raise_valid _ hv _ _ _ hu) hle hLL hdet).symm

/-! #### the two matrix-free predicates -/

theorem raise_isIntersects (m : IM) (a b : Loc3) (d : Int) (hd : 0 ≤ d)
    (h1 : -1 ≤ m.ii) (h2 : -1 ≤ m.ib) (h3 : -1 ≤ m.bi) (h4 : -1 ≤ m.bb) :
    (m.raise a b d).isIntersects = (m.isIntersects || isIntersection a b) ∧
    -1 ≤ (m.raise a b d).ii ∧ -1 ≤ (m.raise a b d).ib ∧ -1 ≤ (m.raise a b d).bi ∧ -1 ≤ (m.raise a b d).bb := by
  have e1 := beqF m.ii h1; have e2 := beqF m.ib h2; have e3 := beqF m.bi h3; have e4 := beqF m.bb h4
  have ed : (d == -1) = false := by simp; omega
  by_cases hgt : d > m.get a b
  · simp only [IM.raise, hgt, if_true]
    cases a <;> cases b <;>
      simp only [IM.set, IM.isIntersects, IM.isDisjoint, isIntersection, e1, e2, e3, e4, ed] <;>
      (refine ⟨by simp, by omega, by omega, by omega, by omega⟩)
  · simp only [IM.raise, hgt, if_false]
    refine ⟨?_, h1, h2, h3, h4⟩
    cases a <;> cases b <;> simp only [IM.get] at hgt <;>
      simp only [IM.isIntersects, IM.isDisjoint, isIntersection, e1, e2, e3, e4] <;>
      (first | (simp; done) | (simp; omega))

theorem foldIM_isIntersects (us : List Upd) : ∀ (m : IM), (∀ u ∈ us, 0 ≤ u.d) →
    -1 ≤ m.ii → -1 ≤ m.ib → -1 ≤ m.bi → -1 ≤ m.bb →
    (foldIM m us).isIntersects = (m.isIntersects || us.any (fun u => isIntersection u.a u.b)) := by
  induction us with
  | nil => intro m _ _ _ _ _; simp [foldIM]
  | cons u us ih =>
    intro m hd h1 h2 h3 h4
    obtain ⟨e, g1, g2, g3, g4⟩ := raise_isIntersects m u.a u.b u.d (hd u (by simp)) h1 h2 h3 h4
    simp only [foldIM, List.foldl_cons, List.any_cons] at ih ⊢
    rw [ih _ (fun w hw => hd w (by simp [hw])) g1 g2 g3 g4, e, Bool.or_assoc]

theorem basic_run_value (k : Kind) (hk : k = .intersects ∨ k = .disjoint) (us : List Upd) :
    ∀ (s : PState), s.kind = k →
      (s.run us).value = match s.value with
        | some w => some w
        | none => if us.any (fun u => isIntersection u.a u.b) then some (decide (k = .intersects)) else none := by
  induction us with
  | nil => intro s _; cases h : s.value <;> simp [PState.run, h]
  | cons u us ih =>
    intro s hs
    have hk' : (s.update u.a u.b u.d).kind = k := by
      unfold PState.update
      rcases hk with rfl | rfl <;> simp only [hs] <;> split <;>
        first | exact (setValue_fields s _).2.1.trans hs | exact hs
    have := ih (s.update u.a u.b u.d) hk'
    simp only [PState.run, List.foldl_cons, List.any_cons] at this ⊢
    rw [this]
    unfold PState.update
    rcases hk with rfl | rfl <;> simp only [hs] <;>
      by_cases hi : isIntersection u.a u.b = true <;> simp [hi, setValue_value] <;>
      cases hv : s.value <;> simp [hv]

theorem finish_intersects_value (s : PState) (hk : s.kind = .intersects) :
    s.finish.value = match s.value with | some w => some w | none => some false := by
  unfold PState.finish; simp only [hk, setValue_value]

theorem finish_disjoint_value (s : PState) (hk : s.kind = .disjoint) :
    s.finish.value = match s.value with | some w => some w | none => some true := by
  unfold PState.finish; simp only [hk, setValue_value]

/-- intersects: the final value is exactly `isIntersects` of the matrix the events build -/
theorem basic_intersects_final (us : List Upd) (hd : ∀ u ∈ us, 0 ≤ u.d) :
    (((PState.new .intersects).run us).finish).value =
      some ((foldIM (IM.allF.set .E .E 2) us).isIntersects) := by
  have hrun := basic_run_value .intersects (Or.inl rfl) us (PState.new .intersects) rfl
  have hk : ((PState.new .intersects).run us).kind = .intersects := by
    have : ∀ (us : List Upd) (s : PState), s.kind = .intersects → (s.run us).kind = .intersects := by
      intro us; induction us with
      | nil => intro s h; exact h
      | cons u us ih =>
        intro s h
        simp only [PState.run, List.foldl_cons] at ih ⊢
        apply ih
        unfold PState.update; simp only [h]; split
        · exact (setValue_fields s _).2.1.trans h
        · exact h
    exact this us _ rfl
  rw [foldIM_isIntersects us _ hd (by decide) (by decide) (by decide) (by decide)]
  rw [finish_intersects_value _ hk, hrun]
  have : (IM.allF.set .E .E 2).isIntersects = false := by decide
  rw [this]
  have hn : (PState.new .intersects).value = none := rfl
  rw [hn]
  cases h : us.any (fun u => isIntersection u.a u.b) <;> simp

/-- disjoint: the final value is exactly `isDisjoint` of the matrix the events build -/
theorem basic_disjoint_final (us : List Upd) (hd : ∀ u ∈ us, 0 ≤ u.d) :
    (((PState.new .disjoint).run us).finish).value =
      some ((foldIM (IM.allF.set .E .E 2) us).isDisjoint) := by
  have hrun := basic_run_value .disjoint (Or.inr rfl) us (PState.new .disjoint) rfl
  have hk : ((PState.new .disjoint).run us).kind = .disjoint := by
    have : ∀ (us : List Upd) (s : PState), s.kind = .disjoint → (s.run us).kind = .disjoint := by
      intro us; induction us with
      | nil => intro s h; exact h
      | cons u us ih =>
        intro s h
        simp only [PState.run, List.foldl_cons] at ih ⊢
        apply ih
        unfold PState.update; simp only [h]; split
        · exact (setValue_fields s _).2.1.trans h
        · exact h
    exact this us _ rfl
  have hi := foldIM_isIntersects us (IM.allF.set .E .E 2) hd (by decide) (by decide) (by decide) (by decide)
  have h0 : (IM.allF.set .E .E 2).isIntersects = false := by decide
  rw [h0] at hi
  have hdj : (foldIM (IM.allF.set .E .E 2) us).isDisjoint = !(us.any (fun u => isIntersection u.a u.b)) := by
    have : (foldIM (IM.allF.set .E .E 2) us).isIntersects = !(foldIM (IM.allF.set .E .E 2) us).isDisjoint := rfl
    rw [this] at hi
    cases hx : (foldIM (IM.allF.set .E .E 2) us).isDisjoint <;> simp_all
  rw [hdj]
  rw [finish_disjoint_value _ hk, hrun]
  have hn : (PState.new .disjoint).value = none := rfl
  rw [hn]
  cases h : us.any (fun u => isIntersection u.a u.b) <;> simp


/-! ### the early exits in front of the state machine: envelope test and exterior-check flags (Model/Relate/EnvExit.lean) -/

theorem disjoint_entries (m : IM) (h : m.isDisjoint = true) : m.ii = -1 ∧ m.ib = -1 ∧ m.bi = -1 ∧ m.bb = -1 := by
  simpa [IM.isDisjoint, and_assoc] using h

theorem T_neg_one : IM.T (-1) = false := by decide

/-- a predicate that requires an interaction is false on a matrix without one -/
theorem requireInteraction_sound (k : Kind) (hk : k.requireInteraction = true) (dA dB : Int) (M : IM) (hd : M.isDisjoint = true) :
    k.defValue dA dB M = false := by
  obtain ⟨h1, h2, h3, h4⟩ := disjoint_entries M hd
  cases k with
  | pattern p =>
    simp only [Kind.requireInteraction] at hk
    simp only [Kind.defValue, valueIM, matchesP]
    match p, hk with
    | [ii, ib, c, bi, bb, f, g, h, i], hk =>
      simp only [patRequiresInteraction, Bool.or_eq_true, beq_iff_eq, decide_eq_true_eq] at hk
      simp only [IM.entries, h1, h2, h3, h4, List.zipWith, List.all, matchEntry]
      rcases hk with ((hk | hk) | hk) | hk <;> rcases hk with hk | hk <;>
        first
          | (subst hk; simp)
          | (have e1 : (ii == -3) = false := by simp; omega
             have e2 : (ii == -2) = false := by simp; omega
             have e3 : ((-1 : Int) == ii) = false := by simp; omega
             simp [e1, e2, e3])
          | (have e1 : (ib == -3) = false := by simp; omega
             have e2 : (ib == -2) = false := by simp; omega
             have e3 : ((-1 : Int) == ib) = false := by simp; omega
             simp [e1, e2, e3])
          | (have e1 : (bi == -3) = false := by simp; omega
             have e2 : (bi == -2) = false := by simp; omega
             have e3 : ((-1 : Int) == bi) = false := by simp; omega
             simp [e1, e2, e3])
          | (have e1 : (bb == -3) = false := by simp; omega
             have e2 : (bb == -2) = false := by simp; omega
             have e3 : ((-1 : Int) == bb) = false := by simp; omega
             simp [e1, e2, e3])
  | _ =>
    simp_all [Kind.requireInteraction, Kind.defValue, valueIM, IM.isIntersects, IM.isContains, IM.isWithin, IM.isCovers, IM.isCoveredBy,
      IM.hasPointInCommon, IM.isCrosses, IM.isOverlaps, IM.isTouches, T_neg_one] <;> (repeat' split) <;> simp_all

/-- **`envelope_exit_sound`** — `RelateNG::evaluate` answers `false` without looking at the geometry when
`hasRequiredEnvelopeInteraction` fails.  That answer is the DE-9IM definition's, for every predicate kind and every true matrix
`M` of a pair whose envelopes have the facts `e`.  The three hypotheses are what the envelope facts mean for the point sets:
if env(A) does not cover env(B) then either some point of B lies outside env(A), hence in the Exterior of A (`EI` or `EB` is
non-empty), or B has no point at all (then nothing intersects); symmetrically for B; disjoint envelopes mean no common point. -/
theorem envelope_exit_sound (k : Kind) (e : EnvFacts) (dA dB : Int) (M : IM)
    (hA : e.aCoversB = false → (M.ei ≥ 0 ∨ M.eb ≥ 0) ∨ M.isDisjoint = true)
    (hB : e.bCoversA = false → (M.ie ≥ 0 ∨ M.be ≥ 0) ∨ M.isDisjoint = true)
    (hI : e.intersects = false → M.isDisjoint = true)
    (hexit : hasRequiredEnvelopeInteraction k e = false) : k.defValue dA dB M = false := by
  unfold hasRequiredEnvelopeInteraction at hexit
  by_cases c1 : k.requireCovers true = true
  · simp only [c1, if_true] at hexit
    have hk : k = .contains ∨ k = .covers := by cases k <;> simp_all [Kind.requireCovers]
    rcases hA hexit with h | h
    · rcases hk with rfl | rfl
      · exact isContains_false M h
      · exact isCovers_false M h
    · obtain ⟨h1, h2, h3, h4⟩ := disjoint_entries M h
      rcases hk with rfl | rfl <;>
        simp [Kind.defValue, valueIM, IM.isContains, IM.isCovers, IM.hasPointInCommon, h1, h2, h3, h4, T_neg_one]
  · simp only [c1, if_false, Bool.false_eq_true] at hexit
    by_cases c2 : k.requireCovers false = true
    · simp only [c2, if_true] at hexit
      have hk : k = .within ∨ k = .coveredBy := by cases k <;> simp_all [Kind.requireCovers]
      rcases hB hexit with h | h
      · rcases hk with rfl | rfl
        · exact isWithin_false M h
        · exact isCoveredBy_false M h
      · obtain ⟨h1, h2, h3, h4⟩ := disjoint_entries M h
        rcases hk with rfl | rfl <;>
          simp [Kind.defValue, valueIM, IM.isWithin, IM.isCoveredBy, IM.hasPointInCommon, h1, h2, h3, h4, T_neg_one]
    · simp only [c2, if_false, Bool.false_eq_true] at hexit
      have h1 : k.requireInteraction = true := by cases hh : k.requireInteraction <;> simp_all
      have h2 : e.intersects = false := by cases hh : e.intersects <;> simp_all
      exact requireInteraction_sound k h1 dA dB M (hI h2)

/-- **`exterior_check_irrelevant_A`** — when `requireExteriorCheck(GEOM_A)` is false RelateNG does not test the points of A against the
Exterior of B; the entries such tests could raise (`IE`, `BE`) do not influence the predicate's value -/
theorem exterior_check_irrelevant_A (k : Kind) (h : k.requireExteriorCheck true = false) (dA dB : Int) (m : IM) (x y : Int) :
    k.defValue dA dB { m with ie := x, be := y } = k.defValue dA dB m := by
  cases k <;> simp_all [Kind.requireExteriorCheck, Kind.defValue, valueIM, IM.isIntersects, IM.isDisjoint, IM.isContains, IM.isCovers,
    IM.hasPointInCommon]

/-- **`exterior_check_irrelevant_B`** — the same for the points of B against the Exterior of A (`EI`, `EB`) -/
theorem exterior_check_irrelevant_B (k : Kind) (h : k.requireExteriorCheck false = false) (dA dB : Int) (m : IM) (x y : Int) :
    k.defValue dA dB { m with ei := x, eb := y } = k.defValue dA dB m := by
  cases k <;> simp_all [Kind.requireExteriorCheck, Kind.defValue, valueIM, IM.isIntersects, IM.isDisjoint, IM.isWithin, IM.isCoveredBy,
    IM.hasPointInCommon]

/-! ### non-vacuity -/

example : ((PState.new .contains).initDim 2 1 |>.run [⟨.I, .I, 1⟩, ⟨.E, .I, 1⟩, ⟨.I, .E, 2⟩] |>.finish).value = some false := by
  decide

example : isDetermined .contains 2 1 (foldIM (IM.allF.set .E .E 2) [⟨.I, .I, 1⟩, ⟨.E, .I, 1⟩]) = true := by decide

-- envelope exit: A = [0,2]², B = [1,3]² — env(A) does not cover env(B), `contains` exits with false; a matrix of such a pair
-- (two overlapping squares, 212101212) has EI = 2 and indeed is not `contains`
example : hasRequiredEnvelopeInteraction .contains ⟨true, false, false, false, false⟩ = false := by decide
example : Kind.defValue .contains 2 2 ⟨2, 1, 2, 1, 0, 1, 2, 1, 2⟩ = false := by decide
example : (Kind.requireExteriorCheck .contains true = false) ∧ (Kind.requireExteriorCheck .contains false = true) := by decide

end GeosModel.Relate
