import GeosModel.Model.Relate.Pred
import GeosModel.Model.Relate.EnvExit
import GeosModel.Base.Env
import GeosModel.Generated.RelatePred
import GeosModel.Props.C01Gen
/-!
# C01 — the regenerated predicate layer of RelateNG is the state machine the theorems are about

`Generated/RelatePred.lean` is rewritten from `BasicPredicate.cpp`, `IMPredicate.cpp`, `RelatePredicate.h` (all ten
predicate classes), `RelateMatrixPredicate.h`, `TopologyPredicate.h` (inherited defaults), `IMPatternMatcher.cpp` and
`RelateNG.cpp::hasRequiredEnvelopeInteraction` by `translate/cxx2lean.py` (spec `relate_pred`) on every run.  The
theorems below prove every regenerated function equal to the hand-written model of `Model/Relate/Pred.lean` /
`Model/Relate/EnvExit.lean` — the object of `determined_stable`, `early_exit_eq_final`, `basic_*_final`,
`envelope_exit_sound`, `exterior_check_irrelevant_*` in `Props/C01.lean` — for **all** arguments.

Conventions.  `m_value` (the `int` member of `BasicPredicate`: UNKNOWN = −1, FALSE = 0, TRUE = 1, read from the header by
the translator) is related to the model's `Option Bool` by `encV`.  A member function that assigns members is
regenerated as a function from the old members to the new ones.  Virtual calls (`isDetermined()`, `valueIM()`) are
abstract parameters of the regenerated code; the theorems instantiate them with the regenerated function of the class in
question (which function a virtual call reaches is fixed by the class structure, which the translator checks against the
headers).  `geom::Envelope` is abstract: the theorems about `init(envA, envB)` hold for every interpretation of its
methods that agrees with the `EnvFacts` the model reads; `gen_*_Env` instantiate them with the envelope model of `Base/Env`
the driver uses.  The named predicates of `geom::IntersectionMatrix` called by `valueIM()` are the regenerated ones of
`Generated/IMPreds` (`Props/C01Gen`).
-/
namespace GeosModel.C01GenPred
open GeosModel GeosModel.Relate GeosModel.Generated

/-- `BasicPredicate::m_value` -/
def encV : Option Bool → Int
  | none => -1
  | some false => 0
  | some true => 1

theorem encV_injective (v w : Option Bool) (h : encV v = encV w) : v = w := by
  rcases v with _ | _ | _ <;> rcases w with _ | _ | _ <;> simp_all [encV]

/-- unfolds the regenerated and the modelled `BasicPredicate` helpers down to case distinctions -/
local macro "basic_simp" "[" ts:Lean.Parser.Tactic.simpLemma,* "]" : tactic =>
  `(tactic| simp [RelatePred.setValue, RelatePred.setValueIf, RelatePred.require, RelatePred.requireCoversEnv, RelatePred.isKnown,
      RelatePred.isKnownVal, RelatePred.toValue, RelatePred.IMPredicate_init, PState.setValue, PState.require, PState.initDim, PState.initEnv,
      encV, $ts,*])

/-! ### BasicPredicate.cpp -/

theorem gen_isKnownVal_eq (v : Option Bool) : RelatePred.isKnownVal (encV v) = v.isSome := by
  rcases v with _ | _ | _ <;> simp [RelatePred.isKnownVal, encV]

theorem gen_isKnown_eq (s : PState) : RelatePred.isKnown (encV s.value) = s.value.isSome := by
  simp [RelatePred.isKnown, gen_isKnownVal_eq]

theorem gen_toBoolean_eq (v : Option Bool) : RelatePred.toBoolean (encV v) = (v == some true) := by
  rcases v with _ | _ | _ <;> simp [RelatePred.toBoolean, encV]

theorem gen_value_eq (s : PState) : RelatePred.value (encV s.value) = (s.value == some true) := by
  simp [RelatePred.value, gen_toBoolean_eq]

theorem gen_toValue_eq (b : Bool) : RelatePred.toValue b = encV (some b) := by
  cases b <;> simp [RelatePred.toValue, encV]

theorem gen_isIntersection_eq (a b : Loc3) : RelatePred.isIntersection a b = isIntersection a b := by
  cases a <;> cases b <;> simp [RelatePred.isIntersection, isIntersection]

/-- `setValue(bool)` is sticky -/
theorem gen_setValue_eq (s : PState) (b : Bool) : RelatePred.setValue (encV s.value) b = encV (s.setValue b).value := by
  obtain ⟨k, dA, dB, m, v⟩ := s
  rcases v with _ | _ | _ <;> cases b <;> basic_simp []

theorem gen_setValueIf_eq (s : PState) (b c : Bool) :
    RelatePred.setValueIf (encV s.value) b c = encV (if c then s.setValue b else s).value := by
  obtain ⟨k, dA, dB, m, v⟩ := s
  rcases v with _ | _ | _ <;> cases b <;> cases c <;> basic_simp []

theorem gen_require_eq (s : PState) (c : Bool) : RelatePred.require (encV s.value) c = encV (s.require c).value := by
  obtain ⟨k, dA, dB, m, v⟩ := s
  rcases v with _ | _ | _ <;> cases c <;> basic_simp []

theorem gen_requireCoversEnv_eq {E : Type} (covers : E → E → Bool) (s : PState) (a b : E) :
    RelatePred.requireCoversEnv covers (encV s.value) a b = encV (s.require (covers a b)).value := by
  obtain ⟨k, dA, dB, m, v⟩ := s
  rcases v with _ | _ | _ <;> cases h : covers a b <;> basic_simp [h]

/-! ### IMPredicate.cpp -/

theorem gen_isDimsCompatibleWithCovers_eq (d0 d1 : Int) :
    RelatePred.isDimsCompatibleWithCovers d0 d1 = dimsCompatibleWithCovers d0 d1 := by
  unfold RelatePred.isDimsCompatibleWithCovers dimsCompatibleWithCovers
  simp <;> grind

theorem gen_IMPredicate_init_eq (a0 b0 dA dB : Int) : RelatePred.IMPredicate_init a0 b0 dA dB = (dA, dB) := by
  simp [RelatePred.IMPredicate_init]

theorem gen_isDimChanged_eq (m : IM) (a b : Loc3) (d : Int) : RelatePred.isDimChanged m a b d = decide (d > m.get a b) := by
  simp [RelatePred.isDimChanged]

theorem gen_isIntersects_eq (m : IM) (a b : Loc3) : RelatePred.isIntersects m a b = isIntersectsE m a b := by
  simp [RelatePred.isIntersects, isIntersectsE]

theorem gen_intersectsExteriorOf_eq (m : IM) (isA : Bool) : RelatePred.intersectsExteriorOf m isA = intersectsExteriorOf m isA := by
  cases isA <;> simp [RelatePred.intersectsExteriorOf, intersectsExteriorOf, gen_isIntersects_eq] <;> grind

theorem gen_getDimension_eq (m : IM) (a b : Loc3) : RelatePred.getDimension m a b = m.get a b := by
  simp [RelatePred.getDimension]

theorem gen_isDimension_eq (m : IM) (a b : Loc3) (d : Int) : RelatePred.isDimension m a b d = (m.get a b == d) := by
  simp [RelatePred.isDimension]

/-- `isKnown(locA, locB)`: the entry is not `Dimension::DONTCARE` (−3) -/
theorem gen_isKnownEntry_eq (m : IM) (a b : Loc3) : RelatePred.isKnownEntry m a b = (m.get a b != -3) := by
  simp [RelatePred.isKnownEntry]

/-- `IMPredicate::updateDimension` with the virtual calls resolved to `isDetermined` / `valueIM` of the predicate's kind
is `PState.updateIM` -/
theorem gen_IMPredicate_updateDimension_eq (s : PState) (a b : Loc3) (d : Int) :
    RelatePred.IMPredicate_updateDimension (isDetermined s.kind) (valueIM s.kind) s.dimA s.dimB s.im (encV s.value) a b d
      = ((s.updateIM a b d).im, encV (s.updateIM a b d).value) := by
  obtain ⟨k, dA, dB, m, v⟩ := s
  by_cases h1 : d > m.get a b <;> by_cases h2 : isDetermined k dA dB (m.set a b d) = true <;>
    rcases v with _ | _ | _ <;> cases h3 : valueIM k dA dB (m.set a b d) <;>
    simp [RelatePred.IMPredicate_updateDimension, PState.updateIM, RelatePred.isDimChanged, RelatePred.setValue, RelatePred.isKnown,
      RelatePred.isKnownVal, RelatePred.toValue, PState.setValue, encV, h1, h2, h3]

/-- `IMPredicate::finish` -/
theorem gen_IMPredicate_finish_eq (s : PState) :
    RelatePred.IMPredicate_finish (valueIM s.kind) s.dimA s.dimB s.im (encV s.value)
      = encV (s.setValue (valueIM s.kind s.dimA s.dimB s.im)).value := by
  simp [RelatePred.IMPredicate_finish, gen_setValue_eq]

/-! ### RelatePredicate.h — `isDetermined()` / `valueIM()` of the eight IM predicate classes, RelateMatrixPredicate.h -/

theorem gen_Contains_isDetermined_eq (dA dB : Int) (m : IM) : RelatePred.Contains_isDetermined dA dB m = isDetermined .contains dA dB m := by
  simp [RelatePred.Contains_isDetermined, isDetermined, gen_intersectsExteriorOf_eq]

theorem gen_Within_isDetermined_eq (dA dB : Int) (m : IM) : RelatePred.Within_isDetermined dA dB m = isDetermined .within dA dB m := by
  simp [RelatePred.Within_isDetermined, isDetermined, gen_intersectsExteriorOf_eq]

theorem gen_Covers_isDetermined_eq (dA dB : Int) (m : IM) : RelatePred.Covers_isDetermined dA dB m = isDetermined .covers dA dB m := by
  simp [RelatePred.Covers_isDetermined, isDetermined, gen_intersectsExteriorOf_eq]

theorem gen_CoveredBy_isDetermined_eq (dA dB : Int) (m : IM) : RelatePred.CoveredBy_isDetermined dA dB m = isDetermined .coveredBy dA dB m := by
  simp [RelatePred.CoveredBy_isDetermined, isDetermined, gen_intersectsExteriorOf_eq]

theorem gen_Crosses_isDetermined_eq (dA dB : Int) (m : IM) : RelatePred.Crosses_isDetermined dA dB m = isDetermined .crosses dA dB m := by
  simp [RelatePred.Crosses_isDetermined, isDetermined, gen_isIntersects_eq, gen_getDimension_eq, isIntersectsE, IM.get] <;> grind

theorem gen_EqualsTopo_isDetermined_eq (dA dB : Int) (m : IM) : RelatePred.EqualsTopo_isDetermined dA dB m = isDetermined .equalsTopo dA dB m := by
  simp [RelatePred.EqualsTopo_isDetermined, isDetermined, gen_isIntersects_eq]

theorem gen_Overlaps_isDetermined_eq (dA dB : Int) (m : IM) : RelatePred.Overlaps_isDetermined dA dB m = isDetermined .overlaps dA dB m := by
  simp [RelatePred.Overlaps_isDetermined, isDetermined, gen_isIntersects_eq, gen_isDimension_eq, isIntersectsE, IM.get] <;> grind

theorem gen_Touches_isDetermined_eq (dA dB : Int) (m : IM) : RelatePred.Touches_isDetermined dA dB m = isDetermined .touches dA dB m := by
  simp [RelatePred.Touches_isDetermined, isDetermined, gen_isIntersects_eq]

theorem gen_Matrix_isDetermined_eq (dA dB : Int) (m : IM) : RelatePred.Matrix_isDetermined dA dB m = isDetermined .matrix dA dB m := by
  simp [RelatePred.Matrix_isDetermined, isDetermined]

theorem gen_Contains_valueIM_eq (dA dB : Int) (m : IM) : RelatePred.Contains_valueIM dA dB m = valueIM .contains dA dB m := by
  simp [RelatePred.Contains_valueIM, valueIM, C01Gen.gen_isContains_eq]

theorem gen_Within_valueIM_eq (dA dB : Int) (m : IM) : RelatePred.Within_valueIM dA dB m = valueIM .within dA dB m := by
  simp [RelatePred.Within_valueIM, valueIM, C01Gen.gen_isWithin_eq]

theorem gen_Covers_valueIM_eq (dA dB : Int) (m : IM) : RelatePred.Covers_valueIM dA dB m = valueIM .covers dA dB m := by
  simp [RelatePred.Covers_valueIM, valueIM, C01Gen.gen_isCovers_eq]

theorem gen_CoveredBy_valueIM_eq (dA dB : Int) (m : IM) : RelatePred.CoveredBy_valueIM dA dB m = valueIM .coveredBy dA dB m := by
  simp [RelatePred.CoveredBy_valueIM, valueIM, C01Gen.gen_isCoveredBy_eq]

theorem gen_Crosses_valueIM_eq (dA dB : Int) (m : IM) : RelatePred.Crosses_valueIM dA dB m = valueIM .crosses dA dB m := by
  simp [RelatePred.Crosses_valueIM, valueIM, C01Gen.gen_isCrosses_eq]

theorem gen_EqualsTopo_valueIM_eq (dA dB : Int) (m : IM) : RelatePred.EqualsTopo_valueIM dA dB m = valueIM .equalsTopo dA dB m := by
  simp [RelatePred.EqualsTopo_valueIM, valueIM, C01Gen.gen_isEquals_eq]

theorem gen_Overlaps_valueIM_eq (dA dB : Int) (m : IM) : RelatePred.Overlaps_valueIM dA dB m = valueIM .overlaps dA dB m := by
  simp [RelatePred.Overlaps_valueIM, valueIM, C01Gen.gen_isOverlaps_eq]

theorem gen_Touches_valueIM_eq (dA dB : Int) (m : IM) : RelatePred.Touches_valueIM dA dB m = valueIM .touches dA dB m := by
  simp [RelatePred.Touches_valueIM, valueIM, C01Gen.gen_isTouches_eq]

theorem gen_Matrix_valueIM_eq (dA dB : Int) (m : IM) : RelatePred.Matrix_valueIM dA dB m = valueIM .matrix dA dB m := by
  simp [RelatePred.Matrix_valueIM, valueIM]

/-! ### `init(dimA, dimB)` -/

theorem gen_Contains_initDim_eq (s : PState) (hk : s.kind = .contains) (dA dB : Int) :
    RelatePred.Contains_initDim s.dimA s.dimB (encV s.value) dA dB
      = ((s.initDim dA dB).dimA, (s.initDim dA dB).dimB, encV (s.initDim dA dB).value) := by
  obtain ⟨k, a, b, m, v⟩ := s
  simp only at hk; subst hk
  rcases v with _ | _ | _ <;> basic_simp [RelatePred.Contains_initDim, gen_isDimsCompatibleWithCovers_eq] <;> grind

theorem gen_Within_initDim_eq (s : PState) (hk : s.kind = .within) (dA dB : Int) :
    RelatePred.Within_initDim s.dimA s.dimB (encV s.value) dA dB
      = ((s.initDim dA dB).dimA, (s.initDim dA dB).dimB, encV (s.initDim dA dB).value) := by
  obtain ⟨k, a, b, m, v⟩ := s
  simp only at hk; subst hk
  rcases v with _ | _ | _ <;> basic_simp [RelatePred.Within_initDim, gen_isDimsCompatibleWithCovers_eq] <;> grind

theorem gen_Covers_initDim_eq (s : PState) (hk : s.kind = .covers) (dA dB : Int) :
    RelatePred.Covers_initDim s.dimA s.dimB (encV s.value) dA dB
      = ((s.initDim dA dB).dimA, (s.initDim dA dB).dimB, encV (s.initDim dA dB).value) := by
  obtain ⟨k, a, b, m, v⟩ := s
  simp only at hk; subst hk
  rcases v with _ | _ | _ <;> basic_simp [RelatePred.Covers_initDim, gen_isDimsCompatibleWithCovers_eq] <;> grind

theorem gen_CoveredBy_initDim_eq (s : PState) (hk : s.kind = .coveredBy) (dA dB : Int) :
    RelatePred.CoveredBy_initDim s.dimA s.dimB (encV s.value) dA dB
      = ((s.initDim dA dB).dimA, (s.initDim dA dB).dimB, encV (s.initDim dA dB).value) := by
  obtain ⟨k, a, b, m, v⟩ := s
  simp only at hk; subst hk
  rcases v with _ | _ | _ <;> basic_simp [RelatePred.CoveredBy_initDim, gen_isDimsCompatibleWithCovers_eq] <;> grind

theorem gen_Crosses_initDim_eq (s : PState) (hk : s.kind = .crosses) (dA dB : Int) :
    RelatePred.Crosses_initDim s.dimA s.dimB (encV s.value) dA dB
      = ((s.initDim dA dB).dimA, (s.initDim dA dB).dimB, encV (s.initDim dA dB).value) := by
  obtain ⟨k, a, b, m, v⟩ := s
  simp only at hk; subst hk
  rcases v with _ | _ | _ <;> basic_simp [RelatePred.Crosses_initDim, gen_isDimsCompatibleWithCovers_eq] <;> grind

theorem gen_EqualsTopo_initDim_eq (s : PState) (hk : s.kind = .equalsTopo) (dA dB : Int) :
    RelatePred.EqualsTopo_initDim s.dimA s.dimB (encV s.value) dA dB
      = ((s.initDim dA dB).dimA, (s.initDim dA dB).dimB, encV (s.initDim dA dB).value) := by
  obtain ⟨k, a, b, m, v⟩ := s
  simp only at hk; subst hk
  rcases v with _ | _ | _ <;> basic_simp [RelatePred.EqualsTopo_initDim, gen_isDimsCompatibleWithCovers_eq] <;> grind

theorem gen_Overlaps_initDim_eq (s : PState) (hk : s.kind = .overlaps) (dA dB : Int) :
    RelatePred.Overlaps_initDim s.dimA s.dimB (encV s.value) dA dB
      = ((s.initDim dA dB).dimA, (s.initDim dA dB).dimB, encV (s.initDim dA dB).value) := by
  obtain ⟨k, a, b, m, v⟩ := s
  simp only at hk; subst hk
  rcases v with _ | _ | _ <;> basic_simp [RelatePred.Overlaps_initDim, gen_isDimsCompatibleWithCovers_eq] <;> grind

theorem gen_Touches_initDim_eq (s : PState) (hk : s.kind = .touches) (dA dB : Int) :
    RelatePred.Touches_initDim s.dimA s.dimB (encV s.value) dA dB
      = ((s.initDim dA dB).dimA, (s.initDim dA dB).dimB, encV (s.initDim dA dB).value) := by
  obtain ⟨k, a, b, m, v⟩ := s
  simp only at hk; subst hk
  rcases v with _ | _ | _ <;> basic_simp [RelatePred.Touches_initDim, gen_isDimsCompatibleWithCovers_eq] <;> grind

/-! ### `init(envA, envB)` — for every interpretation of the `geom::Envelope` methods that agrees with the facts the model reads -/

theorem gen_Intersects_initEnv_eq {E : Type} (envIntersects : E → E → Bool) (s : PState) (hk : s.kind = .intersects) (e : EnvFacts) (a b : E)
    (h1 : envIntersects a b = e.intersects) :
    RelatePred.Intersects_initEnv envIntersects (encV s.value) a b = encV (s.initEnv e).value := by
  obtain ⟨k, dA, dB, m, v⟩ := s
  simp only at hk; subst hk
  rcases v with _ | _ | _ <;> basic_simp [RelatePred.Intersects_initEnv, h1] <;> grind

theorem gen_Disjoint_initEnv_eq {E : Type} (envDisjoint : E → E → Bool) (s : PState) (hk : s.kind = .disjoint) (e : EnvFacts) (a b : E)
    (h1 : envDisjoint a b = !e.intersects) :
    RelatePred.Disjoint_initEnv envDisjoint (encV s.value) a b = encV (s.initEnv e).value := by
  obtain ⟨k, dA, dB, m, v⟩ := s
  simp only at hk; subst hk
  rcases v with _ | _ | _ <;> basic_simp [RelatePred.Disjoint_initEnv, h1] <;> grind

theorem gen_Contains_initEnv_eq {E : Type} (envCovers : E → E → Bool) (s : PState) (hk : s.kind = .contains) (e : EnvFacts) (a b : E)
    (h1 : envCovers a b = e.aCoversB) :
    RelatePred.Contains_initEnv envCovers (encV s.value) a b = encV (s.initEnv e).value := by
  obtain ⟨k, dA, dB, m, v⟩ := s
  simp only at hk; subst hk
  rcases v with _ | _ | _ <;> basic_simp [RelatePred.Contains_initEnv, h1] <;> grind

theorem gen_Covers_initEnv_eq {E : Type} (envCovers : E → E → Bool) (s : PState) (hk : s.kind = .covers) (e : EnvFacts) (a b : E)
    (h1 : envCovers a b = e.aCoversB) :
    RelatePred.Covers_initEnv envCovers (encV s.value) a b = encV (s.initEnv e).value := by
  obtain ⟨k, dA, dB, m, v⟩ := s
  simp only at hk; subst hk
  rcases v with _ | _ | _ <;> basic_simp [RelatePred.Covers_initEnv, h1] <;> grind

theorem gen_Within_initEnv_eq {E : Type} (envCovers : E → E → Bool) (s : PState) (hk : s.kind = .within) (e : EnvFacts) (a b : E)
    (h1 : envCovers b a = e.bCoversA) :
    RelatePred.Within_initEnv envCovers (encV s.value) a b = encV (s.initEnv e).value := by
  obtain ⟨k, dA, dB, m, v⟩ := s
  simp only at hk; subst hk
  rcases v with _ | _ | _ <;> basic_simp [RelatePred.Within_initEnv, h1] <;> grind

theorem gen_CoveredBy_initEnv_eq {E : Type} (envCovers : E → E → Bool) (s : PState) (hk : s.kind = .coveredBy) (e : EnvFacts) (a b : E)
    (h1 : envCovers b a = e.bCoversA) :
    RelatePred.CoveredBy_initEnv envCovers (encV s.value) a b = encV (s.initEnv e).value := by
  obtain ⟨k, dA, dB, m, v⟩ := s
  simp only at hk; subst hk
  rcases v with _ | _ | _ <;> basic_simp [RelatePred.CoveredBy_initEnv, h1] <;> grind

theorem gen_EqualsTopo_initEnv_eq {E : Type} (envEquals : E → E → Bool) (envIsNull : E → Bool) (s : PState) (hk : s.kind = .equalsTopo)
    (e : EnvFacts) (a b : E) (h1 : envEquals a b = e.equal) (h2 : (envIsNull a && envIsNull b) = e.bothNull) :
    RelatePred.EqualsTopo_initEnv envEquals envIsNull (encV s.value) a b = encV (s.initEnv e).value := by
  obtain ⟨k, dA, dB, m, v⟩ := s
  simp only at hk; subst hk
  rcases v with _ | _ | _ <;> basic_simp [RelatePred.EqualsTopo_initEnv, h1, ← h2] <;> grind

/-! ### the two matrix-free predicates: `updateDimension`, `finish` -/

theorem gen_Intersects_updateDimension_eq (s : PState) (hk : s.kind = .intersects) (a b : Loc3) (d : Int) :
    RelatePred.Intersects_updateDimension (encV s.value) a b d = encV (s.update a b d).value := by
  obtain ⟨k, dA, dB, m, v⟩ := s
  simp only at hk; subst hk
  rcases v with _ | _ | _ <;> basic_simp [RelatePred.Intersects_updateDimension, PState.update, gen_isIntersection_eq] <;> grind

theorem gen_Disjoint_updateDimension_eq (s : PState) (hk : s.kind = .disjoint) (a b : Loc3) (d : Int) :
    RelatePred.Disjoint_updateDimension (encV s.value) a b d = encV (s.update a b d).value := by
  obtain ⟨k, dA, dB, m, v⟩ := s
  simp only at hk; subst hk
  rcases v with _ | _ | _ <;> basic_simp [RelatePred.Disjoint_updateDimension, PState.update, gen_isIntersection_eq] <;> grind

theorem gen_Intersects_finish_eq (s : PState) (hk : s.kind = .intersects) :
    RelatePred.Intersects_finish (encV s.value) = encV s.finish.value := by
  obtain ⟨k, dA, dB, m, v⟩ := s
  simp only at hk; subst hk
  rcases v with _ | _ | _ <;> basic_simp [RelatePred.Intersects_finish, PState.finish]

theorem gen_Disjoint_finish_eq (s : PState) (hk : s.kind = .disjoint) :
    RelatePred.Disjoint_finish (encV s.value) = encV s.finish.value := by
  obtain ⟨k, dA, dB, m, v⟩ := s
  simp only at hk; subst hk
  rcases v with _ | _ | _ <;> basic_simp [RelatePred.Disjoint_finish, PState.finish]

/-! ### the virtual table of the IM predicates: one step / the end of the regenerated state machine is `PState.update` / `PState.finish` -/

/-- which regenerated `isDetermined()` / `valueIM()` an `IMPredicate` of kind `k` has (class structure checked by the translator's
`prepare`); `IMPatternMatcher::isDetermined` / `valueIM` are not regenerated (see the report in manifest/C01.json) -/
def vtable : Kind → Option ((Int → Int → IM → Bool) × (Int → Int → IM → Bool))
  | .contains => some (RelatePred.Contains_isDetermined, RelatePred.Contains_valueIM)
  | .within => some (RelatePred.Within_isDetermined, RelatePred.Within_valueIM)
  | .covers => some (RelatePred.Covers_isDetermined, RelatePred.Covers_valueIM)
  | .coveredBy => some (RelatePred.CoveredBy_isDetermined, RelatePred.CoveredBy_valueIM)
  | .crosses => some (RelatePred.Crosses_isDetermined, RelatePred.Crosses_valueIM)
  | .equalsTopo => some (RelatePred.EqualsTopo_isDetermined, RelatePred.EqualsTopo_valueIM)
  | .overlaps => some (RelatePred.Overlaps_isDetermined, RelatePred.Overlaps_valueIM)
  | .touches => some (RelatePred.Touches_isDetermined, RelatePred.Touches_valueIM)
  | .matrix => some (RelatePred.Matrix_isDetermined, RelatePred.Matrix_valueIM)
  | _ => none

theorem gen_vtable_eq (k : Kind) (det val : Int → Int → IM → Bool) (h : vtable k = some (det, val)) :
    det = isDetermined k ∧ val = valueIM k := by
  cases k <;> simp [vtable] at h <;> obtain ⟨rfl, rfl⟩ := h <;> constructor <;> funext dA dB m
  all_goals first
    | exact gen_Contains_isDetermined_eq dA dB m | exact gen_Contains_valueIM_eq dA dB m
    | exact gen_Within_isDetermined_eq dA dB m | exact gen_Within_valueIM_eq dA dB m
    | exact gen_Covers_isDetermined_eq dA dB m | exact gen_Covers_valueIM_eq dA dB m
    | exact gen_CoveredBy_isDetermined_eq dA dB m | exact gen_CoveredBy_valueIM_eq dA dB m
    | exact gen_Crosses_isDetermined_eq dA dB m | exact gen_Crosses_valueIM_eq dA dB m
    | exact gen_EqualsTopo_isDetermined_eq dA dB m | exact gen_EqualsTopo_valueIM_eq dA dB m
    | exact gen_Overlaps_isDetermined_eq dA dB m | exact gen_Overlaps_valueIM_eq dA dB m
    | exact gen_Touches_isDetermined_eq dA dB m | exact gen_Touches_valueIM_eq dA dB m
    | exact gen_Matrix_isDetermined_eq dA dB m | exact gen_Matrix_valueIM_eq dA dB m

/-- `updateDimension` of every regenerated IM predicate class (inherited `IMPredicate::updateDimension` + its own
`isDetermined` / `valueIM`) is the step `PState.update` of the model `early_exit_eq_final` is about -/
theorem gen_update_eq (s : PState) (det val : Int → Int → IM → Bool) (h : vtable s.kind = some (det, val)) (a b : Loc3) (d : Int) :
    RelatePred.IMPredicate_updateDimension det val s.dimA s.dimB s.im (encV s.value) a b d
      = ((s.update a b d).im, encV (s.update a b d).value) := by
  obtain ⟨rfl, rfl⟩ := gen_vtable_eq _ _ _ h
  have hu : s.update a b d = s.updateIM a b d := by
    unfold PState.update
    cases hk : s.kind <;> simp [hk, vtable] at h ⊢
  rw [hu]
  exact gen_IMPredicate_updateDimension_eq s a b d

/-- `finish()` of every regenerated IM predicate class is `PState.finish` -/
theorem gen_finish_eq (s : PState) (det val : Int → Int → IM → Bool) (h : vtable s.kind = some (det, val)) :
    RelatePred.IMPredicate_finish val s.dimA s.dimB s.im (encV s.value) = encV s.finish.value := by
  obtain ⟨rfl, rfl⟩ := gen_vtable_eq _ _ _ h
  have hf : s.finish = s.setValue (valueIM s.kind s.dimA s.dimB s.im) := by
    unfold PState.finish
    cases hk : s.kind <;> simp [hk, vtable] at h ⊢
  rw [hf]
  exact gen_IMPredicate_finish_eq s

example : vtable .crosses = some (RelatePred.Crosses_isDetermined, RelatePred.Crosses_valueIM) := rfl

/-! ### requirement flags (RelatePredicate.h, RelateMatrixPredicate.h, IMPatternMatcher.cpp; inherited defaults of TopologyPredicate.h) -/

theorem gen_Contains_requireCovers_eq (isA : Bool) : RelatePred.Contains_requireCovers isA = Kind.requireCovers .contains isA := by
  cases isA <;> simp [RelatePred.Contains_requireCovers, Kind.requireCovers]
theorem gen_Covers_requireCovers_eq (isA : Bool) : RelatePred.Covers_requireCovers isA = Kind.requireCovers .covers isA := by
  cases isA <;> simp [RelatePred.Covers_requireCovers, Kind.requireCovers]
theorem gen_Within_requireCovers_eq (isA : Bool) : RelatePred.Within_requireCovers isA = Kind.requireCovers .within isA := by
  cases isA <;> simp [RelatePred.Within_requireCovers, Kind.requireCovers]
theorem gen_CoveredBy_requireCovers_eq (isA : Bool) : RelatePred.CoveredBy_requireCovers isA = Kind.requireCovers .coveredBy isA := by
  cases isA <;> simp [RelatePred.CoveredBy_requireCovers, Kind.requireCovers]
/-- the classes that inherit `TopologyPredicate::requireCovers` -/
theorem gen_Default_requireCovers_eq (k : Kind) (hk : k ≠ .contains ∧ k ≠ .covers ∧ k ≠ .within ∧ k ≠ .coveredBy) (isA : Bool) :
    RelatePred.Default_requireCovers isA = k.requireCovers isA := by
  cases k <;> simp_all [RelatePred.Default_requireCovers, Kind.requireCovers]

theorem gen_Intersects_requireExteriorCheck_eq (isA : Bool) : RelatePred.Intersects_requireExteriorCheck isA = Kind.requireExteriorCheck .intersects isA := by
  simp [RelatePred.Intersects_requireExteriorCheck, Kind.requireExteriorCheck]
theorem gen_Disjoint_requireExteriorCheck_eq (isA : Bool) : RelatePred.Disjoint_requireExteriorCheck isA = Kind.requireExteriorCheck .disjoint isA := by
  simp [RelatePred.Disjoint_requireExteriorCheck, Kind.requireExteriorCheck]
theorem gen_Contains_requireExteriorCheck_eq (isA : Bool) : RelatePred.Contains_requireExteriorCheck isA = Kind.requireExteriorCheck .contains isA := by
  cases isA <;> simp [RelatePred.Contains_requireExteriorCheck, Kind.requireExteriorCheck]
theorem gen_Covers_requireExteriorCheck_eq (isA : Bool) : RelatePred.Covers_requireExteriorCheck isA = Kind.requireExteriorCheck .covers isA := by
  cases isA <;> simp [RelatePred.Covers_requireExteriorCheck, Kind.requireExteriorCheck]
theorem gen_Within_requireExteriorCheck_eq (isA : Bool) : RelatePred.Within_requireExteriorCheck isA = Kind.requireExteriorCheck .within isA := by
  cases isA <;> simp [RelatePred.Within_requireExteriorCheck, Kind.requireExteriorCheck]
theorem gen_CoveredBy_requireExteriorCheck_eq (isA : Bool) : RelatePred.CoveredBy_requireExteriorCheck isA = Kind.requireExteriorCheck .coveredBy isA := by
  cases isA <;> simp [RelatePred.CoveredBy_requireExteriorCheck, Kind.requireExteriorCheck]
/-- the classes that inherit `TopologyPredicate::requireExteriorCheck` -/
theorem gen_Default_requireExteriorCheck_eq (k : Kind)
    (hk : k ≠ .intersects ∧ k ≠ .disjoint ∧ k ≠ .contains ∧ k ≠ .covers ∧ k ≠ .within ∧ k ≠ .coveredBy) (isA : Bool) :
    RelatePred.Default_requireExteriorCheck isA = k.requireExteriorCheck isA := by
  cases k <;> simp_all [RelatePred.Default_requireExteriorCheck, Kind.requireExteriorCheck]

theorem gen_Disjoint_requireInteraction_eq : RelatePred.Disjoint_requireInteraction = Kind.requireInteraction .disjoint := by
  simp [RelatePred.Disjoint_requireInteraction, Kind.requireInteraction]
theorem gen_EqualsTopo_requireInteraction_eq : RelatePred.EqualsTopo_requireInteraction = Kind.requireInteraction .equalsTopo := by
  simp [RelatePred.EqualsTopo_requireInteraction, Kind.requireInteraction]
theorem gen_Matrix_requireInteraction_eq : RelatePred.Matrix_requireInteraction = Kind.requireInteraction .matrix := by
  simp [RelatePred.Matrix_requireInteraction, Kind.requireInteraction]

theorem gen_Pattern_isInteraction_eq (v : Int) : RelatePred.Pattern_isInteraction v = (v == -2 || decide (v ≥ 0)) := by
  simp [RelatePred.Pattern_isInteraction] <;> grind

/-- `IMPatternMatcher::requireInteraction(patternMatrix)`; the pattern of the model is the list of entries of `patternMatrix` -/
theorem gen_Pattern_requireInteractionIM_eq (pm : IM) : RelatePred.Pattern_requireInteractionIM pm = patRequiresInteraction pm.entries := by
  cases pm; simp [RelatePred.Pattern_requireInteractionIM, gen_Pattern_isInteraction_eq, patRequiresInteraction, IM.entries, IM.get]

theorem gen_Pattern_requireInteraction_eq (pm : IM) : RelatePred.Pattern_requireInteraction pm = Kind.requireInteraction (.pattern pm.entries) := by
  simp [RelatePred.Pattern_requireInteraction, gen_Pattern_requireInteractionIM_eq, Kind.requireInteraction]

/-- the classes that inherit `TopologyPredicate::requireInteraction` -/
theorem gen_Default_requireInteraction_eq (k : Kind) (hk : k ≠ .disjoint ∧ k ≠ .equalsTopo ∧ k ≠ .matrix ∧ ∀ p, k ≠ .pattern p) :
    RelatePred.Default_requireInteraction = k.requireInteraction := by
  cases k <;> simp_all [RelatePred.Default_requireInteraction, Kind.requireInteraction]

/-- `IMPatternMatcher::init(envA, envB)` (dimensions unchanged) -/
theorem gen_Pattern_initEnv_eq {E : Type} (envDisjoint : E → E → Bool) (s : PState) (pm : IM) (hk : s.kind = .pattern pm.entries)
    (e : EnvFacts) (a b : E) (h1 : envDisjoint a b = !e.intersects) :
    RelatePred.Pattern_initEnv envDisjoint pm s.dimA s.dimB (encV s.value) a b = (s.dimA, s.dimB, encV (s.initEnv e).value) := by
  obtain ⟨k, dA, dB, m, v⟩ := s
  simp only at hk; subst hk
  rcases v with _ | _ | _ <;> basic_simp [RelatePred.Pattern_initEnv, gen_Pattern_requireInteractionIM_eq, h1] <;> grind

/-! ### RelateNG.cpp — the envelope test in front of everything -/

/-- `RelateNG::hasRequiredEnvelopeInteraction(b, predicate)`, for every interpretation of the geometry / envelope / predicate
accessors that agrees with the flags of kind `k` and the three envelope facts: the model `envelope_exit_sound` is about -/
theorem gen_hasRequiredEnvelopeInteraction_eq {E G RG TP : Type} (envCovers envIntersects : E → E → Bool) (getEnvelope : RG → E)
    (getEnvelopeInternal : G → E) (requireCovers : TP → Bool → Bool) (requireInteraction : TP → Bool) (geomA : RG) (b : G) (p : TP)
    (k : Kind) (e : EnvFacts)
    (hc : ∀ x, requireCovers p x = k.requireCovers x) (hi : requireInteraction p = k.requireInteraction)
    (h1 : envCovers (getEnvelope geomA) (getEnvelopeInternal b) = e.aCoversB)
    (h2 : envCovers (getEnvelopeInternal b) (getEnvelope geomA) = e.bCoversA)
    (h3 : envIntersects (getEnvelope geomA) (getEnvelopeInternal b) = e.intersects) :
    RelatePred.hasRequiredEnvelopeInteraction envCovers envIntersects getEnvelope getEnvelopeInternal requireCovers requireInteraction geomA b p
      = hasRequiredEnvelopeInteraction k e := by
  unfold RelatePred.hasRequiredEnvelopeInteraction hasRequiredEnvelopeInteraction
  cases c1 : k.requireCovers true <;> cases c2 : k.requireCovers false <;> cases c3 : k.requireInteraction <;>
    cases c4 : e.aCoversB <;> cases c5 : e.bCoversA <;> cases c6 : e.intersects <;> simp [hc, hi, h1, h2, h3, c1, c2, c3, c4, c5, c6]

/-! ### non-vacuity: the envelope hypotheses are satisfiable — the envelope model of `Base/Env` the driver of stream `pred-sm` uses -/

/-- the facts the driver feeds `PState.initEnv` -/
def factsOf (ea eb : Env) : EnvFacts :=
  { intersects := Env.inter ea eb, aCoversB := Env.covers ea eb, bCoversA := Env.covers eb ea,
    equal := (match ea, eb with | none, o => o.isNone | some a, some o => a == o | some _, none => false),
    bothNull := ea.isNone && eb.isNone }

example (s : PState) (hk : s.kind = .contains) (ea eb : Env) :
    RelatePred.Contains_initEnv Env.covers (encV s.value) ea eb = encV (s.initEnv (factsOf ea eb)).value :=
  gen_Contains_initEnv_eq Env.covers s hk (factsOf ea eb) ea eb rfl

example (s : PState) (hk : s.kind = .disjoint) (ea eb : Env) :
    RelatePred.Disjoint_initEnv (fun a b => !Env.inter a b) (encV s.value) ea eb = encV (s.initEnv (factsOf ea eb)).value :=
  gen_Disjoint_initEnv_eq _ s hk (factsOf ea eb) ea eb rfl

example (k : Kind) (ea eb : Env) :
    RelatePred.hasRequiredEnvelopeInteraction (E := Env) (G := Env) (RG := Env) (TP := Kind) Env.covers Env.inter id id
      Kind.requireCovers Kind.requireInteraction ea eb k = hasRequiredEnvelopeInteraction k (factsOf ea eb) :=
  gen_hasRequiredEnvelopeInteraction_eq _ _ _ _ _ _ ea eb k k (factsOf ea eb) (fun _ => rfl) rfl rfl rfl rfl

example : RelatePred.hasRequiredEnvelopeInteraction (E := Env) (G := Env) (RG := Env) (TP := Kind) Env.covers Env.inter id id
    Kind.requireCovers Kind.requireInteraction (some ⟨0, 2, 0, 2⟩) (some ⟨1, 3, 1, 3⟩) Kind.contains = false := by decide

end GeosModel.C01GenPred
