import GeosModel.Proofs.Buffer.GenLemmas
import GeosModel.Proofs.Buffer.Params
import GeosModel.Generated.BufferParams
import Mathlib.Tactic.Ring
import Mathlib.Tactic.Linarith
import Mathlib.Tactic.FieldSimp
/-!
# C06 — the regenerated buffer-parameter code and fillet quantisation are the models the CORE theorems are about

`Generated/BufferParams.lean` is rewritten on every run by `translate/cxx2lean.py` (spec `buffer_params`) from

* `BufferParameters.{h,cpp}` — the default constructor (as assignments of its member initialisers), the five setters, the getters;
* `OffsetSegmentGenerator.cpp` — the constructor (fillet angle quantum, closing-segment factor, call of `init`), `init`,
  `addDirectedFillet(p, startAngle, endAngle, direction, radius)` (the loop that emits the fillet vertices; the sequence of
  `segList.addPt` calls is the result);
* `OffsetCurve.h` — the constructor `OffsetCurve(geom, dist, bp)` (quadrant segments raised to `MIN_QUADRANT_SEGMENTS`);
* `capi/geos_ts_c.cpp` — the lambdas that `GEOSBufferParams_set*_r`, `GEOSBufferWithStyle_r`, `GEOSOffsetCurve_r`,
  `GEOSSingleSidedBuffer_r` pass to `execute` (a `throw` is the error return), up to the point where the configured
  `BufferParameters` object is handed to `BufferOp` / `OffsetCurve` / `BufferBuilder`.

Enumerator values, `DEFAULT_QUADRANT_SEGMENTS`, `DEFAULT_MITRE_LIMIT`, `MAX_CLOSING_SEG_LEN_FACTOR`,
`MIN_QUADRANT_SEGMENTS`, `Orientation::CLOCKWISE` are read from the headers each time.  C++ `double` is an abstract
carrier; the math library (`(int) x`, `cos`, `Angle::sinCosSnap`, `std::isfinite`) enters as function parameters.

The theorems prove the regenerated definitions equal to `Model/Buffer/Params.lean` (`Config.default`, `setEndCapStyle` …,
`Entry.config`, `Config.closingFactor`, `quantumQ`) and `Model/Buffer/Fillet.lean` (`nSegs`, `filletOffsets`) — the
objects of `params_total`, `reject_iff_*`, `setters_keep_legal`, `fillet_step_bound`, `fillet_vertices`,
`fillet_angle_bound` in `Props/C06.lean` — for **all** arguments.  Parameter objects are compared at the binary64 value
model (`ConfigR F64.Val`, the mitre limit being `F64.decode` of the stored bit pattern); angles at exact rationals.
-/
set_option linter.unusedTactic false
set_option linter.unusedSimpArgs false
set_option linter.unreachableTactic false
set_option linter.unnecessarySeqFocus false
namespace GeosModel.C06Gen
open GeosModel GeosModel.Buffer GeosModel.Generated GeosModel.Precision
open GeosModel.F64 (Val)

/-- closes the leaf goals left after both sides have been split into their branches -/
macro "leaf" : tactic => `(tactic| first
  | done
  | (simp_all; done)
  | omega
  | (exfalso; omega)
  | linarith
  | (exfalso; linarith)
  | (simp_all; first | done | omega | (exfalso; omega) | linarith | (exfalso; linarith) | (ring_nf; done)))

/-- `Id.run` of a value (what is left of a regenerated setter called from `Except` code) -/
theorem idrun {α : Type} (a : α) : Id.run a = a := rfl

/-! ## `BufferParameters`: defaults, setters, getters -/

/-- the default constructor, whatever the members held before: `Config.default` (8 quadrant segments, CAP_ROUND, JOIN_ROUND,
mitre limit 5.0 as the bit pattern `0x4014000000000000`, not single-sided) -/
theorem gen_bpDefault_eq (q0 c0 j0 : Int) (m0 : Val) (s0 : Bool) :
    (ConfigR.ofTuple (BufferParams.bpDefault (R := Val) q0 c0 j0 m0 s0)).toConfig = Config.default := by
  simp [BufferParams.bpDefault, ConfigR.ofTuple, ConfigR.toConfig, Config.default]
  decide +kernel

/-- the default object as regenerated C API code builds it -/
def defaultObj : ConfigR Val := ConfigR.ofTuple (BufferParams.bpDefault (0 : Int) (0 : Int) (0 : Int) (Cxx.Ring.ofInt 0 : Val) false)

theorem defaultObj_eq : defaultObj = ConfigR.ofConfig Config.default := by
  simp [defaultObj, BufferParams.bpDefault, ConfigR.ofTuple, ConfigR.ofConfig, Config.default]
  decide +kernel

/-- the C++ setters store their argument unchanged (no clamping, no validation — that is the C API's business), the getters
return the member -/
theorem gen_setters_store :
    (∀ q0 q : Int, BufferParams.setQuadrantSegments q0 q = q) ∧ (∀ c0 s : Int, BufferParams.setEndCapStyle c0 s = s) ∧
    (∀ j0 s : Int, BufferParams.setJoinStyle j0 s = s) ∧ (∀ m0 m : Val, BufferParams.setMitreLimit m0 m = m) ∧
    (∀ s0 s : Bool, BufferParams.setSingleSided s0 s = s) ∧
    (∀ q : Int, BufferParams.getQuadrantSegments q = q) ∧ (∀ c : Int, BufferParams.getEndCapStyle c = c) ∧
    (∀ j : Int, BufferParams.getJoinStyle j = j) ∧ (∀ m : Val, BufferParams.getMitreLimit m = m) ∧
    (∀ s : Bool, BufferParams.isSingleSided s = s) := by
  simp [BufferParams.setQuadrantSegments, BufferParams.setEndCapStyle, BufferParams.setJoinStyle, BufferParams.setMitreLimit,
    BufferParams.setSingleSided, BufferParams.getQuadrantSegments, BufferParams.getEndCapStyle, BufferParams.getJoinStyle,
    BufferParams.getMitreLimit, BufferParams.isSingleSided]

/-! ## the `GEOSBufferParams_set*_r` functions = the model's setters (`Setter.apply`, the objects of `setters_keep_legal`) -/

/-- result of a regenerated C API lambda: `some` = it returned, `none` = it threw (the function returns its error value) -/
abbrev ran {α : Type} (e : Except String α) : Option α := e.toOption

theorem gen_capiSetQuadrantSegments_eq {H : Type} (h : H) (p0 : ConfigR Val) (c : Config) (q : Int) :
    ran (BufferParams.capiSetQuadrantSegments (R := Val) p0 h (.ofConfig c) q)
      = (Buffer.setQuadrantSegments c q).map fun c' => ((1 : Int), ConfigR.ofConfig c') := by
  simp [BufferParams.capiSetQuadrantSegments, BufferParams.setQuadrantSegments, Buffer.setQuadrantSegments, ConfigR.ofConfig,
    Except.toOption, pure, Except.pure, idrun]

theorem gen_capiSetEndCapStyle_eq {H : Type} (h : H) (p0 : ConfigR Val) (c : Config) (s : Int) :
    ran (BufferParams.capiSetEndCapStyle (R := Val) p0 h (.ofConfig c) s)
      = (Buffer.setEndCapStyle c s).map fun c' => ((1 : Int), ConfigR.ofConfig c') := by
  unfold BufferParams.capiSetEndCapStyle Buffer.setEndCapStyle
  by_cases h1 : s < 1 <;> by_cases h3 : s > 3 <;>
    simp [h1, h3, BufferParams.setEndCapStyle, ConfigR.ofConfig, Except.toOption, pure, Except.pure, throw, throwThe, MonadExceptOf.throw,
      bind, Except.bind, idrun]

theorem gen_capiSetJoinStyle_eq {H : Type} (h : H) (p0 : ConfigR Val) (c : Config) (s : Int) :
    ran (BufferParams.capiSetJoinStyle (R := Val) p0 h (.ofConfig c) s)
      = (Buffer.setJoinStyle c s).map fun c' => ((1 : Int), ConfigR.ofConfig c') := by
  unfold BufferParams.capiSetJoinStyle Buffer.setJoinStyle
  by_cases h1 : s < 1 <;> by_cases h3 : s > 3 <;>
    simp [h1, h3, BufferParams.setJoinStyle, ConfigR.ofConfig, Except.toOption, pure, Except.pure, throw, throwThe, MonadExceptOf.throw,
      bind, Except.bind, idrun]

theorem gen_capiSetMitreLimit_eq {H : Type} (h : H) (p0 : ConfigR Val) (c : Config) (m : UInt64) :
    ran (BufferParams.capiSetMitreLimit (R := Val) p0 h (.ofConfig c) (F64.decode m))
      = (Buffer.setMitreLimit c m).map fun c' => ((1 : Int), ConfigR.ofConfig c') := by
  simp [BufferParams.capiSetMitreLimit, BufferParams.setMitreLimit, Buffer.setMitreLimit, ConfigR.ofConfig,
    Except.toOption, pure, Except.pure, idrun]

theorem gen_capiSetSingleSided_eq {H : Type} (h : H) (p0 : ConfigR Val) (c : Config) (ss : Int) :
    ran (BufferParams.capiSetSingleSided (R := Val) p0 h (.ofConfig c) ss)
      = (Buffer.setSingleSided c ss).map fun c' => ((1 : Int), ConfigR.ofConfig c') := by
  simp [BufferParams.capiSetSingleSided, BufferParams.setSingleSided, Buffer.setSingleSided, ConfigR.ofConfig,
    Except.toOption, pure, Except.pure, idrun]

/-! ## the entry points = `Entry.config` (the object of `params_total`, `reject_iff_*`) -/

/-- `GEOSBufferWithStyle_r`: the `BufferParameters` handed to `BufferOp`, or the rejection, is `Entry.withStyle … |>.config` — for
every `int` and every bit pattern of the mitre limit (geometry, width and handle play no role) -/
theorem gen_capiBufferWithStyle_eq {G H : Type} (h : H) (g : G) (w : Val) (q cap join : Int) (m : UInt64) :
    ran (BufferParams.capiBufferWithStyle (R := Val) h g w q cap join (F64.decode m))
      = (Entry.withStyle q cap join m).config.map ConfigR.ofConfig := by
  unfold BufferParams.capiBufferWithStyle
  rw [show (ConfigR.ofTuple (BufferParams.bpDefault (0 : Int) (0 : Int) (0 : Int) (Cxx.Ring.ofInt 0 : Val) false)) = defaultObj from rfl,
    defaultObj_eq]
  by_cases c1 : cap < 1 <;> by_cases c3 : cap > 3 <;> by_cases j1 : join < 1 <;> by_cases j3 : join > 3 <;>
    simp [c1, c3, j1, j3, Entry.config, BufferParams.setQuadrantSegments, BufferParams.setEndCapStyle, BufferParams.setJoinStyle,
      BufferParams.setMitreLimit, ConfigR.ofConfig, Config.default, Except.toOption, pure, Except.pure, throw, throwThe, MonadExceptOf.throw,
      bind, Except.bind, idrun]

/-- `GEOSOffsetCurve_r` followed by the constructor `OffsetCurve(geom, width, bp)` it calls (member `bufferParams` default
constructed, finite width): the parameters the offset curve is computed with are `Entry.offsetCurve … |>.config` (quadrant
segments raised to 8, cap ROUND) -/
theorem gen_capiOffsetCurve_eq {G H : Type} (h : H) (g : G) (w : Val) (isfin : Val → Bool) (hw : isfin w = true)
    (q join : Int) (m : UInt64) :
    ran (do let bp ← BufferParams.capiOffsetCurve (R := Val) h g w q join (F64.decode m)
            BufferParams.offsetCurveCtor isfin defaultObj g w bp)
      = (Entry.offsetCurve q join m).config.map ConfigR.ofConfig := by
  unfold BufferParams.capiOffsetCurve BufferParams.offsetCurveCtor
  rw [show (ConfigR.ofTuple (BufferParams.bpDefault (0 : Int) (0 : Int) (0 : Int) (Cxx.Ring.ofInt 0 : Val) false)) = defaultObj from rfl,
    defaultObj_eq]
  by_cases j1 : join < 1 <;> by_cases j3 : join > 3 <;> by_cases q8 : q < 8 <;>
    simp [hw, j1, j3, q8, Entry.config, BufferParams.setQuadrantSegments, BufferParams.setJoinStyle, BufferParams.setMitreLimit,
      BufferParams.getQuadrantSegments, BufferParams.getJoinStyle, BufferParams.getMitreLimit,
      ConfigR.ofConfig, Config.default, Except.toOption, pure, Except.pure, throw, throwThe, MonadExceptOf.throw, bind, Except.bind, idrun]

/-- a non-finite width makes the `OffsetCurve` constructor throw (the C API function returns NULL) -/
theorem gen_offsetCurveCtor_nonfinite {G : Type} (g : G) (w : Val) (isfin : Val → Bool) (hw : isfin w = false) (b0 bp : ConfigR Val) :
    ran (BufferParams.offsetCurveCtor isfin b0 g w bp) = none := by
  simp [BufferParams.offsetCurveCtor, hw, Except.toOption, throw, throwThe, MonadExceptOf.throw, bind, Except.bind]

/-- `GEOSSingleSidedBuffer_r`: the parameters handed to `BufferBuilder` are `Entry.singleSidedBuffer … |>.config` (cap FLAT) -/
theorem gen_capiSingleSidedBuffer_eq {G H : Type} (h : H) (g : G) (w : Val) (q join : Int) (m : UInt64) (left : Int) :
    ran (BufferParams.capiSingleSidedBuffer (R := Val) h g w q join (F64.decode m) left)
      = (Entry.singleSidedBuffer q join m left).config.map ConfigR.ofConfig := by
  unfold BufferParams.capiSingleSidedBuffer
  rw [show (ConfigR.ofTuple (BufferParams.bpDefault (0 : Int) (0 : Int) (0 : Int) (Cxx.Ring.ofInt 0 : Val) false)) = defaultObj from rfl,
    defaultObj_eq]
  by_cases j1 : join < 1 <;> by_cases j3 : join > 3 <;>
    simp [j1, j3, Entry.config, BufferParams.setQuadrantSegments, BufferParams.setEndCapStyle, BufferParams.setJoinStyle,
      BufferParams.setMitreLimit, ConfigR.ofConfig, Config.default, Except.toOption, pure, Except.pure, throw, throwThe, MonadExceptOf.throw,
      bind, Except.bind, idrun]

/-! ## `OffsetSegmentGenerator`: what the generator does with a stored configuration -/

/-- a stored configuration as an object over the rationals (the mitre limit plays no role here) -/
def objQ (c : Config) (mitre : Rat) : ConfigR Rat := ⟨c.quadSegs, c.endCap, c.join, mitre, c.singleSided⟩

/-- the constructor, whatever the members held before: the fillet angle quantum is a quarter turn divided by `max(q, 1)`
(`quantumQ`, for ANY stored `int`), the closing-segment factor is `Config.closingFactor` (80 iff raw `q ≥ 8` and join ROUND),
`init` stores the distance and `maxCurveSegmentError = distance · (1 − cos(quantum / 2))` -/
theorem gen_osgCtor_eq {PM : Type} (cosf : Rat → Rat) (piOver2 fq0 : Rat) (cl0 : Int) (d0 e0 : Rat) (pm : PM) (c : Config)
    (mitre dist : Rat) :
    BufferParams.osgCtor (R := Rat) cosf piOver2 fq0 cl0 d0 e0 pm (objQ c mitre) dist
      = (piOver2 * quantumQ c.quadSegs, c.closingFactor, dist, dist * (1 - cosf (piOver2 * quantumQ c.quadSegs / 2))) := by
  unfold BufferParams.osgCtor BufferParams.osgInit Config.closingFactor quantumQ quadSegsEff
  have hcast : ∀ (P : Prop) [Decidable P] (a b : Int), (((if P then a else b : Int)) : Rat) = if P then (a : Rat) else (b : Rat) :=
    fun P _ a b => by split <;> rfl
  by_cases h1 : c.quadSegs < 1 <;> by_cases h8 : c.quadSegs < 8 <;> by_cases hj : c.join = 1 <;>
    simp [objQ, BufferParams.getQuadrantSegments, BufferParams.getJoinStyle, div_eq_mul_inv, hcast, h1, h8, hj] <;>
    (repeat' split) <;> leaf

/-- the vertex `addDirectedFillet` emits for the angle `θ` (`Angle::sinCosSnap` = `sn`, `cs`) -/
def filletPt (sn cs : Rat → Rat) (p : Cxx.XY Rat) (r θ : Rat) : Cxx.XY Rat := ⟨p.x + r * cs θ, p.y + r * sn θ⟩
/-- `directionFactor` -/
def dirF (dir : Int) : Rat := if dir = -1 then -1 else 1

/-- `addDirectedFillet(p, startAngle, endAngle, direction, radius)` appends to the vertex list exactly one vertex per offset of
the model: `nSegs = (int)(totalAngle / quantum + 0.5)` of them (none if that is `< 1`), at the angles
`startAngle ± i · totalAngle / nSegs` — `filletOffsets` of the total angle in quanta, times the quantum.  For every quantum
`≠ 0`, every pair of angles, either direction, with `(int)` = truncation. -/
theorem gen_addDirectedFillet_eq (sn cs : Rat → Rat) (qm : Rat) (hq : qm ≠ 0) (seg0 : List (Cxx.XY Rat)) (p : Cxx.XY Rat)
    (a0 a1 : Rat) (dir : Int) (r : Rat) :
    BufferParams.addDirectedFillet (R := Rat) truncToInt sn cs qm seg0 p a0 a1 dir r
      = seg0 ++ (filletOffsets (absQ (a0 - a1) / qm)).map (fun o => filletPt sn cs p r (a0 + dirF dir * (o * qm))) := by
  have h := map_filletOffsets (absQ (a0 - a1)) qm hq (fun v => filletPt sn cs p r (a0 + dirF dir * v))
  beta_reduce at h
  rw [h]
  unfold BufferParams.addDirectedFillet
  simp [flatten_map_singleton, range'_zero_one, nSegs, half_eq, filletPt, dirF] <;> (repeat' split) <;> simp_all

/-- with the quantum the constructor computes from the stored parameter `q` (any `int`) and a positive `π/2`: the number of
vertices the fillet emits is `nSegsOf q a` (`a` = total angle in quarter turns) — the object of `fillet_angle_bound` -/
theorem gen_fillet_count (sn cs : Rat → Rat) (piOver2 : Rat) (hpi : 0 < piOver2) (q : Int) (p : Cxx.XY Rat)
    (a0 a1 : Rat) (dir : Int) (r : Rat) :
    (BufferParams.addDirectedFillet (R := Rat) truncToInt sn cs (piOver2 * quantumQ q) [] p a0 a1 dir r).length
      = if nSegsOf q (absQ (a0 - a1) / piOver2) < 1 then 0 else (nSegsOf q (absQ (a0 - a1) / piOver2)).toNat := by
  have hqe : (0 : Rat) < (quadSegsEff q : Rat) := by
    have : (1 : Int) ≤ quadSegsEff q := by unfold quadSegsEff; split <;> omega
    have := one_le_cast this
    linarith
  have hq : piOver2 * quantumQ q ≠ 0 := by
    unfold quantumQ
    have : 0 < piOver2 * (1 / (quadSegsEff q : Rat)) := by positivity
    exact ne_of_gt this
  rw [gen_addDirectedFillet_eq sn cs _ hq]
  have e : absQ (a0 - a1) / (piOver2 * quantumQ q) = absQ (a0 - a1) / piOver2 / quantumQ q := by
    rw [div_div]
  simp only [List.nil_append, List.length_map, nSegsOf, e]
  unfold filletOffsets
  split
  · rename_i hlt; simp [hlt]
  · rename_i hge; simp [hge]

-- non-vacuity: a quarter turn (quantum = 1/8 of it, q = 8) clockwise from angle 1: 8 vertices, the first at the start angle
example : (BufferParams.addDirectedFillet (R := Rat) truncToInt id id (1 / 8) [] ⟨0, 0⟩ 1 0 (-1) 1).length = 8 := by
  rw [gen_addDirectedFillet_eq _ _ _ (by norm_num)]; decide +kernel
example : (Entry.withStyle 8 0 1 0).config = none ∧
    ran (BufferParams.capiBufferWithStyle (R := Val) () () zero 8 0 1 (F64.decode 0)) = none := by
  constructor
  · decide
  · rw [gen_capiBufferWithStyle_eq]; decide

end GeosModel.C06Gen
