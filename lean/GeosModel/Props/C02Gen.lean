import GeosModel.Base.IM
import GeosModel.Generated.IMMatrix
import GeosModel.Props.C01Gen
/-!
# C02 — the regenerated matrix operations of `geom::IntersectionMatrix` are the model the agreement algebra is about

`Generated/IMMatrix.lean` is rewritten from `include/geos/geom/IntersectionMatrix.h` (`get`) and
`src/geom/IntersectionMatrix.cpp` (`set`, `setAtLeast`, `transpose`, `matches(const std::string&)`) by
`translate/cxx2lean.py` (spec `im_matrix`) on every run, statement by statement; the member
`std::array<std::array<int,3>,3> matrix` is the nine fields of `IM` in row-major order.  The theorems below prove each
regenerated function equal to the hand-written definition of `Base/IM` — `IM.get`, `IM.set`, `IM.raise`, `IM.transpose`,
`IM.matchesPat`: the objects of the transposition laws, of `matchesPat_transpose` and of the test `consistent` in
`Props/C02.lean` — for **every** matrix (arbitrary integer entries), location pair, value and pattern string (also the strings of
a length other than 9, for which the C++ throws).  The static `matches(int, char)` that `matches(pattern)` calls and the ten
named predicates are the regenerated ones of `Generated/IMPreds` (translate/im_preds.py, bridge `Props/C01Gen.lean`), which
the check of C02 regenerates and proves as well.
-/
namespace GeosModel.C02Gen
open GeosModel GeosModel.Generated

theorem gen_get_eq (m : IM) (a b : Loc3) : IMMatrix.get m a b = m.get a b := by
  cases a <;> cases b <;> simp [IMMatrix.get, IMMatrix.arr, IMMatrix.locIdx, IM.get]

theorem gen_set_eq (m : IM) (a b : Loc3) (v : Int) : IMMatrix.set m a b v = m.set a b v := by
  cases a <;> cases b <;> simp [IMMatrix.set, IMMatrix.setArr, IMMatrix.locIdx, IM.set]

/-- `setAtLeast`: entries only grow — the `raise` of the relate engines' event folding -/
theorem gen_setAtLeast_eq (m : IM) (a b : Loc3) (v : Int) : IMMatrix.setAtLeast m a b v = m.raise a b v := by
  simp [IMMatrix.setAtLeast, IM.raise, gen_get_eq, gen_set_eq] <;> grind

theorem gen_transpose_eq (m : IM) : IMMatrix.transpose m = m.transpose := by
  cases m; simp [IMMatrix.transpose, IMMatrix.arr, IMMatrix.setArr, IM.transpose]

/-- `matches(pattern)`: throws `IllegalArgumentException` unless the pattern has nine symbols, else `IM.matchesPat` -/
theorem gen_matchesPattern_eq (m : IM) (pat : List Char) :
    IMMatrix.matchesPattern m pat = if pat.length = 9 then .ok (m.matchesPat pat) else .error "IllegalArgumentException" := by
  have hr : List.range' 0 3 = [0, 1, 2] := rfl
  by_cases h : pat.length = 9
  · match pat, h with
    | [a, b, c, d, e, f, g, h', i], _ =>
      obtain ⟨m1, m2, m3, m4, m5, m6, m7, m8, m9⟩ := m
      simp [IMMatrix.matchesPattern, IMMatrix.arr, IM.matchesPat, IM.entries, C01Gen.gen_matches_eq, hr]
      generalize IM.matchesSym m1 a = x1; generalize IM.matchesSym m2 b = x2; generalize IM.matchesSym m3 c = x3
      generalize IM.matchesSym m4 d = x4; generalize IM.matchesSym m5 e = x5; generalize IM.matchesSym m6 f = x6
      generalize IM.matchesSym m7 g = x7; generalize IM.matchesSym m8 h' = x8; generalize IM.matchesSym m9 i = x9
      cases x1 <;> cases x2 <;> cases x3 <;> cases x4 <;> cases x5 <;> cases x6 <;> cases x7 <;> cases x8 <;> cases x9 <;> rfl
  · simp [IMMatrix.matchesPattern, h, throw, throwThe, MonadExceptOf.throw, bind, Except.bind]

/-- the nine-symbol case, as the driver of stream `im-algebra` uses it -/
theorem gen_matchesPattern_nine (m : IM) (pat : List Char) (h : pat.length = 9) :
    IMMatrix.matchesPattern m pat = .ok (m.matchesPat pat) := by
  rw [gen_matchesPattern_eq, if_pos h]

example : IMMatrix.matchesPattern ⟨2, 1, 2, 1, 0, 1, 2, 1, 2⟩ "T*T***T**".toList = .ok true :=
  (gen_matchesPattern_nine _ _ (by decide)).trans (congrArg Except.ok (by decide))
example : IMMatrix.matchesPattern ⟨2, 1, 2, 1, 0, 1, 2, 1, 2⟩ "T*T".toList = .error "IllegalArgumentException" := by
  rw [gen_matchesPattern_eq]; rfl
example : IMMatrix.transpose ⟨0, 1, 2, 3, 4, 5, 6, 7, 8⟩ = ⟨0, 3, 6, 1, 4, 7, 2, 5, 8⟩ := by decide

end GeosModel.C02Gen
