import GeosModel.Proofs.WKB.Depth
/-!
# C11 (WKB / HEX reader part) — readers never crash, hang or touch memory out of bounds

Contributed by the C09 builder; the C11 check (other readers, sanitizer streams) is owned elsewhere.
Model: `GeosModel.WKB.read` (`Model/WKB/Read.lean`) — total by construction (structural recursion on a
fuel argument that is the recursion-depth budget), reading only through pattern matching on the remaining
byte list (so "no out-of-bounds read" is a typing fact of the model) — plus the allocation accounting of
`Model/WKB/Resource.lean`.  The tie of this model to the code is C09's correspondence (`wkb-read`:
valid, structure-mutated and random inputs, binary and HEX).

Positive results (all byte strings, no hypothesis):
* `reject_or_wf`, `readHex_reject_or_wf`  whatever is returned satisfies every constructor invariant;
* `read_never_out_of_fuel`, `depth_le`     the recursion depth is at most `length / 5 + 1`;
* `consumes_monotonically`                every successful nested read returns a suffix no longer than its input.
Negative results (the property's "never overflows the stack" / "allocates at most a constant multiple of the
input size" clauses are false of the model of the current code):
* `depth_unbounded`     for every `d` an accepted input of `9 d + 21` bytes needs recursion depth `d + 1`;
* `alloc_superlinear`   for every `d` an input of `9 d` bytes makes the reader request ≥ `4 d (d − 1)` bytes.
Also: `empty_section_rejected`, `checkContig_nonempty`, `compound_sections_nonempty` — the former undefined behaviour in
`CompoundCurve::validateConstruction` (fixed in /repo 82860eb92) is a clean reject and `front()/back()` only see non-empty sequences.
-/
namespace GeosModel.C11.WKB
open GeosModel GeosModel.WKB

/-- **reject or well-formed**: a geometry returned by the WKB reader satisfies the invariants of all
thirteen constructors (so writers and accessors applied to it are inside their preconditions). -/
theorem reject_or_wf (arc : ArcOracle) (bs : List UInt8) (g : Geom) (h : read arc bs = .ok g) : WFG arc g.g = true :=
  read_wf bs g h

theorem readHex_reject_or_wf (arc : ArcOracle) (cs : List Char) (g : Geom) (h : readHex arc cs = .ok g) :
    WFG arc g.g = true := by
  simp only [GeosModel.WKB.readHex] at h
  cases hd : hexDecode cs with
  | none => simp [hd] at h
  | some bs => simp only [hd] at h; exact read_wf bs g h

/-- the depth budget `read` supplies (input length + 1) is never exhausted -/
theorem read_never_out_of_fuel (arc : ArcOracle) (bs : List UInt8) : read arc bs ≠ .error .fuel := read_fuel_ok bs

/-- **recursion depth ≤ length / 5 + 1**: with more than `length / 5` nested activations allowed the
reader never needs another one -/
theorem depth_le (arc : ArcOracle) (fuel : Nat) (o : Order) (bs : List UInt8) (h : bs.length < 5 * fuel) :
    readGeom arc fuel o bs ≠ .error .fuel := by
  have := readGeom_good (arc := arc) fuel o bs h
  cases hr : readGeom arc fuel o bs with
  | error e => simp only [hr, Good3] at this; simpa using this
  | ok v => simp

/-- a successful (nested) read hands back a suffix that is no longer than what it was given -/
theorem consumes_monotonically (arc : ArcOracle) (fuel : Nat) (o o' : Order) (bs bs' : List UInt8) (r : G × Int)
    (hl : bs.length < 5 * fuel) (h : readGeom arc fuel o bs = .ok (r, o', bs')) : bs'.length ≤ bs.length := by
  have := readGeom_good (arc := arc) fuel o bs hl
  simpa [h, Good3] using this

/-- "the recursion depth is bounded by the constant `D`" -/
def DepthBounded (arc : ArcOracle) (D : Nat) : Prop := ∀ bs : List UInt8, readGeom arc D .le bs ≠ .error .fuel

/-- **no constant bounds the recursion depth**: `d` nested collections around a point (9 d + 21 bytes) are
accepted, and reading them needs exactly `d + 1` nested activations of `readGeometry`. -/
theorem depth_unbounded (arc : ArcOracle) (d : Nat) :
    ∃ bs : List UInt8, bs.length = 9 * d + 21 ∧ (∃ g, read arc bs = .ok g) ∧
      readGeom arc d .le bs = .error .fuel ∧ (∃ r, readGeom arc (d + 1) .le bs = .ok r) := by
  refine ⟨nestBytes d, nestBytes_length d, ⟨⟨0, nestG d⟩, ?_⟩, ?_, ⟨((nestG d, 0), .le, []), ?_⟩⟩
  · have h := readGeom_nest_ok (arc := arc) d (nestBytes d).length .le [] (by rw [nestBytes_length]; omega)
    simp only [List.append_nil] at h
    simp [GeosModel.WKB.read, h]
  · simpa using readGeom_nest_fuel (arc := arc) d .le []
  · simpa using readGeom_nest_ok (arc := arc) d d .le [] (Nat.le_refl _)

theorem not_depthBounded (arc : ArcOracle) (D : Nat) : ¬ DepthBounded arc D := by
  intro h
  obtain ⟨bs, _, _, hf, _⟩ := depth_unbounded arc D
  exact h bs hf

/-- **allocation is super-linear**: `d` nested collections, each claiming as many elements as `minMemSize`
lets through (`remaining / 9`), 9 d bytes in all, make the reader request at least `4 d (d − 1)` bytes
(before it fails with EOF for `d ≥ 3`). -/
theorem alloc_superlinear (arc : ArcOracle) (d : Nat) (hd : d < 4294967296) :
    ∃ bs : List UInt8, bs.length = 9 * d ∧ 4 * d * (d - 1) ≤ allocOf arc bs := by
  refine ⟨over d, over_length d, ?_⟩
  rw [← tri_eq]
  exact allocGeom_over d _ .le (by rw [over_length]; omega) hd

/-- a compound curve of two line-string sections, the first one empty (59 bytes) -/
def ubInput : List UInt8 :=
  [1, 9, 0, 0, 0, 2, 0, 0, 0,
   1, 2, 0, 0, 0, 0, 0, 0, 0,
   1, 2, 0, 0, 0, 2, 0, 0, 0,
   0, 0, 0, 0, 0, 0, 0, 0, 0, 0, 0, 0, 0, 0, 0, 0,
   0, 0, 0, 0, 0, 0, 0, 0, 0, 0, 0, 0, 0, 0, 0, 0]

/-- the input that used to reach `back()` of an empty section (undefined behaviour, SIGSEGV) is now a
clean constructor reject (/repo 82860eb92) -/
theorem empty_section_rejected (arc : ArcOracle) : read arc ubInput = .error .construct := by rfl

/-- `CompoundCurve::validateConstruction` succeeds only if, as soon as there are two sections, every
section is non-empty: `front()`/`back()` are only ever applied to non-empty sequences -/
theorem checkContig_nonempty : ∀ (gs : List G), checkContig gs = .ok () → 2 ≤ gs.length →
    ∀ g ∈ gs, (seqOf g).pts ≠ []
  | [], _, h2 => by simp at h2
  | [_], _, h2 => by simp at h2
  | a :: b :: rest, h, _ => by
    simp only [checkContig] at h
    cases ha : (seqOf a).pts.getLast? with
    | none => simp [ha] at h
    | some e =>
      cases hb : (seqOf b).pts.head? with
      | none => simp [ha, hb] at h
      | some s =>
        simp only [ha, hb] at h
        by_cases hc : Coord.eq2D s e = true
        · simp only [hc, if_true] at h
          intro g hg
          simp only [List.mem_cons] at hg
          rcases hg with rfl | hg
          · intro hn; simp [hn] at ha
          · cases rest with
            | nil =>
              simp only [List.not_mem_nil, or_false] at hg
              subst hg; intro hn; simp [hn] at hb
            | cons c rest' =>
              exact checkContig_nonempty (b :: c :: rest') h (by simp) g (by simpa [List.mem_cons] using hg)
        · simp [hc] at h

/-- **the unguarded `front()`/`back()` is never reached with an empty sequence**: in whatever the reader
returns, a compound curve with at least two sections has no empty section (at any nesting level, since
`reject_or_wf` gives `WFG` of the whole tree and `WFG` of a compound curve contains `checkContig`). -/
theorem compound_sections_nonempty (arc : ArcOracle) (gs : List G) (h : WFG arc (.compoundCurve gs) = true)
    (h2 : 2 ≤ gs.length) : ∀ g ∈ gs, (seqOf g).pts ≠ [] := by
  simp only [WFG, Bool.and_eq_true] at h
  have hc : checkContig gs = .ok () := by
    cases hx : checkContig gs with
    | ok u => rfl
    | error e => simp [hx, errOk] at h
  exact checkContig_nonempty gs hc h2

/-! non-vacuity -/
example : ∃ bs g, read (fun _ => false) bs = .ok g := by
  obtain ⟨bs, _, h, _⟩ := depth_unbounded (fun _ => false) 2
  exact ⟨bs, h⟩

end GeosModel.C11.WKB
