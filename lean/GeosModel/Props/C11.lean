import GeosModel.Proofs.WKB.Depth
import GeosModel.Proofs.Readers.WKBAlloc
import GeosModel.Proofs.Readers.WKTSafe
import GeosModel.Proofs.Readers.WKTDepth
import GeosModel.Model.Readers.Cxx
/-!
# C11 — readers never crash, hang or touch memory out of bounds: what is PROVED, and about what

Everything in this file is about the Lean reader MODELS; the C++ is tied to them by the correspondence streams of
`checks/C09.py`, `checks/C10.py` and the sanitizer streams of `checks/C11.py` (runtime evidence, not proof).
Memory safety of the models is by construction (they read through pattern matching on lists).  The GeoJSON reader
is not modelled.

Part 1 (namespace `C11.WKB`, by the C09 builder, extended here with the allocation bound):
Model: `GeosModel.WKB.read` (`Model/WKB/Read.lean`) — total by construction (structural recursion on a
fuel argument that is the recursion-depth budget), reading only through pattern matching on the remaining
byte list (so "no out-of-bounds read" is a typing fact of the model) — plus the allocation accounting of
`Model/WKB/Resource.lean`.  The tie of this model to the code is C09's correspondence (`wkb-read`:
valid, structure-mutated and random inputs, binary and HEX).

Positive results (all byte strings, no hypothesis):
* `reject_or_wf`, `readHex_reject_or_wf`  whatever is returned satisfies every constructor invariant;
* `read_never_out_of_fuel`, `depth_le`     the recursion depth is at most `length / 5 + 1`;
* `consumes_monotonically`                every successful nested read returns a suffix no longer than its input;
* `alloc_linear`                          **the reader allocates at most 4 bytes per input byte** (the property's "allocates
  at most a constant multiple of the input size" clause, for the accounting of `Model/WKB/Resource.lean`: coordinate
  sequences charged up front after their `minMemSize` guard, child vectors charged 16 bytes per child actually pushed).
  With `alloc_linear_nested` (the same at every depth budget and byte order — no depth hypothesis), `alloc_le_consumed`
  (a successful read is charged by the bytes it consumed, not by the buffer it was given), `alloc_linear_tight` /
  `alloc_constant_optimal` (an accepted polygon with `k` empty holes, `13 + 4 k` bytes, is charged `16 k`: no constant
  below 4 works) and `alloc_over_linear` (the family `wkbOver` on which the allocation was quadratic before /repo a208e3db7
  — `std::vector<…>(count)` sized from the claimed element count at every nesting level — is now charged ≤ 4 bytes per
  byte like everything else; `checks/C11.py` replays it on the C++ as a regression witness).
Negative result (the property's "never overflows the stack" clause is false of the model of the current code):
* `depth_unbounded`     for every `d` an accepted input of `9 d + 21` bytes needs recursion depth `d + 1`.
Also: `empty_section_rejected`, `checkContig_nonempty`, `compound_sections_nonempty` — the former undefined behaviour in
`CompoundCurve::validateConstruction` (fixed in /repo 82860eb92) is a clean reject and `front()/back()` only see non-empty sequences.

Part 2 (namespace `C11.WKT`): the same for the WKT reader model — `wkt_read_never_out_of_fuel`, `wkt_depth_le`,
`wkt_tokens_le_chars`, `tokenizer_fuel_irrelevant` (totality), `wkt_reject_or_wf`, `wkt_consumes`, and the negative
`wkt_depth_unbounded` / `wkt_not_depthBounded`.
-/
namespace GeosModel.C11.WKB
open GeosModel GeosModel.WKB GeosModel.WKB.Alloc

/-- **reject or well-formed**: a geometry returned by the WKB reader satisfies the invariants of all
thirteen constructors (so writers and accessors applied to it are inside their preconditions). -/
theorem reject_or_wf (arc : ArcOracle) (bs : List UInt8) (g : Geom) (h : read arc bs = .ok g) : WFG arc g.g = true :=
  read_wf bs g h

theorem readHex_reject_or_wf (arc : ArcOracle) (cs : List Char) (g : Geom) (h : readHex arc cs = .ok g) :
    WFG arc g.g = true := by
  simp only [GeosModel.WKB.readHex] at h
  cases hd : hexDecode cs with
  | none => simp [hd] at h
  | some bs => simp only [hd] at h; exact read_wf bs g h

/-- the depth budget `read` supplies (input length + 1) is never exhausted -/
theorem read_never_out_of_fuel (arc : ArcOracle) (bs : List UInt8) : read arc bs ≠ .error .fuel := read_fuel_ok bs

/-- **recursion depth ≤ length / 5 + 1**: with more than `length / 5` nested activations allowed the
reader never needs another one -/
theorem depth_le (arc : ArcOracle) (fuel : Nat) (o : Order) (bs : List UInt8) (h : bs.length < 5 * fuel) :
    readGeom arc fuel o bs ≠ .error .fuel := by
  have := readGeom_good (arc := arc) fuel o bs h
  cases hr : readGeom arc fuel o bs with
  | error e => simp only [hr, Good3] at this; simpa using this
  | ok v => simp

/-- a successful (nested) read hands back a suffix that is no longer than what it was given -/
theorem consumes_monotonically (arc : ArcOracle) (fuel : Nat) (o o' : Order) (bs bs' : List UInt8) (r : G × Int)
    (hl : bs.length < 5 * fuel) (h : readGeom arc fuel o bs = .ok (r, o', bs')) : bs'.length ≤ bs.length := by
  have := readGeom_good (arc := arc) fuel o bs hl
  simpa [h, Good3] using this

/-- "the recursion depth is bounded by the constant `D`" -/
def DepthBounded (arc : ArcOracle) (D : Nat) : Prop := ∀ bs : List UInt8, readGeom arc D .le bs ≠ .error .fuel

/-- **no constant bounds the recursion depth**: `d` nested collections around a point (9 d + 21 bytes) are
accepted, and reading them needs exactly `d + 1` nested activations of `readGeometry`. -/
theorem depth_unbounded (arc : ArcOracle) (d : Nat) :
    ∃ bs : List UInt8, bs.length = 9 * d + 21 ∧ (∃ g, read arc bs = .ok g) ∧
      readGeom arc d .le bs = .error .fuel ∧ (∃ r, readGeom arc (d + 1) .le bs = .ok r) := by
  refine ⟨nestBytes d, nestBytes_length d, ⟨⟨0, nestG d⟩, ?_⟩, ?_, ⟨((nestG d, 0), .le, []), ?_⟩⟩
  · have h := readGeom_nest_ok (arc := arc) d (nestBytes d).length .le [] (by rw [nestBytes_length]; omega)
    simp only [List.append_nil] at h
    simp [GeosModel.WKB.read, h]
  · simpa using readGeom_nest_fuel (arc := arc) d .le []
  · simpa using readGeom_nest_ok (arc := arc) d d .le [] (Nat.le_refl _)

theorem not_depthBounded (arc : ArcOracle) (D : Nat) : ¬ DepthBounded arc D := by
  intro h
  obtain ⟨bs, _, _, hf, _⟩ := depth_unbounded arc D
  exact h bs hf

/-- a compound curve of two line-string sections, the first one empty (59 bytes) -/
def ubInput : List UInt8 :=
  [1, 9, 0, 0, 0, 2, 0, 0, 0,
   1, 2, 0, 0, 0, 0, 0, 0, 0,
   1, 2, 0, 0, 0, 2, 0, 0, 0,
   0, 0, 0, 0, 0, 0, 0, 0, 0, 0, 0, 0, 0, 0, 0, 0,
   0, 0, 0, 0, 0, 0, 0, 0, 0, 0, 0, 0, 0, 0, 0, 0]

/-- the input that used to reach `back()` of an empty section (undefined behaviour, SIGSEGV) is now a
clean constructor reject (/repo 82860eb92) -/
theorem empty_section_rejected (arc : ArcOracle) : read arc ubInput = .error .construct := by rfl

/-- `CompoundCurve::validateConstruction` succeeds only if, as soon as there are two sections, every
section is non-empty: `front()`/`back()` are only ever applied to non-empty sequences -/
theorem checkContig_nonempty : ∀ (gs : List G), checkContig gs = .ok () → 2 ≤ gs.length →
    ∀ g ∈ gs, (seqOf g).pts ≠ []
  | [], _, h2 => by simp at h2
  | [_], _, h2 => by simp at h2
  | a :: b :: rest, h, _ => by
    simp only [checkContig] at h
    cases ha : (seqOf a).pts.getLast? with
    | none => simp [ha] at h
    | some e =>
      cases hb : (seqOf b).pts.head? with
      | none => simp [ha, hb] at h
      | some s =>
        simp only [ha, hb] at h
        by_cases hc : Coord.eq2D s e = true
        · simp only [hc, if_true] at h
          intro g hg
          simp only [List.mem_cons] at hg
          rcases hg with rfl | hg
          · intro hn; simp [hn] at ha
          · cases rest with
            | nil =>
              simp only [List.not_mem_nil, or_false] at hg
              subst hg; intro hn; simp [hn] at hb
            | cons c rest' =>
              exact checkContig_nonempty (b :: c :: rest') h (by simp) g (by simpa [List.mem_cons] using hg)
        · simp [hc] at h

/-- **the unguarded `front()`/`back()` is never reached with an empty sequence**: in whatever the reader
returns, a compound curve with at least two sections has no empty section (at any nesting level, since
`reject_or_wf` gives `WFG` of the whole tree and `WFG` of a compound curve contains `checkContig`). -/
theorem compound_sections_nonempty (arc : ArcOracle) (gs : List G) (h : WFG arc (.compoundCurve gs) = true)
    (h2 : 2 ≤ gs.length) : ∀ g ∈ gs, (seqOf g).pts ≠ [] := by
  simp only [WFG, Bool.and_eq_true] at h
  have hc : checkContig gs = .ok () := by
    cases hx : checkContig gs with
    | ok u => rfl
    | error e => simp [hx, errOk] at h
  exact checkContig_nonempty gs hc h2

/-- **allocation is linear: at most 4 bytes per input byte**, for every byte string, with no hypothesis on the nesting
depth.  (Coordinate sequences are allocated up front but only after `minMemSize` has compared their size with the
remaining bytes: ≤ 2 bytes per available byte even when the read then fails; a child vector grows only by children that
were read, each of which consumed at least its 5-byte header — 4-byte size word for polygon holes — which pays for its
16-byte slot.) -/
theorem alloc_linear (arc : ArcOracle) (bs : List UInt8) : allocOf arc bs ≤ 4 * bs.length :=
  allocGeom_le (bs.length + 1) .le bs

/-- the same bound for every nested read: any depth budget `D` (so it does not rest on a depth limit), any byte order -/
theorem alloc_linear_nested (arc : ArcOracle) (D : Nat) (o : Order) (bs : List UInt8) :
    allocGeom arc D o bs ≤ 4 * bs.length := allocGeom_le D o bs

/-- a successful (nested) read is charged at most 4 bytes per byte it *consumed* (less the 16 its parent pays for
pushing it): trailing bytes, which `read` ignores, cost nothing -/
theorem alloc_le_consumed (arc : ArcOracle) (D : Nat) (o o' : Order) (bs bs' : List UInt8) (r : G × Int)
    (h : readGeom arc D o bs = .ok (r, o', bs')) : allocGeom arc D o bs + 16 + 4 * bs'.length ≤ 4 * bs.length :=
  allocGeom_consumed D o o' bs bs' r h

/-- **the constant 4 is attained** up to an additive constant: the polygon with an empty shell and `k` empty holes
(`13 + 4 k` bytes) is accepted and charged `16 k = 4 · length − 52` (one slot per 4-byte hole) -/
theorem alloc_linear_tight (arc : ArcOracle) (k : Nat) (hk : k + 1 < 4294967296) :
    ∃ bs : List UInt8, bs.length = 13 + 4 * k ∧ (∃ g, read arc bs = .ok g) ∧ allocOf arc bs = 16 * k := by
  refine ⟨polyHoles k, polyHoles_length k, ?_, allocGeom_polyHoles k _ .le hk⟩
  have h := readGeom_polyHoles (arc := arc) k (polyHoles k).length .le hk
  exact ⟨⟨0, .polygon ⟨false, false, []⟩ (List.replicate k ⟨false, false, []⟩)⟩, by simp [GeosModel.WKB.read, h]⟩

/-- no constant below 4 bounds the allocation accounting by a multiple of the input length -/
theorem alloc_constant_optimal (arc : ArcOracle) (c : Nat) (hc : c < 4) : ∃ bs : List UInt8, c * bs.length < allocOf arc bs := by
  obtain ⟨bs, hl, _, ha⟩ := alloc_linear_tight arc 10 (by omega)
  refine ⟨bs, ?_⟩
  rw [hl, ha]
  have : c * (13 + 4 * 10) ≤ 3 * (13 + 4 * 10) := Nat.mul_le_mul_right _ (by omega)
  omega

/-- the harness' witness families are the Lean witnesses (`wkb-nest`: of `depth_unbounded`; `wkb-over`: the family on
which the allocation was quadratic before /repo a208e3db7) -/
theorem wkbOver_eq : ∀ k, Readers.wkbOver k = over k
  | 0 => rfl
  | k + 1 => by
    simp only [Readers.wkbOver, over, wkbOver_eq k]
    rfl

/-- **regression witness**: `k` nested collections, each claiming as many elements as `minMemSize` lets through
(`remaining / 9`), `9 k` bytes — on which the reader requested ≥ `4 k (k − 1)` bytes while child vectors were sized
from the claimed count — are now charged at most `36 k` bytes -/
theorem alloc_over_linear (arc : ArcOracle) (k : Nat) :
    (Readers.wkbOver k).length = 9 * k ∧ allocOf arc (Readers.wkbOver k) ≤ 36 * k := by
  have hl : (Readers.wkbOver k).length = 9 * k := by rw [wkbOver_eq, over_length]
  have := alloc_linear arc (Readers.wkbOver k)
  exact ⟨hl, by omega⟩

theorem gHas_nest : ∀ d, gHasZ (nestG d) = false ∧ gHasM (nestG d) = false
  | 0 => by decide
  | d + 1 => by
    have ih := gHas_nest d
    simp only [gHasZ, gHasM] at ih ⊢
    simp [nestG, anySeq, anySeqs, ih.1, ih.2]

theorem wkbNest_eq : ∀ d, Readers.wkbNest d = nestBytes d
  | 0 => by decide
  | d + 1 => by
    have ih := wkbNest_eq d
    have hz := gHas_nest d
    simp only [nestBytes] at ih ⊢
    simp only [nestG, collection_bytes, hz.1, hz.2, Readers.wkbNest, ih]
    rfl

/-! non-vacuity: something is accepted; the accounting is not constantly 0 (up-front sequence of a truncated XYZM line
string claiming 2 points: 64 bytes charged on 41; the old quadratic witness: two slots, whatever `k ≥ 3`) -/
example : ∃ bs g, read (fun _ => false) bs = .ok g := by
  obtain ⟨bs, _, h, _⟩ := depth_unbounded (fun _ => false) 2
  exact ⟨bs, h⟩
example : allocOf (fun _ => false) ([1, 2, 0, 0, 0xc0, 2, 0, 0, 0] ++ List.replicate 32 0) = 64 := by decide
example : allocOf (fun _ => false) (Readers.wkbOver 3) = 32 ∧ allocOf (fun _ => false) (Readers.wkbOver 12) = 32 := by decide

end GeosModel.C11.WKB

/-! ## Part 2 — the WKT reader model -/
namespace GeosModel.C11.WKT
open GeosModel GeosModel.WKT GeosModel.Readers GeosModel.WKT.Safe GeosModel.WKT.Depth

/-- **totality**: the fuel `readToks` supplies (3 · tokens + 4) is never exhausted -/
theorem wkt_read_never_out_of_fuel (ts : List Tok) : readToks ts ≠ .error .fuel := by
  have := readToks_good ts
  cases h : readToks ts with
  | ok g => simp
  | error e => rw [h] at this; simpa using this

/-- **reject or well-formed**: whatever the WKT reader returns satisfies the invariants of all thirteen constructors -/
theorem wkt_reject_or_wf (ts : List Tok) (g : G) (h : readToks ts = .ok g) : WFT g = true := by
  have := readToks_good ts
  rw [h] at this
  exact this

/-- the same for character strings -/
theorem wkt_string_reject_or_wf (s : String) (g : G) (h : GeosModel.WKT.read s = .ok g) : WFT g = true :=
  wkt_reject_or_wf _ g h

theorem wkt_string_never_out_of_fuel (s : String) : GeosModel.WKT.read s ≠ .error .fuel :=
  wkt_read_never_out_of_fuel _

/-- **depth ≤ 3 · tokens + 1**: with that many nested model activations allowed `readGeometryTaggedText` never
needs another one (the model's sibling loops are recursive, so this over-approximates the C++ stack) -/
theorem wkt_depth_le (f : Nat) (orig : Flags) (ek : EmptyKind) (ts : List Tok) (h : 3 * ts.length + 1 ≤ f) :
    readTagged f orig ek ts ≠ .error .fuel := by
  have := (cluster f).tagged orig ek ts h
  cases hr : readTagged f orig ek ts with
  | ok v => simp
  | error e => rw [hr] at this; simpa using OKb_error.1 this

/-- a successful (nested) read consumes at least the type keyword -/
theorem wkt_consumes (f : Nat) (orig : Flags) (ek : EmptyKind) (ts ts' : List Tok) (g : G)
    (hf : 3 * ts.length + 1 ≤ f) (h : readTagged f orig ek ts = .ok (g, ts')) : ts'.length < ts.length := by
  have := (cluster f).tagged orig ek ts hf
  rw [h] at this
  exact this.1

/-- at most one token per character, so all bounds above are bounds in the input length -/
theorem wkt_tokens_le_chars (cs : List Char) : (tokenize cs).length ≤ cs.length := tokenize_length_le cs

/-- the tokenizer's own fuel never binds (it is total on every character string) -/
theorem tokenizer_fuel_irrelevant (f : Nat) (cs : List Char) (h : cs.length < f) : tokenizeF f cs = tokenize cs :=
  tokenizeF_fuel f (cs.length + 1) cs h (Nat.lt_succ_self _)

/-- "the nesting of the returned trees is bounded by the constant `D`" -/
def DepthBounded (D : Nat) : Prop := ∀ ts g, readToks ts = .ok g → gcDepth g ≤ D

/-- **no constant bounds the recursion depth**: `d` nested `GEOMETRYCOLLECTION (` … `)` around `POINT (1 2)` —
3 d + 5 tokens, 20 d + 10 characters as the harness writes them — are accepted and come back as a tree nested `d` deep
(one `readGeometryTaggedText → readGeometryCollectionText` activation pair of the C++ per level) -/
theorem wkt_depth_unbounded (d : Nat) :
    ∃ ts : List Tok, ts.length = 3 * d + 5 ∧ ∃ g, readToks ts = .ok g ∧ gcDepth g = d :=
  ⟨nestToks d, nestToks_length d, nestG d, readToks_nest d, gcDepth_nest d⟩

theorem wkt_not_depthBounded (D : Nat) : ¬ DepthBounded D := by
  intro h
  have := h (nestToks (D + 1)) (nestG (D + 1)) (readToks_nest (D + 1))
  rw [gcDepth_nest] at this
  omega

/-! non-vacuity: the witness is accepted; an ill-formed tree exists (so `WFT` is not trivially true) -/
example : ∃ ts g, readToks ts = .ok g := ⟨nestToks 1, nestG 1, readToks_nest 1⟩
example : WFT (.lineString ⟨false, false, [⟨0, 0, nanBits, nanBits⟩]⟩) = false := by decide
example : WFT (.compoundCurve [.lineString ⟨false, false, []⟩, .lineString ⟨false, false, [⟨0, 0, nanBits, nanBits⟩, ⟨1, 1, nanBits, nanBits⟩]⟩]) = false := by decide

end GeosModel.C11.WKT

/-! ## Part 3 — the stream object of the regenerated guards (`Model/Readers/Cxx.lean`, tied to the source by `Props/C11Gen.lean`) -/
namespace GeosModel.C11.WKB
open GeosModel GeosModel.WKB

/-- **bounded primitive reads**: a successful `readByte` / `readUnsigned` / `readInt` / `readDouble` on the stream object consumed
exactly 1 / 4 / 4 / 8 bytes that were there, and left the byte order alone -/
theorem dis_reads_consume (d d' : Dis) :
    (∀ v, d.readByte = .ok (v, d') → d'.buf.length + 1 = d.buf.length ∧ d'.order = d.order) ∧
    (∀ v, d.readUnsigned = .ok (v, d') → d'.buf.length + 4 = d.buf.length ∧ d'.order = d.order) ∧
    (∀ v, d.readInt = .ok (v, d') → d'.buf.length + 4 = d.buf.length ∧ d'.order = d.order) ∧
    (∀ v, d.readDouble = .ok (v, d') → d'.buf.length + 8 = d.buf.length ∧ d'.order = d.order) := by
  rcases d with ⟨o, bs⟩
  refine ⟨?_, ?_, ?_, ?_⟩
  · intro v h
    rcases bs with _ | ⟨a, r⟩ <;> simp [Dis.readByte, GeosModel.WKB.readByte] at h
    obtain ⟨_, rfl⟩ := h; simp
  · intro v h
    rcases bs with _ | ⟨a, _ | ⟨b, _ | ⟨c, _ | ⟨e, r⟩⟩⟩⟩ <;> simp [Dis.readUnsigned, readU32] at h
    obtain ⟨_, rfl⟩ := h; simp
  · intro v h
    rcases bs with _ | ⟨a, _ | ⟨b, _ | ⟨c, _ | ⟨e, r⟩⟩⟩⟩ <;> simp [Dis.readInt, readU32] at h
    obtain ⟨_, rfl⟩ := h; simp
  · intro v h
    rcases bs with _ | ⟨a, _ | ⟨b, _ | ⟨c, _ | ⟨e, _ | ⟨f, _ | ⟨g, _ | ⟨i, _ | ⟨j, r⟩⟩⟩⟩⟩⟩⟩⟩ <;> simp [Dis.readDouble, readU64] at h
    obtain ⟨_, rfl⟩ := h; simp

/-- **every header costs at least five bytes** (nine with an SRID): the fact the depth bound `depth_le` (`length / 5 + 1`) rests on,
for the header function the regenerated `readGeometry` prefix is proved equal to (`C11Gen.gen_header_eq`) -/
theorem header_consumes (d d' : Dis) (r : Nat × Int) (z m : Bool) (h : readHeaderRaw d = .ok (r, z, m, d')) :
    d'.buf.length + 5 ≤ d.buf.length := by
  unfold readHeaderRaw at h
  cases h1 : d.readByte with
  | error e => simp [h1] at h
  | ok v1 =>
    rcases v1 with ⟨b, d1⟩
    have c1 := (dis_reads_consume d d1).1 b h1
    simp only [h1] at h
    generalize hd2 : (if b = 1 then d1.setOrder 1 else if b = 0 then d1.setOrder 0 else d1) = d2 at h
    have l2 : d2.buf.length = d1.buf.length := by
      rw [← hd2]; split
      · rfl
      · split <;> rfl
    cases h2 : d2.readUnsigned with
    | error e => simp [h2] at h
    | ok v2 =>
      rcases v2 with ⟨t, d3⟩
      have c2 := (dis_reads_consume d2 d3).2.1 t h2
      simp only [h2] at h
      rcases hdt : decodeType t with ⟨gt, zz, mm, sr⟩
      rw [hdt] at h
      cases sr
      · simp at h; obtain ⟨_, _, _, rfl⟩ := h; omega
      · simp only at h
        cases h3 : d3.readInt with
        | error e => simp [h3] at h
        | ok v3 =>
          rcases v3 with ⟨sv, d4⟩
          have c3 := (dis_reads_consume d3 d4).2.2.1 sv h3
          simp [h3] at h; obtain ⟨_, _, _, rfl⟩ := h; omega

/-- **the child loop pushes exactly the claimed number of children or fails**, and never hands back more bytes than it got
(when the child reader does not) -/
theorem readManyD_length {α : Type} (f : Dis → Except String (α × Dis)) (n : Nat) (d d' : Dis) (xs : List α)
    (hf : ∀ d a d', f d = .ok (a, d') → d'.buf.length ≤ d.buf.length) (h : readManyD f n d = .ok (xs, d')) :
    xs.length = n ∧ d'.buf.length ≤ d.buf.length := by
  induction n generalizing d xs with
  | zero => simp [readManyD] at h; obtain ⟨rfl, rfl⟩ := h; simp
  | succ n ih =>
    simp only [readManyD] at h
    cases h1 : f d with
    | error e => simp [h1] at h
    | ok v =>
      rcases v with ⟨a, d1⟩
      simp only [h1] at h
      cases h2 : readManyD f n d1 with
      | error e => simp [h2] at h
      | ok w =>
        rcases w with ⟨as, d2⟩
        simp [h2] at h
        obtain ⟨rfl, rfl⟩ := h
        have := ih d1 as h2
        have := hf d a d1 h1
        simp; omega

/-! non-vacuity: a five-byte header (little endian, POINT) is accepted and leaves nothing; two children are read from ten bytes -/
example : readHeaderRaw ⟨1, [1, 1, 0, 0, 0]⟩ = .ok ((1, 0), false, false, ⟨1, []⟩) := by rfl
example : readManyD (fun d => d.readByte) 2 ⟨1, [7, 8, 9]⟩ = .ok ([7, 8], ⟨1, [9]⟩) := by rfl

end GeosModel.C11.WKB
