import Lean.Elab.Tactic
import GeosModel.Base.Env
import GeosModel.Model.Index.STR
import GeosModel.Model.Index.Rep
import GeosModel.Generated.STRtree
/-!
# C15 — the regenerated node-level code of `TemplateSTRtree` and the `geom::Envelope` predicates are the model

`Generated/STRtree.lean` is rewritten from `include/geos/geom/Envelope.h`, `src/geom/Envelope.cpp`,
`include/geos/index/strtree/TemplateSTRNode.h` and `TemplateSTRtree.h` by `translate/cxx2lean.py` (spec `strtree`, parser
extension `translate/specs/t4ext.py`) on every run, statement by statement; the class templates are read at the
instantiation the C API uses (`BoundsTraits = EnvelopeTraits`, checked by the translator).

The model speaks of `Env = Option Box` over integer keys and of `Node = leaf | branch`; the C++ of four `double`s with
NaN and of a `children` pointer.  `Model/Index/Rep.lean` defines the representation (`rep`, `childrenOf`), and
every theorem below has the form *regenerated function applied to the representation = model function*, for **all** envelopes
(null or not), all points, all nodes, all capacities and counts:

* envelope predicates: `Env.isNull`, `Env.inter` (the pruning test of query / remove and hypothesis `env_law` of
  `Props/C15.lean`), `Env.union` (`expandToInclude`, the bounds of parent nodes), `Env.covers`, `Env.containsPt`;
* node flags: `isLeaf`, `isDeleted`, `isComposite`, `removeItem` against `Node.isLeaf`, `Entry.deleted`;
* `insert`: a null envelope is not inserted (`Tree.insert`);
* `sliceCount`, `sliceCapacity`: equal to the exact integer ceilings of the model **under the explicit hypothesis**
  `ExactCeil R` that the `double` operations `ceil(a/b)` and `ceil(sqrt(m))` are exact on integers (true of real
  arithmetic — instance `Sym`; for IEEE doubles it is what the correspondence stream `strslices` samples).

What is not here (outside the translator's fragment — templates over the visitor, pointer iteration, recursion, `while`):
the loops of `query` / `remove` / `build` / `treeSize` themselves; they are tied by the correspondence streams only.
-/
set_option linter.unusedSimpArgs false
namespace GeosModel.C15Gen
open GeosModel GeosModel.STR GeosModel.STR.Rep GeosModel.Generated

open Lean Elab Tactic Meta in
/-- `unfold_gen_c15`: δ-expand, in the goal, every definition of the namespace `GeosModel.Generated.STRtree`, so that the
proofs do not depend on how the C++ distributes the work over (possibly new) helper functions -/
elab "unfold_gen_c15" : tactic =>
  liftMetaTactic fun g => do
    let e ← instantiateMVars (← g.getType)
    let e' ← Meta.deltaExpand e (fun n => (`GeosModel.Generated.STRtree).isPrefixOf n)
    return [← g.replaceTargetDefEq e']

/-- a regenerated member function of `Envelope` (its first four arguments are the data members) applied to the object `rep a` -/
def onRep {α : Type} (f : NK → NK → NK → NK → α) (a : Env) : α :=
  f (rep a).minx (rep a).maxx (rep a).miny (rep a).maxy

/-! ### `geom::Envelope` -/

/-- `Envelope::isNull()` -/
theorem gen_isNull_eq (a : Env) : STRtree.isNull isnan (rep a).maxx = Env.isNull a := by
  cases a <;> unfold_gen_c15 <;> simp [rep, Env.isNull]

/-- `Envelope::intersects(const Envelope*)` -/
theorem gen_intersectsPtr_eq (a o : Env) : onRep STRtree.intersectsPtr a (rep o) = Env.inter a o := by
  cases a <;> cases o <;> unfold_gen_c15 <;> simp [onRep, rep, Env.inter, Cxx.ge, Cxx.gt] <;> grind

/-- `Envelope::intersects(const Envelope&)` -/
theorem gen_intersectsRef_eq (a o : Env) : onRep STRtree.intersectsRef a (rep o) = Env.inter a o := by
  cases a <;> cases o <;> unfold_gen_c15 <;> simp [onRep, rep, Env.inter, Cxx.ge, Cxx.gt] <;> grind

/-- `Envelope::disjoint(const Envelope&)` -/
theorem gen_disjointRef_eq (a o : Env) : onRep STRtree.disjointRef a (rep o) = !Env.inter a o := by
  cases a <;> cases o <;> unfold_gen_c15 <;> simp [onRep, rep, Env.inter, Cxx.ge, Cxx.gt] <;> grind

/-- `Envelope::covers(const Envelope&)` (Envelope.cpp) -/
theorem gen_coversRef_eq (a o : Env) : onRep STRtree.coversRef a (rep o) = Env.covers a o := by
  cases a <;> cases o <;> unfold_gen_c15 <;> simp [onRep, rep, Env.covers, Cxx.ge, Cxx.gt] <;> grind

/-- `Envelope::contains(const Envelope&)` -/
theorem gen_containsRef_eq (a o : Env) : onRep STRtree.containsRef a (rep o) = Env.covers a o := by
  cases a <;> cases o <;> unfold_gen_c15 <;> simp [onRep, rep, Env.covers, Cxx.ge, Cxx.gt] <;> grind

/-- `Envelope::covers(double, double)` -/
theorem gen_coversXY_eq (a : Env) (x y : Int) :
    onRep STRtree.coversXY a (NK.ofKey x) (NK.ofKey y) = Env.containsPt a x y := by
  cases a <;> unfold_gen_c15 <;> simp [onRep, rep, Env.containsPt, Cxx.ge, Cxx.gt] <;> grind

/-- `Envelope::contains(double, double)` -/
theorem gen_containsXY_eq (a : Env) (x y : Int) :
    onRep STRtree.containsXY a (NK.ofKey x) (NK.ofKey y) = Env.containsPt a x y := by
  cases a <;> unfold_gen_c15 <;> simp [onRep, rep, Env.containsPt, Cxx.ge, Cxx.gt] <;> grind

/-- `Envelope::intersects(double, double)` -/
theorem gen_intersectsXY_eq (a : Env) (x y : Int) :
    onRep STRtree.intersectsXY a (NK.ofKey x) (NK.ofKey y) = Env.containsPt a x y := by
  cases a <;> unfold_gen_c15 <;> simp [onRep, rep, Env.containsPt, Cxx.ge, Cxx.gt] <;> grind

/-- `Envelope::intersects(const CoordinateXY&)` -/
theorem gen_intersectsPt_eq (a : Env) (x y : Int) :
    onRep STRtree.intersectsPt a ⟨NK.ofKey x, NK.ofKey y⟩ = Env.containsPt a x y := by
  cases a <;> unfold_gen_c15 <;> simp [onRep, rep, Env.containsPt, Cxx.ge, Cxx.gt] <;> grind

/-- a NaN ordinate is in no envelope (what makes a null query envelope match nothing) -/
theorem gen_coversXY_nan (a : Env) (y : NK) : onRep STRtree.coversXY a NK.nan y = false := by
  cases a <;> unfold_gen_c15 <;> simp [onRep, rep, Cxx.ge, Cxx.gt]

/-- `Envelope::expandToInclude(const Envelope*)`: the four members afterwards are those of `rep (a ∪ o)` -/
theorem gen_expandToIncludePtr_eq (a o : Env) :
    onRep (STRtree.expandToIncludePtr isnan) a (rep o) = (rep (Env.union a o)).tuple := by
  cases a <;> cases o <;> unfold_gen_c15 <;>
    simp [onRep, rep, Env.union, CEnv.tuple, Cxx.ge, Cxx.gt] <;>
    (repeat' split) <;> simp_all <;> grind

/-- `Envelope::expandToInclude(const Envelope&)` -/
theorem gen_expandToIncludeRef_eq (a o : Env) :
    onRep (STRtree.expandToIncludeRef isnan) a (rep o) = (rep (Env.union a o)).tuple := by
  cases a <;> cases o <;> unfold_gen_c15 <;>
    simp [onRep, rep, Env.union, CEnv.tuple, Cxx.ge, Cxx.gt] <;>
    (repeat' split) <;> simp_all <;> grind

/-! ### `EnvelopeTraits`, `TemplateSTRNode` -/

/-- `EnvelopeTraits::intersects(a, b)` -/
theorem gen_traitsIntersects_eq (a o : Env) : STRtree.traitsIntersects (rep a) (rep o) = Env.inter a o := by
  cases a <;> cases o <;> unfold_gen_c15 <;> simp [onRep, rep, Env.inter, Cxx.ge, Cxx.gt] <;> grind

/-- `EnvelopeTraits::isNull(a)` -/
theorem gen_traitsIsNull_eq (a : Env) : STRtree.traitsIsNull isnan (rep a) = Env.isNull a := by
  cases a <;> unfold_gen_c15 <;> simp [rep, Env.isNull]

/-- `TemplateSTRNode::boundsIntersect(queryBounds)` — **the pruning test** of `query` and `remove`: for a node whose
`bounds` member represents `b`, it is `ops.inter b q` of the model instantiated with the envelope operations -/
theorem gen_boundsIntersect_eq (b q : Env) : STRtree.boundsIntersect (rep b) (rep q) = Env.inter b q := by
  cases b <;> cases q <;> unfold_gen_c15 <;> simp [onRep, rep, Env.inter, Cxx.ge, Cxx.gt] <;> grind

/-- the same, stated on a node of the model -/
theorem gen_boundsIntersect_node {ι : Type} (n : Node Env ι) (q : Env) :
    STRtree.boundsIntersect (rep n.bounds) (rep q) = Env.inter n.bounds q := gen_boundsIntersect_eq _ _

variable {β ι : Type}

/-- `TemplateSTRNode::isLeaf()`: `children == nullptr || children == this`.  The node lives in slot `self`; if it is
composite its first child lives in another slot (`first ≠ self` — children are created before their parent). -/
theorem gen_isLeaf_eq (self first : Nat) (h : first ≠ self) (n : Node β ι) :
    STRtree.isLeaf (childrenOf self first n) (some self) = n.isLeaf := by
  cases n with
  | leaf e => cases hd : e.deleted <;> unfold_gen_c15 <;> simp [childrenOf, Node.isLeaf, hd]
  | branch b ks => unfold_gen_c15; simp [childrenOf, Node.isLeaf, h]

/-- `TemplateSTRNode::isDeleted()`: `children == this` -/
theorem gen_isDeleted_eq (self first : Nat) (h : first ≠ self) (n : Node β ι) :
    STRtree.isDeleted (childrenOf self first n) (some self) = isDeletedLeaf n := by
  cases n with
  | leaf e => cases hd : e.deleted <;> unfold_gen_c15 <;> simp [childrenOf, isDeletedLeaf, hd]
  | branch b ks => unfold_gen_c15; simp [childrenOf, isDeletedLeaf, h]

/-- `TemplateSTRNode::isComposite()` -/
theorem gen_isComposite_eq (self first : Nat) (h : first ≠ self) (n : Node β ι) :
    STRtree.isComposite (childrenOf self first n) (some self) = !n.isLeaf := by
  cases n with
  | leaf e => cases hd : e.deleted <;> unfold_gen_c15 <;> simp [childrenOf, Node.isLeaf, hd]
  | branch b ks => unfold_gen_c15; simp [childrenOf, Node.isLeaf, h]

/-- `TemplateSTRNode::removeItem()`: `children = this` turns a leaf into a deleted leaf (and nothing else changes: the
function assigns no other member) -/
theorem gen_removeItem_eq (self first : Nat) (n : Node β ι) (hl : n.isLeaf = true) :
    STRtree.removeItem (some self) (childrenOf self first n) = childrenOf self first (markDeleted n) := by
  cases n with
  | leaf e => unfold_gen_c15; simp [childrenOf, markDeleted]
  | branch b ks => simp [Node.isLeaf] at hl

/-! ### `TemplateSTRtreeImpl::insert`, slice arithmetic -/

/-- `insert(itemEnv, item)` (both overloads): the leaf is appended unless the envelope is null; `push` is whatever
`createLeafNode` (= `nodes.emplace_back(item, env)`, checked by the translator) does to the node list -/
theorem gen_insert_eq {I NL : Type} (push : NL → I → CEnv NK → NL) (l : NL) (b : Env) (i : I) :
    STRtree.insertCopy isnan push l (rep b) i = (if Env.isNull b then l else push l i (rep b)) ∧
    STRtree.insertMove isnan push l (rep b) i = (if Env.isNull b then l else push l i (rep b)) := by
  cases b <;> unfold_gen_c15 <;> simp [rep, Env.isNull]

/-- … which is `Tree.insert` of the model for any configuration whose `isNull` is the envelope's -/
theorem gen_insert_model_eq (c : Cfg Env ι) (hc : c.isNull = Env.isNull) (t : Tree Env ι) (b : Env) (i : ι) :
    (t.insert c b i).pending
      = STRtree.insertMove isnan (fun l i _ => l ++ [(⟨b, i, false⟩ : Entry Env ι)]) t.pending (rep b) i := by
  rw [(gen_insert_eq _ _ _ _).2]
  simp only [Tree.insert, hc]
  cases Env.isNull b <;> simp

/-- `sliceCount(numNodes)` = `ceilSqrt (ceilDiv n cap)` when the `double` operations are exact on these integers -/
theorem gen_sliceCount_eq {R : Type} [Cxx.Math R] (hx : ExactCeil R) (cap n : Nat) (hc : 0 < cap) :
    STRtree.sliceCount (R := R) cap n = STR.sliceCount cap n := by
  have h1 := hx.ceil_div n cap hc
  have h2 := hx.ceil_sqrt (ceilDiv n cap)
  simp only [Int.ofNat_eq_natCast] at h1 h2
  unfold_gen_c15; simp [STR.sliceCount, h1, h2]

/-- `sliceCapacity(numNodes, numSlices)` = `ceilDiv n s` under the same hypothesis -/
theorem gen_sliceCapacity_eq {R : Type} [Cxx.Math R] (hx : ExactCeil R) (n s : Nat) (hs : 0 < s) :
    STRtree.sliceCapacity (R := R) n s = STR.sliceCapacity n s := by
  have h1 := hx.ceil_div n s hs
  have h2 := hx.to_int (ceilDiv n s)
  simp only [Int.ofNat_eq_natCast] at h1 h2
  unfold_gen_c15; simp [STR.sliceCapacity, h1, h2]

/-! ### non-vacuity -/
example : STRtree.sliceCount (R := Sym) 10 1000 = 10 ∧ STR.sliceCount 10 1000 = 10 := by decide
example : STRtree.sliceCount (R := Sym) 4 17 = STR.sliceCount 4 17 := gen_sliceCount_eq sym_exact 4 17 (by decide)
example : STRtree.sliceCapacity (R := Sym) 17 3 = 6 := by decide
example : onRep STRtree.intersectsPtr (some ⟨0, 1, 0, 1⟩) (rep (some ⟨1, 2, 1, 2⟩)) = true := by decide
example : onRep STRtree.intersectsPtr (some ⟨0, 1, 0, 1⟩) (rep none) = false := by decide
example : onRep (STRtree.expandToIncludePtr isnan) none (rep (some ⟨1, 2, 3, 4⟩)) = (rep (some ⟨1, 2, 3, 4⟩)).tuple := by decide
example : STRtree.isLeaf (childrenOf 5 2 (Node.leaf (⟨(), 7, true⟩ : Entry Unit Nat))) (some 5) = true := by decide
example : STRtree.isLeaf (childrenOf 5 2 (Node.branch () ([] : List (Node Unit Nat)))) (some 5) = false := by decide

end GeosModel.C15Gen
