import GeosModel.Model.Fix.Holes
import GeosModel.Model.Fix.Spec
/-!
# C17 — the hole phase of `GeometryFixer::fixPolygonElement` (Model/Fix/Holes.lean)

For every fixed shell, every list of fixed holes and every answer function of the one decision
(`shellPrep->intersects(hole)`), the point set the control flow builds is

    (shell \ ⋃ {holes the oracle says meet the shell})  ∪  ⋃ {holes it says do not}

(`withHoles_mem`); with a *sound* oracle (a hole it calls disjoint has no point in the shell) that is the documented
"union of the shells minus the holes, holes outside the shell become polygons" (`withHoles_documented`); it does not depend on the
order of the holes (`withHoles_perm`); it never leaves the union of the ring regions (`withHoles_subset`).  An oracle that wrongly
answers "disjoint" for a hole turns every point of that hole into area, shell points included
(`misclassified_hole_is_added` — the effect of looking at the first component of a multi-part shell only).
`expectedInPrep_eq_withHoles` ties the model to the expectation the driver's area clause evaluates (Model/Fix/Spec.lean); the
stream `hole-class` ties the decision itself to the real `classifyHoles`.
-/
namespace GeosModel.Fix.Holes
open GeosModel.Kernel GeosModel.Relate GeosModel.Fix

variable {α β : Type}

theorem classifyLoop_aux (meets : β → Bool) (l a b : List β) :
    l.foldl (fun acc h => if meets h then (acc.1 ++ [h], acc.2) else (acc.1, acc.2 ++ [h])) (a, b)
      = (a ++ l.filter meets, b ++ l.filter (fun h => !meets h)) := by
  induction l generalizing a b with
  | nil => simp
  | cons h t ih =>
    simp only [List.foldl_cons]
    by_cases hm : meets h = true
    · simp [hm, ih]
    · have hf : meets h = false := by simpa using hm
      simp [hf, ih]

/-- the loop of `classifyHoles` splits the fixed holes by the oracle, keeping their order -/
theorem classifyLoop_eq_filter (meets : β → Bool) (l : List β) :
    classifyLoop meets l = (l.filter meets, l.filter (fun h => !meets h)) := by
  simp [classifyLoop, classifyLoop_aux]

/-- every fixed hole lands in exactly one of the two lists -/
theorem classifyLoop_partition (meets : β → Bool) (l : List β) (h : β) :
    (h ∈ (classifyLoop meets l).1 ↔ h ∈ l ∧ meets h = true) ∧ (h ∈ (classifyLoop meets l).2 ↔ h ∈ l ∧ meets h = false) := by
  simp [classifyLoop_eq_filter, List.mem_filter]

theorem unionGeometry_mem (ps : List (α → Bool)) (x : α) : unionGeometry ps x = ps.any (· x) := by
  match ps with
  | [] => rfl
  | [p] => simp [unionGeometry]
  | _ :: _ :: _ => rfl

theorem difference_mem (shell : α → Bool) (hs : List (α → Bool)) (x : α) :
    difference shell hs x = (shell x && !hs.any (· x)) := by
  match hs with
  | [] => simp [difference]
  | [h] => simp [difference]
  | _ :: _ :: _ => simp [difference, unionGeometry]

/-- the point set built by the hole phase, for ANY answers of the intersects test -/
theorem withHoles_mem (mem : β → α → Bool) (meets : β → Bool) (shell : α → Bool) (hs : List β) (x : α) :
    withHoles mem meets shell hs x =
      ((shell x && !(hs.filter meets).any (mem · x)) || (hs.filter (fun h => !meets h)).any (mem · x)) := by
  unfold withHoles
  by_cases he : hs = []
  · subst he; simp
  · have hne : hs.isEmpty = false := by simpa using he
    simp only [hne, classifyLoop_eq_filter]
    by_cases h2 : (hs.filter (fun h => !meets h)) = []
    · simp [h2, difference_mem, List.any_map, Function.comp_def]
    · have h2' : (hs.filter (fun h => !meets h)).isEmpty = false := by simpa using h2
      simp [h2', unionGeometry_mem, difference_mem, List.any_append, List.any_map, Function.comp_def, Bool.or_comm]

theorem any_filter_split (p f : β → Bool) (l : List β) :
    l.any f = ((l.filter p).any f || (l.filter (fun h => !p h)).any f) := by
  rw [Bool.eq_iff_iff]
  simp only [Bool.or_eq_true, List.any_eq_true, List.mem_filter]
  constructor
  · rintro ⟨h, hin, hf⟩
    by_cases hp : p h = true
    · exact Or.inl ⟨h, ⟨hin, hp⟩, hf⟩
    · exact Or.inr ⟨h, ⟨hin, by simpa using hp⟩, hf⟩
  · rintro (⟨h, ⟨hin, _⟩, hf⟩ | ⟨h, ⟨hin, _⟩, hf⟩) <;> exact ⟨h, hin, hf⟩

/-- with a sound oracle the result is the documented one: the shell minus ALL holes, plus the holes found disjoint -/
theorem withHoles_documented (mem : β → α → Bool) (meets : β → Bool) (shell : α → Bool) (hs : List β)
    (sound : ∀ h ∈ hs, meets h = false → ∀ x, shell x = true → mem h x = false) (x : α) :
    withHoles mem meets shell hs x =
      ((shell x && !hs.any (mem · x)) || (hs.filter (fun h => !meets h)).any (mem · x)) := by
  rw [withHoles_mem, any_filter_split meets (mem · x) hs]
  by_cases hx : shell x = true
  · have hB : (hs.filter (fun h => !meets h)).any (mem · x) = false := by
      rw [List.any_eq_false]
      intro h hh
      have hm := List.mem_filter.mp hh
      have := sound h hm.1 (by simpa using hm.2) x hx
      simp [this]
    simp [hB]
  · have hf : shell x = false := by simpa using hx
    simp [hf]

/-- a hole the oracle calls disjoint becomes area with all its points — also those inside the shell -/
theorem misclassified_hole_is_added (mem : β → α → Bool) (meets : β → Bool) (shell : α → Bool) (hs : List β)
    (h : β) (hin : h ∈ hs) (hm : meets h = false) (x : α) (hx : mem h x = true) :
    withHoles mem meets shell hs x = true := by
  rw [withHoles_mem]
  have : (hs.filter (fun h => !meets h)).any (mem · x) = true :=
    List.any_eq_true.mpr ⟨h, List.mem_filter.mpr ⟨hin, by simp [hm]⟩, hx⟩
  simp [this]

/-- a hole the oracle says meets the shell removes its points, unless an added hole covers them -/
theorem subtracted_hole_removes (mem : β → α → Bool) (meets : β → Bool) (shell : α → Bool) (hs : List β)
    (h : β) (hin : h ∈ hs) (hm : meets h = true) (x : α) (hx : mem h x = true)
    (hadd : ∀ k ∈ hs, meets k = false → mem k x = false) :
    withHoles mem meets shell hs x = false := by
  rw [withHoles_mem]
  have hA : (hs.filter meets).any (mem · x) = true := List.any_eq_true.mpr ⟨h, List.mem_filter.mpr ⟨hin, hm⟩, hx⟩
  have hB : (hs.filter (fun h => !meets h)).any (mem · x) = false := by
    rw [List.any_eq_false]
    intro k hk
    have hm := List.mem_filter.mp hk
    have := hadd k hm.1 (by simpa using hm.2)
    simp [this]
  simp [hA, hB]

/-- the result stays inside the union of the fixed ring regions -/
theorem withHoles_subset (mem : β → α → Bool) (meets : β → Bool) (shell : α → Bool) (hs : List β) (x : α)
    (hx : withHoles mem meets shell hs x = true) : shell x = true ∨ ∃ h ∈ hs, mem h x = true := by
  rw [withHoles_mem] at hx
  by_cases hs' : shell x = true
  · exact Or.inl hs'
  · have hf : shell x = false := by simpa using hs'
    simp only [hf, Bool.false_and, Bool.false_or] at hx
    obtain ⟨h, hh, hm⟩ := List.any_eq_true.mp hx
    exact Or.inr ⟨h, (List.mem_filter.mp hh).1, hm⟩

/-- without holes, and when every hole is subtracted -/
theorem withHoles_nil (mem : β → α → Bool) (meets : β → Bool) (shell : α → Bool) : withHoles mem meets shell [] = shell := by
  simp [withHoles]

theorem withHoles_all_meet (mem : β → α → Bool) (meets : β → Bool) (shell : α → Bool) (hs : List β)
    (hall : ∀ h ∈ hs, meets h = true) (x : α) : withHoles mem meets shell hs x = (shell x && !hs.any (mem · x)) := by
  rw [withHoles_mem]
  have h1 : hs.filter meets = hs := List.filter_eq_self.mpr hall
  have h2 : hs.filter (fun h => !meets h) = [] := by
    rw [List.filter_eq_nil_iff]; intro h hh; simp [hall h hh]
  simp [h1, h2]

theorem any_perm (f : β → Bool) {l1 l2 : List β} (hp : l1.Perm l2) : l1.any f = l2.any f := by
  induction hp with
  | nil => rfl
  | cons a _ ih => simp [ih]
  | swap a b l => simp only [List.any_cons]; cases f a <;> cases f b <;> rfl
  | trans _ _ ih1 ih2 => exact ih1.trans ih2

/-- the order of the interior rings does not matter -/
theorem withHoles_perm (mem : β → α → Bool) (meets : β → Bool) (shell : α → Bool) {l1 l2 : List β} (hp : l1.Perm l2) (x : α) :
    withHoles mem meets shell l1 x = withHoles mem meets shell l2 x := by
  rw [withHoles_mem, withHoles_mem, any_perm _ (hp.filter meets), any_perm _ (hp.filter (fun h => !meets h))]

/-- the expectation of the driver's area clause (Model/Fix/Spec.lean) is this model with the ring regions as point sets and
`holeMeetsShell` as the oracle -/
theorem expectedInPrep_eq_withHoles (x : HPt) (shell : List Pt) (holes : List (List Pt)) :
    expectedInPrep x (prepPolygon (shell :: holes)) =
      (ringHasArea shell && withHoles (fun r y => inNZ y r) (holeMeetsShell shell) (fun y => inNZ y shell) holes x) := by
  rw [withHoles_mem]
  unfold prepPolygon expectedInPrep
  by_cases h : ringHasArea shell = true
  · simp [h]
  · have hf : ringHasArea shell = false := by simpa using h
    simp [hf]

/-! non-vacuity, and why soundness of the oracle is needed: points are numbers, the shell has the two parts {0} and {1}, the hole
{1, 2} swallows the second part.  The true oracle subtracts it; an oracle that looks at the first part only (point 0) calls the
hole disjoint and the result gains the points 1 and 2. -/
example : (List.range 4).map (withHoles (fun (h : List Nat) x => h.contains x) (fun h => h.any fun x => x == 0 || x == 1)
    (fun x => x == 0 || x == 1) [[1, 2]]) = [true, false, false, false] := by decide
example : (List.range 4).map (withHoles (fun (h : List Nat) x => h.contains x) (fun h => h.contains 0)
    (fun x => x == 0 || x == 1) [[1, 2]]) = [true, true, true, false] := by decide
example : classifyLoop (fun n : Nat => n % 2 == 0) [1, 2, 3, 4] = ([2, 4], [1, 3]) := by decide

end GeosModel.Fix.Holes
