import GeosModel.Model.Overlay.Clip
import GeosModel.Model.Kernel.CCW
/-!
# C03 — the input side of OverlayNG (`Model/Overlay/Clip.lean`): clipping and limiting never invent linework

The overlay result can only equal the Boolean combination of the inputs if what reaches the noder IS the inputs
(restricted to a neighbourhood of the result).  Proved here, for all inputs:

**LineLimiter** (for every `inside` / `segMeets`, i.e. for every limit envelope):
* `limit_points_from_input`  — every vertex of every section is a vertex of the line being limited (no foreign vertex);
* `limit_segments_from_input` — every SEGMENT of every section joins two consecutive vertices of that line (no foreign
  segment: nothing that is not linework of the input reaches the noder); invariant `SegInv`;
* `limit_keeps_inside`       — every vertex inside the envelope is in some section;
* `limit_keeps_meeting_segments` — every segment a → b (a ≠ b) of the line with an end point inside the envelope, or whose
  own envelope meets it, is a segment of some section (nothing that can matter to the result is dropped);
* `runObj_history_independent`, `limitSeq_eq_map` — a limiter object used for many lines returns for each line what a
  fresh limiter returns (the reset at the start of `limit`);
* `finish_can_leave_lastOutside`, `noReset_invents_vertex` — why the reset is needed: a run CAN end with `lastOutside`
  set (line ending with two vertices outside), and without the reset the next line's first section starts with that
  vertex of the previous line.

**RobustClipEnvelopeComputer**:
* `robustClipEnv_covers_target` — the clip envelope covers the target (result) envelope;
* `robustClipEnv_protects`      — every segment of every ring — shell or HOLE — of every polygon of either operand whose
  envelope meets the target envelope has both end points in the clip envelope (so it is never cut).

* `robustClipEnv_least`         — … and it is the LEAST such box: covers_target + protects + least characterise
  `getEnvelope` completely.

**RingClipper** (generic in the crossing-point function):
* `ringClip_in_box`              — the clipped ring lies in the closed clip box, given what the crossing-point arithmetic must
  deliver (`IxOK`: the point is on the edge's line; its computed ordinate does not leave a half plane both end points lie in);
* `clipToBoxEdgeOpen_all_inside` — a point list wholly inside an edge's half plane passes unchanged;
* `clipLoop_mem`                 — every emitted point is an input point inside the half plane or a crossing point of a
  segment whose end points lie on different sides.

**EdgeNodingBuilder**:
* `addLines_eq_flatMap`, `addLine_points_from_input` — the lines of an operand are prepared independently of each other (one
  limiter object notwithstanding), and every vertex handed to the noder for a line is a vertex of that line;
* `depthDelta_canonical`, `depthDelta_flip` — the depth delta is ±1 and changes sign with the orientation;
* `clipped_ring_orientation_differs` — why `computeDepthDelta` must look at the ORIGINAL ring: a valid counter-clockwise
  ring whose clipped point list `Orientation::isCCW` reports as clockwise (zero-width back-track along the top edge).
-/
namespace GeosModel.Overlay.Clip
open GeosModel GeosModel.Kernel

/-! ## LineLimiter -/
section Limiter
variable {P : Type} [DecidableEq P] (inside : P → Bool) (segMeets : P → P → Bool)

theorem mem_pushNR {l : List P} {p q : P} (h : q ∈ pushNR l p) : q ∈ l ∨ q = p := by
  unfold pushNR at h
  split at h
  · split at h
    · exact Or.inl h
    · rcases List.mem_cons.mp h with h | h
      · exact Or.inr h
      · exact Or.inl h
  · simp at h; exact Or.inr h

theorem mem_pushNR_self (l : List P) (p : P) : p ∈ pushNR l p := by
  unfold pushNR
  split
  · split
    · rename_i q _ h; subst h; simp
    · simp
  · simp

theorem mem_pushNR_of_mem {l : List P} {q : P} (p : P) (h : q ∈ l) : q ∈ pushNR l p := by
  unfold pushNR
  split
  · split
    · exact h
    · exact List.mem_cons_of_mem _ h
  · simp at h

/-- every point held anywhere in the state satisfies `S` -/
def AllS (S : P → Prop) (s : LState P) : Prop :=
  (∀ q, s.lastOutside = some q → S q) ∧ (∀ l, s.ptList = some l → ∀ q ∈ l, S q) ∧ (∀ sec ∈ s.sections, ∀ q ∈ sec, S q)

theorem addPoint_AllS {S : P → Prop} {s : LState P} {p : P} (hs : AllS S s) (hp : S p) : AllS S (addPoint s p) := by
  obtain ⟨h1, h2, h3⟩ := hs
  refine ⟨?_, ?_, h3⟩
  · intro q hq; simp [addPoint] at hq
  · intro l hl q hq
    simp only [addPoint, Option.some.injEq] at hl
    subst hl
    rcases mem_pushNR hq with hq | hq
    · have hbase : ∀ q ∈ s.ptList.getD [], S q := by
        intro q hq
        cases hpl : s.ptList with
        | none => simp [hpl] at hq
        | some l0 => simp [hpl] at hq; exact h2 l0 hpl q hq
      cases hlo : s.lastOutside with
      | none => simp [hlo] at hq; exact hbase q hq
      | some o =>
        simp [hlo] at hq
        rcases mem_pushNR hq with hq | hq
        · exact hbase q hq
        · subst hq; exact h1 _ hlo
    · subst hq; exact hp

theorem finishSection_AllS {S : P → Prop} {s : LState P} (hs : AllS S s) : AllS S (finishSection s) := by
  obtain ⟨h1, h2, h3⟩ := hs
  unfold finishSection
  cases hpl : s.ptList with
  | none => exact ⟨h1, by simp [hpl], h3⟩
  | some l =>
    refine ⟨by simp, by simp, ?_⟩
    intro sec hsec q hq
    simp only [List.mem_cons] at hsec
    rcases hsec with hsec | hsec
    · subst hsec
      rw [List.mem_reverse] at hq
      cases hlo : s.lastOutside with
      | none => simp [hlo] at hq; exact h2 l hpl q hq
      | some o =>
        simp [hlo] at hq
        rcases mem_pushNR hq with hq | hq
        · exact h2 l hpl q hq
        · subst hq; exact h1 _ hlo
    · exact h3 sec hsec q hq

theorem addOutside_AllS {S : P → Prop} {s : LState P} {p : P} (hs : AllS S s) (hp : S p) : AllS S (addOutside segMeets s p) := by
  unfold addOutside
  have key : ∀ s' : LState P, AllS S s' → AllS S { s' with lastOutside := some p } := by
    intro s' ⟨_, h2, h3⟩
    exact ⟨by intro q hq; simp at hq; subst hq; exact hp, h2, h3⟩
  apply key
  split
  · exact finishSection_AllS hs
  · apply addPoint_AllS _ hp
    cases hlo : s.lastOutside with
    | none => exact hs
    | some o => exact addPoint_AllS hs (hs.1 o hlo)

theorem step_AllS {S : P → Prop} {s : LState P} {p : P} (hs : AllS S s) (hp : S p) : AllS S (step inside segMeets s p) := by
  unfold step
  split
  · exact addPoint_AllS hs hp
  · exact addOutside_AllS segMeets hs hp

theorem foldl_AllS {S : P → Prop} (l : List P) (s : LState P) (hs : AllS S s) (hl : ∀ p ∈ l, S p) :
    AllS S (l.foldl (step inside segMeets) s) := by
  induction l generalizing s with
  | nil => exact hs
  | cons p r ih =>
    exact ih _ (step_AllS inside segMeets hs (hl p (by simp))) (fun q hq => hl q (List.mem_cons_of_mem _ hq))

/-- **no foreign vertex**: every vertex of every section returned for a line is a vertex of that line -/
theorem limit_points_from_input (pts : List P) (sec : List P) (hsec : sec ∈ limit inside segMeets pts) (q : P) (hq : q ∈ sec) :
    q ∈ pts := by
  have h0 : AllS (· ∈ pts) (⟨none, none, []⟩ : LState P) := ⟨by simp, by simp, by simp⟩
  have h := finishSection_AllS (foldl_AllS inside segMeets pts _ h0 (fun p hp => hp))
  unfold limit runObj at hsec
  rw [List.mem_reverse] at hsec
  exact h.2.2 sec hsec q hq

/-- `p` is in the open section or in a finished one -/
def Kept (p : P) (s : LState P) : Prop := (∃ l, s.ptList = some l ∧ p ∈ l) ∨ (∃ sec ∈ s.sections, p ∈ sec)

theorem addPoint_kept_self (s : LState P) (p : P) : Kept p (addPoint s p) :=
  Or.inl ⟨_, rfl, mem_pushNR_self _ p⟩

theorem addPoint_kept_mono {s : LState P} {q : P} (p : P) (h : Kept q s) : Kept q (addPoint s p) := by
  rcases h with ⟨l, hl, hq⟩ | h
  · refine Or.inl ⟨_, rfl, mem_pushNR_of_mem _ ?_⟩
    cases hlo : s.lastOutside with
    | none => simp [hl]; exact hq
    | some o => simp [hl]; exact mem_pushNR_of_mem _ hq
  · exact Or.inr h

theorem finishSection_kept_mono {s : LState P} {q : P} (h : Kept q s) : Kept q (finishSection s) := by
  unfold finishSection
  rcases h with ⟨l, hl, hq⟩ | ⟨sec, hsec, hq⟩
  · rw [hl]
    refine Or.inr ⟨_, List.mem_cons_self, ?_⟩
    rw [List.mem_reverse]
    cases hlo : s.lastOutside with
    | none => exact hq
    | some o => exact mem_pushNR_of_mem _ hq
  · cases hpl : s.ptList with
    | none => exact Or.inr ⟨sec, hsec, hq⟩
    | some l => exact Or.inr ⟨sec, List.mem_cons_of_mem _ hsec, hq⟩

theorem addOutside_kept_mono {s : LState P} {q : P} (p : P) (h : Kept q s) : Kept q (addOutside segMeets s p) := by
  unfold addOutside
  have key : ∀ s' : LState P, Kept q s' → Kept q { s' with lastOutside := some p } := fun s' h => h
  apply key
  split
  · exact finishSection_kept_mono h
  · apply addPoint_kept_mono
    cases hlo : s.lastOutside with
    | none => exact h
    | some o => exact addPoint_kept_mono _ h

theorem step_kept_mono {s : LState P} {q : P} (p : P) (h : Kept q s) : Kept q (step inside segMeets s p) := by
  unfold step
  split
  · exact addPoint_kept_mono _ h
  · exact addOutside_kept_mono segMeets _ h

theorem foldl_kept_mono (l : List P) {s : LState P} {q : P} (h : Kept q s) : Kept q (l.foldl (step inside segMeets) s) := by
  induction l generalizing s with
  | nil => exact h
  | cons p r ih => exact ih (step_kept_mono inside segMeets p h)

theorem foldl_keeps_inside (l : List P) (s : LState P) (p : P) (hp : p ∈ l) (hin : inside p = true) :
    Kept p (l.foldl (step inside segMeets) s) := by
  induction l generalizing s with
  | nil => simp at hp
  | cons a r ih =>
    rcases List.mem_cons.mp hp with h | h
    · subst h
      simp only [List.foldl_cons]
      apply foldl_kept_mono
      unfold step
      rw [if_pos hin]
      exact addPoint_kept_self _ _
    · exact ih _ h

theorem finishSection_ptList (s : LState P) : (finishSection s).ptList = none := by
  unfold finishSection
  cases h : s.ptList <;> simp [h]

/-- **nothing inside is lost**: every vertex of the line that lies inside the limit envelope is in some section -/
theorem limit_keeps_inside (pts : List P) (p : P) (hp : p ∈ pts) (hin : inside p = true) :
    ∃ sec ∈ limit inside segMeets pts, p ∈ sec := by
  have h := finishSection_kept_mono (foldl_keeps_inside inside segMeets pts ⟨none, none, []⟩ p hp hin)
  rcases h with ⟨l, hl, _⟩ | ⟨sec, hsec, hq⟩
  · rw [finishSection_ptList] at hl; cases hl
  · exact ⟨sec, by unfold limit runObj; rw [List.mem_reverse]; exact hsec, hq⟩

/-- a limiter object forgets its history at the start of every run -/
theorem runObj_history_independent (s s' : LState P) (pts : List P) :
    runObj inside segMeets s pts = runObj inside segMeets s' pts := rfl

/-- one limiter used for many lines = a fresh limiter for each line -/
theorem limitSeq_eq_map (s : LState P) (lines : List (List P)) :
    limitSeq inside segMeets s lines = lines.map (limit inside segMeets) := by
  induction lines generalizing s with
  | nil => rfl
  | cons l r ih => simp only [limitSeq, List.map_cons, ih]; rfl

end Limiter

/-! ### no foreign segment -/
section Segs
set_option linter.unusedSectionVars false
variable {P : Type} [DecidableEq P] (inside : P → Bool) (segMeets : P → P → Bool)

/-- `a` is immediately followed by `b` in `pts` -/
def Adj (pts : List P) (a b : P) : Prop := ∃ l1 l2, pts = l1 ++ a :: b :: l2

theorem adj_cons {x : P} {l : List P} {u v : P} (h : Adj (x :: l) u v) : (u = x ∧ ∃ r, l = v :: r) ∨ Adj l u v := by
  obtain ⟨l1, l2, h⟩ := h
  cases l1 with
  | nil => simp at h; exact Or.inl ⟨h.1.symm, l2, h.2⟩
  | cons y l1 => simp at h; exact Or.inr ⟨l1, l2, h.2⟩

theorem adj_reverse {l : List P} {a b : P} (h : Adj l.reverse a b) : Adj l b a := by
  obtain ⟨l1, l2, h⟩ := h
  have h2 := congrArg List.reverse h
  simp at h2
  exact ⟨_, _, h2⟩

theorem not_adj_short {l : List P} {a b : P} (hl : l.length < 2) : ¬ Adj l a b := by
  rintro ⟨l1, l2, h⟩
  have := congrArg List.length h
  simp at this
  omega

theorem pushNR_head (l : List P) (p : P) : ∃ r, pushNR l p = p :: r := by
  unfold pushNR
  split
  · rename_i q r
    split
    · rename_i h; exact ⟨r, by rw [h]⟩
    · exact ⟨_, rfl⟩
  · exact ⟨[], rfl⟩

theorem pushNR_adj (pts l : List P) (p : P) (hl : ∀ a b, Adj l b a → Adj pts a b)
    (hp : ∀ x r, l = x :: r → x ≠ p → Adj pts x p) : ∀ a b, Adj (pushNR l p) b a → Adj pts a b := by
  intro a b h
  unfold pushNR at h
  split at h
  · rename_i q r
    split at h
    · exact hl a b h
    · rename_i hne
      rcases adj_cons h with ⟨hb, r', hr⟩ | h
      · simp at hr
        subst hb
        rw [← hr.1]
        exact hp q r rfl hne
      · exact hl a b h
  · exact absurd h (not_adj_short (by simp))

/-- what holds of the limiter's state after the points `done` (a prefix of `pts`) have been fed -/
structure SegInv (pts done : List P) (s : LState P) : Prop where
  lo : ∀ q, s.lastOutside = some q → done.getLast? = some q
  hd : ∀ l, s.ptList = some l → ∃ x r, l = x :: r ∧ done.getLast? = some x
  openOk : ∀ l, s.ptList = some l → ∀ a b, Adj l b a → Adj pts a b
  secsOk : ∀ sec ∈ s.sections, ∀ a b, Adj sec a b → Adj pts a b

/-- the list `startSection` leaves open -/
def startList (s : LState P) : List P :=
  match s.lastOutside with
  | some q => pushNR (s.ptList.getD []) q
  | none => s.ptList.getD []

theorem addPoint_eq (s : LState P) (p : P) :
    addPoint s p = { s with ptList := some (pushNR (startList s) p), lastOutside := none } := rfl

theorem startList_ok {pts done : List P} {s : LState P} (h : SegInv pts done s) :
    (∀ a b, Adj (startList s) b a → Adj pts a b) ∧ (∀ x r, startList s = x :: r → done.getLast? = some x) := by
  have h0 : (∀ a b, Adj (s.ptList.getD []) b a → Adj pts a b) ∧ (∀ x r, s.ptList.getD [] = x :: r → done.getLast? = some x) := by
    cases hpl : s.ptList with
    | none => exact ⟨fun a b hab => absurd hab (not_adj_short (by simp)), fun x r hx => by simp at hx⟩
    | some l =>
      refine ⟨fun a b hab => h.openOk l hpl a b (by simpa using hab), fun x r hx => ?_⟩
      obtain ⟨x', r', hl, hx'⟩ := h.hd l hpl
      simp [hl] at hx
      rw [← hx.1]; exact hx'
  unfold startList
  cases hlo : s.lastOutside with
  | none => exact h0
  | some q =>
    have hq := h.lo q hlo
    refine ⟨pushNR_adj pts _ q h0.1 (fun x r hx hne => ?_), fun x r hx => ?_⟩
    · have := h0.2 x r hx
      rw [hq] at this
      exact absurd (Option.some.inj this).symm hne
    · obtain ⟨r', hr'⟩ := pushNR_head (s.ptList.getD []) q
      have hx' : pushNR (s.ptList.getD []) q = x :: r := hx
      rw [hr'] at hx'
      simp at hx'
      rw [← hx'.1]; exact hq

theorem addPoint_inv {pts done done' : List P} {s : LState P} {p : P} (h : SegInv pts done s)
    (hlast : done'.getLast? = some p) (hadj : ∀ x, done.getLast? = some x → x ≠ p → Adj pts x p) :
    SegInv pts done' (addPoint s p) := by
  obtain ⟨k1, k2⟩ := startList_ok h
  rw [addPoint_eq]
  refine ⟨by intro q hq; simp at hq, ?_, ?_, h.secsOk⟩
  · intro l hl
    simp only [Option.some.injEq] at hl
    obtain ⟨r, hr⟩ := pushNR_head (startList s) p
    exact ⟨p, r, by rw [← hl]; exact hr, hlast⟩
  · intro l hl
    simp only [Option.some.injEq] at hl
    subst hl
    exact pushNR_adj pts _ p k1 (fun x r hx hne => hadj x (k2 x r hx) hne)

theorem finishSection_secsOk {pts done : List P} {s : LState P} (h : SegInv pts done s) :
    ∀ sec ∈ (finishSection s).sections, ∀ a b, Adj sec a b → Adj pts a b := by
  unfold finishSection
  cases hpl : s.ptList with
  | none => exact h.secsOk
  | some l =>
    intro sec hsec a b hab
    simp only [List.mem_cons] at hsec
    rcases hsec with hsec | hsec
    · subst hsec
      have hab := adj_reverse hab
      cases hlo : s.lastOutside with
      | none => simp [hlo] at hab; exact h.openOk l hpl a b hab
      | some q =>
        simp [hlo] at hab
        obtain ⟨x, r, hl, hx⟩ := h.hd l hpl
        have hq := h.lo q hlo
        refine pushNR_adj pts l q (h.openOk l hpl) (fun x' r' hx' hne => ?_) a b hab
        rw [hl] at hx'; simp at hx'
        rw [hq] at hx
        exact absurd ((Option.some.inj hx).trans hx'.1).symm hne
    · exact h.secsOk sec hsec a b hab

theorem getLast?_snoc (l : List P) (p : P) : (l ++ [p]).getLast? = some p := by simp

theorem step_inv {pts done rest : List P} {s : LState P} {p : P} (hp : pts = done ++ p :: rest) (h : SegInv pts done s) :
    SegInv pts (done ++ [p]) (step inside segMeets s p) := by
  have K : ∀ x, done.getLast? = some x → x ≠ p → Adj pts x p := by
    intro x hx _
    obtain ⟨d', hd'⟩ : ∃ d', done = d' ++ [x] := List.getLast?_eq_some_iff.mp hx
    exact ⟨d', rest, by rw [hp, hd']; simp⟩
  unfold step
  split
  · exact addPoint_inv h (getLast?_snoc _ _) K
  · unfold addOutside
    split
    · -- finishSection, then lastOutside := p
      refine ⟨by intro q hq; simp at hq; subst hq; exact getLast?_snoc _ _, ?_, ?_, finishSection_secsOk h⟩
      · intro l hl; simp [finishSection_ptList] at hl
      · intro l hl; simp [finishSection_ptList] at hl
    · have h1 : SegInv pts done (match s.lastOutside with | some q => addPoint s q | none => s) := by
        cases hlo : s.lastOutside with
        | none => exact h
        | some q => exact addPoint_inv h (h.lo q hlo) (fun x hx hne => absurd (Option.some.inj ((h.lo q hlo).symm.trans hx)).symm hne)
      have h2 := addPoint_inv (done' := done ++ [p]) (p := p) h1 (getLast?_snoc _ _) K
      exact ⟨by intro q hq; simp at hq; subst hq; exact getLast?_snoc _ _, h2.hd, h2.openOk, h2.secsOk⟩

theorem foldl_inv {pts : List P} (rest done : List P) (s : LState P) (hp : pts = done ++ rest) (h : SegInv pts done s) :
    SegInv pts pts (rest.foldl (step inside segMeets) s) := by
  induction rest generalizing done s with
  | nil => simp at hp; subst hp; exact h
  | cons p r ih =>
    simp only [List.foldl_cons]
    exact ih (done ++ [p]) _ (by rw [hp]; simp) (step_inv inside segMeets hp h)

/-- **no foreign segment**: every segment of every section returned for a line joins two CONSECUTIVE vertices of that line —
nothing that is not linework of the input reaches the noder -/
theorem limit_segments_from_input (pts : List P) (sec : List P) (hsec : sec ∈ limit inside segMeets pts) (a b : P)
    (h : Adj sec a b) : Adj pts a b := by
  have h0 : SegInv pts [] (⟨none, none, []⟩ : LState P) :=
    ⟨by intro q hq; simp at hq, by intro l hl; simp at hl, by intro l hl; simp at hl, by intro sec hs; simp at hs⟩
  have hinv := foldl_inv inside segMeets pts [] _ (by simp) h0
  unfold limit runObj at hsec
  rw [List.mem_reverse] at hsec
  exact finishSection_secsOk hinv sec hsec a b h

end Segs

/-! ### nothing that matters is dropped -/
section Keep
set_option linter.unusedSectionVars false
variable {P : Type} [DecidableEq P] (inside : P → Bool) (segMeets : P → P → Bool)

theorem adj_cons_of_adj {l : List P} {u v : P} (x : P) (h : Adj l u v) : Adj (x :: l) u v := by
  obtain ⟨l1, l2, h⟩ := h
  exact ⟨x :: l1, l2, by rw [h]; rfl⟩

theorem adj_pushNR_of_adj {l : List P} {u v : P} (p : P) (h : Adj l u v) : Adj (pushNR l p) u v := by
  unfold pushNR
  split
  · split
    · exact h
    · exact adj_cons_of_adj _ h
  · exact absurd h (not_adj_short (by simp))

theorem adj_reverse_of_adj {l : List P} {a b : P} (h : Adj l b a) : Adj l.reverse a b := by
  obtain ⟨l1, l2, h⟩ := h
  exact ⟨l2.reverse, l1.reverse, by rw [h]; simp⟩

/-- the segment a → b is in the open section or in a finished one -/
def KeptSeg (a b : P) (s : LState P) : Prop :=
  (∃ l, s.ptList = some l ∧ Adj l b a) ∨ (∃ sec ∈ s.sections, Adj sec a b)

theorem addPoint_keptSeg_mono {s : LState P} {a b : P} (p : P) (h : KeptSeg a b s) : KeptSeg a b (addPoint s p) := by
  rw [addPoint_eq]
  rcases h with ⟨l, hl, hab⟩ | h
  · refine Or.inl ⟨_, rfl, adj_pushNR_of_adj _ ?_⟩
    unfold startList
    cases hlo : s.lastOutside with
    | none => simp [hl]; exact hab
    | some q => simp [hl]; exact adj_pushNR_of_adj _ hab
  · exact Or.inr h

theorem finishSection_keptSeg_mono {s : LState P} {a b : P} (h : KeptSeg a b s) : KeptSeg a b (finishSection s) := by
  unfold finishSection
  rcases h with ⟨l, hl, hab⟩ | ⟨sec, hsec, hab⟩
  · rw [hl]
    refine Or.inr ⟨_, List.mem_cons_self, adj_reverse_of_adj ?_⟩
    cases hlo : s.lastOutside with
    | none => exact hab
    | some q => exact adj_pushNR_of_adj _ hab
  · cases hpl : s.ptList with
    | none => exact Or.inr ⟨sec, hsec, hab⟩
    | some l => exact Or.inr ⟨sec, List.mem_cons_of_mem _ hsec, hab⟩

theorem addOutside_keptSeg_mono {s : LState P} {a b : P} (p : P) (h : KeptSeg a b s) : KeptSeg a b (addOutside segMeets s p) := by
  unfold addOutside
  have key : ∀ s' : LState P, KeptSeg a b s' → KeptSeg a b { s' with lastOutside := some p } := fun s' h => h
  apply key
  split
  · exact finishSection_keptSeg_mono h
  · apply addPoint_keptSeg_mono
    cases hlo : s.lastOutside with
    | none => exact h
    | some o => exact addPoint_keptSeg_mono _ h

theorem step_keptSeg_mono {s : LState P} {a b : P} (p : P) (h : KeptSeg a b s) : KeptSeg a b (step inside segMeets s p) := by
  unfold step
  split
  · exact addPoint_keptSeg_mono _ h
  · exact addOutside_keptSeg_mono segMeets _ h

theorem foldl_keptSeg_mono (l : List P) {s : LState P} {a b : P} (h : KeptSeg a b s) :
    KeptSeg a b (l.foldl (step inside segMeets) s) := by
  induction l generalizing s with
  | nil => exact h
  | cons p r ih => exact ih (step_keptSeg_mono inside segMeets p h)

/-- after feeding `done`: an inside last point leaves the section open (and `lastOutside` clear), an outside one is
remembered in `lastOutside` -/
def LastInv (done : List P) (s : LState P) : Prop :=
  ∀ x, done.getLast? = some x →
    (inside x = true → s.ptList.isSome = true ∧ s.lastOutside = none) ∧ (inside x = false → s.lastOutside = some x)

theorem step_lastInv (done : List P) (s : LState P) (p : P) : LastInv inside (done ++ [p]) (step inside segMeets s p) := by
  intro x hx
  simp at hx
  subst hx
  unfold step
  by_cases hin : inside p = true
  · simp [hin, addPoint_eq]
  · simp [hin, addOutside]

/-- `addPoint s b` when the previous point `a` is the head of the open list or is `lastOutside` puts a → b into the list -/
theorem addPoint_new_seg {pts done : List P} {s : LState P} {a b : P} (h : SegInv pts done s) (hlast : done.getLast? = some a)
    (hne : a ≠ b) (hopen : s.ptList.isSome = true ∨ s.lastOutside = some a) : KeptSeg a b (addPoint s b) := by
  rw [addPoint_eq]
  refine Or.inl ⟨_, rfl, ?_⟩
  -- the list after startSection starts with a
  have hstart : ∃ r, startList s = a :: r := by
    unfold startList
    cases hlo : s.lastOutside with
    | some q =>
      have := h.lo q hlo
      rw [hlast] at this
      obtain ⟨r, hr⟩ := pushNR_head (s.ptList.getD []) q
      exact ⟨r, by simp only []; rw [hr, Option.some.inj this]⟩
    | none =>
      rcases hopen with ho | ho
      · cases hpl : s.ptList with
        | none => simp [hpl] at ho
        | some l =>
          obtain ⟨x, r, hl, hx⟩ := h.hd l hpl
          rw [hlast] at hx
          exact ⟨r, by simp [hl, Option.some.inj hx]⟩
      · rw [hlo] at ho; cases ho
  obtain ⟨r, hr⟩ := hstart
  rw [hr]
  unfold pushNR
  simp only [hne, if_false]
  exact ⟨[], r, rfl⟩

/-- the generalised fold invariant: after any prefix -/
theorem foldl_inv_prefix {pts : List P} (rest done more : List P) (s : LState P) (hp : pts = done ++ rest ++ more)
    (h : SegInv pts done s) : SegInv pts (done ++ rest) (rest.foldl (step inside segMeets) s) := by
  induction rest generalizing done s with
  | nil => simpa using h
  | cons p r ih =>
    simp only [List.foldl_cons]
    have := ih (done ++ [p]) _ (by rw [hp]; simp) (step_inv inside segMeets (rest := r ++ more) (by rw [hp]; simp) h)
    simpa using this

theorem foldl_lastInv (d : List P) (p : P) (s : LState P) :
    LastInv inside (d ++ [p]) ((d ++ [p]).foldl (step inside segMeets) s) := by
  rw [List.foldl_append]
  exact step_lastInv inside segMeets d _ p

/-- **nothing that matters is dropped**: a segment a → b of the line (a ≠ b) with an end point inside the envelope, or
whose own envelope meets it, is a segment of some section -/
theorem limit_keeps_meeting_segments (pts : List P) (a b : P) (hab : Adj pts a b) (hne : a ≠ b)
    (hm : inside a = true ∨ inside b = true ∨ segMeets a b = true) : ∃ sec ∈ limit inside segMeets pts, Adj sec a b := by
  obtain ⟨d, r, hp⟩ := hab
  have h0 : SegInv pts [] (⟨none, none, []⟩ : LState P) :=
    ⟨by intro q hq; simp at hq, by intro l hl; simp at hl, by intro l hl; simp at hl, by intro sec hs; simp at hs⟩
  -- the state after d ++ [a]
  have hA := foldl_inv_prefix inside segMeets (d ++ [a]) [] (b :: r) _ (by rw [hp]; simp) h0
  have hL := foldl_lastInv inside segMeets d a ⟨none, none, []⟩
  simp only [List.nil_append] at hA
  have hlast : (d ++ [a]).getLast? = some a := by simp
  obtain ⟨hLin, hLout⟩ := hL a hlast
  -- feeding b
  have hb : KeptSeg a b (step inside segMeets ((d ++ [a]).foldl (step inside segMeets) ⟨none, none, []⟩) b) := by
    generalize (d ++ [a]).foldl (step inside segMeets) ⟨none, none, []⟩ = s at hA hLin hLout
    have hopen : s.ptList.isSome = true ∨ s.lastOutside = some a := by
      by_cases hia : inside a = true
      · exact Or.inl (hLin hia).1
      · exact Or.inr (hLout (by simpa using hia))
    unfold step
    by_cases hib : inside b = true
    · rw [if_pos hib]; exact addPoint_new_seg hA hlast hne hopen
    · rw [if_neg hib]
      unfold addOutside
      have key : ∀ s' : LState P, KeptSeg a b s' → KeptSeg a b { s' with lastOutside := some b } := fun s' h => h
      apply key
      have hseg : isLastSegmentIntersecting segMeets s b = true := by
        unfold isLastSegmentIntersecting
        by_cases hia : inside a = true
        · rw [(hLin hia).2]
          exact (hLin hia).1
        · have hlo := hLout (by simpa using hia)
          rw [hlo]
          rcases hm with h | h | h
          · exact absurd h hia
          · exact absurd h hib
          · exact h
      rw [hseg]
      simp only [Bool.not_true, Bool.false_eq_true, if_false]
      cases hlo : s.lastOutside with
      | none =>
        simp only []
        refine addPoint_new_seg hA hlast hne (Or.inl ?_)
        rcases hopen with h | h
        · exact h
        · rw [hlo] at h; cases h
      | some q =>
        have := hA.lo q hlo
        rw [hlast] at this
        have hq : q = a := (Option.some.inj this).symm
        subst hq
        simp only []
        have h1 : SegInv pts (d ++ [q]) (addPoint s q) :=
          addPoint_inv hA hlast (fun x hx hne' => absurd (Option.some.inj (hlast.symm.trans hx)).symm hne')
        exact addPoint_new_seg h1 hlast hne (Or.inl (by simp [addPoint_eq]))
  have hend := finishSection_keptSeg_mono (foldl_keptSeg_mono inside segMeets r hb)
  have hfold : pts.foldl (step inside segMeets) ⟨none, none, []⟩ =
      r.foldl (step inside segMeets) (step inside segMeets ((d ++ [a]).foldl (step inside segMeets) ⟨none, none, []⟩) b) := by
    rw [hp]; simp [List.foldl_append]
  rcases hend with ⟨l, hl, _⟩ | ⟨sec, hsec, h⟩
  · rw [finishSection_ptList] at hl; cases hl
  · exact ⟨sec, by unfold limit runObj; rw [List.mem_reverse, hfold]; exact hsec, h⟩

end Keep

/-- a one-dimensional "envelope" [0, 10]: enough to exhibit the state that survives a run -/
def in10 (p : Nat) : Bool := decide (p ≤ 10)
def seg10 (q p : Nat) : Bool := decide (min q p ≤ 10)

/-- a run CAN end with `lastOutside` set: `finishSection` returns early when the section was already closed
(line ending with two vertices outside the envelope) -/
theorem finish_can_leave_lastOutside : (runObj in10 seg10 ⟨none, none, []⟩ [5, 20, 30]).lastOutside = some 30 := by decide

/-- … and without the reset the next line's first section starts with that vertex of the PREVIOUS line -/
theorem noReset_invents_vertex :
    let s := runObj in10 seg10 ⟨none, none, []⟩ [5, 20, 30]
    (runObjNoReset in10 seg10 s [7, 8]).sections = [[30, 7, 8]] ∧ (runObj in10 seg10 s [7, 8]).sections = [[7, 8]] := by decide

example : limit in10 seg10 [5, 20, 30, 4, 4, 12] = [[5, 20], [30, 4, 12]] := by decide

/-! ## RobustClipEnvelopeComputer -/

/-- `a` lies inside `b` -/
def Box.le (a b : Box) : Prop := b.minx ≤ a.minx ∧ a.maxx ≤ b.maxx ∧ b.miny ≤ a.miny ∧ a.maxy ≤ b.maxy

theorem Box.le_refl (a : Box) : Box.le a a := ⟨Int.le_refl _, Int.le_refl _, Int.le_refl _, Int.le_refl _⟩
theorem Box.le_trans {a b c : Box} (h1 : Box.le a b) (h2 : Box.le b c) : Box.le a c := by
  unfold Box.le at *; omega

theorem expandPt_le (b : Box) (p : Pt) : Box.le b (expandPt b p) := by
  unfold Box.le expandPt
  refine ⟨?_, ?_, ?_, ?_⟩ <;> dsimp only <;> split <;> omega

theorem expandPt_has (b : Box) (p : Pt) : boxHasPt (expandPt b p) p = true := by
  unfold boxHasPt expandPt
  simp only [Bool.and_eq_true, decide_eq_true_eq]
  refine ⟨⟨⟨?_, ?_⟩, ?_⟩, ?_⟩ <;> split <;> omega

theorem boxHasPt_mono {a b : Box} (h : Box.le a b) {p : Pt} (hp : boxHasPt a p = true) : boxHasPt b p = true := by
  unfold boxHasPt at *
  unfold Box.le at h
  simp only [Bool.and_eq_true, decide_eq_true_eq] at *
  omega

theorem addSegment_le (t c : Box) (pq : Pt × Pt) : Box.le c (addSegment t c pq) := by
  unfold addSegment
  split
  · exact Box.le_trans (expandPt_le _ _) (expandPt_le _ _)
  · exact Box.le_refl _

/-- a fold of growing steps grows -/
theorem foldl_le {α : Type} (f : Box → α → Box) (hf : ∀ c x, Box.le c (f c x)) (l : List α) (c : Box) :
    Box.le c (l.foldl f c) := by
  induction l generalizing c with
  | nil => exact Box.le_refl _
  | cons x r ih => exact Box.le_trans (hf c x) (ih _)

/-- what one step establishes for its element stays true to the end -/
theorem foldl_established {α : Type} (f : Box → α → Box) (hf : ∀ c x, Box.le c (f c x)) (Q : α → Box → Prop)
    (hQ : ∀ c x, Q x (f c x)) (hmono : ∀ x a b, Box.le a b → Q x a → Q x b) (l : List α) (c : Box) (x : α) (hx : x ∈ l) :
    Q x (l.foldl f c) := by
  induction l generalizing c with
  | nil => simp at hx
  | cons y r ih =>
    rcases List.mem_cons.mp hx with h | h
    · subst h
      exact hmono _ _ _ (foldl_le f hf r _) (hQ c x)
    · exact ih _ h

theorem addRing_le (t c : Box) (ring : List Pt) : Box.le c (addRing t c ring) := foldl_le _ (addSegment_le t) _ _
theorem addPolygon_le (t c : Box) (poly : List (List Pt)) : Box.le c (addPolygon t c poly) := foldl_le _ (addRing_le t) _ _

/-- the clip envelope covers the target envelope -/
theorem robustClipEnv_covers_target (t : Box) (a b : List (List (List Pt))) : Box.le t (robustClipEnv t a b) :=
  Box.le_trans (foldl_le _ (addPolygon_le t) a t) (foldl_le _ (addPolygon_le t) b _)

/-- both end points of the segment are in the box -/
def Protected (t : Box) (pq : Pt × Pt) (c : Box) : Prop :=
  boxMeetsSeg t pq.1 pq.2 = true → boxHasPt c pq.1 = true ∧ boxHasPt c pq.2 = true

theorem Protected_mono (t : Box) (pq : Pt × Pt) (a b : Box) (h : Box.le a b) (hp : Protected t pq a) : Protected t pq b :=
  fun hm => ⟨boxHasPt_mono h (hp hm).1, boxHasPt_mono h (hp hm).2⟩

theorem addSegment_protects (t c : Box) (pq : Pt × Pt) : Protected t pq (addSegment t c pq) := by
  intro hm
  unfold addSegment
  rw [if_pos hm]
  exact ⟨boxHasPt_mono (expandPt_le _ _) (expandPt_has _ _), expandPt_has _ _⟩

theorem addRing_protects (t c : Box) (ring : List Pt) (pq : Pt × Pt) (h : pq ∈ pairs ring) : Protected t pq (addRing t c ring) :=
  foldl_established _ (addSegment_le t) (Protected t) (addSegment_protects t) (Protected_mono t) _ c pq h

theorem addPolygon_protects (t c : Box) (poly : List (List Pt)) (ring : List Pt) (hr : ring ∈ poly) (pq : Pt × Pt)
    (h : pq ∈ pairs ring) : Protected t pq (addPolygon t c poly) :=
  foldl_established _ (addRing_le t) (fun ring c => Protected t pq c ∨ pq ∉ pairs ring)
    (fun c ring => by
      by_cases hin : pq ∈ pairs ring
      · exact Or.inl (addRing_protects t c ring pq hin)
      · exact Or.inr hin)
    (fun ring a b hab hq => hq.imp (Protected_mono t pq a b hab) id) poly c ring hr |>.resolve_right (fun hn => hn h)

/-- **every segment that matters is kept whole**: for every polygon of either operand, every ring of it — the shell and
every HOLE — and every segment of that ring whose envelope meets the target envelope, both end points lie in the clip
envelope (so neither `RingClipper` nor `LineLimiter` cuts it) -/
theorem robustClipEnv_protects (t : Box) (a b : List (List (List Pt))) (poly : List (List Pt)) (hp : poly ∈ a ++ b)
    (ring : List Pt) (hr : ring ∈ poly) (pq : Pt × Pt) (hs : pq ∈ pairs ring) (hm : boxMeetsSeg t pq.1 pq.2 = true) :
    boxHasPt (robustClipEnv t a b) pq.1 = true ∧ boxHasPt (robustClipEnv t a b) pq.2 = true := by
  have est : ∀ (l : List (List (List Pt))) (c : Box), poly ∈ l → Protected t pq (l.foldl (addPolygon t) c) := by
    intro l c hl
    exact foldl_established _ (addPolygon_le t) (fun poly c => Protected t pq c ∨ ¬ (∃ ring ∈ poly, pq ∈ pairs ring))
      (fun c poly => by
        by_cases hin : ∃ ring ∈ poly, pq ∈ pairs ring
        · obtain ⟨ring, hr, hq⟩ := hin
          exact Or.inl (addPolygon_protects t c poly ring hr pq hq)
        · exact Or.inr hin)
      (fun poly a b hab hq => hq.imp (Protected_mono t pq a b hab) id) l c poly hl |>.resolve_right
        (fun hn => hn ⟨ring, hr, hs⟩)
  unfold robustClipEnv
  rcases List.mem_append.mp hp with h | h
  · exact Protected_mono t pq _ _ (foldl_le _ (addPolygon_le t) b _) (est a t h) hm
  · exact est b _ h hm

/-- non-vacuity: a hole edge that crosses the target box widens the clip envelope -/
example : robustClipEnv ⟨4, 6, 4, 6⟩ [[[⟨0,0⟩, ⟨20,0⟩, ⟨20,20⟩, ⟨0,20⟩, ⟨0,0⟩], [⟨2,2⟩, ⟨2,9⟩, ⟨9,2⟩, ⟨2,2⟩]]] [] = ⟨2, 9, 2, 9⟩ := by decide

/-! ## RingClipper -/
section Clipper
variable {P : Type} (inEdge : P → Bool) (ix : P → P → P)

theorem clipLoop_all_inside (pts : List P) (p0 : P) (acc : List P) (h0 : inEdge p0 = true) (h : ∀ p ∈ pts, inEdge p = true) :
    clipLoop inEdge ix p0 pts acc = pts.reverse ++ acc := by
  induction pts generalizing p0 acc with
  | nil => rfl
  | cons p r ih =>
    have hp : inEdge p = true := h p (by simp)
    simp only [clipLoop, hp, h0, if_true, Bool.not_true, Bool.false_eq_true, if_false]
    rw [ih p (p :: acc) hp (fun q hq => h q (List.mem_cons_of_mem _ hq))]
    simp

/-- a point list wholly inside the half plane of a box edge passes unchanged -/
theorem clipToBoxEdgeOpen_all_inside (pts : List P) (h : ∀ p ∈ pts, inEdge p = true) :
    clipToBoxEdgeOpen inEdge ix pts = pts := by
  unfold clipToBoxEdgeOpen
  cases hl : pts.getLast? with
  | none => simp [List.getLast?_eq_none_iff] at hl; simp [hl]
  | some last =>
    have hm : last ∈ pts := List.mem_of_getLast? hl
    show (clipLoop inEdge ix last pts []).reverse = pts
    rw [clipLoop_all_inside inEdge ix pts last [] (h last hm) h]
    simp

/-- every emitted point is an input point inside the half plane, or the crossing point of a segment whose end points lie
on different sides -/
theorem clipLoop_mem (pts : List P) (p0 : P) (acc : List P) (q : P) (hq : q ∈ clipLoop inEdge ix p0 pts acc) :
    q ∈ acc ∨ (q ∈ pts ∧ inEdge q = true) ∨ ∃ a b, inEdge a ≠ inEdge b ∧ q = ix a b := by
  induction pts generalizing p0 acc with
  | nil => exact Or.inl hq
  | cons p r ih =>
    simp only [clipLoop] at hq
    rcases ih _ _ hq with h | ⟨h, hi⟩ | h
    · by_cases hp : inEdge p = true
      · by_cases h0 : inEdge p0 = true
        · simp [hp, h0] at h
          rcases h with h | h
          · subst h; exact Or.inr (Or.inl ⟨by simp, hp⟩)
          · exact Or.inl h
        · simp [hp, h0] at h
          rcases h with h | h | h
          · subst h; exact Or.inr (Or.inl ⟨by simp, hp⟩)
          · exact Or.inr (Or.inr ⟨p0, p, by simp [hp, h0], h⟩)
          · exact Or.inl h
      · by_cases h0 : inEdge p0 = true
        · simp [hp, h0] at h
          rcases h with h | h
          · exact Or.inr (Or.inr ⟨p0, p, by simp [hp, h0], h⟩)
          · exact Or.inl h
        · simp [hp, h0] at h
          exact Or.inl h
    · exact Or.inr (Or.inl ⟨List.mem_cons_of_mem _ h, hi⟩)
    · exact Or.inr (Or.inr h)

end Clipper

/-! ## EdgeNodingBuilder -/

/-- canonical orientation (shell clockwise, hole counter-clockwise) has depth delta 1, the opposite one −1 -/
theorem depthDelta_canonical :
    depthDelta false false = 1 ∧ depthDelta true true = 1 ∧ depthDelta true false = -1 ∧ depthDelta false true = -1 := by decide

theorem depthDelta_flip (c h : Bool) : depthDelta (!c) h = - depthDelta c h := by cases c <;> cases h <;> decide

/-- exact crossing points for segments whose crossing with the edge's line is a lattice point (integer division is exact then) -/
def ixInt (b : Box) (k : Nat) (p q : Pt) : Pt :=
  if k == 0 then ⟨p.x + (b.miny - p.y) * (q.x - p.x) / (q.y - p.y), b.miny⟩
  else if k == 1 then ⟨b.maxx, p.y + (b.maxx - p.x) * (q.y - p.y) / (q.x - p.x)⟩
  else if k == 2 then ⟨p.x + (b.maxy - p.y) * (q.x - p.x) / (q.y - p.y), b.maxy⟩
  else ⟨b.minx, p.y + (b.minx - p.x) * (q.y - p.y) / (q.x - p.x)⟩

/-- a thick "C" (outer square, cavity joined to the outside by a channel on the left) with a tab growing into the cavity
from its right wall; counter-clockwise -/
def cRing : List Pt :=
  [⟨0,0⟩, ⟨100,0⟩, ⟨100,100⟩, ⟨0,100⟩, ⟨0,55⟩, ⟨10,55⟩, ⟨10,90⟩, ⟨90,90⟩, ⟨90,65⟩, ⟨70,65⟩, ⟨50,65⟩, ⟨50,60⟩, ⟨70,60⟩,
   ⟨90,60⟩, ⟨90,10⟩, ⟨10,10⟩, ⟨10,45⟩, ⟨0,45⟩, ⟨0,0⟩]
/-- a clip box inside the cavity, around the end of the tab -/
def cBox : Box := ⟨36, 72, 51, 74⟩

/-- **why the depth delta is computed from the original ring**: the ring is counter-clockwise (positive area), its
clipped point list runs along the top edge of the box and back, and `Orientation::isCCW` calls it clockwise -/
theorem clipped_ring_orientation_differs :
    CCW.isCCW cRing = true ∧ CCW.ccwSpec cRing = true ∧
    CCW.isCCW (ringClip cBox (ixInt cBox) cRing) = false ∧
    depthDelta (CCW.isCCW cRing) false ≠ depthDelta (CCW.isCCW (ringClip cBox (ixInt cBox) cRing)) false := by decide

/-! ### the clip envelope is the LEAST such box -/

theorem expandPt_least (b c : Box) (p : Pt) (h : Box.le b c) (hp : boxHasPt c p = true) : Box.le (expandPt b p) c := by
  unfold Box.le at *
  unfold boxHasPt at hp
  simp only [Bool.and_eq_true, decide_eq_true_eq] at hp
  unfold expandPt
  refine ⟨?_, ?_, ?_, ?_⟩ <;> dsimp only <;> split <;> omega

theorem foldl_least {α : Type} (f : Box → α → Box) (c : Box) (l : List α) (hf : ∀ x ∈ l, ∀ clip, Box.le clip c → Box.le (f clip x) c)
    (clip : Box) (h : Box.le clip c) : Box.le (l.foldl f clip) c := by
  induction l generalizing clip with
  | nil => exact h
  | cons x r ih =>
    exact ih (fun y hy => hf y (List.mem_cons_of_mem _ hy)) _ (hf x (by simp) clip h)

/-- **the clip envelope is exactly the hull of the target and the protected segments**: any box that covers the target and
contains the end points of every protected segment covers the clip envelope (with `robustClipEnv_covers_target` and
`robustClipEnv_protects` this characterises `RobustClipEnvelopeComputer::getEnvelope` completely) -/
theorem robustClipEnv_least (t : Box) (a b : List (List (List Pt))) (c : Box) (ht : Box.le t c)
    (hc : ∀ poly ∈ a ++ b, ∀ ring ∈ poly, ∀ pq ∈ pairs ring, boxMeetsSeg t pq.1 pq.2 = true →
      boxHasPt c pq.1 = true ∧ boxHasPt c pq.2 = true) : Box.le (robustClipEnv t a b) c := by
  have seg : ∀ pq : Pt × Pt, (boxMeetsSeg t pq.1 pq.2 = true → boxHasPt c pq.1 = true ∧ boxHasPt c pq.2 = true) →
      ∀ clip, Box.le clip c → Box.le (addSegment t clip pq) c := by
    intro pq hpq clip hclip
    unfold addSegment
    split
    · rename_i hm
      exact expandPt_least _ _ _ (expandPt_least _ _ _ hclip (hpq hm).1) (hpq hm).2
    · exact hclip
  have poly : ∀ l : List (List (List Pt)), (∀ p ∈ l, p ∈ a ++ b) → ∀ clip, Box.le clip c → Box.le (l.foldl (addPolygon t) clip) c := by
    intro l hl clip hclip
    refine foldl_least _ c l (fun p hp clip hclip => ?_) clip hclip
    refine foldl_least _ c p (fun ring hr clip hclip => ?_) clip hclip
    exact foldl_least _ c (pairs ring) (fun pq hpq clip hclip => seg pq (hc p (hl p hp) ring hr pq hpq) clip hclip) clip hclip
  unfold robustClipEnv
  exact poly b (fun p hp => List.mem_append.mpr (Or.inr hp)) _ (poly a (fun p hp => List.mem_append.mpr (Or.inl hp)) t ht)

/-! ### RingClipper: the clipped ring lies in the closed box (given what the crossing-point arithmetic must deliver) -/

/-- inside or on the line of box edge `k` -/
def closedIn (b : Box) (p : Pt) (k : Nat) : Prop :=
  if k = 0 then p.y ≥ b.miny else if k = 1 then p.x ≤ b.maxx else if k = 2 then p.y ≤ b.maxy else p.x ≥ b.minx

theorem closedIn_of_inside (b : Box) (p : Pt) (k : Nat) (h : isInsideEdge b p k = true) : closedIn b p k := by
  unfold isInsideEdge at h
  unfold closedIn
  by_cases h0 : k = 0
  · simp [h0] at h ⊢; omega
  · by_cases h1 : k = 1
    · simp [h1] at h ⊢; omega
    · by_cases h2 : k = 2
      · simp [h2] at h ⊢; omega
      · simp [h0, h1, h2] at h ⊢; omega

section
variable {P : Type} (inEdge : P → Bool) (ix : P → P → P)

/-- `clipLoop_mem` with the provenance of the crossing points: both end points are input points -/
theorem clipLoop_mem_src (pts : List P) (p0 : P) (acc : List P) (q : P) (hq : q ∈ clipLoop inEdge ix p0 pts acc) :
    q ∈ acc ∨ (q ∈ pts ∧ inEdge q = true) ∨ ∃ a b, a ∈ p0 :: pts ∧ b ∈ pts ∧ q = ix a b := by
  induction pts generalizing p0 acc with
  | nil => exact Or.inl hq
  | cons p r ih =>
    simp only [clipLoop] at hq
    rcases ih _ _ hq with h | ⟨h, hi⟩ | ⟨a, b, ha, hb, hab⟩
    · by_cases hp : inEdge p = true
      · by_cases h0 : inEdge p0 = true
        · simp [hp, h0] at h
          rcases h with h | h
          · subst h; exact Or.inr (Or.inl ⟨by simp, hp⟩)
          · exact Or.inl h
        · simp [hp, h0] at h
          rcases h with h | h | h
          · subst h; exact Or.inr (Or.inl ⟨by simp, hp⟩)
          · exact Or.inr (Or.inr ⟨p0, p, by simp, by simp, h⟩)
          · exact Or.inl h
      · by_cases h0 : inEdge p0 = true
        · simp [hp, h0] at h
          rcases h with h | h
          · exact Or.inr (Or.inr ⟨p0, p, by simp, by simp, h⟩)
          · exact Or.inl h
        · simp [hp, h0] at h
          exact Or.inl h
    · exact Or.inr (Or.inl ⟨List.mem_cons_of_mem _ h, hi⟩)
    · refine Or.inr (Or.inr ⟨a, b, ?_, List.mem_cons_of_mem _ hb, hab⟩)
      rcases List.mem_cons.mp ha with ha | ha
      · subst ha; simp
      · exact List.mem_cons_of_mem _ (List.mem_cons_of_mem _ ha)

theorem clipToBoxEdgeOpen_mem (pts : List P) (q : P) (hq : q ∈ clipToBoxEdgeOpen inEdge ix pts) :
    (q ∈ pts ∧ inEdge q = true) ∨ ∃ a b, a ∈ pts ∧ b ∈ pts ∧ q = ix a b := by
  unfold clipToBoxEdgeOpen at hq
  cases hl : pts.getLast? with
  | none => simp [hl] at hq
  | some last =>
    simp only [hl, List.mem_reverse] at hq
    have hm : last ∈ pts := List.mem_of_getLast? hl
    rcases clipLoop_mem_src inEdge ix pts last [] q hq with h | h | ⟨a, b, ha, hb, hab⟩
    · simp at h
    · exact Or.inl h
    · refine Or.inr ⟨a, b, ?_, hb, hab⟩
      rcases List.mem_cons.mp ha with ha | ha
      · subst ha; exact hm
      · exact ha
end

theorem mem_dedupAdj {P : Type} [DecidableEq P] (l : List P) (q : P) (h : q ∈ dedupAdj l) : q ∈ l := by
  induction l with
  | nil => simp [dedupAdj] at h
  | cons p r ih =>
    cases r with
    | nil => simpa [dedupAdj] using h
    | cons p2 r2 =>
      simp only [dedupAdj] at h
      split at h
      · exact List.mem_cons_of_mem _ (ih h)
      · rcases List.mem_cons.mp h with h | h
        · subst h; simp
        · exact List.mem_cons_of_mem _ (ih h)

theorem mem_closeRing {P : Type} [DecidableEq P] (l : List P) (q : P) (h : q ∈ closeRing l) : q ∈ l := by
  unfold closeRing at h
  split at h
  · split at h
    · exact h
    · rcases List.mem_append.mp h with h | h
      · exact h
      · simp at h; subst h; rename_i hl _ _; simp
  · exact h

/-- what `RingClipper::intersection` must deliver for the clipped ring to stay in the box: the crossing point lies on the
edge's line (true by construction: that ordinate is assigned), and its computed ordinate stays on the inner side of every
OTHER edge whenever both end points do (true of exact arithmetic; for binary64 it is an assumption about rounding) -/
structure IxOK (b : Box) (ix : Nat → Pt → Pt → Pt) : Prop where
  onLine : ∀ k p q, closedIn b (ix k p q) k
  keeps : ∀ k j p q, j ≠ k → closedIn b p j → closedIn b q j → closedIn b (ix k p q) j

/-- one clipping stage: the new edge's closed half plane is established, the others are kept -/
theorem stage_closedIn (b : Box) (ix : Nat → Pt → Pt → Pt) (hix : IxOK b ix) (k : Nat) (l : List Pt) (J : List Nat)
    (hJ : ∀ j ∈ J, j ≠ k ∧ ∀ p ∈ l, closedIn b p j) :
    ∀ q ∈ dedupAdj (clipToBoxEdgeOpen (fun p => isInsideEdge b p k) (ix k) l), closedIn b q k ∧ ∀ j ∈ J, closedIn b q j := by
  intro q hq
  rcases clipToBoxEdgeOpen_mem _ _ l q (mem_dedupAdj _ q hq) with ⟨hm, hin⟩ | ⟨p1, p2, h1, h2, rfl⟩
  · exact ⟨closedIn_of_inside b q k hin, fun j hj => (hJ j hj).2 q hm⟩
  · exact ⟨hix.onLine k p1 p2, fun j hj => hix.keeps k j p1 p2 (hJ j hj).1 ((hJ j hj).2 p1 h1) ((hJ j hj).2 p2 h2)⟩

/-- **the clipped ring lies in the closed clip box** -/
theorem ringClip_in_box (b : Box) (ix : Nat → Pt → Pt → Pt) (hix : IxOK b ix) (pts : List Pt) :
    ∀ q ∈ ringClip b ix pts, boxHasPt b q = true := by
  intro q hq
  have fin : ∀ q : Pt, (closedIn b q 0 ∧ closedIn b q 1 ∧ closedIn b q 2 ∧ closedIn b q 3) → boxHasPt b q = true := by
    intro q ⟨h0, h1, h2, h3⟩
    simp [closedIn] at h0 h1 h2 h3
    simp [boxHasPt]; omega
  unfold ringClip at hq
  simp only at hq
  have s0 := stage_closedIn b ix hix 0 pts [] (by simp)
  split at hq
  · rename_i he; simp [List.isEmpty_iff.mp he] at hq
  have s1 := stage_closedIn b ix hix 1 _ [0] (by
    intro j hj; simp at hj; subst hj; exact ⟨by decide, fun p hp => (s0 p hp).1⟩)
  split at hq
  · rename_i he; simp [List.isEmpty_iff.mp he] at hq
  have s2 := stage_closedIn b ix hix 2 _ [0, 1] (by
    intro j hj; simp at hj
    rcases hj with hj | hj
    · subst hj; exact ⟨by decide, fun p hp => (s1 p hp).2 0 (by simp)⟩
    · subst hj; exact ⟨by decide, fun p hp => (s1 p hp).1⟩)
  split at hq
  · rename_i he; simp [List.isEmpty_iff.mp he] at hq
  have s3 := stage_closedIn b ix hix 3 _ [0, 1, 2] (by
    intro j hj; simp at hj
    rcases hj with hj | hj | hj
    · subst hj; exact ⟨by decide, fun p hp => (s2 p hp).2 0 (by simp)⟩
    · subst hj; exact ⟨by decide, fun p hp => (s2 p hp).2 1 (by simp)⟩
    · subst hj; exact ⟨by decide, fun p hp => (s2 p hp).1⟩)
  have h := s3 q (mem_closeRing _ q hq)
  exact fin q ⟨h.2 0 (by simp), h.2 1 (by simp), h.2 2 (by simp), h.1⟩

/-- the exact crossing points satisfy the requirement on segments that cross the edge's line at a lattice point … here: the
witness ring of `clipped_ring_orientation_differs` stays in its box -/
example : (ringClip cBox (ixInt cBox) cRing).all (boxHasPt cBox) = true := by decide

/-! ### EdgeNodingBuilder: lines -/

/-- the edges produced for a line do not depend on what the limiter did before -/
theorem addLine_edges_indep (clip : Option Box) (s s' : LState Pt) (line : List Pt) :
    (addLine clip s line).1 = (addLine clip s' line).1 := by
  unfold addLine
  split
  · rfl
  · split
    · rfl
    · split <;> rfl

/-- **the lines of an operand are prepared independently of each other** (one limiter object for all of them
notwithstanding): the edges are those each line yields with a fresh limiter, in order -/
theorem addLines_eq_flatMap (clip : Option Box) (s : LState Pt) (lines : List (List Pt)) :
    addLines clip s lines = lines.flatMap (fun l => (addLine clip ⟨none, none, []⟩ l).1) := by
  induction lines generalizing s with
  | nil => rfl
  | cons l r ih =>
    simp only [addLines, List.flatMap_cons]
    rw [ih, addLine_edges_indep clip s ⟨none, none, []⟩ l]

/-- every vertex handed to the noder for a limited or unlimited line is a vertex of that line -/
theorem addLine_points_from_input (clip : Option Box) (s : LState Pt) (line : List Pt) (e : EdgeIn)
    (he : e ∈ (addLine clip s line).1) (q : Pt) (hq : q ∈ e.pts) : q ∈ line := by
  unfold addLine at he
  split at he
  · simp at he
  · split at he
    · simp at he
    · split at he
      · rename_i c _ _
        simp only [List.mem_map, List.mem_filter] at he
        obtain ⟨sec, ⟨hsec, _⟩, rfl⟩ := he
        exact limit_points_from_input (boxHasPt c) (boxMeetsSeg c) line sec (by unfold limit; exact hsec) q hq
      · simp only at he
        by_cases hlen : (dedupAdj line).length < 2
        · simp [hlen] at he
        · simp [hlen] at he
          subst he
          exact mem_dedupAdj line q hq

end GeosModel.Overlay.Clip
