import GeosModel.Model.Norm.Normalize
import GeosModel.Generated.NormCurve
import GeosModel.Proofs.CxxLoop
/-!
# C20 — the regenerated `SimpleCurve` functions are the ones normalisation is modelled with

`Generated/NormCurve.lean` (spec `norm_curve`, from `src/geom/SimpleCurve.cpp`): `SimpleCurve::isEmpty`, `isClosed`,
`compareToSameClass` and `normalize`, with their `for` loops (`*_loop` lemmas: induction over the index range with the loop
body abstract).  `gen_compareToSameClass_eq`: = `cmpSeq`; `gen_normalize_normLinePts`: = `normLinePts` (the direction test of
open curves, the dispatch to `normalizeClosed` for closed ones); `gen_isClosed_eq`: = `isClosedPts`.
The C++ compares `double`s; the regenerated code is instantiated with the integer keys `Cfg.key` of the model.
-/
namespace GeosModel.C20Gen
open GeosModel GeosModel.Norm GeosModel.Generated GeosModel.CxxLoop

/-- closes what `simp` leaves of a bridge goal: case split on the remaining `if`s, then arithmetic -/
macro "bridge_finish'" : tactic => `(tactic| all_goals ((repeat' split) <;> (try simp_all) <;> (try grind)))

/-! ## SimpleCurve -/

/-- a regenerated `CoordinateXY` over integer keys as a keyed point of the model -/
def kpOf (a : Cxx.XY Int) : KP := (a.x, a.y)
def zXY : Cxx.XY Int := ⟨0, 0⟩

theorem genc_compareToXY_eq (x y : Int) (b : Cxx.XY Int) : NormCurve.compareToXY x y b = cmpPt (x, y) (kpOf b) := by
  unfold NormCurve.compareToXY cmpPt lex cmpInt kpOf
  simp [Cxx.gt]
  bridge_finish'

theorem genc_equals2D_eq (x y : Int) (b : Cxx.XY Int) : NormCurve.equals2D x y b = decide ((x, y) = kpOf b) := by
  unfold NormCurve.equals2D kpOf
  simp [Cxx.ne]
  bridge_finish'

/-- one step of the loop of `compareToSameClass`; state = (returned value, ()) -/
def cmpStep (p q : List (Cxx.XY Int)) (i : Nat) : ForInStep (Option Int × Unit) :=
  if cmpPt (kpOf (p.getD i zXY)) (kpOf (q.getD i zXY)) = 0 then .yield (none, ())
  else .done (some (cmpPt (kpOf (p.getD i zXY)) (kpOf (q.getD i zXY))), ())

theorem compareToSameClass_loop (p q : List (Cxx.XY Int)) (F : Nat → Option Int × Unit → Id (ForInStep (Option Int × Unit)))
    (hF : ∀ i s, (F i s).run = cmpStep p q i) (n : Nat) :
    ∀ lo, lo + n ≤ p.length → lo + n ≤ q.length →
      (loopFn F (List.range' lo n) (none, ())).1 =
        if cmpPts (((p.drop lo).take n).map kpOf) (((q.drop lo).take n).map kpOf) = 0 then none
        else some (cmpPts (((p.drop lo).take n).map kpOf) (((q.drop lo).take n).map kpOf)) := by
  induction n with
  | zero => intro lo _ _; simp [loopFn, cmpPts]
  | succ n ih =>
    intro lo hp hq
    have hlp : lo < p.length := by omega
    have hlq : lo < q.length := by omega
    have hdp : (p.drop lo).take (n + 1) = p[lo] :: (p.drop (lo + 1)).take n := by
      rw [List.drop_eq_getElem_cons hlp, List.take_succ_cons]
    have hdq : (q.drop lo).take (n + 1) = q[lo] :: (q.drop (lo + 1)).take n := by
      rw [List.drop_eq_getElem_cons hlq, List.take_succ_cons]
    have hgp : p.getD lo zXY = p[lo] := by simp [List.getD, hlp]
    have hgq : q.getD lo zXY = q[lo] := by simp [List.getD, hlq]
    simp only [List.range'_succ, loopFn, hF, hdp, hdq, List.map_cons, cmpPts, cmpStep, hgp, hgq, lex]
    by_cases hc : cmpPt (kpOf p[lo]) (kpOf q[lo]) = 0
    · simp only [hc, if_true]
      exact ih (lo + 1) (by omega) (by omega)
    · simp [hc]

/-- `SimpleCurve::compareToSameClass` on keyed coordinates is `cmpSeq` (number of points first, then the points) -/
theorem gen_compareToSameClass_eq (p q : List (Cxx.XY Int)) :
    NormCurve.compareToSameClass p ⟨q⟩ = cmpSeq (p.map kpOf) (q.map kpOf) := by
  unfold NormCurve.compareToSameClass cmpSeq
  rcases Nat.lt_trichotomy p.length q.length with h | h | h
  · have hc : cmpInt (p.length : Int) q.length = -1 := by unfold cmpInt; grind
    have h1 : ¬ q.length < p.length := by omega
    have h2 : ¬ p.length = q.length := by omega
    simp [forIn_eq_loopFn, hc, lex, h, h1, h2]
  · have hc : cmpInt (p.length : Int) q.length = 0 := by unfold cmpInt; grind
    have h1 : ¬ q.length < p.length := by omega
    have h2 : ¬ p.length < q.length := by omega
    simp only [hc, lex, if_true]
    simp [forIn_eq_loopFn, h1, h2, eq_true h]
    rw [compareToSameClass_loop p q _ ?hF _ 0 (by omega) (by omega)]
    case hF => intro i s; simp [cmpStep, genc_compareToXY_eq, zXY, List.getD, kpOf]; bridge_finish'
    have e1 : (p.drop 0).take p.length = p := by simp
    have e2 : (q.drop 0).take p.length = q := by simp [h]
    rw [e1, e2]
    split <;> simp_all
  · have hc : cmpInt (p.length : Int) q.length = 1 := by unfold cmpInt; grind
    have h1 : ¬ p.length < q.length := by omega
    have h2 : ¬ p.length = q.length := by omega
    simp [forIn_eq_loopFn, hc, lex, h, h1, h2]

/-- `SimpleCurve::isEmpty` / `isClosed` on keyed coordinates -/
theorem gen_isEmpty_eq (p : List (Cxx.XY Int)) : NormCurve.isEmpty p = p.isEmpty := by
  simp [NormCurve.isEmpty]

/-- the model's loop result on mirrored pairs: the first pair that differs decides -/
def firstDiffRes (p : List (Cxx.XY Int)) : List (Cxx.XY Int × Cxx.XY Int) → Option (List (Cxx.XY Int))
  | [] => none
  | (a, b) :: r => if kpOf a = kpOf b then firstDiffRes p r else some (if 0 < cmpPt (kpOf a) (kpOf b) then p.reverse else p)

/-- `firstDiff` of the model on keyed points -/
def firstDiffXY : List (Cxx.XY Int × Cxx.XY Int) → Int
  | [] => 0
  | (a, b) :: r => if kpOf a = kpOf b then firstDiffXY r else cmpPt (kpOf a) (kpOf b)

theorem firstDiffRes_eq (p : List (Cxx.XY Int)) (l : List (Cxx.XY Int × Cxx.XY Int)) :
    (firstDiffRes p l).getD p = if firstDiffXY l > 0 then p.reverse else p := by
  induction l with
  | nil => simp [firstDiffRes, firstDiffXY]
  | cons x r ih =>
    obtain ⟨a, b⟩ := x
    by_cases h : kpOf a = kpOf b
    · simp [firstDiffRes, firstDiffXY, h, ih]
    · simp [firstDiffRes, firstDiffXY, h]

/-- one step of the loop of `SimpleCurve::normalize`; state = (returned sequence, points) -/
def normStep (p : List (Cxx.XY Int)) (i : Nat) : ForInStep (Option (List (Cxx.XY Int)) × List (Cxx.XY Int)) :=
  if kpOf (p.getD i zXY) = kpOf (p.getD (p.length - 1 - i) zXY) then .yield (none, p)
  else if 0 < cmpPt (kpOf (p.getD i zXY)) (kpOf (p.getD (p.length - 1 - i) zXY)) then .done (some p.reverse, p.reverse)
  else .done (some p, p)

theorem normalize_loop (p : List (Cxx.XY Int))
    (F : Nat → Option (List (Cxx.XY Int)) × List (Cxx.XY Int) → Id (ForInStep (Option (List (Cxx.XY Int)) × List (Cxx.XY Int))))
    (hF : ∀ i, (F i (none, p)).run = normStep p i) (n : Nat) :
    ∀ lo, lo + n ≤ p.length / 2 →
      (loopFn F (List.range' lo n) (none, p)).1 = firstDiffRes p (((p.zip p.reverse).drop lo).take n) ∧
      ((loopFn F (List.range' lo n) (none, p)).1 = none → (loopFn F (List.range' lo n) (none, p)).2 = p) := by
  induction n with
  | zero => intro lo _; simp [loopFn, firstDiffRes]
  | succ n ih =>
    intro lo hlo
    have hl1 : lo < p.length := by omega
    have hl2 : p.length - 1 - lo < p.length := by omega
    have hz : lo < (p.zip p.reverse).length := by simp; omega
    have hel : (p.zip p.reverse)[lo] = (p[lo], p[p.length - 1 - lo]) := by
      simp [List.getElem_zip, List.getElem_reverse]
    have hd : ((p.zip p.reverse).drop lo).take (n + 1) = (p[lo], p[p.length - 1 - lo]) :: ((p.zip p.reverse).drop (lo + 1)).take n := by
      rw [List.drop_eq_getElem_cons hz, List.take_succ_cons, hel]
    have hg1 : p.getD lo zXY = p[lo] := by simp [List.getD, hl1]
    have hg2 : p.getD (p.length - 1 - lo) zXY = p[p.length - 1 - lo] := by simp [List.getD, hl2]
    simp only [List.range'_succ, loopFn, hF, hd, firstDiffRes, normStep, hg1, hg2]
    by_cases hc : kpOf p[lo] = kpOf p[p.length - 1 - lo]
    · simp only [hc, if_true]
      exact ih (lo + 1) (by omega)
    · by_cases hc2 : 0 < cmpPt (kpOf p[lo]) (kpOf p[p.length - 1 - lo]) <;> simp [hc, hc2]

/-- **`SimpleCurve::normalize`** on keyed coordinates: an empty curve is left alone, a closed one goes to `normalizeClosed`
(`nc`, arbitrary), an open one is reversed exactly when the first differing pair of mirrored points `(pts[i], pts[n-1-i])`,
`i < n/2`, compares greater — the model's `normOpenPts` (`firstDiff` over `(l.zip l.reverse).take (l.length / 2)`). -/
theorem gen_normalize_eq (nc : List (Cxx.XY Int) → List (Cxx.XY Int)) (p : List (Cxx.XY Int)) :
    NormCurve.normalize nc p =
      if p.isEmpty then p else if NormCurve.isClosed p then nc p
      else if firstDiffXY ((p.zip p.reverse).take (p.length / 2)) > 0 then p.reverse else p := by
  unfold NormCurve.normalize
  simp [forIn_eq_loopFn, gen_isEmpty_eq]
  by_cases h0 : p = []
  · simp [h0]
  · by_cases h1 : NormCurve.isClosed p = true
    · simp [h0, h1]
    · simp only [h0, h1, if_false, Bool.false_eq_true]
      rw [← firstDiffRes_eq]
      split
      · next r hr =>
        rw [(normalize_loop p _ ?hF (p.length / 2) 0 (by omega)).1] at hr
        · simp only [List.drop_zero] at hr
          rw [hr]; rfl
        · intro i
          simp [normStep, genc_equals2D_eq, genc_compareToXY_eq, zXY, List.getD, kpOf]
          bridge_finish'
      · next hr =>
        have h2 := hr
        rw [(normalize_loop p _ ?hF3 (p.length / 2) 0 (by omega)).1] at h2
        · rw [(normalize_loop p _ ?hF2 (p.length / 2) 0 (by omega)).2 hr]
          · simp only [List.drop_zero] at h2
            rw [h2]; rfl
          · intro i
            simp [normStep, genc_equals2D_eq, genc_compareToXY_eq, zXY, List.getD, kpOf]
            bridge_finish'
        · intro i
          simp [normStep, genc_equals2D_eq, genc_compareToXY_eq, zXY, List.getD, kpOf]
          bridge_finish'

/-! ### the same, stated on the model's own vocabulary (`Cfg`, `Coord`) -/

/-- a coordinate of the model as the regenerated code sees it: its keyed X and Y -/
def toXY (c : Cfg) (a : Coord) : Cxx.XY Int := ⟨c.key a.x, c.key a.y⟩

theorem firstDiffXY_map (c : Cfg) (ps : List (Coord × Coord)) :
    firstDiffXY (ps.map (Prod.map (toXY c) (toXY c))) = firstDiff c ps := by
  induction ps with
  | nil => rfl
  | cons x r ih =>
    obtain ⟨a, b⟩ := x
    simp only [List.map_cons, Prod.map, firstDiffXY, firstDiff, eqXY, cmpXY, ih]
    by_cases h : kp c a = kp c b <;> simp [kpOf, toXY, kp] <;> simp_all [kp]

theorem gen_isClosed_eq (c : Cfg) (l : List Coord) : NormCurve.isClosed (l.map (toXY c)) = isClosedPts c l := by
  cases l with
  | nil => simp [NormCurve.isClosed, NormCurve.isEmpty, isClosedPts]
  | cons a t =>
    simp only [NormCurve.isClosed, gen_isEmpty_eq, isClosedPts, eqXY]
    have hl : (toXY c a :: List.map (toXY c) t).getLast (by simp) = toXY c ((a :: t).getLast (by simp)) := by
      have := List.getLast_map (f := toXY c) (l := a :: t) (by simp)
      simpa using this
    simp [genc_equals2D_eq, kpOf, kp, List.getLastD, hl]
    simp only [toXY]
    first | rfl | (rw [Bool.eq_iff_iff]; simp)

/-- **`SimpleCurve::normalize`**, regenerated, is the model's `normLinePts` on the keyed coordinates, for every
`normalizeClosed` that is the model's `normClosedPts` -/
theorem gen_normalize_normLinePts (c : Cfg) (nc : List (Cxx.XY Int) → List (Cxx.XY Int)) (l : List Coord)
    (hnc : nc (l.map (toXY c)) = (normClosedPts c l).map (toXY c)) :
    NormCurve.normalize nc (l.map (toXY c)) = (normLinePts c l).map (toXY c) := by
  rw [gen_normalize_eq, gen_isClosed_eq, hnc]
  unfold normLinePts normOpenPts
  have hz : ((l.map (toXY c)).zip (l.map (toXY c)).reverse).take ((l.map (toXY c)).length / 2)
      = ((l.zip l.reverse).take (l.length / 2)).map (Prod.map (toXY c) (toXY c)) := by
    rw [← List.map_reverse, List.zip_map, List.map_take, List.length_map]
  rw [hz, firstDiffXY_map]
  by_cases h0 : l.isEmpty = true
  · simp [h0]
  · by_cases h1 : isClosedPts c l = true
    · simp [h0, h1]
    · by_cases h2 : firstDiff c ((l.zip l.reverse).take (l.length / 2)) > 0 <;> simp [h0, h1, h2]
/-! non-vacuity: the regenerated code computes (keys as integers; evaluated through the bridges, `for` over a range does not
reduce in the kernel) -/
example : NormCurve.compareToSameClass (R := Int) [⟨0, 0⟩, ⟨1, 5⟩] ⟨[⟨0, 0⟩, ⟨1, 7⟩]⟩ = -1 := by
  rw [gen_compareToSameClass_eq]; decide
example : NormCurve.normalize (R := Int) (fun l => l) [⟨3, 0⟩, ⟨1, 1⟩, ⟨2, 2⟩] = [⟨2, 2⟩, ⟨1, 1⟩, ⟨3, 0⟩] := by
  rw [gen_normalize_eq]; decide
example : NormCurve.isClosed [(⟨3, 0⟩ : Cxx.XY Int), ⟨1, 1⟩, ⟨3, 0⟩] = true := by decide

end GeosModel.C20Gen
