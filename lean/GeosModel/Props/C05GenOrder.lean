import GeosModel.Proofs.Valid.RuleOrder
import GeosModel.Proofs.Valid.GenBridge
import GeosModel.Generated.ValidRuleOrder
/-!
# C05 — the regenerated `IsValidOp` follows the rule order of the model (and of the reference evaluator)

`Generated/ValidRuleOrder.lean` is rewritten from `src/operation/valid/IsValidOp.cpp` / `IsValidOp.h` by `translate/cxx2lean.py` (spec
`valid_rule_order`) on every run: `hasInvalidError`, `isValidGeometry` and the `isValid` overloads for Point, LineString, LinearRing,
Polygon, MultiPolygon, GeometryCollection.  The individual checks are abstract procedures on the error slot `validErr`, the
geometry accessors abstract functions, the geometry type ids are read from `Geometry.h`.  The theorems prove, for EVERY
interpretation of the checks and accessors, that each overload started with a clean error slot returns `runRules` of the
hand-written order of `Model/Valid/RuleOrder.lean`: the checks in that order, each from a clean slot, the first error ends the
function (`false`, that error), no error gives (`true`, clean slot); and that `isValidGeometry` resets the slot, throws for a
null pointer and for curved types, accepts every empty geometry and dispatches on the type id.
-/
set_option linter.unusedTactic false
set_option linter.unreachableTactic false
set_option linter.unusedSimpArgs false
namespace GeosModel.C05GenOrder
open GeosModel GeosModel.Valid GeosModel.Generated GeosModel.ValidGen

variable {G A E : Type}

theorem gen_hasInvalidError_eq (e : Option E) : ValidRuleOrder.hasInvalidError e = e.isSome := by
  unfold ValidRuleOrder.hasInvalidError; simp

theorem gen_isValidPoint_eq (coordsOf : G → G) (cSeq : Option E → G → Option E) (g : G) :
    ValidRuleOrder.isValidPoint coordsOf cSeq none g = runRules (pointOrder (cSeq none (coordsOf g))) := by
  unfold ValidRuleOrder.isValidPoint runRules pointOrder
  simp [gen_hasInvalidError_eq, firstErr]
  repeat' split
  all_goals first | rfl | (simp_all; done) | grind

theorem gen_isValidLineString_eq (coordsOf : G → G) (cSeq : Option E → G → Option E) (cFew : Option E → G → Nat → Option E) (g : G) :
    ValidRuleOrder.isValidLineString coordsOf cSeq cFew none g =
      runRules (lineOrder (fun _ => cSeq none (coordsOf g)) (fun _ => cFew none g 2)) := by
  unfold ValidRuleOrder.isValidLineString runRules lineOrder
  simp [gen_hasInvalidError_eq, firstErr]
  repeat' split
  all_goals first | rfl | (simp_all; done) | grind

theorem gen_isValidLinearRing_eq (coordsOf : G → G) (cSeq cClosed cSize cSimple : Option E → G → Option E) (g : G) :
    ValidRuleOrder.isValidLinearRing coordsOf cSeq cClosed cSize cSimple none g =
      runRules (ringOrder (fun _ => cSeq none (coordsOf g)) (fun _ => cClosed none g) (fun _ => cSize none g) (fun _ => cSimple none g)) := by
  unfold ValidRuleOrder.isValidLinearRing runRules ringOrder
  simp [gen_hasInvalidError_eq, firstErr]
  repeat' split
  all_goals first | rfl | (simp_all; done) | grind

theorem gen_isValidPolygon_eq (mk : G → Bool → A) (c1 c2 c3 : Option E → G → Option E) (c4 : Option E → A → Option E)
    (c5 c6 : Option E → G → Option E) (c7 : Option E → A → Option E) (flag : Bool) (g : G) :
    ValidRuleOrder.isValidPolygon mk c1 c2 c3 c4 c5 c6 c7 flag none g =
      runRules (polygonOrder (fun _ => c1 none g) (fun _ => c2 none g) (fun _ => c3 none g) (fun _ => c4 none (mk g flag))
        (fun _ => c5 none g) (fun _ => c6 none g) (fun _ => c7 none (mk g flag))) := by
  unfold ValidRuleOrder.isValidPolygon runRules polygonOrder
  simp [gen_hasInvalidError_eq, firstErr]
  repeat' split
  all_goals first | rfl | (simp_all; done) | grind


theorem gen_isValidCollection_eq (num : G → Nat) (nth : G → Nat → G) (rec : Option E → G → Bool × Option E) (g : G)
    (hrec : ∀ x, (rec none x).1 = (rec none x).2.isNone) :
    ValidRuleOrder.isValidCollection num nth rec none g = runRules (collectionOrder (num g) fun i => (rec none (nth g i)).2) := by
  unfold ValidRuleOrder.isValidCollection runRules collectionOrder
  simp [List.range_eq_range']
  rw [forIn_checks (fun i => [fun _ => (rec none (nth g i)).2]) (fun e => (false, some e))]
  · rw [Valid.flatMap_single]
    cases h : firstErr (List.map (fun i (_ : Unit) => (rec none (nth g i)).2) (List.range' 0 (num g))) <;> simp [h] <;> rfl
  · intro i
    simp [firstErr, hrec]
    generalize (rec none (nth g i)).snd = o
    cases o <;> simp <;> rfl

theorem gen_isValidMultiPolygon_eq (num : G → Nat) (nth : G → Nat → G) (mk : G → Bool → A) (c1 c2 c3 : Option E → G → Option E)
    (c4 : Option E → A → Option E) (c5 c6 cS : Option E → G → Option E) (c7 : Option E → A → Option E) (flag : Bool) (g : G) :
    ValidRuleOrder.isValidMultiPolygon num nth mk c1 c2 c3 c4 c5 c6 cS c7 flag none g =
      runRules (multiPolygonOrder (num g) (fun i => c1 none (nth g i)) (fun i => c2 none (nth g i)) (fun i => c3 none (nth g i))
        (fun _ => c4 none (mk g flag)) (fun i => c5 none (nth g i)) (fun i => c6 none (nth g i)) (fun _ => cS none g)
        (fun _ => c7 none (mk g flag))) := by
  unfold ValidRuleOrder.isValidMultiPolygon runRules multiPolygonOrder
  simp [List.range_eq_range', gen_hasInvalidError_eq]
  rw [forIn_checks (fun i => [fun _ => c1 none (nth g i), fun _ => c2 none (nth g i), fun _ => c3 none (nth g i)]) (fun e => (false, some e))]
  · cases h1 : firstErr (List.flatMap (fun i => [fun (_ : Unit) => c1 none (nth g i), fun _ => c2 none (nth g i), fun _ => c3 none (nth g i)]) (List.range' 0 (num g))) with
    | some e => simp [h1, firstErr_append]
    | none =>
      simp [h1, firstErr_append]
      cases h4 : c4 none (mk g flag) with
      | some e => simp [firstErr, h4]
      | none =>
        simp [firstErr, h4]
        rw [forIn_checks (fun i => [fun _ => c5 none (nth g i)]) (fun e => (false, some e))]
        · rw [Valid.flatMap_single]
          cases h5 : firstErr (List.map (fun i (_ : Unit) => c5 none (nth g i)) (List.range' 0 (num g))) with
          | some e => simp [h5, firstErr_append] <;> try rfl
          | none =>
            simp [h5, firstErr_append]
            rw [forIn_checks (fun i => [fun _ => c6 none (nth g i)]) (fun e => (false, some e))]
            · rw [Valid.flatMap_single]
              cases h6 : firstErr (List.map (fun i (_ : Unit) => c6 none (nth g i)) (List.range' 0 (num g))) with
              | some e => simp [h6, firstErr_append] <;> try rfl
              | none =>
                simp [h6, firstErr_append, firstErr]
                cases hS : cS none g with
                | some e => simp [hS] <;> try rfl
                | none =>
                  simp [hS]
                  cases h7 : c7 none (mk g flag) <;> simp [h7] <;> rfl
            · intro i
              simp [firstErr]
              generalize c6 none (nth g i) = o
              cases o <;> simp <;> rfl
        · intro i
          simp [firstErr]
          generalize c5 none (nth g i) = o
          cases o <;> simp <;> rfl
  · intro i
    simp [firstErr]
    generalize c1 none (nth g i) = o1
    cases o1 with
    | some e => simp <;> try rfl
    | none =>
      simp
      generalize c2 none (nth g i) = o2
      cases o2 with
      | some e => simp <;> try rfl
      | none =>
        simp
        generalize c3 none (nth g i) = o3
        cases o3 <;> simp <;> rfl

/-- `isValidGeometry`: the incoming error slot is discarded (`validErr.reset(nullptr)`); a null pointer throws; an empty geometry
is valid whatever its type; otherwise the type id selects the overload (MultiLineString and GeometryCollection share one);
curved types and unknown ids throw -/
theorem gen_isValidGeometry_eq (nonNull isEmpty : G → Bool) (typeId : G → Int) (num : G → Nat) (nth : G → Nat → G) (coordsOf : G → G)
    (mk : G → Bool → A) (cSeq cPoly : Option E → G → Option E) (cFew : Option E → G → Nat → Option E)
    (cClosed cSize cSimple cRC cRS : Option E → G → Option E) (cArea : Option E → A → Option E) (cHS cHN cSh : Option E → G → Option E)
    (cConn : Option E → A → Option E) (rec mpt : Option E → G → Bool × Option E) (flag : Bool) (e0 : Option E) (g : G) :
    ValidRuleOrder.isValidGeometry nonNull isEmpty typeId num nth coordsOf mk cSeq cPoly cFew cClosed cSize cSimple cRC cRS cArea cHS cHN cSh
        cConn rec mpt flag e0 g =
      if !nonNull g then .error "IllegalArgumentException"
      else if isEmpty g then .ok (true, none)
      else if typeId g = 0 then .ok (ValidRuleOrder.isValidPoint coordsOf cSeq none g)
      else if typeId g = 1 then .ok (ValidRuleOrder.isValidLineString coordsOf cSeq cFew none g)
      else if typeId g = 2 then .ok (ValidRuleOrder.isValidLinearRing coordsOf cSeq cClosed cSize cSimple none g)
      else if typeId g = 3 then .ok (ValidRuleOrder.isValidPolygon mk cPoly cRC cRS cArea cHS cHN cConn flag none g)
      else if typeId g = 4 then .ok (mpt none g)
      else if typeId g = 5 ∨ typeId g = 7 then .ok (ValidRuleOrder.isValidCollection num nth rec none g)
      else if typeId g = 6 then .ok (ValidRuleOrder.isValidMultiPolygon num nth mk cPoly cRC cRS cArea cHS cHN cSh cConn flag none g)
      else .error "UnsupportedOperationException" := by
  unfold ValidRuleOrder.isValidGeometry
  simp
  repeat' split
  all_goals first | rfl | omega | (simp_all; done) | grind

/-! non-vacuity: a run of the regenerated polygon sequence with concrete checks (the third check fails: the later ones are not consulted) -/
example : ValidRuleOrder.isValidPolygon (G := Nat) (A := Nat) (E := Nat) (fun g _ => g) (fun _ _ => none) (fun _ _ => none) (fun _ g => some (g + 9))
    (fun _ _ => some 5) (fun _ _ => some 2) (fun _ _ => none) (fun _ _ => some 4) false none 0 = (false, some 9) := by decide
example : ValidRuleOrder.isValidCollection (G := Nat) (E := Nat) (fun _ => 3) (fun _ i => i) (fun _ x => if x = 1 then (false, some 7) else (true, none)) none 0
    = (false, some 7) := by
  rw [gen_isValidCollection_eq _ _ _ _ (by intro x; by_cases h : x = 1 <;> simp [h])]
  decide

end GeosModel.C05GenOrder
