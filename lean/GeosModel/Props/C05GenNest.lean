import GeosModel.Proofs.Valid.NestBridge
import GeosModel.Generated.ValidRingNested
/-!
# C05 — the regenerated `PolygonTopologyAnalyzer::isRingNested` (with all helpers) is the model the CORE theorems are about

`Generated/ValidRingNested.lean` is rewritten from `src/operation/valid/PolygonTopologyAnalyzer.cpp` (and `CoordinateXY::equals2D`) by
`translate/cxx2lean.py` (spec `valid_ring_nested`) on every run: `isRingNested`, `findNonEqualVertex`, `isIncidentSegmentInRing`,
`intersectingSegIndex`, `findRingVertexPrev`, `findRingVertexNext`, `ringIndexPrev`, `ringIndexNext` — including the three `while`
loops (generated with fuel = number of ring points; running out of fuel is the exception "while: out of fuel") and the search loop.
Instantiation: coordinate sequences and rings are lists of `Kernel.Pt` (ALL of them), `PointLocation::isOnSegment / locateInRing` are
C07's models `RayCount.isOnSegment / locatePointInRing`, `Orientation::isCCWArea` and `PolygonNodeTopology::isInteriorSegment` are the
models of `Model/Valid` (the latter regenerated and bridged in `Props/C05Gen.lean`).  Each theorem states the regenerated function
as `ok` of the hand-written model of `Model/Valid/RingNested.lean`, with the exact conditions under which the C++ throws (point not
on the ring) or would not terminate (every vertex of the ring equals the node).
-/
set_option linter.unusedTactic false
set_option linter.unreachableTactic false
set_option linter.unusedSimpArgs false
namespace GeosModel.C05GenNest
open GeosModel GeosModel.Kernel GeosModel.Valid GeosModel.Generated GeosModel.ValidGen

/-- `PointLocation::isOnSegment` on regenerated coordinates (C07's model) -/
abbrev onSeg (p a b : Cxx.XY Int) : Bool := RayCount.isOnSegment (pt p) (pt a) (pt b)
/-- `PointLocation::locateInRing` on regenerated coordinates (C07's model) -/
abbrev locRing (p : Cxx.XY Int) (s : List Pt) : Loc := RayCount.locatePointInRing (pt p) s
/-- `PolygonNodeTopology::isInteriorSegment` on regenerated coordinates -/
abbrev intSeg (n a0 a1 b : Cxx.XY Int) : Bool := Valid.isInteriorSegment (pt n) (pt a0) (pt a1) (pt b)

theorem gen_equals2D_eq (a b : Pt) : ValidRingNested.equals2D a.x a.y (xy b) = (a == b) := by
  unfold ValidRingNested.equals2D
  apply Bool.eq_iff_iff.mpr
  rw [Pt.beq_iff]
  cases a; cases b
  simp [Cxx.ne]

theorem gen_ringIndexPrev_eq (ring : List Pt) (i : Nat) :
    ValidRingNested.ringIndexPrev List.length ring i = Valid.ringIndexPrev ring.length i := by
  unfold ValidRingNested.ringIndexPrev Valid.ringIndexPrev
  simp
  repeat' split
  all_goals first | rfl | omega | (simp_all; done) | grind

theorem gen_ringIndexNext_eq (ring : List Pt) (i : Nat) :
    ValidRingNested.ringIndexNext List.length ring i = Valid.ringIndexNext ring.length i := by
  unfold ValidRingNested.ringIndexNext Valid.ringIndexNext
  simp
  repeat' split
  all_goals first | rfl | omega | (simp_all; done) | grind

/-- `findRingVertexPrev`: the vertex the model finds — unless every step of the walk (as many as the ring has points) still sits on
the node, where the C++ loop would go on -/
theorem gen_findRingVertexPrev_eq (ring : List Pt) (index : Nat) (node : Pt) :
    ValidRingNested.findRingVertexPrev List.length sAt ring index (xy node) =
      if Valid.findRingVertexPrev ring index node == node then .error "while: out of fuel"
      else .ok (xy (Valid.findRingVertexPrev ring index node)) := by
  unfold ValidRingNested.findRingVertexPrev Valid.findRingVertexPrev
  simp only [gen_ringIndexPrev_eq]
  simp
  rw [forIn_while (fun s : Nat × Cxx.XY Int => pt s.2 == node) (fun s => (Valid.ringIndexPrev ring.length s.1, sAt ring (Valid.ringIndexPrev ring.length s.1)))]
  · simp only [List.length_range', while_walkPrev]
    simp [sAt, gen_equals2D_eq]
    repeat' split
    all_goals first | rfl | (simp_all; done) | grind
  · intro i s
    have : ValidRingNested.equals2D s.2.x s.2.y (xy node) = (pt s.2 == node) := gen_equals2D_eq (pt s.2) node
    simp [this]
    repeat' split
    all_goals first | rfl | (simp_all; done) | grind

theorem gen_findRingVertexNext_eq (ring : List Pt) (index : Nat) (node : Pt) :
    ValidRingNested.findRingVertexNext List.length sAt ring index (xy node) =
      if Valid.findRingVertexNext ring index node == node then .error "while: out of fuel"
      else .ok (xy (Valid.findRingVertexNext ring index node)) := by
  unfold ValidRingNested.findRingVertexNext Valid.findRingVertexNext
  simp only [gen_ringIndexNext_eq]
  simp
  rw [forIn_while (fun s : Nat × Cxx.XY Int => pt s.2 == node) (fun s => (Valid.ringIndexNext ring.length s.1, sAt ring (Valid.ringIndexNext ring.length s.1)))]
  · simp only [List.length_range', while_walkNext]
    simp [sAt, gen_equals2D_eq]
    repeat' split
    all_goals first | rfl | (simp_all; done) | grind
  · intro i s
    have : ValidRingNested.equals2D s.2.x s.2.y (xy node) = (pt s.2 == node) := gen_equals2D_eq (pt s.2) node
    simp [this]
    repeat' split
    all_goals first | rfl | (simp_all; done) | grind

/-- `intersectingSegIndex`: the model's index, and the C++ throws exactly where the model has `none` (the point is on no segment) -/
theorem gen_intersectingSegIndex_eq (ring : List Pt) (p : Pt) :
    ValidRingNested.intersectingSegIndex List.length sAt onSeg ring (xy p) =
      match Valid.intersectingSegIndex p 0 ring with
      | some i => .ok i
      | none => .error "IllegalArgumentException" := by
  unfold ValidRingNested.intersectingSegIndex
  simp
  rw [forIn_first (fun i => if RayCount.isOnSegment p (ring.getD i default) (ring.getD (i + 1) default) then
      some (if p == ring.getD (i + 1) default then i + 1 else i) else none)]
  · have h := findSome_intersectingSegIndex p ring []
    simp only [List.length_nil, List.nil_append] at h
    rw [h]
    cases Valid.intersectingSegIndex p 0 ring <;> rfl
  · intro i s
    simp [onSeg, pt_sAt, sAt, gen_equals2D_eq]
    repeat' split
    all_goals first | rfl | (simp_all; done) | grind

/-- `findNonEqualVertex` on a ring of at least two points: the model's vertex; the loop always ends within the ring -/
theorem gen_findNonEqualVertex_eq (ring : List Pt) (p : Pt) (h : 2 ≤ ring.length) :
    ValidRingNested.findNonEqualVertex sAt (fun r : List Pt => r) List.length ring (xy p) = .ok (xy (Valid.findNonEqualVertex ring p)) := by
  unfold ValidRingNested.findNonEqualVertex
  simp
  rw [forIn_while (fun s : Nat × Cxx.XY Int => (pt s.2 == p && decide (s.1 < ring.length - 1))) (fun s => (s.1 + 1, sAt ring (s.1 + 1)))]
  · simp only [List.length_range', while_walkNE]
    obtain ⟨h1, h2⟩ := findNonEqualVertex_eq_walk ring p h
    have he : ValidRingNested.equals2D (sAt ring (walkNE ring p ring.length 1)).x (sAt ring (walkNE ring p ring.length 1)).y (xy p)
        = (ring.getD (walkNE ring p ring.length 1) default == p) := gen_equals2D_eq _ p
    simp only [ok_bind, he]
    have h2' : ¬ ((ring.getD (walkNE ring p ring.length 1) default == p) = true ∧ walkNE ring p ring.length 1 < ring.length - 1) := by
      intro ⟨ha, hb⟩
      rw [ha] at h2
      simp [hb] at h2
    rw [h1] at h2'
    simp only [sAt, h1, h2', if_false]
  · intro i s
    have : ValidRingNested.equals2D s.2.x s.2.y (xy p) = (pt s.2 == p) := gen_equals2D_eq (pt s.2) p
    simp [this]
    repeat' split
    all_goals first | rfl | (simp_all; done) | grind

/-- `isIncidentSegmentInRing`: throws where the model has `none` (the point is on no segment of the ring); would not terminate when a
walk stays on the node; otherwise the model's answer -/
theorem gen_isIncidentSegmentInRing_eq (p0 p1 : Pt) (ring : List Pt) :
    ValidRingNested.isIncidentSegmentInRing List.length sAt onSeg Valid.isCCWArea intSeg (xy p0) (xy p1) ring =
      match Valid.intersectingSegIndex p0 0 ring with
      | none => .error "IllegalArgumentException"
      | some index =>
        if Valid.findRingVertexPrev ring index p0 == p0 then .error "while: out of fuel"
        else if Valid.findRingVertexNext ring index p0 == p0 then .error "while: out of fuel"
        else .ok ((Valid.isIncidentSegmentInRing p0 p1 ring).getD false) := by
  unfold ValidRingNested.isIncidentSegmentInRing Valid.isIncidentSegmentInRing Valid.cornerAt
  simp only [gen_intersectingSegIndex_eq]
  cases hi : Valid.intersectingSegIndex p0 0 ring with
  | none => simp
  | some index =>
    simp only [ok_bind, gen_findRingVertexPrev_eq]
    by_cases h1 : (Valid.findRingVertexPrev ring index p0 == p0) = true
    · simp [h1]
    · simp only [h1, if_false, Bool.false_eq_true, ok_bind, gen_findRingVertexNext_eq]
      by_cases h2 : (Valid.findRingVertexNext ring index p0 == p0) = true
      · simp [h2]
      · simp only [h2, if_false, Bool.false_eq_true, ok_bind]
        cases hc : Valid.isCCWArea ring <;> simp [intSeg]

/-- `isRingNested` for a test ring of at least two points: point location of its start vertex decides off the target ring; on it,
the regenerated `isIncidentSegmentInRing` of the first non-repeated test vertex -/
theorem gen_isRingNested_eq (test target : List Pt) (h : 2 ≤ test.length) :
    ValidRingNested.isRingNested List.length sAt (fun r : List Pt => r) List.length onSeg locRing Valid.isCCWArea intSeg test target =
      match RayCount.locatePointInRing (test.getD 0 default) target with
      | .exterior => .ok false
      | .interior => .ok true
      | .boundary => ValidRingNested.isIncidentSegmentInRing List.length sAt onSeg Valid.isCCWArea intSeg (xy (test.getD 0 default))
          (xy (Valid.findNonEqualVertex test (test.getD 0 default))) target := by
  unfold ValidRingNested.isRingNested
  have hf := gen_findNonEqualVertex_eq test (test.getD 0 default) h
  have hs : sAt test 0 = xy (test.getD 0 default) := rfl
  simp only [hs, hf, locRing, pt_xy, ok_bind]
  cases RayCount.locatePointInRing (test.getD 0 default) target <;> simp

/-- **the regenerated `isRingNested` returns the model's answer**: whenever the model answers `some b` and neither corner walk stays on
the start vertex (the target ring has a vertex different from it), the code generated from the current source returns `b` -/
theorem gen_isRingNested_ok (test target : List Pt) (h : 2 ≤ test.length) (b : Bool) (hm : Valid.isRingNested test target = some b)
    (hwalk : ∀ index, Valid.intersectingSegIndex (test.getD 0 default) 0 target = some index →
      Valid.findRingVertexPrev target index (test.getD 0 default) ≠ test.getD 0 default ∧
      Valid.findRingVertexNext target index (test.getD 0 default) ≠ test.getD 0 default) :
    ValidRingNested.isRingNested List.length sAt (fun r : List Pt => r) List.length onSeg locRing Valid.isCCWArea intSeg test target = .ok b := by
  rw [gen_isRingNested_eq test target h]
  cases test with
  | nil => simp at h
  | cons p0 rest =>
    simp only [Valid.isRingNested] at hm
    simp only [List.getD_cons_zero] at hwalk ⊢
    cases hl : RayCount.locatePointInRing p0 target with
    | exterior => rw [hl] at hm; simp at hm; simp [hm]
    | interior => rw [hl] at hm; simp at hm; simp [hm]
    | boundary =>
      rw [hl] at hm
      simp only at hm ⊢
      rw [gen_isIncidentSegmentInRing_eq]
      cases hi : Valid.intersectingSegIndex p0 0 target with
      | none => simp [Valid.isIncidentSegmentInRing, Valid.cornerAt, hi] at hm
      | some index =>
        obtain ⟨w1, w2⟩ := hwalk index hi
        have w1' : (Valid.findRingVertexPrev target index p0 == p0) = false := by simpa using w1
        have w2' : (Valid.findRingVertexNext target index p0 == p0) = false := by simpa using w2
        simp [w1', w2', hm]

/-! non-vacuity: the regenerated code run on the arch of `Props/C05.lean` (outside, touching; inside; start vertex on the ring) and on a
point that is on no segment (the throwing case cannot be reached through `isRingNested`: shown on `intersectingSegIndex`) -/
def archA : List Pt := [⟨0, 10⟩, ⟨5, 20⟩, ⟨15, 20⟩, ⟨20, 10⟩, ⟨25, 20⟩, ⟨35, 20⟩, ⟨40, 10⟩, ⟨45, 20⟩, ⟨45, -10⟩, ⟨55, -10⟩,
  ⟨55, 30⟩, ⟨-15, 30⟩, ⟨-15, -10⟩, ⟨-5, -10⟩, ⟨-5, 20⟩, ⟨0, 10⟩]
example : ValidRingNested.isRingNested List.length sAt (fun r : List Pt => r) List.length onSeg locRing Valid.isCCWArea intSeg
    [⟨0, 10⟩, ⟨40, 10⟩, ⟨40, 0⟩, ⟨0, 0⟩, ⟨0, 10⟩] archA = .ok false := by
  apply gen_isRingNested_ok _ _ (by decide) false (by decide)
  intro index hi
  have : index = 0 := by
    have h0 : Valid.intersectingSegIndex (⟨0, 10⟩ : Pt) 0 archA = some 0 := by decide
    simp only [List.getD_cons_zero] at hi
    rw [h0] at hi; exact (Option.some.inj hi).symm
  subst this; decide
example : ValidRingNested.intersectingSegIndex List.length sAt onSeg archA (xy ⟨1, 1⟩) = .error "IllegalArgumentException" := by
  rw [gen_intersectingSegIndex_eq]; decide

end GeosModel.C05GenNest
