import GeosModel.Proofs.Precision.GenRoundLemmas
import GeosModel.Generated.PrecisionRound
import Mathlib.Tactic.Ring
import Mathlib.Tactic.Linarith
/-!
# C04 — the regenerated rounding rule is the model the C04 theorems are about

`Generated/PrecisionRound.lean` is rewritten from `src/util/math.cpp` (`java_math_round`, `sym_round`),
`include/geos/util/math.h` (`util::round`) and `src/geom/PrecisionModel.cpp` (`makePrecise`, `snapToInt`, `setScale`, the constructor `PrecisionModel(double)`) by
`translate/cxx2lean.py` (spec `precision_round`) on every run.  The C++ computes with `double`; the regenerated definitions
are generic over the carrier and take the math library (`std::floor`, `std::ceil`, the two results of `std::modf`,
`std::round`, `static_cast<float>`) as explicit function parameters.  They are instantiated

* with exact rationals and the exact `floor` / `ceil` / truncation — and proved equal to `javaRound`, `makePreciseScale`,
  `makePreciseGrid`, `makePreciseQ` (`Model/Precision/Round.lean`, exact layer), the objects of `javaRound_nearest`,
  `javaRound_ties_up`, `makePrecise_idem_exact`, `makePrecise_nearest_exact` in `Props/C04.lean`;
* with the binary64 value model `F64.Val` (`Model/Precision/CxxVal.lean`: every operator is the IEEE operation of the
  model) — and proved equal to `PM.makePrecise`, `snapToInt`, `PM.setScale`, the objects of `makePrecise_idem_f64` and
  `pointwise_moves_to_nearest` and what the driver of stream `precise` runs.

for **all** arguments.  The connecting hypothesis of the binary64 bridge of `makePrecise` is that the regenerated
`java_math_round`, with whatever `floor`/`ceil`/`modf` the platform has, computes `javaRoundF` (exactly-rounded
`java_math_round`; tied by stream `precise`, bit for bit).
-/
set_option linter.unusedTactic false
set_option linter.unusedSimpArgs false
set_option linter.unreachableTactic false
set_option linter.unnecessarySeqFocus false
namespace GeosModel.C04GenRound
open GeosModel GeosModel.Precision GeosModel.Generated
open GeosModel.F64 (Val)

/-- closes the leaf goals left after both sides have been split into their branches: identical branches, branches whose
conditions contradict each other (linear arithmetic), reassociated sums -/
macro "leaf" : tactic => `(tactic| first
  | done
  | (simp_all; done)
  | linarith
  | (exfalso; linarith)
  | (ring_nf; done)
  | (simp_all; first | done | linarith | (exfalso; linarith) | (ring_nf; done) | (ring_nf at *; simp_all; done)))

/-! ## the math library over exact rationals -/

/-- `std::floor` -/
def floorQ (x : Rat) : Rat := (x.floor : Rat)
/-- `std::ceil` -/
def ceilR (x : Rat) : Rat := (ceilQ x : Rat)
/-- integral part stored by `std::modf` (truncation toward zero) -/
def modfIntQ (x : Rat) : Rat := (modfInt x : Rat)
/-- value returned by `std::modf`: the fractional part, with the sign of the argument -/
def modfFracQ (x : Rat) : Rat := x - (modfInt x : Rat)

/-! ## exact layer -/

/-- `util::java_math_round`, regenerated, over exact rationals = `javaRound` — for every argument -/
theorem gen_java_math_round_eq (x : Rat) :
    PrecisionRound.java_math_round (R := Rat) floorQ ceilR modfIntQ modfFracQ x = (javaRound x : Rat) := by
  unfold PrecisionRound.java_math_round javaRound
  simp only [floorQ, ceilR, modfIntQ, modfFracQ, modfInt]
  simp [Cxx.gt, Cxx.ge] <;> (repeat' split) <;> leaf

/-- `util::sym_round`, regenerated, over exact rationals = `symRound` (half away from zero; see
`symRound_differs_only_at_negative_ties`) -/
theorem gen_sym_round_eq (x : Rat) :
    PrecisionRound.sym_round (R := Rat) floorQ ceilR modfIntQ modfFracQ x = (symRound x : Rat) := by
  unfold PrecisionRound.sym_round symRound
  simp only [floorQ, ceilR, modfIntQ, modfFracQ, modfInt]
  simp [Cxx.gt, Cxx.ge] <;> (repeat' split) <;> leaf

/-- `util::round` IS `java_math_round` (not `sym_round`, not `std::round`) -/
theorem gen_round_eq (x : Rat) :
    PrecisionRound.round (R := Rat) floorQ ceilR modfIntQ modfFracQ x = (javaRound x : Rat) := by
  simp [PrecisionRound.round, gen_java_math_round_eq]

/-- `PrecisionModel::makePrecise` for a FIXED model, regenerated, over exact rationals = `makePreciseQ`: the branch
selection (`gridSize > 1`, else `scale != 0`, else unchanged) and both arithmetic branches -/
theorem gen_makePrecise_fixed_eq (toFloat : Rat → Rat) (scale gridSize x : Rat) :
    PrecisionRound.makePrecise (R := Rat) floorQ ceilR modfIntQ modfFracQ toFloat .fixed scale gridSize x
      = makePreciseQ scale gridSize x := by
  unfold PrecisionRound.makePrecise makePreciseQ makePreciseGrid makePreciseScale
  simp [Cxx.gt, Cxx.ne, gen_round_eq] <;> (repeat' split) <;> leaf

/-- the two arithmetic branches separately, as `makePrecise_idem_exact` / `makePrecise_nearest_exact` state them -/
theorem gen_makePrecise_branches (toFloat : Rat → Rat) (scale gridSize x : Rat) :
    (1 < gridSize → PrecisionRound.makePrecise (R := Rat) floorQ ceilR modfIntQ modfFracQ toFloat .fixed scale gridSize x
        = makePreciseGrid gridSize x) ∧
    (¬ 1 < gridSize → scale ≠ 0 → PrecisionRound.makePrecise (R := Rat) floorQ ceilR modfIntQ modfFracQ toFloat .fixed scale gridSize x
        = makePreciseScale scale x) := by
  rw [gen_makePrecise_fixed_eq]
  unfold makePreciseQ
  constructor
  · intro h; simp [h]
  · intro h hs; simp [h, hs]

/-- FLOATING leaves the value alone, FLOATING_SINGLE is the conversion to `float` and back — for every carrier -/
theorem gen_makePrecise_floating {R : Type} [Cxx.Field R] (fl cl mi mf tf : R → R) (scale gridSize x : R) :
    PrecisionRound.makePrecise fl cl mi mf tf .floating scale gridSize x = x ∧
    PrecisionRound.makePrecise fl cl mi mf tf .floatingSingle scale gridSize x = tf x := by
  constructor <;> simp [PrecisionRound.makePrecise]

/-! ## binary64 layer -/

/-- `PrecisionModel::snapToInt`, regenerated, over the binary64 model = `Precision.snapToInt` (with `std::round` =
`stdRoundF`, round half away from zero) -/
theorem gen_snapToInt_f64 (v tol : Val) :
    PrecisionRound.snapToInt (R := Val) stdRoundF v tol = Precision.snapToInt v tol := by
  unfold PrecisionRound.snapToInt Precision.snapToInt
  simp <;> (repeat' split) <;> leaf

/-- `PrecisionModel::setScale`, regenerated (it assigns the members `scale` and `gridSize`), over the binary64 model =
`PM.setScale`, whatever the members held before: the `newScale == 0` block falls through, a negative scale means a grid
size, `snapToInt` with the tolerance read from the source (1e-5) on the scale or on the grid size -/
theorem gen_setScale_f64 (scale0 gridSize0 newScale : Val) :
    PrecisionRound.setScale (R := Val) stdRoundF scale0 gridSize0 newScale
      = ((PM.setScale newScale).scale, (PM.setScale newScale).gridSize) := by
  unfold PrecisionRound.setScale PM.setScale
  simp [gen_snapToInt_f64] <;> (repeat' split) <;> leaf

/-- the constructor `PrecisionModel(double newScale)` (what `GEOSGeom_setPrecision_r` / `GEOS*Prec_r` and stream `precise`
build): model type FIXED and the members of `PM.setScale newScale`, whatever they held before -/
theorem gen_pmCtorScale_f64 (t0 : ModelType) (scale0 gridSize0 newScale : Val) :
    PrecisionRound.pmCtorScale (R := Val) stdRoundF t0 scale0 gridSize0 newScale
      = (ModelType.fixed, (PM.setScale newScale).scale, (PM.setScale newScale).gridSize) := by
  unfold PrecisionRound.pmCtorScale
  simp [gen_setScale_f64]

/-- `PrecisionModel::makePrecise` for a FIXED model over the binary64 model = `PM.makePrecise` (the object of
`makePrecise_idem_f64`, `PM.onGrid`, `pointwise_moves_to_nearest`), given that the regenerated `java_math_round` with the
platform's `floor`/`ceil`/`modf` is the exactly rounded `javaRoundF` -/
theorem gen_makePrecise_f64 (fl cl mi mf tf : Val → Val)
    (hround : ∀ x, PrecisionRound.java_math_round (R := Val) fl cl mi mf x = javaRoundF x) (pm : PM) (v : Val) :
    PrecisionRound.makePrecise (R := Val) fl cl mi mf tf .fixed pm.scale pm.gridSize v = pm.makePrecise v := by
  unfold PrecisionRound.makePrecise PM.makePrecise
  simp [Cxx.gt, Cxx.ne, PrecisionRound.round, hround] <;> (repeat' split) <;> leaf

/-- all three model types at once -/
theorem gen_makePreciseT_f64 (fl cl mi mf tf : Val → Val)
    (hround : ∀ x, PrecisionRound.java_math_round (R := Val) fl cl mi mf x = javaRoundF x) (t : ModelType) (pm : PM) (v : Val) :
    PrecisionRound.makePrecise (R := Val) fl cl mi mf tf t pm.scale pm.gridSize v = pm.makePreciseT tf t v := by
  cases t
  · exact gen_makePrecise_f64 fl cl mi mf tf hround pm v
  · exact (gen_makePrecise_floating fl cl mi mf tf pm.scale pm.gridSize v).1
  · exact (gen_makePrecise_floating fl cl mi mf tf pm.scale pm.gridSize v).2

-- non-vacuity: 2.5 ↦ 3, −2.5 ↦ −2 through the regenerated code; PrecisionModel(1000.0) through the regenerated setScale
example : PrecisionRound.java_math_round (R := Rat) floorQ ceilR modfIntQ modfFracQ (5 / 2) = 3 ∧
    PrecisionRound.java_math_round (R := Rat) floorQ ceilR modfIntQ modfFracQ (-5 / 2) = -2 := by
  rw [gen_java_math_round_eq, gen_java_math_round_eq]; decide +kernel
example : PrecisionRound.setScale (R := Val) stdRoundF zero zero (F64.decode 0x408f400000000000)
    = (F64.decode 0x408f400000000000, F64.decode 0x3f50624dd2f1a9fc) := by
  rw [gen_setScale_f64]; decide +kernel

end GeosModel.C04GenRound
