import GeosModel.Model.Relate.Agree
import GeosModel.Model.Relate.ScratchPoint
import GeosModel.Proofs.Relate.RectFastLemmas
/-!
# C02 — all evaluation paths of a topological question agree

The algebra that makes the agreements *necessary*: transposition exchanges within/contains and
covers/coveredBy, leaves disjoint/intersects/touches/crosses/overlaps/equals invariant (with swapped
dimensions), pattern matching commutes with transposing the pattern, and a geometry's matrix with itself
satisfies equals/covers/coveredBy.  `consistent_of_true_matrix`: answers all derived from one matrix by
the DE-9IM definitions pass the consistency test the driver applies to the implementation's answers; so a
failing test exhibits two paths that cannot both be right.  The tie to the code is correspondence only
(no exact oracle is claimed for arbitrary doubles).
-/
namespace GeosModel.Relate
open GeosModel

theorem transpose_transpose (m : IM) : m.transpose.transpose = m := by
  cases m; rfl

theorem within_eq_contains_transpose (m : IM) : m.isWithin = m.transpose.isContains := by
  simp [IM.isWithin, IM.isContains, IM.transpose]

theorem contains_eq_within_transpose (m : IM) : m.isContains = m.transpose.isWithin := by
  simp [IM.isWithin, IM.isContains, IM.transpose]

theorem coveredBy_eq_covers_transpose (m : IM) : m.isCoveredBy = m.transpose.isCovers := by
  simp only [IM.isCoveredBy, IM.isCovers, IM.hasPointInCommon, IM.transpose]
  generalize IM.T m.ii = a; generalize IM.T m.ib = b; generalize IM.T m.bi = c; generalize IM.T m.bb = d
  cases a <;> cases b <;> cases c <;> cases d <;> rfl

theorem covers_eq_coveredBy_transpose (m : IM) : m.isCovers = m.transpose.isCoveredBy := by
  rw [coveredBy_eq_covers_transpose, transpose_transpose]

theorem disjoint_transpose (m : IM) : m.transpose.isDisjoint = m.isDisjoint := by
  simp only [IM.isDisjoint, IM.transpose]
  generalize (m.ii == -1) = a; generalize (m.ib == -1) = b; generalize (m.bi == -1) = c; generalize (m.bb == -1) = d
  cases a <;> cases b <;> cases c <;> cases d <;> rfl

theorem intersects_transpose (m : IM) : m.transpose.isIntersects = m.isIntersects := by
  simp [IM.isIntersects, disjoint_transpose]

/-- disjoint is the negation of intersects -/
theorem disjoint_eq_not_intersects (m : IM) : m.isDisjoint = !m.isIntersects := by
  simp [IM.isIntersects]

theorem touches_transpose (m : IM) (dA dB : Int) : m.transpose.isTouches dB dA = m.isTouches dA dB := by
  simp only [IM.isTouches, IM.transpose]
  have key : (if dB > dA then (dA, dB) else (dB, dA)) = (if dA > dB then (dB, dA) else (dA, dB)) := by
    by_cases h1 : dB > dA
    · have : ¬ dA > dB := by omega
      simp [h1, this]
    · by_cases h2 : dA > dB
      · simp [h1, h2]
      · have : dA = dB := by omega
        subst this; simp
  rw [key]
  generalize (if dA > dB then (dB, dA) else (dA, dB)) = pr
  obtain ⟨a, b⟩ := pr
  simp only
  split
  · generalize (m.ii == -1) = x; generalize IM.T m.ib = y; generalize IM.T m.bi = z; generalize IM.T m.bb = w
    cases x <;> cases y <;> cases z <;> cases w <;> rfl
  · rfl

theorem crosses_transpose (m : IM) (dA dB : Int) : m.transpose.isCrosses dB dA = m.isCrosses dA dB := by
  simp only [IM.isCrosses, IM.transpose]
  by_cases h1 : (dA == 0 && dB == 1 || dA == 0 && dB == 2 || dA == 1 && dB == 2) = true
  · have h2 : (dB == 1 && dA == 0 || dB == 2 && dA == 0 || dB == 2 && dA == 1) = true := by
      simp only [Bool.or_eq_true, Bool.and_eq_true, beq_iff_eq] at h1 ⊢; omega
    have h3 : (dB == 0 && dA == 1 || dB == 0 && dA == 2 || dB == 1 && dA == 2) = false := by
      simp only [Bool.or_eq_true, Bool.and_eq_true, beq_iff_eq] at h1
      simp only [Bool.or_eq_false_iff, Bool.and_eq_false_iff, beq_eq_false_iff_ne, ne_eq]; omega
    simp [h1, h2, h3]
  · have h1' : (dA == 0 && dB == 1 || dA == 0 && dB == 2 || dA == 1 && dB == 2) = false := by simpa using h1
    have g1 : (dB == 1 && dA == 0 || dB == 2 && dA == 0 || dB == 2 && dA == 1) = false := by
      simp only [Bool.or_eq_false_iff, Bool.and_eq_false_iff, beq_eq_false_iff_ne, ne_eq] at h1' ⊢; omega
    by_cases h2 : (dA == 1 && dB == 0 || dA == 2 && dB == 0 || dA == 2 && dB == 1) = true
    · have g2 : (dB == 0 && dA == 1 || dB == 0 && dA == 2 || dB == 1 && dA == 2) = true := by
        simp only [Bool.or_eq_true, Bool.and_eq_true, beq_iff_eq] at h2 ⊢; omega
      simp [h1', h2, g1, g2]
    · have h2' : (dA == 1 && dB == 0 || dA == 2 && dB == 0 || dA == 2 && dB == 1) = false := by simpa using h2
      have g2 : (dB == 0 && dA == 1 || dB == 0 && dA == 2 || dB == 1 && dA == 2) = false := by
        simp only [Bool.or_eq_false_iff, Bool.and_eq_false_iff, beq_eq_false_iff_ne, ne_eq] at h2' ⊢; omega
      simp only [h1', h2', g1, g2, Bool.false_eq_true, if_false]
      by_cases h3 : (dA == 1 && dB == 1) = true
      · have g3 : (dB == 1 && dA == 1) = true := by
          simp only [Bool.and_eq_true, beq_iff_eq] at h3 ⊢; omega
        simp [h3, g3]
      · have h3' : (dA == 1 && dB == 1) = false := by simpa using h3
        have g3 : (dB == 1 && dA == 1) = false := by
          simp only [Bool.and_eq_false_iff, beq_eq_false_iff_ne, ne_eq] at h3' ⊢; omega
        simp [h3', g3]

theorem overlaps_transpose (m : IM) (dA dB : Int) : m.transpose.isOverlaps dB dA = m.isOverlaps dA dB := by
  simp only [IM.isOverlaps, IM.transpose]
  by_cases h1 : (dA == 0 && dB == 0 || dA == 2 && dB == 2) = true
  · have g1 : (dB == 0 && dA == 0 || dB == 2 && dA == 2) = true := by
      simp only [Bool.or_eq_true, Bool.and_eq_true, beq_iff_eq] at h1 ⊢; omega
    simp only [h1, g1, if_true]
    generalize IM.T m.ii = a; generalize IM.T m.ie = b; generalize IM.T m.ei = c
    cases a <;> cases b <;> cases c <;> rfl
  · have h1' : (dA == 0 && dB == 0 || dA == 2 && dB == 2) = false := by simpa using h1
    have g1 : (dB == 0 && dA == 0 || dB == 2 && dA == 2) = false := by
      simp only [Bool.or_eq_false_iff, Bool.and_eq_false_iff, beq_eq_false_iff_ne, ne_eq] at h1' ⊢; omega
    simp only [h1', g1, Bool.false_eq_true, if_false]
    by_cases h3 : (dA == 1 && dB == 1) = true
    · have g3 : (dB == 1 && dA == 1) = true := by
        simp only [Bool.and_eq_true, beq_iff_eq] at h3 ⊢; omega
      simp only [h3, g3, if_true]
      generalize (m.ii == 1) = a; generalize IM.T m.ie = b; generalize IM.T m.ei = c
      cases a <;> cases b <;> cases c <;> rfl
    · have h3' : (dA == 1 && dB == 1) = false := by simpa using h3
      have g3 : (dB == 1 && dA == 1) = false := by
        simp only [Bool.and_eq_false_iff, beq_eq_false_iff_ne, ne_eq] at h3' ⊢; omega
      simp [h3', g3]

theorem equals_transpose (m : IM) (dA dB : Int) : m.transpose.isEquals dB dA = m.isEquals dA dB := by
  simp only [IM.isEquals, IM.transpose]
  by_cases h : dA = dB
  · subst h
    simp only [bne_self_eq_false, Bool.false_eq_true, if_false]
    generalize IM.T m.ii = a; generalize (m.ei == -1) = b; generalize (m.ie == -1) = c
    generalize (m.eb == -1) = d; generalize (m.be == -1) = e
    cases a <;> cases b <;> cases c <;> cases d <;> cases e <;> rfl
  · have h1 : (dA != dB) = true := by simpa using h
    have h2 : (dB != dA) = true := by simp; omega
    simp [h1, h2]

/-- transposing a 9-character pattern -/
def transposePat : List Char → List Char
  | [a, b, c, d, e, f, g, h, i] => [a, d, g, b, e, h, c, f, i]
  | p => p

theorem matchesPat_transpose (m : IM) (p : List Char) (hp : p.length = 9) :
    m.transpose.matchesPat (transposePat p) = m.matchesPat p := by
  match p, hp with
  | [a, b, c, d, e, f, g, h, i], _ =>
    simp only [transposePat, IM.matchesPat, IM.entries, IM.transpose, List.zipWith, List.all, List.length_cons,
      List.length_nil, id, Bool.and_true]
    generalize IM.matchesSym m.ii a = x1; generalize IM.matchesSym m.ib b = x2; generalize IM.matchesSym m.ie c = x3
    generalize IM.matchesSym m.bi d = x4; generalize IM.matchesSym m.bb e = x5; generalize IM.matchesSym m.be f = x6
    generalize IM.matchesSym m.ei g = x7; generalize IM.matchesSym m.eb h = x8; generalize IM.matchesSym m.ee i = x9
    cases x1 <;> cases x2 <;> cases x3 <;> cases x4 <;> cases x5 <;> cases x6 <;> cases x7 <;> cases x8 <;> cases x9 <;> rfl

/-- the named predicates of (B,A) are those of the transposed matrix: within/contains and
covers/coveredBy are exchanged, the others are unchanged -/
theorem predsOf_transpose (m : IM) (dA dB : Int) :
    predsOf m.transpose dB dA =
      [m.isIntersects, m.isDisjoint, m.isTouches dA dB, m.isCrosses dA dB, m.isContains, m.isWithin,
       m.isOverlaps dA dB, m.isEquals dA dB, m.isCoveredBy, m.isCovers] := by
  simp only [predsOf, intersects_transpose, disjoint_transpose, touches_transpose, crosses_transpose,
    overlaps_transpose, equals_transpose, ← contains_eq_within_transpose, ← within_eq_contains_transpose,
    ← covers_eq_coveredBy_transpose, ← coveredBy_eq_covers_transpose]

/-- a non-empty geometry related to itself: interior meets interior, nothing meets the other's exterior;
then equals, covers and coveredBy all hold -/
theorem self_relations (m : IM) (d : Int) (hii : m.ii ≥ 0)
    (h1 : m.ie = -1) (h2 : m.be = -1) (h3 : m.ei = -1) (h4 : m.eb = -1) :
    m.isEquals d d = true ∧ m.isCovers = true ∧ m.isCoveredBy = true := by
  have hT : IM.T m.ii = true := by
    unfold IM.T IM.matchesSym
    have : decide (m.ii ≥ 0) = true := by simpa using hii
    simp [this]
  simp [IM.isEquals, IM.isCovers, IM.isCoveredBy, IM.hasPointInCommon, hT, h1, h2, h3, h4]

/-- **consistent_of_true_matrix**: answers all derived from one matrix by the DE-9IM definitions are
consistent — so the test the driver applies never rejects a correct implementation -/
theorem consistent_of_true_matrix (M : IM) (dA dB : Int) (pats : List (List Char)) :
    consistent (obsFrom M dA dB pats) = true := by
  simp only [consistent, obsFrom, beq_self_eq_true, Bool.and_true, Bool.true_and, Bool.false_and, Bool.false_eq_true,
    if_false, Bool.false_or, List.all_cons, List.all_nil, id, Bool.and_self]
  simp [List.all_map]

/-- conversely, a failed test names two paths that disagree: it is a conjunction of equalities between
answers (or between an answer and the definition applied to another answer), so `false` means at least
one of them fails -/
theorem inconsistent_exhibits_disagreement (o : Obs) (h : consistent o = false) :
    o.mt ≠ o.m.transpose ∨ o.pm ≠ o.m ∨
    (if o.aEmpty && o.bEmpty then dropEquals o.p ≠ dropEquals (predsOf o.m o.dA o.dB) else o.p ≠ predsOf o.m o.dA o.dB) ∨
    (if o.aEmpty && o.bEmpty then dropEquals o.pb ≠ dropEquals (predsOf o.mt o.dB o.dA) else o.pb ≠ predsOf o.mt o.dB o.dA) ∨
    o.q ≠ prepPredsOf o.m o.dA o.dB ∨ o.qb ≠ prepPredsOf o.mt o.dB o.dA ∨
    (∃ x ∈ o.pats, ¬ (x.2.1 = o.m.matchesPat x.1 ∧ x.2.2 = x.2.1)) ∨
    (o.aEmpty = false ∧ ∃ b ∈ o.self, b = false) := by
  by_cases c1 : o.mt = o.m.transpose
  · by_cases c2 : o.pm = o.m
    · right; right
      by_cases c3 : (if o.aEmpty && o.bEmpty then dropEquals o.p ≠ dropEquals (predsOf o.m o.dA o.dB) else o.p ≠ predsOf o.m o.dA o.dB)
      · left; exact c3
      · right
        by_cases c4 : (if o.aEmpty && o.bEmpty then dropEquals o.pb ≠ dropEquals (predsOf o.mt o.dB o.dA) else o.pb ≠ predsOf o.mt o.dB o.dA)
        · left; exact c4
        · right
          by_cases c5 : o.q = prepPredsOf o.m o.dA o.dB
          · right
            by_cases c6 : o.qb = prepPredsOf o.mt o.dB o.dA
            · right
              by_cases c7 : ∃ x ∈ o.pats, ¬ (x.2.1 = o.m.matchesPat x.1 ∧ x.2.2 = x.2.1)
              · left; exact c7
              · right
                -- everything else holds, so the last conjunct must be the false one
                simp only [consistent, Bool.and_eq_false_iff] at h
                have e1 : (o.mt == o.m.transpose) = true := by simp [c1]
                have e2 : (o.pm == o.m) = true := by simp [c2]
                have e5 : (o.q == prepPredsOf o.m o.dA o.dB) = true := by simp [c5]
                have e6 : (o.qb == prepPredsOf o.mt o.dB o.dA) = true := by simp [c6]
                have e3 : (if (o.aEmpty && o.bEmpty) = true then dropEquals o.p == dropEquals (predsOf o.m o.dA o.dB) else o.p == predsOf o.m o.dA o.dB) = true := by
                  split at c3 <;> rename_i hc <;> simp only [hc, if_true, if_false, Bool.false_eq_true] <;> simpa using c3
                have e4 : (if (o.aEmpty && o.bEmpty) = true then dropEquals o.pb == dropEquals (predsOf o.mt o.dB o.dA) else o.pb == predsOf o.mt o.dB o.dA) = true := by
                  split at c4 <;> rename_i hc <;> simp only [hc, if_true, if_false, Bool.false_eq_true] <;> simpa using c4
                have e7 : (o.pats.all fun x => x.2.1 == o.m.matchesPat x.1 && x.2.2 == x.2.1) = true := by
                  rw [List.all_eq_true]
                  intro x hx
                  have := fun hneg => c7 ⟨x, hx, hneg⟩
                  simp only [Bool.and_eq_true, beq_iff_eq]
                  exact Classical.not_not.mp this
                have hlast : (o.aEmpty || o.self.all id) = false := by
                  rcases h with ((((((h | h) | h) | h) | h) | h) | h) | h
                  · rw [e1] at h; cases h
                  · rw [e2] at h; cases h
                  · rw [e3] at h; cases h
                  · rw [e4] at h; cases h
                  · rw [e5] at h; cases h
                  · rw [e6] at h; cases h
                  · have : (o.pats.all fun x => match x with | (p, r, pr) => r == o.m.matchesPat p && pr == r) = true := by
                      rw [List.all_eq_true] at e7 ⊢
                      intro x hx; obtain ⟨p, r, pr⟩ := x; exact e7 _ hx
                    rw [this] at h; cases h
                  · exact h
                simp only [Bool.or_eq_false_iff] at hlast
                refine ⟨hlast.1, ?_⟩
                have := hlast.2
                rw [List.all_eq_false] at this
                obtain ⟨b, hb, hbf⟩ := this
                exact ⟨b, hb, by simpa using hbf⟩
            · left; exact c6
          · left; exact c5
    · right; left; exact c2
  · left; exact c1

/-! ### non-vacuity -/
example : consistent (obsFrom ⟨2, 1, 2, 1, 0, 1, 2, 1, 2⟩ 2 2 ["T*T***T**".toList]) = true := by decide
example : (predsOf (⟨2, 1, 2, 1, 0, 1, 2, 1, 2⟩ : IM) 2 2) = [true, false, false, false, false, false, true, false, false, false] := by decide

end GeosModel.Relate


/-!
## The rectangle fast path (`RectangleIntersects::intersects`, Model/Relate/RectFast.lean)

`intersects` with a rectangle argument and `PreparedPolygon::intersects` of a prepared rectangle are answered by three
short-circuited visitors instead of a relate matrix.  For the agreement "named predicate = pattern match of relate" the
fast path must not overlook an intersection.  Proved for ALL rectangles (any vertex list), geometries and `Int`
coordinates: an intersection witnessed by two crossing segments — the element's segment taken from ANY linear component,
for a polygon shell or hole alike — or by a rectangle corner that `locatePointInSurface` does not put in the exterior is
always reported: none of the envelope pre-filters in front of the visitors can discard it.  Not proved: the converse for
the "bisected envelope" shortcut (it rests on connectedness of a valid element; checked by stream rect-fast against the
witness reference `refIntersects` on valid input).
-/
namespace GeosModel.RectFast
open GeosModel GeosModel.Kernel GeosModel.SegSeg GeosModel.PolyLocate

/-- the answer is the disjunction of the three visitors behind the whole-geometry envelope test -/
theorem rectIntersects_iff (rect : List Pt) (g : List Elem) :
    rectIntersects rect g = true ↔
      Env.inter (envOfPts rect) (geomEnv g) = true ∧
        ((∃ e ∈ g, envStage (envOfPts rect) e = true) ∨ (∃ e ∈ g, cornerStage (envOfPts rect) rect e = true) ∨
         (∃ e ∈ g, lineStage (envOfPts rect) rect e = true)) := by
  simp [rectIntersects, List.any_eq_true, or_assoc]

/-- `rectStage` names the deciding visitor of `rectIntersects` -/
theorem rectIntersects_eq_stage (rect : List Pt) (g : List Elem) :
    rectIntersects rect g = decide (rectStage rect g = 1 ∨ rectStage rect g = 2 ∨ rectStage rect g = 3) := by
  unfold rectIntersects rectStage
  simp only
  by_cases a : Env.inter (envOfPts rect) (geomEnv g) = true <;>
    by_cases b : g.any (envStage (envOfPts rect)) = true <;>
    by_cases c : g.any (cornerStage (envOfPts rect) rect) = true <;>
    by_cases d : g.any (lineStage (envOfPts rect) rect) = true <;> simp [a, b, c, d]

/-- **a crossing is never overlooked**: if a segment `t` of a linear component `l` of an element (`l` ANY ring of a
polygon: shell or hole) shares a point with a segment `s` of the rectangle ring, the fast path answers true.  The
only hypothesis: the vertices of `l` lie in the element's envelope (always for lines and shells; for a hole it says the
hole lies in the shell's envelope, as in every valid polygon). -/
theorem rectIntersects_of_crossing {rect : List Pt} {g : List Elem} {e : Elem} {l : List Pt} {s t : Pt × Pt}
    (he : e ∈ g) (hl : l ∈ e.lines) (hs : s ∈ edges rect) (ht : t ∈ edges l)
    (hx : segRel s.1 s.2 t.1 t.2 ≠ .disjoint)
    (hin : ∀ p ∈ l, Env.containsPt e.env p.x p.y = true) :
    rectIntersects rect g = true := by
  have hseg : segHas s.1 s.2 t.1 t.2 = true := (segHas_iff _ _ _ _).mpr hx
  have henv := segHas_env hseg
  obtain ⟨s1, s2⟩ := edges_mem rect s hs
  obtain ⟨t1, t2⟩ := edges_mem l t ht
  obtain ⟨rb, hrb, r1⟩ := envOfPts_mem rect s.1 s1
  obtain ⟨rb', hrb', r2⟩ := envOfPts_mem rect s.2 s2
  rw [hrb] at hrb'; cases hrb'
  obtain ⟨eb, heb, e1⟩ := containsPt_some (hin t.1 t1)
  obtain ⟨eb', heb', e2⟩ := containsPt_some (hin t.2 t2)
  rw [heb] at heb'; cases heb'
  have hi : Env.inter (envOfPts rect) e.env = true := by
    rw [hrb, heb]; exact inter_of_segEnv r1 r2 e1 e2 henv
  rw [rectIntersects_iff]
  refine ⟨inter_geomEnv _ g e he hi, Or.inr (Or.inr ⟨e, he, ?_⟩)⟩
  unfold lineStage
  rw [hi, Bool.true_and, List.any_eq_true]
  refine ⟨l, hl, ?_⟩
  unfold lineHas
  rw [List.any_eq_true]
  refine ⟨s, hs, ?_⟩
  rw [List.any_eq_true]
  exact ⟨t, ht, hseg⟩

/-- **a contained corner is never overlooked**: one of the first four rectangle vertices not in the exterior of a
polygon element by `SimplePointInAreaLocator::locatePointInSurface` makes the fast path answer true -/
theorem rectIntersects_of_corner {rect : List Pt} {g : List Elem} {rings : List (List Pt)} {c : Pt}
    (he : Elem.polygon rings ∈ g) (hc : c ∈ rect.take 4)
    (hloc : locatePointInPolygon c rings ≠ .exterior) :
    rectIntersects rect g = true := by
  cases rings with
  | nil => exact absurd rfl hloc
  | cons shell holes =>
    have hec : envContains shell c = true := by
      by_contra hn
      have hf : envContains shell c = false := by simpa using hn
      apply hloc
      simp [locatePointInPolygon, hf]
    obtain ⟨eb, heb, e1⟩ := envContains_box hec
    obtain ⟨rb, hrb, r1⟩ := envOfPts_mem rect c (List.mem_of_mem_take hc)
    have henv : (Elem.polygon (shell :: holes)).env = some eb := heb
    have hi : Env.inter (envOfPts rect) (Elem.polygon (shell :: holes)).env = true := by
      rw [hrb, henv]; exact inter_of_common r1 e1
    rw [rectIntersects_iff]
    refine ⟨inter_geomEnv _ g _ he hi, Or.inr (Or.inl ⟨_, he, ?_⟩)⟩
    unfold cornerStage
    simp only
    rw [hi, Bool.true_and, List.any_eq_true]
    refine ⟨c, hc, ?_⟩
    rw [henv, (containsPt_iff eb c).mpr e1, Bool.true_and]
    simpa using hloc

/-- the same with the even–odd specification `Kernel.locateInPolygon` of the polygon (closed rings, holes separate at
the corner): a corner in the closed polygon makes the fast path answer true -/
theorem rectIntersects_of_corner_spec {rect : List Pt} {g : List Elem} {rings : List (List Pt)} {c : Pt}
    (he : Elem.polygon rings ∈ g) (hc : c ∈ rect.take 4)
    (hclosed : ∀ r ∈ rings, RayCount.Closed r) (hsep : HolesSeparateAt c rings.tail)
    (hloc : locateInPolygon c rings ≠ .exterior) :
    rectIntersects rect g = true :=
  rectIntersects_of_corner he hc (by rw [locatePointInPolygon_eq c rings hclosed hsep]; exact hloc)

/-- the "covered envelope" branch of the envelope visitor has a witness: every vertex of a vertex list whose envelope
the rectangle's envelope covers lies in the closed rectangle -/
theorem covered_vertices_inRect {rect l : List Pt} (h : Env.covers (envOfPts rect) (envOfPts l) = true) :
    ∀ p ∈ l, inRect (envOfPts rect) p = true := by
  intro p hp
  obtain ⟨lb, hlb, hb⟩ := envOfPts_mem l p hp
  rw [hlb] at h
  cases hr : envOfPts rect with
  | none => rw [hr] at h; simp [Env.covers] at h
  | some rb =>
    rw [hr] at h
    exact (containsPt_iff rb p).mpr (covers_has h hb)

/-! non-vacuity: a square with two holes and a rectangle whose four corners lie inside the holes — no corner in the
polygon, no shell segment crossed, the polygon's envelope neither covered nor bisected: only the hole rings decide -/
def cheese : Elem := .polygon [[⟨0, 0⟩, ⟨10, 0⟩, ⟨10, 10⟩, ⟨0, 10⟩, ⟨0, 0⟩],
                                [⟨1, 1⟩, ⟨4, 1⟩, ⟨4, 4⟩, ⟨1, 4⟩, ⟨1, 1⟩], [⟨6, 1⟩, ⟨9, 1⟩, ⟨9, 4⟩, ⟨6, 4⟩, ⟨6, 1⟩]]
def bridge : List Pt := [⟨2, 2⟩, ⟨8, 2⟩, ⟨8, 3⟩, ⟨2, 3⟩, ⟨2, 2⟩]
example : rectStage bridge [cheese] = 3 ∧ rectIntersects bridge [cheese] = true ∧ refIntersects bridge [cheese] = true := by decide
example : segRel (⟨2, 2⟩ : Pt) ⟨8, 2⟩ ⟨4, 1⟩ ⟨4, 4⟩ ≠ .disjoint := by decide
/-- without the hole rings the same rectangle lies inside one hole-free face: nothing is witnessed -/
example : rectIntersects [⟨2, 2⟩, ⟨3, 2⟩, ⟨3, 3⟩, ⟨2, 3⟩, ⟨2, 2⟩] [cheese] = false := by decide

end GeosModel.RectFast

/-!
## The reused scratch point of the XY forms (`Point::setXY`, Model/Relate/ScratchPoint.lean)

`GEOSPreparedContainsXY` / `GEOSPreparedIntersectsXY` overwrite one `Point` per context and hand it to the ordinary
prepared predicate.  That the XY forms equal the point forms needs: after `setXY(x, y)` the point is indistinguishable
from a freshly built `POINT (x y)` — coordinate AND cached envelope — whatever was asked before.
-/
namespace GeosModel.ScratchPoint
open GeosModel

theorem setXY_len (s : PointSt) (x y : Int) (h : s.coords.length ≤ 1) : (setXY s x y).coords.length ≤ 1 := by
  unfold setXY
  cases hc : s.coords with
  | nil => simp
  | cons c r => rw [hc] at h; simp at h; simp [h]

/-- **`setXY` forgets the past**: the state after `setXY(x, y)` is that of a fresh `POINT (x y)` -/
theorem setXY_eq_fresh (s : PointSt) (x y : Int) (h : s.coords.length ≤ 1) : setXY s x y = fresh (some (x, y)) := by
  unfold setXY fresh
  cases hc : s.coords with
  | nil => rfl
  | cons c r =>
    rw [hc] at h
    have : r = [] := by cases r with
      | nil => rfl
      | cons _ _ => simp at h
    subst this; rfl

theorem run_len (s : PointSt) (ops : List (Int × Int)) (h : s.coords.length ≤ 1) : (run s ops).coords.length ≤ 1 := by
  induction ops generalizing s with
  | nil => exact h
  | cons o r ih => exact ih (setXY s o.1 o.2) (setXY_len s o.1 o.2 h)

/-- after any history of XY queries the scratch point equals a fresh point at the last queried position -/
theorem run_last (s : PointSt) (ops : List (Int × Int)) (x y : Int) (h : s.coords.length ≤ 1) :
    run s (ops ++ [(x, y)]) = fresh (some (x, y)) := by
  unfold run
  rw [List.foldl_append]
  exact setXY_eq_fresh _ x y (run_len s ops h)

/-- the cached envelope always is the envelope of the coordinate (also when only one ordinate changed) -/
theorem run_coherent (s : PointSt) (ops : List (Int × Int)) (hne : ops ≠ []) (h : s.coords.length ≤ 1) :
    Coherent (run s ops) := by
  obtain ⟨init, last, rfl⟩ : ∃ i l, ops = i ++ [l] := ⟨ops.dropLast, ops.getLast hne, (List.dropLast_concat_getLast hne).symm⟩
  obtain ⟨x, y⟩ := last
  rw [run_last s init x y h]
  exact ⟨rfl, by simp [fresh]⟩

example : run (fresh (some (5, 20))) [(5, 5)] = fresh (some (5, 5)) := by decide
example : (run (fresh none) [(5, 20), (5, 5), (30, 5)]).env = some ⟨30, 30, 5, 5⟩ := by decide

end GeosModel.ScratchPoint
