import GeosModel.Model.Lines.HoleAssign
/-!
# C19 — hole assignment of the polygonizer (`EdgeRing::findEdgeRingContaining`): theorems about the model

`Model/Lines/HoleAssign.lean` follows the C++ branch by branch and is tied to the real function by the correspondence
stream `holeassign` (every hole ring of generated arrangements, built from each of its possible start edges).  For all
rings and candidate lists:

* `ptNotInList_some` / `ptNotInList_none`  the vertex scan returns the FIRST vertex of the test ring that is not a vertex of
                              the candidate; the null coordinate exactly when every vertex is shared;
* `find_sound`                the ring returned is an element of the list (at the returned index), its envelope covers
                              the test ring's envelope and differs from it, and the point that decided is a vertex of
                              the test ring that is NOT a vertex of the returned ring and is not exterior to it;
* `find_strictly_inside`      on a noded arrangement (a vertex of the test ring lies on the candidate's boundary only
                              where it is one of its vertices) that deciding vertex is strictly INSIDE the returned ring:
                              a ring that only touches a shell from outside at shared vertices is never assigned to it;
* `find_complete`             if some candidate passes the three tests, a ring is returned (nullptr only if none does);
* `find_no_later_candidate_inside`  no later candidate that passes the tests has its envelope covered by the returned ring's envelope;
* `start_vertex_matters_without_scan`  witness: with "first vertex" as test point (no scan) a triangle sitting in the bay
                              of a U-shaped shell and touching its corner is assigned to the shell when its ring starts
                              at the shared corner and not otherwise; the modelled code answers "no shell" for every start.
-/
namespace GeosModel.Lines.HoleAssign
open GeosModel.Kernel

theorem isInList_iff (p : Pt) (ps : List Pt) : isInList p ps = true ↔ p ∈ ps := by
  simp [isInList, List.any_eq_true]

/-- **ptNotInList_some.**  The scan returns the first vertex of `t` that is not in `ps`. -/
theorem ptNotInList_some {t ps : List Pt} {p : Pt} (h : ptNotInList t ps = some p) :
    ∃ pre post, t = pre ++ p :: post ∧ (∀ q ∈ pre, q ∈ ps) ∧ p ∉ ps := by
  induction t with
  | nil => simp [ptNotInList] at h
  | cons a r ih =>
    unfold ptNotInList at h
    by_cases ha : isInList a ps = true
    · simp only [ha, Bool.not_true, Bool.false_eq_true, if_false] at h
      obtain ⟨pre, post, e, h1, h2⟩ := ih h
      refine ⟨a :: pre, post, by simp [e], ?_, h2⟩
      intro q hq
      rcases List.mem_cons.mp hq with rfl | hq
      · exact (isInList_iff _ _).mp ha
      · exact h1 q hq
    · have ha' : isInList a ps = false := by simpa using ha
      simp only [ha', Bool.not_false, if_true, Option.some.injEq] at h
      subst h
      exact ⟨[], r, rfl, by simp, fun hm => ha ((isInList_iff _ _).mpr hm)⟩

/-- **ptNotInList_none.**  The null coordinate is returned exactly when every vertex of `t` is a vertex of `ps`. -/
theorem ptNotInList_none (t ps : List Pt) : ptNotInList t ps = none ↔ ∀ q ∈ t, q ∈ ps := by
  induction t with
  | nil => simp [ptNotInList]
  | cons a r ih =>
    unfold ptNotInList
    by_cases ha : isInList a ps = true
    · simp only [ha, Bool.not_true, Bool.false_eq_true, if_false, ih, List.mem_cons, forall_eq_or_imp]
      exact ⟨fun h => ⟨(isInList_iff _ _).mp ha, h⟩, fun h => h.2⟩
    · have ha' : isInList a ps = false := by simpa using ha
      simp only [ha', Bool.not_false, if_true, List.mem_cons, forall_eq_or_imp]
      constructor
      · intro h; cases h
      · intro h; exact absurd ((isInList_iff _ _).mpr h.1) ha

/-- what the three tests of one loop iteration establish about a candidate -/
def Accepted (test : List Pt) (testEnv : Env) (ring : List Pt) (e : Env) : Prop :=
  envOf ring = some e ∧ e.equals testEnv = false ∧ e.contains testEnv = true ∧
  ∃ p, ptNotInList test ring = some p ∧ p ∈ test ∧ p ∉ ring ∧ locateInRing p ring ≠ .exterior

theorem step_cases (test : List Pt) (testEnv : Env) (min : Option Min) (i : Nat) (r : List Pt) :
    step test testEnv min i r = min ∨
    ∃ e, step test testEnv min i r = some ⟨i, r, e⟩ ∧ Accepted test testEnv r e := by
  unfold step
  split
  · left; rfl
  · rename_i tryEnv he
    by_cases h1 : tryEnv.equals testEnv = true
    · simp [h1]
    · have h1' : tryEnv.equals testEnv = false := by simpa using h1
      by_cases h2 : tryEnv.contains testEnv = true
      · simp only [h1', Bool.false_eq_true, if_false, h2, Bool.not_true]
        cases hp : ptNotInList test r with
        | none => simp [isInRing]
        | some p =>
          by_cases h3 : isInRing r (some p) = true
          · have hacc : Accepted test testEnv r tryEnv := by
              obtain ⟨pre, post, e, _, hn⟩ := ptNotInList_some hp
              refine ⟨he, h1', h2, p, hp, by simp [e], hn, ?_⟩
              simpa [isInRing] using h3
            simp only [h3, if_true]
            cases min with
            | none => right; exact ⟨tryEnv, rfl, hacc⟩
            | some m =>
              by_cases h4 : m.env.contains tryEnv = true
              · right; simp only [h4, if_true]; exact ⟨tryEnv, rfl, hacc⟩
              · left; simp [h4]
          · left; simp [h3]
      · left; simp [h1', h2]

theorem loop_inv (test : List Pt) (testEnv : Env) (L : List (List Pt)) :
    ∀ (rest : List (List Pt)) (i : Nat) (min : Option Min),
      (∀ j, rest[j]? = L[i + j]?) →
      (∀ m, min = some m → L[m.idx]? = some m.ring ∧ Accepted test testEnv m.ring m.env) →
      ∀ m, loop test testEnv min i rest = some m → L[m.idx]? = some m.ring ∧ Accepted test testEnv m.ring m.env := by
  intro rest
  induction rest with
  | nil => intro i min _ hmin m hm; exact hmin m (by simpa [loop] using hm)
  | cons r rest ih =>
    intro i min hL hmin m hm
    unfold loop at hm
    refine ih (i + 1) (step test testEnv min i r) ?_ ?_ m hm
    · intro j
      have := hL (j + 1)
      simpa [Nat.add_assoc, Nat.add_comm 1 j] using this
    · intro m' hm'
      rcases step_cases test testEnv min i r with h | ⟨e, h, hacc⟩
      · exact hmin m' (by rw [← h]; exact hm')
      · rw [h] at hm'
        cases hm'
        refine ⟨?_, hacc⟩
        have := hL 0
        simpa using this.symm

/-- **find_sound.**  Whatever ring is returned, it sits at the returned index of the candidate list, its envelope covers the
test ring's envelope without being equal to it, and the deciding point is a vertex of the test ring, not a vertex of the
returned ring, and not exterior to it. -/
theorem find_sound (test : List Pt) (L : List (List Pt)) (m : Min) (h : findContaining test L = some m) :
    ∃ testEnv, envOf test = some testEnv ∧ L[m.idx]? = some m.ring ∧ Accepted test testEnv m.ring m.env := by
  unfold findContaining at h
  split at h
  · cases h
  · rename_i testEnv he
    exact ⟨testEnv, he, loop_inv test testEnv L L 0 none (fun j => by simp) (fun _ h => by cases h) m h⟩

/-- **find_strictly_inside.**  In a noded arrangement a vertex of one ring lies on another ring only where it is one of its
vertices (`hnoded`).  Then the vertex that decided the assignment is strictly inside the returned ring — so a ring that
merely touches a shell from outside (at shared vertices) can never be assigned to that shell, whichever vertex its
coordinate list starts with. -/
theorem find_strictly_inside (test : List Pt) (L : List (List Pt)) (m : Min) (h : findContaining test L = some m)
    (hnoded : ∀ q ∈ test, locateInRing q m.ring = .boundary → q ∈ m.ring) :
    ∃ p ∈ test, p ∉ m.ring ∧ locateInRing p m.ring = .interior := by
  obtain ⟨_, _, _, _, _, _, p, _, hpt, hpn, hloc⟩ := find_sound test L m h
  refine ⟨p, hpt, hpn, ?_⟩
  cases hl : locateInRing p m.ring with
  | interior => rfl
  | boundary => exact absurd (hnoded p hpt hl) hpn
  | exterior => exact absurd hl hloc

theorem step_isSome (test : List Pt) (testEnv : Env) (min : Option Min) (i : Nat) (r : List Pt) (h : min.isSome) :
    (step test testEnv min i r).isSome := by
  rcases step_cases test testEnv min i r with h' | ⟨e, h', _⟩
  · rw [h']; exact h
  · rw [h']; rfl

theorem loop_isSome (test : List Pt) (testEnv : Env) :
    ∀ (rest : List (List Pt)) (i : Nat) (min : Option Min), min.isSome → (loop test testEnv min i rest).isSome := by
  intro rest
  induction rest with
  | nil => intro i min h; simpa [loop] using h
  | cons r rest ih => intro i min h; unfold loop; exact ih _ _ (step_isSome test testEnv min i r h)

theorem step_accepts (test : List Pt) (testEnv : Env) (i : Nat) (r : List Pt) (e : Env) (h : Accepted test testEnv r e) :
    (step test testEnv none i r).isSome := by
  obtain ⟨he, h1, h2, p, hp, _, _, hloc⟩ := h
  unfold step
  simp [he, h1, h2, hp, isInRing, hloc]

/-- **find_complete.**  `nullptr` is returned only if no candidate passes the tests. -/
theorem find_complete (test : List Pt) (testEnv : Env) (L : List (List Pt)) (he : envOf test = some testEnv)
    (r : List Pt) (hr : r ∈ L) (e : Env) (hacc : Accepted test testEnv r e) :
    (findContaining test L).isSome := by
  unfold findContaining
  simp only [he]
  suffices h : ∀ (rest : List (List Pt)) (i : Nat) (min : Option Min), r ∈ rest → (loop test testEnv min i rest).isSome from h L 0 none hr
  intro rest
  induction rest with
  | nil => intro _ _ h; cases h
  | cons a rest ih =>
    intro i min hmem
    unfold loop
    rcases List.mem_cons.mp hmem with rfl | hmem
    · apply loop_isSome
      cases min with
      | none => exact step_accepts test testEnv i r e hacc
      | some m => exact step_isSome test testEnv (some m) i r rfl
    · exact ih _ _ hmem

/-- when a candidate passes the three tests, `step` takes it unless the current minimum's envelope does not cover its envelope -/
theorem step_accepted (test : List Pt) (testEnv : Env) (min : Option Min) (i : Nat) (r : List Pt) (e : Env)
    (hacc : Accepted test testEnv r e) :
    step test testEnv min i r =
      match min with
      | none => some ⟨i, r, e⟩
      | some m => if m.env.contains e then some ⟨i, r, e⟩ else min := by
  obtain ⟨he, h1, h2, p, hp, _, _, hloc⟩ := hacc
  unfold step
  cases min with
  | none => simp [he, h1, h2, hp, isInRing, hloc]
  | some m => simp [he, h1, h2, hp, isInRing, hloc]

/-- **find_no_later_candidate_inside.**  The loop keeps the LAST candidate of a chain of nested envelopes: no candidate that
comes later in the list and passes the tests has its envelope covered by the envelope of the ring returned.  (This is what the
code guarantees about "innermost"; that envelope nesting reflects ring nesting is a property of the arrangement, not proved.) -/
theorem find_no_later_candidate_inside (test : List Pt) (L : List (List Pt)) (m : Min) (h : findContaining test L = some m)
    (testEnv : Env) (he : envOf test = some testEnv) (j : Nat) (hj : m.idx < j) (ring : List Pt) (e : Env)
    (hr : L[j]? = some ring) (hacc : Accepted test testEnv ring e) : m.env.contains e = false := by
  unfold findContaining at h
  simp only [he] at h
  suffices hinv : ∀ (rest : List (List Pt)) (i : Nat) (min : Option Min),
      (∀ k, rest[k]? = L[i + k]?) →
      (∀ m', min = some m' → m'.idx < i ∧ ∀ j, m'.idx < j → j < i → ∀ ring e, L[j]? = some ring →
          Accepted test testEnv ring e → m'.env.contains e = false) →
      ∀ m', loop test testEnv min i rest = some m' → ∀ j, m'.idx < j → ∀ ring e, L[j]? = some ring →
          Accepted test testEnv ring e → m'.env.contains e = false from
    hinv L 0 none (fun k => by simp) (fun _ hh => by cases hh) m h j hj ring e hr hacc
  intro rest
  induction rest with
  | nil =>
    intro i min hL hmin m' hm' j hj ring e hr hacc
    simp only [loop] at hm'
    obtain ⟨_, hall⟩ := hmin m' hm'
    have hlen : j < i := by
      have := hL (j - i)
      by_cases hji : j < i
      · exact hji
      · have hh : i + (j - i) = j := by omega
        rw [hh, hr] at this
        simp at this
    exact hall j hj hlen ring e hr hacc
  | cons r rest ih =>
    intro i min hL hmin m' hm'
    unfold loop at hm'
    have hri : L[i]? = some r := by simpa using (hL 0).symm
    refine ih (i + 1) (step test testEnv min i r) ?_ ?_ m' hm'
    · intro k
      have := hL (k + 1)
      simpa [Nat.add_assoc, Nat.add_comm 1 k] using this
    · intro m2 hm2
      rcases step_cases test testEnv min i r with hs | ⟨e2, hs, _⟩
      · -- unchanged
        rw [hs] at hm2
        obtain ⟨hlt, hall⟩ := hmin m2 hm2
        refine ⟨by omega, ?_⟩
        intro j2 hj2 hji ring2 e3 hr2 hacc2
        by_cases hjeq : j2 = i
        · subst hjeq
          rw [hri] at hr2
          cases hr2
          have hstep := step_accepted test testEnv min j2 r e3 hacc2
          rw [hs, hm2] at hstep
          simp only at hstep
          by_cases hc : m2.env.contains e3 = true
          · simp only [hc, if_true, Option.some.injEq] at hstep
            have : m2.idx = j2 := by rw [hstep]
            omega
          · simpa using hc
        · exact hall j2 hj2 (by omega) ring2 e3 hr2 hacc2
      · rw [hs] at hm2
        cases hm2
        exact ⟨by simp, fun j hj hji => by simp at hj; omega⟩

/-! ### witness: why the vertex scan is there -/

/-- a U-shaped shell (bay x ∈ [3,7], y ∈ [3,10]) -/
def uShell : List Pt := [⟨3, 3⟩, ⟨7, 3⟩, ⟨7, 10⟩, ⟨10, 10⟩, ⟨10, 0⟩, ⟨0, 0⟩, ⟨0, 10⟩, ⟨3, 10⟩, ⟨3, 3⟩]
/-- the outer ring of a triangle sitting in the bay and touching the corner (3,3), started at each of its three vertices -/
def triAtCorner : List Pt := [⟨3, 3⟩, ⟨6, 6⟩, ⟨4, 8⟩, ⟨3, 3⟩]
def triElsewhere : List Pt := [⟨6, 6⟩, ⟨4, 8⟩, ⟨3, 3⟩, ⟨6, 6⟩]
def triElsewhere2 : List Pt := [⟨4, 8⟩, ⟨3, 3⟩, ⟨6, 6⟩, ⟨4, 8⟩]

/-- the modelled code: the triangle touches the shell from outside, it is not assigned, whatever its start vertex -/
example : findIndex triAtCorner [uShell] = -1 ∧ findIndex triElsewhere [uShell] = -1 ∧ findIndex triElsewhere2 [uShell] = -1 := by decide

/-- **start_vertex_matters_without_scan.**  Without the scan (test point = first vertex) the answer depends on where the
ring's coordinate list starts: assigned to the U when it starts at the shared corner, not assigned otherwise. -/
theorem start_vertex_matters_without_scan :
    (findContainingFirst triAtCorner [uShell]).isSome = true ∧ (findContainingFirst triElsewhere [uShell]).isSome = false ∧
    (findContaining triAtCorner [uShell]).isSome = false := by decide

/-- non-vacuity of `find_sound`: a square hole inside a square shell, sharing no vertex -/
example : findIndex [⟨2, 2⟩, ⟨2, 4⟩, ⟨4, 4⟩, ⟨4, 2⟩, ⟨2, 2⟩] [uShell, [⟨0, 0⟩, ⟨6, 0⟩, ⟨6, 6⟩, ⟨0, 6⟩, ⟨0, 0⟩]] = 1 := by decide
/-- a triangle inside a square shell touching its corner from INSIDE is assigned (the scan skips the shared corner) -/
example : findIndex [⟨0, 0⟩, ⟨1, 3⟩, ⟨1, 1⟩, ⟨0, 0⟩] [[⟨0, 0⟩, ⟨6, 0⟩, ⟨6, 6⟩, ⟨0, 6⟩, ⟨0, 0⟩]] = 0 := by decide

end GeosModel.Lines.HoleAssign
