import GeosModel.Proofs.Tri.Predicates
import GeosModel.Generated.TriPredicates
import Mathlib.Tactic.Ring
import Mathlib.Tactic.Linarith
import Mathlib.Tactic.SplitIfs
/-!
# C16 — the regenerated triangulation predicates are the determinants the theorems are about

`Generated/TriPredicates.lean` is rewritten from `src/triangulate/quadedge/TrianglePredicate.cpp`, `Vertex.h` / `Vertex.cpp`
and `src/triangulate/polygon/TriDelaunayImprover.cpp` by `translate/cxx2lean.py` (spec `tri_predicates`) on every run.  The
C++ computes with `double` (and `long double` in `isInCircleNormalized`); the regenerated definitions are generic over the
carrier and are instantiated here with exact numbers — `Int`, or `Rat` where the code contains the decimal error factor
`9.99200719823023e-16` — on integer points, and proved equal, for all points, to

* `Kernel.det` (`triArea`, `Vertex::isCCW`, `rightOf`, `leftOf`),
* `Tri.inCircleLoc`, the sign of `Kernel.inCircleDet` (`isInCircleNormalized`, `isInCircleNonRobust` — the latter with its first
  two arguments exchanged),
* `Tri.robustInCircleLoc`, the same sign filtered by the error bound `Tri.robustErr` (`isInCircleRobust`), and the two flip tests
  built on it: `Tri.flipInCircle` (`Vertex::isInCircle`, `TriDelaunayImprover::isInCircle`) and `Tri.improverDelaunay`
  (`TriDelaunayImprover::isDelaunay`).

`Kernel.det` / `Kernel.inCircleDet` are what the certificate checkers evaluate and what `inCircle_sign` is about;
`Props/C16.lean` (`inCircleLoc_spec`, `robust_filter_sound`, `flip_only_if_in_circle`, `improver_flip_only_if_in_circle`) states what
the modelled decisions mean.  What the bridges do NOT say: anything about rounding — in floating point the determinant and the
bound are computed with errors; that the bound covers them is the claim of the cited publication, not proved here.

Proof style (so that behaviour-preserving rewrites of the C++ keep the proofs valid): case analysis on the *model* first, then
`split_ifs` on the regenerated code; every leaf is either `rfl` or a contradiction by linear arithmetic over the monomials.
-/
set_option linter.unusedSimpArgs false
set_option linter.unnecessarySeqFocus false
set_option linter.unusedTactic false
set_option linter.unreachableTactic false
namespace GeosModel.C16Gen
open GeosModel GeosModel.Kernel GeosModel.Tri GeosModel.Generated

/-- an integer point as the regenerated code sees it, over `Int` and over `Rat` -/
def xyZ (p : Pt) : Cxx.XY Int := ⟨p.x, p.y⟩
def xyQ (p : Pt) : Cxx.XY Rat := ⟨p.x, p.y⟩

/-- closes a leaf of a case analysis over comparisons of polynomials: both sides agree, the goal is such a comparison, or the
hypotheses are contradictory — by linear arithmetic over the monomials (disequalities are split) -/
macro "leaf" : tactic =>
  `(tactic| first
    | rfl
    | linarith
    | (intros; exfalso; linarith (config := {splitNe := true}))
    | (intros; exfalso; ring_nf at *; linarith (config := {splitNe := true})))

/-- `TrianglePredicate::triArea` = `Kernel.det` -/
theorem gen_triArea_eq (a b c : Pt) : TriPredicates.triArea (R := Int) (xyZ a) (xyZ b) (xyZ c) = Kernel.det a b c := by
  simp [TriPredicates.triArea, Kernel.det, xyZ] <;> ring

/-- `Vertex::isCCW(b, c)` on the vertex `p`: the triangle `(p, b, c)` is counter-clockwise -/
theorem gen_vertexIsCCW_eq (p b c : Pt) :
    TriPredicates.vertexIsCCW (R := Int) (xyZ p) ⟨xyZ b⟩ ⟨xyZ c⟩ = decide (0 < Kernel.det p b c) := by
  by_cases h : 0 < Kernel.det p b c <;> simp only [h, decide_true, decide_false] <;> simp only [Kernel.det] at h <;>
    simp [TriPredicates.vertexIsCCW, xyZ, Cxx.gt] <;> leaf

/-- `Vertex::rightOf(e)`: the vertex is strictly to the right of `e.orig → e.dest` -/
theorem gen_vertexRightOf_eq (p o d : Pt) :
    TriPredicates.vertexRightOf (R := Int) (xyZ p) ⟨⟨xyZ o⟩, ⟨xyZ d⟩⟩ = decide (Kernel.det o d p < 0) := by
  by_cases h : Kernel.det o d p < 0 <;> simp only [h, decide_true, decide_false] <;> simp only [Kernel.det] at h <;>
    simp [TriPredicates.vertexRightOf, TriPredicates.vertexIsCCW, xyZ, Cxx.gt] <;> leaf

/-- `Vertex::leftOf(e)`: the vertex is strictly to the left of `e.orig → e.dest` -/
theorem gen_vertexLeftOf_eq (p o d : Pt) :
    TriPredicates.vertexLeftOf (R := Int) (xyZ p) ⟨⟨xyZ o⟩, ⟨xyZ d⟩⟩ = decide (0 < Kernel.det o d p) := by
  by_cases h : 0 < Kernel.det o d p <;> simp only [h, decide_true, decide_false] <;> simp only [Kernel.det] at h <;>
    simp [TriPredicates.vertexLeftOf, TriPredicates.vertexIsCCW, xyZ, Cxx.gt] <;> leaf

/-- `TrianglePredicate::isInCircleNormalized(a, b, c, p)` = the sign of the in-circle determinant -/
theorem gen_isInCircleNormalized_eq (a b c p : Pt) :
    TriPredicates.isInCircleNormalized (R := Int) (xyZ a) (xyZ b) (xyZ c) (xyZ p) = inCircleLoc a b c p := by
  rcases inCircleLoc_cases a b c p with ⟨hD, hm⟩ | ⟨hD, hm⟩ | ⟨hD, hm⟩ <;> rw [hm] <;> simp only [inCircleDet] at hD <;>
    simp [TriPredicates.isInCircleNormalized, TriPredicates.locOfInt, xyZ, Cxx.gt] <;> split_ifs <;> leaf

/-- `TrianglePredicate::isInCircleNonRobust(p, q, r, t)` = the sign of the in-circle determinant of `(q, p, r, t)`: relative to
`isInCircleRobust` its first two parameters are exchanged, so for a counter-clockwise `(p, q, r)` it answers EXTERIOR for a point
inside the circle (the function is not called anywhere in the library) -/
theorem gen_isInCircleNonRobust_eq (a b c p : Pt) :
    TriPredicates.isInCircleNonRobust (R := Int) (xyZ a) (xyZ b) (xyZ c) (xyZ p) = inCircleLoc b a c p := by
  rcases inCircleLoc_cases b a c p with ⟨hD, hm⟩ | ⟨hD, hm⟩ | ⟨hD, hm⟩ <;> rw [hm] <;> simp only [inCircleDet] at hD <;>
    simp [TriPredicates.isInCircleNonRobust, TriPredicates.locOfInt, xyZ, Cxx.gt] <;> split_ifs <;> leaf

@[simp] theorem rat_abs (a : Rat) : Cxx.Ring.abs a = absR a := rfl
theorem rat_ofDec (m e : Int) : (Cxx.Field.ofDec m e : Rat) = (m : Rat) * Cxx.pow10 e := rfl
/-- the decimal literal `9.99200719823023e-16` of `isInCircleRobust` is `Tri.inCircleEps` (any other literal stays an `ofDec` term
that the model does not contain) -/
@[simp] theorem ofDec_eps : (Cxx.Field.ofDec 999200719823023 (-30) : Rat) = inCircleEps := by
  rw [rat_ofDec]; simp [inCircleEps, Cxx.pow10]

set_option maxHeartbeats 1000000 in
/-- `TrianglePredicate::isInCircleRobust(a, b, c, p)` in exact arithmetic = the in-circle determinant of `(a, b, c, p)` filtered
by `robustErr a b c p` (INTERIOR / EXTERIOR only when the determinant exceeds the bound, BOUNDARY otherwise) -/
theorem gen_isInCircleRobust_eq (a b c p : Pt) :
    TriPredicates.isInCircleRobust (R := Rat) (xyQ a) (xyQ b) (xyQ c) (xyQ p) = robustInCircleLoc a b c p := by
  have hE := robustErr_nonneg a b c p
  have hp := inCircleEps_pos
  unfold robustInCircleLoc
  rcases filteredLoc_cases (inCircleDet a b c p : Int) (robustErr a b c p) with ⟨h1, hm⟩ | ⟨h1, h2, hm⟩ | ⟨h1, h2, hm⟩ <;>
    rw [hm] <;> clear hm <;>
    simp [robustErr, inCircleDet] at hE h1 <;> (try simp [robustErr, inCircleDet] at h2) <;>
    simp [TriPredicates.isInCircleRobust, TriPredicates.locOfInt, xyQ, Cxx.gt] <;>
    simp only [mul_comm, mul_left_comm, add_comm, add_left_comm] at * <;>
    split_ifs <;> leaf

/-- `Vertex::isInCircle(a, b, c)` on the vertex `v` (the flip test of `IncrementalDelaunayTriangulator::insertSite`) -/
theorem gen_vertexIsInCircle_eq (v a b c : Pt) :
    TriPredicates.vertexIsInCircle (R := Rat) (xyQ v) ⟨xyQ a⟩ ⟨xyQ b⟩ ⟨xyQ c⟩ = flipInCircle a b c v := by
  simp [TriPredicates.vertexIsInCircle, flipInCircle, gen_isInCircleRobust_eq]

/-- `TriDelaunayImprover::isInCircle(a, b, c, p)`: the circle is the one through `(a, c, b)` -/
theorem gen_improverIsInCircle_eq (a b c p : Pt) :
    TriPredicates.improverIsInCircle (R := Rat) (xyQ a) (xyQ b) (xyQ c) (xyQ p) = flipInCircle a c b p := by
  simp [TriPredicates.improverIsInCircle, flipInCircle, gen_isInCircleRobust_eq]

/-- `TriDelaunayImprover::isDelaunay(adj0, adj1, opp0, opp1)` -/
theorem gen_improverIsDelaunay_eq (adj0 adj1 opp0 opp1 : Pt) :
    TriPredicates.improverIsDelaunay (R := Rat) (xyQ adj0) (xyQ adj1) (xyQ opp0) (xyQ opp1) = improverDelaunay adj0 adj1 opp0 opp1 := by
  simp only [TriPredicates.improverIsDelaunay, improverDelaunay, gen_improverIsInCircle_eq]
  cases flipInCircle adj0 opp0 adj1 opp1 <;> cases flipInCircle adj1 opp1 adj0 opp0 <;> simp

end GeosModel.C16Gen
