import GeosModel.Model.Simplify.Dist
import GeosModel.Generated.DPSimplify
import GeosModel.Proofs.CxxLoop
import GeosModel.Proofs.Simplify.DP
/-!
# C18 — the regenerated Douglas–Peucker section test and distance are the model the C18 theorems are about

`Generated/DPSimplify.lean` is rewritten from the current C++ (`src/simplify/DouglasPeuckerLineSimplifier.cpp`,
`src/algorithm/Distance.cpp`, `include/geos/geom/LineSegment.h`, `Coordinate.h`) by `translate/cxx2lean.py` (spec
`dp_simplify`) on every run.  The bridge theorems hold for **every** carrier `R` of the arithmetic interface `Cxx.Math` — in
particular for `Float`, the instance `drv_c18 dp` runs against `GEOSSimplify_r` bit for bit — and use no algebraic law:

* `gen_pointToSegment_eq`, `gen_ptDistance_eq`, `gen_equals2D_eq`, `gen_lsDistance_eq`: `LineSegment::distance(p)` as the
  C++ computes it is `DP.cxxOps.dist` (Model/Simplify/Dist.lean), the `dist` of the `Ops` instance all DP theorems of
  `Props/C18.lean` are instantiated with;
* `gen_simplifySection_eq`: the body of `simplifySection(i, j)` — farthest-vertex scan, tolerance test, clearing of `usePt`,
  split at the farthest vertex — is `DP.farthest` + `le` of Model/Simplify/DP.lean, the two recursive calls being an arbitrary
  function `recur` (the translator does not follow recursion);
* `gen_simplifySection_fix`, `gen_simplifySection_unique`, `gen_simplify_mask`: the model's recursion `DP.sectionMask`, read as
  a function on index pairs and `usePt` masks (`modelRec`), satisfies the regenerated equation, and *every* function that
  satisfies it (as the C++ function does whenever it terminates) equals it on all sections the C++ reaches, for every tolerance
  with `-1.0 <= tolerance`; so the mask `simplify()` collects from is the one `DP.simplifyLineMask` applies.  What stays
  correspondence-only: termination, the collecting loop and the ring post-step of `simplify()`.
-/
namespace GeosModel.C18Gen
open GeosModel GeosModel.DP GeosModel.Generated GeosModel.CxxLoop

/-- closes what `simp` leaves of a bridge goal: case split on the remaining `if`s, then arithmetic -/
macro "bridge_finish" : tactic => `(tactic| all_goals ((repeat' split) <;> (try simp_all) <;> (try grind)))

variable {R : Type} [Cxx.Math R]

theorem gen_equals2D_eq (a b : Cxx.XY R) : DPSimplify.equals2D a.x a.y b = eq2D a b := by
  simp [DPSimplify.equals2D, eq2D, Cxx.ne]
  bridge_finish

theorem gen_ptDistance_eq (a b : Cxx.XY R) : DPSimplify.ptDistance a.x a.y b = ptDist a b := by
  simp [DPSimplify.ptDistance, ptDist]

theorem gen_pointToSegment_eq (p A B : Cxx.XY R) : DPSimplify.pointToSegment p A B = pointToSegment p A B := by
  unfold DPSimplify.pointToSegment DP.pointToSegment
  simp [gen_equals2D_eq, gen_ptDistance_eq, Cxx.ge]
  bridge_finish

theorem gen_lsDistance_eq (a b p : Cxx.XY R) : DPSimplify.lsDistance a b p = cxxOps.dist a b p := by
  simp [DPSimplify.lsDistance, gen_pointToSegment_eq, cxxOps]

/-! ### `simplifySection` -/

/-- the value `pts[k]` reads outside the sequence (never happens for `i < j < pts.size()`) -/
def zeroXY : Cxx.XY R := ⟨Cxx.Ring.ofInt 0, Cxx.Ring.ofInt 0⟩

/-- `maxIndex` of the code against the model's relative index (`none` = still `i`) -/
def idxOf (i : Nat) : Option Nat → Nat
  | none => i
  | some k => i + 1 + k

/-- `for (k = lo; k < hi; k++) usePt[k] = false;` -/
def clearRange (use : List Bool) (lo hi : Nat) : List Bool :=
  (List.range' lo (hi - lo)).foldl (fun u k => u.set k false) use

/-- one step of the farthest-vertex loop; state = (maxDistance, maxIndex) -/
def scanStep (a b : Cxx.XY R) (pts : List (Cxx.XY R)) (k : Nat) (s : R × Nat) : ForInStep (R × Nat) :=
  if (cxxOps (R := R)).gt (cxxOps.dist a b (pts.getD k zeroXY)) s.1 then .yield (cxxOps.dist a b (pts.getD k zeroXY), k) else .yield s

theorem scan_loop (a b : Cxx.XY R) (pts : List (Cxx.XY R)) (i : Nat) (F : Nat → R × Nat → Id (ForInStep (R × Nat)))
    (hF : ∀ k s, (F k s).run = scanStep a b pts k s) (n : Nat) :
    ∀ (lo : Nat) (s : R × Nat) (o : Option Nat), lo + n ≤ pts.length → i + 1 ≤ lo → s.2 = idxOf i o →
      (loopFn F (List.range' lo n) s).1 = (scan cxxOps a b ((pts.drop lo).take n) (lo - (i + 1)) (s.1, o)).1 ∧
      (loopFn F (List.range' lo n) s).2 = idxOf i (scan cxxOps a b ((pts.drop lo).take n) (lo - (i + 1)) (s.1, o)).2 := by
  induction n with
  | zero => intro lo s o _ _ hs; simp [loopFn, scan, hs]
  | succ n ih =>
    intro lo s o hlen hlo hs
    have hlt : lo < pts.length := by omega
    have hdrop : (pts.drop lo).take (n + 1) = pts[lo] :: (pts.drop (lo + 1)).take n := by
      rw [List.drop_eq_getElem_cons hlt, List.take_succ_cons]
    have hget : pts.getD lo zeroXY = pts[lo] := by simp [List.getD, hlt]
    simp only [List.range'_succ, loopFn, hF, hdrop, scan, scanStep, hget]
    have hsub : lo + 1 - (i + 1) = lo - (i + 1) + 1 := by omega
    by_cases hc : (cxxOps (R := R)).gt (cxxOps.dist a b pts[lo]) s.1 = true
    · simp only [hc, if_true]
      have := ih (lo + 1) (cxxOps.dist a b pts[lo], lo) (some (lo - (i + 1))) (by omega) (by omega) (by simp [idxOf]; omega)
      rw [hsub] at this
      exact this
    · simp only [hc, Bool.false_eq_true, if_false]
      have := ih (lo + 1) s o (by omega) (by omega) hs
      rw [hsub] at this
      exact this

/-- **the per-section decision** of `DouglasPeuckerLineSimplifier::simplifySection(i, j)`, regenerated from the C++, is the
model's: nothing for an empty interior; otherwise `farthest` (Model/Simplify/DP.lean) of the section `pts[i], pts[i+1..j-1],
pts[j]` with the code's own distance, `maxDistance <= distanceTolerance` clears `usePt[i+1..j-1]`, else the section is split
at the farthest vertex and both halves are handed to the recursive call (`recur`, arbitrary). -/
theorem gen_simplifySection_eq (recur : Nat → Nat → List Bool → List Bool) (pts : List (Cxx.XY R)) (tol : R) (use : List Bool)
    (i j : Nat) (hij : i < j) (hj : j < pts.length) :
    DPSimplify.simplifySection recur pts tol use i j =
      if i + 1 = j then use
      else
        let r := farthest cxxOps (pts.getD i zeroXY) (pts.getD j zeroXY) ((pts.drop (i + 1)).take (j - (i + 1)))
        if (cxxOps (R := R)).le r.1 tol then clearRange use (i + 1) j
        else recur (idxOf i r.2) j (recur i (idxOf i r.2) use) := by
  unfold DPSimplify.simplifySection
  simp [forIn_eq_loopFn]
  by_cases h1 : i + 1 = j
  · simp [h1]
  · simp only [h1, if_false]
    have hi : pts[i]?.getD zeroXY = pts.getD i zeroXY := by simp [List.getD]
    have hjj : pts[j]?.getD zeroXY = pts.getD j zeroXY := by simp [List.getD]
    rw [(scan_loop (pts.getD i zeroXY) (pts.getD j zeroXY) pts i _ ?hF (j - (i + 1)) (i + 1) (_, i) none (by omega) (by omega) rfl).1,
        (scan_loop (pts.getD i zeroXY) (pts.getD j zeroXY) pts i _ ?hF (j - (i + 1)) (i + 1) (_, i) none (by omega) (by omega) rfl).2]
    · simp [farthest, clearRange, List.getD, Nat.sub_self, cxxOps]
      bridge_finish
    · intro k s
      simp [scanStep, gen_lsDistance_eq, zeroXY, List.getD, Cxx.gt, cxxOps]
      bridge_finish

/-- what `clearRange` does to the mask: positions `lo ≤ k < hi` become `false`, the others are untouched -/
theorem clearRange_getElem? (use : List Bool) (lo hi k : Nat) :
    (clearRange use lo hi)[k]? = if lo ≤ k ∧ k < hi then (use[k]?).map (fun _ => false) else use[k]? := by
  unfold clearRange
  generalize hn : hi - lo = n
  induction n generalizing use lo hi with
  | zero =>
    have : ¬ (lo ≤ k ∧ k < hi) := by omega
    simp [this]
  | succ n ih =>
    simp only [List.range'_succ, List.foldl_cons]
    rw [ih (use.set lo false) (lo + 1) hi (by omega)]
    by_cases h1 : lo = k
    · subst h1
      have : ¬ (lo + 1 ≤ lo ∧ lo < hi) := by omega
      have h2 : lo ≤ lo ∧ lo < hi := by omega
      simp only [this, h2, if_false, and_self, if_true, List.getElem?_set_self']
      cases use[lo]? <;> simp
    · have h3 : (lo + 1 ≤ k ∧ k < hi) ↔ (lo ≤ k ∧ k < hi) := by omega
      simp only [h3, List.getElem?_set_ne h1]

/-! ### the recursion as a whole: the model's `sectionMask` is *the* solution of the regenerated equation -/

/-- overwrite `use[lo .. lo + m.length - 1]` by `m` -/
def splice (use : List Bool) (lo : Nat) (m : List Bool) : List Bool := use.take lo ++ m ++ use.drop (lo + m.length)

theorem splice_getElem? (use : List Bool) (lo : Nat) (m : List Bool) (k : Nat) (h : lo + m.length ≤ use.length) :
    (splice use lo m)[k]? = if k < lo then use[k]? else if k < lo + m.length then m[k - lo]? else use[k]? := by
  unfold splice
  have hl : (use.take lo).length = lo := by simp; omega
  by_cases h1 : k < lo
  · simp only [h1, if_true, List.append_assoc]
    rw [List.getElem?_append_left (by omega)]
    simp [List.getElem?_take, h1]
  · by_cases h2 : k < lo + m.length
    · simp only [h1, h2, if_false, if_true, List.append_assoc]
      rw [List.getElem?_append_right (by omega), hl, List.getElem?_append_left (by omega)]
    · simp only [h1, h2, if_false, List.append_assoc]
      rw [List.getElem?_append_right (by omega), hl, List.getElem?_append_right (by omega), List.getElem?_drop]
      congr 1; omega

theorem splice_length (use : List Bool) (lo : Nat) (m : List Bool) (h : lo + m.length ≤ use.length) :
    (splice use lo m).length = use.length := by
  unfold splice; simp; omega

theorem splice_nil (use : List Bool) (lo : Nat) : splice use lo [] = use := by simp [splice]

/-- two neighbouring pieces written one after the other, the position between them being `true` already -/
theorem splice_splice (use X Y : List Bool) (lo : Nat) (h : lo + X.length + 1 + Y.length ≤ use.length)
    (ht : use[lo + X.length]? = some true) :
    splice (splice use lo X) (lo + X.length + 1) Y = splice use lo (X ++ true :: Y) := by
  apply List.ext_getElem?
  intro n
  have hl1 : (splice use lo X).length = use.length := splice_length _ _ _ (by omega)
  rw [splice_getElem? _ _ _ _ (by rw [hl1]; omega), splice_getElem? _ _ _ _ (by omega),
    splice_getElem? _ _ _ _ (by simp; omega)]
  simp only [List.length_append, List.length_cons]
  by_cases c1 : n < lo
  · have : n < lo + X.length + 1 := by omega
    simp [c1, this]
  · by_cases c2 : n < lo + X.length
    · have c3 : n < lo + X.length + 1 := by omega
      have c4 : n < lo + (X.length + (Y.length + 1)) := by omega
      simp only [c1, c2, c3, c4, if_true, if_false]
      rw [List.getElem?_append_left (by omega)]
    · by_cases c3 : n = lo + X.length
      · subst c3
        have c5 : lo + X.length < lo + X.length + 1 := by omega
        have c4 : lo + X.length < lo + (X.length + (Y.length + 1)) := by omega
        simp only [c1, c2, c5, c4, if_true, if_false, ht]
        rw [List.getElem?_append_right (by omega)]
        simp
      · by_cases c6 : n < lo + X.length + 1 + Y.length
        · have c7 : ¬ n < lo + X.length + 1 := by omega
          have c4 : n < lo + (X.length + (Y.length + 1)) := by omega
          simp only [c1, c7, c6, c4, if_true, if_false]
          rw [List.getElem?_append_right (by omega)]
          have : n - lo - X.length = (n - (lo + X.length + 1)) + 1 := by omega
          rw [this, List.getElem?_cons_succ]
        · have c7 : ¬ n < lo + X.length + 1 := by omega
          have c4 : ¬ n < lo + (X.length + (Y.length + 1)) := by omega
          simp only [c1, c2, c7, c6, c4, if_false]

theorem getElem?_constMask {α : Type} (l : List α) (c : Bool) (n : Nat) (h : n < l.length) :
    (l.map fun _ => c)[n]? = some c := by simp [h]

/-- the relative index found by the farthest-vertex scan points into the section interior -/
theorem scan_idx {Pt D : Type} (o : Ops Pt D) (a b : Pt) : ∀ (l : List Pt) (k0 : Nat) (acc : D × Option Nat),
    (∀ k, acc.2 = some k → k < k0) → ∀ k, (scan o a b l k0 acc).2 = some k → k < k0 + l.length
  | [], k0, acc, h, k, hk => by simpa [scan] using h k (by simpa [scan] using hk)
  | p :: ps, k0, acc, h, k, hk => by
    simp only [scan] at hk
    have := scan_idx o a b ps (k0 + 1) _ (by
      intro k' hk'
      split at hk'
      · simp at hk'; omega
      · have := h k' hk'; omega) k hk
    simp only [List.length_cons]; omega

theorem farthest_idx {Pt D : Type} (o : Ops Pt D) (a b : Pt) (mid : List Pt) (k : Nat)
    (h : (farthest o a b mid).2 = some k) : k < mid.length := by
  have := scan_idx o a b mid 0 (o.init, none) (by simp) k h
  simpa using this

theorem sectionMask_nil {Pt D : Type} (o : Ops Pt D) (tol : D) (fuel : Nat) (a b : Pt) : sectionMask o tol fuel a [] b = [] := by
  cases fuel <;> simp [sectionMask]

/-- the interior `pts[i+1 .. j-1]` of the section `(i, j)` -/
def midOf (pts : List (Cxx.XY R)) (i j : Nat) : List (Cxx.XY R) := (pts.drop (i + 1)).take (j - (i + 1))

theorem midOf_length (pts : List (Cxx.XY R)) (i j : Nat) (hj : j < pts.length) : (midOf pts i j).length = j - (i + 1) := by
  simp [midOf]; omega

/-- the model's recursion `DP.sectionMask` as a function on index pairs and `usePt` masks: the mask of the interior of the
section `(i, j)` is written over `usePt[i+1 .. j-1]` -/
def modelRec (pts : List (Cxx.XY R)) (tol : R) (fuel : Nat) (i j : Nat) (use : List Bool) : List Bool :=
  splice use (i + 1) (sectionMask cxxOps tol fuel (pts.getD i zeroXY) (midOf pts i j) (pts.getD j zeroXY))

theorem gen_simplifySection_fix (pts : List (Cxx.XY R)) (tol : R) (fuel : Nat) (use : List Bool) (i j : Nat)
    (hij : i < j) (hj : j < pts.length) (hlen : use.length = pts.length)
    (htrue : ∀ k, i < k → k < j → use[k]? = some true) :
    DPSimplify.simplifySection (modelRec pts tol fuel) pts tol use i j = modelRec pts tol (fuel + 1) i j use := by
  rw [gen_simplifySection_eq _ pts tol use i j hij hj]
  by_cases h1 : i + 1 = j
  · have hm : midOf pts i j = [] := by simp [midOf, ← h1]
    simp [h1, modelRec, hm, sectionMask_nil, splice]
  · simp only [h1, if_false]
    have hml := midOf_length pts i j hj
    show _ = modelRec pts tol (fuel + 1) i j use
    unfold modelRec
    change _ = splice use (i + 1) (sectionMask cxxOps tol (fuel + 1) (pts.getD i zeroXY) (midOf pts i j) (pts.getD j zeroXY))
    generalize hmid : midOf pts i j = mid at hml
    have hmid' : List.take (j - (i + 1)) (List.drop (i + 1) pts) = mid := hmid
    simp only [hmid']
    cases hm : mid with
    | nil => rw [hm] at hml; simp at hml; omega
    | cons x xs =>
      subst hm
      simp only [sectionMask]
      have hml' : xs.length + 1 = j - (i + 1) := by simpa using hml
      generalize hr : farthest cxxOps (pts.getD i zeroXY) (pts.getD j zeroXY) (x :: xs) = r
      by_cases hle : (cxxOps (R := R)).le r.1 tol = true
      · -- the whole interior is dropped
        simp only [hle, if_true]
        apply List.ext_getElem?
        intro k
        rw [clearRange_getElem?, splice_getElem? _ _ _ _ (by simp; omega)]
        simp only [List.length_map, hml]
        by_cases hk1 : k < i + 1
        · have : ¬ (i + 1 ≤ k ∧ k < j) := by omega
          simp [hk1, this]
        · by_cases hk2 : k < j
          · have h3 : i + 1 ≤ k ∧ k < j := by omega
            have h4 : k < i + 1 + (j - (i + 1)) := by omega
            have h5 : k < use.length := by omega
            have h6 : k - (i + 1) < (x :: xs).length := by omega
            simp only [hk1, h3, h4, and_self, if_true, if_false]
            rw [List.getElem?_eq_getElem h5]
            exact (getElem?_constMask (x :: xs) false _ h6).symm
          · have : ¬ (i + 1 ≤ k ∧ k < j) := by omega
            have h4 : ¬ k < i + 1 + (j - (i + 1)) := by omega
            simp [hk1, this, h4]
      · simp only [hle, if_false, Bool.false_eq_true]
        cases hs : r.2 with
        | none =>
          -- no vertex exceeded the initial -1.0 and -1.0 <= tolerance is false: the C++ recurses on (i, i) and (i, j)
          have hii : midOf pts i i = [] := by simp [midOf]
          simp only [idxOf, hii, sectionMask_nil, splice_nil, hmid]
          congr 1
          cases fuel with
          | zero => simp [sectionMask]
          | succ f => simp only [sectionMask, hr, hle, if_false, Bool.false_eq_true, hs]
        | some k =>
          have hk : k < (x :: xs).length := farthest_idx _ _ _ _ k (by rw [hr]; exact hs)
          have hk' : k < j - (i + 1) := by omega
          have hA : midOf pts i (i + 1 + k) = (x :: xs).take k := by
            rw [← hmid']
            simp only [midOf, List.take_take]
            congr 1; omega
          have hB : pts.getD (i + 1 + k) zeroXY = (x :: xs)[k] := by
            have : i + 1 + k < pts.length := by omega
            simp only [List.getD, List.getElem?_eq_getElem this, Option.getD_some]
            simp only [← hmid', List.getElem_take, List.getElem_drop]
          have hC : midOf pts (i + 1 + k) j = (x :: xs).drop (k + 1) := by
            rw [← hmid']
            simp only [midOf, List.drop_take, List.drop_drop]
            have e1 : j - (i + 1 + k + 1) = j - (i + 1) - (k + 1) := by omega
            have e2 : i + 1 + k + 1 = i + 1 + (k + 1) := by omega
            rw [e1, e2]
          simp only [idxOf, hA, hB, hC, List.drop_eq_getElem_cons hk]
          have hX := sectionMask_length (cxxOps (R := R)) tol fuel (pts.getD i zeroXY) ((x :: xs).take k) (x :: xs)[k]
          have hY := sectionMask_length (cxxOps (R := R)) tol fuel (x :: xs)[k] ((x :: xs).drop (k + 1)) (pts.getD j zeroXY)
          have hXl : (sectionMask (cxxOps (R := R)) tol fuel (pts.getD i zeroXY) ((x :: xs).take k) (x :: xs)[k]).length = k := by
            rw [hX]; simp; omega
          have e : i + 1 + k + 1 = (i + 1) + (sectionMask (cxxOps (R := R)) tol fuel (pts.getD i zeroXY) ((x :: xs).take k) (x :: xs)[k]).length + 1 := by
            rw [hXl]
          rw [e]
          have hk2 : k < xs.length + 1 := by simpa using hk
          apply splice_splice
          · rw [hXl, hY]; simp; omega
          · rw [hXl]; exact htrue (i + 1 + k) (by omega) (by omega)

/-- if no vertex exceeded the initial `maxDistance`, it still is the initial value -/
theorem scan_none_fst {Pt D : Type} (o : Ops Pt D) (a b : Pt) : ∀ (l : List Pt) (k0 : Nat) (acc : D × Option Nat),
    (scan o a b l k0 acc).2 = none → (scan o a b l k0 acc).1 = acc.1 ∧ acc.2 = none
  | [], _, acc, h => by simpa [scan] using h
  | p :: ps, k0, acc, h => by
    simp only [scan] at h ⊢
    by_cases hc : o.gt (o.dist a b p) acc.1 = true
    · simp only [hc, if_true] at h ⊢
      have := scan_none_fst o a b ps (k0 + 1) _ h
      simp at this
    · simp only [hc, if_false, Bool.false_eq_true] at h ⊢
      exact scan_none_fst o a b ps (k0 + 1) acc h

/-- **the recursion as a whole.**  Any function `f` that satisfies the regenerated defining equation of
`DouglasPeuckerLineSimplifier::simplifySection` — which the C++ function does, being defined by that body, whenever it
terminates — computes the model's `DP.sectionMask` on every section `i < j < pts.size()` whose interior flags are still all
`true` (the state in which the C++ reaches every section), provided `-1.0 <= distanceTolerance` (any tolerance ≥ 0). -/
theorem gen_simplifySection_unique (pts : List (Cxx.XY R)) (tol : R)
    (hinit : (cxxOps (R := R)).le cxxOps.init tol = true)
    (f : Nat → Nat → List Bool → List Bool)
    (hf : ∀ i j use, i < j → j < pts.length → f i j use = DPSimplify.simplifySection f pts tol use i j) :
    ∀ (n i j : Nat) (use : List Bool), j - i ≤ n → i < j → j < pts.length → use.length = pts.length →
      (∀ k, i < k → k < j → use[k]? = some true) → f i j use = modelRec pts tol n i j use := by
  intro n
  induction n with
  | zero => intro i j use h hij; omega
  | succ n ih =>
    intro i j use hn hij hj hlen htrue
    rw [← gen_simplifySection_fix pts tol n use i j hij hj hlen htrue, hf i j use hij hj,
      gen_simplifySection_eq f pts tol use i j hij hj, gen_simplifySection_eq (modelRec pts tol n) pts tol use i j hij hj]
    by_cases h1 : i + 1 = j
    · simp [h1]
    · simp only [h1, if_false]
      generalize hr : farthest cxxOps (pts.getD i zeroXY) (pts.getD j zeroXY) (List.take (j - (i + 1)) (List.drop (i + 1) pts)) = r
      by_cases hle : (cxxOps (R := R)).le r.1 tol = true
      · simp [hle]
      · simp only [hle, if_false, Bool.false_eq_true]
        cases hs : r.2 with
        | none =>
          have := scan_none_fst (cxxOps (R := R)) _ _ _ 0 (cxxOps.init, none) (by
            have : (farthest cxxOps (pts.getD i zeroXY) (pts.getD j zeroXY) (List.take (j - (i + 1)) (List.drop (i + 1) pts))).2 = none := by
              rw [hr]; exact hs
            exact this)
          have h2 : r.1 = (cxxOps (R := R)).init := by rw [← hr]; exact this.1
          rw [h2] at hle
          exact absurd hinit hle
        | some k =>
          have hk : k < (List.take (j - (i + 1)) (List.drop (i + 1) pts)).length :=
            farthest_idx _ _ _ _ k (by rw [hr]; exact hs)
          have hk' : k < j - (i + 1) := by
            have := hk; simp at this; omega
          simp only [idxOf]
          have e1 : f i (i + 1 + k) use = modelRec pts tol n i (i + 1 + k) use :=
            ih i (i + 1 + k) use (by omega) (by omega) (by omega) hlen (fun q h1 h2 => htrue q h1 (by omega))
          rw [e1]
          have hl2 : (modelRec pts tol n i (i + 1 + k) use).length = pts.length := by
            unfold modelRec
            rw [splice_length _ _ _ (by rw [sectionMask_length, midOf_length pts i (i + 1 + k) (by omega)]; omega), hlen]
          refine ih (i + 1 + k) j _ (by omega) (by omega) hj hl2 ?_
          intro q hq1 hq2
          unfold modelRec
          rw [splice_getElem? _ _ _ _ (by rw [sectionMask_length, midOf_length pts i (i + 1 + k) (by omega)]; omega)]
          rw [sectionMask_length, midOf_length pts i (i + 1 + k) (by omega)]
          have c1 : ¬ q < i + 1 := by omega
          have c2 : ¬ q < i + 1 + (i + 1 + k - (i + 1)) := by omega
          simp only [c1, c2, if_false]
          exact htrue q (by omega) hq2

/-- … hence the `usePt` mask after `simplifySection(0, n-1)` on the all-`true` mask — the state `simplify()` collects the
result from — is the mask `DP.simplifyLineMask` applies (Model/Simplify/DP.lean; equal to the list form all DP theorems of
`Props/C18.lean` are about by `dp_mask_eq`) -/
theorem gen_simplify_mask (a : Cxx.XY R) (rest : List (Cxx.XY R)) (b : Cxx.XY R) (hb : rest.getLast? = some b) (tol : R)
    (hinit : (cxxOps (R := R)).le cxxOps.init tol = true)
    (f : Nat → Nat → List Bool → List Bool)
    (hf : ∀ i j use, i < j → j < (a :: rest).length → f i j use = DPSimplify.simplifySection f (a :: rest) tol use i j) :
    f 0 rest.length (List.replicate (rest.length + 1) true) =
      true :: (sectionMask cxxOps tol rest.length a rest.dropLast b ++ [true]) := by
  have hne : rest ≠ [] := by intro h; simp [h] at hb
  have hpos : 0 < rest.length := List.length_pos_iff.mpr hne
  rw [gen_simplifySection_unique (a :: rest) tol hinit f hf rest.length 0 rest.length _ (by omega) hpos (by simp)
    (by simp) (by intro k h1 h2; simp [List.getElem?_replicate]; omega)]
  have hmid : midOf (a :: rest) 0 rest.length = rest.dropLast := by
    simp [midOf, List.dropLast_eq_take]
  have hlast : (a :: rest).getD rest.length zeroXY = b := by
    have : rest.getLast? = rest[rest.length - 1]? := by rw [List.getLast?_eq_getElem?]
    rw [this] at hb
    have e : rest.length = (rest.length - 1) + 1 := by omega
    simp only [List.getD]
    rw [e, List.getElem?_cons_succ, hb]; rfl
  unfold modelRec
  rw [hmid, hlast]
  simp only [List.getD, List.getElem?_cons_zero, Option.getD_some]
  have hlen := sectionMask_length (cxxOps (R := R)) tol rest.length a rest.dropLast b
  apply List.ext_getElem?
  intro k
  rw [splice_getElem? _ _ _ _ (by rw [hlen]; simp; omega), hlen]
  simp only [List.length_dropLast]
  by_cases c1 : k < 0 + 1
  · have : k = 0 := by omega
    subst this; simp
  · obtain ⟨k', rfl⟩ : ∃ k', k = k' + 1 := ⟨k - 1, by omega⟩
    simp only [c1, if_false, List.getElem?_cons_succ]
    by_cases c2 : k' + 1 < 0 + 1 + (rest.length - 1)
    · simp only [c2, if_true]
      rw [List.getElem?_append_left (by rw [hlen]; simp; omega)]
      simp
    · simp only [c2, if_false]
      rw [List.getElem?_append_right (by rw [hlen]; simp; omega), hlen]
      simp only [List.length_dropLast, List.getElem?_replicate]
      by_cases c3 : k' + 1 < rest.length + 1
      · have : k' - (rest.length - 1) = 0 := by omega
        simp [c3, this]
      · have : k' - (rest.length - 1) ≠ 0 := by omega
        simp [c3]
        omega

/-! non-vacuity: the regenerated section test computes on the exact carrier `Int`-free instance… the hypotheses `i < j <
pts.length` are satisfiable and both branches of the decision occur (carrier `Float` is not evaluable in the kernel; the
theorem is used at `Float` by the driver) -/
example : clearRange [true, true, true, true, true] 1 4 = [true, false, false, false, true] := by decide
example : idxOf 3 none = 3 ∧ idxOf 3 (some 2) = 6 := by decide

end GeosModel.C18Gen
