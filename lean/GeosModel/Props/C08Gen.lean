import GeosModel.Proofs.Distance.RealCxx
import GeosModel.Proofs.Distance.RealBridge
import GeosModel.Proofs.Distance.SegSegReal
import GeosModel.Proofs.Kernel.SegSegLemmas
import GeosModel.Model.Distance.BB
import GeosModel.Generated.DistanceCore
import Mathlib.Tactic.SplitIfs
import Mathlib.Tactic.Tauto
/-!
# C08 — the regenerated distance primitives are the specification the theorems are about

`Generated/DistanceCore.lean` is rewritten from `src/algorithm/Distance.cpp`, `include/geos/geom/Coordinate.h` and
`include/geos/geom/Envelope.h` by `translate/cxx2lean.py` (spec `distance_core`) on every run.  The C++ computes with `double`;
the regenerated definitions are generic over the carrier and are instantiated here

* with `Int` where the code only compares, adds and multiplies — `Envelope::distanceSquared` is `Distance.boxBox2` (the bound of
  `env_distance_lower_bound`), the static `Envelope::intersects(p1,p2,q1,q2)` is `Kernel.envIntersects`;
* with `ℝ` (`std::sqrt` = `Real.sqrt`, instance `Proofs/Distance/RealCxx.lean`) where it divides and takes square roots —
  `CoordinateXY::distance`, `Envelope::distance` and `Distance::pointToSegment`, which for all integer points equals
  `√(pointSeg2 p a b)`: the square root of the exact rational that `dist2_pointSeg_exact` proves to be the minimum of
  `|p − (a + t(b−a))|²` over the segment (`Proofs/Distance/RealBridge.lean` reads the rational specification in `ℝ`).

What the bridges do NOT say: anything about rounding.  In `double` the quotient `r` and the products are rounded; the correspondence
streams `distance` / `distance-fp` compare the compiled code with the exact specification to 1e-12 relative.

Proof style: `split_ifs` over all tests of the regenerated code and of the model, hypotheses pushed into the remaining `if`s; a
leaf is closed by `rfl`, by ring normalisation of both sides, or because its hypotheses contradict each other after normalisation.
-/
set_option linter.unusedSimpArgs false
set_option linter.unnecessarySeqFocus false
set_option linter.unusedTactic false
set_option linter.unreachableTactic false
namespace GeosModel.C08Gen
open GeosModel GeosModel.Kernel GeosModel.Distance GeosModel.Generated GeosModel.SegSeg

/-- an integer point as the regenerated code sees it, over `Int` and over `ℝ` -/
def xyZ (p : Pt) : Cxx.XY Int := ⟨p.x, p.y⟩
noncomputable def xyR (p : Pt) : Cxx.XY ℝ := ⟨p.x, p.y⟩

macro "leaf" : tactic =>
  `(tactic| first
    | rfl
    | linarith
    | (intros; exfalso; linarith (config := {splitNe := true}))
    | (ring_nf; done)
    | (simp_all; done)
    | tauto
    | (intros; exfalso; ring_nf at *; first | contradiction | tauto | (simp_all; done) | linarith (config := {splitNe := true})))

/-- all tests split, the hypotheses pushed into what is left of the `if`s, then every leaf -/
macro "cases_leaf" : tactic =>
  `(tactic| (iterate 5 (all_goals (try split_ifs); all_goals (try simp only [*, if_true, if_false, not_true_eq_false, not_false_eq_true]))
             all_goals leaf))

/-! ### `CoordinateXY` -/

/-- `operator==(a, b)` / `equals2D`: both ordinates equal -/
theorem gen_coordEq_eq (a b : Cxx.XY ℝ) : DistanceCore.coordEq a b = decide (a.x = b.x ∧ a.y = b.y) := by
  by_cases h1 : a.x = b.x <;> by_cases h2 : a.y = b.y <;>
    simp [DistanceCore.coordEq, DistanceCore.coordEquals2D, Cxx.ne, h1, h2]

/-- on integer points `operator==` is equality of the points -/
theorem gen_coordEq_pt (a b : Pt) : DistanceCore.coordEq (xyZ a) (xyZ b) = decide (a = b) := by
  obtain ⟨ax, ay⟩ := a; obtain ⟨bx, by'⟩ := b
  by_cases h1 : ax = bx <;> by_cases h2 : ay = by' <;>
    simp [DistanceCore.coordEq, DistanceCore.coordEquals2D, Cxx.ne, xyZ, h1, h2]

/-- `CoordinateXY::distance`: the square root of the squared distance -/
theorem gen_coordDistance_eq (px py qx qy : ℝ) :
    DistanceCore.coordDistance px py ⟨qx, qy⟩ = Real.sqrt (d2R px py qx qy) := by
  simp [DistanceCore.coordDistance, d2R] <;> ring_nf

/-! ### `Envelope` -/

/-- `std::min` / `std::max` on exact integers -/
theorem cxx_min_int (a b : Int) : Cxx.min a b = min a b := by
  simp only [Cxx.min, Cxx.int_lt, decide_eq_true_eq]; split_ifs <;> omega
theorem cxx_max_int (a b : Int) : Cxx.max a b = max a b := by
  simp only [Cxx.max, Cxx.int_lt, decide_eq_true_eq]; split_ifs <;> omega

/-- the static `Envelope::intersects(p1, p2, q1, q2)` is `Kernel.envIntersects` -/
theorem gen_envIntersects4_eq (p1 p2 q1 q2 : Pt) :
    DistanceCore.envIntersects4 (R := Int) (xyZ p1) (xyZ p2) (xyZ q1) (xyZ q2) = envIntersects p1 p2 q1 q2 := by
  rw [Bool.eq_iff_iff, envIntersects_iff]
  simp [DistanceCore.envIntersects4, xyZ, Cxx.gt, cxx_min_int, cxx_max_int] <;> omega

/-- **`Envelope::distanceSquared` is `boxBox2`**, the quantity `env_distance_lower_bound` proves to be a lower bound of the squared
distance of any two points of the two boxes -/
theorem gen_envDistanceSquared_eq (a b : Box) :
    DistanceCore.envDistanceSquared (R := Int) a.minx a.maxx a.miny a.maxy ⟨b.minx, b.maxx, b.miny, b.maxy⟩ = boxBox2 a b := by
  simp [DistanceCore.envDistanceSquared, boxBox2, gap] <;> cases_leaf

/-- `Envelope::distance` over `ℝ` is the square root of `boxBox2` -/
theorem gen_envDistance_eq (a b : Box) :
    DistanceCore.envDistance (R := ℝ) a.minx a.maxx a.miny a.maxy ⟨b.minx, b.maxx, b.miny, b.maxy⟩
      = Real.sqrt ((boxBox2 a b : Int) : ℝ) := by
  simp only [DistanceCore.envDistance, Id.run, pure, Cxx.real_sqrt]
  congr 1
  simp [DistanceCore.envDistanceSquared, boxBox2, gap]
  split_ifs <;> (try simp only [*, if_true, if_false, not_true_eq_false, not_false_eq_true]) <;>
    first | (push_cast; ring_nf; done) | (exfalso; linarith) | (exfalso; push_cast at *; linarith)

/-! ### `Distance::pointToSegment` -/

/-- unfolding the arithmetic of regenerated code over `ℝ` -/
macro "real_arith" : tactic =>
  `(tactic| simp only [Cxx.ge, Cxx.gt, Cxx.ne, Id.run, pure, bind, Cxx.real_le, Cxx.real_lt, Cxx.real_eq, Cxx.real_div, Cxx.real_add,
    Cxx.real_sub, Cxx.real_mul, Cxx.real_neg, Cxx.real_ofInt, Cxx.real_abs, Cxx.real_sqrt, decide_eq_true_eq, Int.cast_one, Int.cast_zero,
    Bool.or_eq_true, Bool.and_eq_true, Bool.not_eq_true', decide_eq_false_iff_not, decide_not, Bool.decide_or, Bool.decide_and])

/-- for all real arguments the regenerated `pointToSegment` is the clamp formula `pointSegR` -/
theorem gen_pointToSegment_real (px py ax ay bx by' : ℝ) :
    DistanceCore.pointToSegment (R := ℝ) ⟨px, py⟩ ⟨ax, ay⟩ ⟨bx, by'⟩ = pointSegR px py ax ay bx by' := by
  by_cases hab : ax = bx ∧ ay = by'
  · obtain ⟨rfl, rfl⟩ := hab
    simp [DistanceCore.pointToSegment, pointSegR, gen_coordEq_eq, gen_coordDistance_eq]
  · have hba : ¬ (bx = ax ∧ by' = ay) := fun h => hab ⟨h.1.symm, h.2.symm⟩
    simp only [DistanceCore.pointToSegment, pointSegR, gen_coordEq_eq, gen_coordDistance_eq, d2R, hab, hba, decide_false, if_false,
      Bool.false_eq_true]
    real_arith
    cases_leaf

/-- **`Distance::pointToSegment` in exact arithmetic is the square root of `pointSeg2`**, for all integer points -/
theorem gen_pointToSegment_eq (p a b : Pt) :
    DistanceCore.pointToSegment (R := ℝ) (xyR p) (xyR a) (xyR b) = Real.sqrt (pointSeg2 p a b).toReal := by
  rw [← pointSegR_eq]; exact gen_pointToSegment_real _ _ _ _ _ _

/-! ### `Distance::segmentToSegment` -/

theorem cxx_min_real (a b : ℝ) : Cxx.min a b = min a b := by
  simp only [Cxx.min, Cxx.real_lt, decide_eq_true_eq]; split_ifs with h
  · exact (min_eq_right (le_of_lt h)).symm
  · exact (min_eq_left (not_lt.mp h)).symm
theorem cxx_max_real (a b : ℝ) : Cxx.max a b = max a b := by
  simp only [Cxx.max, Cxx.real_lt, decide_eq_true_eq]; split_ifs with h
  · exact (max_eq_right (le_of_lt h)).symm
  · exact (max_eq_left (not_lt.mp h)).symm

open Classical in
/-- the static `Envelope::intersects(p1, p2, q1, q2)` over `ℝ` is the envelope test `envR` of `segSegR` -/
theorem gen_envIntersects4_real (p1x p1y p2x p2y q1x q1y q2x q2y : ℝ) :
    DistanceCore.envIntersects4 (R := ℝ) ⟨p1x, p1y⟩ ⟨p2x, p2y⟩ ⟨q1x, q1y⟩ ⟨q2x, q2y⟩
      = decide (envR p1x p1y p2x p2y q1x q1y q2x q2y) := by
  -- the four comparisons `max … < min …` are the atoms of both sides (argument order of min / max normalised)
  rw [Bool.eq_iff_iff, decide_eq_true_eq]
  simp only [DistanceCore.envIntersects4, envR, Cxx.gt, cxx_min_real, cxx_max_real, Cxx.real_lt, Id.run, pure, bind]
  (try simp only [min_comm, max_comm])
  by_cases h1 : max q1x q2x < min p1x p2x <;> by_cases h2 : max p1x p2x < min q1x q2x <;>
    by_cases h3 : max q1y q2y < min p1y p2y <;> by_cases h4 : max p1y p2y < min q1y q2y <;>
    (try simp only [min_comm, max_comm] at h1 h2 h3 h4) <;> simp [h1, h2, h3, h4]

/-- for all real arguments the regenerated `segmentToSegment` is the decision skeleton `segSegR` -/
theorem gen_segmentToSegment_real (ax ay bx by' cx cy dx dy : ℝ) :
    DistanceCore.segmentToSegment (R := ℝ) ⟨ax, ay⟩ ⟨bx, by'⟩ ⟨cx, cy⟩ ⟨dx, dy⟩ = segSegR ax ay bx by' cx cy dx dy := by
  have hb := gen_envIntersects4_real ax ay bx by' cx cy dx dy
  by_cases hab : ax = bx ∧ ay = by'
  · obtain ⟨rfl, rfl⟩ := hab
    simp [DistanceCore.segmentToSegment, segSegR, gen_coordEq_eq, gen_pointToSegment_real]
  have hba : ¬ (bx = ax ∧ by' = ay) := fun h => hab ⟨h.1.symm, h.2.symm⟩
  by_cases hcd : cx = dx ∧ cy = dy
  · obtain ⟨rfl, rfl⟩ := hcd
    simp [DistanceCore.segmentToSegment, segSegR, gen_coordEq_eq, gen_pointToSegment_real, hab, hba]
  have hdc : ¬ (dx = cx ∧ dy = cy) := fun h => hcd ⟨h.1.symm, h.2.symm⟩
  by_cases hE : envR ax ay bx by' cx cy dx dy
  · simp only [hE, decide_true] at hb
    simp only [DistanceCore.segmentToSegment, segSegR, gen_coordEq_eq, gen_pointToSegment_real, cxx_min_real, hab, hba, hcd, hdc, hE,
      decide_false, if_false, Bool.false_eq_true, not_true_eq_false, false_or]
    rw [hb]
    real_arith
    first | done | cases_leaf
  · simp only [hE, decide_false] at hb
    simp only [DistanceCore.segmentToSegment, segSegR, gen_coordEq_eq, gen_pointToSegment_real, cxx_min_real, hab, hba, hcd, hdc, hE,
      decide_false, if_false, Bool.false_eq_true, not_false_eq_true, true_or, if_true]
    rw [hb]
    real_arith
    first | done | cases_leaf

/-- **`Distance::segmentToSegment` in exact arithmetic is the square root of `segSeg2`**, for all integer points: the parameter
tests `r, s ∈ [0,1]` of the C++ and the exact predicate `Kernel.segRel` of the specification lead to the same value -/
theorem gen_segmentToSegment_eq (a b c d : Pt) :
    DistanceCore.segmentToSegment (R := ℝ) (xyR a) (xyR b) (xyR c) (xyR d) = Real.sqrt (segSeg2 a b c d).toReal := by
  rw [← segSegR_eq]; exact gen_segmentToSegment_real _ _ _ _ _ _ _ _

end GeosModel.C08Gen
