import GeosModel.Proofs.Norm.Area
import GeosModel.Proofs.Norm.Length
import GeosModel.Proofs.Construct.Check
import GeosModel.Proofs.Construct.InteriorPoint
import GeosModel.Proofs.Construct.ScanParity
import GeosModel.Model.Norm.Orientation
/-!
# C20 — constructions satisfy their defining conditions; normal form is canonical

Part 1 (normalisation).  `GeosModel.Norm.normalize` (Model/Norm/Normalize.lean) is a transcription of
`Geometry::normalize()` on the shared geometry value `G`, parametric in the ordinate order (`Cfg.key`) and in
`Orientation::isCCW` (`Cfg.isCCW`).  The driver runs it with `geosCfg` (value order of doubles, exact `isCCW`) and the
correspondence stream `normalize` requires ordinate-for-ordinate equality with `GEOSNormalize_r`.

The property's sentences "normalisation is idempotent" and "maps geometries that differ only by ring start, ring
direction or element order to exactly equal coordinates" are **false of the code** in three situations, each with a
machine-checked witness below (and replayed on the implementation by the check):
* a polygon ring whose smallest vertex occurs more than once (`closeRing()` without `allowRepeated` drops the closing
  point, `scroll` takes the first occurrence)                                    — class `repeated-min-vertex`
* a ring on which `isCCW` answers `false` in both directions (flat ring): a hole is reversed on every call
                                                                               — class `flat-ring-orientation`
* `compareTo`-equal siblings that are different values (they keep their input order)
                                                                               — class `compare-equal-elements-differ`
The theorems are therefore stated under the decidable hypotheses `idemOK` (Model/Norm/Classify.lean) and `CanonOK`
(Proofs/Norm/Tree.lean) which exclude exactly these situations; the full statements are kept as `def … : Prop` and
refuted.

Part 2 (constructions).  Soundness of the exact certificate checkers of Model/Construct/Check.lean, which the driver
runs on the outputs of GEOSConvexHull / Envelope / MinimumBoundingCircle / MinimumWidth / MinimumRotatedRectangle /
PointOnSurface / GetCentroid (stream `construct`).  The constructions' algorithms themselves (Graham scan, rotating
calipers, triangle fan) are not modelled.

Part 3 (scan line of the point on surface).  `InteriorPointArea` *is* modelled (Model/Construct/InteriorPoint.lean:
`ScanLineYOrdinateFinder`, the crossing rule, the sorted crossing pairs and the widest section, over exact rationals) and
tied by the stream `pos` (on grid inputs the returned ordinate must be the modelled scan ordinate exactly and the abscissa
the midpoint of a widest modelled section).  Proved: the scan line passes through no vertex of any ring, hence lies on no
horizontal edge, and every counted crossing is a strict straddle; the scan's crossing rule is the ray rule of
`Kernel.locateInRing`; a grid point strictly inside a section of the sorted crossing list is on no ring and inside an odd
number of rings (even–odd argument), hence interior given the two pointwise consequences of validity (holes inside the
shell, holes apart).  That validity implies those two facts is not proved; `posCheck` checks the answer case by case.
-/
namespace GeosModel.C20
open GeosModel GeosModel.Norm GeosModel.Construct GeosModel.Kernel

/-! ## 1. `compareTo` and the sort -/

/-- the modelled `Geometry::compareTo` is a total preorder: antisymmetric in sign and transitive (triple law) -/
theorem compareTo_total_preorder (c : Cfg) : CmpOK (cmpG c) := cmpG_ok c

/-- the modelled `std::sort(…, a.compareTo(b) > 0)` returns a permutation that is sorted in descending order -/
theorem sort_is_sorted_permutation (c : Cfg) (l : List G) :
    (sortDesc (cmpG c) l).Perm l ∧ SortedDesc (cmpG c) (sortDesc (cmpG c) l) :=
  ⟨sortDesc_perm _ l, sortDesc_sorted (cmpG_ok c) l⟩

/-- sorting any permutation gives the same list when `compareTo`-equal elements are identical -/
theorem sort_canonical (c : Cfg) {l₁ l₂ : List G} (hp : l₁.Perm l₂) (ht : TiesIdentical (cmpG c) l₁) :
    sortDesc (cmpG c) l₁ = sortDesc (cmpG c) l₂ :=
  sortDesc_perm_eq (cmpG_ok c) hp (fun a b ha hb => ht a ha b hb)

/-! ## 2. idempotence -/

/-- **normalize ∘ normalize = normalize** for every geometry whose polygon rings have a unique smallest vertex and
an orientation test that does not ask for a reversal in both directions (closed lines: not counter-clockwise in both
directions) -/
theorem normalize_idem_partial (c : Cfg) (g : G) (h : idemOK c g = true) :
    normalize c (normalize c g) = normalize c g := normalize_idem_aux c g h

/-- the property's sentence, without hypotheses -/
def normalize_idem_full : Prop := ∀ (c : Cfg) (g : G), normalize c (normalize c g) = normalize c g

def d0 : UInt64 := 0x0000000000000000   -- 0.0
def d1 : UInt64 := 0x3ff0000000000000   -- 1.0
def d2 : UInt64 := 0x4000000000000000   -- 2.0
def d3 : UInt64 := 0x4008000000000000   -- 3.0
def d9 : UInt64 := 0x4022000000000000   -- 9.0
def P (x y : UInt64) : Coord := ⟨x, y, nanBits, nanBits⟩
def ring (l : List Coord) : CSeq := ⟨false, false, l⟩

/-- POLYGON((0 0,0 0,1 0,1 1,0 0)): the smallest vertex is repeated -/
def wRepeatedMin : G := .polygon (ring [P d0 d0, P d0 d0, P d1 d0, P d1 d1, P d0 d0]) []
/-- its rotation POLYGON((0 0,1 0,1 1,0 0,0 0)) -/
def wRepeatedMinRot : G := .polygon (ring [P d0 d0, P d1 d0, P d1 d1, P d0 d0, P d0 d0]) []
/-- POLYGON((0 0,9 0,9 9,0 9,0 0),(1 1,2 1,3 1,1 1)): a flat hole -/
def wFlatHole : G := .polygon (ring [P d0 d0, P d9 d0, P d9 d9, P d0 d9, P d0 d0])
  [ring [P d1 d1, P d2 d1, P d3 d1, P d1 d1]]

/-- the first normalisation of `wRepeatedMin` has 5 points, the second 4 -/
theorem witness_repeated_min_not_idempotent :
    numPoints (normalize geosCfg wRepeatedMin) = 5 ∧ numPoints (normalize geosCfg (normalize geosCfg wRepeatedMin)) = 4 := by
  decide

theorem normalize_idem_full_false : ¬ normalize_idem_full := by
  intro h
  have h1 := congrArg numPoints (h geosCfg wRepeatedMin)
  have h2 := witness_repeated_min_not_idempotent
  omega

/-- the flat hole is reversed by every call: idempotence also fails with unique minima -/
theorem witness_flat_hole_not_idempotent :
    (match normalize geosCfg wFlatHole, normalize geosCfg (normalize geosCfg wFlatHole) with
     | .polygon _ [h1], .polygon _ [h2] => decide (h1 ≠ h2 ∧ h1.pts = h2.pts.reverse)
     | _, _ => false) = true := by
  decide

/-! ## 3. canonical form -/

/-- **variants normalise to equal coordinates**: if `h` differs from `g` only by ring start, ring direction, line
direction or element order (at any nesting depth) then `normalize h = normalize g`, provided every ring of `g` has a
unique smallest vertex and a decisive orientation and `compareTo`-equal siblings are identical -/
theorem normalize_canonical_partial (c : Cfg) (g h : G) (hv : Variant c g h) (ok : CanonOK c g) :
    normalize c h = normalize c g := normalize_variant_aux c g h hv ok

/-- the property's sentence, without hypotheses -/
def normalize_canonical_full : Prop := ∀ (c : Cfg) (g h : G), Variant c g h → normalize c h = normalize c g

theorem witness_is_variant : Variant geosCfg wRepeatedMin wRepeatedMinRot := by
  refine ⟨_, [], [], rfl, ⟨rfl, rfl, Or.inr ⟨[P d0 d0, P d0 d0, P d1 d0, P d1 d1], P d0 d0,
    [P d0 d0, P d1 d0, P d1 d1, P d0 d0], P d0 d0, rfl, rfl, 1, Or.inl rfl⟩⟩, trivial, List.Perm.refl _⟩

/-- the ring `A A B C A` and its rotation `A B C A A` normalise to different coordinates (5 and 4 points) -/
theorem witness_repeated_min_not_canonical :
    numPoints (normalize geosCfg wRepeatedMin) = 5 ∧ numPoints (normalize geosCfg wRepeatedMinRot) = 4 := by
  decide

theorem normalize_canonical_full_false : ¬ normalize_canonical_full := by
  intro h
  have h1 := congrArg numPoints (h geosCfg _ _ witness_is_variant)
  have h2 := witness_repeated_min_not_canonical
  omega

/-- consequence for the equality predicates: normal forms of variants are `equalsExact` and `equalsIdentical` -/
theorem variants_normalise_equal (c : Cfg) (d : IdCfg) (g h : G) (hv : Variant c g h) (ok : CanonOK c g) :
    equalsExact c (normalize c g) (normalize c h) = true ∧ equalsIdentical d (normalize c g) (normalize c h) = true := by
  rw [normalize_canonical_partial c g h hv ok]
  exact ⟨eqWith_refl (eqSeqExact_refl c) _, eqWith_refl (eqSeqId_refl d) _⟩

/-! ## 4. reverse, clone, equality -/

theorem reverse_reverse (g : G) : reverse (reverse g) = g := reverse_reverse_aux g

theorem clone_eq (g : G) : clone g = g := rfl

theorem equalsExact_refl (c : Cfg) (g : G) : equalsExact c g g = true := eqWith_refl (eqSeqExact_refl c) g

theorem equalsIdentical_refl (d : IdCfg) (g : G) : equalsIdentical d g g = true := eqWith_refl (eqSeqId_refl d) g

theorem equals_clone (c : Cfg) (d : IdCfg) (g : G) :
    equalsExact c g (clone g) = true ∧ equalsIdentical d g (clone g) = true :=
  ⟨equalsExact_refl c g, equalsIdentical_refl d g⟩

theorem equals_reverse_reverse (c : Cfg) (d : IdCfg) (g : G) :
    equalsExact c (reverse (reverse g)) g = true ∧ equalsIdentical d (reverse (reverse g)) g = true := by
  rw [reverse_reverse]; exact ⟨equalsExact_refl c g, equalsIdentical_refl d g⟩

/-- `equalsExact(·, 0)` of two sequences is equality of their keyed XY lists -/
theorem equalsExact_seq_iff (c : Cfg) (s t : CSeq) : eqSeqExact c s t = true ↔ keyPts c s = keyPts c t := by
  simp [eqSeqExact]

/-! ## 5. invariants -/

theorem numPoints_reverse (g : G) : numPoints (reverse g) = numPoints g := numPoints_reverse_aux g
theorem numGeoms_reverse (g : G) : numGeoms (reverse g) = numGeoms g := numGeoms_reverse_aux g
theorem dimension_reverse (g : G) : dimP1 (reverse g) = dimP1 g := dimP1_reverse_aux g

theorem numGeoms_normalize (c : Cfg) (g : G) : numGeoms (normalize c g) = numGeoms g := numGeoms_normalize_aux c g
theorem numHoles_normalize (c : Cfg) (g : G) : numHoles (normalize c g) = numHoles g := numHoles_normalize_aux c g
theorem dimension_normalize (c : Cfg) (g : G) : dimP1 (normalize c g) = dimP1 g := dimP1_normalize_aux c g

/-- the vertex count is kept by `normalize` under the idempotence hypothesis … -/
theorem numPoints_normalize_partial (c : Cfg) (g : G) (h : idemOK c g = true) :
    numPoints (normalize c g) = numPoints g := numPoints_normalize_aux c g h

/-- … and not in general: `A B C A A` loses a vertex -/
def numPoints_normalize_full : Prop := ∀ (c : Cfg) (g : G), numPoints (normalize c g) = numPoints g

theorem numPoints_normalize_full_false : ¬ numPoints_normalize_full := by
  intro h
  have h1 := h geosCfg wRepeatedMinRot
  have h2 : numPoints (normalize geosCfg wRepeatedMinRot) = 4 ∧ numPoints wRepeatedMinRot = 5 := by decide
  omega

/-- the shoelace sum of a closed ring is negated by reversal -/
theorem area2_reverse (l : List Pt) : area2 l.reverse = - area2 l := Norm.area2_reverse l

/-- … and unchanged by rotating the ring to another start vertex (and re-closing it there) -/
theorem area2_rotate (pre post : List Pt) (m z : Pt) (hz : (pre ++ m :: post).head? = some z) :
    area2 (m :: (post ++ pre) ++ [m]) = area2 (pre ++ m :: post ++ [z]) := area2_scroll pre post m z hz

/-- twice the absolute area (`|shell| − Σ|hole|` per polygon) is kept by `reverse` -/
theorem area_reverse (f : Coord → Pt) (g : G) : absArea2 f (reverse g) = absArea2 f g := absArea2_reverse_aux f g

/-- … and by `normalize`, for rings closed in the coordinates `f` reads, under the idempotence hypothesis -/
theorem area_normalize_partial (f : Coord → Pt) (c : Cfg) (g : G) (hc : ringsClosed f g) (h : idemOK c g = true) :
    absArea2 f (normalize c g) = absArea2 f g := absArea2_normalize_aux f c g hc h

/-- the multiset of squared segment lengths of the linework (lines and polygon rings) — and with it the length, a
symmetric function of the segment lengths — is kept by `reverse` -/
theorem length_reverse (f : Coord → Pt) (g : G) : (segSqs f (reverse g)).Perm (segSqs f g) := segSqs_reverse_aux f g

/-- … and by `normalize`, for rings / closed lines closed in the coordinates `f` reads, under the idempotence hypothesis -/
theorem length_normalize_partial (f : Coord → Pt) (c : Cfg) (g : G) (hc : closedOK f c g) (h : idemOK c g = true) :
    (segSqs f (normalize c g)).Perm (segSqs f g) := segSqs_normalize_aux f c g hc h

/-! ## 6. certificate checkers -/

/-- **convex hull**: an accepted ring output has only input points as corners, every input point on the inner side
of every edge (so it contains them all), and a strict turn of one fixed sign at every corner -/
theorem hull_check_sound (pts r : List Pt) (h : hullCheck pts (.ring r) = true) :
    ∃ sgn : Int, HullRingSpec pts r sgn := hullCheck_ring h

/-- … in particular it is convex: every corner lies on the inner side of every edge -/
theorem hull_check_convex (pts r : List Pt) (h : hullCheck pts (.ring r) = true) :
    ∃ sgn : Int, (sgn = 1 ∨ sgn = -1) ∧ ∀ e ∈ edges r, ∀ c ∈ r, 0 ≤ sgn * det e.1 e.2 c := by
  obtain ⟨sgn, hs⟩ := hullCheck_ring h
  exact ⟨sgn, hs.sign, hs.convex⟩

/-- the checker used for full-precision inputs (no strict-corner requirement) still certifies: corners ⊆ inputs,
every input inside-or-on every edge, convex -/
theorem hull_check_weak_sound (pts r : List Pt) (h : hullCheckWeak pts (.ring r) = true) :
    ∃ sgn : Int, HullRingWeakSpec pts r sgn ∧ ∀ e ∈ edges r, ∀ c ∈ r, 0 ≤ sgn * det e.1 e.2 c := by
  obtain ⟨sgn, hs⟩ := hullCheckWeak_ring h
  exact ⟨sgn, hs, hs.convex⟩

/-- degenerate hull outputs: a point means all inputs are that point; a segment contains every input and ends at inputs -/
theorem hull_check_degenerate (pts : List Pt) :
    (∀ p, hullCheck pts (.point p) = true → pts ≠ [] ∧ ∀ q ∈ pts, q = p) ∧
    (∀ a b, hullCheck pts (.segment a b) = true → a ≠ b ∧ a ∈ pts ∧ b ∈ pts ∧ ∀ p ∈ pts, onSegment a b p = true) ∧
    (hullCheck pts .empty = true → pts = []) :=
  ⟨fun _ h => hullCheck_point h, fun _ _ h => hullCheck_segment h, hullCheck_empty⟩

/-- **envelope**: `boxOf` is the tight axis-parallel bound (contains every point, every side attained) -/
theorem envelope_tight (pts : List Pt) (b : Box) (h : boxOf pts = some b) : Tight pts b := boxOf_tight h

/-- an accepted envelope output has exactly those bounds -/
theorem envelope_check_sound (pts out : List Pt) (hne : pts ≠ []) (h : envCheck pts out = true) :
    ∃ b, boxOf out = some b ∧ Tight pts b := envCheck_sound hne h

/-- **minimum bounding circle**, two support points: both are inputs and every input sees them under an angle of at
least 90°, i.e. lies in the diametral circle -/
theorem mbc_check_sound_two (pts : List Pt) (a b : Pt) (h : mbcCheck pts [a, b] = true) :
    a ≠ b ∧ a ∈ pts ∧ b ∈ pts ∧ ∀ p ∈ pts, InDiametral a b p := mbcCheck_two h

/-- three support points: inputs, not collinear, no obtuse angle (so the circumscribed circle is the smallest circle
through them), and every input inside or on the circumscribed circle (exact in-circle determinant) -/
theorem mbc_check_sound_three (pts : List Pt) (a b c : Pt) (h : mbcCheck pts [a, b, c] = true) :
    orient a b c ≠ 0 ∧ a ∈ pts ∧ b ∈ pts ∧ c ∈ pts ∧
    (0 ≤ dot a b c ∧ 0 ≤ dot b a c ∧ 0 ≤ dot c a b) ∧ ∀ p ∈ pts, InCircum a b c p := mbcCheck_three h

/-- the circle is determined by at most three points; one point means all inputs coincide -/
theorem mbc_check_sound_small (pts sup : List Pt) (h : mbcCheck pts sup = true) :
    sup.length ≤ 3 ∧ (∀ a, sup = [a] → a ∈ pts ∧ ∀ p ∈ pts, p = a) :=
  ⟨mbcCheck_size h, fun _ e => mbcCheck_one (e ▸ h)⟩

/-- **minimum width**: the exact reference value is the squared width in the direction of a proper edge of the hull
ring and no proper edge direction gives a smaller one -/
theorem min_width_attained (pts ring : List Pt) (w : Q) (h : minWidth2 pts ring = some w) :
    (∃ e ∈ edges ring, e.1 ≠ e.2 ∧ w = edgeWidth2 pts e.1 e.2) ∧
    (∀ e ∈ edges ring, e.1 ≠ e.2 → w.le (edgeWidth2 pts e.1 e.2) = true) :=
  ⟨minWidth2_attained h, minWidth2_min h⟩

/-- **minimum rotated rectangle**: likewise for the enclosing-rectangle area -/
theorem min_rect_attained (pts ring : List Pt) (w : Q) (h : minRectArea pts ring = some w) :
    (∃ e ∈ edges ring, e.1 ≠ e.2 ∧ w = edgeRectArea pts e.1 e.2) ∧
    (∀ e ∈ edges ring, e.1 ≠ e.2 → w.le (edgeRectArea pts e.1 e.2) = true) :=
  ⟨minRectArea_attained h, minRectArea_min h⟩

/-- the width numerator used for an edge direction bounds the offset of every input point -/
theorem edge_width_covers (pts : List Pt) (a b p : Pt) (hp : p ∈ pts) : ((det a b p).natAbs : Int) ≤ maxAbsDet a b pts :=
  maxAbsDet_ge hp

/-- **point on surface**: the checker accepts exactly the points in the interior (`Kernel.locateInPolygon`) -/
theorem point_on_surface_check (rings : List (List Pt)) (p : Pt) :
    posCheck rings p = true ↔ locateInPolygon p rings = .interior := posCheck_iff


/-! ## 6b. the scan line of `InteriorPointArea` -/

/-- **`ScanLineYOrdinateFinder`**: for a polygon whose shell is not flat the final interval `(loY, hiY)` is
non-degenerate and no vertex ordinate of the shell or of any hole lies strictly inside it -/
theorem scan_interval_excludes_vertices {shell : List Pt} {holes : List (List Pt)} {st : Int × Int} {a b : Pt}
    (ha : a ∈ shell) (hb : b ∈ shell) (hab : a.y < b.y) (h : scanInterval (shell :: holes) = some st) :
    st.1 < st.2 ∧ ∀ ring ∈ shell :: holes, ∀ v ∈ ring, v.y ≤ st.1 ∨ st.2 ≤ v.y :=
  scanInterval_spec ha hb hab h

/-- … so the scan line `y = y2 / 2` passes through no vertex -/
theorem scan_line_avoids_vertices {shell : List Pt} {holes : List (List Pt)} {y2 : Int} {a b : Pt}
    (ha : a ∈ shell) (hb : b ∈ shell) (hab : a.y < b.y) (h : scanY2 (shell :: holes) = some y2) :
    ∀ ring ∈ shell :: holes, ∀ v ∈ ring, 2 * v.y ≠ y2 := by
  unfold scanY2 at h
  match hs : scanInterval (shell :: holes), h with
  | some st, h =>
    simp only [Option.map_some, Option.some.injEq] at h
    obtain ⟨h1, h2⟩ := scanInterval_spec ha hb hab hs
    intro ring hr v hv
    have := h2 ring hr v hv
    omega

/-- … lies on no horizontal edge of any ring -/
theorem scan_line_not_on_horizontal_edge {shell : List Pt} {holes : List (List Pt)} {y2 : Int} {a b : Pt}
    (ha : a ∈ shell) (hb : b ∈ shell) (hab : a.y < b.y) (h : scanY2 (shell :: holes) = some y2) :
    ∀ ring ∈ shell :: holes, ∀ e ∈ edges ring, e.1.y = e.2.y → 2 * e.1.y ≠ y2 ∧ edgeCrossing y2 e.1 e.2 = none := by
  intro ring hr e he hh
  have hv := scan_line_avoids_vertices ha hb hab h ring hr e.1 (mem_of_mem_edges he).1
  refine ⟨hv, ?_⟩
  unfold edgeCrossing
  split
  · rfl
  · split
    · rfl
    · rfl

/-- … and an edge contributes a crossing exactly when it strictly straddles the line: the vertex-on-the-line rules of
`isEdgeCrossingCounted` are never used -/
theorem scan_line_crossings_strict {shell : List Pt} {holes : List (List Pt)} {y2 : Int} {a b : Pt}
    (ha : a ∈ shell) (hb : b ∈ shell) (hab : a.y < b.y) (h : scanY2 (shell :: holes) = some y2) :
    ∀ ring ∈ shell :: holes, ∀ e ∈ edges ring,
      ((edgeCrossing y2 e.1 e.2).isSome = true ↔ (2 * e.1.y < y2 ∧ y2 < 2 * e.2.y) ∨ (2 * e.2.y < y2 ∧ y2 < 2 * e.1.y)) := by
  intro ring hr e he
  have hm := mem_of_mem_edges he
  exact edgeCrossing_isSome_iff (scan_line_avoids_vertices ha hb hab h ring hr e.1 hm.1)
    (scan_line_avoids_vertices ha hb hab h ring hr e.2 hm.2)


/-- **the scan's crossing rule is the ray's**: for an edge with no end point on the line through `p`, `Kernel.crosses`
(the rule `locateInRing` counts with) holds exactly when `addEdgeCrossing` records an abscissa strictly right of `p` -/
theorem scan_crossing_is_ray_crossing {p a b : Pt} (ha : a.y ≠ p.y) (hb : b.y ≠ p.y) :
    crosses p a b = (match edgeCrossing (2 * p.y) a b with | none => false | some x => rightOf p x) :=
  crosses_eq_scan ha hb

/-- **even–odd**: let the scan line `y = p.y` pass through no vertex of the closed rings (which
`scan_line_avoids_vertices` guarantees for the modelled finder).  A grid point `p` strictly inside one of the sections
`(c₂ᵢ, c₂ᵢ₊₁)` of the sorted crossing list lies on no ring and inside an odd number of rings -/
theorem section_point_inside_odd_number_of_rings {p : Pt} {rings : List (List Pt)} {s : Q × Q}
    (hoff : ∀ ring ∈ rings, ∀ v ∈ ring, v.y ≠ p.y)
    (hcl : ∀ ring ∈ rings, ring = [] ∨ isClosedRing ring = true)
    (hs : s ∈ sections (2 * p.y) rings) (h1 : leftOf p s.1 = true) (h2 : rightOf p s.2 = true) :
    (∀ ring ∈ rings, locateInRing p ring ≠ .boundary) ∧
    (rings.filter (fun r => locateInRing p r == .interior)).length % 2 = 1 :=
  section_point_parity hoff hcl hs h1 h2

/-- **the point on surface is interior**: with the modelled scan ordinate (`2·p.y = scanY2`), a non-flat shell and
closed rings, a grid point strictly inside a section of the scan line is in the interior of the polygon
(`Kernel.locateInPolygon`, what `posCheck` decides), provided — as validity implies — that a hole containing it lies in
the shell and no two holes contain it -/
theorem section_point_is_interior {p a b : Pt} {shell : List Pt} {holes : List (List Pt)} {s : Q × Q}
    (ha : a ∈ shell) (hb : b ∈ shell) (hab : a.y < b.y) (hy : scanY2 (shell :: holes) = some (2 * p.y))
    (hcl : ∀ ring ∈ shell :: holes, ring = [] ∨ isClosedRing ring = true)
    (hs : s ∈ sections (2 * p.y) (shell :: holes)) (h1 : leftOf p s.1 = true) (h2 : rightOf p s.2 = true)
    (nest : ∀ h ∈ holes, locateInRing p h = .interior → locateInRing p shell = .interior)
    (apart : (holes.filter (fun h => locateInRing p h == .interior)).length ≤ 1) :
    posCheck (shell :: holes) p = true := by
  rw [point_on_surface_check]
  refine section_point_interior ?_ hcl hs h1 h2 nest apart
  intro ring hr v hv hvy
  exact scan_line_avoids_vertices ha hb hab hy ring hr v hv (by rw [hvy])

/-- … in particular the **midpoint of a section of positive width**, which is what `InteriorPointPolygon` returns,
whenever it is a grid point (`2·p.x·d₁·d₂ = n₁·d₂ + n₂·d₁` for the section `(n₁/d₁, n₂/d₂)`) -/
theorem section_midpoint_is_interior {p a b : Pt} {shell : List Pt} {holes : List (List Pt)} {s : Q × Q}
    (ha : a ∈ shell) (hb : b ∈ shell) (hab : a.y < b.y) (hy : scanY2 (shell :: holes) = some (2 * p.y))
    (hcl : ∀ ring ∈ shell :: holes, ring = [] ∨ isClosedRing ring = true)
    (hs : s ∈ sections (2 * p.y) (shell :: holes)) (hw : s.1.lt s.2 = true)
    (hm : 2 * p.x * ((s.1.den : Int) * s.2.den) = s.1.num * s.2.den + s.2.num * s.1.den)
    (nest : ∀ h ∈ holes, locateInRing p h = .interior → locateInRing p shell = .interior)
    (apart : (holes.filter (fun h => locateInRing p h == .interior)).length ≤ 1) :
    posCheck (shell :: holes) p = true := by
  obtain ⟨d1, d2⟩ := sections_pos hs
  obtain ⟨h1, h2⟩ := midpoint_strictly_inside d1 d2 hw hm
  exact section_point_is_interior ha hb hab hy hcl hs h1 h2 nest apart

/-- `findBestMidpoint`: the reported section (if any) is one of the sections and its width is the reported width -/
theorem widest_section_is_a_section (secs : List (Q × Q)) :
    let r := bestFrom ⟨0, 1⟩ none secs
    (∀ s, r.2 = some s → s ∈ secs ∧ width s = r.1) := by
  intro r s hs
  obtain ⟨a, b, _⟩ := bestFrom_spec secs ⟨0, 1⟩ none (by intro t ht; cases ht)
  refine ⟨?_, a s hs⟩
  rcases b with b | ⟨t, ht, b⟩
  · rw [b] at hs; cases hs
  · rw [b] at hs; cases hs; exact ht

/-! ## 7. non-vacuity -/

/-- POLYGON((0 0,9 0,9 9,0 9,0 0),(1 1,2 1,2 2,1 1)) -/
def gOK : G := .polygon (ring [P d0 d0, P d9 d0, P d9 d9, P d0 d9, P d0 d0]) [ring [P d1 d1, P d2 d1, P d2 d2, P d1 d1]]
/-- the same polygon with the shell started elsewhere and reversed, the hole reversed -/
def gOKvariant : G := .polygon (ring [P d9 d9, P d9 d0, P d0 d0, P d0 d9, P d9 d9]) [ring [P d1 d1, P d2 d2, P d2 d1, P d1 d1]]

example : idemOK geosCfg gOK = true := by decide
example : numPoints (normalize geosCfg gOK) = 9 := by decide

example : CanonOK geosCfg gOK := by
  refine ⟨by decide, ?_, ?_⟩
  · intro h hh; simp only [List.mem_singleton] at hh; subst hh; decide
  · intro a ha b hb _
    simp only [List.map, List.mem_singleton] at ha hb
    rw [ha, hb]

example : Variant geosCfg gOK gOKvariant := by
  refine ⟨_, [ring [P d1 d1, P d2 d2, P d2 d1, P d1 d1]], _, rfl, ⟨rfl, rfl, Or.inr ⟨[P d0 d0, P d9 d0, P d9 d9, P d0 d9], P d0 d0,
    [P d9 d9, P d9 d0, P d0 d0, P d0 d9], P d9 d9, rfl, rfl, 1, Or.inr rfl⟩⟩, ⟨⟨rfl, rfl,
      Or.inr ⟨[P d1 d1, P d2 d1, P d2 d2], P d1 d1, [P d1 d1, P d2 d2, P d2 d1], P d1 d1, rfl, rfl, 2, Or.inr rfl⟩⟩, trivial⟩,
    List.Perm.refl _⟩

/-- the two really normalise to the same value (computed, independent of the theorem) -/
example : (match normalize geosCfg gOK, normalize geosCfg gOKvariant with
    | .polygon s [h], .polygon s' [h'] => decide (s = s' ∧ h = h')
    | _, _ => false) = true := by decide

/-- the checkers accept genuine certificates and reject wrong ones -/
def sq : List Pt := [⟨0, 0⟩, ⟨4, 0⟩, ⟨4, 4⟩, ⟨0, 4⟩, ⟨2, 2⟩, ⟨2, 0⟩]
example : hullCheck sq (.ring [⟨0, 0⟩, ⟨0, 4⟩, ⟨4, 4⟩, ⟨4, 0⟩, ⟨0, 0⟩]) = true := by decide
example : hullCheck sq (.ring [⟨0, 0⟩, ⟨0, 4⟩, ⟨4, 4⟩, ⟨4, 0⟩, ⟨2, 0⟩, ⟨0, 0⟩]) = false := by decide   -- collinear vertex kept
example : hullCheck sq (.ring [⟨0, 0⟩, ⟨0, 4⟩, ⟨4, 4⟩, ⟨0, 0⟩]) = false := by decide                    -- (4,0) left outside
example : mbcCheck sq [⟨0, 0⟩, ⟨4, 4⟩] = true := by decide
example : mbcCheck sq [⟨0, 0⟩, ⟨4, 0⟩] = false := by decide
example : mbcCheck sq [⟨0, 0⟩, ⟨4, 0⟩, ⟨4, 4⟩] = true := by decide
example : boxOf sq = some ⟨0, 4, 0, 4⟩ := by decide
example : posCheck [[⟨0, 0⟩, ⟨4, 0⟩, ⟨4, 4⟩, ⟨0, 4⟩, ⟨0, 0⟩]] ⟨2, 2⟩ = true := by decide
example : posCheck [[⟨0, 0⟩, ⟨4, 0⟩, ⟨4, 4⟩, ⟨0, 4⟩, ⟨0, 0⟩]] ⟨4, 2⟩ = false := by decide

/-- POLYGON((0 0,10 0,10 10,0 10,0 0),(3 2,9 2,9 5,6 5,6 8,3 8,3 2)): an L-shaped hole whose step is at mid-height -/
def lHole : List (List Pt) :=
  [[⟨0, 0⟩, ⟨10, 0⟩, ⟨10, 10⟩, ⟨0, 10⟩, ⟨0, 0⟩], [⟨3, 2⟩, ⟨9, 2⟩, ⟨9, 5⟩, ⟨6, 5⟩, ⟨6, 8⟩, ⟨3, 8⟩, ⟨3, 2⟩]]
/-- the step ordinate 5 narrows the interval to (5, 8): the scan line is y = 6.5, not y = 5 -/
example : scanInterval lHole = some (5, 8) := by decide
example : scanY2 lHole = some 13 := by decide
/-- crossings 0, 3, 6, 10: the widest section is [6, 10], the answer (8, 6.5) is interior -/
example : (sections 13 lHole).map (fun s => (s.1.num, s.1.den, s.2.num, s.2.den)) = [(0, 1, 3, 1), (6, 1, 10, 1)] := by decide
example : posCheck (lHole.map fun r => r.map fun p => ⟨2 * p.x, 2 * p.y⟩) ⟨16, 13⟩ = true := by decide
/-- on the line y = 5 (what a finder that ignores the hole's inner ordinates would choose) the point (8, 5) is on the hole -/
example : posCheck lHole ⟨8, 5⟩ = false := by decide

/-- the doubled L-hole polygon: the scan line is y = 13, the sections [0, 6] and [12, 20]; (16, 13) is strictly inside
the second one and all hypotheses of `section_point_is_interior` hold -/
def lHole2 : List (List Pt) := lHole.map fun r => r.map fun p => ⟨2 * p.x, 2 * p.y⟩
example : scanY2 lHole2 = some (2 * 13) := by decide
example : (sections 26 lHole2).map (fun s => (s.1.num, s.1.den, s.2.num, s.2.den)) = [(0, 1, 6, 1), (12, 1, 20, 1)] := by decide
example : ∃ s ∈ sections 26 lHole2, leftOf ⟨16, 13⟩ s.1 = true ∧ rightOf ⟨16, 13⟩ s.2 = true := by decide
example : ∀ ring ∈ lHole2, ring = [] ∨ isClosedRing ring = true := by decide

end GeosModel.C20
