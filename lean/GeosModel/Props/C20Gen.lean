import GeosModel.Model.Norm.Normalize
import GeosModel.Generated.NormCompare
/-!
# C20 — the regenerated comparison functions are the ones normalisation is modelled with

`Generated/NormCompare.lean` is rewritten from the current C++ (`include/geos/geom/Coordinate.h`, `src/geom/Geometry.cpp`) by
`translate/cxx2lean.py` (spec `norm_compare`) on every run.  The C++ compares `double`s; the regenerated
`CoordinateXY::compareTo` / `equals2D` are generic over an ordered carrier and are instantiated here with the integer keys
`Cfg.key` of the model (Model/Norm/Normalize.lean: the value order of non-NaN doubles) and proved equal to `cmpPt` / `cmpXY` /
`eqXY`, the leaves of every comparison in `cmpK`, `scroll`, `minCoord`, `normOpenPts`.  `Geometry::compareTo` is proved equal
to `cmpHead` (sort index, emptiness rule, `compareToSameClass`) and — with the connecting hypotheses on the virtual calls —
to `cmpK`, the order `sort_is_sorted_permutation` / `sort_canonical` / `compareTo_total_preorder` of `Props/C20.lean` are about.
The numbering of `GeometrySortIndex` is checked against `Geometry.h` by the translator.

The bridges of `SimpleCurve` (spec `norm_curve`) are in `Props/C20GenCurve.lean`.
-/
namespace GeosModel.C20Gen
open GeosModel GeosModel.Norm GeosModel.Generated

/-- closes what `simp` leaves of a bridge goal: case split on the remaining `if`s, then arithmetic -/
macro "bridge_finish" : tactic => `(tactic| all_goals ((repeat' split) <;> (try simp_all) <;> (try grind)))

/-- `CoordinateXY::compareTo` on keyed ordinates (`Cfg.key`: the order of doubles as integers) is `cmpPt` -/
theorem gen_compareToXY_eq (a b : KP) : NormCompare.compareToXY (R := Int) a.1 a.2 ⟨b.1, b.2⟩ = cmpPt a b := by
  unfold NormCompare.compareToXY cmpPt lex cmpInt
  simp [Cxx.gt]
  bridge_finish

theorem gen_equals2D_eq (a b : KP) : NormCompare.equals2D (R := Int) a.1 a.2 ⟨b.1, b.2⟩ = decide (a = b) := by
  unfold NormCompare.equals2D
  simp [Cxx.ne]
  bridge_finish

theorem gen_cmpXY_eq (c : Cfg) (a b : Coord) :
    NormCompare.compareToXY (R := Int) (c.key a.x) (c.key a.y) ⟨c.key b.x, c.key b.y⟩ = cmpXY c a b :=
  gen_compareToXY_eq (kp c a) (kp c b)

theorem gen_eqXY_eq (c : Cfg) (a b : Coord) :
    NormCompare.equals2D (R := Int) (c.key a.x) (c.key a.y) ⟨c.key b.x, c.key b.y⟩ = eqXY c a b :=
  gen_equals2D_eq (kp c a) (kp c b)

variable {G : Type}

theorem gen_compareTo_eq (same : G → G → Bool) (idx : G → Int) (emp : G → Bool) (sc : G → G → Int) (a b : G)
    (ra rb : Nat) (hlt : idx a < idx b ↔ ra < rb) (hgt : idx b < idx a ↔ rb < ra) (hne : same a b = false) :
    NormCompare.compareTo same idx emp sc a b = cmpHead ra rb (emp a) (emp b) (sc a b) := by
  unfold NormCompare.compareTo cmpHead
  simp [hne]
  bridge_finish

/-- comparing a geometry with itself (`this == geom`) gives 0 -/
theorem gen_compareTo_self (same : G → G → Bool) (idx : G → Int) (emp : G → Bool) (sc : G → G → Int) (a b : G)
    (h : same a b = true) : NormCompare.compareTo same idx emp sc a b = 0 := by
  simp [NormCompare.compareTo, h]

/-- what `compareToSameClass` contributes in the model `cmpK` -/
def sameClassBody : K → K → Int
  | .leaf _ p, .leaf _ q => cmpSeq p q
  | .poly s hs, .poly s' hs' => lex (cmpSeq s s') (lex (cmpInt hs.length hs'.length) (cmpSeqs hs hs'))
  | .node _ ks, .node _ ks' => cmpKs ks ks'
  | _, _ => 0

theorem cmpK_eq_head (a b : K) : cmpK a b = cmpHead a.rank b.rank a.isEmpty b.isEmpty (sameClassBody a b) := by
  cases a <;> cases b <;> simp [cmpK, sameClassBody, K.isEmpty]

/-- `Geometry::compareTo`, regenerated, is the model's `cmpK` on the comparison trees: for every interpretation of the
virtual calls such that the sort indices are ordered like the model's ranks, `isEmpty` is `K.isEmpty` and
`compareToSameClass` is the class-specific part of `cmpK` -/
theorem gen_compareTo_cmpK (same : K → K → Bool) (idx : K → Int) (sc : K → K → Int) (a b : K)
    (hlt : idx a < idx b ↔ a.rank < b.rank) (hgt : idx b < idx a ↔ b.rank < a.rank) (hne : same a b = false)
    (hsc : sc a b = sameClassBody a b) :
    NormCompare.compareTo same idx K.isEmpty sc a b = cmpK a b := by
  rw [cmpK_eq_head, gen_compareTo_eq same idx K.isEmpty sc a b a.rank b.rank hlt hgt hne, hsc]

/-! non-vacuity: the hypotheses are satisfiable (rank = 3·index on leaves) and the regenerated code computes -/
example : NormCompare.compareTo (fun _ _ => false) (fun k => match k with | .leaf i _ => i | _ => 5) K.isEmpty sameClassBody
    (.leaf 0 [(1, 2)]) (.leaf 2 [(0, 0), (1, 1)]) = cmpK (.leaf 0 [(1, 2)]) (.leaf 2 [(0, 0), (1, 1)]) := by decide
example : NormCompare.compareToXY (R := Int) 1 5 ⟨1, 7⟩ = -1 ∧ NormCompare.equals2D (R := Int) 1 5 ⟨1, 5⟩ = true := by decide

end GeosModel.C20Gen
