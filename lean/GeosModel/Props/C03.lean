import GeosModel.Model.Overlay.Core
import GeosModel.Model.Overlay.Spec
import GeosModel.Proofs.EnvLemmas
/-!
# C03 — overlay results are valid and equal the Boolean combination of the inputs

PARTIAL by design (CORE + SPEC+C), see DESIGN.md section 3, C03.

**CORE** (faithful models of the decision functions of OverlayNG, `Model/Overlay/Core.lean`):
`isResultOfOp_eq_boolop`, `isResultOfOpCode_unknown`, `resultDim_rule`, `resultDim_symdiff_as_union_of_diffs`,
`isEmptyResult_sound`, `envDisjoint_no_common_point`, `isEmptyResult_sound_env`, `overlayDims_handled`.

**Set algebra of the membership specification** `member op a b = boolop op a b` used by the check
(A op A, A op EMPTY, argument swapping): `member_*`.

**SPEC** (`Model/Overlay/Spec.lean`, the exact arrangement oracle the driver runs):
* the specified result is `closure (boolop op A B)` evaluated cell-wise; for union and intersection the closure adds
  nothing (`expected_union`, `expected_inter`), the closure is closed downwards (`expected_of_faceL/R`,
  `node_expected_of_incident`);
* the cell-wise specification obeys the set algebra (`expected_swap`, `expected_self_*`, `expected_empty_*`);
* the checker is sound: `acceptsExact_sound` (accept ⇒ every face, 1-cell and node of the arrangement of all
  segments of A, B and R has exactly the specified membership), `acceptsTol_sound` / `overlay_check_sound` (accept ⇒
  every cell has the specified membership or is excused inside the 1e-9·magnitude band; with `T.exact` no excuse
  exists), `faceExcused_sound` (what an excused face means: every sample point of that side is within the band of the
  inputs or has the right membership), `withinTol_spec` (the band test is the exact rational comparison).

NOT proved: that membership is constant on the cells of the arrangement (so that "every cell" is "every location") —
the one geometric fact in the trusted base; and nothing about OverlayNG's noding / labelling / ring building, which is
tied to this specification by the correspondence streams only.
-/
namespace GeosModel.Overlay
open GeosModel.Relate

/-! ## CORE -/

/-- `OverlayNG::isResultOfOp` (with its BOUNDARY → INTERIOR folding) is the Boolean combination of "in the closure",
for all 4 ops × 3 × 3 locations -/
theorem isResultOfOp_eq_boolop (op : Op) (l0 l1 : Loc3) :
    isResultOfOp op l0 l1 = boolop op (inClosure l0) (inClosure l1) := by
  cases op <;> cases l0 <;> cases l1 <;> decide

/-- an op code outside 1..4 selects nothing (the trailing `return false`) -/
theorem isResultOfOpCode_unknown (c : Int) (l0 l1 : Loc3) (h : Op.ofCode c = none) :
    isResultOfOpCode c l0 l1 = false := by
  unfold Op.ofCode at h
  unfold isResultOfOpCode
  by_cases h1 : (c == 1) = true
  · simp [h1] at h
  · by_cases h2 : (c == 2) = true
    · simp [h1, h2] at h
    · by_cases h3 : (c == 3) = true
      · simp [h1, h2, h3] at h
      · by_cases h4 : (c == 4) = true
        · simp [h1, h2, h3, h4] at h
        · simp [h1, h2, h3, h4]

example : isResultOfOp .diff .I .B = false ∧ isResultOfOp .diff .B .E = true ∧ isResultOfOp .symdiff .B .B = false := by decide

theorem ofCode_code (op : Op) : Op.ofCode op.code = some op := by cases op <;> decide

/-- `OverlayUtil::resultDimension`: intersection = min, union = max, difference = dimension of A, symmetric
difference = max -/
theorem resultDim_rule (a b : Int) :
    resultDimension .inter a b = min a b ∧ resultDimension .union a b = max a b ∧
    resultDimension .diff a b = a ∧ resultDimension .symdiff a b = max a b := ⟨rfl, rfl, rfl, rfl⟩

/-- the justification given in the source: SymDiff = Union(Diff(A,B), Diff(B,A)) -/
theorem resultDim_symdiff_as_union_of_diffs (a b : Int) :
    resultDimension .symdiff a b = resultDimension .union (resultDimension .diff a b) (resultDimension .diff b a) := rfl

theorem resultDim_bounds (a b : Int) :
    resultDimension .inter a b ≤ a ∧ resultDimension .inter a b ≤ b ∧
    a ≤ resultDimension .union a b ∧ b ≤ resultDimension .union a b := by
  simp only [resultDimension]; omega

/-- membership of a point in the Boolean combination of two point sets -/
def memberP : Op → Prop → Prop → Prop
  | .inter, a, b => a ∧ b
  | .union, a, b => a ∨ b
  | .diff, a, b => a ∧ ¬ b
  | .symdiff, a, b => (a ∧ ¬ b) ∨ (¬ a ∧ b)

theorem memberP_iff_boolop (op : Op) (a b : Bool) : memberP op (a = true) (b = true) ↔ boolop op a b = true := by
  cases op <;> cases a <;> cases b <;> simp [memberP, boolop]

/-- **isEmptyResult is sound**: whenever it returns true, the Boolean combination of the two point sets is empty.
The three facts it reads are tied to the point sets by explicit hypotheses. -/
theorem isEmptyResult_sound {P : Type} (SA SB : P → Prop) (op : Op) (eA eB dj : Bool)
    (hA : eA = true → ∀ p, ¬ SA p) (hB : eB = true → ∀ p, ¬ SB p)
    (hd : dj = true → ∀ p, ¬ (SA p ∧ SB p))
    (h : isEmptyResult op eA eB dj = true) : ∀ p, ¬ memberP op (SA p) (SB p) := by
  intro p
  cases op with
  | inter =>
    simp only [isEmptyResult, isEnvDisjoint] at h
    intro ⟨ha, hb⟩
    by_cases he : (eA || eB) = true
    · rcases Bool.or_eq_true _ _ |>.mp he with h1 | h1
      · exact hA h1 p ha
      · exact hB h1 p hb
    · simp [he] at h
      exact hd h p ⟨ha, hb⟩
  | diff =>
    simp only [isEmptyResult] at h
    intro ⟨ha, _⟩
    exact hA h p ha
  | union =>
    simp only [isEmptyResult, Bool.and_eq_true] at h
    intro hab
    rcases hab with ha | hb
    · exact hA h.1 p ha
    · exact hB h.2 p hb
  | symdiff =>
    simp only [isEmptyResult, Bool.and_eq_true] at h
    intro hab
    rcases hab with ⟨ha, _⟩ | ⟨_, hb⟩
    · exact hA h.1 p ha
    · exact hB h.2 p hb

/-- "envelopes disjoint ⇒ no common point": point sets covered by their (well-formed) envelopes, and
`Envelope::disjoint` true, cannot share a point (uses `Env.inter_iff_common_point`) -/
theorem envDisjoint_no_common_point (ea eb : Box) (SA SB : Int → Int → Prop)
    (wa : ea.minx ≤ ea.maxx ∧ ea.miny ≤ ea.maxy) (wb : eb.minx ≤ eb.maxx ∧ eb.miny ≤ eb.maxy)
    (ca : ∀ x y, SA x y → Env.containsPt (some ea) x y = true)
    (cb : ∀ x y, SB x y → Env.containsPt (some eb) x y = true)
    (h : envDisjoint (some ea) (some eb) = true) : ∀ x y, ¬ (SA x y ∧ SB x y) := by
  intro x y ⟨ha, hb⟩
  have hi : Env.inter (some ea) (some eb) = true :=
    (Env.inter_iff_common_point ea eb wa wb).mpr ⟨x, y, ca x y ha, cb x y hb⟩
  simp [envDisjoint, hi] at h

/-- `isEmptyResult` with the envelope test spelled out: inputs given as point sets on the integer lattice of the
scaled doubles, each covered by its envelope -/
theorem isEmptyResult_sound_env (ea eb : Box) (SA SB : Int → Int → Prop) (op : Op) (eA eB : Bool)
    (wa : ea.minx ≤ ea.maxx ∧ ea.miny ≤ ea.maxy) (wb : eb.minx ≤ eb.maxx ∧ eb.miny ≤ eb.maxy)
    (ca : ∀ x y, SA x y → Env.containsPt (some ea) x y = true)
    (cb : ∀ x y, SB x y → Env.containsPt (some eb) x y = true)
    (hA : eA = true → ∀ x y, ¬ SA x y) (hB : eB = true → ∀ x y, ¬ SB x y)
    (h : isEmptyResult op eA eB (envDisjoint (some ea) (some eb)) = true) :
    ∀ x y, ¬ memberP op (SA x y) (SB x y) := by
  intro x y
  have := isEmptyResult_sound (P := Int × Int) (fun p => SA p.1 p.2) (fun p => SB p.1 p.2) op eA eB
    (envDisjoint (some ea) (some eb)) (fun he p => hA he p.1 p.2) (fun he p => hB he p.1 p.2)
    (fun hd p => envDisjoint_no_common_point ea eb SA SB wa wb ca cb hd p.1 p.2) h (x, y)
  exact this

example : isEmptyResult .inter false false (envDisjoint (some ⟨0, 1, 0, 1⟩) (some ⟨2, 3, 0, 1⟩)) = true := by decide
example : isEmptyResult .inter false false (envDisjoint (some ⟨0, 1, 0, 1⟩) (some ⟨1, 3, 0, 1⟩)) = false := by decide

/-- when both inputs are handled by OverlayNG the dimensions that reach `resultDimension` are `getDimension()` -/
theorem overlayDims_handled (a b : Shape) (ha : a.handledByOverlayNG = true) (hb : b.handledByOverlayNG = true) :
    overlayDims a b = (a.dim, b.dim) := by simp [overlayDims, ha, hb]

/-! ## set algebra of the membership specification -/

theorem member_union_self (a : Bool) : member .union a a = a := by cases a <;> rfl
theorem member_inter_self (a : Bool) : member .inter a a = a := by cases a <;> rfl
theorem member_diff_self (a : Bool) : member .diff a a = false := by cases a <;> rfl
theorem member_symdiff_self (a : Bool) : member .symdiff a a = false := by cases a <;> rfl
theorem member_union_empty (a : Bool) : member .union a false = a ∧ member .union false a = a := by cases a <;> exact ⟨rfl, rfl⟩
theorem member_inter_empty (a : Bool) : member .inter a false = false ∧ member .inter false a = false := by cases a <;> exact ⟨rfl, rfl⟩
theorem member_diff_empty (a : Bool) : member .diff a false = a ∧ member .diff false a = false := by cases a <;> exact ⟨rfl, rfl⟩
theorem member_symdiff_empty (a : Bool) : member .symdiff a false = a ∧ member .symdiff false a = a := by cases a <;> exact ⟨rfl, rfl⟩
theorem member_union_comm (a b : Bool) : member .union a b = member .union b a := by cases a <;> cases b <;> rfl
theorem member_inter_comm (a b : Bool) : member .inter a b = member .inter b a := by cases a <;> cases b <;> rfl
theorem member_symdiff_comm (a b : Bool) : member .symdiff a b = member .symdiff b a := by cases a <;> cases b <;> rfl
/-- inclusion–exclusion at one point: counting memberships, |A| + |B| = |A ∪ B| + |A ∩ B| -/
theorem member_incl_excl (a b : Bool) :
    a.toNat + b.toNat = (member .union a b).toNat + (member .inter a b).toNat := by cases a <;> cases b <;> rfl
theorem member_symdiff_as_diffs (a b : Bool) :
    member .symdiff a b = member .union (member .diff a b) (member .diff b a) := by cases a <;> cases b <;> rfl

/-! ## SPEC: the cell-wise specification -/

/-- for union the closure adds nothing: a 1-cell is specified iff it lies in the closure of A or of B -/
theorem expected_union (c : Cell) : c.expected .union = (c.inA || c.inB) := by
  cases c with
  | mk a b m s lm lA rA lB rB lR rR onA onB onR =>
    cases lA <;> cases rA <;> cases lB <;> cases rB <;> cases onA <;> cases onB <;> rfl

/-- for intersection the closure adds nothing either -/
theorem expected_inter (c : Cell) : c.expected .inter = (c.inA && c.inB) := by
  cases c with
  | mk a b m s lm lA rA lB rB lR rR onA onB onR =>
    cases lA <;> cases rA <;> cases lB <;> cases rB <;> cases onA <;> cases onB <;> rfl

/-- the specified set is closed: the border of a specified face is specified -/
theorem expected_of_faceL (op : Op) (c : Cell) (h : c.faceL op = true) : c.expected op = true := by
  simp [Cell.expected, h]
theorem expected_of_faceR (op : Op) (c : Cell) (h : c.faceR op = true) : c.expected op = true := by
  simp [Cell.expected, h]

/-- … and the end points of a specified 1-cell are specified -/
theorem node_expected_of_incident (op : Op) (A B R : Flat) (cs : List Cell) (v : HPt) (c : Cell)
    (hc : c ∈ cs) (hv : (c.a == v || c.b == v) = true) (he : c.expected op = true) :
    (mkNode op A B R cs v).expected = true := by
  have hmem : c ∈ cs.filter (fun c => c.a == v || c.b == v) := List.mem_filter.mpr ⟨hc, hv⟩
  have : (cs.filter (fun c => c.a == v || c.b == v)).any (·.expected op) = true :=
    List.any_eq_true.mpr ⟨c, hmem, he⟩
  simp [mkNode, this]

/-- non-vacuity / the closure matters for difference: a 1-cell of a line of B strictly inside the area A is not in
`A ∖ B` pointwise, but it is in the closure (area − line = area), while for a line A inside an area B nothing remains -/
example : let c : Cell := { a := ⟨0,0,1⟩, b := ⟨2,0,1⟩, m := ⟨1,0,1⟩, s := ⟨⟨0,0⟩,⟨2,0⟩⟩, lm := ⟨1,2⟩, lA := true, rA := true,
                            lB := false, rB := false, lR := true, rR := true, onA := false, onB := true, onR := false }
    c.sMem .diff = false ∧ c.expected .diff = true ∧ c.ok .diff = true ∧ c.ok .inter = false := by decide

/-- exchanging the roles of A and B -/
def Cell.swap (c : Cell) : Cell :=
  { c with lA := c.lB, rA := c.rB, lB := c.lA, rB := c.rA, onA := c.onB, onB := c.onA }

/-- argument swapping: ∪, ∩, △ specify the same cells -/
theorem expected_swap (op : Op) (hop : op ≠ .diff) (c : Cell) : c.swap.expected op = c.expected op := by
  cases c with
  | mk a b m s lm lA rA lB rB lR rR onA onB onR =>
    cases op <;> first | (exact absurd rfl hop) |
      (cases lA <;> cases rA <;> cases lB <;> cases rB <;> cases onA <;> cases onB <;> rfl)

/-- a cell of the arrangement of (A, A): B's memberships are A's -/
def Cell.selfPair (c : Cell) : Prop := c.lB = c.lA ∧ c.rB = c.rA ∧ c.onB = c.onA
/-- a cell of the arrangement of (A, EMPTY) -/
def Cell.emptyB (c : Cell) : Prop := c.lB = false ∧ c.rB = false ∧ c.onB = false
def Cell.emptyA (c : Cell) : Prop := c.lA = false ∧ c.rA = false ∧ c.onA = false

/-- A ∪ A = A, A ∩ A = A, A ∖ A = ∅, A △ A = ∅ on every cell -/
theorem expected_self (c : Cell) (h : c.selfPair) :
    c.expected .union = c.inA ∧ c.expected .inter = c.inA ∧ c.expected .diff = false ∧ c.expected .symdiff = false := by
  cases c with
  | mk a b m s lm lA rA lB rB lR rR onA onB onR =>
    obtain ⟨h1, h2, h3⟩ := h
    simp only at h1 h2 h3
    subst h1 h2 h3
    cases lB <;> cases rB <;> cases onB <;> exact ⟨rfl, rfl, rfl, rfl⟩

/-- A ∪ ∅ = A, A ∩ ∅ = ∅, A ∖ ∅ = A, A △ ∅ = A on every cell -/
theorem expected_emptyB (c : Cell) (h : c.emptyB) :
    c.expected .union = c.inA ∧ c.expected .inter = false ∧ c.expected .diff = c.inA ∧ c.expected .symdiff = c.inA := by
  cases c with
  | mk a b m s lm lA rA lB rB lR rR onA onB onR =>
    obtain ⟨h1, h2, h3⟩ := h
    simp only at h1 h2 h3
    subst h1 h2 h3
    cases lA <;> cases rA <;> cases onA <;> exact ⟨rfl, rfl, rfl, rfl⟩

/-- ∅ ∪ B = B, ∅ ∩ B = ∅, ∅ ∖ B = ∅, ∅ △ B = B on every cell -/
theorem expected_emptyA (c : Cell) (h : c.emptyA) :
    c.expected .union = c.inB ∧ c.expected .inter = false ∧ c.expected .diff = false ∧ c.expected .symdiff = c.inB := by
  cases c with
  | mk a b m s lm lA rA lB rB lR rR onA onB onR =>
    obtain ⟨h1, h2, h3⟩ := h
    simp only at h1 h2 h3
    subst h1 h2 h3
    cases lB <;> cases rB <;> cases onB <;> exact ⟨rfl, rfl, rfl, rfl⟩

/-! ## SPEC: soundness of the executable checker -/

/-- **exact checker**: acceptance means every face (both sides of every 1-cell), every 1-cell and every node of the
arrangement of all segments of A, B and R has exactly the membership `closure (boolop op A B)` assigns -/
theorem acceptsExact_sound (op : Op) (A B R : Flat) (h : acceptsExact op A B R = true) :
    (∀ c ∈ cells A B R, c.lR = c.faceL op ∧ c.rR = c.faceR op ∧ c.inR = c.expected op) ∧
    (∀ n ∈ nodes op A B R (cells A B R), n.inR = n.expected) := by
  simp only [acceptsExact, Bool.and_eq_true, List.all_eq_true] at h
  refine ⟨fun c hc => ?_, fun n hn => ?_⟩
  · have := h.1 c hc
    simp only [Cell.ok, Bool.and_eq_true, beq_iff_eq] at this
    exact ⟨this.1.1, this.1.2, this.2⟩
  · have := h.2 n hn
    simpa [Node.ok] using this

/-- what an excused face means: every sample point on that side of the 1-cell is inside the tolerance band of the inputs,
or its closure membership in R equals the Boolean combination of its memberships in (the areas of) A and B -/
theorem faceExcused_sound (T : Tol) (op : Op) (A B R : Flat) (c : Cell) (left : Bool)
    (h : faceExcused T op A B R c left = true) :
    ∀ p ∈ faceSamples T c left, nearInputs T A B p = true ∨
      inClPt R p = boolop op (A.polys.any (inPolyH p)) (B.polys.any (inPolyH p)) := by
  intro p hp
  simp only [faceExcused, List.all_eq_true] at h
  have := h p hp
  simp only [sampleOK, Bool.or_eq_true, beq_iff_eq] at this
  exact this

/-- the band test is the exact comparison `dist² · 10^18 ≤ mag²` on the rational squared distance -/
theorem withinTol_spec (T : Tol) (p : HPt) (s : Seg) :
    withinTol T p s = true ↔ (sqDistSeg p s).1 * 1000000000000000000 ≤ T.mag * T.mag * (sqDistSeg p s).2 := by
  simp [withinTol]

/-- **tolerant checker**: acceptance means every face / 1-cell / node has the specified membership or is excused
inside the band -/
theorem acceptsTol_sound (T : Tol) (op : Op) (A B R : Flat) (h : acceptsTol T op A B R = true) :
    let cs := cells A B R
    let ns := nodes op A B R cs
    let E := expectedLocus op cs ns
    (∀ c ∈ cs, (c.lR = c.faceL op ∨ faceExcused T op A B R c true = true) ∧
               (c.rR = c.faceR op ∨ faceExcused T op A B R c false = true) ∧
               (c.inR = c.expected op ∨ lowerExcused T op A B R E c.m c.inA c.inB c.inR = true)) ∧
    (∀ n ∈ ns, n.inR = n.expected ∨ lowerExcused T op A B R E n.v n.inA n.inB n.inR = true) := by
  simp only [acceptsTol, Bool.and_eq_true, List.all_eq_true] at h
  refine ⟨fun c hc => ?_, fun n hn => ?_⟩
  · have := h.1 c hc
    simp only [Cell.okTol, Bool.and_eq_true, Bool.or_eq_true, beq_iff_eq] at this
    exact ⟨this.1.1, this.1.2, this.2⟩
  · have := h.2 n hn
    simpa [Node.okTol, Node.ok] using this

/-- **the checker the driver runs**: with `T.exact` (every intersection point of the inputs is representable) no cell is
excused; otherwise a mismatching cell must be excused inside the band -/
theorem overlay_check_sound (T : Tol) (op : Op) (A B R : Flat) (h : accepts T op A B R = true) :
    let cs := cells A B R
    let ns := nodes op A B R cs
    let E := expectedLocus op cs ns
    (∀ c ∈ cs, (c.lR = c.faceL op ∨ (T.exact = false ∧ faceExcused T op A B R c true = true)) ∧
               (c.rR = c.faceR op ∨ (T.exact = false ∧ faceExcused T op A B R c false = true)) ∧
               (c.inR = c.expected op ∨ (T.exact = false ∧ lowerExcused T op A B R E c.m c.inA c.inB c.inR = true))) ∧
    (∀ n ∈ ns, n.inR = n.expected ∨ (T.exact = false ∧ lowerExcused T op A B R E n.v n.inA n.inB n.inR = true)) := by
  unfold accepts at h
  by_cases he : T.exact = true
  · rw [if_pos he] at h
    have := acceptsExact_sound op A B R h
    exact ⟨fun c hc => ⟨Or.inl (this.1 c hc).1, Or.inl (this.1 c hc).2.1, Or.inl (this.1 c hc).2.2⟩,
           fun n hn => Or.inl (this.2 n hn)⟩
  · rw [if_neg he] at h
    have hf : T.exact = false := by simpa using he
    have := acceptsTol_sound T op A B R h
    refine ⟨fun c hc => ?_, fun n hn => ?_⟩
    · obtain ⟨h1, h2, h3⟩ := this.1 c hc
      exact ⟨h1.imp id (fun x => ⟨hf, x⟩), h2.imp id (fun x => ⟨hf, x⟩), h3.imp id (fun x => ⟨hf, x⟩)⟩
    · exact (this.2 n hn).imp id (fun x => ⟨hf, x⟩)

/-- non-vacuity: the checker accepts the empty overlay and rejects a non-empty result for empty inputs -/
example : accepts ⟨1, true⟩ .union Flat.empty Flat.empty Flat.empty = true := by decide
example : acceptsExact .union Flat.empty Flat.empty ⟨[⟨0, 0⟩], [], []⟩ = false := by decide

end GeosModel.Overlay
