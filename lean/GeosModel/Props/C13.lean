import GeosModel.Proofs.Conc.InterleaveLemmas
import GeosModel.Proofs.Conc.IndexedLocate
import GeosModel.Generated.Globals
import GeosModel.Generated.SharedObjects
/-!
# C13 — reentrant API: threads with their own contexts and objects do not interfere

Two halves.

**(1) Generic theorems about the interleaving model** (`Model/Conc/Interleave.lean`; sequential
consistency, all schedules, any number of threads), by induction over schedules:

* `no_race_of_discipline` — if every cell a thread touches is immutable-after-init (and only read),
  atomic, consistently guarded by a mutex the thread holds, or private to that thread, then no
  schedule reaches a state where two threads are about to perform conflicting non-atomic accesses;
* `transcript_eq_sequential` — if in addition no thread *observes* (reads) a cell that another thread
  modifies, then in every schedule every thread's transcript is the transcript of its own events run
  alone; a thread that has finished has produced exactly its sequential transcript;
* `independent_of_discipline` — under the discipline the extra hypothesis only concerns atomic and
  mutex-guarded cells ("no thread's transcript depends on an atomic/guarded cell written by another");
* `refcount_unobserved` — a cell that is only ever incremented/decremented (`rmw`, result unused), like the
  default factory's reference count, never violates that hypothesis.

**(2) The inventory** (`Generated/Globals.lean`, regenerated on every run by
`translate/globals_inventory.py` from the freshly built `libgeos.so` / `libgeos_c.so` symbol tables and
the headers): `inventory_disciplined` — every cell is in a safe class **by its declared type**
(std::atomic, mutex, thread_local, const, ABI guard) or is one of the exceptions **named in the theorem
statement**, each with the reason why it is tolerated.  A new writable global, a new function-local
static, a new `mutable` member, or a cell whose type stops being atomic/const makes this theorem (a
`decide`) fail.  The exceptions of class `raceCandidate` are real unsynchronised accesses on the
unchanged tree: findings, see `raceCandidates_exact`.

**(3) A lazily indexed object built before sharing** — the point locator of a prepared polygon
(`Model/Conc/IndexedLocate.lean`, `Proofs/Conc/IndexedLocate.lean`): `shared_built_locator_schedule_independent`
(any number of threads asking any points: no race, every answer is `locate rings q`),
`shared_built_locator_report_independent` (the answer does not depend on what order / which superset of the
stabbed segments the interval index reports), `shared_built_locator_answers_evenOdd`.  Stream `sharedlocate`
compares the concurrent implementation with this model.

**(4) The members of objects shared after being built** (`Generated/SharedObjects.lean`, regenerated on every
run by `translate/shared_objects_inventory.py`): `shared_objects_written_only_while_built` — every data member
of the classes inside a prepared geometry is safe by type, or is written only by the build-phase functions
**named in the theorem statement**; `sharedObject_knownRaces_exact` names the members that are the known finding.

Limits: SC only (no weak memory); the link "an API call touches only (a) memory private to its
thread/context, (b) shared immutable geometries, (c) inventory cells" is the property's premise plus
the completeness of the linker's symbol table for process-wide state — it is not proved from the C++.
-/
namespace GeosModel.Conc

/-! ## (1) generic theorems -/

/-- **no_race_of_discipline.** -/
theorem no_race_of_discipline (tag : CellId → Tag) (mem0 : CellId → Val) (p : Prog)
    (hd : Disciplined tag p) : ¬ dataRace (tagAtomic tag) mem0 p := by
  rintro ⟨sched, s, hex, hr⟩
  exact not_racy_of_lockInv tag s (lockInv_exec tag sched _ s (lockInv_init tag mem0 p hd) hex) hr

/-- **transcript_eq_sequential.**  For every schedule that runs (`exec … = some s`): each thread's
    transcript so far is the sequential transcript of the events it has executed, these events are a
    prefix of its program, and a finished thread has produced exactly its sequential transcript. -/
theorem transcript_eq_sequential (mem0 : CellId → Val) (p : Prog) (hind : Independent p)
    (sched : List Tid) (s : St) (hex : exec (St.init mem0 p) sched = some s) (t : Tid) :
    s.out t = seqTranscript mem0 (s.done t) ∧ s.done t ++ s.rest t = p t ∧
    (s.rest t = [] → s.out t = seqTranscript mem0 (p t)) := by
  have inv := viewInv_exec mem0 p hind sched _ s (viewInv_init mem0 p) hex
  refine ⟨inv.outEq t, inv.split t, fun hfin => ?_⟩
  have := inv.split t
  rw [hfin, List.append_nil] at this
  rw [inv.outEq t, this]; rfl

/-- under the discipline, a cell read by one thread and modified by another can only be atomic or mutex-guarded -/
theorem shared_written_cell_is_atomic_or_guarded (tag : CellId → Tag) (p : Prog) (hd : Disciplined tag p)
    (t t' : Tid) (c : CellId) (hne : t ≠ t') (hr : readsCell (p t) c) (hw : writesCell (p t') c) :
    tag c = .atomic ∨ ∃ m, tag c = .guardedBy m := by
  obtain ⟨e, he, ha⟩ := hw
  obtain ⟨h1, a1⟩ := okFrom_mem_access tag t (p t) [] (hd t) (.read c) hr c false rfl
  obtain ⟨h2, a2⟩ := okFrom_mem_access tag t' (p t') [] (hd t') e he c true ha
  cases htag : tag c with
  | immutableAfterInit => rw [htag] at a2; simp [accessOK] at a2
  | atomic => exact Or.inl rfl
  | guardedBy m => exact Or.inr ⟨m, rfl⟩
  | threadPrivate o =>
    rw [htag] at a1 a2
    simp only [accessOK, beq_iff_eq] at a1 a2
    exact absurd (a1.symm.trans a2) hne
  | plain => rw [htag] at a2; simp [accessOK] at a2

/-- "no thread's observable transcript depends on an atomic (or guarded) cell written by another thread" -/
def NoObservedSharedWrite (tag : CellId → Tag) (p : Prog) : Prop :=
  ∀ t t' c, t ≠ t' → (tag c = .atomic ∨ ∃ m, tag c = .guardedBy m) → readsCell (p t) c → ¬ writesCell (p t') c

/-- **independent_of_discipline.** -/
theorem independent_of_discipline (tag : CellId → Tag) (p : Prog) (hd : Disciplined tag p)
    (hobs : NoObservedSharedWrite tag p) : Independent p := by
  intro t t' c hne hr hw
  exact hobs t t' c hne (shared_written_cell_is_atomic_or_guarded tag p hd t t' c hne hr hw) hr hw

/-- the property's sentence for the model: discipline + no observed shared write ⇒ no data race in any
    interleaving, and every thread that completes returns exactly its sequential transcript -/
theorem reentrant_threads_do_not_interfere (tag : CellId → Tag) (mem0 : CellId → Val) (p : Prog)
    (hd : Disciplined tag p) (hobs : NoObservedSharedWrite tag p) :
    ¬ dataRace (tagAtomic tag) mem0 p ∧
    ∀ sched s, exec (St.init mem0 p) sched = some s → ∀ t, s.rest t = [] → s.out t = seqTranscript mem0 (p t) :=
  ⟨no_race_of_discipline tag mem0 p hd, fun sched s hex t hfin =>
    (transcript_eq_sequential mem0 p (independent_of_discipline tag p hd hobs) sched s hex t).2.2 hfin⟩

/-- **refcount_unobserved.**  A cell that no thread ever `read`s (it is only `rmw`-ed, like `_refCount` of the
    never-destroyed default factory, or only written) cannot make a transcript depend on another thread. -/
theorem refcount_unobserved (p : Prog) (r : CellId) (hnoread : ∀ t, ¬ readsCell (p t) r)
    (hrest : ∀ t t' c, c ≠ r → t ≠ t' → readsCell (p t) c → ¬ writesCell (p t') c) : Independent p := by
  intro t t' c hne hr hw
  by_cases hc : c = r
  · subst hc; exact hnoread t hr
  · exact hrest t t' c hc hne hr hw

/-! ### non-vacuity: a racy program is racy, a disciplined one is disciplined -/

/-- two threads `++refCount` on a plain cell: the model *does* exhibit the race -/
example : dataRace (fun _ => false) (fun _ => 0) (fun t => if t < 2 then [.rmw 0 1] else []) :=
  ⟨[], St.init _ _, rfl, 0, 1, .rmw 0 1, .rmw 0 1, [], [], by decide, rfl, rfl, 0, true, true, rfl, rfl, Or.inl rfl, rfl⟩

/-- same program with the cell atomic satisfies the discipline, and nobody observes the counter -/
example : Disciplined (fun _ => .atomic) (fun t => if t < 2 then [.rmw 0 1] else []) := by
  intro t; by_cases h : t < 2 <;> simp [h, okFrom, accessOK]

/-- a thread observing a flag another thread writes does depend on the schedule (hypothesis is needed):
    reader-first and writer-first schedules give different transcripts -/
example : (exec (St.init (fun _ => 0) (fun t => if t = 0 then [.write 7 1] else if t = 1 then [.read 7] else [])) [0, 1]).map (·.out 1) = some [1]
    ∧ (exec (St.init (fun _ => 0) (fun t => if t = 0 then [.write 7 1] else if t = 1 then [.read 7] else [])) [1, 0]).map (·.out 1) = some [0] := by
  constructor <;> rfl

/-- the two-flag lazy cache of `CoordinateSequence` (`m_hasdim = true; m_hasz = true;` vs `hasZ()` reading
    `m_hasdim` then `m_hasz`): a schedule exists in which the reader sees hasdim = 1 and hasz = 0, which no
    sequential order of the two calls produces -/
example : (exec (St.init (fun _ => 0) (fun t => if t = 0 then [.write 1 1, .write 2 1] else if t = 1 then [.read 1, .read 2] else []))
    [0, 1, 1, 0]).map (·.out 1) = some [1, 0] := rfl

/-! ## (3) a lazily indexed object built before sharing: the point locator of a prepared polygon

`Model/Conc/IndexedLocate.lean` models `IndexedPointInAreaLocator::locate` as it is in the source: a local
`RayCrossingCounter` fed with the segments the (already built) interval index reports.  `locate_any_report`: the answer
does not depend on the report order nor on extra reported segments; `locate_eq_evenOdd`: it is the even–odd rule.  Hence a
call touches shared memory only by *reading* the index, and: -/
open GeosModel.Kernel in
/-- **a locator built before sharing may be asked by any number of threads**: whatever points the threads ask, in every
schedule there is no data race and every thread that finishes has received, for each of its calls, exactly
`locate rings q` — the answer of the same call made alone (`mem0 idx` stands for the index it read). -/
theorem shared_built_locator_schedule_independent (idx : CellId) (rings : List (List Pt)) (queries : Tid → List Pt)
    (mem0 : CellId → Val) :
    ¬ dataRace (tagAtomic (fun _ => Tag.immutableAfterInit)) mem0 (fun t => Locate.locateThread idx rings (queries t)) ∧
    ∀ sched s, exec (St.init mem0 (fun t => Locate.locateThread idx rings (queries t))) sched = some s →
      ∀ t, s.rest t = [] → s.out t = (queries t).flatMap (fun q => [mem0 idx, Locate.locCode (Locate.locate rings q)]) := by
  have h := reentrant_threads_do_not_interfere (fun _ => Tag.immutableAfterInit) mem0
    (fun t => Locate.locateThread idx rings (queries t))
    (fun t => Locate.okFrom_locateThread _ idx rfl t rings (queries t) [])
    (fun t t' c _ _ _ hw => Locate.locateThread_no_write idx rings (queries t') c hw)
  refine ⟨h.1, fun sched s hex t hfin => ?_⟩
  rw [h.2 sched s hex t hfin]
  simp [seqTranscript, Locate.seqRun_locateThread]

open GeosModel.Kernel in
/-- … and that answer is the even–odd location of the point in the polygon's rings (all rings closed) -/
theorem shared_built_locator_answers_evenOdd (rings : List (List Pt)) (hc : ∀ r ∈ rings, RayCount.Closed r) (q : Pt) :
    Locate.locate rings q = Locate.evenOdd rings q := Locate.locate_eq_evenOdd rings hc q

open GeosModel.Kernel in
/-- … whatever the interval tree reports (any order, with or without segments that are not stabbed) -/
theorem shared_built_locator_report_independent (rings : List (List Pt)) (p : Pt) (visited : List Locate.Seg)
    (h : (visited.filter (Locate.stabs p)).Perm ((Locate.segsOf rings).filter (Locate.stabs p))) :
    Locate.locateVisited p visited = Locate.locate rings p := Locate.locate_any_report rings p visited h

/-- non-vacuity: the triangle (0,0),(10,0),(0,10): (1,1) interior, (8,8) exterior, (5,5) and (0,0) boundary -/
example : Locate.locate [[⟨0,0⟩,⟨10,0⟩,⟨0,10⟩,⟨0,0⟩]] ⟨1,1⟩ = .interior ∧ Locate.locate [[⟨0,0⟩,⟨10,0⟩,⟨0,10⟩,⟨0,0⟩]] ⟨8,8⟩ = .exterior ∧
    Locate.locate [[⟨0,0⟩,⟨10,0⟩,⟨0,10⟩,⟨0,0⟩]] ⟨5,5⟩ = .boundary ∧ Locate.locate [[⟨0,0⟩,⟨10,0⟩,⟨0,10⟩,⟨0,0⟩]] ⟨0,0⟩ = .boundary := by decide

/-- the hypothesis "the call only reads" is needed.  A `locate` that memoises its last query in three ordinary members
(cells 10 = hasLast, 11 = lastPt, 12 = lastLoc; thread 0 asks point 1 whose location is 0, thread 1 asks point 2 whose
location is 2, twice; each event list is the path the call takes in the schedule below): thread 1's second call finds its
own point in `lastPt` and thread 0's answer in `lastLoc`.  Alone, it receives 2. -/
example :
    let p : Prog := fun t =>
      if t = 0 then [.read 10, .write 11 1, .write 12 0, .write 10 1, .out 0]
      else if t = 1 then [.read 10, .write 11 2, .write 12 2, .write 10 1, .out 2, .read 10, .read 11, .read 12]
      else []
    (exec (St.init (fun _ => 0) p) [0, 0, 1, 1, 1, 1, 1, 0, 0, 0, 1, 1, 1]).map (·.out 1) = some [0, 2, 1, 2, 0] ∧
    seqTranscript (fun _ => 0) (p 1) = [0, 2, 1, 2, 2] := by
  constructor <;> rfl

/-! ## (2) the generated inventory -/
open GeosModel.Generated.Globals

/-- why a cell that is *not* safe by its type is tolerated -/
inductive Why where
  /-- non-const only by declaration: no statement of the library writes it after static initialisation
      (stateless singleton objects, lookup tables, constants).  Zero-risk fix: declare it `const`. -/
  | neverWritten
  /-- `mutable` but written only by constructors / non-const mutators, never by a const method -/
  | notWrittenByConstMethods
  /-- REAL unsynchronised concurrent access on the unchanged tree: a finding (see the manifest / report) -/
  | raceCandidate
  /-- lazily built index or cache of an object the property excludes unless it was built before sharing
      (prepared geometries, legacy STRtree nodes) -/
  | excludedLazyIndex
  /-- member of a per-call temporary helper object (never part of a geometry that can be shared) -/
  | perCallTemporary
  /-- only used by the legacy non-reentrant API (`initGEOS` / functions without `_r`), outside the property -/
  | legacyNonReentrantApi
deriving DecidableEq, Repr

/-- the exception list of `inventory_disciplined` -/
def exceptions : List (String × Why) := [
  -- Interrupt.cpp: written by GEOS_init_r → Interrupt::cancel() in any thread, read by every poll of every thread
  ("(anonymous namespace)::requested", .raceCandidate),
  ("(anonymous namespace)::callback", .raceCandidate),
  -- default GeometryFactory: `++_refCount` / `--_refCount` (plain int) from every geometry ctor/dtor of every thread
  ("GeometryFactory::_refCount", .raceCandidate),
  -- GEOSversion(): `static char version[256]; snprintf(version, …)` on every call (same bytes, still a write/write race)
  ("GEOSversion::version", .raceCandidate),
  -- lazily written by const getters of geometries that may be shared read-only
  ("CoordinateSequence::m_hasdim", .raceCandidate),
  ("CoordinateSequence::m_hasz", .raceCandidate),
  ("GeometryCollection::flags", .raceCandidate),
  -- mutable, but only constructors / geometryChanged (non-const) write them
  ("GeometryCollection::envelope", .notWrittenByConstMethods),
  ("SimpleCurve::envelope", .notWrittenByConstMethods),
  -- stateless singletons / constants that are merely not declared const
  ("geos::algorithm::(anonymous namespace)::endPointRule", .neverWritten),
  ("geos::algorithm::(anonymous namespace)::mod2Rule", .neverWritten),
  ("geos::algorithm::(anonymous namespace)::monoValentRule", .neverWritten),
  ("geos::algorithm::(anonymous namespace)::multiValentRule", .neverWritten),
  ("geos::algorithm::construct::INITIAL_GRID_SIDE", .neverWritten),
  ("geos::geom::Geometry::geometryChangedFilter", .neverWritten),
  ("geos::index::bintree::Root::origin", .neverWritten),
  ("geos::operation::valid::TopologyValidationError::errMsg", .neverWritten),
  ("geos::geom::GeometryFactory::getDefaultInstance()::defInstance", .neverWritten),
  ("geos::geomgraph::EdgeEndStar::getCoordinate()::nullCoord", .neverWritten),
  ("geos::planargraph::DirectedEdgeStar::getCoordinate() const::nullCoord", .neverWritten),
  ("geos::operation::buffer::BufferNodeFactory::instance()::onf", .neverWritten),
  ("geos::util::Profiler::instance()::internal_profiler", .neverWritten),
  ("getMachineByteOrder()::endian_check", .neverWritten),
  -- prepared geometries and legacy STRtree nodes: lazily built, excluded by the property unless built before sharing
  ("BasicPreparedGeometry::relate_ng", .excludedLazyIndex),
  ("PreparedLineString::indexedDistance", .excludedLazyIndex),
  ("PreparedLineString::segStrings", .excludedLazyIndex),
  ("PreparedPolygon::indexedDistance", .excludedLazyIndex),
  ("PreparedPolygon::indexedPtOnGeomLoc", .excludedLazyIndex),
  ("PreparedPolygon::ptOnGeomLoc", .excludedLazyIndex),
  ("PreparedPolygon::segIntFinder", .excludedLazyIndex),
  ("PreparedPolygon::segStrings", .excludedLazyIndex),
  ("AbstractNode::bounds", .excludedLazyIndex),
  -- CircularArc is a helper value constructed per call
  ("CircularArc::m_center", .perCallTemporary),
  ("CircularArc::m_center_known", .perCallTemporary),
  ("CircularArc::m_orientation", .perCallTemporary),
  ("CircularArc::m_orientation_known", .perCallTemporary),
  ("CircularArc::m_radius", .perCallTemporary),
  ("CircularArc::m_radius_known", .perCallTemporary),
  -- the global context of the non-reentrant API
  ("handle", .legacyNonReentrantApi)
]

def excused (c : Cell) : Bool := (exceptions.lookup c.name).isSome

/-- **inventory_disciplined.**  Every cell of the generated inventory is safe by its declared type, or is one
    of the exceptions named above.  Re-checked against the freshly generated inventory on every run. -/
theorem inventory_disciplined : ∀ c ∈ cells, c.ty.safe = true ∨ excused c = true := by decide

/-- the cells whose unsynchronised concurrent use is real on this tree — exactly these, by name -/
def raceCandidates : List String :=
  (exceptions.filter (fun e => e.2 == Why.raceCandidate)).map (·.1)

theorem raceCandidates_exact : raceCandidates =
    ["(anonymous namespace)::requested", "(anonymous namespace)::callback", "GeometryFactory::_refCount",
     "GEOSversion::version", "CoordinateSequence::m_hasdim", "CoordinateSequence::m_hasz",
     "GeometryCollection::flags"] := by decide

/-- tag used to connect the inventory with the interleaving model: a cell safe by type may be used freely
    (atomic/guard/mutex → `atomic`; const → `immutableAfterInit`; thread_local → private, modelled per thread),
    everything else is `plain`, i.e. must not be touched by a disciplined program at all -/
def tagOfTy : TyClass → Tag
  | .atomic => .atomic
  | .mutex => .atomic
  | .guard => .atomic
  | .constAfterInit => .immutableAfterInit
  | .threadLocal => .atomic
  | .plain => .plain

/-- a program that touches process-wide state only through inventory cells that are safe by type (numbered by
    their position in the inventory), reading the const ones, has no data race and sequential transcripts,
    provided no thread reads an atomic cell another thread writes.  (Instance of the generic theorems.) -/
theorem inventory_program_safe (mem0 : CellId → Val) (p : Prog)
    (hd : Disciplined (fun c => match cells[c]? with | some cell => tagOfTy cell.ty | none => .plain) p)
    (hobs : NoObservedSharedWrite (fun c => match cells[c]? with | some cell => tagOfTy cell.ty | none => .plain) p) :
    ¬ dataRace (tagAtomic (fun c => match cells[c]? with | some cell => tagOfTy cell.ty | none => .plain)) mem0 p ∧
    ∀ sched s, exec (St.init mem0 p) sched = some s → ∀ t, s.rest t = [] → s.out t = seqTranscript mem0 (p t) :=
  reentrant_threads_do_not_interfere _ mem0 p hd hobs

/-- non-vacuity of the inventory theorem: the inventory is not empty, contains safe and unsafe cells -/
example : cells.length ≥ 40 ∧ (cells.filter (fun c => c.ty.safe)).length ≥ 10 ∧ (cells.filter (fun c => !c.ty.safe)).length ≥ 1 := by decide

/-! ## (4) the members of objects that are shared after being built

`Generated/SharedObjects.lean` (regenerated on every run by `translate/shared_objects_inventory.py`) lists every non-static
data member of the classes that live inside a prepared geometry on the point-predicate, segment-intersection and distance
paths (prepared geometry classes, point-in-area locators, `FastSegmentSetIntersectionFinder`,
`MCIndexSegmentSetMutualIntersector`, `IndexedFacetDistance`, `FacetSequence`, `TemplateSTRtree`, `MonotoneChain`) with the
member functions that write it.  `shared_objects_written_only_while_built`: every member is safe by its declared type, or
every function that writes it is one of the functions **named below**, each with the reason why a write there does not
happen after the object was built and shared — or is a recorded finding.  A new member written by a query method
(a memo of the last answer, a statistics counter, a scratch buffer moved into the object), or a new write to an existing
member from a function not named here, makes this theorem (a `decide`) fail. -/
/-- why a write by the named function is tolerated -/
inductive WriteWhy where
  /-- the function runs only while the object is constructed / its index is built (called from constructors or from the
      build step, which for `TemplateSTRtree::build` is additionally under the tree's mutex) -/
  | buildPhase
  /-- lazily creates the member on first use; the property excludes lazily indexed objects unless built before sharing, and
      once the member exists the function takes the branch that does not write -/
  | lazyBuildExcluded
  /-- per-call state kept in the object by the NON-re-entrant `process(segStrings)` / `setSegmentIntersector`.  Until /repo
      commit "fix: FastSegmentSetIntersectionFinder must not keep per-call state in the shared intersector" the prepared
      geometries called these on their shared intersector (finding `scenario-fails/sharedprep`: concurrent
      `intersects(areal/lineal)` on one prepared polygon crashed); since then `FastSegmentSetIntersectionFinder` builds the
      index in its constructor (`buildIndex`) and queries through the re-entrant `process(segStrings, si)`, which writes no
      member.  The functions still exist for single-threaded users (`SegmentSetMutualIntersector` API), hence the entries. -/
  | knownRace
  /-- member of a helper object created per call (iterators), never part of a shared object -/
  | perCallObject
deriving DecidableEq, Repr

/-- member ↦ (functions that may write it, why) -/
def allowedWriters : List (String × List String × WriteWhy) := [
  ("BasicPreparedGeometry::baseGeom", ["setGeometry"], .buildPhase),
  ("BasicPreparedGeometry::relate_ng", ["getRelateNG"], .lazyBuildExcluded),
  ("FacetSequence::env", ["computeEnvelope"], .buildPhase),
  ("IndexedPointInAreaLocator::index", ["buildIndex"], .lazyBuildExcluded),
  ("IndexedPointInAreaLocator::IntervalIndexedGeometry::index", ["addLine", "init"], .buildPhase),
  ("MCIndexSegmentSetMutualIntersector::index", ["buildIndex", "process"], .lazyBuildExcluded),
  ("MCIndexSegmentSetMutualIntersector::indexBuilt", ["buildIndex", "process"], .lazyBuildExcluded),
  ("MCIndexSegmentSetMutualIntersector::monoChains", ["addToMonoChains", "process"], .knownRace),
  ("MCIndexSegmentSetMutualIntersector::nOverlaps", ["intersectChains", "process"], .knownRace),
  ("MCIndexSegmentSetMutualIntersector::processCounter", ["process"], .knownRace),
  ("SegmentSetMutualIntersector::segInt", ["setSegmentIntersector"], .knownRace),
  ("MonotoneChain::env", ["getEnvelope"], .lazyBuildExcluded),
  ("PreparedLineString::indexedDistance", ["getIndexedFacetDistance"], .lazyBuildExcluded),
  ("PreparedLineString::segIntFinder", ["getIntersectionFinder"], .lazyBuildExcluded),
  ("PreparedPolygon::indexedDistance", ["getIndexedFacetDistance"], .lazyBuildExcluded),
  ("PreparedPolygon::indexedPtOnGeomLoc", ["getPointLocator"], .lazyBuildExcluded),
  ("PreparedPolygon::ptOnGeomLoc", ["getPointLocator"], .lazyBuildExcluded),
  ("PreparedPolygon::segIntFinder", ["getIntersectionFinder"], .lazyBuildExcluded),
  ("TemplateSTRtreeImpl::nodeCapacity", ["operator="], .buildPhase),
  ("TemplateSTRtreeImpl::nodes", ["build", "createBranchNode", "createLeafNode", "operator="], .buildPhase),
  ("TemplateSTRtreeImpl::numItems", ["build", "operator="], .buildPhase),
  ("TemplateSTRtreeImpl::root", ["build", "operator="], .buildPhase),
  ("TemplateSTRtreeImpl::Iterator::m_iter", ["operator++", "skipDeleted"], .perCallObject)
]

def writersOK (m : Member) : Bool :=
  m.ty.safe || m.writers.all (fun w => match allowedWriters.lookup m.name with
    | some (ws, _) => ws.contains w
    | none => false)

/-- **shared_objects_written_only_while_built.**  Re-checked against the freshly generated member list on every run. -/
theorem shared_objects_written_only_while_built :
    ∀ m ∈ GeosModel.Generated.SharedObjects.members, writersOK m = true := by decide

/-- the members with per-call state in a shared object — exactly these, by name (the known finding) -/
theorem sharedObject_knownRaces_exact :
    (allowedWriters.filter (fun e => e.2.2 == WriteWhy.knownRace)).map (·.1) =
    ["MCIndexSegmentSetMutualIntersector::monoChains", "MCIndexSegmentSetMutualIntersector::nOverlaps",
     "MCIndexSegmentSetMutualIntersector::processCounter", "SegmentSetMutualIntersector::segInt"] := by decide

/-- non-vacuity: the list is not empty, contains members that are written by some function and members nobody writes;
    a member written by a query method is rejected -/
example : GeosModel.Generated.SharedObjects.members.length ≥ 30 ∧
    (GeosModel.Generated.SharedObjects.members.filter (fun m => !m.writers.isEmpty)).length ≥ 10 ∧
    writersOK { name := "IndexedPointInAreaLocator::lastLoc", ty := .plain, decl := "geom::Location lastLoc", loc := "-", writers := ["locate"] } = false ∧
    writersOK { name := "IndexedPointInAreaLocator::index", ty := .plain, decl := "-", loc := "-", writers := ["buildIndex", "locate"] } = false := by decide

end GeosModel.Conc
