import GeosModel.Proofs.Conc.InterleaveLemmas
import GeosModel.Generated.Globals
/-!
# C13 — reentrant API: threads with their own contexts and objects do not interfere

Two halves.

**(1) Generic theorems about the interleaving model** (`Model/Conc/Interleave.lean`; sequential
consistency, all schedules, any number of threads), by induction over schedules:

* `no_race_of_discipline` — if every cell a thread touches is immutable-after-init (and only read),
  atomic, consistently guarded by a mutex the thread holds, or private to that thread, then no
  schedule reaches a state where two threads are about to perform conflicting non-atomic accesses;
* `transcript_eq_sequential` — if in addition no thread *observes* (reads) a cell that another thread
  modifies, then in every schedule every thread's transcript is the transcript of its own events run
  alone; a thread that has finished has produced exactly its sequential transcript;
* `independent_of_discipline` — under the discipline the extra hypothesis only concerns atomic and
  mutex-guarded cells ("no thread's transcript depends on an atomic/guarded cell written by another");
* `refcount_unobserved` — a cell that is only ever incremented/decremented (`rmw`, result unused), like the
  default factory's reference count, never violates that hypothesis.

**(2) The inventory** (`Generated/Globals.lean`, regenerated on every run by
`translate/globals_inventory.py` from the freshly built `libgeos.so` / `libgeos_c.so` symbol tables and
the headers): `inventory_disciplined` — every cell is in a safe class **by its declared type**
(std::atomic, mutex, thread_local, const, ABI guard) or is one of the exceptions **named in the theorem
statement**, each with the reason why it is tolerated.  A new writable global, a new function-local
static, a new `mutable` member, or a cell whose type stops being atomic/const makes this theorem (a
`decide`) fail.  The exceptions of class `raceCandidate` are real unsynchronised accesses on the
unchanged tree: findings, see `raceCandidates_exact`.

Limits: SC only (no weak memory); the link "an API call touches only (a) memory private to its
thread/context, (b) shared immutable geometries, (c) inventory cells" is the property's premise plus
the completeness of the linker's symbol table for process-wide state — it is not proved from the C++.
-/
namespace GeosModel.Conc

/-! ## (1) generic theorems -/

/-- **no_race_of_discipline.** -/
theorem no_race_of_discipline (tag : CellId → Tag) (mem0 : CellId → Val) (p : Prog)
    (hd : Disciplined tag p) : ¬ dataRace (tagAtomic tag) mem0 p := by
  rintro ⟨sched, s, hex, hr⟩
  exact not_racy_of_lockInv tag s (lockInv_exec tag sched _ s (lockInv_init tag mem0 p hd) hex) hr

/-- **transcript_eq_sequential.**  For every schedule that runs (`exec … = some s`): each thread's
    transcript so far is the sequential transcript of the events it has executed, these events are a
    prefix of its program, and a finished thread has produced exactly its sequential transcript. -/
theorem transcript_eq_sequential (mem0 : CellId → Val) (p : Prog) (hind : Independent p)
    (sched : List Tid) (s : St) (hex : exec (St.init mem0 p) sched = some s) (t : Tid) :
    s.out t = seqTranscript mem0 (s.done t) ∧ s.done t ++ s.rest t = p t ∧
    (s.rest t = [] → s.out t = seqTranscript mem0 (p t)) := by
  have inv := viewInv_exec mem0 p hind sched _ s (viewInv_init mem0 p) hex
  refine ⟨inv.outEq t, inv.split t, fun hfin => ?_⟩
  have := inv.split t
  rw [hfin, List.append_nil] at this
  rw [inv.outEq t, this]; rfl

/-- under the discipline, a cell read by one thread and modified by another can only be atomic or mutex-guarded -/
theorem shared_written_cell_is_atomic_or_guarded (tag : CellId → Tag) (p : Prog) (hd : Disciplined tag p)
    (t t' : Tid) (c : CellId) (hne : t ≠ t') (hr : readsCell (p t) c) (hw : writesCell (p t') c) :
    tag c = .atomic ∨ ∃ m, tag c = .guardedBy m := by
  obtain ⟨e, he, ha⟩ := hw
  obtain ⟨h1, a1⟩ := okFrom_mem_access tag t (p t) [] (hd t) (.read c) hr c false rfl
  obtain ⟨h2, a2⟩ := okFrom_mem_access tag t' (p t') [] (hd t') e he c true ha
  cases htag : tag c with
  | immutableAfterInit => rw [htag] at a2; simp [accessOK] at a2
  | atomic => exact Or.inl rfl
  | guardedBy m => exact Or.inr ⟨m, rfl⟩
  | threadPrivate o =>
    rw [htag] at a1 a2
    simp only [accessOK, beq_iff_eq] at a1 a2
    exact absurd (a1.symm.trans a2) hne
  | plain => rw [htag] at a2; simp [accessOK] at a2

/-- "no thread's observable transcript depends on an atomic (or guarded) cell written by another thread" -/
def NoObservedSharedWrite (tag : CellId → Tag) (p : Prog) : Prop :=
  ∀ t t' c, t ≠ t' → (tag c = .atomic ∨ ∃ m, tag c = .guardedBy m) → readsCell (p t) c → ¬ writesCell (p t') c

/-- **independent_of_discipline.** -/
theorem independent_of_discipline (tag : CellId → Tag) (p : Prog) (hd : Disciplined tag p)
    (hobs : NoObservedSharedWrite tag p) : Independent p := by
  intro t t' c hne hr hw
  exact hobs t t' c hne (shared_written_cell_is_atomic_or_guarded tag p hd t t' c hne hr hw) hr hw

/-- the property's sentence for the model: discipline + no observed shared write ⇒ no data race in any
    interleaving, and every thread that completes returns exactly its sequential transcript -/
theorem reentrant_threads_do_not_interfere (tag : CellId → Tag) (mem0 : CellId → Val) (p : Prog)
    (hd : Disciplined tag p) (hobs : NoObservedSharedWrite tag p) :
    ¬ dataRace (tagAtomic tag) mem0 p ∧
    ∀ sched s, exec (St.init mem0 p) sched = some s → ∀ t, s.rest t = [] → s.out t = seqTranscript mem0 (p t) :=
  ⟨no_race_of_discipline tag mem0 p hd, fun sched s hex t hfin =>
    (transcript_eq_sequential mem0 p (independent_of_discipline tag p hd hobs) sched s hex t).2.2 hfin⟩

/-- **refcount_unobserved.**  A cell that no thread ever `read`s (it is only `rmw`-ed, like `_refCount` of the
    never-destroyed default factory, or only written) cannot make a transcript depend on another thread. -/
theorem refcount_unobserved (p : Prog) (r : CellId) (hnoread : ∀ t, ¬ readsCell (p t) r)
    (hrest : ∀ t t' c, c ≠ r → t ≠ t' → readsCell (p t) c → ¬ writesCell (p t') c) : Independent p := by
  intro t t' c hne hr hw
  by_cases hc : c = r
  · subst hc; exact hnoread t hr
  · exact hrest t t' c hc hne hr hw

/-! ### non-vacuity: a racy program is racy, a disciplined one is disciplined -/

/-- two threads `++refCount` on a plain cell: the model *does* exhibit the race -/
example : dataRace (fun _ => false) (fun _ => 0) (fun t => if t < 2 then [.rmw 0 1] else []) :=
  ⟨[], St.init _ _, rfl, 0, 1, .rmw 0 1, .rmw 0 1, [], [], by decide, rfl, rfl, 0, true, true, rfl, rfl, Or.inl rfl, rfl⟩

/-- same program with the cell atomic satisfies the discipline, and nobody observes the counter -/
example : Disciplined (fun _ => .atomic) (fun t => if t < 2 then [.rmw 0 1] else []) := by
  intro t; by_cases h : t < 2 <;> simp [h, okFrom, accessOK]

/-- a thread observing a flag another thread writes does depend on the schedule (hypothesis is needed):
    reader-first and writer-first schedules give different transcripts -/
example : (exec (St.init (fun _ => 0) (fun t => if t = 0 then [.write 7 1] else if t = 1 then [.read 7] else [])) [0, 1]).map (·.out 1) = some [1]
    ∧ (exec (St.init (fun _ => 0) (fun t => if t = 0 then [.write 7 1] else if t = 1 then [.read 7] else [])) [1, 0]).map (·.out 1) = some [0] := by
  constructor <;> rfl

/-- the two-flag lazy cache of `CoordinateSequence` (`m_hasdim = true; m_hasz = true;` vs `hasZ()` reading
    `m_hasdim` then `m_hasz`): a schedule exists in which the reader sees hasdim = 1 and hasz = 0, which no
    sequential order of the two calls produces -/
example : (exec (St.init (fun _ => 0) (fun t => if t = 0 then [.write 1 1, .write 2 1] else if t = 1 then [.read 1, .read 2] else []))
    [0, 1, 1, 0]).map (·.out 1) = some [1, 0] := rfl

/-! ## (2) the generated inventory -/
open GeosModel.Generated.Globals

/-- why a cell that is *not* safe by its type is tolerated -/
inductive Why where
  /-- non-const only by declaration: no statement of the library writes it after static initialisation
      (stateless singleton objects, lookup tables, constants).  Zero-risk fix: declare it `const`. -/
  | neverWritten
  /-- `mutable` but written only by constructors / non-const mutators, never by a const method -/
  | notWrittenByConstMethods
  /-- REAL unsynchronised concurrent access on the unchanged tree: a finding (see the manifest / report) -/
  | raceCandidate
  /-- lazily built index or cache of an object the property excludes unless it was built before sharing
      (prepared geometries, legacy STRtree nodes) -/
  | excludedLazyIndex
  /-- member of a per-call temporary helper object (never part of a geometry that can be shared) -/
  | perCallTemporary
  /-- only used by the legacy non-reentrant API (`initGEOS` / functions without `_r`), outside the property -/
  | legacyNonReentrantApi
deriving DecidableEq, Repr

/-- the exception list of `inventory_disciplined` -/
def exceptions : List (String × Why) := [
  -- Interrupt.cpp: written by GEOS_init_r → Interrupt::cancel() in any thread, read by every poll of every thread
  ("(anonymous namespace)::requested", .raceCandidate),
  ("(anonymous namespace)::callback", .raceCandidate),
  -- default GeometryFactory: `++_refCount` / `--_refCount` (plain int) from every geometry ctor/dtor of every thread
  ("GeometryFactory::_refCount", .raceCandidate),
  -- GEOSversion(): `static char version[256]; snprintf(version, …)` on every call (same bytes, still a write/write race)
  ("GEOSversion::version", .raceCandidate),
  -- lazily written by const getters of geometries that may be shared read-only
  ("CoordinateSequence::m_hasdim", .raceCandidate),
  ("CoordinateSequence::m_hasz", .raceCandidate),
  ("GeometryCollection::flags", .raceCandidate),
  -- mutable, but only constructors / geometryChanged (non-const) write them
  ("GeometryCollection::envelope", .notWrittenByConstMethods),
  ("SimpleCurve::envelope", .notWrittenByConstMethods),
  -- stateless singletons / constants that are merely not declared const
  ("geos::algorithm::(anonymous namespace)::endPointRule", .neverWritten),
  ("geos::algorithm::(anonymous namespace)::mod2Rule", .neverWritten),
  ("geos::algorithm::(anonymous namespace)::monoValentRule", .neverWritten),
  ("geos::algorithm::(anonymous namespace)::multiValentRule", .neverWritten),
  ("geos::algorithm::construct::INITIAL_GRID_SIDE", .neverWritten),
  ("geos::geom::Geometry::geometryChangedFilter", .neverWritten),
  ("geos::index::bintree::Root::origin", .neverWritten),
  ("geos::operation::valid::TopologyValidationError::errMsg", .neverWritten),
  ("geos::geom::GeometryFactory::getDefaultInstance()::defInstance", .neverWritten),
  ("geos::geomgraph::EdgeEndStar::getCoordinate()::nullCoord", .neverWritten),
  ("geos::planargraph::DirectedEdgeStar::getCoordinate() const::nullCoord", .neverWritten),
  ("geos::operation::buffer::BufferNodeFactory::instance()::onf", .neverWritten),
  ("geos::util::Profiler::instance()::internal_profiler", .neverWritten),
  ("getMachineByteOrder()::endian_check", .neverWritten),
  -- prepared geometries and legacy STRtree nodes: lazily built, excluded by the property unless built before sharing
  ("BasicPreparedGeometry::relate_ng", .excludedLazyIndex),
  ("PreparedLineString::indexedDistance", .excludedLazyIndex),
  ("PreparedLineString::segStrings", .excludedLazyIndex),
  ("PreparedPolygon::indexedDistance", .excludedLazyIndex),
  ("PreparedPolygon::indexedPtOnGeomLoc", .excludedLazyIndex),
  ("PreparedPolygon::ptOnGeomLoc", .excludedLazyIndex),
  ("PreparedPolygon::segIntFinder", .excludedLazyIndex),
  ("PreparedPolygon::segStrings", .excludedLazyIndex),
  ("AbstractNode::bounds", .excludedLazyIndex),
  -- CircularArc is a helper value constructed per call
  ("CircularArc::m_center", .perCallTemporary),
  ("CircularArc::m_center_known", .perCallTemporary),
  ("CircularArc::m_orientation", .perCallTemporary),
  ("CircularArc::m_orientation_known", .perCallTemporary),
  ("CircularArc::m_radius", .perCallTemporary),
  ("CircularArc::m_radius_known", .perCallTemporary),
  -- the global context of the non-reentrant API
  ("handle", .legacyNonReentrantApi)
]

def excused (c : Cell) : Bool := (exceptions.lookup c.name).isSome

/-- **inventory_disciplined.**  Every cell of the generated inventory is safe by its declared type, or is one
    of the exceptions named above.  Re-checked against the freshly generated inventory on every run. -/
theorem inventory_disciplined : ∀ c ∈ cells, c.ty.safe = true ∨ excused c = true := by decide

/-- the cells whose unsynchronised concurrent use is real on this tree — exactly these, by name -/
def raceCandidates : List String :=
  (exceptions.filter (fun e => e.2 == Why.raceCandidate)).map (·.1)

theorem raceCandidates_exact : raceCandidates =
    ["(anonymous namespace)::requested", "(anonymous namespace)::callback", "GeometryFactory::_refCount",
     "GEOSversion::version", "CoordinateSequence::m_hasdim", "CoordinateSequence::m_hasz",
     "GeometryCollection::flags"] := by decide

/-- tag used to connect the inventory with the interleaving model: a cell safe by type may be used freely
    (atomic/guard/mutex → `atomic`; const → `immutableAfterInit`; thread_local → private, modelled per thread),
    everything else is `plain`, i.e. must not be touched by a disciplined program at all -/
def tagOfTy : TyClass → Tag
  | .atomic => .atomic
  | .mutex => .atomic
  | .guard => .atomic
  | .constAfterInit => .immutableAfterInit
  | .threadLocal => .atomic
  | .plain => .plain

/-- a program that touches process-wide state only through inventory cells that are safe by type (numbered by
    their position in the inventory), reading the const ones, has no data race and sequential transcripts,
    provided no thread reads an atomic cell another thread writes.  (Instance of the generic theorems.) -/
theorem inventory_program_safe (mem0 : CellId → Val) (p : Prog)
    (hd : Disciplined (fun c => match cells[c]? with | some cell => tagOfTy cell.ty | none => .plain) p)
    (hobs : NoObservedSharedWrite (fun c => match cells[c]? with | some cell => tagOfTy cell.ty | none => .plain) p) :
    ¬ dataRace (tagAtomic (fun c => match cells[c]? with | some cell => tagOfTy cell.ty | none => .plain)) mem0 p ∧
    ∀ sched s, exec (St.init mem0 p) sched = some s → ∀ t, s.rest t = [] → s.out t = seqTranscript mem0 (p t) :=
  reentrant_threads_do_not_interfere _ mem0 p hd hobs

/-- non-vacuity of the inventory theorem: the inventory is not empty, contains safe and unsafe cells -/
example : cells.length ≥ 40 ∧ (cells.filter (fun c => c.ty.safe)).length ≥ 10 ∧ (cells.filter (fun c => !c.ty.safe)).length ≥ 1 := by decide

end GeosModel.Conc
