import GeosModel.Proofs.LinRef.Top
import GeosModel.Proofs.LinRef.Extract
import GeosModel.Proofs.LinRef.Project
import GeosModel.Proofs.Lines.Merge
import GeosModel.Proofs.Lines.Noding
/-!
# C19 — linework operations preserve the point set and their structural contracts

## Part 1: linear referencing (`Model/LinRef/Map.lean`), exact arithmetic (`Rat`)

`Line Rat` = components × segment lengths; hypotheses everywhere: every component has a segment (`WF`),
lengths are non-negative (`NonNeg`).
-/
namespace GeosModel.LinRef

/-- **loc_len_inverse** — `getLength (getLocation ℓ) = ℓ` for every `0 ≤ ℓ ≤ total`
(`LengthLocationMap::getLocation` followed by `LengthLocationMap::getLength`). -/
theorem loc_len_inverse (l : Line Rat) (hwf : l.WF = true) (hnn : l.NonNeg) (ℓ : Rat)
    (h0 : 0 ≤ ℓ) (h1 : ℓ ≤ totalLen l) : getLength l (getLocation l ℓ) = ℓ :=
  loc_len_inverse' l hwf hnn ℓ h0 h1

/-- **loc_clamp** — (1) a length beyond the end maps to the end location; (2) a negative length is measured
from the end; (3) a length at or before `-total` maps to the start location; (4) so for `-total ≤ ℓ < 0` the
location found lies at distance `total + ℓ` from the start. -/
theorem loc_clamp (l : Line Rat) (hwf : l.WF = true) (hnn : l.NonNeg) (ℓ : Rat) :
    (totalLen l < ℓ → getLocation l ℓ = endLoc l) ∧
    (ℓ < 0 → getLocation l ℓ = getLocationForward l (totalLen l + ℓ)) ∧
    (ℓ ≤ -totalLen l → getLocation l ℓ = startLoc) ∧
    (ℓ < 0 → -totalLen l ≤ ℓ → getLength l (getLocation l ℓ) = totalLen l + ℓ) := by
  have htn := totalLen_nonneg l hnn
  refine ⟨?_, ?_, ?_, ?_⟩
  · intro h
    have hneg : ¬ ℓ < 0 := by grind
    have hz : ¬ ℓ ≤ 0 := by grind
    simp only [getLocation, hneg, if_false, getLocationForward, hz]
    rw [locFwdAux_beyond ℓ (items l) 0 (itemsNonNeg_items l hnn 0) (by rw [← totalLen_eq]; grind)]
    rfl
  · intro h; simp [getLocation, h]
  · intro h
    by_cases hneg : ℓ < 0
    · have : totalLen l + ℓ ≤ 0 := by grind
      simp [getLocation, hneg, getLocationForward, this]
    · have : ℓ ≤ 0 := by grind
      simp [getLocation, hneg, getLocationForward, this]
  · intro hneg hge
    have e : getLocation l ℓ = getLocation l (totalLen l + ℓ) := by
      have h2 : ¬ totalLen l + ℓ < 0 := by grind
      simp [getLocation, hneg, h2]
    rw [e]
    exact loc_len_inverse l hwf hnn _ (by grind) (by grind)

/-- forward search is monotone in the `compareTo` order, for *all* pairs of lengths (inside or outside the line) -/
theorem loc_forward_monotone (l : Line Rat) (ℓ1 ℓ2 : Rat) (h : ℓ1 ≤ ℓ2) :
    (getLocationForward l ℓ1).le (getLocationForward l ℓ2) := by
  unfold getLocationForward
  by_cases z1 : ℓ1 ≤ 0
  · simp only [z1, if_true]
    apply startLoc_le
    by_cases z2 : ℓ2 ≤ 0
    · simp only [z2, if_true, startLoc]; grind
    · simp only [z2, if_false]
      cases hr : locFwdAux ℓ2 0 (items l) with
      | none => simpa using endLoc_frac_nonneg l
      | some a =>
        obtain ⟨_, _, _, _, h0, _⟩ := locFwdAux_pos ℓ2 (items l) 0 a (by grind) hr
        simpa using h0
  · have z2 : ¬ ℓ2 ≤ 0 := by grind
    simp only [z1, z2, if_false]
    cases hr1 : locFwdAux ℓ1 0 (items l) with
    | none =>
      rw [locFwdAux_none_mono ℓ1 ℓ2 (items l) 0 (by grind) h hr1]
      exact Loc.le_refl _
    | some a1 =>
      cases hr2 : locFwdAux ℓ2 0 (items l) with
      | some a2 =>
        simp only [Option.getD_some]
        exact locFwdAux_mono ℓ1 ℓ2 (items l) 0 a1 a2 (okItems_itemsFrom 0 l) (by grind) h hr1 hr2
      | none =>
        simp only [Option.getD_some, Option.getD_none]
        obtain ⟨it, hm, hc, hv, _, hf⟩ := locFwdAux_pos ℓ1 (items l) 0 a1 (by grind) hr1
        exact le_endLoc l a1 it hm hc hv hf

/-- **loc_monotone** — `getLocation` is monotone on lengths of the same kind (both measured from the start,
or both negative = measured from the end).  (Across the sign change it is not: −ε is near the end, 0 is the start.) -/
theorem loc_monotone (l : Line Rat) (ℓ1 ℓ2 : Rat) (h : ℓ1 ≤ ℓ2) (hs : 0 ≤ ℓ1 ∨ ℓ2 < 0) :
    (getLocation l ℓ1).le (getLocation l ℓ2) := by
  unfold getLocation
  rcases hs with hs | hs
  · have n1 : ¬ ℓ1 < 0 := by grind
    have n2 : ¬ ℓ2 < 0 := by grind
    simp only [n1, n2, if_false]
    exact loc_forward_monotone l ℓ1 ℓ2 h
  · have n1 : ℓ1 < 0 := by grind
    simp only [n1, hs, if_true]
    exact loc_forward_monotone l _ _ (by grind)

/-- piecewise length of extracted lines on a geometry with several components (cf. `stepLen`/`outLen` for one component) -/
def stepLenL (l : Line Rat) (p q : Loc Rat) : Rat :=
  (l.getD p.comp []).getD p.seg 0 * ((if q.seg = p.seg then q.frac else 1) - p.frac)

def pathLenL (l : Line Rat) : List (Loc Rat) → Rat
  | p :: q :: r => stepLenL l p q + pathLenL l (q :: r)
  | _ => 0

def outLenL (l : Line Rat) : List (List (Loc Rat)) → Rat
  | [] => 0
  | x :: r => pathLenL l x + outLenL l r

/-- the full statement of the substring-length clause: any lineal geometry (several components allowed).  Not proved. -/
def extract_length_full : Prop :=
  ∀ (l : Line Rat), l.WF = true → l.NonNeg → ∀ a b : Rat, 0 ≤ a → a ≤ b → b ≤ totalLen l →
    outLenL l (extractLine l a b) = b - a

/-- **extract_length** (PARTIAL: single-component lines, i.e. LineStrings; for MultiLineStrings the substring is covered
only by the `linref` correspondence and the `oracle` stream) — the line extracted by `LengthIndexedLine::extractLine(a, b)`
(`GEOSLineSubstring` with fractions a/total, b/total) for `0 ≤ a ≤ b ≤ total`:
(1) is a sequence of locations in which consecutive ones lie on one segment of the input, in order (`GoodStep`) — so no
input vertex is skipped and the pieces are straight —, and (2) its length, measured piece by piece from the segment
lengths (`outLen`/`stepLen`), is exactly `b − a`. -/
theorem extract_length (comp : List Rat) (hne : comp ≠ []) (hnn : ∀ s ∈ comp, 0 ≤ s) (a b : Rat)
    (h0 : 0 ≤ a) (hab : a ≤ b) (hb : b ≤ totalLen [comp]) :
    (∀ line ∈ extractLine [comp] a b, ChainP (GoodStep comp) line) ∧ outLen comp (extractLine [comp] a b) = b - a := by
  have hwf : Line.WF [comp] = true := by
    cases comp with
    | nil => exact absurd rfl hne
    | cons x t => simp [Line.WF]
  have hnn' : Line.NonNeg [comp] := by
    intro c hc s hs
    simp only [List.mem_singleton] at hc
    subst hc; exact hnn s hs
  obtain ⟨i, f, hs, hf0, hf1, hi, hfi⟩ := getLocation_single comp hne hnn a h0 (by grind)
  obtain ⟨j, g, he, hg0, hg1, hj, hgj⟩ := getLocation_single comp hne hnn b (by grind) hb
  have hle : (⟨0, i, f⟩ : Loc Rat).le ⟨0, j, g⟩ := by
    rw [← hs, ← he]
    exact loc_monotone [comp] a b hab (Or.inl h0)
  have hext : extractLine [comp] a b = computeLinear [comp] ⟨0, i, f⟩ ⟨0, j, g⟩ := by
    simp only [extractLine, extractLocs, clampIndex_id [comp] a h0 (by grind), clampIndex_id [comp] b (by grind) hb,
      getLocationR, resolveHigher_single, ite_self, hs, he, extract]
    have : (⟨0, j, g⟩ : Loc Rat).lt ⟨0, i, f⟩ = false := hle
    simp [this]
  have hga : gpos comp ⟨0, i, f⟩ = a := by
    rw [← getLength_single comp ⟨0, i, f⟩ rfl hi, ← hs]
    exact loc_len_inverse [comp] hwf hnn' a h0 (by grind)
  have hgb : gpos comp ⟨0, j, g⟩ = b := by
    rw [← getLength_single comp ⟨0, j, g⟩ rfl hj, ← he]
    exact loc_len_inverse [comp] hwf hnn' b (by grind) hb
  rw [hext, ← hga, ← hgb]
  exact computeLinear_length comp i j f g hf0 hf1 hg0 hg1 hi hfi hj hgj hle

/-- **clamp_index_contract** — `LengthIndexedLine::clampIndex` on the *whole* index domain (the regenerated C++ is proved
equal to `clampIndex` by `C19Gen.gen_clampIndex_eq`): the result always lies in `[0, total]`; an index inside the line is
unchanged; a negative index is measured from the end; anything before the start is clamped to 0 (in particular
`-2·total < i < -total`, which must *not* be measured from the end a second time), anything beyond the end to `total`. -/
theorem clamp_index_contract (l : Line Rat) (hnn : l.NonNeg) (i : Rat) :
    0 ≤ clampIndex l i ∧ clampIndex l i ≤ totalLen l ∧
    (0 ≤ i → i ≤ totalLen l → clampIndex l i = i) ∧
    (i < 0 → -totalLen l ≤ i → clampIndex l i = totalLen l + i) ∧
    (i < -totalLen l → clampIndex l i = 0) ∧
    (totalLen l < i → clampIndex l i = totalLen l) := by
  have htn := totalLen_nonneg l hnn
  unfold clampIndex positiveIndex
  generalize totalLen l = T at *
  refine ⟨?_, ?_, ?_, ?_, ?_, ?_⟩ <;> (simp only []; repeat' split) <;> grind

/-- `clampIndex` is idempotent, so … -/
theorem clamp_index_idem (l : Line Rat) (hnn : l.NonNeg) (i : Rat) : clampIndex l (clampIndex l i) = clampIndex l i := by
  obtain ⟨h0, h1, hid, _⟩ := clamp_index_contract l hnn (clampIndex l i)
  obtain ⟨g0, g1, _⟩ := clamp_index_contract l hnn i
  exact hid g0 g1

/-- **extract_line_clamps** — … `LengthIndexedLine::extractLine(a, b)` depends on its two indices only through their
clamped values, for all `a`, `b` (negative, beyond the end, reversed): together with `extract_length` the extracted line of a
LineString has length `clampIndex b − clampIndex a` whenever the clamped indices are in order. -/
theorem extract_line_clamps (l : Line Rat) (hnn : l.NonNeg) (a b : Rat) :
    extractLine l a b = extractLine l (clampIndex l a) (clampIndex l b) := by
  simp only [extractLine, extractLocs, clamp_index_idem l hnn]

theorem extract_length_clamped (comp : List Rat) (hne : comp ≠ []) (hnn : ∀ s ∈ comp, 0 ≤ s) (a b : Rat)
    (hab : clampIndex [comp] a ≤ clampIndex [comp] b) :
    outLen comp (extractLine [comp] a b) = clampIndex [comp] b - clampIndex [comp] a := by
  have hnn' : Line.NonNeg [comp] := by
    intro c hc s hs
    simp only [List.mem_singleton] at hc
    subst hc; exact hnn s hs
  rw [extract_line_clamps [comp] hnn' a b]
  exact (extract_length comp hne hnn _ _ (clamp_index_contract [comp] hnn' a).1 hab (clamp_index_contract [comp] hnn' b).2.1).2

/-! non-vacuity: a line of length 10, `extractLine(-15, -2)` is the sub-line from 0 to 8 -/
example : clampIndex ([[4, 6]] : Line Rat) (-15) = 0 ∧ clampIndex ([[4, 6]] : Line Rat) (-2) = 8 ∧
    extractLine ([[4, 6]] : Line Rat) (-15) (-2) = [[⟨0, 0, 0⟩, ⟨0, 1, 0⟩, ⟨0, 1, 2/3⟩]] ∧
    outLen [4, 6] (extractLine ([[4, 6]] : Line Rat) (-15) (-2)) = 8 := by decide +kernel

/-! non-vacuity: substring of a three-segment line from 1/2 to 9/2 keeps both interior vertices -/
example : extractLine [[1, 2, 3]] (1/2 : Rat) (9/2) = [[⟨0, 0, 1/2⟩, ⟨0, 1, 0⟩, ⟨0, 2, 0⟩, ⟨0, 2, 1/2⟩]] ∧
    outLen [1, 2, 3] (extractLine [[1, 2, 3]] (1/2 : Rat) (9/2)) = 4 := by decide +kernel

/-- the full statement of the round-trip clause, for any lineal geometry: on every geometry whose segments have positive
length and on which the square roots taken by the code are exact, the point interpolated at the projected length of `p`
exists and is at least as close to `p` as every point of the geometry -/
def project_interpolate_full : Prop :=
  ∀ (sq : Rat → Rat) (g : Geo Rat) (p : P2 Rat), (∀ s ∈ g.flatMap pairs, GoodSeg sq p s) → g.flatMap pairs ≠ [] →
    ∃ q, interpolate sq g (project sq g p) = some q ∧
      ∀ s ∈ g.flatMap pairs, ∀ t, 0 ≤ t → t ≤ 1 → d2 p q ≤ d2 p (lerp s.1 s.2 t)

/-- **project_interpolate** (PARTIAL: one component — a LineString — without repeated points; exact arithmetic; the
code's `sqrt` is any function `sq` that is an exact, non-negative square root at the arguments that occur: the squared
segment lengths and the squared distances from `p` to the vertices, hypothesis `GoodSeg`).
`GEOSInterpolate(g, GEOSProject(g, p))` is a point of the line and no point of the line is closer to `p`. -/
theorem project_interpolate (sq : Rat → Rat) (pts : List (P2 Rat)) (p : P2 Rat)
    (hne : pairs pts ≠ []) (hg : ∀ s ∈ pairs pts, GoodSeg sq p s) :
    ∃ q, interpolate sq [pts] (project sq [pts] p) = some q ∧
      (∃ s ∈ pairs pts, ∃ t, 0 ≤ t ∧ t ≤ 1 ∧ q = lerp s.1 s.2 t) ∧
      ∀ s ∈ pairs pts, ∀ t, 0 ≤ t → t ≤ 1 → d2 p q ≤ d2 p (lerp s.1 s.2 t) :=
  project_interpolate_single sq pts p hne hg

/-- the square root used by the witness below: exact at 9, 16, 25, 64 -/
def sqW (x : Rat) : Rat := if x = 64 then 8 else if x = 16 then 4 else if x = 9 then 3 else if x = 25 then 5 else 0

/-- **the full statement is false for geometries with several components** (a finding, replayed on the implementation
by the `oracle_multi` stream): for MULTILINESTRING((0 0,4 0),(8 3,12 3)) and p = (8 0) the nearest point is the start (8 3)
of the second component, at length 4 = the end of the first component; `getLocationForward` resolves a length that
falls on a component boundary to the *end of the earlier* component, so the interpolated point is (4 0), at distance 4 > 3. -/
theorem project_interpolate_full_false : ¬ project_interpolate_full := by
  intro h
  have hg : ∀ s ∈ ([[⟨0, 0⟩, ⟨4, 0⟩], [⟨8, 3⟩, ⟨12, 3⟩]] : Geo Rat).flatMap pairs, GoodSeg sqW ⟨8, 0⟩ s := by
    intro s hs
    simp only [List.flatMap_cons, List.flatMap_nil, pairs, List.append_nil, List.cons_append, List.nil_append,
      List.mem_cons, List.not_mem_nil, or_false] at hs
    rcases hs with rfl | rfl <;> (unfold GoodSeg IsSqrt; decide +kernel)
  obtain ⟨q, hq, hn⟩ := h sqW [[⟨0, 0⟩, ⟨4, 0⟩], [⟨8, 3⟩, ⟨12, 3⟩]] ⟨8, 0⟩ hg (by decide +kernel)
  have hval : interpolate sqW ([[⟨0, 0⟩, ⟨4, 0⟩], [⟨8, 3⟩, ⟨12, 3⟩]] : Geo Rat)
      (project sqW [[⟨0, 0⟩, ⟨4, 0⟩], [⟨8, 3⟩, ⟨12, 3⟩]] ⟨8, 0⟩) = some ⟨4, 0⟩ := by decide +kernel
  rw [hval] at hq
  simp only [Option.some.injEq] at hq
  subst hq
  have := hn (⟨8, 3⟩, ⟨12, 3⟩) (by simp [pairs]) 0 (by decide +kernel) (by decide +kernel)
  revert this
  decide +kernel

/-! non-vacuity of `project_interpolate`: an L-shaped line with Pythagorean distances -/
example : (∀ s ∈ pairs ([⟨0, 0⟩, ⟨4, 0⟩, ⟨4, 3⟩] : List (P2 Rat)), GoodSeg sqW ⟨8, 0⟩ s) ∧
    project sqW [[⟨0, 0⟩, ⟨4, 0⟩, ⟨4, 3⟩]] (⟨8, 0⟩ : P2 Rat) = 4 ∧
    interpolate sqW [[⟨0, 0⟩, ⟨4, 0⟩, ⟨4, 3⟩]] (4 : Rat) = some ⟨4, 0⟩ := by
  refine ⟨?_, by decide +kernel, by decide +kernel⟩
  intro s hs
  simp only [pairs, List.mem_cons, List.not_mem_nil, or_false] at hs
  rcases hs with rfl | rfl <;> (unfold GoodSeg IsSqrt; decide +kernel)

/-- **segment_fraction_unit** — `LineSegment::segmentFraction` (the fraction `LocationIndexOfPoint` stores in a
`LinearLocation`) always lies in [0, 1], is the projection factor itself when that lies in [0, 1], and is 0 / 1 exactly
when the projection falls before the start / behind the end of the segment.  (The regenerated C++ is proved equal to
`segmentFraction` by `C19Gen.gen_segmentFraction_eq`.) -/
theorem segment_fraction_unit (p0 p1 p : P2 Rat) :
    0 ≤ segmentFraction p0 p1 p ∧ segmentFraction p0 p1 p ≤ 1 ∧
    (0 ≤ projectionFactor p0 p1 p → projectionFactor p0 p1 p ≤ 1 → segmentFraction p0 p1 p = projectionFactor p0 p1 p) ∧
    (projectionFactor p0 p1 p < 0 → segmentFraction p0 p1 p = 0) ∧
    (1 < projectionFactor p0 p1 p → segmentFraction p0 p1 p = 1) := by
  unfold segmentFraction
  generalize projectionFactor p0 p1 p = f
  refine ⟨?_, ?_, ?_, ?_, ?_⟩ <;> (simp only []; repeat' split) <;> grind

example : segmentFraction (⟨0, 0⟩ : P2 Rat) ⟨4, 0⟩ ⟨1, 7⟩ = 1/4 ∧ segmentFraction (⟨0, 0⟩ : P2 Rat) ⟨4, 0⟩ ⟨9, 7⟩ = 1 ∧
    segmentFraction (⟨0, 0⟩ : P2 Rat) ⟨4, 0⟩ ⟨-2, 1⟩ = 0 := by decide +kernel

/-! non-vacuity: a two-component line with a zero-length component in between -/
example : let l : Line Rat := [[1, 2], [0], [3]]
    l.WF = true ∧ getLocation l (3/2) = ⟨0, 1, 1/4⟩ ∧ getLength l ⟨0, 1, 1/4⟩ = 3/2 ∧
    getLocation l 3 = ⟨0, 2, 0⟩ ∧ getLocation l (-1) = ⟨2, 0, 2/3⟩ ∧ getLocation l 7 = ⟨2, 1, 1⟩ ∧
    getLocation l (-100) = ⟨0, 0, 0⟩ := by decide +kernel

end GeosModel.LinRef

/-!
## Part 2: line merging (`Model/Lines/Merge.lean`)

The chaining algorithm itself (`mergeModel`) is executable but **not** proved; what is proved is the soundness of the
executable contract checker `mergeCheck`, which the driver runs on the output of GEOS (and of `mergeModel`) for every case:
`mergeCheck … = true` entails the logical contract `MergeOK`, from which the property's clauses follow.
-/
namespace GeosModel.Lines

/-- **merge_check_sound** — if the checker accepts a candidate output, the output satisfies the merge contract -/
theorem merge_check_sound (directed : Bool) (es : List Edge) (chains : List Chain)
    (h : mergeCheck directed es chains = true) : MergeOK directed es chains :=
  merge_check_sound' directed es chains h

/-- **merge_preserves_edges** — the multiset of underlying input lines is unchanged, hence (for *any* geometry attached
to the edges) the merged lines have the same point set, and (for any length function) the same total length -/
theorem merge_preserves_edges (directed : Bool) (es : List Edge) (chains : List Chain)
    (h : MergeOK directed es chains) :
    (chains.flatten.map (·.e)).Perm es ∧
    (∀ (P : Type) (on : Edge → P → Prop) (p : P), (∃ c ∈ chains, ∃ d ∈ c, on d.e p) ↔ (∃ e ∈ es, on e p)) ∧
    (∀ w : Edge → Rat, sumW w (chains.flatten.map (·.e)) = sumW w es) := by
  refine ⟨h.perm, ?_, fun w => sumW_perm w h.perm⟩
  intro P on p
  constructor
  · rintro ⟨c, hc, d, hd, ho⟩
    refine ⟨d.e, ?_, ho⟩
    apply h.perm.subset
    exact List.mem_map.mpr ⟨d, List.mem_flatten.mpr ⟨c, hc, hd⟩, rfl⟩
  · rintro ⟨e, he, ho⟩
    have := h.perm.symm.subset he
    obtain ⟨d, hd, rfl⟩ := List.mem_map.mp this
    obtain ⟨c, hc, hdc⟩ := List.mem_flatten.mp hd
    exact ⟨c, hc, d, hdc, ho⟩

/-- **merge_maximal** (undirected) — at a node of degree exactly two no output line stops, except a closed loop that
starts and ends there, and no two different output lines meet -/
theorem merge_maximal (es : List Edge) (chains : List Chain) (h : MergeOK false es chains) :
    (∀ c ∈ chains, ∀ n ∈ c.ends, degree es n = 2 → c.closed = true) ∧
    (∀ (i j : Nat) (_ : i < j) (hj : j < chains.length) (n : Int),
      n ∈ (chains[i]'(by omega)).ends → n ∈ chains[j].ends → degree es n ≠ 2) := by
  constructor
  · intro c hc n hn hd
    cases hcl : c.closed with
    | true => rfl
    | false =>
      have := h.stop c hc hcl n hn
      simp [stopOK, hd] at this
  · intro i j hij hj n hi hjn hd
    have := h.apart i j hij hj n hi hjn
    simp [stopOK, hd] at this

/-- **merge_directed_respects** — directed merging traverses every input line forwards, joins lines head-to-tail at
degree-2 nodes, and stops at a degree-2 node only where both lines leave it or both enter it -/
theorem merge_directed_respects (es : List Edge) (chains : List Chain) (h : MergeOK true es chains) :
    (∀ c ∈ chains, ∀ d ∈ c, d.fwd = true) ∧
    (∀ c ∈ chains, ∀ k (hk : k + 1 < c.length), c[k].e.b = c[k + 1].e.a ∧ degree es c[k].e.b = 2) ∧
    (∀ c ∈ chains, c.closed = false → ∀ n ∈ c.ends, degree es n = 2 → outCount es n = 2 ∨ inCount es n = 2) := by
  have hf := h.fwd rfl
  refine ⟨hf, ?_, ?_⟩
  · intro c hc k hk
    have hj := h.walk c hc k hk
    have f1 := hf c hc c[k] (List.getElem_mem _)
    have f2 := hf c hc c[k + 1] (List.getElem_mem _)
    simpa [Joined, DEdge.dst, DEdge.src, f1, f2] using hj
  · intro c hc hcl n hn hd
    have := h.stop c hc hcl n hn
    simpa [stopOK, hd] using this

/-! non-vacuity: a path 1–2–3 with a branch at 3, and an isolated two-edge loop -/
example : let es : List Edge := [⟨0, 1, 2⟩, ⟨1, 3, 2⟩, ⟨2, 3, 4⟩, ⟨3, 3, 5⟩, ⟨4, 7, 8⟩, ⟨5, 8, 7⟩]
    mergeCheck false es (mergeModel false es) = true ∧ (mergeModel false es).length = 4 ∧
    mergeCheck false es (es.map fun e => [⟨e, true⟩]) = false ∧
    mergeCheck true es (mergeModel true es) = true ∧ (mergeModel true es).length = 5 := by decide +kernel

/-!
## Part 3: noding, polygonizing, shared paths — soundness of the exact contract checkers (`Model/Lines/Noding.lean`)

SPEC + correspondence: that GEOS meets these contracts is *observed* per generated case by running the checkers on its
output; the theorems say what an accepting answer means.  `Kernel.segRel` is the exact intersection classifier of
`Base/Kernel.lean`.
-/
open GeosModel.Kernel

/-- **noded_check_sound** — if `nodeCheck` accepts (input lines, output lines) then, for the output segments `o`:
(1) any two of them are disjoint or have exactly one common point which is an endpoint of both — no interior
intersection, no overlap (completeness of the pairwise loop); (2) every output segment has both ends within the
tolerance of one input segment; (3) every non-degenerate input segment `u` is covered: its end is reachable from its start
through output segments that lie within the tolerance of `u`.  With tolerance 0, (2)+(3) say the point sets are equal. -/
theorem noded_check_sound (t : Tol) (inp out : List (List Pt)) (h : nodeCheck t inp out = true) :
    let o := out.flatMap segsOf
    let i := inp.flatMap segsOf
    (∀ (a b : Nat) (_ : a < b) (hb : b < o.length),
      segRel (o[a]'(by omega)).a (o[a]'(by omega)).b o[b].a o[b].b = .disjoint ∨
      (segRel (o[a]'(by omega)).a (o[a]'(by omega)).b o[b].a o[b].b = .point false ∧ sharesEndpoint (o[a]'(by omega)) o[b] = true)) ∧
    (∀ s ∈ o, ∃ u ∈ i, near t u s.a = true ∧ near t u s.b = true) ∧
    (∀ u ∈ i, u.a ≠ u.b → Reach (o.filter fun s => near t u s.a && near t u s.b) u.a u.b) := by
  simp only [nodeCheck, Bool.and_eq_true] at h
  obtain ⟨⟨⟨_, hn⟩, hnear⟩, hcov⟩ := h
  refine ⟨?_, ?_, ?_⟩
  · intro a b hab hb
    have := allPairs_sound properPair _ hn a b hab hb
    unfold properPair at this
    split at this
    · left; assumption
    · right; rename_i heq; exact ⟨heq, this⟩
    · simp at this
  · intro s hs
    simp only [nearAll, List.all_eq_true, List.any_eq_true, Bool.and_eq_true] at hnear
    exact hnear s hs
  · intro u hu hne
    simp only [coverAll, List.all_eq_true] at hcov
    apply covered_sound
    apply hcov
    simp only [List.mem_filter, bne_iff_ne, ne_eq]
    exact ⟨hu, hne⟩

/-- **polygonize_check_sound** — if `polyCore` accepts then every polygon ring is a chain of input lines, no input line
bounds two rings on the same side, and (full mode) every input line with ≥ 2 distinct points bounds a polygon or is one of
the reported dangles, cut edges, or part of a reported invalid ring -/
theorem polygonize_check_sound (full : Bool) (lines : List InLine) (o : PolyOut) (h : polyCore full lines o = true) :
    ∃ used, usesOf (lines.filter fun ln => 2 ≤ ln.pts.length) o.polys = some used ∧ used.Nodup ∧
      (full = true → ∃ dIds cIds,
        matchWhole (lines.filter fun ln => 2 ≤ ln.pts.length) o.dangles [] = some dIds ∧
        matchWhole (lines.filter fun ln => 2 ≤ ln.pts.length) o.cuts [] = some cIds ∧
        ∀ ln ∈ lines, 2 ≤ ln.pts.length →
          (∃ u ∈ used, u.1 = ln.id) ∨ ln.id ∈ dIds ∨ ln.id ∈ cIds ∨
          ln.id ∈ invalidIds (lines.filter fun ln => 2 ≤ ln.pts.length) o.invalid) := by
  unfold polyCore at h
  simp only at h
  split at h
  · simp at h
  · rename_i used hu
    simp only [Bool.and_eq_true, Bool.or_eq_true, Bool.not_eq_eq_eq_not, Bool.not_true] at h
    refine ⟨used, hu, nodupB_sound used h.1, ?_⟩
    intro hf
    rcases h.2 with h2 | h2
    · simp [hf] at h2
    · split at h2
      · rename_i dIds cIds hd hc
        refine ⟨dIds, cIds, hd, hc, ?_⟩
        intro ln hl hlen
        simp only [List.all_eq_true, Bool.or_eq_true, List.any_eq_true, beq_iff_eq, List.contains_iff_mem] at h2
        have := h2 ln (List.mem_filter.mpr ⟨hl, by simpa using hlen⟩)
        rcases this with ((h3 | h3) | h3) | h3
        · left; exact h3
        · right; left; exact h3
        · right; right; left; exact h3
        · right; right; right; exact h3
      · simp at h2

/-- **shared_check_sound** — if `sharedCore` accepts then every segment of a path reported "same direction" runs the same
way along a segment of g1 and a segment of g2 that both contain it, and every segment reported "opposite" runs opposite ways -/
theorem shared_check_sound (g1 g2 same opp : List (List Pt)) (h : sharedCore g1 g2 same opp = true) :
    let s1 := (g1.flatMap segsOf).filter fun s => s.a != s.b
    let s2 := (g2.flatMap segsOf).filter fun s => s.a != s.b
    (∀ o ∈ same.flatMap segsOf, ∃ d1 ∈ dirsIn s1 o, ∃ d2 ∈ dirsIn s2 o, d1 = d2) ∧
    (∀ o ∈ opp.flatMap segsOf, ∃ d1 ∈ dirsIn s1 o, ∃ d2 ∈ dirsIn s2 o, d1 ≠ d2) := by
  simp only [sharedCore, Bool.and_eq_true, List.all_eq_true, List.any_eq_true, beq_iff_eq, bne_iff_ne, ne_eq] at h
  exact ⟨fun o ho => h.1 o ho, fun o ho => h.2 o ho⟩

/-! non-vacuity: a crossing that is noded at (1,1) is accepted with tolerance 0, the un-noded crossing is rejected -/
example : nodeCheck ⟨0, 1⟩ [[⟨0, 0⟩, ⟨2, 2⟩], [⟨0, 2⟩, ⟨2, 0⟩]]
    [[⟨0, 0⟩, ⟨1, 1⟩], [⟨1, 1⟩, ⟨2, 2⟩], [⟨0, 2⟩, ⟨1, 1⟩], [⟨1, 1⟩, ⟨2, 0⟩]] = true ∧
    nodeCheck ⟨0, 1⟩ [[⟨0, 0⟩, ⟨2, 2⟩], [⟨0, 2⟩, ⟨2, 0⟩]] [[⟨0, 0⟩, ⟨2, 2⟩], [⟨0, 2⟩, ⟨2, 0⟩]] = false := by decide

end GeosModel.Lines
