import GeosModel.Proofs.LinRef.Top
/-!
# C19 — linework operations preserve the point set and their structural contracts

## Part 1: linear referencing (`Model/LinRef/Map.lean`), exact arithmetic (`Rat`)

`Line Rat` = components × segment lengths; hypotheses everywhere: every component has a segment (`WF`),
lengths are non-negative (`NonNeg`).
-/
namespace GeosModel.LinRef

/-- **loc_len_inverse** — `getLength (getLocation ℓ) = ℓ` for every `0 ≤ ℓ ≤ total`
(`LengthLocationMap::getLocation` followed by `LengthLocationMap::getLength`). -/
theorem loc_len_inverse (l : Line Rat) (hwf : l.WF = true) (hnn : l.NonNeg) (ℓ : Rat)
    (h0 : 0 ≤ ℓ) (h1 : ℓ ≤ totalLen l) : getLength l (getLocation l ℓ) = ℓ := by
  have hneg : ¬ ℓ < 0 := by grind
  simp only [getLocation, hneg, if_false, getLocationForward]
  by_cases hz : ℓ ≤ 0
  · have : ℓ = 0 := by grind
    subst this
    simp only [Rat.le_refl, if_true, getLength_start l hwf]
  · simp only [hz, if_false]
    cases hr : locFwdAux ℓ 0 (items l) with
    | some a =>
      simp only [Option.getD_some, getLength]
      exact lenAux_locFwdAux ℓ (items l) 0 a (okItems_itemsFrom 0 l) (by grind) hr
    | none =>
      exfalso
      have hl : l ≠ [] := by
        intro h; subst h
        simp [totalLen, sumFrom] at h1; grind
      have := locFwdAux_none ℓ (items l) 0 (by grind) (lastIsEol_itemsFrom 0 l hl) hr
      rw [← totalLen_eq] at this
      grind

/-- **loc_clamp** — (1) a length beyond the end maps to the end location; (2) a negative length is measured
from the end; (3) a length at or before `-total` maps to the start location; (4) so for `-total ≤ ℓ < 0` the
location found lies at distance `total + ℓ` from the start. -/
theorem loc_clamp (l : Line Rat) (hwf : l.WF = true) (hnn : l.NonNeg) (ℓ : Rat) :
    (totalLen l < ℓ → getLocation l ℓ = endLoc l) ∧
    (ℓ < 0 → getLocation l ℓ = getLocationForward l (totalLen l + ℓ)) ∧
    (ℓ ≤ -totalLen l → getLocation l ℓ = startLoc) ∧
    (ℓ < 0 → -totalLen l ≤ ℓ → getLength l (getLocation l ℓ) = totalLen l + ℓ) := by
  have htn := totalLen_nonneg l hnn
  refine ⟨?_, ?_, ?_, ?_⟩
  · intro h
    have hneg : ¬ ℓ < 0 := by grind
    have hz : ¬ ℓ ≤ 0 := by grind
    simp only [getLocation, hneg, if_false, getLocationForward, hz]
    rw [locFwdAux_beyond ℓ (items l) 0 (itemsNonNeg_items l hnn 0) (by rw [← totalLen_eq]; grind)]
    rfl
  · intro h; simp [getLocation, h]
  · intro h
    by_cases hneg : ℓ < 0
    · have : totalLen l + ℓ ≤ 0 := by grind
      simp [getLocation, hneg, getLocationForward, this]
    · have : ℓ ≤ 0 := by grind
      simp [getLocation, hneg, getLocationForward, this]
  · intro hneg hge
    have e : getLocation l ℓ = getLocation l (totalLen l + ℓ) := by
      have h2 : ¬ totalLen l + ℓ < 0 := by grind
      simp [getLocation, hneg, h2]
    rw [e]
    exact loc_len_inverse l hwf hnn _ (by grind) (by grind)

/-- forward search is monotone in the `compareTo` order, for *all* pairs of lengths (inside or outside the line) -/
theorem loc_forward_monotone (l : Line Rat) (ℓ1 ℓ2 : Rat) (h : ℓ1 ≤ ℓ2) :
    (getLocationForward l ℓ1).le (getLocationForward l ℓ2) := by
  unfold getLocationForward
  by_cases z1 : ℓ1 ≤ 0
  · simp only [z1, if_true]
    apply startLoc_le
    by_cases z2 : ℓ2 ≤ 0
    · simp only [z2, if_true, startLoc]; grind
    · simp only [z2, if_false]
      cases hr : locFwdAux ℓ2 0 (items l) with
      | none => simpa using endLoc_frac_nonneg l
      | some a =>
        obtain ⟨_, _, _, _, h0, _⟩ := locFwdAux_pos ℓ2 (items l) 0 a (by grind) hr
        simpa using h0
  · have z2 : ¬ ℓ2 ≤ 0 := by grind
    simp only [z1, z2, if_false]
    cases hr1 : locFwdAux ℓ1 0 (items l) with
    | none =>
      rw [locFwdAux_none_mono ℓ1 ℓ2 (items l) 0 (by grind) h hr1]
      exact Loc.le_refl _
    | some a1 =>
      cases hr2 : locFwdAux ℓ2 0 (items l) with
      | some a2 =>
        simp only [Option.getD_some]
        exact locFwdAux_mono ℓ1 ℓ2 (items l) 0 a1 a2 (okItems_itemsFrom 0 l) (by grind) h hr1 hr2
      | none =>
        simp only [Option.getD_some, Option.getD_none]
        obtain ⟨it, hm, hc, hv, _, hf⟩ := locFwdAux_pos ℓ1 (items l) 0 a1 (by grind) hr1
        exact le_endLoc l a1 it hm hc hv hf

/-- **loc_monotone** — `getLocation` is monotone on lengths of the same kind (both measured from the start,
or both negative = measured from the end).  (Across the sign change it is not: −ε is near the end, 0 is the start.) -/
theorem loc_monotone (l : Line Rat) (ℓ1 ℓ2 : Rat) (h : ℓ1 ≤ ℓ2) (hs : 0 ≤ ℓ1 ∨ ℓ2 < 0) :
    (getLocation l ℓ1).le (getLocation l ℓ2) := by
  unfold getLocation
  rcases hs with hs | hs
  · have n1 : ¬ ℓ1 < 0 := by grind
    have n2 : ¬ ℓ2 < 0 := by grind
    simp only [n1, n2, if_false]
    exact loc_forward_monotone l ℓ1 ℓ2 h
  · have n1 : ℓ1 < 0 := by grind
    simp only [n1, hs, if_true]
    exact loc_forward_monotone l _ _ (by grind)

/-! non-vacuity: a two-component line with a zero-length component in between -/
example : let l : Line Rat := [[1, 2], [0], [3]]
    l.WF = true ∧ getLocation l (3/2) = ⟨0, 1, 1/4⟩ ∧ getLength l ⟨0, 1, 1/4⟩ = 3/2 ∧
    getLocation l 3 = ⟨0, 2, 0⟩ ∧ getLocation l (-1) = ⟨2, 0, 2/3⟩ ∧ getLocation l 7 = ⟨2, 1, 1⟩ ∧
    getLocation l (-100) = ⟨0, 0, 0⟩ := by decide +kernel

end GeosModel.LinRef
