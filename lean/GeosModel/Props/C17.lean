import GeosModel.Proofs.Fix.Dispatch
import GeosModel.Model.Fix.Spec
/-!
# C17 — MakeValid always returns a valid geometry and preserves valid input

SPEC+C with a CORE (DESIGN.md section 3, C17).  The repair algorithms (noding, polygonization, buffer by zero,
overlay) are not modelled.  What is proved here is about the CORE model `Model/Fix/Dispatch.lean` of
`GeometryFixer`'s control flow — the type dispatch and the keep-collapsed decision table — for *every* input shape:

* `fix_dispatch_total`: every constructor (empties and nested collections included) is handled and the result type
  obeys the table `allowed` (point→Point; line→LineString, or Point when collapses are kept; ring→LinearRing /
  LineString / Point; polygon→Polygon / MultiPolygon, or LineString / Point when kept; collections element-wise);
* `fix_dim_le`: the dimension of the result type never exceeds the input's;
* `fix_no_collapse`: without keep-collapsed the result has exactly the input's dimension class (a collapse becomes an
  EMPTY of the input's kind, never a lower-dimensional geometry);
* `collapse_kept_iff`: a collapsed line / polygon comes back lower-dimensional exactly when requested;
* `fix_collection_ignores_keep`: inside a GeometryCollection keep-collapsed is never honoured (the code calls the static
  `fix`) — a documented quirk of the model, observed on the implementation too;
* `fix_empty_atomic`, `fix_empty_polygon_stable`: EMPTY atomic inputs come back as the EMPTY of their own type with keep on
  or off (for the polygon only since /repo commit 1fc4024a4: before, keep-collapsed turned `POLYGON EMPTY` into
  `LINESTRING EMPTY`, which made the structure method non-idempotent — finding F4, found by this check, fixed).

The contract itself (output valid by the C05 reference, dimension / envelope monotone, valid input topologically equal
by the C01 reference matrix, no vertex lost (linework), area = documented region (structure), idempotence) is evaluated
exactly by the driver on every generated case: correspondence only.  A few internal-consistency lemmas of the
contract's predicates are proved at the end.
-/
namespace GeosModel.C17
open GeosModel.Fix GeosModel.Kernel

/-! ## the result-type rule -/

theorem mem_allowed_point (keep : Bool) : Ty.point ∈ allowed keep .point := by simp [allowed]

/-- areal oracle hypothesis: the union of fixed *areal* elements is a Polygon or MultiPolygon -/
def UnionAreal : Shape → Prop
  | .multiPolygon _ u => u = .polygon ∨ u = .multiPolygon
  | _ => True

/-- **fix_dispatch_total**: for every shape (every constructor; empty flags and element lists arbitrary) the fixer
returns, and the type of what it returns is one of the types the table allows for the input's type -/
theorem fix_dispatch_total (keep : Bool) (s : Shape) (h : UnionAreal s) : (fix keep s).ty ∈ allowed keep s.ty := by
  cases s with
  | point e v =>
    simp only [fix, fixPointElement, Shape.ty, allowed]
    split_ifs <;> simp [Res.ty]
  | line e c =>
    simp only [fix, Shape.ty, allowed]
    rcases fixLineString_ty keep e c with h1 | ⟨hk, h1⟩ <;> simp_all
  | ring e c v =>
    simp only [fix, Shape.ty, allowed]
    rcases ringElem_cases keep e v c with h1 | h1 | h1 | ⟨hk, h1⟩ <;> rw [h1] <;> simp [Res.ty, *]
  | polygon se a c n w =>
    simp only [fix, Shape.ty, allowed]
    rcases polyElem_cases keep se a w c n with h1 | h1 | h1 | h1 | ⟨hk, h1 | h1⟩ <;> rw [h1] <;> simp [Res.ty, *]
  | multiPoint ps =>
    simp only [fix, Shape.ty, allowed]
    split_ifs <;> simp [Res.ty]
  | multiLine ls =>
    simp only [Shape.ty, allowed]
    rcases multiLine_ty keep ls with h1 | h1 | ⟨hk, h1 | h1⟩
    · simp [h1]
    · simp [h1]
    · subst hk; simp [h1]
    · subst hk; simp [h1]
  | multiPolygon ps u =>
    simp only [fix, Shape.ty, allowed]
    split_ifs
    · simp [Res.ty]
    · simp [Res.ty]
    · rcases h with h | h <;> simp [Res.ty, h]
  | collection gs =>
    simp only [fix, Shape.ty, allowed]
    split_ifs <;> simp [Res.ty]

/-- a GeometryCollection comes back as a GeometryCollection of the element results, each fixed with keep-collapsed
OFF whatever the caller asked for -/
theorem fix_collection_ignores_keep (keep : Bool) (gs : List Shape) (h : gs ≠ []) :
    fix keep (.collection gs) = .coll (gs.map (fix false)) := by
  simp only [fix]
  have : gs.isEmpty = false := by cases gs <;> simp_all
  simp [this, fixList_eq_map]

/-- the table never raises the dimension -/
theorem allowed_dim_le (keep : Bool) (ty t : Ty) (hc : ty ≠ .collection) (h : t ∈ allowed keep ty) : t.dim ≤ ty.dim := by
  cases keep <;> cases ty <;> cases t <;> simp_all [allowed, Ty.dim]

/-- without keep-collapsed the table only contains types of the input's dimension -/
theorem allowed_false_dim_eq (ty t : Ty) (hc : ty ≠ .collection) (h : t ∈ allowed false ty) : t.dim = ty.dim := by
  cases ty <;> cases t <;> simp_all [allowed, Ty.dim]

/-- the dimension of the result's type never exceeds the dimension of the input's type -/
theorem fix_dim_le (keep : Bool) (s : Shape) (h : UnionAreal s) (hc : s.ty ≠ .collection) :
    (fix keep s).ty.dim ≤ s.ty.dim :=
  allowed_dim_le keep s.ty _ hc (fix_dispatch_total keep s h)

/-- **collapses are not kept unless requested**: with keep-collapsed off the result type has the input's dimension -/
theorem fix_no_collapse (s : Shape) (h : UnionAreal s) (hc : s.ty ≠ .collection) :
    (fix false s).ty.dim = s.ty.dim :=
  allowed_false_dim_eq s.ty _ hc (fix_dispatch_total false s h)

/-- **collapses are kept exactly when requested** (the decision table): a non-empty line whose cleaned coordinates
are a single point, and a polygon whose shell has no area but `c ≥ 1` clean coordinates -/
theorem collapse_kept_iff (keep : Bool) :
    fix keep (.line false 1) = (if keep then .atom .point false else .atom .lineString true) ∧
    (∀ c n w, 2 ≤ c → fix keep (.polygon false .empty c n w) = (if keep then .atom .lineString false else .atom .polygon true)) ∧
    (∀ n w, fix keep (.polygon false .empty 1 n w) = (if keep then .atom .point false else .atom .polygon true)) ∧
    fix keep (.ring false 1 false) = (if keep then .atom .point false else .atom .linearRing true) ∧
    fix keep (.ring false 3 false) = (if keep then .atom .lineString false else .atom .linearRing true) := by
  cases keep
  · refine ⟨rfl, ?_, by intros; rfl, rfl, rfl⟩
    intro c n w hc; rfl
  · refine ⟨rfl, ?_, by intros; rfl, rfl, rfl⟩
    intro c n w hc
    simp only [fix, fixPolygonElement, fixLineString, fixLineStringElement]
    have h1 : (c == 1) = false := by simp; omega
    have h2 : ¬ c ≤ 1 := by omega
    simp [h1, h2]

/-- empty atomic inputs come back as the EMPTY of their own type, with or without keep-collapsed -/
theorem fix_empty_atomic (keep : Bool) (v : Bool) (c n : Nat) (a w : Area) :
    fix keep (.point true v) = .atom .point true ∧ fix keep (.line true c) = .atom .lineString true ∧
    fix keep (.ring true c v) = .atom .linearRing true ∧ fix keep (.polygon true .empty c n w) = .atom .polygon true := by
  refine ⟨?_, ?_, ?_, ?_⟩ <;> cases keep <;> simp [fix, fixPointElement, fixLineString, fixLineStringElement, fixLinearRingElement, fixPolygonElement]

/-- **idempotence of the type dispatch on what the fixer itself returns for polygons** (after the fix of finding F4,
/repo commit 1fc4024a4): an empty polygon stays `POLYGON EMPTY` with keep-collapsed on or off.  (Before the fix the model
had `fix true (POLYGON EMPTY) = LINESTRING EMPTY`, and the check replayed the resulting non-idempotence on GEOS.) -/
theorem fix_empty_polygon_stable (keep : Bool) : fix keep (.polygon true .empty 0 0 .empty) = .atom .polygon true :=
  (fix_empty_atomic keep false 0 0 .empty .empty).2.2.2

/-! non-vacuity -/
example : fix true (.multiLine [.line false 1, .line false 3]) = .coll [.atom .point false, .atom .lineString false] := rfl
example : fix false (.multiLine [.line false 1, .line false 3]) = .atom .lineString false := rfl
example : fix true (.collection [.line false 1]) = .coll [.atom .lineString true] := rfl
example : fix false (.multiPolygon [.polygon false .polygon 5 0 .polygon, .polygon false .empty 3 0 .empty] .polygon) = .atom .polygon false := rfl

/-! ## internal consistency of the contract's predicates -/

/-- envelope containment is reflexive and monotone in the tolerance -/
theorem envWithin_refl (e : Option (Int × Int × Int × Int)) : envWithin 0 e e = true := by
  cases e with
  | none => rfl
  | some v => simp [envWithin]

theorem envWithin_mono (t t' : Int) (h : t ≤ t') (a b : Option (Int × Int × Int × Int)) :
    envWithin t a b = true → envWithin t' a b = true := by
  cases a with
  | none => intro; rfl
  | some i =>
    cases b with
    | none => simp [envWithin]
    | some o =>
      simp only [envWithin, Bool.and_eq_true, decide_eq_true_eq]
      omega

/-- a vertex of the output is covered by the output: an endpoint of a segment is within any tolerance of it -/
theorem nearSeg_endpoint (tol : Int) (h : 0 ≤ tol) (a b : Pt) : nearSeg tol a b a = true := by
  unfold nearSeg
  have h0 : sqDist a a = 0 := by unfold sqDist; simp
  have hd : dot a b a = 0 := by unfold dot; simp
  have ht : 0 ≤ tol * tol := Int.mul_nonneg h h
  by_cases hl : (sqDist a b == 0) = true
  · simp [hl, h0, ht]
  · simp [hl, hd, h0, ht]

/-- the dimension of a flattened geometry is −1 exactly when it has no component -/
theorem parts_dim_neg (p : Parts) : p.dim = -1 ↔ (p.polys = [] ∧ p.lines = [] ∧ p.pts = []) := by
  unfold Parts.dim
  cases hp : p.polys <;> cases hl : p.lines <;> cases hq : p.pts <;> simp

end GeosModel.C17
