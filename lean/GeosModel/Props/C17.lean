import GeosModel.Proofs.Fix.Dispatch
import GeosModel.Model.Fix.Spec
import GeosModel.Model.Fix.Cxx
/-!
# C17 — MakeValid always returns a valid geometry and preserves valid input

SPEC+C with a CORE (DESIGN.md section 3, C17).  The repair algorithms (noding, polygonization, buffer by zero,
overlay) are not modelled.  What is proved here is about the CORE model `Model/Fix/Dispatch.lean` of
`GeometryFixer`'s control flow — the type dispatch and the keep-collapsed decision table — for *every* input shape:

* `fix_dispatch_total`: every constructor (empties and nested collections included) is handled and the result type
  obeys the table `allowed` (point→Point; line→LineString, or Point when collapses are kept; ring→LinearRing /
  LineString / Point; polygon→Polygon / MultiPolygon, or LineString / Point when kept; collections element-wise);
* `fix_dim_le`: the dimension of the result type never exceeds the input's;
* `fix_no_collapse`: without keep-collapsed the result has exactly the input's dimension class (a collapse becomes an
  EMPTY of the input's kind, never a lower-dimensional geometry);
* `collapse_kept_iff`: a collapsed line / polygon comes back lower-dimensional exactly when requested;
* `fix_collection_keeps`, `fix_nest`, `collapse_in_collection_kept_iff`: the elements of a GeometryCollection are fixed
  with the caller's keep-collapsed setting, at any nesting depth (true of the code since the /repo commit "fix:
  GeometryFixer::fixCollection must hand keepCollapsed down to the elements": before, the static `fix` was called and
  collapses inside collections were never kept — finding F5, found by an independent review, confirmed and now guarded
  by this check; `fixDropping_false`, `fixDropping_atomic`, `collection_dropped_keep_collapsed` describe the old behaviour);
* `buildRoute_isSome_iff`: which inputs the linework method's `build` has a routine for;
* `fix_empty_atomic`, `fix_empty_polygon_stable`: EMPTY atomic inputs come back as the EMPTY of their own type with keep on
  or off (for the polygon only since /repo commit 1fc4024a4: before, keep-collapsed turned `POLYGON EMPTY` into
  `LINESTRING EMPTY`, which made the structure method non-idempotent — finding F4, found by this check, fixed).

The contract itself (output valid by the C05 reference, dimension / envelope monotone, valid input topologically equal
by the C01 reference matrix, no vertex lost (linework), area = documented region (structure), idempotence) is evaluated
exactly by the driver on every generated case: correspondence only.  A few internal-consistency lemmas of the
contract's predicates are proved at the end.
-/
namespace GeosModel.C17
open GeosModel.Fix GeosModel.Kernel

/-! ## the result-type rule -/

theorem mem_allowed_point (keep : Bool) : Ty.point ∈ allowed keep .point := by simp [allowed]

/-- areal oracle hypothesis: the union of fixed *areal* elements is a Polygon or MultiPolygon -/
def UnionAreal : Shape → Prop
  | .multiPolygon _ u => u = .polygon ∨ u = .multiPolygon
  | _ => True

/-- **fix_dispatch_total**: for every shape (every constructor; empty flags and element lists arbitrary) the fixer
returns, and the type of what it returns is one of the types the table allows for the input's type -/
theorem fix_dispatch_total (keep : Bool) (s : Shape) (h : UnionAreal s) : (fix keep s).ty ∈ allowed keep s.ty := by
  cases s with
  | point e v =>
    simp only [fix, fixPointElement, Shape.ty, allowed]
    split_ifs <;> simp [Res.ty]
  | line e c =>
    simp only [fix, Shape.ty, allowed]
    rcases fixLineString_ty keep e c with h1 | ⟨hk, h1⟩ <;> simp_all
  | ring e c v =>
    simp only [fix, Shape.ty, allowed]
    rcases ringElem_cases keep e v c with h1 | h1 | h1 | ⟨hk, h1⟩ <;> rw [h1] <;> simp [Res.ty, *]
  | polygon se a c n w =>
    simp only [fix, Shape.ty, allowed]
    rcases polyElem_cases keep se a w c n with h1 | h1 | h1 | h1 | ⟨hk, h1 | h1⟩ <;> rw [h1] <;> simp [Res.ty, *]
  | multiPoint ps =>
    simp only [fix, Shape.ty, allowed]
    split_ifs <;> simp [Res.ty]
  | multiLine ls =>
    simp only [Shape.ty, allowed]
    rcases multiLine_ty keep ls with h1 | h1 | ⟨hk, h1 | h1⟩
    · simp [h1]
    · simp [h1]
    · subst hk; simp [h1]
    · subst hk; simp [h1]
  | multiPolygon ps u =>
    simp only [fix, Shape.ty, allowed]
    split_ifs
    · simp [Res.ty]
    · simp [Res.ty]
    · rcases h with h | h <;> simp [Res.ty, h]
  | collection gs =>
    simp only [fix, Shape.ty, allowed]
    split_ifs <;> simp [Res.ty]

/-- a GeometryCollection comes back as a GeometryCollection of the element results, each fixed with the caller's
keep-collapsed setting -/
theorem fix_collection_keeps (keep : Bool) (gs : List Shape) (h : gs ≠ []) :
    fix keep (.collection gs) = .coll (gs.map (fix keep)) := by
  simp only [fix]
  have : gs.isEmpty = false := by cases gs <;> simp_all
  simp [this, fixList_eq_map]

/-- `n` GeometryCollections around a shape / a result -/
def nest : Nat → Shape → Shape
  | 0, s => s
  | n + 1, s => .collection [nest n s]
def nestRes : Nat → Res → Res
  | 0, r => r
  | n + 1, r => .coll [nestRes n r]

/-- the fixer commutes with wrapping in collections: at any nesting depth an element is fixed exactly as on its own, with
the setting the caller asked for -/
theorem fix_nest (keep : Bool) (n : Nat) (s : Shape) : fix keep (nest n s) = nestRes n (fix keep s) := by
  induction n with
  | zero => rfl
  | succ k ih => simp [nest, nestRes, fix_collection_keeps, ih]

/-- **Collapses inside collections are kept exactly when requested, at any nesting depth**: a collapsed line (one point
left after cleaning) inside `n` nested GeometryCollections comes back as a Point when keep-collapsed is on, and as the
empty LineString when it is off; likewise a polygon whose shell has no area comes back as its collapsed line / the empty
polygon. -/
theorem collapse_in_collection_kept_iff (keep : Bool) (n : Nat) :
    fix keep (nest n (.line false 1)) = nestRes n (if keep then .atom .point false else .atom .lineString true)
    ∧ fix keep (nest n (.polygon false .empty 3 0 .empty))
        = nestRes n (if keep then .atom .lineString false else .atom .polygon true) := by
  constructor <;> rw [fix_nest] <;> cases keep <;> rfl

example : fix true (.collection [.collection [.line false 1], .line false 3])
    = .coll [.coll [.atom .point false], .atom .lineString false] := rfl

/-! ## the linework method's dispatch (`MakeValid::build`; regenerated and bridged in `Props/C17GenMV.lean`) -/

/-- `build` has a routine for an input exactly when the input is valid or is not a Point, MultiPoint or LinearRing: on an
invalid geometry of one of these three types the linework method throws instead of returning a geometry — the property's
"every structurally well-formed input" is false of it (known finding; the structure method has no such gap,
`C17Gen.gen_getResult_total`) -/
theorem buildRoute_isSome_iff (valid : Bool) (t : Ty) :
    (buildRoute valid t).isSome ↔ (valid = true ∨ (t ≠ .point ∧ t ≠ .multiPoint ∧ t ≠ .linearRing)) := by
  cases valid <;> cases t <;> simp [buildRoute]

/-- a valid input is cloned whatever its type (so "a valid input comes back topologically equal" cannot fail in `build` itself) -/
theorem buildRoute_valid (t : Ty) : buildRoute true t = some .clone := rfl

example : buildRoute false .linearRing = none ∧ buildRoute false .polygon = some .poly := ⟨rfl, rfl⟩

/-! ## keep-collapsed inside collections: the behaviour before the fix (regression reference)

`fixDropping` is what GEOS computed before `fixCollection` handed the setting down (finding F5).  It agrees with `fix`
whenever keep-collapsed is off and on every input that is not a GeometryCollection, and differs on
`GEOMETRYCOLLECTION(LINESTRING(3 4, 3 4))` with keep-collapsed on — the witness is replayed on the implementation on
every run (driver clause `keep-collapsed`, replays/known-C17-collection-drops-keepcollapsed.json must come out `ok`). -/
mutual
  theorem fixDropping_false : ∀ s : Shape, fixDropping false s = fix false s
    | .collection gs => by simp only [fixDropping, fix, fixDroppingList_false gs]
    | .point .. | .line .. | .ring .. | .polygon .. | .multiPoint _ | .multiLine _ | .multiPolygon .. => by simp only [fixDropping]
  theorem fixDroppingList_false : ∀ gs : List Shape, fixDroppingList gs = fixList false gs
    | [] => by simp only [fixDroppingList, fixList]
    | g :: gs => by simp only [fixDroppingList, fixList, fixDropping_false g, fixDroppingList_false gs]
end

theorem fixDropping_atomic (keep : Bool) (s : Shape) (h : s.ty ≠ .collection) : fixDropping keep s = fix keep s := by
  cases s <;> first | (exact absurd rfl h) | rfl | simp only [fixDropping]

/-- the old behaviour dropped a collapsed line inside a collection although keep-collapsed was on; `fix` keeps it -/
theorem collection_dropped_keep_collapsed :
    fixDropping true (.collection [.line false 1]) = .coll [.atom .lineString true]
    ∧ fix true (.collection [.line false 1]) = .coll [.atom .point false]
    ∧ fix true (.line false 1) = .atom .point false := ⟨rfl, rfl, rfl⟩

/-- the table never raises the dimension -/
theorem allowed_dim_le (keep : Bool) (ty t : Ty) (hc : ty ≠ .collection) (h : t ∈ allowed keep ty) : t.dim ≤ ty.dim := by
  cases keep <;> cases ty <;> cases t <;> simp_all [allowed, Ty.dim]

/-- without keep-collapsed the table only contains types of the input's dimension -/
theorem allowed_false_dim_eq (ty t : Ty) (hc : ty ≠ .collection) (h : t ∈ allowed false ty) : t.dim = ty.dim := by
  cases ty <;> cases t <;> simp_all [allowed, Ty.dim]

/-- the dimension of the result's type never exceeds the dimension of the input's type -/
theorem fix_dim_le (keep : Bool) (s : Shape) (h : UnionAreal s) (hc : s.ty ≠ .collection) :
    (fix keep s).ty.dim ≤ s.ty.dim :=
  allowed_dim_le keep s.ty _ hc (fix_dispatch_total keep s h)

/-- **collapses are not kept unless requested**: with keep-collapsed off the result type has the input's dimension -/
theorem fix_no_collapse (s : Shape) (h : UnionAreal s) (hc : s.ty ≠ .collection) :
    (fix false s).ty.dim = s.ty.dim :=
  allowed_false_dim_eq s.ty _ hc (fix_dispatch_total false s h)

/-- **collapses are kept exactly when requested** (the decision table): a non-empty line whose cleaned coordinates
are a single point, and a polygon whose shell has no area but `c ≥ 1` clean coordinates -/
theorem collapse_kept_iff (keep : Bool) :
    fix keep (.line false 1) = (if keep then .atom .point false else .atom .lineString true) ∧
    (∀ c n w, 2 ≤ c → fix keep (.polygon false .empty c n w) = (if keep then .atom .lineString false else .atom .polygon true)) ∧
    (∀ n w, fix keep (.polygon false .empty 1 n w) = (if keep then .atom .point false else .atom .polygon true)) ∧
    fix keep (.ring false 1 false) = (if keep then .atom .point false else .atom .linearRing true) ∧
    fix keep (.ring false 3 false) = (if keep then .atom .lineString false else .atom .linearRing true) := by
  cases keep
  · refine ⟨rfl, ?_, by intros; rfl, rfl, rfl⟩
    intro c n w hc; rfl
  · refine ⟨rfl, ?_, by intros; rfl, rfl, rfl⟩
    intro c n w hc
    simp only [fix, fixPolygonElement, fixLineString, fixLineStringElement]
    have h1 : (c == 1) = false := by simp; omega
    have h2 : ¬ c ≤ 1 := by omega
    simp [h1, h2]

/-- empty atomic inputs come back as the EMPTY of their own type, with or without keep-collapsed -/
theorem fix_empty_atomic (keep : Bool) (v : Bool) (c n : Nat) (a w : Area) :
    fix keep (.point true v) = .atom .point true ∧ fix keep (.line true c) = .atom .lineString true ∧
    fix keep (.ring true c v) = .atom .linearRing true ∧ fix keep (.polygon true .empty c n w) = .atom .polygon true := by
  refine ⟨?_, ?_, ?_, ?_⟩ <;> cases keep <;> simp [fix, fixPointElement, fixLineString, fixLineStringElement, fixLinearRingElement, fixPolygonElement]

/-- **idempotence of the type dispatch on what the fixer itself returns for polygons** (after the fix of finding F4,
/repo commit 1fc4024a4): an empty polygon stays `POLYGON EMPTY` with keep-collapsed on or off.  (Before the fix the model
had `fix true (POLYGON EMPTY) = LINESTRING EMPTY`, and the check replayed the resulting non-idempotence on GEOS.) -/
theorem fix_empty_polygon_stable (keep : Bool) : fix keep (.polygon true .empty 0 0 .empty) = .atom .polygon true :=
  (fix_empty_atomic keep false 0 0 .empty .empty).2.2.2

/-! non-vacuity -/
example : fix true (.multiLine [.line false 1, .line false 3]) = .coll [.atom .point false, .atom .lineString false] := rfl
example : fix false (.multiLine [.line false 1, .line false 3]) = .atom .lineString false := rfl
example : fix true (.collection [.line false 1]) = .coll [.atom .point false] := rfl
example : fix false (.multiPolygon [.polygon false .polygon 5 0 .polygon, .polygon false .empty 3 0 .empty] .polygon) = .atom .polygon false := rfl

/-! ## internal consistency of the contract's predicates -/

/-- envelope containment is reflexive and monotone in the tolerance -/
theorem envWithin_refl (e : Option (Int × Int × Int × Int)) : envWithin 0 e e = true := by
  cases e with
  | none => rfl
  | some v => simp [envWithin]

theorem envWithin_mono (t t' : Int) (h : t ≤ t') (a b : Option (Int × Int × Int × Int)) :
    envWithin t a b = true → envWithin t' a b = true := by
  cases a with
  | none => intro; rfl
  | some i =>
    cases b with
    | none => simp [envWithin]
    | some o =>
      simp only [envWithin, Bool.and_eq_true, decide_eq_true_eq]
      omega

/-- a vertex of the output is covered by the output: an endpoint of a segment is within any tolerance of it -/
theorem nearSeg_endpoint (tol : Int) (h : 0 ≤ tol) (a b : Pt) : nearSeg tol a b a = true := by
  unfold nearSeg
  have h0 : sqDist a a = 0 := by unfold sqDist; simp
  have hd : dot a b a = 0 := by unfold dot; simp
  have ht : 0 ≤ tol * tol := Int.mul_nonneg h h
  by_cases hl : (sqDist a b == 0) = true
  · simp [hl, h0, ht]
  · simp [hl, hd, h0, ht]

/-- the dimension of a flattened geometry is −1 exactly when it has no component -/
theorem parts_dim_neg (p : Parts) : p.dim = -1 ↔ (p.polys = [] ∧ p.lines = [] ∧ p.pts = []) := by
  unfold Parts.dim
  cases hp : p.polys <;> cases hl : p.lines <;> cases hq : p.pts <;> simp

end GeosModel.C17
