import GeosModel.Model.WKT.Dims
/-!
# C10 — dimension dropping (`setRemoveEmptyDimensions(true)`): what the rule of `Model/WKT/Dims.lean` implies

The rule itself is the documentation's sentence; these theorems are the consequences a user relies on: nothing is invented, a
value is never lost, an all-NaN dimension goes, and the dimensions of different sequences are looked at together (one flag per
geometry).  The seeded change C10-7 (M looked for only in sequences that also have Z) contradicts `real_m_is_written`.
-/
namespace GeosModel.WKT.Dims
open GeosModel

/-- a written dimension is a declared dimension of some sequence -/
theorem writesZ_declared (g : G) (h : writesZ g = true) : ∃ s ∈ seqsOf g, s.hasZ = true := by
  unfold writesZ at h
  split at h
  · simpa using h
  · obtain ⟨s, hs, hz⟩ := List.any_eq_true.mp h
    exact ⟨s, hs, by unfold seqHasRealZ at hz; simp at hz; exact hz.1⟩

theorem writesM_declared (g : G) (h : writesM g = true) : ∃ s ∈ seqsOf g, s.hasM = true := by
  unfold writesM at h
  split at h
  · simpa using h
  · obtain ⟨s, hs, hm⟩ := List.any_eq_true.mp h
    exact ⟨s, hs, by unfold seqHasRealM at hm; simp at hm; exact hm.1⟩

/-- **a value is never lost**: a non-NaN M ordinate anywhere in the geometry — in a sequence with or without Z — makes the writer
write M -/
theorem real_m_is_written (g : G) (s : CSeq) (c : Coord) (hs : s ∈ seqsOf g) (hm : s.hasM = true) (hc : c ∈ s.pts)
    (hv : F64.isNaN c.m = false) : writesM g = true := by
  unfold writesM
  have hne : isEmpty g = false := by
    unfold isEmpty
    apply Bool.eq_false_iff.mpr
    intro hall
    have := List.all_eq_true.mp hall s hs
    cases hp : s.pts with
    | nil => rw [hp] at hc; cases hc
    | cons a t => rw [hp] at this; simp at this
  rw [hne]
  simp only [Bool.false_eq_true, ↓reduceIte]
  exact List.any_eq_true.mpr ⟨s, hs, by unfold seqHasRealM; simp [hm]; exact ⟨c, hc, by simp [hv]⟩⟩

theorem real_z_is_written (g : G) (s : CSeq) (c : Coord) (hs : s ∈ seqsOf g) (hz : s.hasZ = true) (hc : c ∈ s.pts)
    (hv : F64.isNaN c.z = false) : writesZ g = true := by
  unfold writesZ
  have hne : isEmpty g = false := by
    unfold isEmpty
    apply Bool.eq_false_iff.mpr
    intro hall
    have := List.all_eq_true.mp hall s hs
    cases hp : s.pts with
    | nil => rw [hp] at hc; cases hc
    | cons a t => rw [hp] at this; simp at this
  rw [hne]
  simp only [Bool.false_eq_true, ↓reduceIte]
  exact List.any_eq_true.mpr ⟨s, hs, by unfold seqHasRealZ; simp [hz]; exact ⟨c, hc, by simp [hv]⟩⟩

/-- **an all-NaN dimension is dropped** from a non-empty geometry -/
theorem all_nan_m_is_dropped (g : G) (hne : isEmpty g = false)
    (h : ∀ s ∈ seqsOf g, ∀ c ∈ s.pts, F64.isNaN c.m = true) : writesM g = false := by
  unfold writesM
  rw [hne]
  simp only [Bool.false_eq_true, ↓reduceIte]
  apply Bool.eq_false_iff.mpr
  intro hany
  obtain ⟨s, hs, hm⟩ := List.any_eq_true.mp hany
  unfold seqHasRealM at hm
  simp at hm
  obtain ⟨_, c, hc, hv⟩ := hm
  have := h s hs c hc
  simp [this] at hv

/-! non-vacuity: an XYM line with real M values keeps M and has no Z; with NaN M values it is written as XY; empty keeps its flags -/
def nan : UInt64 := nanBits
example : writesM (.lineString ⟨false, true, [⟨0, 0, nan, 0x3ff0000000000000⟩, ⟨0, 0, nan, 0x4000000000000000⟩]⟩) = true ∧
    writesZ (.lineString ⟨false, true, [⟨0, 0, nan, 0x3ff0000000000000⟩]⟩) = false := by decide
example : writesM (.lineString ⟨false, true, [⟨0, 0, nan, nan⟩, ⟨0x3ff0000000000000, 0, nan, nan⟩]⟩) = false := by decide
example : writesZ (.polygon ⟨true, false, []⟩ []) = true := by decide

end GeosModel.WKT.Dims
