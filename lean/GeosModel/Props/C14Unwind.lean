import GeosModel.Model.Interrupt.Unwind
/-!
# C14 — the interrupt reaches the API wrapper: theorems about `Model/Interrupt/Unwind.lean`

* `unwind_transparent`        if every frame between the poll and `execute` is transparent for `InterruptedException`, it
                              arrives unchanged (for any stack);
* `unwind_changed_has_opaque_frame`  conversely, whenever it does not arrive unchanged, some frame on the stack is not transparent;
* `framed_run_eq_run`         under that condition the protocol model's "the first poll that throws unwinds to `execute`"
                              is exact: the run with handler stacks equals `Proto.runFrom` (so all theorems of Props/C14 apply);
* `validate_preserves_every_exception`  `ValidatingNoder::validate`'s handler changes no exception class (checked against the real
                              function by the stream `unwind`);
* `overlay_float_stack_transparent`  validate inside `OverlayNGRobust::Overlay`'s first attempt: an interrupt passes both;
* `topology_still_retried`    …while a TopologyException of the validation is absorbed there (the fallback the code wants);
* `rewriting_below_retry_swallows`  MECHANISM (negative witness): a frame that rethrows whatever it caught as a TopologyException,
                              placed under `robustFrame`, turns the interrupt into a retry — the operation completes
                              (`rewritten_interrupt_completes`) although each of the two frames "handles interrupts" alone.
-/
namespace GeosModel.Interrupt

/-- **unwind_transparent.** -/
theorem unwind_transparent (fs : List Frame) (e : Exc) (h : ∀ f ∈ fs, f.transparentFor e = true) :
    unwind fs e = .raised e := by
  induction fs with
  | nil => rfl
  | cons f fs ih =>
    have hf := h f (List.mem_cons_self ..)
    simp only [Frame.transparentFor, beq_iff_eq] at hf
    simp only [unwind, hf]
    exact ih (fun g hg => h g (List.mem_cons_of_mem _ hg))

/-- **unwind_changed_has_opaque_frame.** -/
theorem unwind_changed_has_opaque_frame (fs : List Frame) (e : Exc) (h : unwind fs e ≠ .raised e) :
    ∃ f ∈ fs, f.transparentFor e = false := by
  induction fs generalizing e with
  | nil => exact absurd rfl h
  | cons f fs ih =>
    by_cases hf : f.transparentFor e = true
    · have hf' := hf
      simp only [Frame.transparentFor, beq_iff_eq] at hf'
      simp only [unwind, hf'] at h
      obtain ⟨g, hg, hn⟩ := ih e h
      exact ⟨g, List.mem_cons_of_mem _ hg, hn⟩
    · exact ⟨f, List.mem_cons_self .., by simpa using hf⟩

/-- **framed_run_eq_run.**  With transparent stacks at every poll the run with handlers is the protocol model's run. -/
theorem framed_run_eq_run {ρ : Type} (stack : Nat → List Frame) (r : ρ)
    (h : ∀ i, ∀ f ∈ stack i, f.transparentFor .interrupted = true) :
    ∀ (rem i : Nat) (s : State),
      runFromF stack r rem i s = ((runFrom r rem i s).1, FOutcome.ofOutcome (runFrom r rem i s).2) := by
  intro rem
  induction rem with
  | zero => intro i s; simp [runFromF, runFrom, FOutcome.ofOutcome]
  | succ n ih =>
    intro i s
    unfold runFromF runFrom
    cases hp : process s i with
    | mk s' t =>
      cases t with
      | true => simp [unwind_transparent (stack i) .interrupted (h i), FOutcome.ofOutcome]
      | false => simpa using ih (i + 1) s'

/-- **validate_preserves_every_exception.**  `throw;` after the cleanup: whatever was raised leaves unchanged. -/
theorem validate_preserves_every_exception (e : Exc) : validateFrame.handle e = .raised e := by
  cases e <;> rfl

/-- **overlay_float_stack_transparent.** -/
theorem overlay_float_stack_transparent : unwind [validateFrame, robustFrame] .interrupted = .raised .interrupted := by decide

/-- **topology_still_retried.**  The noding failure the fallback exists for is absorbed by the first attempt's handler, as is
    any other runtime_error; an interrupt is the only GEOS exception it lets through. -/
theorem topology_still_retried :
    unwind [validateFrame, robustFrame] .topology = .absorbed ∧
    (∀ e, robustFrame.handle e = .raised e ↔ (e = .interrupted ∨ e = .logic ∨ e = .stdOther ∨ e = .nonStd)) := by
  refine ⟨by decide, ?_⟩
  intro e; cases e <;> decide

/-- a cleanup handler that rewraps whatever it caught as a TopologyException -/
def rewritingFrame : Frame := [⟨.stdException, .throwNew .topology⟩]

/-- **rewriting_below_retry_swallows.**  Each frame alone does not absorb an interrupt (the inner one re-raises *something*, the outer
    one lets interrupts through), together they do. -/
theorem rewriting_below_retry_swallows :
    rewritingFrame.handle .interrupted ≠ .absorbed ∧ robustFrame.handle .interrupted = .raised .interrupted ∧
    unwind [rewritingFrame, robustFrame] .interrupted = .absorbed := by decide

/-- …and the operation then runs to completion: interrupt requested at poll 2 of 3, handlers as above at every poll -/
theorem rewritten_interrupt_completes :
    (runFromF (fun _ => [rewritingFrame, robustFrame]) "result" 3 1 ⟨false, some (requestAt 2)⟩).2 = .done "result" ∧
    (runFromF (fun _ => [validateFrame, robustFrame]) "result" 3 1 ⟨false, some (requestAt 2)⟩).2 = .interrupted 2 := by decide

/-- what reaches the caller of the C API: `execute` absorbs every exception (error value) -/
theorem execute_absorbs_all (e : Exc) : executeFrame.handle e = .absorbed := by cases e <;> rfl

/-! non-vacuity -/
example : validateFrame.transparentFor .interrupted = true ∧ robustFrame.transparentFor .interrupted = true ∧
    snapFrame.transparentFor .interrupted = true ∧ snapFrame.transparentFor .topology = false := by decide

end GeosModel.Interrupt
