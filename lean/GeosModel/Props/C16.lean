import GeosModel.Proofs.Tri.InCircle
import GeosModel.Proofs.Tri.Sound
import GeosModel.Proofs.Tri.Winding
import GeosModel.Proofs.Tri.Separated
import GeosModel.Proofs.Tri.HullWinding
import GeosModel.Proofs.Tri.Predicates
/-!
# C16 — triangulations tile exactly the right region and are Delaunay

SPEC+C with exact certificate checking (DESIGN.md section 3, C16).  The insertion / flip / ear-clipping
algorithms of GEOS are *not* modelled.  What is proved here is about the certificate checkers of
`Model/Tri/Check.lean`, which the driver `drv_c16` runs on the bits GEOS returns:

* `inCircle_sign` — for a counter-clockwise non-degenerate triangle the sign of `Kernel.inCircleDet` is
  exactly "strictly inside / on / outside the circle around the rational circumcentre" (squared distances
  cross-multiplied into `Int`); `circumcentre_equidistant` shows that centre really is the circumcentre.
* `checker_sound` — `isTriangulationOf sites tris && isDelaunay sites tris = true` gives every listed clause
  for ALL triangles, pairs of triangles and sites, and (with `inCircle_sign`) no site strictly inside any
  circumcircle.  `cdt_checker_sound`, `voronoi_checker_sound` likewise.
* `edge_pairing_area` — the edge-pairing clause (equality of the elementary boundary 1-chains) *implies* the
  area clause: the doubled triangle areas add up to the doubled area of the region (hull / polygon).
* `edge_pairing_cover_count` / `cdt_cover_count` — for every point `p` in general position (on none of the edge
  lines) the number of (positively oriented) triangles that contain `p` strictly equals the winding number
  (signed ray-crossing number `wind`) of the region's boundary chain about `p`; with `count_le_one` (pairwise
  separation) that number is 0 or 1.  Proof: `wind` is antisymmetric and additive under splitting at collinear
  points, so it has equal sums over equal chains (`chainEq_sum`), and a positively oriented triangle has winding
  number 1 inside / 0 outside (`wind_tri`).
* `hull_boundary_winding` — the self-certified hull boundary has winding number 1 about strictly interior points
  and 0 about strictly exterior ones (via the fan triangulation whose separation the checker tests).
* `triangles_inside_hull` — no triangle sticks out of the hull (second half of `C16_cover_full`), unconditionally.
* `edge_pairing_area_cover` — **the Delaunay tiling theorem for points in general position**: accepted certificate
  ⇒ areas add up, every point strictly inside the hull and on none of finitely many lines is strictly inside
  exactly one triangle, every such point outside is in none.  NOT proved: the passage to points on those lines
  (a closure argument; `C16_cover_full` is the closed-set statement).
* `cdt_cover_partial` (PARTIAL) — the same for the constrained triangulation under the explicit hypothesis
  `PolygonWindingIsIndicator` (the winding number of a valid polygon's oriented boundary is the indicator of its
  interior — a Jordan-curve type fact that is NOT proved here).  The checker does not rely on it for
  disjointness (all pairs are tested exactly: `Separated`, `separated_no_common_interior`), and adds the exact
  centroid-inside test for every triangle.
* `cdt_collection_checker_sound`, `cdt_collection_cover_count`, `cdt_collection_triangle_in_one_component` — collections
  of polygons with pairwise disjoint interiors (components may share edges): accepted output splits, by the exact centroid
  test and without any assumption on its order, into one constrained Delaunay triangulation per component; the common edge of
  two components is a constraint of both, so no accepted triangle straddles it.
* `inCircleLoc_spec`, `robust_filter_sound`, `flip_only_if_in_circle`, `improver_flip_only_if_in_circle` — about the decisions GEOS
  itself takes (`Model/Tri/Predicates.lean`; `Props/C16Gen.lean` proves the definitions regenerated from
  `TrianglePredicate.cpp`, `Vertex.h`, `TriDelaunayImprover.cpp` equal to them): in exact arithmetic the filtered in-circle test
  `isInCircleRobust` never reports the wrong side, so an edge is flipped only when the vertex really is strictly inside the
  circumcircle.  (Nothing is claimed about the converse: an undecided test leaves a non-Delaunay edge — the known finding.)
-/
namespace GeosModel.Tri
open GeosModel.Kernel

/-- **in-circle determinant = circumcircle test.**  `circDist a b c p` is `(2·det a b c)²·|p − O|²` for the
rational circumcentre `O`. -/
theorem inCircle_sign (a b c d : Pt) (h : 0 < Kernel.det a b c) :
    (0 < inCircleDet a b c d ↔ circDist a b c d < circDist a b c a) ∧
    (inCircleDet a b c d = 0 ↔ circDist a b c d = circDist a b c a) ∧
    (inCircleDet a b c d < 0 ↔ circDist a b c a < circDist a b c d) := by
  have key := circ_identity a b c d
  refine ⟨⟨fun hp => ?_, fun hl => ?_⟩, ⟨fun hz => ?_, fun he => ?_⟩, ⟨fun hn => ?_, fun hl => ?_⟩⟩
  · have : 0 < 4 * Kernel.det a b c * inCircleDet a b c d := by positivity
    linarith
  · have h4 : 0 < 4 * Kernel.det a b c * inCircleDet a b c d := by linarith
    by_contra hle
    have hle' : inCircleDet a b c d ≤ 0 := by omega
    have : 4 * Kernel.det a b c * inCircleDet a b c d ≤ 0 := by
      have h4d : 0 ≤ 4 * Kernel.det a b c := by omega
      exact Int.mul_nonpos_of_nonneg_of_nonpos h4d hle'
    omega
  · rw [hz] at key; simp at key; omega
  · have h0 : 4 * Kernel.det a b c * inCircleDet a b c d = 0 := by omega
    rcases Int.mul_eq_zero.mp h0 with h1 | h1
    · omega
    · exact h1
  · have hpos : 0 < 4 * Kernel.det a b c * (- inCircleDet a b c d) := by
      have : 0 < - inCircleDet a b c d := by omega
      positivity
    have : 4 * Kernel.det a b c * (- inCircleDet a b c d) = - (4 * Kernel.det a b c * inCircleDet a b c d) := by ring
    omega
  · have h4 : 4 * Kernel.det a b c * inCircleDet a b c d < 0 := by omega
    by_contra hge
    have hge' : 0 ≤ inCircleDet a b c d := by omega
    have : 0 ≤ 4 * Kernel.det a b c * inCircleDet a b c d := Int.mul_nonneg (by omega) hge'
    omega

/-- the centre used by `circDist` is equidistant from the three corners -/
theorem circumcentre_equidistant (a b c : Pt) :
    circDist a b c b = circDist a b c a ∧ circDist a b c c = circDist a b c a :=
  ⟨circDist_b a b c, circDist_c a b c⟩

/-- **the loops cover everything.**  If both Boolean checkers answer `true`, every clause of the
specification holds for all triangles, all pairs and all sites. -/
theorem checker_sound (sites : List Pt) (tris : List Tri)
    (h : (isTriangulationOf sites tris && isDelaunay sites tris) = true) :
    IsTriangulation sites tris ∧ IsDelaunay sites tris := by
  simp only [Bool.and_eq_true] at h
  exact ⟨isTriangulationOf_sound _ _ h.1, isDelaunay_sound _ _ h.2⟩

/-- accepted output ⇒ no site lies strictly inside the circumcircle of any triangle (distance form) -/
theorem delaunay_empty_circumcircles (sites : List Pt) (tris : List Tri)
    (h : (isTriangulationOf sites tris && isDelaunay sites tris) = true) :
    ∀ t ∈ tris, ∀ s ∈ sites, ¬ circDist t.ccw.a t.ccw.b t.ccw.c s < circDist t.ccw.a t.ccw.b t.ccw.c t.ccw.a := by
  obtain ⟨ht, hd⟩ := checker_sound sites tris h
  intro t htm s hs hlt
  have hpos : 0 < Kernel.det t.ccw.a t.ccw.b t.ccw.c := ht.positively_oriented t.ccw (List.mem_map.mpr ⟨t, htm, rfl⟩)
  have := ((inCircle_sign t.ccw.a t.ccw.b t.ccw.c s hpos).1).mpr hlt
  have := hd t htm s hs
  omega

/-- constrained triangulation: accepted output satisfies every clause of `IsCDT`, and (second checker) the
constrained-Delaunay condition on every shared edge -/
theorem cdt_checker_sound (rings : List (List Pt)) (tris : List Tri)
    (h : (isCDTOf rings tris && isConstrainedDelaunay tris) = true) :
    IsCDT rings tris ∧ IsLocallyDelaunay (tris.map Tri.ccw) := by
  simp only [Bool.and_eq_true] at h
  exact ⟨isCDTOf_sound _ _ h.1, locallyDelaunay_sound _ h.2⟩

/-- Voronoi (PARTIAL by nature: cell vertices are computed doubles, every metric clause carries the slack
`1e-9·M`): accepted output satisfies every clause of `VoronoiCert` for all cells, vertices and sites -/
theorem voronoi_checker_sound (sites : List Pt) (env : Box) (cells : List (Pt × List Pt))
    (h : voronoiOK sites env cells = true) : VoronoiCert sites env cells :=
  voronoiOK_sound sites env cells h

/-- **edge pairing ⇒ area.**  Equality of the elementary boundary chains alone forces the doubled triangle
areas to add up to the shoelace sum of the boundary; for the hull / polygon boundary that is its doubled area. -/
theorem edge_pairing_area (V : List Pt) (ts : List Tri) (B : List Edge)
    (h : chainEq (elemEdges V (triEdges ts)) (elemEdges V B) = true) :
    sumInt (ts.map Tri.det) = sumInt (B.map cross) :=
  chainEq_area V ts B h

/-- the shoelace sum of a closed ring's edges is `Kernel.area2` -/
theorem ring_area_as_chain (ring : List Pt) : area2 ring = sumInt ((Kernel.edges ring).map cross) :=
  area2_eq_sum ring

/-- the full covering statement (NOT proved): under the tiling certificate against the hull boundary, a site-
free formulation — every point of the closed hull is in some closed triangle, and every point strictly inside
a triangle is in the closed hull -/
def C16_cover_full : Prop :=
  ∀ (sites : List Pt) (tris : List Tri), isTriangulationOf sites tris = true → 3 ≤ (hull sites).length →
    (∀ p : Pt, (∀ e ∈ loopEdges (hull sites), 0 ≤ Kernel.det e.1 e.2 p) → ∃ t ∈ tris.map Tri.ccw, InClosed t p) ∧
    (∀ p : Pt, ∀ t ∈ tris.map Tri.ccw, StrictlyIn t p → ∀ e ∈ loopEdges (hull sites), 0 ≤ Kernel.det e.1 e.2 p)

/-- separated counter-clockwise triangles have no common strictly interior point -/
theorem separated_no_common_interior (t u : Tri) (ht : 0 < t.det) (hu : 0 < u.det) (h : Separated t u) (p : Pt) :
    ¬ (StrictlyIn t p ∧ StrictlyIn u p) := separated_no_common_interior' t u ht hu h p

/-- pairwise separated positively oriented triangles: at most one contains a given point strictly -/
theorem count_le_one (ts : List Tri) (hpos : ∀ t ∈ ts, 0 < t.det) (hsep : ts.Pairwise Separated) (p : Pt) :
    countIn ts p = 0 ∨ countIn ts p = 1 := count_le_one' ts hpos hsep p

/-- **edge pairing ⇒ covering count (Delaunay case).**  For an accepted triangulation and every point `p` on
none of the triangle-edge or hull-edge lines: the number of triangles containing `p` strictly equals the
winding number of the hull boundary about `p`, and it is 0 or 1. -/
theorem edge_pairing_cover_count (sites : List Pt) (tris : List Tri) (h : isTriangulationOf sites tris = true) (p : Pt)
    (hpT : ∀ e ∈ triEdges (tris.map Tri.ccw), OffLine p e) (hpB : ∀ e ∈ loopEdges (hull sites), OffLine p e) :
    countIn (tris.map Tri.ccw) p = sumInt ((loopEdges (hull sites)).map (wind p)) ∧
    (countIn (tris.map Tri.ccw) p = 0 ∨ countIn (tris.map Tri.ccw) p = 1) := by
  have hs := isTriangulationOf_sound sites tris h
  refine ⟨?_, count_le_one _ hs.positively_oriented hs.tiling.disjoint p⟩
  apply chainEq_count sites _ _ p _ hs.positively_oriented hpT hpB
  simp only [chainEq, List.isEmpty_iff]
  exact hs.tiling.chain

/-- the same for the constrained triangulation of a polygon (shell + holes) -/
theorem cdt_cover_count (rings : List (List Pt)) (tris : List Tri) (h : isCDTOf rings tris = true) (p : Pt)
    (hpT : ∀ e ∈ triEdges (tris.map Tri.ccw), OffLine p e) (hpB : ∀ e ∈ polyBoundary rings, OffLine p e) :
    countIn (tris.map Tri.ccw) p = sumInt ((polyBoundary rings).map (wind p)) ∧
    (countIn (tris.map Tri.ccw) p = 0 ∨ countIn (tris.map Tri.ccw) p = 1) := by
  have hs := isCDTOf_sound rings tris h
  refine ⟨?_, count_le_one _ hs.positively_oriented hs.tiling.disjoint p⟩
  apply chainEq_count (rings.flatMap id) _ _ p _ hs.positively_oriented hpT hpB
  simp only [chainEq, List.isEmpty_iff]
  exact hs.tiling.chain

/-- **no triangle sticks out of the hull** (second half of `C16_cover_full`, proved unconditionally): every point
strictly inside a triangle of an accepted triangulation is on or to the left of every hull edge -/
theorem triangles_inside_hull (sites : List Pt) (tris : List Tri) (h : isTriangulationOf sites tris = true)
    (h3 : 3 ≤ (hull sites).length) (p : Pt) :
    ∀ t ∈ tris.map Tri.ccw, StrictlyIn t p → ∀ e ∈ loopEdges (hull sites), 0 ≤ Kernel.det e.1 e.2 p := by
  have hs := isTriangulationOf_sound sites tris h
  intro t ht hin e he
  obtain ⟨t0, ht0, rfl⟩ := List.mem_map.mp ht
  have hpos : 0 < t0.ccw.det := hs.positively_oriented _ ht
  have hc : ∀ q ∈ t0.ccw.corners, 0 ≤ Kernel.det e.1 e.2 q := fun q hq =>
    hs.hull.contains h3 e he q (hs.corners_are_sites t0 ht0 q ((ccw_corners t0 q).mp hq))
  have ha := hc t0.ccw.a (by simp [Tri.corners])
  have hb := hc t0.ccw.b (by simp [Tri.corners])
  have hcc := hc t0.ccw.c (by simp [Tri.corners])
  -- p is a strict convex combination of the corners
  have comb : Kernel.det e.1 e.2 p * t0.ccw.det =
      Kernel.det t0.ccw.b t0.ccw.c p * Kernel.det e.1 e.2 t0.ccw.a + Kernel.det t0.ccw.c t0.ccw.a p * Kernel.det e.1 e.2 t0.ccw.b +
      Kernel.det t0.ccw.a t0.ccw.b p * Kernel.det e.1 e.2 t0.ccw.c := by
    simp only [Kernel.det, Tri.det]; ring
  obtain ⟨w1, w2, w3⟩ := hin
  have r1 : 0 ≤ Kernel.det t0.ccw.b t0.ccw.c p * Kernel.det e.1 e.2 t0.ccw.a := Int.mul_nonneg (by omega) ha
  have r2 : 0 ≤ Kernel.det t0.ccw.c t0.ccw.a p * Kernel.det e.1 e.2 t0.ccw.b := Int.mul_nonneg (by omega) hb
  have r3 : 0 ≤ Kernel.det t0.ccw.a t0.ccw.b p * Kernel.det e.1 e.2 t0.ccw.c := Int.mul_nonneg (by omega) hcc
  by_contra hneg
  have hlt : Kernel.det e.1 e.2 p < 0 := by omega
  have : Kernel.det e.1 e.2 p * t0.ccw.det < 0 := Int.mul_neg_of_neg_of_pos hlt hpos
  omega

/-- **the certified hull boundary winds once around interior points, not at all around exterior ones.**  `p` in
general position: on no line through an edge of the hull's fan triangulation (these include the hull edges). -/
theorem hull_boundary_winding (sites : List Pt) (tris : List Tri) (h : isTriangulationOf sites tris = true)
    (h3 : 3 ≤ (hull sites).length) (p : Pt) (hpF : ∀ e ∈ triEdges (fan (hull sites)), OffLine p e) :
    ((∀ e ∈ loopEdges (hull sites), 0 < Kernel.det e.1 e.2 p) → sumInt ((loopEdges (hull sites)).map (wind p)) = 1) ∧
    ((∃ e ∈ loopEdges (hull sites), Kernel.det e.1 e.2 p < 0) → sumInt ((loopEdges (hull sites)).map (wind p)) = 0) :=
  hull_winding sites (hull sites) (isTriangulationOf_sound sites tris h).hull h3 p hpF

/-- **edge pairing + area ⇒ exact cover of the hull (points in general position).**  For an accepted
triangulation with a non-degenerate hull: the doubled areas add up to the doubled hull area, and for every point
`p` on none of the (finitely many) lines through a triangle edge, a hull edge or a fan diagonal of the hull:
if `p` is strictly inside the hull it is strictly inside exactly one triangle; if it is strictly outside the hull
it is in no triangle.  (Not proved: the passage to the points ON those lines — `C16_cover_full` — which is a
closure argument.) -/
theorem edge_pairing_area_cover (sites : List Pt) (tris : List Tri)
    (h : isTriangulationOf sites tris = true) (h3 : 3 ≤ (hull sites).length) :
    sumInt ((tris.map Tri.ccw).map Tri.det) = sumInt ((loopEdges (hull sites)).map cross) ∧
    ∀ p : Pt, (∀ e ∈ triEdges (tris.map Tri.ccw), OffLine p e) → (∀ e ∈ loopEdges (hull sites), OffLine p e) →
      (∀ e ∈ triEdges (fan (hull sites)), OffLine p e) →
      ((∀ e ∈ loopEdges (hull sites), 0 < Kernel.det e.1 e.2 p) → countIn (tris.map Tri.ccw) p = 1) ∧
      ((∃ e ∈ loopEdges (hull sites), Kernel.det e.1 e.2 p < 0) → countIn (tris.map Tri.ccw) p = 0) := by
  have hs := isTriangulationOf_sound sites tris h
  refine ⟨?_, fun p hpT hpB hpF => ?_⟩
  · apply edge_pairing_area sites
    simp only [chainEq, List.isEmpty_iff]
    exact hs.tiling.chain
  · have hc := (edge_pairing_cover_count sites tris h p hpT hpB).1
    obtain ⟨h1, h0⟩ := hull_boundary_winding sites tris h h3 p hpF
    exact ⟨fun hin => by rw [hc]; exact h1 hin, fun hout => by rw [hc]; exact h0 hout⟩

/-- the geometric step NOT proved for polygons with holes: the winding number of the oriented boundary (shell
counter-clockwise, holes clockwise) of a valid polygon about a point in general position is 1 for interior points
and 0 for exterior points (`Kernel.locateInPolygon` is the even–odd specification of interior/exterior) -/
def PolygonWindingIsIndicator (rings : List (List Pt)) : Prop :=
  ∀ p : Pt, (∀ e ∈ polyBoundary rings, OffLine p e) →
    (locateInPolygon p rings = Loc.interior → sumInt ((polyBoundary rings).map (wind p)) = 1) ∧
    (locateInPolygon p rings = Loc.exterior → sumInt ((polyBoundary rings).map (wind p)) = 0)

/-- **PARTIAL** (constrained case): under `PolygonWindingIsIndicator`, an accepted constrained triangulation covers
exactly the polygon (points in general position): interior points are strictly inside exactly one triangle,
exterior points in none; and the areas add up. -/
theorem cdt_cover_partial (rings : List (List Pt)) (tris : List Tri) (h : isCDTOf rings tris = true)
    (hw : PolygonWindingIsIndicator rings) :
    sumInt ((tris.map Tri.ccw).map Tri.det) = polyArea2 rings ∧
    ∀ p : Pt, (∀ e ∈ triEdges (tris.map Tri.ccw), OffLine p e) → (∀ e ∈ polyBoundary rings, OffLine p e) →
      (locateInPolygon p rings = Loc.interior → countIn (tris.map Tri.ccw) p = 1) ∧
      (locateInPolygon p rings = Loc.exterior → countIn (tris.map Tri.ccw) p = 0) := by
  have hs := isCDTOf_sound rings tris h
  refine ⟨hs.tiling.area, fun p hpT hpB => ?_⟩
  have hc := (cdt_cover_count rings tris h p hpT hpB).1
  obtain ⟨h1, h0⟩ := hw p hpB
  exact ⟨fun hin => by rw [hc]; exact h1 hin, fun hout => by rw [hc]; exact h0 hout⟩


/-- **collections of polygons** (`GEOSConstrainedDelaunayTriangulation_r` on a GeometryCollection / MultiPolygon): accepted
output splits — by the exact centroid test, no assumption on the output order — into one group per component polygon, every
output triangle lies in exactly one group, and group `i` satisfies every clause of `IsCDT` for component `i` together with
the constrained-Delaunay condition on the edges shared inside the group.  In particular (clause `corners_are_vertices`
of the group) no output triangle has corners from two different components unless they are vertices of its own. -/
theorem cdt_collection_checker_sound (polys : List (List (List Pt))) (tris : List Tri)
    (h : isCDTOfCollection polys tris = true) : IsCDTCollection polys tris :=
  isCDTOfCollection_sound polys tris h

/-- the covering count, per component of an accepted collection output: for a point in general position the number of
triangles of group `i` that contain it strictly is the winding number of component `i`'s oriented boundary, and is 0 or 1 -/
theorem cdt_collection_cover_count (polys : List (List (List Pt))) (tris : List Tri) (h : isCDTOfCollection polys tris = true)
    (rings : List (List Pt)) (hr : rings ∈ polys) (p : Pt)
    (hpT : ∀ e ∈ triEdges ((trisIn rings tris).map Tri.ccw), OffLine p e) (hpB : ∀ e ∈ polyBoundary rings, OffLine p e) :
    countIn ((trisIn rings tris).map Tri.ccw) p = sumInt ((polyBoundary rings).map (wind p)) ∧
    (countIn ((trisIn rings tris).map Tri.ccw) p = 0 ∨ countIn ((trisIn rings tris).map Tri.ccw) p = 1) := by
  simp only [isCDTOfCollection, Bool.and_eq_true, List.all_eq_true] at h
  exact cdt_cover_count rings (trisIn rings tris) (h.2 rings hr).1 p hpT hpB

/-- every output triangle of an accepted collection output has its three corners among the vertices of the ONE component
that owns it (so a triangle straddling the common edge of two components is rejected) -/
theorem cdt_collection_triangle_in_one_component (polys : List (List (List Pt))) (tris : List Tri)
    (h : isCDTOfCollection polys tris = true) (t : Tri) (ht : t ∈ tris) :
    ∃ rings ∈ polys, ownedBy rings t = true ∧ (∀ p ∈ t.corners, ∃ r ∈ rings, p ∈ r) ∧
      ∀ rings' ∈ polys, ownedBy rings' t = true → (polys.filter (fun r => ownedBy r t)) = [rings'] := by
  have hs := isCDTOfCollection_sound polys tris h
  obtain ⟨⟨rings, hr, ho⟩, hlen⟩ := hs.unique_owner t ht
  refine ⟨rings, hr, ho, ?_, ?_⟩
  · exact (hs.component rings hr).1.corners_are_vertices t ((hs.groups_are_output rings t).mpr ⟨ht, ho⟩)
  · intro rings' hr' ho'
    obtain ⟨x, hx⟩ := List.length_eq_one_iff.mp hlen
    have : rings' ∈ polys.filter (fun r => ownedBy r t) := List.mem_filter.mpr ⟨hr', ho'⟩
    rw [hx] at this ⊢
    simp only [List.mem_singleton] at this
    rw [this]

/-! ### the decisions of the implementation (tied to the C++ by the translator, `Props/C16Gen.lean`) -/

/-- **`isInCircleNormalized` / the exact in-circle answer means the circumcircle.**  For a counter-clockwise triangle
`inCircleLoc` is `I` / `B` / `E` exactly when `d` is nearer to / as far from / farther from the circumcentre than the corners. -/
theorem inCircleLoc_spec (a b c d : Pt) (h : 0 < Kernel.det a b c) :
    (inCircleLoc a b c d = .I ↔ circDist a b c d < circDist a b c a) ∧
    (inCircleLoc a b c d = .B ↔ circDist a b c d = circDist a b c a) ∧
    (inCircleLoc a b c d = .E ↔ circDist a b c a < circDist a b c d) := by
  obtain ⟨h1, h2, h3⟩ := inCircle_sign a b c d h
  unfold inCircleLoc
  refine ⟨?_, ?_, ?_⟩
  · rw [← h1]; constructor
    · intro hh; split at hh
      · assumption
      · split at hh <;> cases hh
    · intro hh; simp [hh]
  · rw [← h2]; constructor
    · intro hh; split at hh
      · cases hh
      · split at hh
        · assumption
        · cases hh
    · intro hh; simp [hh]
  · rw [← h3]; constructor
    · intro hh; split at hh
      · cases hh
      · split at hh
        · cases hh
        · omega
    · intro hh
      have n1 : ¬ 0 < inCircleDet a b c d := by omega
      have n2 : ¬ inCircleDet a b c d = 0 := by omega
      simp [n1, n2]

/-- **the filtered predicate never reports the wrong side** (`TrianglePredicate::isInCircleRobust` in exact arithmetic): a
decided answer INTERIOR / EXTERIOR agrees with the exact sign; only BOUNDARY may stand for "undecided". -/
theorem robust_filter_sound (a b c d : Pt) :
    (robustInCircleLoc a b c d = .I → inCircleLoc a b c d = .I) ∧
    (robustInCircleLoc a b c d = .E → inCircleLoc a b c d = .E) := by
  obtain ⟨h1, h2⟩ := filteredLoc_sound (inCircleDet a b c d) (robustErr a b c d) (robustErr_nonneg a b c d)
  unfold robustInCircleLoc inCircleLoc
  constructor
  · intro h; have := h1 h; simp [this]
  · intro h; have := h2 h
    have n1 : ¬ 0 < inCircleDet a b c d := by omega
    have n2 : ¬ inCircleDet a b c d = 0 := by omega
    simp [n1, n2]

/-- **an edge is flipped only for a vertex strictly inside the circumcircle** (`Vertex::isInCircle`, the general flip test of
`IncrementalDelaunayTriangulator::insertSite`, `a b c` counter-clockwise) -/
theorem flip_only_if_in_circle (a b c v : Pt) (h : 0 < Kernel.det a b c) (hf : flipInCircle a b c v = true) :
    circDist a b c v < circDist a b c a := by
  have hI : robustInCircleLoc a b c v = .I := by simpa [flipInCircle] using hf
  exact ((inCircleLoc_spec a b c v h).1).mp ((robust_filter_sound a b c v).1 hI)

/-- **`TriDelaunayImprover` flips only a pair of triangles that really is not Delaunay**: if `isDelaunay` answers false, one of
the two opposite vertices has a strictly positive in-circle determinant w.r.t. the other triangle; with the orientation of
`tri::Tri` (corners clockwise, i.e. `(adj0, opp0, adj1)` and `(adj1, opp1, adj0)` counter-clockwise) that vertex is strictly
inside the other triangle's circumcircle -/
theorem improver_flip_only_if_in_circle (adj0 adj1 opp0 opp1 : Pt) (h : improverDelaunay adj0 adj1 opp0 opp1 = false) :
    (0 < inCircleDet adj0 opp0 adj1 opp1 ∨ 0 < inCircleDet adj1 opp1 adj0 opp0) ∧
    (0 < Kernel.det adj0 opp0 adj1 → 0 < Kernel.det adj1 opp1 adj0 →
      circDist adj0 opp0 adj1 opp1 < circDist adj0 opp0 adj1 adj0 ∨ circDist adj1 opp1 adj0 opp0 < circDist adj1 opp1 adj0 adj1) := by
  unfold improverDelaunay flipInCircle at h
  have s1 := (filteredLoc_sound (inCircleDet adj0 opp0 adj1 opp1) _ (robustErr_nonneg adj0 opp0 adj1 opp1)).1
  have s2 := (filteredLoc_sound (inCircleDet adj1 opp1 adj0 opp0) _ (robustErr_nonneg adj1 opp1 adj0 opp0)).1
  have key : 0 < inCircleDet adj0 opp0 adj1 opp1 ∨ 0 < inCircleDet adj1 opp1 adj0 opp0 := by
    by_cases h1 : robustInCircleLoc adj0 opp0 adj1 opp1 = .I
    · exact Or.inl (s1 h1)
    · by_cases h2 : robustInCircleLoc adj1 opp1 adj0 opp0 = .I
      · exact Or.inr (s2 h2)
      · simp [h1, h2] at h
  refine ⟨key, fun d0 d1 => ?_⟩
  rcases key with k | k
  · exact Or.inl (((inCircle_sign _ _ _ _ d0).1).mp k)
  · exact Or.inr (((inCircle_sign _ _ _ _ d1).1).mp k)

/-! ### non-vacuity -/

/-- five sites (a square and an interior point), four triangles: accepted -/
example : (isTriangulationOf [⟨0,0⟩, ⟨4,0⟩, ⟨4,4⟩, ⟨0,4⟩, ⟨2,1⟩]
    [⟨⟨0,0⟩,⟨4,0⟩,⟨2,1⟩⟩, ⟨⟨4,0⟩,⟨4,4⟩,⟨2,1⟩⟩, ⟨⟨4,4⟩,⟨0,4⟩,⟨2,1⟩⟩, ⟨⟨0,0⟩,⟨2,1⟩,⟨0,4⟩⟩] &&
  isDelaunay [⟨0,0⟩, ⟨4,0⟩, ⟨4,4⟩, ⟨0,4⟩, ⟨2,1⟩]
    [⟨⟨0,0⟩,⟨4,0⟩,⟨2,1⟩⟩, ⟨⟨4,0⟩,⟨4,4⟩,⟨2,1⟩⟩, ⟨⟨4,4⟩,⟨0,4⟩,⟨2,1⟩⟩, ⟨⟨0,0⟩,⟨2,1⟩,⟨0,4⟩⟩]) = true := by decide

/-- a valid triangulation of four sites with the wrong diagonal: tiling accepted, Delaunay rejected -/
example : isTriangulationOf [⟨0,0⟩, ⟨2,-1⟩, ⟨4,0⟩, ⟨2,1⟩] [⟨⟨0,0⟩,⟨4,0⟩,⟨2,1⟩⟩, ⟨⟨0,0⟩,⟨2,-1⟩,⟨4,0⟩⟩] = true ∧
    isDelaunay [⟨0,0⟩, ⟨2,-1⟩, ⟨4,0⟩, ⟨2,1⟩] [⟨⟨0,0⟩,⟨4,0⟩,⟨2,1⟩⟩, ⟨⟨0,0⟩,⟨2,-1⟩,⟨4,0⟩⟩] = false := by decide

/-- the other diagonal is accepted by both -/
example : (isTriangulationOf [⟨0,0⟩, ⟨2,-1⟩, ⟨4,0⟩, ⟨2,1⟩] [⟨⟨0,0⟩,⟨2,-1⟩,⟨2,1⟩⟩, ⟨⟨2,-1⟩,⟨4,0⟩,⟨2,1⟩⟩] &&
    isDelaunay [⟨0,0⟩, ⟨2,-1⟩, ⟨4,0⟩, ⟨2,1⟩] [⟨⟨0,0⟩,⟨2,-1⟩,⟨2,1⟩⟩, ⟨⟨2,-1⟩,⟨4,0⟩,⟨2,1⟩⟩]) = true := by decide

/-- cocircular sites (a square): both diagonals are accepted (strict in-circle test) -/
example : (isDelaunay [⟨0,0⟩, ⟨1,0⟩, ⟨1,1⟩, ⟨0,1⟩] [⟨⟨0,0⟩,⟨1,0⟩,⟨1,1⟩⟩, ⟨⟨0,0⟩,⟨1,1⟩,⟨0,1⟩⟩] &&
    isDelaunay [⟨0,0⟩, ⟨1,0⟩, ⟨1,1⟩, ⟨0,1⟩] [⟨⟨0,0⟩,⟨1,0⟩,⟨0,1⟩⟩, ⟨⟨1,0⟩,⟨1,1⟩,⟨0,1⟩⟩]) = true := by decide

/-- a missing triangle (hole in the cover), an overlapping pair, and a hull edge left unpaired are rejected -/
example : isTriangulationOf [⟨0,0⟩, ⟨4,0⟩, ⟨4,4⟩, ⟨0,4⟩, ⟨2,1⟩]
    [⟨⟨0,0⟩,⟨4,0⟩,⟨2,1⟩⟩, ⟨⟨4,0⟩,⟨4,4⟩,⟨2,1⟩⟩, ⟨⟨4,4⟩,⟨0,4⟩,⟨2,1⟩⟩] = false := by decide
example : isTriangulationOf [⟨0,0⟩, ⟨4,0⟩, ⟨4,4⟩, ⟨0,4⟩]
    [⟨⟨0,0⟩,⟨4,0⟩,⟨4,4⟩⟩, ⟨⟨0,0⟩,⟨4,0⟩,⟨0,4⟩⟩] = false := by decide
/-- collinear hull point: the hull edge (0,0)-(4,0) is split at the site (2,0) and still pairs -/
example : isTriangulationOf [⟨0,0⟩, ⟨2,0⟩, ⟨4,0⟩, ⟨2,3⟩] [⟨⟨0,0⟩,⟨2,0⟩,⟨2,3⟩⟩, ⟨⟨2,0⟩,⟨4,0⟩,⟨2,3⟩⟩] = true := by decide
/-- … but one big triangle that ignores the collinear site is rejected (site is not a corner) -/
example : isTriangulationOf [⟨0,0⟩, ⟨2,0⟩, ⟨4,0⟩, ⟨2,3⟩] [⟨⟨0,0⟩,⟨4,0⟩,⟨2,3⟩⟩] = false := by decide

/-- constrained: an L-shaped polygon, accepted; the same triangles for the bounding square, rejected -/
example : (isCDTOf [[⟨0,0⟩,⟨2,0⟩,⟨2,1⟩,⟨1,1⟩,⟨1,2⟩,⟨0,2⟩,⟨0,0⟩]]
    [⟨⟨0,0⟩,⟨2,0⟩,⟨2,1⟩⟩, ⟨⟨0,0⟩,⟨2,1⟩,⟨1,1⟩⟩, ⟨⟨0,0⟩,⟨1,1⟩,⟨0,2⟩⟩, ⟨⟨1,1⟩,⟨1,2⟩,⟨0,2⟩⟩]) = true := by decide
example : (isCDTOf [[⟨0,0⟩,⟨2,0⟩,⟨2,2⟩,⟨0,2⟩,⟨0,0⟩]]
    [⟨⟨0,0⟩,⟨2,0⟩,⟨2,1⟩⟩, ⟨⟨0,0⟩,⟨2,1⟩,⟨1,1⟩⟩, ⟨⟨0,0⟩,⟨1,1⟩,⟨0,2⟩⟩, ⟨⟨1,1⟩,⟨1,2⟩,⟨0,2⟩⟩]) = false := by decide

/-- collections: two thin triangles glued along their long side (a valid GeometryCollection).  The two input triangles are
accepted; the pair obtained by flipping the common (constraint) edge — triangles straddling both components — is rejected -/
example : isCDTOfCollection [[[⟨0,0⟩,⟨5,1⟩,⟨10,0⟩,⟨0,0⟩]], [[⟨0,0⟩,⟨10,0⟩,⟨5,-1⟩,⟨0,0⟩]]]
    [⟨⟨0,0⟩,⟨5,1⟩,⟨10,0⟩⟩, ⟨⟨0,0⟩,⟨10,0⟩,⟨5,-1⟩⟩] = true ∧
  isCDTOfCollection [[[⟨0,0⟩,⟨5,1⟩,⟨10,0⟩,⟨0,0⟩]], [[⟨0,0⟩,⟨10,0⟩,⟨5,-1⟩,⟨0,0⟩]]]
    [⟨⟨0,0⟩,⟨5,-1⟩,⟨5,1⟩⟩, ⟨⟨5,-1⟩,⟨10,0⟩,⟨5,1⟩⟩] = false := by decide
/-- … although, as ONE polygon (the rhombus), the flipped pair is the constrained Delaunay triangulation and the unflipped one is not -/
example : (isCDTOf [[⟨0,0⟩,⟨5,-1⟩,⟨10,0⟩,⟨5,1⟩,⟨0,0⟩]] [⟨⟨0,0⟩,⟨5,-1⟩,⟨5,1⟩⟩, ⟨⟨5,-1⟩,⟨10,0⟩,⟨5,1⟩⟩] &&
    isConstrainedDelaunay [⟨⟨0,0⟩,⟨5,-1⟩,⟨5,1⟩⟩, ⟨⟨5,-1⟩,⟨10,0⟩,⟨5,1⟩⟩]) = true ∧
  isConstrainedDelaunay [⟨⟨0,0⟩,⟨5,1⟩,⟨10,0⟩⟩, ⟨⟨0,0⟩,⟨10,0⟩,⟨5,-1⟩⟩] = false := by decide

/-- the covering count is not vacuous: the point (3,2) (on no edge line) is strictly inside exactly one of the four
triangles and the hull boundary winds once around it; (5,2) is outside: count 0, winding number 0 -/
example : countIn ([⟨⟨0,0⟩,⟨4,0⟩,⟨2,1⟩⟩, ⟨⟨4,0⟩,⟨4,4⟩,⟨2,1⟩⟩, ⟨⟨4,4⟩,⟨0,4⟩,⟨2,1⟩⟩, ⟨⟨0,0⟩,⟨2,1⟩,⟨0,4⟩⟩].map Tri.ccw) ⟨3,2⟩ = 1 ∧
    sumInt ((loopEdges (hull [⟨0,0⟩, ⟨4,0⟩, ⟨4,4⟩, ⟨0,4⟩, ⟨2,1⟩])).map (wind ⟨3,2⟩)) = 1 ∧
    countIn ([⟨⟨0,0⟩,⟨4,0⟩,⟨2,1⟩⟩, ⟨⟨4,0⟩,⟨4,4⟩,⟨2,1⟩⟩, ⟨⟨4,4⟩,⟨0,4⟩,⟨2,1⟩⟩, ⟨⟨0,0⟩,⟨2,1⟩,⟨0,4⟩⟩].map Tri.ccw) ⟨5,2⟩ = 0 ∧
    sumInt ((loopEdges (hull [⟨0,0⟩, ⟨4,0⟩, ⟨4,4⟩, ⟨0,4⟩, ⟨2,1⟩])).map (wind ⟨5,2⟩)) = 0 := by decide

/-- … and the general-position hypotheses of `edge_pairing_cover_count` are satisfiable: (3,2) and (5,2) lie on none
of the triangle-edge or hull-edge lines of that example -/
example : (∀ e ∈ triEdges ([⟨⟨0,0⟩,⟨4,0⟩,⟨2,1⟩⟩, ⟨⟨4,0⟩,⟨4,4⟩,⟨2,1⟩⟩, ⟨⟨4,4⟩,⟨0,4⟩,⟨2,1⟩⟩, ⟨⟨0,0⟩,⟨2,1⟩,⟨0,4⟩⟩].map Tri.ccw),
      Kernel.det e.1 e.2 ⟨3,2⟩ ≠ 0 ∧ Kernel.det e.1 e.2 ⟨5,2⟩ ≠ 0) ∧
    (∀ e ∈ loopEdges (hull [⟨0,0⟩, ⟨4,0⟩, ⟨4,4⟩, ⟨0,4⟩, ⟨2,1⟩]), Kernel.det e.1 e.2 ⟨3,2⟩ ≠ 0 ∧ Kernel.det e.1 e.2 ⟨5,2⟩ ≠ 0) := by decide

/-- `inCircle_sign` is not vacuous: (1,1) is strictly inside the circle through (0,0),(4,0),(0,4) -/
example : 0 < Kernel.det ⟨0,0⟩ ⟨4,0⟩ ⟨0,4⟩ ∧ 0 < inCircleDet ⟨0,0⟩ ⟨4,0⟩ ⟨0,4⟩ ⟨1,1⟩ ∧
    circDist ⟨0,0⟩ ⟨4,0⟩ ⟨0,4⟩ ⟨1,1⟩ < circDist ⟨0,0⟩ ⟨4,0⟩ ⟨0,4⟩ ⟨0,0⟩ := by decide

/-- the decisions are not vacuous: (1,1) is decidedly inside the circle through (0,0),(4,0),(0,4) (flip), (4,4) is on it
(undecided = no flip), (5,5) is decidedly outside -/
example : flipInCircle ⟨0,0⟩ ⟨4,0⟩ ⟨0,4⟩ ⟨1,1⟩ = true ∧ robustInCircleLoc ⟨0,0⟩ ⟨4,0⟩ ⟨0,4⟩ ⟨4,4⟩ = .B ∧
    robustInCircleLoc ⟨0,0⟩ ⟨4,0⟩ ⟨0,4⟩ ⟨5,5⟩ = .E ∧ inCircleLoc ⟨0,0⟩ ⟨4,0⟩ ⟨0,4⟩ ⟨4,4⟩ = .B := by decide +kernel
/-- the improver's test: the diagonal (0,0)-(4,0) of the kite (0,0),(2,-1),(4,0),(2,1) is not Delaunay, the other one is
(corners given in the clockwise order of `tri::Tri`) -/
example : improverDelaunay ⟨4,0⟩ ⟨0,0⟩ ⟨2,1⟩ ⟨2,-1⟩ = false ∧ improverDelaunay ⟨2,1⟩ ⟨2,-1⟩ ⟨0,0⟩ ⟨4,0⟩ = true ∧
    0 < Kernel.det ⟨4,0⟩ ⟨2,1⟩ ⟨0,0⟩ ∧ 0 < Kernel.det ⟨0,0⟩ ⟨2,-1⟩ ⟨4,0⟩ := by decide +kernel

end GeosModel.Tri
