import GeosModel.Proofs.Tri.InCircle
import GeosModel.Proofs.Tri.Sound
/-!
# C16 — triangulations tile exactly the right region and are Delaunay

SPEC+C with exact certificate checking (DESIGN.md section 3, C16).  The insertion / flip / ear-clipping
algorithms of GEOS are *not* modelled.  What is proved here is about the certificate checkers of
`Model/Tri/Check.lean`, which the driver `drv_c16` runs on the bits GEOS returns:

* `inCircle_sign` — for a counter-clockwise non-degenerate triangle the sign of `Kernel.inCircleDet` is
  exactly "strictly inside / on / outside the circle around the rational circumcentre" (squared distances
  cross-multiplied into `Int`); `circumcentre_equidistant` shows that centre really is the circumcentre.
* `checker_sound` — `isTriangulationOf sites tris && isDelaunay sites tris = true` gives every listed clause
  for ALL triangles, pairs of triangles and sites, and (with `inCircle_sign`) no site strictly inside any
  circumcircle.  `cdt_checker_sound`, `voronoi_checker_sound` likewise.
* `edge_pairing_area` — the edge-pairing clause (equality of the elementary boundary 1-chains) *implies* the
  area clause: the doubled triangle areas add up to the doubled area of the region (hull / polygon).
* `edge_pairing_area_cover_partial` (PARTIAL) — pairing + positive orientation + pairwise separation give:
  areas add up and triangles are pairwise interior-disjoint.  The full statement `C16_cover_full`
  (every point of the region lies in some triangle, no point outside does) needs one geometric step that is
  NOT proved here: the additivity of the winding number over the cancelling 1-chain (each positively
  oriented triangle contributes winding number 1 to its interior points and 0 elsewhere, and the winding
  number of the hull / polygon boundary is the indicator of the region).  The checker does not rely on the
  unproved half for disjointness — it tests every pair exactly (`Separated`).
-/
namespace GeosModel.Tri
open GeosModel.Kernel

/-- **in-circle determinant = circumcircle test.**  `circDist a b c p` is `(2·det a b c)²·|p − O|²` for the
rational circumcentre `O`. -/
theorem inCircle_sign (a b c d : Pt) (h : 0 < Kernel.det a b c) :
    (0 < inCircleDet a b c d ↔ circDist a b c d < circDist a b c a) ∧
    (inCircleDet a b c d = 0 ↔ circDist a b c d = circDist a b c a) ∧
    (inCircleDet a b c d < 0 ↔ circDist a b c a < circDist a b c d) := by
  have key := circ_identity a b c d
  refine ⟨⟨fun hp => ?_, fun hl => ?_⟩, ⟨fun hz => ?_, fun he => ?_⟩, ⟨fun hn => ?_, fun hl => ?_⟩⟩
  · have : 0 < 4 * Kernel.det a b c * inCircleDet a b c d := by positivity
    linarith
  · have h4 : 0 < 4 * Kernel.det a b c * inCircleDet a b c d := by linarith
    by_contra hle
    have hle' : inCircleDet a b c d ≤ 0 := by omega
    have : 4 * Kernel.det a b c * inCircleDet a b c d ≤ 0 := by
      have h4d : 0 ≤ 4 * Kernel.det a b c := by omega
      exact Int.mul_nonpos_of_nonneg_of_nonpos h4d hle'
    omega
  · rw [hz] at key; simp at key; omega
  · have h0 : 4 * Kernel.det a b c * inCircleDet a b c d = 0 := by omega
    rcases Int.mul_eq_zero.mp h0 with h1 | h1
    · omega
    · exact h1
  · have hpos : 0 < 4 * Kernel.det a b c * (- inCircleDet a b c d) := by
      have : 0 < - inCircleDet a b c d := by omega
      positivity
    have : 4 * Kernel.det a b c * (- inCircleDet a b c d) = - (4 * Kernel.det a b c * inCircleDet a b c d) := by ring
    omega
  · have h4 : 4 * Kernel.det a b c * inCircleDet a b c d < 0 := by omega
    by_contra hge
    have hge' : 0 ≤ inCircleDet a b c d := by omega
    have : 0 ≤ 4 * Kernel.det a b c * inCircleDet a b c d := Int.mul_nonneg (by omega) hge'
    omega

/-- the centre used by `circDist` is equidistant from the three corners -/
theorem circumcentre_equidistant (a b c : Pt) :
    circDist a b c b = circDist a b c a ∧ circDist a b c c = circDist a b c a :=
  ⟨circDist_b a b c, circDist_c a b c⟩

/-- **the loops cover everything.**  If both Boolean checkers answer `true`, every clause of the
specification holds for all triangles, all pairs and all sites. -/
theorem checker_sound (sites : List Pt) (tris : List Tri)
    (h : (isTriangulationOf sites tris && isDelaunay sites tris) = true) :
    IsTriangulation sites tris ∧ IsDelaunay sites tris := by
  simp only [Bool.and_eq_true] at h
  exact ⟨isTriangulationOf_sound _ _ h.1, isDelaunay_sound _ _ h.2⟩

/-- accepted output ⇒ no site lies strictly inside the circumcircle of any triangle (distance form) -/
theorem delaunay_empty_circumcircles (sites : List Pt) (tris : List Tri)
    (h : (isTriangulationOf sites tris && isDelaunay sites tris) = true) :
    ∀ t ∈ tris, ∀ s ∈ sites, ¬ circDist t.ccw.a t.ccw.b t.ccw.c s < circDist t.ccw.a t.ccw.b t.ccw.c t.ccw.a := by
  obtain ⟨ht, hd⟩ := checker_sound sites tris h
  intro t htm s hs hlt
  have hpos : 0 < Kernel.det t.ccw.a t.ccw.b t.ccw.c := ht.positively_oriented t.ccw (List.mem_map.mpr ⟨t, htm, rfl⟩)
  have := ((inCircle_sign t.ccw.a t.ccw.b t.ccw.c s hpos).1).mpr hlt
  have := hd t htm s hs
  omega

/-- constrained triangulation: accepted output satisfies every clause of `IsCDT`, and (second checker) the
constrained-Delaunay condition on every shared edge -/
theorem cdt_checker_sound (rings : List (List Pt)) (tris : List Tri)
    (h : (isCDTOf rings tris && isConstrainedDelaunay tris) = true) :
    IsCDT rings tris ∧ IsLocallyDelaunay (tris.map Tri.ccw) := by
  simp only [Bool.and_eq_true] at h
  exact ⟨isCDTOf_sound _ _ h.1, locallyDelaunay_sound _ h.2⟩

/-- Voronoi (PARTIAL by nature: cell vertices are computed doubles, every metric clause carries the slack
`1e-9·M`): accepted output satisfies every clause of `VoronoiCert` for all cells, vertices and sites -/
theorem voronoi_checker_sound (sites : List Pt) (env : Box) (cells : List (Pt × List Pt))
    (h : voronoiOK sites env cells = true) : VoronoiCert sites env cells :=
  voronoiOK_sound sites env cells h

/-- **edge pairing ⇒ area.**  Equality of the elementary boundary chains alone forces the doubled triangle
areas to add up to the shoelace sum of the boundary; for the hull / polygon boundary that is its doubled area. -/
theorem edge_pairing_area (V : List Pt) (ts : List Tri) (B : List Edge)
    (h : chainEq (elemEdges V (triEdges ts)) (elemEdges V B) = true) :
    sumInt (ts.map Tri.det) = sumInt (B.map cross) :=
  chainEq_area V ts B h

/-- the shoelace sum of a closed ring's edges is `Kernel.area2` -/
theorem ring_area_as_chain (ring : List Pt) : area2 ring = sumInt ((Kernel.edges ring).map cross) :=
  area2_eq_sum ring

/-- a point strictly inside a counter-clockwise triangle -/
def StrictlyIn (t : Tri) (p : Pt) : Prop :=
  0 < Kernel.det t.a t.b p ∧ 0 < Kernel.det t.b t.c p ∧ 0 < Kernel.det t.c t.a p
/-- a point in the closed counter-clockwise triangle -/
def InClosed (t : Tri) (p : Pt) : Prop :=
  0 ≤ Kernel.det t.a t.b p ∧ 0 ≤ Kernel.det t.b t.c p ∧ 0 ≤ Kernel.det t.c t.a p

/-- the full covering statement (NOT proved): under the tiling certificate against the hull boundary, a site-
free formulation — every point of the closed hull is in some closed triangle, and every point strictly inside
a triangle is in the closed hull -/
def C16_cover_full : Prop :=
  ∀ (sites : List Pt) (tris : List Tri), isTriangulationOf sites tris = true → 3 ≤ (hull sites).length →
    (∀ p : Pt, (∀ e ∈ loopEdges (hull sites), 0 ≤ Kernel.det e.1 e.2 p) → ∃ t ∈ tris.map Tri.ccw, InClosed t p) ∧
    (∀ p : Pt, ∀ t ∈ tris.map Tri.ccw, StrictlyIn t p → ∀ e ∈ loopEdges (hull sites), 0 ≤ Kernel.det e.1 e.2 p)

/-- separated counter-clockwise triangles have no common strictly interior point -/
theorem separated_no_common_interior (t u : Tri) (ht : 0 < t.det) (hu : 0 < u.det) (h : Separated t u) (p : Pt) :
    ¬ (StrictlyIn t p ∧ StrictlyIn u p) := by
  -- p strictly inside u is a strict convex combination of u's corners: det(e, p)·det u = Σ λ_i det(e, corner_i)
  have comb : ∀ (a b : Pt) (w : Tri), Kernel.det a b p * w.det =
      Kernel.det w.b w.c p * Kernel.det a b w.a + Kernel.det w.c w.a p * Kernel.det a b w.b +
      Kernel.det w.a w.b p * Kernel.det a b w.c := by
    intro a b w; simp only [Kernel.det, Tri.det]; ring
  have main : ∀ (v w : Tri), 0 < w.det → SepBy v w → StrictlyIn v p → StrictlyIn w p → False := by
    intro v w hw ⟨e, he, hall⟩ hv hwp
    have h1 := hall w.a (by simp [Tri.corners])
    have h2 := hall w.b (by simp [Tri.corners])
    have h3 := hall w.c (by simp [Tri.corners])
    have hc := comb e.1 e.2 w
    obtain ⟨w1, w2, w3⟩ := hwp
    have hpos : 0 < Kernel.det e.1 e.2 p := by
      simp only [Tri.edges, List.mem_cons, List.mem_nil_iff, or_false] at he
      rcases he with rfl | rfl | rfl
      · exact hv.1
      · exact hv.2.1
      · exact hv.2.2
    have hl : 0 < Kernel.det e.1 e.2 p * w.det := Int.mul_pos hpos hw
    have r1 : Kernel.det w.b w.c p * Kernel.det e.1 e.2 w.a ≤ 0 := Int.mul_nonpos_of_nonneg_of_nonpos (by omega) h1
    have r2 : Kernel.det w.c w.a p * Kernel.det e.1 e.2 w.b ≤ 0 := Int.mul_nonpos_of_nonneg_of_nonpos (by omega) h2
    have r3 : Kernel.det w.a w.b p * Kernel.det e.1 e.2 w.c ≤ 0 := Int.mul_nonpos_of_nonneg_of_nonpos (by omega) h3
    omega
  rintro ⟨hpt, hpu⟩
  rcases h with h | h
  · exact main t u hu h hpt hpu
  · exact main u t ht h hpu hpt

/-- **PARTIAL** (`C16_cover_full` is the full statement).  From an accepted certificate: the doubled areas add
up to the doubled hull area (by edge pairing alone, `edge_pairing_area`), all triangles are positively
oriented, and no point is strictly inside two different triangles of the list.  Missing for the full cover:
winding-number additivity over the cancelling chain (see the module comment). -/
theorem edge_pairing_area_cover_partial (sites : List Pt) (tris : List Tri)
    (h : isTriangulationOf sites tris = true) :
    sumInt ((tris.map Tri.ccw).map Tri.det) = sumInt ((loopEdges (hull sites)).map cross) ∧
    (∀ t ∈ tris.map Tri.ccw, 0 < t.det) ∧
    (tris.map Tri.ccw).Pairwise (fun t u => ∀ p, ¬ (StrictlyIn t p ∧ StrictlyIn u p)) := by
  have hs := isTriangulationOf_sound sites tris h
  refine ⟨?_, hs.positively_oriented, ?_⟩
  · apply edge_pairing_area sites
    simp only [chainEq, List.isEmpty_iff]
    exact hs.tiling.chain
  · have hd := hs.tiling.disjoint
    have hp := hs.positively_oriented
    generalize tris.map Tri.ccw = ts at hd hp
    induction hd with
    | nil => exact List.Pairwise.nil
    | cons hhead _ ih =>
      refine List.Pairwise.cons (fun u hu p => ?_) (ih (fun t ht => hp t (List.mem_cons_of_mem _ ht)))
      exact separated_no_common_interior _ u (hp _ (List.mem_cons_self)) (hp u (List.mem_cons_of_mem _ hu)) (hhead u hu) p

/-! ### non-vacuity -/

/-- five sites (a square and an interior point), four triangles: accepted -/
example : (isTriangulationOf [⟨0,0⟩, ⟨4,0⟩, ⟨4,4⟩, ⟨0,4⟩, ⟨2,1⟩]
    [⟨⟨0,0⟩,⟨4,0⟩,⟨2,1⟩⟩, ⟨⟨4,0⟩,⟨4,4⟩,⟨2,1⟩⟩, ⟨⟨4,4⟩,⟨0,4⟩,⟨2,1⟩⟩, ⟨⟨0,0⟩,⟨2,1⟩,⟨0,4⟩⟩] &&
  isDelaunay [⟨0,0⟩, ⟨4,0⟩, ⟨4,4⟩, ⟨0,4⟩, ⟨2,1⟩]
    [⟨⟨0,0⟩,⟨4,0⟩,⟨2,1⟩⟩, ⟨⟨4,0⟩,⟨4,4⟩,⟨2,1⟩⟩, ⟨⟨4,4⟩,⟨0,4⟩,⟨2,1⟩⟩, ⟨⟨0,0⟩,⟨2,1⟩,⟨0,4⟩⟩]) = true := by decide

/-- a valid triangulation of four sites with the wrong diagonal: tiling accepted, Delaunay rejected -/
example : isTriangulationOf [⟨0,0⟩, ⟨2,-1⟩, ⟨4,0⟩, ⟨2,1⟩] [⟨⟨0,0⟩,⟨4,0⟩,⟨2,1⟩⟩, ⟨⟨0,0⟩,⟨2,-1⟩,⟨4,0⟩⟩] = true ∧
    isDelaunay [⟨0,0⟩, ⟨2,-1⟩, ⟨4,0⟩, ⟨2,1⟩] [⟨⟨0,0⟩,⟨4,0⟩,⟨2,1⟩⟩, ⟨⟨0,0⟩,⟨2,-1⟩,⟨4,0⟩⟩] = false := by decide

/-- the other diagonal is accepted by both -/
example : (isTriangulationOf [⟨0,0⟩, ⟨2,-1⟩, ⟨4,0⟩, ⟨2,1⟩] [⟨⟨0,0⟩,⟨2,-1⟩,⟨2,1⟩⟩, ⟨⟨2,-1⟩,⟨4,0⟩,⟨2,1⟩⟩] &&
    isDelaunay [⟨0,0⟩, ⟨2,-1⟩, ⟨4,0⟩, ⟨2,1⟩] [⟨⟨0,0⟩,⟨2,-1⟩,⟨2,1⟩⟩, ⟨⟨2,-1⟩,⟨4,0⟩,⟨2,1⟩⟩]) = true := by decide

/-- cocircular sites (a square): both diagonals are accepted (strict in-circle test) -/
example : (isDelaunay [⟨0,0⟩, ⟨1,0⟩, ⟨1,1⟩, ⟨0,1⟩] [⟨⟨0,0⟩,⟨1,0⟩,⟨1,1⟩⟩, ⟨⟨0,0⟩,⟨1,1⟩,⟨0,1⟩⟩] &&
    isDelaunay [⟨0,0⟩, ⟨1,0⟩, ⟨1,1⟩, ⟨0,1⟩] [⟨⟨0,0⟩,⟨1,0⟩,⟨0,1⟩⟩, ⟨⟨1,0⟩,⟨1,1⟩,⟨0,1⟩⟩]) = true := by decide

/-- a missing triangle (hole in the cover), an overlapping pair, and a hull edge left unpaired are rejected -/
example : isTriangulationOf [⟨0,0⟩, ⟨4,0⟩, ⟨4,4⟩, ⟨0,4⟩, ⟨2,1⟩]
    [⟨⟨0,0⟩,⟨4,0⟩,⟨2,1⟩⟩, ⟨⟨4,0⟩,⟨4,4⟩,⟨2,1⟩⟩, ⟨⟨4,4⟩,⟨0,4⟩,⟨2,1⟩⟩] = false := by decide
example : isTriangulationOf [⟨0,0⟩, ⟨4,0⟩, ⟨4,4⟩, ⟨0,4⟩]
    [⟨⟨0,0⟩,⟨4,0⟩,⟨4,4⟩⟩, ⟨⟨0,0⟩,⟨4,0⟩,⟨0,4⟩⟩] = false := by decide
/-- collinear hull point: the hull edge (0,0)-(4,0) is split at the site (2,0) and still pairs -/
example : isTriangulationOf [⟨0,0⟩, ⟨2,0⟩, ⟨4,0⟩, ⟨2,3⟩] [⟨⟨0,0⟩,⟨2,0⟩,⟨2,3⟩⟩, ⟨⟨2,0⟩,⟨4,0⟩,⟨2,3⟩⟩] = true := by decide
/-- … but one big triangle that ignores the collinear site is rejected (site is not a corner) -/
example : isTriangulationOf [⟨0,0⟩, ⟨2,0⟩, ⟨4,0⟩, ⟨2,3⟩] [⟨⟨0,0⟩,⟨4,0⟩,⟨2,3⟩⟩] = false := by decide

/-- constrained: an L-shaped polygon, accepted; the same triangles for the bounding square, rejected -/
example : (isCDTOf [[⟨0,0⟩,⟨2,0⟩,⟨2,1⟩,⟨1,1⟩,⟨1,2⟩,⟨0,2⟩,⟨0,0⟩]]
    [⟨⟨0,0⟩,⟨2,0⟩,⟨2,1⟩⟩, ⟨⟨0,0⟩,⟨2,1⟩,⟨1,1⟩⟩, ⟨⟨0,0⟩,⟨1,1⟩,⟨0,2⟩⟩, ⟨⟨1,1⟩,⟨1,2⟩,⟨0,2⟩⟩]) = true := by decide
example : (isCDTOf [[⟨0,0⟩,⟨2,0⟩,⟨2,2⟩,⟨0,2⟩,⟨0,0⟩]]
    [⟨⟨0,0⟩,⟨2,0⟩,⟨2,1⟩⟩, ⟨⟨0,0⟩,⟨2,1⟩,⟨1,1⟩⟩, ⟨⟨0,0⟩,⟨1,1⟩,⟨0,2⟩⟩, ⟨⟨1,1⟩,⟨1,2⟩,⟨0,2⟩⟩]) = false := by decide

/-- `inCircle_sign` is not vacuous: (1,1) is strictly inside the circle through (0,0),(4,0),(0,4) -/
example : 0 < Kernel.det ⟨0,0⟩ ⟨4,0⟩ ⟨0,4⟩ ∧ 0 < inCircleDet ⟨0,0⟩ ⟨4,0⟩ ⟨0,4⟩ ⟨1,1⟩ ∧
    circDist ⟨0,0⟩ ⟨4,0⟩ ⟨0,4⟩ ⟨1,1⟩ < circDist ⟨0,0⟩ ⟨4,0⟩ ⟨0,4⟩ ⟨0,0⟩ := by decide

end GeosModel.Tri
