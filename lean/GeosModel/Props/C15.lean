import GeosModel.Proofs.Index.STRBuild
import GeosModel.Proofs.Index.STRCapOne
import GeosModel.Proofs.EnvLemmas
import GeosModel.Model.Index.Rep
import GeosModel.Proofs.Index.Quad
/-!
# C15 — spatial index queries return exactly the matching items after any history

Property theorems for the model of `TemplateSTRtree` (Model/Index/STR.lean).  The abstract
specification is the multiset of *live entries* (`List (Entry β ι)` up to permutation); every operation
of the tree is shown to refine the obvious operation on that multiset, and `history_refines` lifts this
to every legal history (no insert after build) by induction over the operation list.

Hypotheses are exactly:
* `CfgOK`: the bounds type satisfies `inter a q → inter (a ∪ b) q` (both sides) — proved for the
  model of `geom::Envelope` in `env_law` below — and the two sorts return permutations (true of
  `std::sort` whatever it does on ties);
* node capacity ≥ 2 (`Tree.WF.cap`).  For capacity 1 the model's `build` does not reach a single root
  (`build_capacity_one_makes_no_progress`: every level has as many nodes as the one below, for any fuel — the C++ loop
  does not terminate; found on the real code by the C12 sequences and repaired: `GEOSSTRtree_create_r` refuses a capacity
  below 2 since 6546757fa); capacity 0 is meaningless.  The quantifier of the property is 2..32.
-/
namespace GeosModel.STR
variable {β ι : Type}

structure CfgOK (c : Cfg β ι) : Prop where
  law : OpsLaw c.ops
  sortX : ∀ l, (c.sortX l).Perm l
  sortY : ∀ l, (c.sortY l).Perm l

/-- representation invariant of the tree object -/
structure Tree.WF (c : Cfg β ι) (t : Tree β ι) : Prop where
  cap : 2 ≤ t.cap
  unbuilt : t.built = false → t.root = none ∧ ∀ e ∈ t.pending, e.deleted = false
  builtRoot : t.built = true → ∃ r, t.root = some r ∧ r.Covers c.ops

theorem leavesL_map_leaf (es : List (Entry β ι)) : leavesL (es.map Node.leaf) = es := by
  induction es with
  | nil => simp [leavesL]
  | cons e es ih => simp [leavesL, Node.leaves, ih]

theorem filter_live_of_all_live (es : List (Entry β ι)) (h : ∀ e ∈ es, e.deleted = false) :
    es.filter (fun e => !e.deleted) = es := by
  apply List.filter_eq_self.mpr
  intro e he; simp [h e he]

theorem empty_wf (c : Cfg β ι) (cap : Nat) (h : 2 ≤ cap) : (Tree.empty cap : Tree β ι).WF c :=
  ⟨h, fun _ => ⟨rfl, by simp [Tree.empty]⟩, fun hb => by simp [Tree.empty] at hb⟩

theorem empty_live (cap : Nat) : (Tree.empty cap : Tree β ι).live = [] := by
  simp [Tree.empty, Tree.live]

/-- **insert** (before build): appends one live entry, null envelopes are ignored -/
theorem insert_spec (c : Cfg β ι) (t : Tree β ι) (b : β) (i : ι) (hw : t.WF c) (hb : t.built = false) :
    (t.insert c b i).WF c ∧ (t.insert c b i).built = false ∧
    (t.insert c b i).live = if c.isNull b then t.live else t.live ++ [⟨b, i, false⟩] := by
  unfold Tree.insert
  by_cases hn : c.isNull b = true
  · rw [if_pos hn]; exact ⟨hw, hb, by simp [hn]⟩
  · rw [if_neg hn]
    refine ⟨⟨hw.cap, fun _ => ⟨(hw.unbuilt hb).1, ?_⟩, fun h => by simp [hb] at h⟩, hb, ?_⟩
    · intro e he
      simp only [List.mem_append, List.mem_singleton] at he
      rcases he with he | rfl
      · exact (hw.unbuilt hb).2 e he
      · rfl
    · have hn' : c.isNull b = false := by simpa using hn
      simp [Tree.live, hb, List.filter_append, hn']

/-- **the hypothesis `2 ≤ cap` is necessary**: with node capacity 1 the packing loop of `build()` keeps the number of
parentless nodes unchanged at every level, whatever the number of iterations — two or more items never get a root -/
theorem build_capacity_one_makes_no_progress (c : Cfg β ι) (ok : CfgOK c) (fuel : Nat) (es : List (Entry β ι)) :
    (buildLoop c.ops 1 c.sortX c.sortY fuel (es.map Node.leaf)).length = es.length := by
  rw [buildLoop_one_length c.ops c.sortX c.sortY ok.sortX ok.sortY]; simp

/-- the root produced by `build()` holds every pending entry exactly once and covers them -/
theorem buildRoot_spec (c : Cfg β ι) (ok : CfgOK c) (cap : Nat) (hc : 2 ≤ cap) (es : List (Entry β ι))
    (hne : es ≠ []) :
    ∃ r, buildRoot c.ops cap c.sortX c.sortY es = some r ∧ r.Covers c.ops ∧ r.leaves.Perm es := by
  unfold buildRoot
  have hne' : es.map (Node.leaf (β := β) (ι := ι)) ≠ [] := by simpa using hne
  have h1 := buildLoop_single c.ops cap hc c.sortX c.sortY ok.sortX ok.sortY es.length
    (es.map Node.leaf) hne' (by simp)
  have h2 := buildLoop_leaves c.ops cap (by omega) c.sortX c.sortY ok.sortX ok.sortY es.length (es.map Node.leaf)
  have h3 := buildLoop_covers c.ops ok.law cap c.sortX c.sortY ok.sortX ok.sortY es.length (es.map Node.leaf)
    (by intro k hk; simp only [List.mem_map] at hk; obtain ⟨e, _, rfl⟩ := hk; trivial)
  match hl : buildLoop c.ops cap c.sortX c.sortY es.length (es.map Node.leaf), h1 with
  | [r], _ =>
    refine ⟨r, by simp, ?_, ?_⟩
    · exact h3 r (by rw [hl]; simp)
    · rw [hl, leavesL_map_leaf] at h2
      simpa [leavesL] using h2

/-- **build**: keeps the live multiset -/
theorem build_spec (c : Cfg β ι) (ok : CfgOK c) (t : Tree β ι) (hw : t.WF c) :
    (t.build c).WF c ∧ (t.build c).live.Perm t.live ∧ (t.built = true → t.build c = t) := by
  unfold Tree.build
  by_cases hb : t.built = true
  · simp [hb, hw]
  · have hb' : t.built = false := by simpa using hb
    simp only [hb', Bool.false_eq_true, if_false]
    by_cases he : t.pending.isEmpty = true
    · simp [he, hw]
    · simp only [he, if_false]
      have hne : t.pending ≠ [] := by simpa using he
      obtain ⟨r, hr, hcov, hperm⟩ := buildRoot_spec c ok t.cap hw.cap t.pending hne
      refine ⟨⟨hw.cap, fun h => by simp at h, fun _ => ⟨r, hr, hcov⟩⟩, ?_, fun h => by simp at h⟩
      simp only [Tree.live, hr, hb', Bool.false_eq_true, if_false, if_true]
      exact hperm.filter _

theorem built_live (c : Cfg β ι) (t : Tree β ι) (hw : t.WF c) (hb : t.built = true) :
    ∃ r, t.root = some r ∧ r.Covers c.ops ∧ t.live = r.leaves.filter (fun e => !e.deleted) := by
  obtain ⟨r, hr, hc⟩ := hw.builtRoot hb
  exact ⟨r, hr, hc, by simp [Tree.live, hb, hr]⟩

theorem unbuilt_after_build (c : Cfg β ι) (t : Tree β ι) (hw : t.WF c)
    (hb : (t.build c).built = false) : (t.build c).root = none ∧ (t.build c).live = [] ∧ t.live = [] := by
  unfold Tree.build at hb ⊢
  by_cases h1 : t.built = true
  · simp [h1] at hb
  · have h1' : t.built = false := by simpa using h1
    by_cases he : t.pending.isEmpty = true
    · have : t.pending = [] := by simpa using he
      simp [h1', he, (hw.unbuilt h1').1, Tree.live, this]
    · simp [h1', he] at hb

theorem filter_hit_eq (ops : Ops β) (q : β) (l : List (Entry β ι)) :
    l.filter (hit ops q) = (l.filter (fun e => !e.deleted)).filter (fun e => ops.inter e.b q) := by
  rw [List.filter_filter]
  congr 1
  funext e
  simp [hit, Bool.and_comm]

/-- **query**: visits exactly the live entries whose envelope intersects the query envelope, each once -/
theorem query_exact (c : Cfg β ι) (ok : CfgOK c) (t : Tree β ι) (hw : t.WF c) (q : β) :
    (t.query c q).1.WF c ∧ (t.query c q).1.live.Perm t.live ∧
    (t.query c q).2.Perm ((t.live.filter (fun e => c.ops.inter e.b q)).map (·.item)) := by
  obtain ⟨hw', hperm, _⟩ := build_spec c ok t hw
  refine ⟨hw', hperm, ?_⟩
  simp only [Tree.query]
  by_cases hb : (t.build c).built = true
  · obtain ⟨r, hr, hcov, hlive⟩ := built_live c _ hw' hb
    rw [hr, queryRoot_spec c.ops q r hcov, filter_hit_eq, ← hlive]
    exact ((hperm.filter _).map _)
  · have hb' : (t.build c).built = false := by simpa using hb
    obtain ⟨hr, _, hl⟩ := unbuilt_after_build c t hw hb'
    simp [hr, queryRoot, hl]

/-- **iterate**: visits exactly the live entries -/
theorem iterate_exact (t : Tree β ι) : t.iterate = t.live.map (·.item) := by
  simp [Tree.iterate, Tree.live]

/-! ### `items()`: the forward iterator (`Iterator::skipDeleted`, `operator++`, `operator*`, `operator!=`) -/

/-- after `skipDeleted()` the iterator never rests on a removed leaf: it is at the end or on a live leaf -/
theorem skipDeleted_rests_live : ∀ (l : List (Entry β ι)) (e : Entry β ι) (r : List (Entry β ι)),
    skipDeleted l = e :: r → e.deleted = false
  | [], e, r, h => by simp [skipDeleted] at h
  | x :: xs, e, r, h => by
    unfold skipDeleted at h
    by_cases hx : x.deleted = true
    · rw [if_pos hx] at h
      exact skipDeleted_rests_live xs e r h
    · rw [if_neg hx] at h
      simp only [List.cons.injEq] at h
      rw [← h.1]
      simpa using hx

/-- what `skipDeleted()` steps over holds no live leaf: the live leaves of the remaining range are those of the range -/
theorem skipDeleted_keeps_live : ∀ (l : List (Entry β ι)),
    (skipDeleted l).filter (fun e => !e.deleted) = l.filter (fun e => !e.deleted)
  | [] => rfl
  | x :: xs => by
    unfold skipDeleted
    by_cases hx : x.deleted = true
    · rw [if_pos hx, skipDeleted_keeps_live xs]
      simp [hx]
    · rw [if_neg hx]

/-- the range-for loop is `begin`, then `*it` / `++it` while `it != end` -/
theorem itemsLoop_step (f : Nat) (it : List (Entry β ι)) :
    itemsLoop (f + 1) it = match itDeref it with
      | none => []
      | some x => x :: itemsLoop f (itNext it) := by
  cases it <;> rfl

/-- the loop over `[begin, end)` yields exactly the items of the live leaves, in storage order, each once -/
theorem itemsLoop_exact : ∀ (l : List (Entry β ι)) (f : Nat), l.length ≤ f →
    itemsLoop f (itBegin l) = (l.filter (fun e => !e.deleted)).map (·.item)
  | [], f, _ => by cases f <;> rfl
  | x :: xs, f, hf => by
    unfold itBegin skipDeleted
    by_cases hx : x.deleted = true
    · rw [if_pos hx]
      have := itemsLoop_exact xs f (by simp at hf; omega)
      simp only [itBegin] at this
      rw [this]
      simp [hx]
    · rw [if_neg hx]
      cases f with
      | zero => simp at hf
      | succ f =>
        have := itemsLoop_exact xs f (by simp at hf; omega)
        simp only [itBegin] at this
        simp only [itemsLoop, this]
        simp [hx]

/-- **items()**: builds the tree and visits exactly the live entries -/
theorem items_exact (c : Cfg β ι) (t : Tree β ι) :
    (t.items c).1 = t.build c ∧ (t.items c).2 = (t.build c).live.map (·.item) := by
  refine ⟨rfl, ?_⟩
  simp only [Tree.items, Tree.live]
  by_cases hb : (t.build c).built = true
  · simp only [hb, if_true]
    exact itemsLoop_exact _ _ (Nat.le_refl _)
  · have hb' : (t.build c).built = false := by simpa using hb
    have hp : (t.build c).pending = [] := by
      unfold Tree.build at hb' ⊢
      by_cases h1 : t.built = true
      · simp [h1] at hb'
      · by_cases h2 : t.pending.isEmpty = true
        · simp only [h1, h2, if_true, if_false]
          simpa using h2
        · simp [h1, h2] at hb'
    simp [hb', hp, itBegin, skipDeleted, itemsLoop]

/-- non-vacuity: two adjacent removed leaves before a live one, and a removed last leaf -/
example : itemsLoop 4 (itBegin [(⟨(), 1, true⟩ : Entry Unit Nat), ⟨(), 2, true⟩, ⟨(), 3, false⟩, ⟨(), 4, true⟩]) = [3] := by decide

/-! ### remove -/

theorem markFirst_split (p : Entry β ι → Bool) :
    ∀ (l l' : List (Entry β ι)), markFirst p l = some l' →
      ∃ l1 e l2, l = l1 ++ e :: l2 ∧ l' = l1 ++ { e with deleted := true } :: l2 ∧ p e = true ∧
        ∀ x ∈ l1, p x = false
  | [], _, h => by simp [markFirst] at h
  | e :: es, l', h => by
    simp only [markFirst] at h
    by_cases hp : p e = true
    · simp only [hp, if_true, Option.some.injEq] at h
      exact ⟨[], e, es, rfl, by simp [← h], hp, by simp⟩
    · rw [if_neg hp] at h
      cases hm : markFirst p es with
      | none => simp [hm] at h
      | some es' =>
        simp only [hm, Option.map_some, Option.some.injEq] at h
        obtain ⟨l1, e0, l2, h1, h2, h3, h4⟩ := markFirst_split p es es' hm
        refine ⟨e :: l1, e0, l2, by simp [h1], by simp [← h, h2], h3, ?_⟩
        intro x hx
        simp only [List.mem_cons] at hx
        rcases hx with rfl | hx
        · simpa using hp
        · exact h4 x hx

variable [BEq ι]

/-- what a successful / failed removal means on the live multiset -/
def RemoveSpec (ops : Ops β) (q : β) (i : ι) (rootIsLeaf : Bool)
    (live : List (Entry β ι)) (ok : Bool) (live' : List (Entry β ι)) : Prop :=
  (ok = true ∧ ∃ l1 e l2, live = l1 ++ e :: l2 ∧ live' = l1 ++ l2 ∧ (e.item == i) = true ∧
      (rootIsLeaf = true ∨ ops.inter e.b q = true)) ∨
  (ok = false ∧ live' = live ∧
      ∀ e ∈ live, (e.item == i) = true → rootIsLeaf = false ∧ ops.inter e.b q = false)

theorem removeRoot_spec (ops : Ops β) (q : β) (i : ι) (r : Node β ι) (hc : r.Covers ops) :
    match removeRoot ops q i (some r) with
    | some r' => r'.Covers ops ∧
        RemoveSpec ops q i r.isLeaf (r.leaves.filter (fun e => !e.deleted)) true
          (r'.leaves.filter (fun e => !e.deleted))
    | none => RemoveSpec ops q i r.isLeaf (r.leaves.filter (fun e => !e.deleted)) false
          (r.leaves.filter (fun e => !e.deleted)) := by
  cases r with
  | leaf e =>
    simp only [removeRoot]
    by_cases hp : (!e.deleted && e.item == i) = true
    · simp only [hp, if_true]
      simp only [Bool.and_eq_true, Bool.not_eq_true'] at hp
      refine ⟨trivial, Or.inl ⟨rfl, [], e, [], ?_, ?_, hp.2, Or.inl rfl⟩⟩
      · simp [Node.leaves, hp.1]
      · simp [Node.leaves]
    · simp only [hp, if_false]
      refine Or.inr ⟨rfl, rfl, ?_⟩
      intro e' he' hi
      simp only [Node.leaves, List.filter_cons, List.filter_nil] at he'
      by_cases hd : e.deleted = true
      · simp [hd] at he'
      · simp only [hd] at he'
        simp at he'
        subst he'
        simp [hd, hi] at hp
  | branch b kk =>
    simp only [Node.Covers] at hc
    have hs := removeKids_spec ops q i kk hc.2
    simp only [removeRoot, Node.isLeaf, Node.leaves]
    cases hr : removeKids ops q i kk with
    | some kk' =>
      rw [hr] at hs
      simp only [Option.map_some] at hs
      obtain ⟨l1, e, l2, h1, h2, h3, h4⟩ := markFirst_split _ _ _ hs.symm
      simp only [rmHit, Bool.and_eq_true, Bool.not_eq_true'] at h3
      refine ⟨?_, Or.inl ⟨rfl, l1.filter (fun e => !e.deleted), e, l2.filter (fun e => !e.deleted), ?_, ?_, h3.2, Or.inr h3.1.1⟩⟩
      · simp only [Node.Covers]
        exact ⟨covers_of_same_bounds ops b _ _ (markFirst_bounds _ _ _ hs.symm) hc.1,
               removeKids_covers ops q i kk kk' hc.2 hr⟩
      · simp [h1, List.filter_append, h3.1.2]
      · simp [Node.leaves, h2, List.filter_append]
    | none =>
      rw [hr] at hs
      simp only [Option.map_none] at hs
      have hall := (markFirst_none_iff _ _).mp hs.symm
      refine Or.inr ⟨rfl, rfl, ?_⟩
      intro e he hi
      simp only [List.mem_filter, Bool.not_eq_true'] at he
      have := hall e he.1
      simp only [rmHit, he.2, hi, Bool.not_false, Bool.and_true] at this
      exact ⟨rfl, this⟩

/-- **remove**: succeeds iff some live entry holds an equal item under an envelope intersecting the
given one (a single-leaf tree does not look at the envelope); then exactly one such entry disappears and
nothing else changes.  In particular it succeeds for every live (envelope, item) pair whose envelope
intersects itself, and fails when no live entry holds the item. -/
theorem remove_exact (c : Cfg β ι) (ok : CfgOK c) (t : Tree β ι) (hw : t.WF c) (q : β) (i : ι) :
    (t.remove c q i).1.WF c ∧
    ∃ live0 leafRoot, live0.Perm t.live ∧
      RemoveSpec c.ops q i leafRoot live0 (t.remove c q i).2 (t.remove c q i).1.live := by
  obtain ⟨hw', hperm, _⟩ := build_spec c ok t hw
  simp only [Tree.remove]
  by_cases hb : (t.build c).built = true
  · obtain ⟨r, hr, hcov, hlive⟩ := built_live c _ hw' hb
    have hspec := removeRoot_spec c.ops q i r hcov
    rw [hr]
    cases hrem : removeRoot c.ops q i (some r) with
    | some r' =>
      rw [hrem] at hspec
      refine ⟨⟨hw'.cap, fun h => by simp [hb] at h, fun _ => ⟨r', rfl, hspec.1⟩⟩, (t.build c).live, r.isLeaf, ?_, ?_⟩
      · exact hperm
      · rw [hlive]; simpa [Tree.live, hb] using hspec.2
    | none =>
      rw [hrem] at hspec
      refine ⟨hw', (t.build c).live, r.isLeaf, ?_, ?_⟩
      · exact hperm
      · simpa [hlive] using hspec
  · have hb' : (t.build c).built = false := by simpa using hb
    obtain ⟨hr, hl, hl0⟩ := unbuilt_after_build c t hw hb'
    rw [hr]
    simp only [removeRoot]
    exact ⟨hw', [], false, by rw [hl0], Or.inr ⟨rfl, by simp [hl], by simp⟩⟩

/-! ### every legal history -/

inductive Op (β ι : Type) where
  | insert (b : β) (i : ι)
  | build
  | query (q : β)
  | remove (q : β) (i : ι)
  | iterate
  | items

inductive Out (ι : Type) where
  | unit
  | items (l : List ι)
  | bool (b : Bool)
deriving DecidableEq, Repr

def step (c : Cfg β ι) (t : Tree β ι) : Op β ι → Tree β ι × Out ι
  | .insert b i => (t.insert c b i, .unit)
  | .build => (t.build c, .unit)
  | .query q => let r := t.query c q; (r.1, .items r.2)
  | .remove q i => let r := t.remove c q i; (r.1, .bool r.2)
  | .iterate => (t, .items t.iterate)
  | .items => let r := t.items c; (r.1, .items r.2)

/-- the documented rule: no insert once the tree has been built (queries and removals build it) -/
def legal (t : Tree β ι) : Op β ι → Bool
  | .insert _ _ => !t.built
  | _ => true

/-- the abstract specification: one step on the multiset of live entries -/
def SpecStep (c : Cfg β ι) (live : List (Entry β ι)) : Op β ι → Out ι → List (Entry β ι) → Prop
  | .insert b i, out, live' => out = .unit ∧ live' = if c.isNull b then live else live ++ [⟨b, i, false⟩]
  | .build, out, live' => out = .unit ∧ live' = live
  | .query q, out, live' => live' = live ∧
      ∃ l, out = .items l ∧ l.Perm ((live.filter (fun e => c.ops.inter e.b q)).map (·.item))
  | .iterate, out, live' => live' = live ∧ ∃ l, out = .items l ∧ l.Perm (live.map (·.item))
  | .items, out, live' => live' = live ∧ ∃ l, out = .items l ∧ l.Perm (live.map (·.item))
  | .remove q i, out, live' => ∃ okb live0 leafRoot, out = .bool okb ∧ live0.Perm live ∧
      ∃ live0', RemoveSpec c.ops q i leafRoot live0 okb live0' ∧ live'.Perm live0'

/-- simulation relation between the tree object and the specification state -/
def Sim (c : Cfg β ι) (t : Tree β ι) (live : List (Entry β ι)) : Prop := t.WF c ∧ t.live.Perm live

theorem step_refines (c : Cfg β ι) (ok : CfgOK c) (t : Tree β ι) (live : List (Entry β ι))
    (hs : Sim c t live) (op : Op β ι) (hl : legal t op = true) :
    ∃ live', SpecStep c live op (step c t op).2 live' ∧ Sim c (step c t op).1 live' := by
  obtain ⟨hw, hp⟩ := hs
  cases op with
  | insert b i =>
    have hb : t.built = false := by simpa [legal] using hl
    obtain ⟨h1, _, h3⟩ := insert_spec c t b i hw hb
    refine ⟨_, ⟨rfl, rfl⟩, h1, ?_⟩
    simp only [step, h3]
    split
    · exact hp
    · exact hp.append_right _
  | build =>
    obtain ⟨h1, h2, _⟩ := build_spec c ok t hw
    exact ⟨live, ⟨rfl, rfl⟩, h1, h2.trans hp⟩
  | query q =>
    obtain ⟨h1, h2, h3⟩ := query_exact c ok t hw q
    refine ⟨live, ⟨rfl, _, rfl, ?_⟩, h1, h2.trans hp⟩
    exact h3.trans ((hp.filter _).map _)
  | iterate =>
    refine ⟨live, ⟨rfl, _, rfl, ?_⟩, hw, hp⟩
    simp only [step, iterate_exact]
    exact hp.map _
  | items =>
    obtain ⟨h1, h2, _⟩ := build_spec c ok t hw
    refine ⟨live, ⟨rfl, _, rfl, ?_⟩, h1, h2.trans hp⟩
    simp only [step, (items_exact c t).2]
    exact (h2.trans hp).map _
  | remove q i =>
    obtain ⟨h1, live0, lr, h2, h3⟩ := remove_exact c ok t hw q i
    exact ⟨_, ⟨_, live0, lr, rfl, h2.trans hp, _, h3, List.Perm.refl _⟩, h1, List.Perm.refl _⟩

/-- run a history on the tree, collecting outputs; `none` if it breaks the no-insert-after-build rule -/
def run (c : Cfg β ι) : Tree β ι → List (Op β ι) → Option (Tree β ι × List (Out ι))
  | t, [] => some (t, [])
  | t, op :: ops =>
    if legal t op then
      match run c (step c t op).1 ops with
      | some (t', outs) => some (t', (step c t op).2 :: outs)
      | none => none
    else none

/-- a history of the specification with the given outputs -/
inductive SpecRun (c : Cfg β ι) : List (Entry β ι) → List (Op β ι) → List (Out ι) → List (Entry β ι) → Prop
  | nil (live) : SpecRun c live [] [] live
  | cons {live op out live' ops outs live''} :
      SpecStep c live op out live' → SpecRun c live' ops outs live'' → SpecRun c live (op :: ops) (out :: outs) live''

/-- **C15, main theorem.**  For every capacity ≥ 2 and every legal history of insert / build / query /
remove / iterate operations starting from the empty tree, the outputs produced by the tree are outputs
the live-multiset specification allows: every query returns exactly (as a multiset) the live items
whose envelope intersects the query envelope, iteration returns exactly the live items, and removal
succeeds exactly when a matching live entry exists, removing one. -/
theorem history_refines (c : Cfg β ι) (ok : CfgOK c) :
    ∀ (ops : List (Op β ι)) (t : Tree β ι) (live : List (Entry β ι)), Sim c t live →
      ∀ t' outs, run c t ops = some (t', outs) → ∃ live', SpecRun c live ops outs live' ∧ Sim c t' live'
  | [], t, live, hs, t', outs, h => by
    simp only [run, Option.some.injEq, Prod.mk.injEq] at h
    obtain ⟨rfl, rfl⟩ := h
    exact ⟨live, .nil live, hs⟩
  | op :: ops, t, live, hs, t', outs, h => by
    simp only [run] at h
    by_cases hl : legal t op = true
    · simp only [hl, if_true] at h
      obtain ⟨live1, hstep, hsim⟩ := step_refines c ok t live hs op hl
      cases hr : run c (step c t op).1 ops with
      | none => simp [hr] at h
      | some p =>
        obtain ⟨t1, outs1⟩ := p
        simp only [hr, Option.some.injEq, Prod.mk.injEq] at h
        obtain ⟨rfl, rfl⟩ := h
        obtain ⟨live', hrun, hsim'⟩ := history_refines c ok ops _ live1 hsim t1 outs1 hr
        exact ⟨live', .cons hstep hrun, hsim'⟩
    · simp [hl] at h

theorem history_from_empty (c : Cfg β ι) (ok : CfgOK c) (cap : Nat) (hc : 2 ≤ cap)
    (ops : List (Op β ι)) (t' : Tree β ι) (outs : List (Out ι))
    (h : run c (Tree.empty cap) ops = some (t', outs)) :
    ∃ live', SpecRun c [] ops outs live' ∧ Sim c t' live' :=
  history_refines c ok ops _ [] ⟨empty_wf c cap hc, by rw [empty_live]⟩ t' outs h

/-! ### the `geom::Envelope` instance satisfies the hypothesis -/

def envOps : Ops Env := { inter := Env.inter, union := Env.union }

theorem env_law : OpsLaw envOps :=
  ⟨Env.inter_union_left, Env.inter_union_right⟩

/-- the defect F13 (fixed in /repo by a `fix:` commit): before the fix a one-item tree still reported its
item after it had been removed — the unfixed `query` violates the specification on this history. -/
theorem unfixed_query_visits_removed :
    ∃ (r : Node Env Nat) (q : Env), r.Covers envOps ∧
      queryRootUnfixed envOps q (some r) ≠ ((r.leaves.filter (hit envOps q)).map (·.item)) := by
  refine ⟨.leaf ⟨some ⟨0, 1, 0, 1⟩, 7, true⟩, some ⟨0, 1, 0, 1⟩, trivial, ?_⟩
  decide

/-! ### the C++ representations used by the translator tie (Model/Index/Rep.lean) lose nothing

`Props/C15Gen.lean` proves the functions regenerated from `Envelope.h` / `TemplateSTRNode.h` equal to the model *through*
`Rep.rep` (envelope = four doubles, null = all NaN) and `Rep.childrenOf` (node kind = `children` pointer: `nullptr` live
leaf, `this` deleted leaf, else composite).  These theorems say the representations are faithful, so that equality
through them is equality of behaviour. -/

/-- distinct envelopes of the model are distinct C++ objects; only the null envelope has a NaN `maxx` -/
theorem rep_faithful (a b : Env) :
    (Rep.rep a = Rep.rep b → a = b) ∧ (Rep.isnan (Rep.rep a).maxx = true ↔ a = none) := by
  constructor
  · intro h
    have h1 := congrArg Rep.CEnv.minx h
    have h2 := congrArg Rep.CEnv.maxx h
    have h3 := congrArg Rep.CEnv.miny h
    have h4 := congrArg Rep.CEnv.maxy h
    cases a with
    | none => cases b with
      | none => rfl
      | some y => exact absurd h1 (by intro h'; cases h')
    | some x => cases b with
      | none => exact absurd h1 (by intro h'; cases h')
      | some y =>
        obtain ⟨x1, x2, x3, x4⟩ := x
        obtain ⟨y1, y2, y3, y4⟩ := y
        simp only [Rep.rep, Rep.NK.ofKey] at h1 h2 h3 h4
        cases h1; cases h2; cases h3; cases h4
        rfl
  · cases a <;> simp [Rep.rep]

omit [BEq ι] in
/-- the three values of `children` (`nullptr`, `this`, other) tell live leaf, deleted leaf and composite node apart -/
theorem children_encoding_faithful (self first : Nat) (h : first ≠ self) (n : Node β ι) :
    (Rep.childrenOf self first n = none ↔ (n.isLeaf = true ∧ Rep.isDeletedLeaf n = false)) ∧
    (Rep.childrenOf self first n = some self ↔ (n.isLeaf = true ∧ Rep.isDeletedLeaf n = true)) ∧
    (Rep.childrenOf self first n = some first ∧ first ≠ self ↔ n.isLeaf = false) := by
  cases n with
  | leaf e =>
    cases hd : e.deleted <;> simp [Rep.childrenOf, Rep.isDeletedLeaf, Node.isLeaf, hd]
    intro h2; exact h2.symm
  | branch b ks => simp [Rep.childrenOf, Rep.isDeletedLeaf, Node.isLeaf, h]

/-- what `remove` does to the leaf it finds is exactly `Rep.markDeleted` (the model of `removeItem()`), which keeps the
node a leaf with the same bounds and takes its item out of the live entries -/
theorem removeNode_leaf_marks (ops : Ops β) (q : β) (i : ι) (e : Entry β ι) :
    removeNode ops q i (.leaf e) =
      (if (ops.inter e.b q && !e.deleted && e.item == i) = true then some (Rep.markDeleted (.leaf e)) else none) ∧
    (Rep.markDeleted (Node.leaf e)).isLeaf = true ∧ (Rep.markDeleted (Node.leaf e)).bounds = e.b ∧
    (Rep.markDeleted (Node.leaf e)).leaves.filter (fun x => !x.deleted) = [] := by
  simp [removeNode, Rep.markDeleted, Node.isLeaf, Node.bounds, Node.leaves]

/-! ### non-vacuity: a concrete configuration satisfies every hypothesis, and a concrete history runs -/

example : Rep.childrenOf 5 2 (Node.leaf (⟨(), 7, false⟩ : Entry Unit Nat)) = none ∧
    Rep.childrenOf 5 2 (Node.leaf (⟨(), 7, true⟩ : Entry Unit Nat)) = some 5 ∧
    Rep.childrenOf 5 2 (Node.branch () ([] : List (Node Unit Nat))) = some 2 := by decide


def demoCfg : Cfg Env Nat :=
  { ops := envOps, isNull := Env.isNull, sortX := id, sortY := id }

theorem demoCfg_ok : CfgOK demoCfg := ⟨env_law, fun _ => List.Perm.refl _, fun _ => List.Perm.refl _⟩

example : ∃ t' outs, run demoCfg (Tree.empty 2)
    [.insert (some ⟨0, 1, 0, 1⟩) 1, .insert (some ⟨2, 3, 2, 3⟩) 2, .insert (some ⟨1, 2, 1, 2⟩) 3,
     .insert none 4, .query (some ⟨1, 1, 1, 1⟩), .remove (some ⟨0, 1, 0, 1⟩) 1,
     .query (some ⟨1, 1, 1, 1⟩), .iterate] = some (t', outs) ∧
    outs = [.unit, .unit, .unit, .unit, .items [1, 3], .bool true, .items [3], .items [2, 3]] := by
  refine ⟨_, _, rfl, ?_⟩
  decide

end GeosModel.STR

/-! ## The quadtree (`index::quadtree::NodeBase / Node / Root / Quadtree`, model Model/Index/Quad.lean)

The property asks of the quadtree that it *never misses* a matching item (it may return more).  Proved here, for every
tree of the model (whatever sequence of operations built it), every envelope and every item type with decidable
equality: what `remove` prunes holds nothing; `remove` takes out exactly one occurrence of the item or changes
nothing; no removal changes how often any *other* item is returned by any query — in particular a removal never
makes a query miss an item it returned before; an item returned by the query with an envelope is found by `remove`
with that envelope; queries return only stored items; `size()` is the number of stored items; and the index
returned by `getSubnodeIndex` names a closed quadrant containing the envelope, so that the subquad `createSubnode`
makes for it contains the envelope.  That `Root::insert` places an item where every query intersecting its envelope
reaches it is NOT proved (it needs the alignment arithmetic of `Key`); insertion is tied to the code by the exact
correspondence stream `quadnode` and checked against the brute-force filter by stream `otheridx`. -/
namespace GeosModel.Quad
variable {ι : Type}

/-- a subtree that `NodeBase::remove` deletes because `isPrunable()` holds contains no item and answers no query -/
theorem quad_prunable_empty (t : QT ι) (h : t.isPrunable = true) : t.allItems = [] ∧ ∀ q, t.query q = [] :=
  ⟨prunable_allItems t h, fun q => prunable_query t q h⟩

/-- queries (`addAllItemsFromOverlapping`, `visit`) return only stored items, each at most as often as stored -/
theorem quad_query_only_stored (t : QT ι) (q : Env) : (t.query q).Sublist t.allItems := query_sublist q t

/-- `size()` counts exactly the stored items (`queryAll()`) -/
theorem quad_size_exact (t : QT ι) : t.size = t.allItems.length := size_eq t

/-- `remove`: a failed removal leaves the tree unchanged; a successful one takes exactly one occurrence of the item
out of the stored items and nothing else (pruning loses nothing) -/
theorem quad_remove_exact [DecidableEq ι] (t : QT ι) (q : Env) (i : ι) :
    ((t.remove q i).2 = false → (t.remove q i).1 = t) ∧
    ((t.remove q i).2 = true → (i :: (t.remove q i).1.allItems).Perm t.allItems) := remove_spec q i t

/-- removing `i` does not change how often any other item is returned by any query -/
theorem quad_remove_keeps_others [DecidableEq ι] (t : QT ι) (q q' : Env) (i j : ι) (hj : j ≠ i) :
    ((t.remove q i).1.query q').count j = (t.query q').count j := remove_query_count q i q' j hj t

/-- in particular: a removal never makes a query miss another item that it found before -/
theorem quad_remove_never_loses [DecidableEq ι] (t : QT ι) (q q' : Env) (i j : ι) (hj : j ≠ i)
    (h : j ∈ t.query q') : j ∈ (t.remove q i).1.query q' := by
  have := quad_remove_keeps_others t q q' i j hj
  exact List.count_pos_iff.mp (by rw [this]; exact List.count_pos_iff.mpr h)

/-- an item that the query with envelope `q` returns is found (and removed) by `remove` with that envelope -/
theorem quad_remove_finds [DecidableEq ι] (t : QT ι) (q : Env) (i : ι) (h : i ∈ t.query q) :
    (t.remove q i).2 = true := remove_finds q i t h

/-- `getSubnodeIndex`: the index names a closed quadrant (relative to the centre) that contains the envelope -/
theorem quad_subnodeIndex_sound (e : Box) (cx cy : Int) (k : Nat) (h : subnodeIndex e cx cy = some k) :
    InQuadrant e cx cy k := subnodeIndex_sound e cx cy k h

/-- `getSubnodeIndex` returns -1 exactly when the envelope straddles the centre in x or in y -/
theorem quad_subnodeIndex_none (e : Box) (cx cy : Int) :
    subnodeIndex e cx cy = none ↔ ¬ ((e.minx ≥ cx ∨ e.maxx ≤ cx) ∧ (e.miny ≥ cy ∨ e.maxy ≤ cy)) :=
  subnodeIndex_none e cx cy

/-- `createSubnode(getSubnodeIndex(env, centre))` of a quad containing `env` contains `env` -/
theorem quad_subBox_covers (b e : Box) (k : Nat) (hc : Env.covers (some b) (some e) = true)
    (hk : subnodeIndex e (centre b).1 (centre b).2 = some k) :
    Env.covers (some (subBox b k)) (some e) = true := subBox_covers b e k hc hk

/-- non-vacuity (ordinates scaled by 4): `[1,7]²` is stored in the quad `[0,8]²`, `[5,6]²` below its upper-right
subquad; after removing the first (the quad keeps no own item and only its upper-right child) the second is
still found, and the removal of the first was a success -/
example :
    (do let r1 ← treeInsert 2 (emptyRoot : QT Nat) ⟨4, 28, 4, 28⟩ 1
        let r2 ← treeInsert 2 r1 ⟨20, 24, 20, 24⟩ 2
        let p := treeRemove 2 r2 ⟨4, 28, 4, 28⟩ 1
        some (p.2, p.1.query (some ⟨20, 24, 20, 24⟩), p.1.size)) = some (true, [2], 1) := by decide

end GeosModel.Quad
