import Lean.Elab.Tactic
import GeosModel.Model.Interrupt.Proto
import GeosModel.Generated.Interrupt
/-!
# C14 — the regenerated `geos::util::Interrupt` functions are the protocol model the theorems are about

`Generated/Interrupt.lean` is rewritten from `src/util/Interrupt.cpp` and `capi/geos_c.cpp` by `translate/cxx2lean.py`
(spec `interrupt`, parser extension `translate/specs/t4ext.py`) on every run, statement by statement.  The two
file-static variables are the state: a function that assigns `requested` / `callback` takes the old value and returns
the new one; `Interrupt::interrupt` and `Interrupt::process`, which throw, return `(thrown, requested)`.  The translator
also checks (and refuses otherwise) that the two variables are the *only* file-level state, that they start as
`false` / `nullptr` (`State.init0`), that `GEOS_CHECK_FOR_INTERRUPTS()` expands to exactly `Interrupt::process()`, and that
`GEOS_init_r` is `new context; Interrupt::cancel(); return` (`geosInit`).

The theorems below prove every regenerated function equal to the hand-written function of `Model/Interrupt/Proto.lean`
— the object of all theorems of `Props/C14.lean` — for **every** interrupt state, every callback behaviour `cb : Cb`
and every poll index `i`.  The single connecting interpretation: the call `(*cb)()` through the registered pointer is
the abstract parameter `invoke` of the regenerated `process`; it is instantiated with `invokeCb i` ("the callback's
action at poll `i` applied to the flag", `applyAct (cb i)`), which is exactly how the model lets a callback act.
-/
set_option linter.unusedSimpArgs false
namespace GeosModel.C14Gen
open GeosModel GeosModel.Interrupt

open Lean Elab Tactic Meta in
/-- `unfold_gen_c14`: δ-expand, in the goal, every definition of the namespace `GeosModel.Generated.Interrupt` — the
functions named by the spec *and* whatever helper functions the C++ has today (the translator wires the helpers it finds
next to the two variables automatically, e.g. a `takeRequest()`); the proofs below therefore do not depend on how the
C++ splits the work between functions. -/
elab "unfold_gen_c14" : tactic =>
  liftMetaTactic fun g => do
    let e ← instantiateMVars (← g.getType)
    let e' ← Meta.deltaExpand e (fun n => (`GeosModel.Generated.Interrupt).isPrefixOf n)
    return [← g.replaceTargetDefEq e']

/-- `Interrupt::request()` -/
theorem gen_request_eq (s : State) :
    request s = ⟨Generated.Interrupt.request s.requested, s.callback⟩ := by
  unfold_gen_c14; simp [request]

/-- `Interrupt::cancel()` -/
theorem gen_cancel_eq (s : State) :
    cancel s = ⟨Generated.Interrupt.cancel s.requested, s.callback⟩ := by
  unfold_gen_c14; simp [cancel]

/-- `Interrupt::check()` -/
theorem gen_check_eq (s : State) : Generated.Interrupt.check s.requested = check s := by
  unfold_gen_c14; simp [check]

/-- `Interrupt::registerCallback(cb)`: returns the previous pointer, installs the new one, leaves the flag alone -/
theorem gen_registerCallback_eq (s : State) (cb : Option Cb) :
    registerCallback s cb =
      (⟨s.requested, (Generated.Interrupt.registerCallback s.callback cb).2⟩,
       (Generated.Interrupt.registerCallback s.callback cb).1) := by
  unfold_gen_c14; simp [registerCallback]

/-- `Interrupt::interrupt()`: clears the flag and throws, whatever the flag was -/
theorem gen_interrupt_eq (q : Bool) : Generated.Interrupt.interrupt q = (true, false) := by
  unfold_gen_c14; simp

/-- `Interrupt::process()` as the `i`-th poll: same new state, same "threw `InterruptedException`" as the model, for every
state (callback registered or not, request pending or not) and every callback behaviour -/
theorem gen_process_eq (s : State) (i : Nat) :
    process s i =
      (⟨(Generated.Interrupt.process (invokeCb i) s.callback s.requested).2, s.callback⟩,
       (Generated.Interrupt.process (invokeCb i) s.callback s.requested).1) := by
  obtain ⟨q, c⟩ := s
  cases c with
  | none => cases q <;> unfold_gen_c14 <;> simp [process, invokeCb]
  | some cb =>
    cases h : cb i <;> cases q <;> unfold_gen_c14 <;>
      simp [process, invokeCb, applyAct, request, cancel, h]

/-- `GEOS_interruptRequest()` / `GEOS_interruptCancel()` / `GEOS_interruptRegisterCallback(cb)` of the C API are the
three functions above -/
theorem gen_capiRequest_eq (s : State) :
    request s = ⟨Generated.Interrupt.capiRequest s.requested, s.callback⟩ := by
  unfold_gen_c14; simp [request]

theorem gen_capiCancel_eq (s : State) :
    cancel s = ⟨Generated.Interrupt.capiCancel s.requested, s.callback⟩ := by
  unfold_gen_c14; simp [cancel]

theorem gen_capiRegisterCallback_eq (s : State) (cb : Option Cb) :
    registerCallback s cb =
      (⟨s.requested, (Generated.Interrupt.capiRegisterCallback s.callback cb).2⟩,
       (Generated.Interrupt.capiRegisterCallback s.callback cb).1) := by
  unfold_gen_c14; simp [registerCallback]

/-- consequence used by `Props/C14.lean`'s `runFrom`: one poll of an operation, written with the regenerated `process` -/
theorem gen_poll_eq {ρ : Type} (r : ρ) (rem i : Nat) (s : State) :
    runFrom r (rem + 1) i s =
      (let p := Generated.Interrupt.process (invokeCb i) s.callback s.requested
       if p.1 then (⟨p.2, s.callback⟩, .interrupted i) else runFrom r rem (i + 1) ⟨p.2, s.callback⟩) := by
  rw [runFrom, gen_process_eq]
  generalize Generated.Interrupt.process (invokeCb i) s.callback s.requested = p
  obtain ⟨t, q⟩ := p
  cases t <;> simp

/-! ### the regenerated `process` meets the property's demand directly — for an ARBITRARY callback

Here `invoke` is any function at all (the callback may compute the new flag from the old one in any way, not only by
the three actions `Act` of the model), and `C` any type. -/

/-- `process()` throws exactly when a request is pending after the callback (if one is registered) has run -/
theorem gen_process_throws_iff {C : Type} (invoke : Option C → Bool → Bool) (c : Option C) (q : Bool) :
    (Generated.Interrupt.process invoke c q).1 = (if c.isSome then invoke c q else q) := by
  cases c <;> unfold_gen_c14 <;> simp <;> split <;> simp_all

/-- whether it throws or not, no request is pending when `process()` is left: "… and clears the request" -/
theorem gen_process_clears {C : Type} (invoke : Option C → Bool → Bool) (c : Option C) (q : Bool) :
    (Generated.Interrupt.process invoke c q).2 = false := by
  cases c <;> unfold_gen_c14 <;> simp <;> split <;> simp_all

/-- a null callback pointer is never called -/
theorem gen_process_null_not_called {C : Type} (invoke invoke' : Option C → Bool → Bool) (q : Bool) :
    Generated.Interrupt.process invoke none q = Generated.Interrupt.process invoke' none q := by
  unfold_gen_c14; simp

/-! non-vacuity: the regenerated `process` run on concrete states -/
example : Generated.Interrupt.process (invokeCb 3) (some (requestAt 3)) false = (true, false) := by decide
example : Generated.Interrupt.process (invokeCb 2) (some (requestAt 3)) false = (false, false) := by decide
example : Generated.Interrupt.process (invokeCb 1) (some (cancelAt 1)) true = (false, false) := by decide
example : Generated.Interrupt.process (invokeCb 1) (none : Option Cb) true = (true, false) := by decide

end GeosModel.C14Gen
