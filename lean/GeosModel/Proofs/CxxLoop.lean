/-!
# `for` loops of regenerated C++ (`translate/cxx2lean.py`) as structural recursion

A C++ loop becomes `for x in xs do …` inside an `Id.run do` block, i.e. `forIn xs init step` in the monad `Id`, where the
state is the tuple of the variables the loop assigns (preceded by an `Option` holding the value of an early `return`).
`loopFn` is the same loop as a structurally recursive function, so that bridge theorems can be proved by induction on the
list with the step function kept abstract.  Core Lean only.
-/
namespace GeosModel.CxxLoop

/-- `forIn xs b f` in `Id`, by structural recursion on the list -/
def loopFn {ι β : Type} (f : ι → β → Id (ForInStep β)) : List ι → β → β
  | [], b => b
  | x :: xs, b =>
    match (f x b).run with
    | .done b' => b'
    | .yield b' => loopFn f xs b'

theorem forIn_eq_loopFn {ι β : Type} (f : ι → β → Id (ForInStep β)) (l : List ι) (b : β) :
    (forIn l b f : Id β).run = loopFn f l b := by
  induction l generalizing b with
  | nil => simp [loopFn]
  | cons x xs ih =>
    simp only [List.forIn_cons, loopFn]
    cases h : (f x b).run with
    | done b' => simp [h]
    | yield b' => simp [h, ih]

end GeosModel.CxxLoop
