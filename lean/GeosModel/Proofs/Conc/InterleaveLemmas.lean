import GeosModel.Model.Conc.Interleave
/-! Invariants of the SC interleaving semantics: lock ownership / discipline, and per-thread sequential views. -/
namespace GeosModel.Conc

@[simp] theorem upd_same {α} (f : Nat → α) (a : Nat) (b : α) : upd f a b a = b := by simp [upd]
theorem upd_other {α} (f : Nat → α) (a x : Nat) (b : α) (h : x ≠ a) : upd f a b x = f x := by simp [upd, h]

/-! ### stepping: what `step` does, case by case -/

theorem step_some_rest {s s' : St} {t : Tid} (h : step s t = some s') :
    ∃ e es, s.rest t = e :: es ∧ s'.rest = upd s.rest t es ∧ s'.done = upd s.done t (s.done t ++ [e]) := by
  unfold step at h
  match hr : s.rest t with
  | [] => rw [hr] at h; simp at h
  | e :: es =>
    rw [hr] at h
    refine ⟨e, es, rfl, ?_⟩
    cases e with
    | read c => simp at h; subst h; exact ⟨rfl, rfl⟩
    | write c v => simp at h; subst h; exact ⟨rfl, rfl⟩
    | rmw c d => simp at h; subst h; exact ⟨rfl, rfl⟩
    | out v => simp at h; subst h; exact ⟨rfl, rfl⟩
    | lock m =>
      simp only at h
      split at h
      · simp at h; subst h; exact ⟨rfl, rfl⟩
      · simp at h
    | unlock m =>
      simp only at h
      split at h
      · simp at h; subst h; exact ⟨rfl, rfl⟩
      · simp at h

/-! ### invariant 1: discipline + lock ownership -/

structure LockInv (tag : CellId → Tag) (s : St) : Prop where
  ok : ∀ t, okFrom tag t (s.held t) (s.rest t) = true
  own : ∀ t m, m ∈ s.held t → s.owner m = some t
  nodup : ∀ t, (s.held t).Nodup

theorem lockInv_init (tag : CellId → Tag) (mem0 : CellId → Val) (p : Prog) (h : Disciplined tag p) :
    LockInv tag (St.init mem0 p) :=
  ⟨fun t => h t, fun t m hm => by simp [St.init] at hm, fun t => by simp [St.init]⟩

theorem lockInv_step (tag : CellId → Tag) {s s' : St} {u : Tid} (inv : LockInv tag s) (h : step s u = some s') :
    LockInv tag s' := by
  unfold step at h
  match hr : s.rest u with
  | [] => rw [hr] at h; simp at h
  | e :: es =>
    rw [hr] at h
    have hok := inv.ok u
    rw [hr] at hok
    -- events that do not touch locks
    have plain_case : ∀ (s'' : St), s''.rest = upd s.rest u es → s''.held = s.held → s''.owner = s.owner →
        okFrom tag u (s.held u) es = true → LockInv tag s'' := by
      intro s'' h1 h2 h3 hes
      refine ⟨fun t => ?_, fun t m hm => ?_, fun t => ?_⟩
      · rw [h1, h2]
        by_cases htu : t = u
        · subst htu; simpa using hes
        · rw [upd_other _ _ _ _ htu]; exact inv.ok t
      · rw [h3]; rw [h2] at hm; exact inv.own t m hm
      · rw [h2]; exact inv.nodup t
    cases e with
    | read c =>
      simp at h; subst h
      simp only [okFrom, Bool.and_eq_true] at hok
      exact plain_case _ rfl rfl rfl hok.2
    | write c v =>
      simp at h; subst h
      simp only [okFrom, Bool.and_eq_true] at hok
      exact plain_case _ rfl rfl rfl hok.2
    | rmw c d =>
      simp at h; subst h
      simp only [okFrom, Bool.and_eq_true] at hok
      exact plain_case _ rfl rfl rfl hok.2
    | out v =>
      simp at h; subst h
      simp only [okFrom] at hok
      exact plain_case _ rfl rfl rfl hok
    | lock m =>
      simp only at h
      match ho : s.owner m with
      | some o => rw [ho] at h; simp at h
      | none =>
        rw [ho] at h
        simp at h; subst h
        simp only [okFrom, Bool.and_eq_true, Bool.not_eq_true', List.contains_eq_mem, decide_eq_false_iff_not] at hok
        refine ⟨fun t => ?_, fun t m' hm => ?_, fun t => ?_⟩
        · by_cases htu : t = u
          · subst htu; simpa using hok.2
          · simp only [upd_other _ _ _ _ htu]; exact inv.ok t
        · by_cases htu : t = u
          · subst htu
            simp only [upd_same, List.mem_cons] at hm
            by_cases hmm : m' = m
            · subst hmm; simp
            · simp only [upd_other _ _ _ _ hmm]
              rcases hm with hm | hm
              · exact absurd hm hmm
              · exact inv.own t m' hm
          · simp only [upd_other _ _ _ _ htu] at hm
            have := inv.own t m' hm
            have hmm : m' ≠ m := by intro e; subst e; rw [ho] at this; cases this
            simp only [upd_other _ _ _ _ hmm]; exact this
        · by_cases htu : t = u
          · subst htu
            simp only [upd_same]
            exact List.nodup_cons.mpr ⟨hok.1, inv.nodup t⟩
          · simp only [upd_other _ _ _ _ htu]; exact inv.nodup t
    | unlock m =>
      simp only at h
      by_cases ho : s.owner m = some u
      · rw [if_pos ho] at h
        simp at h; subst h
        simp only [okFrom, Bool.and_eq_true, List.contains_eq_mem, decide_eq_true_eq] at hok
        refine ⟨fun t => ?_, fun t m' hm => ?_, fun t => ?_⟩
        · by_cases htu : t = u
          · subst htu; simpa using hok.2
          · simp only [upd_other _ _ _ _ htu]; exact inv.ok t
        · by_cases htu : t = u
          · subst htu
            simp only [upd_same] at hm
            have hne : m' ≠ m := fun e => by
              subst e; exact (List.Nodup.mem_erase_iff (inv.nodup t)).mp hm |>.1 rfl
            have hin : m' ∈ s.held t := List.mem_of_mem_erase hm
            simp only [upd_other _ _ _ _ hne]; exact inv.own t m' hin
          · simp only [upd_other _ _ _ _ htu] at hm
            have := inv.own t m' hm
            have hmm : m' ≠ m := by
              intro e; subst e; rw [ho] at this; cases this; exact htu rfl
            simp only [upd_other _ _ _ _ hmm]; exact this
        · by_cases htu : t = u
          · subst htu; simp only [upd_same]; exact List.Nodup.erase _ (inv.nodup t)
          · simp only [upd_other _ _ _ _ htu]; exact inv.nodup t
      · rw [if_neg ho] at h; simp at h

theorem lockInv_exec (tag : CellId → Tag) : ∀ (sched : List Tid) (s s' : St), LockInv tag s →
    exec s sched = some s' → LockInv tag s' := by
  intro sched
  induction sched with
  | nil => intro s s' inv h; simp [exec] at h; subst h; exact inv
  | cons t ts ih =>
    intro s s' inv h
    simp only [exec] at h
    match hs : step s t with
    | none => rw [hs] at h; simp at h
    | some s1 => rw [hs] at h; exact ih s1 s' (lockInv_step tag inv hs) h

/-- the head access of a disciplined thread is permitted by the tag of the cell -/
theorem head_access_ok (tag : CellId → Tag) (t : Tid) (h : List MutexId) (e : Event) (es : List Event)
    (c : CellId) (w : Bool) (hok : okFrom tag t h (e :: es) = true) (ha : e.access = some (c, w)) :
    accessOK (tag c) t h w = true := by
  cases e with
  | read c' => simp [Event.access] at ha; obtain ⟨rfl, rfl⟩ := ha; simp only [okFrom, Bool.and_eq_true] at hok; exact hok.1
  | write c' v => simp [Event.access] at ha; obtain ⟨rfl, rfl⟩ := ha; simp only [okFrom, Bool.and_eq_true] at hok; exact hok.1
  | rmw c' d => simp [Event.access] at ha; obtain ⟨rfl, rfl⟩ := ha; simp only [okFrom, Bool.and_eq_true] at hok; exact hok.1
  | lock m => simp [Event.access] at ha
  | unlock m => simp [Event.access] at ha
  | out v => simp [Event.access] at ha

/-- no state satisfying the invariant is racy -/
theorem not_racy_of_lockInv (tag : CellId → Tag) (s : St) (inv : LockInv tag s) : ¬ Racy (tagAtomic tag) s := by
  rintro ⟨t1, t2, e1, e2, r1, r2, hne, h1, h2, c, w1, w2, ha1, ha2, hw, hat⟩
  have ok1 := inv.ok t1; rw [h1] at ok1
  have ok2 := inv.ok t2; rw [h2] at ok2
  have a1 := head_access_ok tag t1 _ e1 r1 c w1 ok1 ha1
  have a2 := head_access_ok tag t2 _ e2 r2 c w2 ok2 ha2
  unfold tagAtomic at hat
  cases htag : tag c with
  | immutableAfterInit =>
    rw [htag] at a1 a2
    simp only [accessOK, Bool.not_eq_true'] at a1 a2
    rcases hw with hw | hw <;> simp_all
  | atomic => rw [htag] at hat; simp at hat
  | guardedBy m =>
    rw [htag] at a1 a2
    simp only [accessOK, List.contains_eq_mem, decide_eq_true_eq] at a1 a2
    have o1 := inv.own t1 m a1
    have o2 := inv.own t2 m a2
    rw [o1] at o2
    exact hne (Option.some.inj o2)
  | threadPrivate o =>
    rw [htag] at a1 a2
    simp only [accessOK, beq_iff_eq] at a1 a2
    exact hne (a1.symm.trans a2)
  | plain =>
    rw [htag] at a1
    simp [accessOK] at a1

/-! ### invariant 2: every thread sees its own sequential run -/

theorem seqRun_append (m : CellId → Val) (tr : List Val) (es : List Event) (e : Event) :
    seqRun m tr (es ++ [e]) = seqStep (seqRun m tr es).1 (seqRun m tr es).2 e := by
  induction es generalizing m tr with
  | nil => simp [seqRun]
  | cons a as ih => simp only [List.cons_append, seqRun]; exact ih _ _

structure ViewInv (mem0 : CellId → Val) (p : Prog) (s : St) : Prop where
  split : ∀ t, s.done t ++ s.rest t = p t
  outEq : ∀ t, s.out t = (seqRun mem0 [] (s.done t)).2
  memEq : ∀ t c, readsCell (p t) c → s.mem c = (seqRun mem0 [] (s.done t)).1 c

theorem viewInv_init (mem0 : CellId → Val) (p : Prog) : ViewInv mem0 p (St.init mem0 p) :=
  ⟨fun t => by simp [St.init], fun t => by simp [St.init, seqRun], fun t c _ => by simp [St.init, seqRun]⟩

theorem viewInv_step (mem0 : CellId → Val) (p : Prog) (hind : Independent p) {s s' : St} {u : Tid}
    (inv : ViewInv mem0 p s) (h : step s u = some s') : ViewInv mem0 p s' := by
  unfold step at h
  match hr : s.rest u with
  | [] => rw [hr] at h; simp at h
  | e :: es =>
    rw [hr] at h
    have hsplit := inv.split u
    rw [hr] at hsplit
    have he_mem : e ∈ p u := by rw [← hsplit]; simp
    -- generic reconstruction for a step that sets `mem := mem'`, `out u := out'`
    have build : ∀ (s'' : St), s''.rest = upd s.rest u es → s''.done = upd s.done u (s.done u ++ [e]) →
        (∀ t, t ≠ u → s''.out t = s.out t) →
        s''.out u = (seqStep (seqRun mem0 [] (s.done u)).1 (seqRun mem0 [] (s.done u)).2 e).2 →
        (∀ c, readsCell (p u) c → s''.mem c = (seqStep (seqRun mem0 [] (s.done u)).1 (seqRun mem0 [] (s.done u)).2 e).1 c) →
        (∀ t c, t ≠ u → readsCell (p t) c → s''.mem c = s.mem c) →
        ViewInv mem0 p s'' := by
      intro s'' h1 h2 h3 h4 h5 h6
      refine ⟨fun t => ?_, fun t => ?_, fun t c hc => ?_⟩
      · rw [h1, h2]
        by_cases htu : t = u
        · subst htu; simp only [upd_same]; rw [← hsplit]; simp
        · simp only [upd_other _ _ _ _ htu]; exact inv.split t
      · rw [h2]
        by_cases htu : t = u
        · subst htu; simp only [upd_same]; rw [seqRun_append]; exact h4
        · simp only [upd_other _ _ _ _ htu]; rw [h3 t htu]; exact inv.outEq t
      · rw [h2]
        by_cases htu : t = u
        · subst htu; simp only [upd_same]; rw [seqRun_append]; exact h5 c hc
        · simp only [upd_other _ _ _ _ htu]; rw [h6 t c htu hc]; exact inv.memEq t c hc
    -- a write by u to cell c cannot be to a cell read by another thread
    have other_untouched : ∀ c, e.access = some (c, true) → ∀ t c', t ≠ u → readsCell (p t) c' → c' ≠ c := by
      intro c ha t c' htu hrd hcc
      subst hcc
      exact hind t u c' htu hrd ⟨e, he_mem, ha⟩
    cases e with
    | read c =>
      simp at h; subst h
      refine build _ rfl rfl (fun t ht => by simp [upd_other _ _ _ _ ht]) ?_ (fun c' hc' => ?_) (fun _ _ _ _ => rfl)
      · simp only [upd_same, seqStep]
        rw [inv.outEq u, inv.memEq u c (by unfold readsCell; exact he_mem)]
      · simp only [seqStep]; exact inv.memEq u c' hc'
    | out v =>
      simp at h; subst h
      refine build _ rfl rfl (fun t ht => by simp [upd_other _ _ _ _ ht]) ?_ (fun c' hc' => ?_) (fun _ _ _ _ => rfl)
      · simp only [upd_same, seqStep]; rw [inv.outEq u]
      · simp only [seqStep]; exact inv.memEq u c' hc'
    | write c v =>
      simp at h; subst h
      refine build _ rfl rfl (fun _ _ => rfl) ?_ (fun c' hc' => ?_) (fun t c' ht hc' => ?_)
      · simp only [seqStep]; exact inv.outEq u
      · simp only [seqStep, upd]
        split
        · rfl
        · exact inv.memEq u c' hc'
      · exact upd_other _ _ _ _ (other_untouched c rfl t c' ht hc')
    | rmw c d =>
      simp at h; subst h
      refine build _ rfl rfl (fun _ _ => rfl) ?_ (fun c' hc' => ?_) (fun t c' ht hc' => ?_)
      · simp only [seqStep]; exact inv.outEq u
      · simp only [seqStep, upd]
        split
        · rename_i hcc; subst hcc; rw [inv.memEq u c' hc']
        · exact inv.memEq u c' hc'
      · exact upd_other _ _ _ _ (other_untouched c rfl t c' ht hc')
    | lock m =>
      simp only at h
      match ho : s.owner m with
      | some o => rw [ho] at h; simp at h
      | none =>
        rw [ho] at h; simp at h; subst h
        refine build _ rfl rfl (fun _ _ => rfl) ?_ (fun c' hc' => ?_) (fun _ _ _ _ => rfl)
        · simp only [seqStep]; exact inv.outEq u
        · simp only [seqStep]; exact inv.memEq u c' hc'
    | unlock m =>
      simp only at h
      by_cases ho : s.owner m = some u
      · rw [if_pos ho] at h; simp at h; subst h
        refine build _ rfl rfl (fun _ _ => rfl) ?_ (fun c' hc' => ?_) (fun _ _ _ _ => rfl)
        · simp only [seqStep]; exact inv.outEq u
        · simp only [seqStep]; exact inv.memEq u c' hc'
      · rw [if_neg ho] at h; simp at h

theorem viewInv_exec (mem0 : CellId → Val) (p : Prog) (hind : Independent p) : ∀ (sched : List Tid) (s s' : St),
    ViewInv mem0 p s → exec s sched = some s' → ViewInv mem0 p s' := by
  intro sched
  induction sched with
  | nil => intro s s' inv h; simp [exec] at h; subst h; exact inv
  | cons t ts ih =>
    intro s s' inv h
    simp only [exec] at h
    match hs : step s t with
    | none => rw [hs] at h; simp at h
    | some s1 => rw [hs] at h; exact ih s1 s' (viewInv_step mem0 p hind inv hs) h

/-! ### discipline ⇒ which cells can be read by one thread and written by another -/

theorem okFrom_mem_access (tag : CellId → Tag) (t : Tid) : ∀ (es : List Event) (h : List MutexId),
    okFrom tag t h es = true → ∀ e ∈ es, ∀ c w, e.access = some (c, w) → ∃ h', accessOK (tag c) t h' w = true := by
  intro es
  induction es with
  | nil => intro h _ e he; cases he
  | cons a as ih =>
    intro h hok e he c w ha
    rcases List.mem_cons.mp he with rfl | he'
    · exact ⟨h, head_access_ok tag t h e as c w hok ha⟩
    · cases a with
      | read c' => simp only [okFrom, Bool.and_eq_true] at hok; exact ih h hok.2 e he' c w ha
      | write c' v => simp only [okFrom, Bool.and_eq_true] at hok; exact ih h hok.2 e he' c w ha
      | rmw c' d => simp only [okFrom, Bool.and_eq_true] at hok; exact ih h hok.2 e he' c w ha
      | out v => simp only [okFrom] at hok; exact ih h hok e he' c w ha
      | lock m => simp only [okFrom, Bool.and_eq_true] at hok; exact ih _ hok.2 e he' c w ha
      | unlock m => simp only [okFrom, Bool.and_eq_true] at hok; exact ih _ hok.2 e he' c w ha

end GeosModel.Conc
