import GeosModel.Model.Conc.IndexedLocate
import GeosModel.Proofs.Kernel.RayCountCorrect
import GeosModel.Proofs.Conc.InterleaveLemmas
/-! `IndexedPointInAreaLocator::locate` is a function of (rings, point): independent of the order in which the interval
index reports the stabbed segments and of extra reported segments; equal to the even–odd specification. -/
namespace GeosModel.Conc.Locate
open GeosModel.Kernel GeosModel.RayCount

/-- the visitor accumulates "some segment reported on-segment" and the sum of the increments -/
theorem visit_eq (p : Pt) : ∀ (segs : List Seg) (st : RCC),
    visit p st segs = ⟨st.onSeg || segs.any (fun s => segOn p s.1 s.2), st.count + (segs.map (fun s => segInc p s.1 s.2)).sum⟩
  | [], st => by simp [visit]
  | s :: r, st => by
    have ih := visit_eq p r (countSegment p st s.1 s.2)
    simp only [visit, List.foldl_cons] at ih ⊢
    rw [ih, countSegment_eq]
    simp only [List.any_cons, List.map_cons, List.sum_cons, Bool.or_assoc, RCC.mk.injEq, true_and]
    omega

/-- a segment whose y-interval does not contain `p.y` leaves the counter unchanged -/
theorem not_stabbed_noop (p : Pt) (s : Seg) (h : stabs p s = false) : segOn p s.1 s.2 = false ∧ segInc p s.1 s.2 = 0 := by
  obtain ⟨a, b⟩ := s
  simp only [stabs, Bool.and_eq_false_iff, decide_eq_false_iff_not] at h
  unfold segOn segInc countSegment RCC.init
  simp only
  have h' : p.y < min a.y b.y ∨ max a.y b.y < p.y := by omega
  split_ifs <;> simp <;> omega

theorem any_filter_stabs (p : Pt) (segs : List Seg) :
    (segs.filter (stabs p)).any (fun s => segOn p s.1 s.2) = segs.any (fun s => segOn p s.1 s.2) := by
  induction segs with
  | nil => rfl
  | cons s r ih =>
    by_cases h : stabs p s = true
    · simp [h, ih]
    · have h' : stabs p s = false := by simpa using h
      simp [h', ih, (not_stabbed_noop p s h').1]

theorem sum_filter_stabs (p : Pt) (segs : List Seg) :
    ((segs.filter (stabs p)).map (fun s => segInc p s.1 s.2)).sum = (segs.map (fun s => segInc p s.1 s.2)).sum := by
  induction segs with
  | nil => rfl
  | cons s r ih =>
    by_cases h : stabs p s = true
    · simp [h, ih]
    · have h' : stabs p s = false := by simpa using h
      simp [h', ih, (not_stabbed_noop p s h').2]

/-- **extra segments are harmless**: visiting all segments gives what visiting exactly the stabbed ones gives -/
theorem locateVisited_filter (p : Pt) (segs : List Seg) :
    locateVisited p (segs.filter (stabs p)) = locateVisited p segs := by
  unfold locateVisited
  rw [visit_eq, visit_eq, any_filter_stabs, sum_filter_stabs]

/-- **the report order is irrelevant** -/
theorem locateVisited_perm (p : Pt) {v w : List Seg} (h : v.Perm w) : locateVisited p v = locateVisited p w := by
  unfold locateVisited
  rw [visit_eq, visit_eq]
  have h1 : v.any (fun s => segOn p s.1 s.2) = w.any (fun s => segOn p s.1 s.2) := by
    rw [Bool.eq_iff_iff, List.any_eq_true, List.any_eq_true]
    exact ⟨fun ⟨x, hx, hp⟩ => ⟨x, h.mem_iff.mp hx, hp⟩, fun ⟨x, hx, hp⟩ => ⟨x, h.mem_iff.mpr hx, hp⟩⟩
  have h2 : (v.map (fun s => segInc p s.1 s.2)).sum = (w.map (fun s => segInc p s.1 s.2)).sum :=
    (h.map _).sum_nat
  rw [h1, h2]

/-- whatever the interval tree reports — the stabbed segments in any order, with or without further segments of the
same geometry that are not stabbed — `locate` answers `locate rings p` -/
theorem locate_any_report (rings : List (List Pt)) (p : Pt) (visited : List Seg)
    (h : (visited.filter (stabs p)).Perm ((segsOf rings).filter (stabs p))) :
    locateVisited p visited = locate rings p := by
  unfold locate
  rw [← locateVisited_filter p visited]
  exact locateVisited_perm p h

theorem any_flatMap_edges (f g : Seg → Bool) (rings : List (List Pt))
    (h : ∀ r ∈ rings, (edges r).any f = (edges r).any g) : (segsOf rings).any f = (segsOf rings).any g := by
  induction rings with
  | nil => rfl
  | cons r rs ih =>
    simp only [segsOf, List.flatMap_cons, List.any_append] at ih ⊢
    rw [h r (List.mem_cons_self), ih (fun r' hr' => h r' (List.mem_cons_of_mem _ hr'))]

/-- **`locate` is the even–odd rule over all rings** (every ring closed): boundary iff the point is on some segment,
otherwise interior iff the number of segments crossed by the ray is odd -/
theorem locate_eq_evenOdd (rings : List (List Pt)) (hc : ∀ r ∈ rings, Closed r) (p : Pt) :
    locate rings p = evenOdd rings p := by
  unfold locate evenOdd
  rw [locateVisited_filter]
  unfold locateVisited getLocation
  rw [visit_eq]
  have hany : (segsOf rings).any (fun s => segOn p s.1 s.2) = (segsOf rings).any (fun e => onSegment e.1 e.2 p) :=
    any_flatMap_edges _ _ rings (fun r hr => any_segOn_iff p r (hc r hr))
  simp only [RCC.init, Bool.false_or, Nat.zero_add]
  rw [hany]
  by_cases hb : (segsOf rings).any (fun e => onSegment e.1 e.2 p) = true
  · simp [hb]
  · have hb' : (segsOf rings).any (fun e => onSegment e.1 e.2 p) = false := by simpa using hb
    have hno : (segsOf rings).any (fun s => segOn p s.1 s.2) = false := by rw [hany]; exact hb'
    rw [sum_segInc p _ hno]

/-- a polygon without holes: `locate` is `Kernel.locateInRing` of the shell -/
theorem locate_single_ring (ring : List Pt) (hc : Closed ring) (p : Pt) : locate [ring] p = locateInRing p ring := by
  rw [locate_eq_evenOdd [ring] (by intro r hr; simp at hr; subst hr; exact hc) p]
  have hs : segsOf [ring] = edges ring := by simp [segsOf]
  simp only [evenOdd, hs, locateInRing]

/-! ### the call as events of the interleaving model -/

theorem okFrom_locateThread (tag : CellId → Tag) (idx : CellId) (hidx : tag idx = .immutableAfterInit) (t : Tid)
    (rings : List (List Pt)) : ∀ (qs : List Pt) (h : List MutexId), okFrom tag t h (locateThread idx rings qs) = true
  | [], h => by simp [locateThread, okFrom]
  | q :: qs, h => by
    have ih := okFrom_locateThread tag idx hidx t rings qs h
    simp only [locateThread, List.flatMap_cons, locateCall, List.cons_append, List.nil_append] at ih ⊢
    simp [okFrom, accessOK, hidx, ih]

theorem locateThread_no_write (idx : CellId) (rings : List (List Pt)) (qs : List Pt) (c : CellId) :
    ¬ writesCell (locateThread idx rings qs) c := by
  rintro ⟨e, he, ha⟩
  simp only [locateThread, List.mem_flatMap, locateCall] at he
  obtain ⟨q, _, hq⟩ := he
  simp only [List.mem_cons, List.not_mem_nil, or_false] at hq
  rcases hq with rfl | rfl <;> simp [Event.access] at ha

theorem seqRun_locateThread (m : CellId → Val) (idx : CellId) (rings : List (List Pt)) :
    ∀ (qs : List Pt) (tr : List Val),
      seqRun m tr (locateThread idx rings qs) = (m, tr ++ qs.flatMap (fun q => [m idx, locCode (locate rings q)]))
  | [], tr => by simp [locateThread, seqRun]
  | q :: qs, tr => by
    have ih := seqRun_locateThread m idx rings qs (tr ++ [m idx] ++ [locCode (locate rings q)])
    simp only [locateThread, List.flatMap_cons, locateCall, List.cons_append, List.nil_append] at ih ⊢
    simp only [seqRun, seqStep]
    rw [ih]
    simp

end GeosModel.Conc.Locate
