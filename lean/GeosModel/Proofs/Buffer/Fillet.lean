import GeosModel.Model.Buffer.Fillet
/-! Lemmas about the fillet segment count (`Model/Buffer/Fillet.lean`).  Core Lean only. -/
namespace GeosModel.Buffer

theorem nSegs_eq_floor (t : Rat) (ht : 0 ≤ t) : nSegs t = (t + 1 / 2).floor := by
  unfold nSegs truncToInt
  have : (0 : Rat) ≤ t + 1 / 2 := by grind
  simp [this]

theorem nSegs_le (t : Rat) (ht : 0 ≤ t) : ((nSegs t : Int) : Rat) ≤ t + 1 / 2 := by
  rw [nSegs_eq_floor t ht]; exact Rat.floor_le _

theorem lt_nSegs_add_one (t : Rat) (ht : 0 ≤ t) : t + 1 / 2 < ((nSegs t : Int) : Rat) + 1 := by
  rw [nSegs_eq_floor t ht]
  have := Rat.lt_floor_add_one (t + 1 / 2)
  grind

theorem nSegs_nonneg (t : Rat) (ht : 0 ≤ t) : 0 ≤ nSegs t := by
  rw [nSegs_eq_floor t ht]
  apply Rat.le_floor_iff.mpr
  grind

theorem one_le_cast {n : Int} (h : 1 ≤ n) : (1 : Rat) ≤ (n : Rat) := by
  have : ((1 : Int) : Rat) ≤ (n : Rat) := Rat.intCast_le_intCast.mpr h
  simpa using this

theorem nSegs_mul_step (t : Rat) (hn : 1 ≤ nSegs t) : (nSegs t : Rat) * stepQ t = t := by
  have hn' := one_le_cast hn
  have hne : ((nSegs t : Int) : Rat) ≠ 0 := by grind
  unfold stepQ
  rw [Rat.mul_comm, Rat.div_mul_cancel hne]

/-- a value of `t` with exactly one segment -/
theorem nSegs_eq_one (t : Rat) (h1 : 1 / 2 ≤ t) (h2 : t < 3 / 2) : nSegs t = 1 := by
  have ht : (0 : Rat) ≤ t := by grind
  rw [nSegs_eq_floor t ht]
  have hle : (1 : Int) ≤ (t + 1 / 2).floor := Rat.le_floor_iff.mpr (by simp; grind)
  have hlt : (t + 1 / 2).floor < 2 := Rat.floor_lt_iff.mpr (by simp; grind)
  omega


namespace Core

theorem fillet_step_bound (t : Rat) (ht : 0 ≤ t) :
    (nSegs t < 1 ∧ t < 1 / 2 ∧ filletOffsets t = []) ∨
    (1 ≤ nSegs t ∧ (nSegs t : Rat) * stepQ t = t ∧ stepQ t < 3 / 2 ∧ 1 / 2 ≤ stepQ t ∧
      stepQ t * (2 * (nSegs t : Rat)) < 2 * (nSegs t : Rat) + 1) := by
  by_cases h : nSegs t < 1
  · left
    refine ⟨h, ?_, by simp [filletOffsets, h]⟩
    have h1 := lt_nSegs_add_one t ht
    have : ((nSegs t : Int) : Rat) ≤ 0 := by
      have : nSegs t ≤ 0 := by omega
      have : ((nSegs t : Int) : Rat) ≤ ((0 : Int) : Rat) := Rat.intCast_le_intCast.mpr this
      simpa using this
    grind
  · right
    have hn : 1 ≤ nSegs t := by omega
    have hn' := one_le_cast hn
    have h1 := lt_nSegs_add_one t ht
    have h2 := nSegs_le t ht
    have hpos : (0 : Rat) < (nSegs t : Rat) := by grind
    have hmul := nSegs_mul_step t hn
    refine ⟨hn, hmul, ?_, ?_, ?_⟩
    · have : (nSegs t : Rat) * stepQ t < (nSegs t : Rat) * (3 / 2) := by grind
      exact (Rat.mul_lt_mul_left hpos).mp this
    · have : (nSegs t : Rat) * (1 / 2) ≤ (nSegs t : Rat) * stepQ t := by grind
      exact Rat.le_of_mul_le_mul_left this hpos
    · grind

theorem fillet_step_sup (ε : Rat) (hε : 0 < ε) :
    ∃ t : Rat, 0 ≤ t ∧ nSegs t = 1 ∧ 3 / 2 - ε < stepQ t ∧ stepQ t < 3 / 2 := by
  let δ : Rat := if ε ≤ 1 then ε / 2 else 1 / 2
  have hδ0 : 0 < δ := by simp only [δ]; split <;> grind
  have hδ1 : δ ≤ 1 / 2 := by simp only [δ]; split <;> grind
  have hδε : δ < ε := by simp only [δ]; split <;> grind
  have h1 : nSegs (3 / 2 - δ) = 1 := nSegs_eq_one _ (by grind) (by grind)
  have hs : stepQ (3 / 2 - δ) = 3 / 2 - δ := by
    unfold stepQ; rw [h1]
    show (3 / 2 - δ) / ((1 : Int) : Rat) = 3 / 2 - δ
    have : ((1 : Int) : Rat) = 1 := rfl
    rw [this]; grind
  refine ⟨3 / 2 - δ, by grind, h1, ?_, ?_⟩ <;> (rw [hs]; grind)

theorem fillet_vertices (t : Rat) (hn : 1 ≤ nSegs t) :
    filletOffsets t ++ [t] = (List.range ((nSegs t).toNat + 1)).map fun (i : Nat) => (i : Rat) * stepQ t := by
  have hlt : ¬ nSegs t < 1 := by omega
  have hcast : (((nSegs t).toNat : Nat) : Rat) = ((nSegs t : Int) : Rat) := by
    have h0 : (((nSegs t).toNat : Nat) : Int) = nSegs t := Int.toNat_of_nonneg (by omega)
    calc (((nSegs t).toNat : Nat) : Rat) = ((((nSegs t).toNat : Nat) : Int) : Rat) := (Rat.intCast_natCast _).symm
      _ = ((nSegs t : Int) : Rat) := by rw [h0]
  simp only [filletOffsets, hlt, if_false, List.range_succ, List.map_append, List.map_cons, List.map_nil]
  rw [hcast, nSegs_mul_step t hn]

theorem angle_aux (a Q n : Rat) (hQ : 0 < Q) (hn : 0 < n) (h : a * Q < n * (3 / 2)) : a / n < 3 / 2 * (1 / Q) := by
  have hne : Q ≠ 0 := by grind
  rw [Rat.div_lt_iff hn]
  have e : (3 / 2 * (1 / Q) * n) * Q = n * (3 / 2) * ((1 / Q) * Q) := by grind
  have h2 : a * Q < (3 / 2 * (1 / Q) * n) * Q := by
    rw [e, Rat.div_mul_cancel hne, Rat.mul_one]; exact h
  exact (Rat.mul_lt_mul_right hQ).mp h2

theorem fillet_angle_bound (q : Int) (a : Rat) (ha : 0 ≤ a) (hn : 1 ≤ nSegsOf q a) :
    a / (nSegsOf q a : Rat) < 3 / 2 * quantumQ q := by
  have hq : (1 : Rat) ≤ (quadSegsEff q : Rat) := one_le_cast (by unfold quadSegsEff; split <;> omega)
  have hqpos : (0 : Rat) < (quadSegsEff q : Rat) := by grind
  have hquant : quantumQ q = 1 / (quadSegsEff q : Rat) := rfl
  have ht : a / quantumQ q = a * (quadSegsEff q : Rat) := by
    rw [hquant, Rat.div_def, Rat.div_def, Rat.one_mul, Rat.inv_inv]
  have ht0 : 0 ≤ a / quantumQ q := by rw [ht]; exact Rat.mul_nonneg ha (by grind)
  have hb := fillet_step_bound (a / quantumQ q) ht0
  unfold nSegsOf at hn ⊢
  rcases hb with ⟨hlt, _⟩ | ⟨_, hmul, hstep, _⟩
  · omega
  · have hn' := one_le_cast hn
    have hnpos : (0 : Rat) < (nSegs (a / quantumQ q) : Rat) := by grind
    have h1 : (nSegs (a / quantumQ q) : Rat) * stepQ (a / quantumQ q) < (nSegs (a / quantumQ q) : Rat) * (3 / 2) :=
      Rat.mul_lt_mul_of_pos_left hstep hnpos
    rw [hmul] at h1
    have h2 : a * (quadSegsEff q : Rat) < (nSegs (a / quantumQ q) : Rat) * (3 / 2) := by rw [← ht]; exact h1
    exact angle_aux a _ _ hqpos hnpos h2

theorem examples :
    (nSegs 8 = 8 ∧ filletInterior 8 = 7 ∧ stepQ 8 = 1) ∧
    (nSegs (149 / 100) = 1 ∧ filletInterior (149 / 100) = 0 ∧ stepQ (149 / 100) = 149 / 100) ∧
    (nSegs (49 / 100) = 0 ∧ filletOffsets (49 / 100) = []) := by decide +kernel

end Core

end GeosModel.Buffer
