import GeosModel.Model.Buffer.Spec
import Mathlib.Tactic.Ring
import Mathlib.Tactic.Linarith
import Mathlib.Tactic.FieldSimp
import Mathlib.Tactic.Positivity
/-!
# The projection–clamp formula `d2Seg` is the true squared distance to a segment

`Qv` interprets an integer pair as a rational, `dist2At p s t` is the squared Euclidean distance from the sample
location `(p.x/p.w, p.y/p.w)` to the point `a + t(b − a)` of the segment.  `d2Seg_le`: the formula is a lower bound
for every `t ∈ [0,1]`; `d2Seg_attained`: it is attained.  (Proofs only; Mathlib tactics.)
-/
namespace GeosModel.Buffer
open GeosModel.Kernel GeosModel.Relate

/-- algebra of the projection–clamp formula over an ordered field: `u = b − a`, `v = P − a` -/
theorem seg_case_start (ux uy vx vy t : Rat) (hdot : ux * vx + uy * vy ≤ 0) (ht : 0 ≤ t) :
    vx ^ 2 + vy ^ 2 ≤ (vx - t * ux) ^ 2 + (vy - t * uy) ^ 2 := by
  nlinarith [mul_nonneg ht (neg_nonneg.2 hdot), sq_nonneg (t * ux), sq_nonneg (t * uy)]

theorem seg_case_end (ux uy vx vy t : Rat) (hdot : ux ^ 2 + uy ^ 2 ≤ ux * vx + uy * vy) (ht : t ≤ 1) :
    (vx - ux) ^ 2 + (vy - uy) ^ 2 ≤ (vx - t * ux) ^ 2 + (vy - t * uy) ^ 2 := by
  have h1 : 0 ≤ 1 - t := by linarith
  nlinarith [mul_nonneg h1 (sub_nonneg.2 hdot), mul_nonneg (mul_nonneg h1 h1) (add_nonneg (sq_nonneg ux) (sq_nonneg uy))]

theorem seg_case_mid (ux uy vx vy t : Rat) (hL : 0 < ux ^ 2 + uy ^ 2) :
    (ux * vy - uy * vx) ^ 2 / (ux ^ 2 + uy ^ 2) ≤ (vx - t * ux) ^ 2 + (vy - t * uy) ^ 2 := by
  rw [div_le_iff₀ hL]
  nlinarith [sq_nonneg (t * (ux ^ 2 + uy ^ 2) - (ux * vx + uy * vy))]

end GeosModel.Buffer

namespace GeosModel.Buffer
open GeosModel.Kernel GeosModel.Relate

/-- value of an integer pair -/
def Qv (q : Q) : Rat := (q.n : Rat) / (q.d : Rat)

/-- squared distance from the sample location `(x/w, y/w)` to the point of `s` at parameter `t` -/
def dist2At (p : HPt) (s : Seg) (t : Rat) : Rat :=
  ((p.x : Rat) / p.w - (s.p.x + t * (s.q.x - s.p.x))) ^ 2 + ((p.y : Rat) / p.w - (s.p.y + t * (s.q.y - s.p.y))) ^ 2

theorem Qv_d2Pt (p : HPt) (v : Pt) (hw : 0 < p.w) :
    Qv (d2Pt p v) = ((p.x : Rat) / p.w - v.x) ^ 2 + ((p.y : Rat) / p.w - v.y) ^ 2 := by
  have hw' : (0 : Rat) < (p.w : Rat) := by exact_mod_cast hw
  unfold Qv d2Pt
  push_cast
  field_simp

theorem sqLen_cast (s : Seg) : ((s.sqLen : Int) : Rat) = ((s.q.x : Rat) - s.p.x) ^ 2 + ((s.q.y : Rat) - s.p.y) ^ 2 := by
  unfold Seg.sqLen sqDist; push_cast; ring

theorem dotH_cast (a b : Pt) (p : HPt) (hw : 0 < p.w) :
    ((dotH a b p : Int) : Rat) = p.w * (((b.x : Rat) - a.x) * ((p.x : Rat) / p.w - a.x) + ((b.y : Rat) - a.y) * ((p.y : Rat) / p.w - a.y)) := by
  have hw' : (0 : Rat) < (p.w : Rat) := by exact_mod_cast hw
  unfold dotH; push_cast; field_simp

theorem detH_cast (a b : Pt) (p : HPt) (hw : 0 < p.w) :
    ((detH a b p : Int) : Rat) = p.w * (((b.x : Rat) - a.x) * ((p.y : Rat) / p.w - a.y) - ((b.y : Rat) - a.y) * ((p.x : Rat) / p.w - a.x)) := by
  have hw' : (0 : Rat) < (p.w : Rat) := by exact_mod_cast hw
  unfold detH; push_cast; field_simp

theorem d2Seg_le (p : HPt) (s : Seg) (hw : 0 < p.w) (t : Rat) (h0 : 0 ≤ t) (h1 : t ≤ 1) :
    Qv (d2Seg p s) ≤ dist2At p s t := by
  have hw' : (0 : Rat) < (p.w : Rat) := by exact_mod_cast hw
  have key : dist2At p s t =
      (((p.x : Rat) / p.w - s.p.x) - t * ((s.q.x : Rat) - s.p.x)) ^ 2 + (((p.y : Rat) / p.w - s.p.y) - t * ((s.q.y : Rat) - s.p.y)) ^ 2 := by
    unfold dist2At; ring
  unfold d2Seg
  by_cases hl : s.sqLen = 0
  · have hz : ((s.q.x : Rat) - s.p.x) ^ 2 + ((s.q.y : Rat) - s.p.y) ^ 2 = 0 := by rw [← sqLen_cast, hl]; simp
    have hx : (s.q.x : Rat) - s.p.x = 0 := by nlinarith [sq_nonneg ((s.q.x : Rat) - s.p.x), sq_nonneg ((s.q.y : Rat) - s.p.y)]
    have hy : (s.q.y : Rat) - s.p.y = 0 := by nlinarith [sq_nonneg ((s.q.x : Rat) - s.p.x), sq_nonneg ((s.q.y : Rat) - s.p.y)]
    simp only [hl, beq_self_eq_true, if_true]
    rw [Qv_d2Pt p s.p hw, key, hx, hy]; simp
  · have hlne : (s.sqLen == 0) = false := by simpa using hl
    simp only [hlne]
    have hLpos : (0 : Rat) < ((s.q.x : Rat) - s.p.x) ^ 2 + ((s.q.y : Rat) - s.p.y) ^ 2 := by
      have : (0 : Rat) ≤ ((s.sqLen : Int) : Rat) := by rw [sqLen_cast]; positivity
      rw [← sqLen_cast]
      have hne : ((s.sqLen : Int) : Rat) ≠ 0 := by exact_mod_cast hl
      exact lt_of_le_of_ne this (Ne.symm hne)
    by_cases ht0 : dotH s.p s.q p ≤ 0
    · simp only [Bool.false_eq_true, if_false, ht0, if_true]
      rw [Qv_d2Pt p s.p hw, key]
      have hd : ((dotH s.p s.q p : Int) : Rat) ≤ 0 := by exact_mod_cast ht0
      rw [dotH_cast _ _ _ hw] at hd
      have hdot : ((s.q.x : Rat) - s.p.x) * ((p.x : Rat) / p.w - s.p.x) + ((s.q.y : Rat) - s.p.y) * ((p.y : Rat) / p.w - s.p.y) ≤ 0 := by
        by_contra hc; have hc := not_le.mp hc; nlinarith [mul_pos hw' hc]
      exact seg_case_start _ _ _ _ t hdot h0
    · simp only [Bool.false_eq_true, if_false, ht0]
      by_cases ht1 : dotH s.p s.q p ≥ s.sqLen * p.w
      · simp only [ht1, if_true]
        rw [Qv_d2Pt p s.q hw, key]
        have hd : ((s.sqLen * p.w : Int) : Rat) ≤ ((dotH s.p s.q p : Int) : Rat) := by exact_mod_cast ht1
        rw [dotH_cast _ _ _ hw] at hd
        push_cast at hd; rw [sqLen_cast] at hd
        have hdot : ((s.q.x : Rat) - s.p.x) ^ 2 + ((s.q.y : Rat) - s.p.y) ^ 2 ≤
            ((s.q.x : Rat) - s.p.x) * ((p.x : Rat) / p.w - s.p.x) + ((s.q.y : Rat) - s.p.y) * ((p.y : Rat) / p.w - s.p.y) := by
          by_contra hc; have hc := not_le.mp hc; nlinarith [mul_pos hw' (sub_pos.2 hc)]
        have := seg_case_end _ _ _ _ t hdot h1
        calc ((p.x : Rat) / p.w - s.q.x) ^ 2 + ((p.y : Rat) / p.w - s.q.y) ^ 2
            = (((p.x : Rat) / p.w - s.p.x) - ((s.q.x : Rat) - s.p.x)) ^ 2 + (((p.y : Rat) / p.w - s.p.y) - ((s.q.y : Rat) - s.p.y)) ^ 2 := by ring
          _ ≤ _ := this
      · simp only [ht1, if_false]
        rw [key]
        have hq : Qv ⟨detH s.p s.q p * detH s.p s.q p, s.sqLen * (p.w * p.w)⟩ =
            (((s.q.x : Rat) - s.p.x) * ((p.y : Rat) / p.w - s.p.y) - ((s.q.y : Rat) - s.p.y) * ((p.x : Rat) / p.w - s.p.x)) ^ 2 /
              (((s.q.x : Rat) - s.p.x) ^ 2 + ((s.q.y : Rat) - s.p.y) ^ 2) := by
          unfold Qv
          push_cast
          rw [detH_cast _ _ _ hw, sqLen_cast]
          field_simp
        rw [hq]
        exact seg_case_mid _ _ _ _ t hLpos

end GeosModel.Buffer

namespace GeosModel.Buffer
open GeosModel.Kernel GeosModel.Relate

theorem dist2At_zero (p : HPt) (s : Seg) : dist2At p s 0 = ((p.x : Rat) / p.w - s.p.x) ^ 2 + ((p.y : Rat) / p.w - s.p.y) ^ 2 := by
  unfold dist2At; ring

theorem dist2At_one (p : HPt) (s : Seg) : dist2At p s 1 = ((p.x : Rat) / p.w - s.q.x) ^ 2 + ((p.y : Rat) / p.w - s.q.y) ^ 2 := by
  unfold dist2At; ring

/-- Lagrange: at the foot of the perpendicular the squared distance is `det² / |u|²` -/
theorem foot_value (ux uy vx vy : Rat) (hL : 0 < ux ^ 2 + uy ^ 2) :
    (vx - (ux * vx + uy * vy) / (ux ^ 2 + uy ^ 2) * ux) ^ 2 + (vy - (ux * vx + uy * vy) / (ux ^ 2 + uy ^ 2) * uy) ^ 2 =
      (ux * vy - uy * vx) ^ 2 / (ux ^ 2 + uy ^ 2) := by
  have hne : ux ^ 2 + uy ^ 2 ≠ 0 := ne_of_gt hL
  field_simp
  ring

theorem Qv_perp (p : HPt) (s : Seg) (hw : 0 < p.w) (hl : s.sqLen ≠ 0) :
    Qv ⟨detH s.p s.q p * detH s.p s.q p, s.sqLen * (p.w * p.w)⟩ =
      (((s.q.x : Rat) - s.p.x) * ((p.y : Rat) / p.w - s.p.y) - ((s.q.y : Rat) - s.p.y) * ((p.x : Rat) / p.w - s.p.x)) ^ 2 /
        (((s.q.x : Rat) - s.p.x) ^ 2 + ((s.q.y : Rat) - s.p.y) ^ 2) := by
  have hw' : (0 : Rat) < (p.w : Rat) := by exact_mod_cast hw
  have hne : ((s.sqLen : Int) : Rat) ≠ 0 := by exact_mod_cast hl
  rw [sqLen_cast] at hne
  unfold Qv
  push_cast
  rw [detH_cast _ _ _ hw, sqLen_cast]
  field_simp

theorem sqLen_pos_cast (s : Seg) (hl : s.sqLen ≠ 0) :
    (0 : Rat) < ((s.q.x : Rat) - s.p.x) ^ 2 + ((s.q.y : Rat) - s.p.y) ^ 2 := by
  have : (0 : Rat) ≤ ((s.sqLen : Int) : Rat) := by rw [sqLen_cast]; positivity
  rw [← sqLen_cast]
  have hne : ((s.sqLen : Int) : Rat) ≠ 0 := by exact_mod_cast hl
  exact lt_of_le_of_ne this (Ne.symm hne)

/-- the parameter of the foot of the perpendicular -/
def footParam (p : HPt) (s : Seg) : Rat := (dotH s.p s.q p : Rat) / ((s.sqLen : Rat) * p.w)

theorem dist2At_foot (p : HPt) (s : Seg) (hw : 0 < p.w) (hl : s.sqLen ≠ 0) :
    dist2At p s (footParam p s) = Qv ⟨detH s.p s.q p * detH s.p s.q p, s.sqLen * (p.w * p.w)⟩ := by
  have hw' : (0 : Rat) < (p.w : Rat) := by exact_mod_cast hw
  have hL := sqLen_pos_cast s hl
  rw [Qv_perp p s hw hl, ← foot_value _ _ _ _ hL]
  unfold dist2At footParam
  rw [dotH_cast _ _ _ hw, sqLen_cast]
  have hne : ((s.q.x : Rat) - s.p.x) ^ 2 + ((s.q.y : Rat) - s.p.y) ^ 2 ≠ 0 := ne_of_gt hL
  have e : (p.w : Rat) * (((s.q.x : Rat) - s.p.x) * ((p.x : Rat) / p.w - s.p.x) + ((s.q.y : Rat) - s.p.y) * ((p.y : Rat) / p.w - s.p.y)) /
      ((((s.q.x : Rat) - s.p.x) ^ 2 + ((s.q.y : Rat) - s.p.y) ^ 2) * p.w) =
      (((s.q.x : Rat) - s.p.x) * ((p.x : Rat) / p.w - s.p.x) + ((s.q.y : Rat) - s.p.y) * ((p.y : Rat) / p.w - s.p.y)) /
      (((s.q.x : Rat) - s.p.x) ^ 2 + ((s.q.y : Rat) - s.p.y) ^ 2) := by
    field_simp
  rw [e]; ring

theorem footParam_mem (p : HPt) (s : Seg) (hw : 0 < p.w) (hl : s.sqLen ≠ 0)
    (h0 : 0 ≤ dotH s.p s.q p) (h1 : dotH s.p s.q p ≤ s.sqLen * p.w) : 0 ≤ footParam p s ∧ footParam p s ≤ 1 := by
  have hw' : (0 : Rat) < (p.w : Rat) := by exact_mod_cast hw
  have hLi : (0 : Rat) < ((s.sqLen : Int) : Rat) := by rw [sqLen_cast]; exact sqLen_pos_cast s hl
  have hden : (0 : Rat) < (s.sqLen : Rat) * p.w := mul_pos hLi hw'
  have h0' : (0 : Rat) ≤ (dotH s.p s.q p : Rat) := by exact_mod_cast h0
  have h1' : (dotH s.p s.q p : Rat) ≤ (s.sqLen : Rat) * p.w := by exact_mod_cast h1
  unfold footParam
  exact ⟨div_nonneg h0' (le_of_lt hden), (div_le_one hden).2 h1'⟩

/-- the formula is attained on the segment -/
theorem d2Seg_attained (p : HPt) (s : Seg) (hw : 0 < p.w) :
    ∃ t : Rat, 0 ≤ t ∧ t ≤ 1 ∧ Qv (d2Seg p s) = dist2At p s t := by
  unfold d2Seg
  by_cases hl : s.sqLen = 0
  · refine ⟨0, le_refl _, by norm_num, ?_⟩
    simp only [hl, beq_self_eq_true, if_true]
    rw [Qv_d2Pt p s.p hw, dist2At_zero]
  · have hlne : (s.sqLen == 0) = false := by simpa using hl
    simp only [hlne, Bool.false_eq_true, if_false]
    by_cases ht0 : dotH s.p s.q p ≤ 0
    · refine ⟨0, le_refl _, by norm_num, ?_⟩
      simp only [ht0, if_true]
      rw [Qv_d2Pt p s.p hw, dist2At_zero]
    · simp only [ht0, if_false]
      by_cases ht1 : dotH s.p s.q p ≥ s.sqLen * p.w
      · refine ⟨1, by norm_num, le_refl _, ?_⟩
        simp only [ht1, if_true]
        rw [Qv_d2Pt p s.q hw, dist2At_one]
      · simp only [ht1, if_false]
        have hm := footParam_mem p s hw hl (by omega) (by omega)
        exact ⟨footParam p s, hm.1, hm.2, (dist2At_foot p s hw hl).symm⟩

/-- a slab value (foot of the perpendicular on the segment) is never smaller than the true distance -/
theorem d2Slab_ge_d2Seg (p : HPt) (s : Seg) (m2 : Q) (d : Q) (hw : 0 < p.w)
    (h : d2Slab p s m2 true = some d) : Qv (d2Seg p s) ≤ Qv d := by
  unfold d2Slab at h
  by_cases hl : s.sqLen = 0
  · simp [hl] at h
  · have hlne : (s.sqLen == 0) = false := by simpa using hl
    simp only [hlne, Bool.false_eq_true, if_false, if_true] at h
    split at h
    · rename_i hok
      simp only [Bool.and_eq_true, decide_eq_true_eq] at hok
      obtain ⟨⟨h0, _⟩, ⟨h1, _⟩⟩ := hok
      injection h with h
      rw [← h, ← dist2At_foot p s hw hl]
      have hm := footParam_mem p s hw hl h0 (by omega)
      exact d2Seg_le p s hw _ hm.1 hm.2
    · exact absurd h (by simp)

end GeosModel.Buffer
