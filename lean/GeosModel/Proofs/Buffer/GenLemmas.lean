import GeosModel.Model.Buffer.ParamsGen
import GeosModel.Proofs.Buffer.Fillet
import GeosModel.Proofs.Precision.GenRoundLemmas
import Mathlib.Tactic.FieldSimp
/-!
# Lemmas for the bridge theorems of Props/C06Gen.lean: the accumulating `for` loop of regenerated code, the fillet
offsets in radians, literals
-/
namespace GeosModel.Buffer
open GeosModel

/-- `for a in l do acc := acc ++ [g a]` (after `simp` has turned the `forIn` into a `foldl`) -/
theorem foldl_append_map {ι α : Type} (l : List ι) (init : List α) (g : ι → α) :
    l.foldl (fun acc a => acc ++ [g a]) init = init ++ l.map g := by
  induction l generalizing init with
  | nil => simp
  | cons x xs ih => simp [ih]

theorem flatten_map_singleton {ι α : Type} (l : List ι) (f : ι → α) : (l.map (fun x => [f x])).flatten = l.map f := by
  induction l with
  | nil => rfl
  | cons x xs ih => simp [ih]

theorem range'_zero_one (n : Nat) : List.range' 0 n 1 = List.range n := (List.range_eq_range' (n := n)).symm

/-- The model counts angles in units of the fillet quantum; the code in radians.  With a quantum `qm ≠ 0` and total angle
`T` (radians), the offsets of the model times the quantum are the multiples `i · (T / nSegs)` the code adds to the start
angle (`angleInc = totalAngle / nSegs`). -/
theorem map_filletOffsets {α : Type} (T qm : Rat) (hq : qm ≠ 0) (F : Rat → α) :
    (filletOffsets (T / qm)).map (fun o => F (o * qm)) =
      if nSegs (T / qm) < 1 then []
      else (List.range (nSegs (T / qm)).toNat).map (fun (i : Nat) => F ((i : Rat) * (T / ((nSegs (T / qm) : Int) : Rat)))) := by
  unfold filletOffsets
  split
  · rfl
  · rename_i hn
    rw [List.map_map]
    apply List.map_congr_left
    intro i _
    have hne : ((nSegs (T / qm) : Int) : Rat) ≠ 0 := by
      have h1 : (1 : Int) ≤ nSegs (T / qm) := by omega
      have := one_le_cast h1
      intro h0; rw [h0] at this; exact absurd this (by decide)
    simp only [Function.comp, stepQ]
    congr 1
    field_simp

end GeosModel.Buffer
