import GeosModel.Model.Buffer.Rings
/-! Lemmas about the ring walks of `Model/Buffer/Rings.lean` (core Lean only). -/
namespace GeosModel.Buffer.Rings
open GeosModel.Kernel

/-- consecutive elements are linked by `next` -/
def Linked (next : DE → Option DE) : List DE → Prop
  | a :: b :: r => next a = some b ∧ Linked next (b :: r)
  | _ => True

/-- a closed walk: starts at `first`, consecutive elements linked, the successor of the last element is `start` -/
def ClosedFrom (next : DE → Option DE) (start first : DE) (r : List DE) : Prop :=
  r.head? = some first ∧ Linked next r ∧ ∃ l, r.getLast? = some l ∧ next l = some start

theorem walkFrom_closed {next : DE → Option DE} {s : DE} :
    ∀ (fuel : Nat) (cur : DE) (r : List DE), walkFrom next s fuel cur = some r → ClosedFrom next s cur r := by
  intro fuel
  induction fuel with
  | zero => intro cur r h; simp [walkFrom] at h
  | succ fuel ih =>
    intro cur r h
    simp only [walkFrom] at h
    split at h
    · simp at h
    · rename_i n hn
      split at h
      · rename_i hs
        have : r = [cur] := by simpa using h.symm
        subst this
        have hs' : n = s := by simpa using hs
        exact ⟨rfl, trivial, cur, rfl, by rw [hn, hs']⟩
      · cases hw : walkFrom next s fuel n with
        | none => simp [hw] at h
        | some t =>
          have hr : r = cur :: t := by simpa [hw] using h.symm
          subst hr
          obtain ⟨hh, hl, l, hlast, hnl⟩ := ih n t hw
          cases t with
          | nil => simp at hh
          | cons a t' =>
            have ha : a = n := by simpa using hh
            subst ha
            refine ⟨rfl, ⟨hn, hl⟩, l, ?_, hnl⟩
            simpa [List.getLast?_cons_cons] using hlast

theorem walkFrom_mem_start {next : DE → Option DE} {s : DE} {fuel : Nat} {r : List DE}
    (h : walkFrom next s fuel s = some r) : s ∈ r := by
  obtain ⟨hh, _, _⟩ := walkFrom_closed fuel s r h
  cases r with
  | nil => simp at hh
  | cons a t => have : a = s := by simpa using hh
                subst this; exact List.mem_cons_self

/-- every candidate ends up in a ring (or was already assigned): the `if (ring == nullptr) new Ring(de)` loop loses no edge -/
theorem buildRings_covers {next : DE → Option DE} {fuel : Nat} :
    ∀ (cands asg : List DE) (rs : List (List DE)), buildRings next fuel cands asg = some rs →
      ∀ d ∈ cands, d ∈ asg ∨ ∃ r ∈ rs, d ∈ r := by
  intro cands
  induction cands with
  | nil => intro asg rs _ d hd; simp at hd
  | cons c rest ih =>
    intro asg rs h d hd
    simp only [buildRings] at h
    split at h
    · rename_i hc
      rcases List.mem_cons.mp hd with rfl | hd'
      · left; simpa using hc
      · exact ih asg rs h d hd'
    · split at h
      · simp at h
      · rename_i r hw
        obtain ⟨rs', hrs', hEq⟩ := Option.map_eq_some_iff.mp h
        subst hEq
        rcases List.mem_cons.mp hd with rfl | hd'
        · right; exact ⟨r, List.mem_cons_self, walkFrom_mem_start hw⟩
        · rcases ih (asg ++ r) rs' hrs' d hd' with hm | ⟨r', hr', hdr⟩
          · rcases List.mem_append.mp hm with h1 | h2
            · left; exact h1
            · right; exact ⟨r, List.mem_cons_self, h2⟩
          · right; exact ⟨r', List.mem_cons_of_mem _ hr', hdr⟩

/-- every ring that is built is a closed walk of `next` from its first edge -/
theorem buildRings_closed {next : DE → Option DE} {fuel : Nat} :
    ∀ (cands asg : List DE) (rs : List (List DE)), buildRings next fuel cands asg = some rs →
      ∀ r ∈ rs, ∃ d ∈ cands, ClosedFrom next d d r := by
  intro cands
  induction cands with
  | nil => intro asg rs h r hr; simp [buildRings] at h; subst h; simp at hr
  | cons c rest ih =>
    intro asg rs h r hr
    simp only [buildRings] at h
    split at h
    · obtain ⟨d, hd, hc⟩ := ih asg rs h r hr
      exact ⟨d, List.mem_cons_of_mem _ hd, hc⟩
    · split at h
      · simp at h
      · rename_i r0 hw
        obtain ⟨rs', hrs', hEq⟩ := Option.map_eq_some_iff.mp h
        subst hEq
        rcases List.mem_cons.mp hr with rfl | hr'
        · exact ⟨c, List.mem_cons_self, walkFrom_closed _ _ _ hw⟩
        · obtain ⟨d, hd, hc⟩ := ih (asg ++ r0) rs' hrs' r hr'
          exact ⟨d, List.mem_cons_of_mem _ hd, hc⟩

/-! ### disjointness (needs: no edge is the successor of two edges) -/

/-- `next` is injective as a partial function -/
def Injective (next : DE → Option DE) : Prop := ∀ a b c, next a = some c → next b = some c → a = b

/-- `S` contains every predecessor of its elements -/
def PredClosed (next : DE → Option DE) (S : List DE) : Prop := ∀ y x, next y = some x → x ∈ S → y ∈ S

theorem linked_tail_has_pred {next : DE → Option DE} :
    ∀ (t : List DE) (a : DE), Linked next (a :: t) → ∀ x ∈ t, ∃ p ∈ a :: t, next p = some x := by
  intro t
  induction t with
  | nil => intro a _ x hx; simp at hx
  | cons b t ih =>
    intro a hl x hx
    obtain ⟨hab, hl'⟩ := hl
    rcases List.mem_cons.mp hx with rfl | hx'
    · exact ⟨a, List.mem_cons_self, hab⟩
    · obtain ⟨p, hp, hpx⟩ := ih b hl' x hx'
      exact ⟨p, List.mem_cons_of_mem _ hp, hpx⟩

/-- in a closed walk every edge has a predecessor on the walk -/
theorem closed_has_pred {next : DE → Option DE} {d : DE} {r : List DE} (h : ClosedFrom next d d r) :
    ∀ x ∈ r, ∃ p ∈ r, next p = some x := by
  obtain ⟨hh, hl, l, hlast, hnl⟩ := h
  cases r with
  | nil => simp at hh
  | cons a t =>
    have ha : a = d := by simpa using hh
    subst ha
    intro x hx
    rcases List.mem_cons.mp hx with rfl | hx'
    · exact ⟨l, List.mem_of_getLast? hlast, hnl⟩
    · exact linked_tail_has_pred t a hl x hx'

theorem closed_predClosed {next : DE → Option DE} (hinj : Injective next) {d : DE} {r : List DE}
    (h : ClosedFrom next d d r) : PredClosed next r := by
  intro y x hyx hx
  obtain ⟨p, hp, hpx⟩ := closed_has_pred h x hx
  have : y = p := hinj y p x hyx hpx
  subst this; exact hp

theorem predClosed_append {next : DE → Option DE} {S T : List DE} (hS : PredClosed next S) (hT : PredClosed next T) :
    PredClosed next (S ++ T) := by
  intro y x hyx hx
  rcases List.mem_append.mp hx with h | h
  · exact List.mem_append_left _ (hS y x hyx h)
  · exact List.mem_append_right _ (hT y x hyx h)

/-- a linked walk that starts outside a predecessor-closed set stays outside it -/
theorem linked_avoids {next : DE → Option DE} {S : List DE} (hS : PredClosed next S) :
    ∀ (t : List DE) (a : DE), Linked next (a :: t) → a ∉ S → ∀ x ∈ a :: t, x ∉ S := by
  intro t
  induction t with
  | nil => intro a _ ha x hx; have : x = a := by simpa using hx
           subst this; exact ha
  | cons b t ih =>
    intro a hl ha x hx
    obtain ⟨hab, hl'⟩ := hl
    rcases List.mem_cons.mp hx with rfl | hx'
    · exact ha
    · have hb : b ∉ S := fun hb => ha (hS a b hab hb)
      exact ih b hl' hb x hx'

theorem closed_avoids {next : DE → Option DE} {S : List DE} (hS : PredClosed next S) {d : DE} {r : List DE}
    (h : ClosedFrom next d d r) (hd : d ∉ S) : ∀ x ∈ r, x ∉ S := by
  obtain ⟨hh, hl, _⟩ := h
  cases r with
  | nil => intro x hx; simp at hx
  | cons a t =>
    have ha : a = d := by simpa using hh
    subst ha
    exact linked_avoids hS t a hl hd

/-- with an injective successor function the rings built are pairwise disjoint and avoid what was assigned before -/
theorem buildRings_disjoint {next : DE → Option DE} (hinj : Injective next) {fuel : Nat} :
    ∀ (cands asg : List DE) (rs : List (List DE)), buildRings next fuel cands asg = some rs → PredClosed next asg →
      (∀ r ∈ rs, ∀ x ∈ r, x ∉ asg) ∧ rs.Pairwise (fun r1 r2 => ∀ x ∈ r1, x ∉ r2) := by
  intro cands
  induction cands with
  | nil => intro asg rs h _; simp [buildRings] at h; subst h; simp
  | cons c rest ih =>
    intro asg rs h hS
    simp only [buildRings] at h
    split at h
    · exact ih asg rs h hS
    · rename_i hc
      split at h
      · simp at h
      · rename_i r hw
        obtain ⟨rs', hrs', hEq⟩ := Option.map_eq_some_iff.mp h
        subst hEq
        have hcl := walkFrom_closed _ _ _ hw
        have hcS : c ∉ asg := by simpa using hc
        have hav := closed_avoids hS hcl hcS
        have hS' : PredClosed next (asg ++ r) := predClosed_append hS (closed_predClosed hinj hcl)
        obtain ⟨h1, h2⟩ := ih (asg ++ r) rs' hrs' hS'
        refine ⟨?_, ?_⟩
        · intro r' hr' x hx
          rcases List.mem_cons.mp hr' with rfl | hr''
          · exact hav x hx
          · exact fun hxa => h1 r' hr'' x hx (List.mem_append_left _ hxa)
        · refine List.pairwise_cons.mpr ⟨?_, h2⟩
          intro r' hr' x hx hx'
          exact h1 r' hr' x hx' (List.mem_append_right _ hx)

/-! ### no edge twice on one ring -/

theorem walkFrom_tail {next : DE → Option DE} {s : DE} :
    ∀ (fuel : Nat) (cur : DE) (r : List DE), walkFrom next s fuel cur = some r → ∃ t, r = cur :: t ∧ s ∉ t := by
  intro fuel
  induction fuel with
  | zero => intro cur r h; simp [walkFrom] at h
  | succ fuel ih =>
    intro cur r h
    simp only [walkFrom] at h
    split at h
    · simp at h
    · rename_i n hn
      split at h
      · exact ⟨[], by simpa using h.symm, by simp⟩
      · rename_i hs
        cases hw : walkFrom next s fuel n with
        | none => simp [hw] at h
        | some t0 =>
          have hr : r = cur :: t0 := by simpa [hw] using h.symm
          obtain ⟨t1, ht1, hs1⟩ := ih n t0 hw
          refine ⟨t0, hr, ?_⟩
          subst ht1
          intro hmem
          rcases List.mem_cons.mp hmem with h1 | h1
          · exact hs (by simp [h1])
          · exact hs1 h1

theorem linked_nodup {next : DE → Option DE} (hinj : Injective next) :
    ∀ (t : List DE) (a : DE), Linked next (a :: t) → a ∉ t → (a :: t).Nodup := by
  intro t
  induction t with
  | nil => intro a _ _; simp
  | cons b t ih =>
    intro a hl ha
    obtain ⟨hab, hl'⟩ := hl
    have hb : b ∉ t := by
      intro hbt
      obtain ⟨p, hp, hpb⟩ := linked_tail_has_pred t b hl' b hbt
      have : a = p := hinj a p b hab hpb
      subst this; exact ha hp
    exact List.nodup_cons.mpr ⟨ha, ih b hl' hb⟩

theorem walkFrom_nodup {next : DE → Option DE} (hinj : Injective next) {s : DE} {fuel : Nat} {r : List DE}
    (h : walkFrom next s fuel s = some r) : r.Nodup := by
  obtain ⟨t, hr, hs⟩ := walkFrom_tail fuel s r h
  obtain ⟨_, hl, _⟩ := walkFrom_closed fuel s r h
  subst hr
  exact linked_nodup hinj t s hl hs

theorem buildRings_nodup {next : DE → Option DE} (hinj : Injective next) {fuel : Nat} :
    ∀ (cands asg : List DE) (rs : List (List DE)), buildRings next fuel cands asg = some rs → ∀ r ∈ rs, r.Nodup := by
  intro cands
  induction cands with
  | nil => intro asg rs h r hr; simp [buildRings] at h; subst h; simp at hr
  | cons c rest ih =>
    intro asg rs h r hr
    simp only [buildRings] at h
    split at h
    · exact ih asg rs h r hr
    · split at h
      · simp at h
      · rename_i r0 hw
        obtain ⟨rs', hrs', hEq⟩ := Option.map_eq_some_iff.mp h
        subst hEq
        rcases List.mem_cons.mp hr with rfl | hr'
        · exact walkFrom_nodup hinj hw
        · exact ih (asg ++ r0) rs' hrs' r hr'

/-! ### link tables -/

theorem lookup_mem {m : List (DE × DE)} {a c : DE} (h : lookup m a = some c) : (a, c) ∈ m := by
  unfold lookup at h
  obtain ⟨x, hx, hxc⟩ := Option.map_eq_some_iff.mp h
  have hm := List.mem_of_find?_eq_some hx
  have hk := List.find?_some hx
  have h1 : x.1 = a := by simpa using hk
  have : x = (a, c) := by cases x; simp_all
  subst this; exact hm

theorem pair_unique {m : List (DE × DE)} (hn : (m.map (·.2)).Nodup) {a b c : DE} (ha : (a, c) ∈ m) (hb : (b, c) ∈ m) : a = b := by
  induction m with
  | nil => simp at ha
  | cons kv rest ih =>
    simp only [List.map_cons, List.nodup_cons] at hn
    obtain ⟨hv, hrest⟩ := hn
    rcases List.mem_cons.mp ha with h1 | h1 <;> rcases List.mem_cons.mp hb with h2 | h2
    · have e1 : a = kv.1 := by rw [← h1]
      have e2 : b = kv.1 := by rw [← h2]
      rw [e1, e2]
    · exfalso; apply hv
      have : kv.2 = c := by rw [← h1]
      rw [this]; exact List.mem_map.mpr ⟨(b, c), h2, rfl⟩
    · exfalso; apply hv
      have : kv.2 = c := by rw [← h2]
      rw [this]; exact List.mem_map.mpr ⟨(a, c), h1, rfl⟩
    · exact ih hrest h1 h2

/-- a link table in which no edge is the successor of two edges gives an injective successor function -/
theorem lookup_injective {m : List (DE × DE)} (hn : (m.map (·.2)).Nodup) : Injective (lookup m) :=
  fun _ _ _ ha hb => pair_unique hn (lookup_mem ha) (lookup_mem hb)

/-- splitting maximal rings into minimal rings loses no edge -/
theorem splitAll_covers (g : Graph) :
    ∀ (ms out : List (List DE)), splitAll g ms = some out → ∀ R ∈ ms, ∀ d ∈ R, ∃ r ∈ out, d ∈ r := by
  intro ms
  induction ms with
  | nil => intro out _ R hR; simp at hR
  | cons M rest ih =>
    intro out h R hR d hd
    simp only [splitAll] at h
    split at h
    · split at h
      · rename_i mins out' hmin hrest
        have hEq : out = mins ++ out' := by simpa using h.symm
        subst hEq
        rcases List.mem_cons.mp hR with rfl | hR'
        · rcases buildRings_covers R [] mins hmin d hd with hm | ⟨r, hr, hdr⟩
          · simp at hm
          · exact ⟨r, List.mem_append_left _ hr, hdr⟩
        · obtain ⟨r, hr, hdr⟩ := ih out' hrest R hR' d hd
          exact ⟨r, List.mem_append_right _ hr, hdr⟩
      · simp at h
    · obtain ⟨out', hrest, hEq⟩ := Option.map_eq_some_iff.mp h
      subst hEq
      rcases List.mem_cons.mp hR with rfl | hR'
      · exact ⟨R, List.mem_cons_self, hd⟩
      · obtain ⟨r, hr, hdr⟩ := ih out' hrest R hR' d hd
        exact ⟨r, List.mem_cons_of_mem _ hr, hdr⟩

/-! ### hole placement: the smallest containing shell -/

theorem Env.contains_refl (a : Env) : a.contains a = true := by
  simp [Env.contains]

theorem Env.contains_trans {a b c : Env} (h1 : a.contains b = true) (h2 : b.contains c = true) : a.contains c = true := by
  simp [Env.contains] at *
  omega

/-- the shell found is the start value or a qualifying shell of the list -/
theorem pickMin_mem (g : Graph) (hp : List Pt) (he : Env) :
    ∀ (shells : List (List DE)) (st res : Option (List DE × Env)), pickMin g hp he shells st = res →
      res = st ∨ ∃ r, res = some r ∧ r.1 ∈ shells ∧ qualifies g hp he r.1 = some r.2 := by
  intro shells
  induction shells with
  | nil => intro st res h; left; simpa [pickMin] using h.symm
  | cons s rest ih =>
    intro st res h
    simp only [pickMin] at h
    split at h
    · rcases ih st res h with h1 | ⟨r, hr, hm, hq⟩
      · left; exact h1
      · right; exact ⟨r, hr, List.mem_cons_of_mem _ hm, hq⟩
    · rename_i se hq
      have key : ∀ st', pickMin g hp he rest st' = res → (st' = st ∨ st' = some (s, se)) →
          res = st ∨ ∃ r, res = some r ∧ r.1 ∈ s :: rest ∧ qualifies g hp he r.1 = some r.2 := by
        intro st' h' hst'
        rcases ih st' res h' with h1 | ⟨r, hr, hm, hq'⟩
        · rcases hst' with h2 | h2
          · left; rw [h1, h2]
          · right; exact ⟨(s, se), by rw [h1, h2], List.mem_cons_self, hq⟩
        · right; exact ⟨r, hr, List.mem_cons_of_mem _ hm, hq'⟩
      split at h
      · exact key _ h (Or.inr rfl)
      · split at h
        · exact key _ h (Or.inr rfl)
        · rename_i m me _
          exact key _ h (Or.inl rfl)

/-- when the envelopes of the qualifying shells are pairwise comparable (nested shells), the envelope of the shell found is contained
in the envelope of EVERY qualifying shell: the hole goes to the smallest container -/
theorem pickMin_min (g : Graph) (hp : List Pt) (he : Env) (W : Env → Prop)
    (hW : ∀ a b, W a → W b → a.contains b = true ∨ b.contains a = true) :
    ∀ (shells : List (List DE)) (st : Option (List DE × Env)) (res : List DE × Env),
      (∀ s ∈ shells, ∀ se, qualifies g hp he s = some se → W se) →
      (∀ m, st = some m → W m.2) →
      pickMin g hp he shells st = some res →
      W res.2 ∧ (∀ m, st = some m → m.2.contains res.2 = true) ∧
        (∀ s ∈ shells, ∀ se, qualifies g hp he s = some se → se.contains res.2 = true) := by
  intro shells
  induction shells with
  | nil =>
    intro st res _ hst h
    simp only [pickMin] at h
    refine ⟨hst res h, ?_, ?_⟩
    · intro m hm; rw [h] at hm; cases hm; exact Env.contains_refl _
    · intro s hs; simp at hs
  | cons s rest ih =>
    intro st res hall hst h
    have hrest : ∀ s' ∈ rest, ∀ se, qualifies g hp he s' = some se → W se :=
      fun s' hs' => hall s' (List.mem_cons_of_mem _ hs')
    simp only [pickMin] at h
    split at h
    · rename_i hq
      obtain ⟨h1, h2, h3⟩ := ih st res hrest hst h
      refine ⟨h1, h2, ?_⟩
      intro s' hs' se hse
      rcases List.mem_cons.mp hs' with rfl | hs''
      · rw [hq] at hse; cases hse
      · exact h3 s' hs'' se hse
    · rename_i se hq
      have hWse : W se := hall s List.mem_cons_self se hq
      split at h
      · -- no minimum yet
        obtain ⟨h1, h2, h3⟩ := ih (some (s, se)) res hrest (by intro m hm; cases hm; exact hWse) h
        refine ⟨h1, (by intro m hm; cases hm), ?_⟩
        intro s' hs' se' hse'
        rcases List.mem_cons.mp hs' with rfl | hs''
        · rw [hq] at hse'; cases hse'; exact h2 (s', se) rfl
        · exact h3 s' hs'' se' hse'
      · rename_i m me
        have hWme : W me := hst (m, me) rfl
        split at h
        · rename_i hc
          obtain ⟨h1, h2, h3⟩ := ih (some (s, se)) res hrest (by intro m' hm'; cases hm'; exact hWse) h
          have hse_res := h2 (s, se) rfl
          refine ⟨h1, ?_, ?_⟩
          · intro m' hm'; cases hm'; exact Env.contains_trans hc hse_res
          · intro s' hs' se' hse'
            rcases List.mem_cons.mp hs' with rfl | hs''
            · rw [hq] at hse'; cases hse'; exact hse_res
            · exact h3 s' hs'' se' hse'
        · rename_i hc
          obtain ⟨h1, h2, h3⟩ := ih (some (m, me)) res hrest (by intro m' hm'; cases hm'; exact hWme) h
          have hme_res := h2 (m, me) rfl
          refine ⟨h1, ?_, ?_⟩
          · intro m' hm'; cases hm'; exact hme_res
          · intro s' hs' se' hse'
            rcases List.mem_cons.mp hs' with rfl | hs''
            · rw [hq] at hse'; cases hse'
              rcases hW me se hWme hWse with h4 | h4
              · exact absurd h4 hc
              · exact Env.contains_trans h4 hme_res
            · exact h3 s' hs'' se' hse'

end GeosModel.Buffer.Rings
