import GeosModel.Model.Buffer.Params
/-! Lemmas about the parameter model (`Model/Buffer/Params.lean`).  Core Lean only. -/
namespace GeosModel.Buffer.Core

theorem default_legal : Config.default.Legal := by decide

theorem apply_keeps (c c' : Config) (s : Setter) (hc : c.Legal) (hs : s.apply c = some c') : c'.Legal := by
  unfold Config.Legal at hc ⊢
  cases s with
  | quad q => simp only [Setter.apply, setQuadrantSegments, Option.some.injEq] at hs; subst hs; exact hc
  | cap v =>
    simp only [Setter.apply, setEndCapStyle] at hs
    split at hs
    · exact absurd hs (by simp)
    · rename_i h
      simp only [Option.some.injEq] at hs; subst hs
      exact ⟨by show 1 ≤ v; omega, by show v ≤ 3; omega, hc.2.2.1, hc.2.2.2⟩
  | join v =>
    simp only [Setter.apply, setJoinStyle] at hs
    split at hs
    · exact absurd hs (by simp)
    · rename_i h
      simp only [Option.some.injEq] at hs; subst hs
      exact ⟨hc.1, hc.2.1, by show 1 ≤ v; omega, by show v ≤ 3; omega⟩
  | mitre m => simp only [Setter.apply, setMitreLimit, Option.some.injEq] at hs; subst hs; exact hc
  | single v => simp only [Setter.apply, setSingleSided, Option.some.injEq] at hs; subst hs; exact hc

theorem setters_keep_legal (l : List Setter) (c : Config) (hc : c.Legal) : (runSetters c l).1.Legal := by
  induction l generalizing c with
  | nil => simpa [runSetters] using hc
  | cons s r ih =>
    unfold runSetters
    cases hs : s.apply c with
    | none => simpa using ih c hc
    | some c' => simpa using ih c' (apply_keeps c c' s hc hs)

theorem reject_iff_withStyle (q cap join : Int) (m : UInt64) :
    (Entry.withStyle q cap join m).config = none ↔ (cap < 1 ∨ cap > 3 ∨ join < 1 ∨ join > 3) := by
  simp only [Entry.config]
  by_cases h1 : cap < 1 ∨ cap > 3
  · rw [if_pos h1]
    exact ⟨fun _ => h1.elim Or.inl (fun h => Or.inr (Or.inl h)), fun _ => rfl⟩
  · rw [if_neg h1]
    by_cases h2 : join < 1 ∨ join > 3
    · rw [if_pos h2]
      exact ⟨fun _ => h2.elim (fun h => Or.inr (Or.inr (Or.inl h))) (fun h => Or.inr (Or.inr (Or.inr h))), fun _ => rfl⟩
    · rw [if_neg h2]
      constructor
      · intro h; exact absurd h (by simp)
      · intro h
        rcases h with h | h | h | h
        · exact absurd (Or.inl h) h1
        · exact absurd (Or.inr h) h1
        · exact absurd (Or.inl h) h2
        · exact absurd (Or.inr h) h2

theorem reject_iff_offsetCurve (q join : Int) (m : UInt64) :
    (Entry.offsetCurve q join m).config = none ↔ (join < 1 ∨ join > 3) := by
  simp only [Entry.config]
  by_cases h2 : join < 1 ∨ join > 3 <;> simp [h2]

theorem reject_iff_singleSided (q join : Int) (m : UInt64) (l : Int) :
    (Entry.singleSidedBuffer q join m l).config = none ↔ (join < 1 ∨ join > 3) := by
  simp only [Entry.config]
  by_cases h2 : join < 1 ∨ join > 3 <;> simp [h2]

theorem effCap_ne_none (s : Int) (h1 : 1 ≤ s) (h3 : s ≤ 3) : effCap s ≠ .none := by
  have : s = 1 ∨ s = 2 ∨ s = 3 := by omega
  rcases this with h | h | h <;> subst h <;> decide

theorem effCap_none_iff (s : Int) (h : s ≤ 3) : effCap s = .none ↔ s < 1 := by
  unfold effCap
  by_cases h1 : s = 1
  · subst h1; decide
  · by_cases h2 : s = 2
    · subst h2; decide
    · by_cases h3 : s = 3
      · subst h3; decide
      · have e1 : (s == 1) = false := by simpa using h1
        have e2 : (s == 2) = false := by simpa using h2
        have e3 : (s == 3) = false := by simpa using h3
        simp only [e1, e2, e3, Bool.false_eq_true, if_false, true_iff]
        omega

theorem effJoin_round_iff (j : Int) : effJoin j = .round ↔ (j ≠ 2 ∧ j ≠ 3) := by
  unfold effJoin
  by_cases h2 : j = 2
  · subst h2; decide
  · by_cases h3 : j = 3
    · subst h3; decide
    · have e2 : (j == 2) = false := by simpa using h2
      have e3 : (j == 3) = false := by simpa using h3
      simp [e2, e3, h2, h3]

theorem effQuad_pos (c : Config) : 1 ≤ c.effQuad := by
  unfold Config.effQuad quadSegsEff; split <;> omega

/-- every accepted call runs with a legal configuration -/
theorem params_total (e : Entry) (c : Config) (hreach : ∀ cfg, e = .withParams cfg → cfg.Legal) (h : e.config = some c) :
    c.Legal := by
  cases e with
  | buffer q =>
    simp only [Entry.config, Option.some.injEq] at h; subst h
    show (1 : Int) ≤ 1 ∧ (1 : Int) ≤ 3 ∧ (1 : Int) ≤ 1 ∧ (1 : Int) ≤ 3
    omega
  | withStyle q cap join m =>
    simp only [Entry.config] at h
    split at h
    · exact absurd h (by simp)
    · split at h
      · exact absurd h (by simp)
      · simp only [Option.some.injEq] at h; subst h
        show 1 ≤ cap ∧ cap ≤ 3 ∧ 1 ≤ join ∧ join ≤ 3
        omega
  | withParams cfg => simp only [Entry.config, Option.some.injEq] at h; subst h; exact hreach cfg rfl
  | offsetCurve q join m =>
    simp only [Entry.config] at h
    split at h
    · exact absurd h (by simp)
    · simp only [Option.some.injEq] at h; subst h
      show (1 : Int) ≤ 1 ∧ (1 : Int) ≤ 3 ∧ 1 ≤ join ∧ join ≤ 3
      omega
  | singleSidedBuffer q join m l =>
    simp only [Entry.config] at h
    split at h
    · exact absurd h (by simp)
    · simp only [Option.some.injEq] at h; subst h
      show (1 : Int) ≤ 2 ∧ (2 : Int) ≤ 3 ∧ 1 ≤ join ∧ join ≤ 3
      omega

theorem offsetCurve_quad_ge8 (q join : Int) (m : UInt64) (c : Config) (h : (Entry.offsetCurve q join m).config = some c) :
    8 ≤ c.quadSegs ∧ c.endCap = 1 := by
  simp only [Entry.config] at h
  split at h
  · exact absurd h (by simp)
  · simp only [Option.some.injEq] at h; subst h
    constructor
    · show 8 ≤ (if q < 8 then 8 else q); split <;> omega
    · rfl

theorem singleSided_cap_flat (q join : Int) (m : UInt64) (l : Int) (c : Config)
    (h : (Entry.singleSidedBuffer q join m l).config = some c) : effCap c.endCap = .flat ∧ c.quadSegs = q := by
  simp only [Entry.config] at h
  split at h
  · exact absurd h (by simp)
  · simp only [Option.some.injEq] at h; subst h; exact ⟨by show effCap 2 = .flat; decide, rfl⟩

end GeosModel.Buffer.Core
