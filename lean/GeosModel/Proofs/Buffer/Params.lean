import GeosModel.Model.Buffer.Params
/-! Lemmas about the parameter model (`Model/Buffer/Params.lean`).  Core Lean only. -/
namespace GeosModel.Buffer.Core

theorem apply_keeps (c c' : Config) (s : Setter) (hc : c.endCap ≤ 3 ∧ c.join ≤ 3) (hs : s.apply c = some c') :
    c'.endCap ≤ 3 ∧ c'.join ≤ 3 := by
  cases s with
  | quad q => simp only [Setter.apply, setQuadrantSegments, Option.some.injEq] at hs; subst hs; exact hc
  | cap v =>
    simp only [Setter.apply, setEndCapStyle] at hs
    split at hs
    · exact absurd hs (by simp)
    · simp only [Option.some.injEq] at hs; subst hs; exact ⟨by show v ≤ 3; omega, hc.2⟩
  | join v =>
    simp only [Setter.apply, setJoinStyle] at hs
    split at hs
    · exact absurd hs (by simp)
    · simp only [Option.some.injEq] at hs; subst hs; exact ⟨hc.1, by show v ≤ 3; omega⟩
  | mitre m => simp only [Setter.apply, setMitreLimit, Option.some.injEq] at hs; subst hs; exact hc
  | single v => simp only [Setter.apply, setSingleSided, Option.some.injEq] at hs; subst hs; exact hc

theorem setters_keep_upper (l : List Setter) (c : Config) (hc : c.endCap ≤ 3 ∧ c.join ≤ 3) :
    (runSetters c l).1.endCap ≤ 3 ∧ (runSetters c l).1.join ≤ 3 := by
  induction l generalizing c with
  | nil => simpa [runSetters] using hc
  | cons s r ih =>
    unfold runSetters
    cases hs : s.apply c with
    | none => simpa using ih c hc
    | some c' => simpa using ih c' (apply_keeps c c' s hc hs)

theorem reject_iff_withStyle (q cap join : Int) (m : UInt64) :
    (Entry.withStyle q cap join m).config = none ↔ (cap > 3 ∨ join > 3) := by
  simp only [Entry.config]
  by_cases h1 : cap > 3
  · simp [h1]
  · by_cases h2 : join > 3
    · simp [h1, h2]
    · simp [h1, h2]

theorem reject_iff_offsetCurve (q join : Int) (m : UInt64) :
    (Entry.offsetCurve q join m).config = none ↔ join > 3 := by
  simp only [Entry.config]
  by_cases h2 : join > 3 <;> simp [h2]

theorem reject_iff_singleSided (q join : Int) (m : UInt64) (l : Int) :
    (Entry.singleSidedBuffer q join m l).config = none ↔ join > 3 := by
  simp only [Entry.config]
  by_cases h2 : join > 3 <;> simp [h2]

theorem effCap_none_iff (s : Int) (h : s ≤ 3) : effCap s = .none ↔ s < 1 := by
  unfold effCap
  by_cases h1 : s = 1
  · subst h1; decide
  · by_cases h2 : s = 2
    · subst h2; decide
    · by_cases h3 : s = 3
      · subst h3; decide
      · have e1 : (s == 1) = false := by simpa using h1
        have e2 : (s == 2) = false := by simpa using h2
        have e3 : (s == 3) = false := by simpa using h3
        simp only [e1, e2, e3, Bool.false_eq_true, if_false, true_iff]
        omega

theorem effJoin_round_iff (j : Int) : effJoin j = .round ↔ (j ≠ 2 ∧ j ≠ 3) := by
  unfold effJoin
  by_cases h2 : j = 2
  · subst h2; decide
  · by_cases h3 : j = 3
    · subst h3; decide
    · have e2 : (j == 2) = false := by simpa using h2
      have e3 : (j == 3) = false := by simpa using h3
      simp [e2, e3, h2, h3]

theorem effQuad_pos (c : Config) : 1 ≤ c.effQuad := by
  unfold Config.effQuad quadSegsEff; split <;> omega

theorem params_total (e : Entry) (hreach : ∀ cfg, e = .withParams cfg → cfg.endCap ≤ 3 ∧ cfg.join ≤ 3) :
    e.config = none ∨ ∃ c, e.config = some c ∧ c.endCap ≤ 3 ∧ c.join ≤ 3 ∧ 1 ≤ c.effQuad ∧
      (effCap c.endCap = .none ↔ c.endCap < 1) ∧
      (effJoin c.join = .round ↔ (c.join ≠ 2 ∧ c.join ≠ 3)) := by
  cases e with
  | buffer q =>
    right
    refine ⟨_, rfl, ?_, ?_, effQuad_pos _, effCap_none_iff _ ?_, effJoin_round_iff _⟩ <;> (show (1 : Int) ≤ 3; omega)
  | withStyle q cap join m =>
    by_cases h : cap > 3 ∨ join > 3
    · left; exact (reject_iff_withStyle q cap join m).mpr h
    · right
      have hc : ¬ cap > 3 := fun x => h (Or.inl x)
      have hj : ¬ join > 3 := fun x => h (Or.inr x)
      refine ⟨⟨q, cap, join, m, false⟩, by simp [Entry.config, hc, hj], ?_, ?_, effQuad_pos _, effCap_none_iff _ ?_, effJoin_round_iff _⟩
      · show cap ≤ 3; omega
      · show join ≤ 3; omega
      · show cap ≤ 3; omega
  | withParams cfg =>
    right
    have := hreach cfg rfl
    exact ⟨cfg, rfl, this.1, this.2, effQuad_pos _, effCap_none_iff _ this.1, effJoin_round_iff _⟩
  | offsetCurve q join m =>
    by_cases h : join > 3
    · left; exact (reject_iff_offsetCurve q join m).mpr h
    · right
      refine ⟨⟨if q < 8 then 8 else q, 1, join, m, false⟩, by simp [Entry.config, h], ?_, ?_, effQuad_pos _, effCap_none_iff _ ?_, effJoin_round_iff _⟩
      · show (1 : Int) ≤ 3; omega
      · show join ≤ 3; omega
      · show (1 : Int) ≤ 3; omega
  | singleSidedBuffer q join m l =>
    by_cases h : join > 3
    · left; exact (reject_iff_singleSided q join m l).mpr h
    · right
      refine ⟨⟨q, 2, join, m, false⟩, by simp [Entry.config, h], ?_, ?_, effQuad_pos _, effCap_none_iff _ ?_, effJoin_round_iff _⟩
      · show (2 : Int) ≤ 3; omega
      · show join ≤ 3; omega
      · show (2 : Int) ≤ 3; omega

theorem params_total_partial (q cap join : Int) (m : UInt64) (hc : 1 ≤ cap) (hj : 1 ≤ join) :
    (Entry.withStyle q cap join m).config = none ∨ ∃ c, (Entry.withStyle q cap join m).config = some c ∧ c.Legal := by
  by_cases h : cap > 3 ∨ join > 3
  · left; exact (reject_iff_withStyle q cap join m).mpr h
  · right
    have hc3 : ¬ cap > 3 := fun x => h (Or.inl x)
    have hj3 : ¬ join > 3 := fun x => h (Or.inr x)
    refine ⟨⟨q, cap, join, m, false⟩, by simp [Entry.config, hc3, hj3], ?_⟩
    show 1 ≤ cap ∧ cap ≤ 3 ∧ 1 ≤ join ∧ join ≤ 3
    omega

theorem offsetCurve_quad_ge8 (q join : Int) (m : UInt64) (c : Config) (h : (Entry.offsetCurve q join m).config = some c) :
    8 ≤ c.quadSegs ∧ c.endCap = 1 := by
  simp only [Entry.config] at h
  split at h
  · exact absurd h (by simp)
  · simp only [Option.some.injEq] at h; subst h
    constructor
    · show 8 ≤ (if q < 8 then 8 else q); split <;> omega
    · rfl

theorem singleSided_cap_flat (q join : Int) (m : UInt64) (l : Int) (c : Config)
    (h : (Entry.singleSidedBuffer q join m l).config = some c) : effCap c.endCap = .flat ∧ c.quadSegs = q := by
  simp only [Entry.config] at h
  split at h
  · exact absurd h (by simp)
  · simp only [Option.some.injEq] at h; subst h; exact ⟨by show effCap 2 = .flat; decide, rfl⟩

end GeosModel.Buffer.Core
