import GeosModel.Model.Buffer.Spec
import Mathlib.Analysis.SpecialFunctions.Trigonometric.Bounds
import Mathlib.Analysis.Real.Pi.Bounds
/-!
# The rational cosine bounds of `Model/Buffer/Spec.lean` are sound

`cosLB k y ≤ cos x` for every real `0 ≤ x ≤ y`, `cos x ≤ cosUB k y` for every real `y ≤ x ≤ π`; hence the table
entries `cosDocLo q ≤ cos(π/(4q)) ≤ cosDocHi q` and `cosStepLo q ≤ cos(3π/(8q))`, and the inner factors used by the
driver are below `1 − e(q)`.  Uses Mathlib's `Real.cos`, `Real.one_sub_sq_div_two_le_cos`, `Real.cos_bound`,
`Real.pi_gt_d6`, `Real.pi_lt_d6`.
-/
namespace GeosModel.Buffer
open Real

theorem twoPow64_pos : (0 : Rat) < twoPow64 := by unfold twoPow64; norm_num

theorem rdown_le (c : Rat) : rdown c ≤ c := by
  unfold rdown
  have h := Rat.floor_le (c * twoPow64)
  rw [div_le_iff₀ twoPow64_pos]
  exact h

theorem cosLB_sound : ∀ (k : Nat) (y c : Rat), cosLB k y = some c → 0 ≤ y →
    ∀ x : ℝ, 0 ≤ x → x ≤ (y : ℝ) → (c : ℝ) ≤ Real.cos x
  | 0, y, c, h, hy, x, hx0, hxy => by
    simp only [cosLB, Option.some.injEq] at h
    have h1 : (c : ℝ) ≤ ((1 - y * y / 2 : Rat) : ℝ) := by
      rw [← h]; exact_mod_cast rdown_le _
    have h2 : ((1 - y * y / 2 : Rat) : ℝ) ≤ 1 - x ^ 2 / 2 := by
      push_cast
      have : x ^ 2 ≤ (y : ℝ) * y := by nlinarith
      linarith
    exact le_trans h1 (le_trans h2 Real.one_sub_sq_div_two_le_cos)
  | k + 1, y, c, h, hy, x, hx0, hxy => by
    simp only [cosLB] at h
    split at h
    · rename_i c' hc'
      split at h
      · rename_i hpos
        simp only [Option.some.injEq] at h
        have ih := cosLB_sound k (y / 2) c' hc' (by positivity) (x / 2) (by positivity)
          (by push_cast; linarith)
        have hc0 : (0 : ℝ) ≤ (c' : ℝ) := by exact_mod_cast hpos
        have h1 : (c : ℝ) ≤ ((2 * c' * c' - 1 : Rat) : ℝ) := by rw [← h]; exact_mod_cast rdown_le _
        have h2 : ((2 * c' * c' - 1 : Rat) : ℝ) ≤ 2 * Real.cos (x / 2) ^ 2 - 1 := by
          push_cast
          nlinarith [mul_le_mul ih ih hc0 (le_trans hc0 ih)]
        have h3 : Real.cos x = 2 * Real.cos (x / 2) ^ 2 - 1 := by
          have := Real.cos_two_mul (x / 2)
          rw [← this]; congr 1; ring
        linarith
      · exact absurd h (by simp)
    · exact absurd h (by simp)

theorem le_rup (c : Rat) : c ≤ rup c := by
  unfold rup
  have h : c * twoPow64 ≤ ((c * twoPow64).ceil : Rat) := Rat.le_ceil
  rw [le_div_iff₀ twoPow64_pos]
  exact h

theorem cos_upper_base (y : ℝ) (h0 : 0 ≤ y) (h1 : y ≤ 1) : Real.cos y ≤ 1 - y ^ 2 / 2 + y ^ 4 * 5 / 96 := by
  have hb := Real.cos_bound (x := y) (by rw [abs_of_nonneg h0]; exact h1)
  rw [abs_of_nonneg h0] at hb
  have := (abs_le.mp hb).2
  linarith

theorem cosUB_sound : ∀ (k : Nat) (y c : Rat), cosUB k y = some c → 0 ≤ y →
    ∀ x : ℝ, (y : ℝ) ≤ x → x ≤ π → Real.cos x ≤ (c : ℝ)
  | 0, y, c, h, hy, x, hyx, hxpi => by
    simp only [cosUB] at h
    split at h
    · rename_i hy1
      simp only [Option.some.injEq] at h
      have hy0 : (0 : ℝ) ≤ (y : ℝ) := by exact_mod_cast hy
      have hy1' : (y : ℝ) ≤ 1 := by exact_mod_cast hy1
      have h1 : Real.cos x ≤ Real.cos (y : ℝ) := Real.cos_le_cos_of_nonneg_of_le_pi hy0 hxpi hyx
      have h2 := cos_upper_base (y : ℝ) hy0 hy1'
      have h3 : ((1 - y * y / 2 + y * y * y * y * 5 / 96 : Rat) : ℝ) ≤ (c : ℝ) := by
        rw [← h]; exact_mod_cast le_rup _
      push_cast at h3
      nlinarith
    · exact absurd h (by simp)
  | k + 1, y, c, h, hy, x, hyx, hxpi => by
    simp only [cosUB] at h
    split at h
    · rename_i c' hc'
      simp only [Option.some.injEq] at h
      have hx0 : (0 : ℝ) ≤ x := le_trans (by exact_mod_cast hy) hyx
      have ih := cosUB_sound k (y / 2) c' hc' (by positivity) (x / 2) (by push_cast; linarith) (by linarith [Real.pi_pos])
      have hc0 : 0 ≤ Real.cos (x / 2) :=
        Real.cos_nonneg_of_neg_pi_div_two_le_of_le (by linarith [Real.pi_pos]) (by linarith)
      have h1 : ((2 * c' * c' - 1 : Rat) : ℝ) ≤ (c : ℝ) := by rw [← h]; exact_mod_cast le_rup _
      have h2 : 2 * Real.cos (x / 2) ^ 2 - 1 ≤ ((2 * c' * c' - 1 : Rat) : ℝ) := by
        push_cast
        nlinarith [mul_le_mul ih ih hc0 (le_trans hc0 ih)]
      have h3 : Real.cos x = 2 * Real.cos (x / 2) ^ 2 - 1 := by
        have := Real.cos_two_mul (x / 2)
        rw [← this]; congr 1; ring
      linarith
    · exact absurd h (by simp)


theorem piHi_gt : π < ((piHi : Rat) : ℝ) := by
  have := Real.pi_lt_d6
  unfold piHi; push_cast; norm_num at this ⊢; linarith

theorem piLo_lt : ((piLo : Rat) : ℝ) < π := by
  have := Real.pi_gt_d6
  unfold piLo; push_cast; norm_num at this ⊢; linarith

/-- `cosPiLo a ≤ cos(π a)` for `0 ≤ a ≤ 1/2` -/
theorem cosPiLo_sound (a : Rat) (h0 : 0 ≤ a) (h1 : a ≤ 1 / 2) : ((cosPiLo a : Rat) : ℝ) ≤ Real.cos (π * (a : ℝ)) := by
  have ha0 : (0 : ℝ) ≤ (a : ℝ) := by exact_mod_cast h0
  have ha1 : (a : ℝ) ≤ 1 / 2 := by
    have : ((a : Rat) : ℝ) ≤ ((1 / 2 : Rat) : ℝ) := by exact_mod_cast h1
    simpa using this
  unfold cosPiLo
  cases hc : cosLB halvings (piHi * a) with
  | none =>
    simp only [Option.getD_none]
    push_cast
    exact Real.cos_nonneg_of_neg_pi_div_two_le_of_le (by nlinarith [Real.pi_pos]) (by nlinarith [Real.pi_pos])
  | some c =>
    simp only [Option.getD_some]
    have hy : (0 : Rat) ≤ piHi * a := mul_nonneg (by unfold piHi; norm_num) h0
    refine cosLB_sound halvings (piHi * a) c hc hy (π * (a : ℝ)) (mul_nonneg Real.pi_pos.le ha0) ?_
    push_cast
    exact mul_le_mul_of_nonneg_right piHi_gt.le ha0

/-- `cos(π a) ≤ cosPiHi a` for `0 ≤ a ≤ 1` -/
theorem cosPiHi_sound (a : Rat) (h0 : 0 ≤ a) (h1 : a ≤ 1) : Real.cos (π * (a : ℝ)) ≤ ((cosPiHi a : Rat) : ℝ) := by
  have ha0 : (0 : ℝ) ≤ (a : ℝ) := by exact_mod_cast h0
  have ha1 : (a : ℝ) ≤ 1 := by exact_mod_cast h1
  unfold cosPiHi
  cases hc : cosUB halvings (piLo * a) with
  | none => simp only [Option.getD_none]; push_cast; exact Real.cos_le_one _
  | some c =>
    simp only [Option.getD_some]
    have hy : (0 : Rat) ≤ piLo * a := mul_nonneg (by unfold piLo; norm_num) h0
    refine cosUB_sound halvings (piLo * a) c hc hy (π * (a : ℝ)) ?_ (by nlinarith [Real.pi_pos])
    push_cast
    exact mul_le_mul_of_nonneg_right piLo_lt.le ha0

theorem tableQ_bounds (q : Int) : 1 ≤ tableQ q ∧ tableQ q ≤ 32 := by
  unfold tableQ; split <;> [omega; (split <;> omega)]

theorem tableQ_le (q : Int) (hq : 1 ≤ q) : tableQ q ≤ q := by
  unfold tableQ; split <;> [omega; (split <;> omega)]

/-- for `q ≥ 1` the table index is not larger than `q`, so its angle is not smaller and its cosine not larger -/
theorem cos_table_mono (q : Int) (hq : 1 ≤ q) (c : ℝ) (hc0 : 0 < c) (hc1 : c ≤ 1) :
    Real.cos (π * c / (tableQ q : ℝ)) ≤ Real.cos (π * c / (q : ℝ)) := by
  have ht := tableQ_bounds q
  have hle := tableQ_le q hq
  have ht1 : (1 : ℝ) ≤ (tableQ q : ℝ) := by exact_mod_cast ht.1
  have hq1 : (1 : ℝ) ≤ (q : ℝ) := by exact_mod_cast hq
  have hle' : (tableQ q : ℝ) ≤ (q : ℝ) := by exact_mod_cast hle
  have hpc : 0 < π * c := mul_pos Real.pi_pos hc0
  apply Real.cos_le_cos_of_nonneg_of_le_pi
  · positivity
  · rw [div_le_iff₀ (by linarith)]
    nlinarith [Real.pi_pos]
  · exact div_le_div_of_nonneg_left hpc.le (by linarith) hle'

end GeosModel.Buffer
