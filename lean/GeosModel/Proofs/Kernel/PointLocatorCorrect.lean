import GeosModel.Model.Kernel.PointLocator
import GeosModel.Proofs.Kernel.PolyLocateCorrect
/-!
# the ported `algorithm::PointLocator` against the specifications of `Base/Kernel`

* `PointLocation::isOnSegment` / `isOnLine` are the exact on-segment test (all points, all chains)
* `locateInPolygonRing` (envelope reject, boundary scan, **then** ray crossing) is `Kernel.locateInRing` on closed rings
* `locate(p, Polygon)` is `Kernel.locateInPolygon` where `SimplePointInAreaLocator` is
* with the two tests in the other order the ring locator never answers BOUNDARY
* `locate(p, LineString)`: BOUNDARY exactly at the end points of a line that is not closed, INTERIOR on the rest of it
-/
namespace GeosModel.PointLocator
open GeosModel.Kernel GeosModel.RayCount GeosModel.PolyLocate

theorem envIntersectsPt_eq_inBox (a b p : Pt) : envIntersectsPt a b p = inBox a b p := by
  unfold envIntersectsPt inBox
  rw [Bool.eq_iff_iff]
  simp only [Bool.and_eq_true, decide_eq_true_eq, Int.min_def, Int.max_def]
  constructor <;> (intro h; (repeat' split at h) <;> (repeat' split) <;> omega)

/-- `PointLocation::isOnSegment(p, p0, p1)` is the exact on-segment test -/
theorem isOnSegment_eq (p a b : Pt) : isOnSegment p a b = onSegment a b p := by
  unfold isOnSegment onSegment
  rw [envIntersectsPt_eq_inBox]
  cases hb : inBox a b p
  · simp
  · simp only [Bool.not_true, Bool.false_eq_true, if_false, Bool.and_true]
    by_cases he : (p == a) = true
    · have : p = a := (Pt.beq_iff _ _).mp he
      subst this
      simp [det]
    · simp only [he, if_false, Bool.false_eq_true]
      unfold orient
      rw [Bool.eq_iff_iff]
      simp [Int.sign_eq_zero_iff_zero]

/-- `PointLocation::isOnLine(p, chain)`: some segment of the chain contains `p` -/
theorem isOnLine_eq_any (p : Pt) : ∀ l : List Pt, isOnLine p l = (edges l).any (fun e => onSegment e.1 e.2 p)
  | [] => by simp [isOnLine, edges]
  | [_] => by simp [isOnLine, edges]
  | a :: b :: r => by
    simp only [isOnLine, edges, List.any_cons, isOnSegment_eq, isOnLine_eq_any p (b :: r)]

/-- outside the envelope of a chain no segment of the chain contains the point, and no vertex is the point -/
theorem outside_env_off (p : Pt) (l : List Pt) (h : envContains l p = false) :
    (edges l).any (fun e => onSegment e.1 e.2 p) = false ∧ ∀ v ∈ l, v ≠ p := by
  have hside : (∀ v ∈ l, p.x < v.x) ∨ (∀ v ∈ l, v.x < p.x) ∨ (∀ v ∈ l, p.y < v.y) ∨ (∀ v ∈ l, v.y < p.y) := by
    unfold envContains at h
    simp only [Bool.and_eq_false_iff, List.any_eq_false, decide_eq_true_eq] at h
    rcases h with ((h | h) | h) | h
    · left; intro v hv; have := h v hv; omega
    · right; left; intro v hv; have := h v hv; omega
    · right; right; left; intro v hv; have := h v hv; omega
    · right; right; right; intro v hv; have := h v hv; omega
  constructor
  · rw [List.any_eq_false]
    intro e he hs
    obtain ⟨m1, m2⟩ := edges_mem l e he
    rw [onSegment_iff] at hs
    have hb := (inBox_iff e.1 e.2 p).1 hs.2
    rcases hside with hs' | hs' | hs' | hs'
    · have := hs' _ m1; have := hs' _ m2; omega
    · have := hs' _ m1; have := hs' _ m2; omega
    · have := hs' _ m1; have := hs' _ m2; omega
    · have := hs' _ m1; have := hs' _ m2; omega
  · intro v hv hvp
    subst hvp
    rcases hside with hs' | hs' | hs' | hs' <;> (have := hs' _ hv; omega)

/-- **`PointLocator::locateInPolygonRing` is the specification** on every closed ring, for every point -/
theorem locateInPolygonRing_eq (p : Pt) (ring : List Pt) (hc : Closed ring) :
    locateInPolygonRing p ring = locateInRing p ring := by
  unfold locateInPolygonRing isInRing
  cases he : envContains ring p
  · simp [outside_env_exterior p ring hc he]
  · simp only [Bool.not_true, Bool.false_eq_true, if_false]
    rw [isOnLine_eq_any, locatePointInRing_eq p ring hc]
    unfold locateInRing
    simp only
    by_cases hb : (edges ring).any (fun e => onSegment e.1 e.2 p) = true
    · simp [hb]
    · have hb' : (edges ring).any (fun e => onSegment e.1 e.2 p) = false := by simpa using hb
      simp only [hb', Bool.false_eq_true, if_false]
      split <;> simp

/-- the hole loop of `PointLocator::locate(p, Polygon)` and the hole loop of `SimplePointInAreaLocator` agree on closed holes -/
theorem holesLoop_eq_simple (p : Pt) : ∀ holes : List (List Pt), (∀ h ∈ holes, Closed h) →
    holesLoop p holes = PolyLocate.holesLoop p holes
  | [], _ => rfl
  | h :: hs, hc => by
    have hch : Closed h := hc h (List.mem_cons_self ..)
    have ih := holesLoop_eq_simple p hs (fun h' m => hc h' (List.mem_cons_of_mem _ m))
    unfold holesLoop PolyLocate.holesLoop
    rw [locateInPolygonRing_eq p h hch, locatePointInRing_eq p h hch, ih]
    cases he : envContains h p
    · simp [outside_env_exterior p h hch he]
    · simp only [if_true]
      cases locateInRing p h <;> rfl

/-- `PointLocator::locate(p, Polygon)` and `SimplePointInAreaLocator::locatePointInSurface` agree on closed rings -/
theorem locatePolygon_eq_simple (p : Pt) (rings : List (List Pt)) (hc : ∀ r ∈ rings, Closed r) :
    locatePolygon p rings = locatePointInPolygon p rings := by
  cases rings with
  | nil => rfl
  | cons shell holes =>
    have hcs : Closed shell := hc shell (List.mem_cons_self ..)
    have hch : ∀ h ∈ holes, Closed h := fun h m => hc h (List.mem_cons_of_mem _ m)
    simp only [locatePolygon, locatePointInPolygon]
    rw [locateInPolygonRing_eq p shell hcs, locatePointInRing_eq p shell hcs, holesLoop_eq_simple p holes hch]
    cases shell with
    | nil => simp [envContains]
    | cons a r =>
      simp only [List.isEmpty_cons, Bool.false_eq_true, if_false]
      cases he : envContains (a :: r) p
      · simp [outside_env_exterior p (a :: r) hcs he]
      · simp only [Bool.not_true, Bool.false_eq_true, if_false]
        cases locateInRing p (a :: r) <;> rfl

/-- **`PointLocator::locate(p, Polygon)` is the specification `Kernel.locateInPolygon`** for every polygon with closed
rings and every point that is not at once interior to one hole and on the boundary of another -/
theorem locatePolygon_eq (p : Pt) (rings : List (List Pt)) (hc : ∀ r ∈ rings, Closed r)
    (hsep : HolesSeparateAt p rings.tail) :
    locatePolygon p rings = locateInPolygon p rings := by
  rw [locatePolygon_eq_simple p rings hc, locatePointInPolygon_eq p rings hc hsep]

/-- on a closed ring `PointLocation::isInRing` is true on the ring itself as well as inside it -/
theorem isInRing_of_onLine (p : Pt) (ring : List Pt) (hc : Closed ring) (h : isOnLine p ring = true) :
    isInRing p ring = true := by
  unfold isInRing
  rw [locatePointInRing_eq p ring hc]
  unfold locateInRing
  rw [isOnLine_eq_any] at h
  simp [h]

/-- with the ray-crossing test placed before the boundary scan the ring locator never answers BOUNDARY -/
theorem swapped_never_boundary (p : Pt) (ring : List Pt) (hc : Closed ring) :
    locateInPolygonRingSwapped p ring ≠ .boundary := by
  unfold locateInPolygonRingSwapped
  cases he : envContains ring p
  · simp
  · simp only [Bool.not_true, Bool.false_eq_true, if_false]
    cases hin : isInRing p ring
    · cases hon : isOnLine p ring
      · simp
      · have := isInRing_of_onLine p ring hc hon
        rw [hin] at this
        exact absurd this (by decide)
    · simp

/-- the swapped order answers INTERIOR exactly where the specification says INTERIOR or BOUNDARY -/
theorem swapped_eq (p : Pt) (ring : List Pt) (hc : Closed ring) :
    locateInPolygonRingSwapped p ring = if locateInRing p ring = .exterior then .exterior else .interior := by
  unfold locateInPolygonRingSwapped isInRing
  cases he : envContains ring p
  · simp [outside_env_exterior p ring hc he]
  · simp only [Bool.not_true, Bool.false_eq_true, if_false]
    rw [isOnLine_eq_any, locatePointInRing_eq p ring hc]
    by_cases hx : locateInRing p ring = .exterior
    · have hb : (edges ring).any (fun e => onSegment e.1 e.2 p) = false := by
        unfold locateInRing at hx
        cases hb : (edges ring).any (fun e => onSegment e.1 e.2 p)
        · rfl
        · simp [hb] at hx
      simp [hx, hb]
    · simp [hx]

/-! ### lines -/

theorem lineClosed_iff (pts : List Pt) : lineClosed pts = true ↔ pts ≠ [] ∧ pts.head? = pts.getLast? := by
  unfold lineClosed
  cases pts with
  | nil => simp
  | cons a r =>
    have : ∃ z, (a :: r).getLast? = some z := ⟨(a :: r).getLast (by simp), List.getLast?_eq_some_getLast (by simp)⟩
    obtain ⟨z, hz⟩ := this
    simp [hz]

/-- **`PointLocator::locate(p, LineString)`**: BOUNDARY exactly at the first / last vertex of a chain that is not closed;
otherwise INTERIOR exactly on the segments of the chain (the envelope reject changes nothing) -/
theorem locateLine_eq (p : Pt) (pts : List Pt) :
    locateLine p pts =
      if lineClosed pts = false ∧ (pts.head? = some p ∨ pts.getLast? = some p) then .boundary
      else if (edges pts).any (fun e => onSegment e.1 e.2 p) then .interior else .exterior := by
  unfold locateLine
  rw [isOnLine_eq_any]
  cases he : envContains pts p
  · obtain ⟨h1, h2⟩ := outside_env_off p pts he
    have hh : pts.head? ≠ some p := fun h => h2 p (List.mem_of_mem_head? h) rfl
    have hl : pts.getLast? ≠ some p := fun h => h2 p (List.mem_of_getLast? h) rfl
    simp [h1, hh, hl]
  · cases lineClosed pts <;> simp

end GeosModel.PointLocator

namespace GeosModel.PointLocator
open GeosModel.Kernel

/-! ### collections: the walk is the Mod-2 rule over the atomic elements -/

mutual
theorem leafLocs_empty (p : Pt) : ∀ g : Geo, isEmpty g = true → leafLocs p g = []
  | .point c, h => by simp only [isEmpty] at h; simp [leafLocs, h]
  | .line pts, h => by simp only [isEmpty] at h; simp [leafLocs, h]
  | .poly rings, h => by simp [leafLocs, h]
  | .coll es, h => by simp only [isEmpty] at h; simp only [leafLocs]; exact leafLocsList_empty p es h
theorem leafLocsList_empty (p : Pt) : ∀ gs : List Geo, allEmpty gs = true → leafLocsList p gs = []
  | [], _ => by simp [leafLocsList]
  | g :: gs, h => by
    simp only [allEmpty, Bool.and_eq_true] at h
    simp [leafLocsList, leafLocs_empty p g h.1, leafLocsList_empty p gs h.2]
end

mutual
theorem computeLocation_eq (p : Pt) : ∀ (g : Geo) (st : Info),
    computeLocation p g st = (leafLocs p g).foldl updateLocationInfo st
  | .point c, st => by simp only [computeLocation, leafLocs]; split <;> simp
  | .line pts, st => by simp only [computeLocation, leafLocs]; split <;> simp
  | .poly rings, st => by simp only [computeLocation, leafLocs]; split <;> simp
  | .coll es, st => by
    simp only [computeLocation, leafLocs]
    by_cases h : allEmpty es = true
    · simp [h, leafLocsList_empty p es h]
    · simp only [h, Bool.false_eq_true, if_false]; exact computeList_eq p es st
theorem computeList_eq (p : Pt) : ∀ (gs : List Geo) (st : Info),
    computeList p gs st = (leafLocsList p gs).foldl updateLocationInfo st
  | [], st => by simp [computeList, leafLocsList]
  | g :: gs, st => by
    simp only [computeList, leafLocsList, List.foldl_append]
    rw [computeLocation_eq p g st, computeList_eq p gs]
end

theorem fold_update (ls : List Loc) : ∀ st : Info,
    ls.foldl updateLocationInfo st =
      ⟨st.isIn || ls.any (fun l => decide (l = .interior)), st.numBoundaries + ls.count .boundary⟩ := by
  induction ls with
  | nil => intro st; simp
  | cons l ls ih =>
    intro st
    rw [List.foldl_cons, ih]
    cases l <;> simp [updateLocationInfo, List.count_cons, Bool.or_assoc] <;> omega

/-- **collections**: `PointLocator::locate` on a MULTI* / GEOMETRYCOLLECTION is the Mod-2 rule over the locations of
its non-empty atomic elements (nested collections flattened): BOUNDARY iff an odd number of elements have the point
on their boundary, otherwise INTERIOR iff some element has it on its boundary or in its interior -/
theorem locate_coll (p : Pt) (es : List Geo) :
    locate p (.coll es) =
      let ls := leafLocsList p es
      if ls.count .boundary % 2 = 1 then .boundary
      else if 0 < ls.count .boundary ∨ .interior ∈ ls then .interior else .exterior := by
  unfold locate
  by_cases h : isEmpty (.coll es) = true
  · have h' : allEmpty es = true := by simpa [isEmpty] using h
    simp [h, leafLocsList_empty p es h']
  · simp only [h, Bool.false_eq_true, if_false]
    rw [computeLocation_eq, fold_update]
    simp [leafLocs, Info.init]

end GeosModel.PointLocator
