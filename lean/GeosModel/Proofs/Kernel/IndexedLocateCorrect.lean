import GeosModel.Proofs.Kernel.PolyLocateCorrect
/-!
# `IndexedPointInAreaLocator::locate` (ported) = `Kernel.locateInPolygon`

The counter's final state is (some visited segment reports on-segment, sum of the increments): it does not depend on
the order of the visit; segments whose y-range misses `p.y` contribute nothing, so the interval query loses nothing;
per closed ring the reports are the true on-segment tests and, off the rings, the increments are the crossings.
With every ring's crossings thrown into one counter the answer is the parity of the sum, which is the specification
provided the holes lie inside the shell and at most one hole contains the point — true of valid polygons.
-/
namespace GeosModel.PolyLocate
open GeosModel.Kernel GeosModel.RayCount

/-! ### the counter as (any, sum) -/

theorem foldl_countSegment (p : Pt) : ∀ (es : List (Pt × Pt)) (st : RCC),
    es.foldl (fun st e => countSegment p st e.1 e.2) st =
      ⟨st.onSeg || es.any (fun e => segOn p e.1 e.2), st.count + (es.map (fun e => segInc p e.1 e.2)).sum⟩
  | [], st => by cases st; simp
  | e :: es, st => by
    rw [List.foldl_cons, foldl_countSegment p es, countSegment_eq]
    simp [Bool.or_assoc, Nat.add_assoc]

theorem visit_eq (p : Pt) (es : List (Pt × Pt)) :
    visit p es = ⟨es.any (fun e => segOn p e.1 e.2), (es.map (fun e => segInc p e.1 e.2)).sum⟩ := by
  unfold visit; rw [foldl_countSegment]; simp [RCC.init]

theorem perm_any {α} (f : α → Bool) {l1 l2 : List α} (h : l1.Perm l2) : l1.any f = l2.any f := by
  induction h with
  | nil => rfl
  | cons x _ ih => simp [ih]
  | swap x y l => simp [Bool.or_left_comm]
  | trans _ _ ih1 ih2 => rw [ih1, ih2]

theorem perm_sum {α} (g : α → Nat) {l1 l2 : List α} (h : l1.Perm l2) : (l1.map g).sum = (l2.map g).sum := by
  induction h with
  | nil => rfl
  | cons x _ ih => simp [ih]
  | swap x y l => simp; omega
  | trans _ _ ih1 ih2 => rw [ih1, ih2]

/-- the visit order is irrelevant -/
theorem visit_perm (p : Pt) {l1 l2 : List (Pt × Pt)} (h : l1.Perm l2) : visit p l1 = visit p l2 := by
  rw [visit_eq, visit_eq, perm_any _ h, perm_sum _ h]

/-! ### the interval query loses nothing -/

theorem out_of_range (p a b : Pt) (h : inYRange p (a, b) = false) : segOn p a b = false ∧ segInc p a b = 0 := by
  unfold inYRange at h
  simp only [Bool.and_eq_false_iff, decide_eq_false_iff_not] at h
  have hy : (p.y < a.y ∧ p.y < b.y) ∨ (a.y < p.y ∧ b.y < p.y) := by omega
  unfold segOn segInc countSegment RCC.init
  constructor <;> (split_ifs <;> first | rfl | (simp_all; try omega) | omega)

theorem any_filter_range (p : Pt) (es : List (Pt × Pt)) :
    (es.filter (inYRange p)).any (fun e => segOn p e.1 e.2) = es.any (fun e => segOn p e.1 e.2) := by
  induction es with
  | nil => rfl
  | cons e es ih =>
    by_cases h : inYRange p e = true
    · simp [List.filter_cons, h, ih]
    · have h' : inYRange p (e.1, e.2) = false := by simpa using h
      simp [List.filter_cons, h, ih, (out_of_range p e.1 e.2 h').1]

theorem sum_filter_range (p : Pt) (es : List (Pt × Pt)) :
    ((es.filter (inYRange p)).map (fun e => segInc p e.1 e.2)).sum = (es.map (fun e => segInc p e.1 e.2)).sum := by
  induction es with
  | nil => rfl
  | cons e es ih =>
    by_cases h : inYRange p e = true
    · simp [List.filter_cons, h, ih]
    · have h' : inYRange p (e.1, e.2) = false := by simpa using h
      simp [List.filter_cons, h, ih, (out_of_range p e.1 e.2 h').2]

theorem visit_filter (p : Pt) (es : List (Pt × Pt)) : visit p (es.filter (inYRange p)) = visit p es := by
  rw [visit_eq, visit_eq, any_filter_range, sum_filter_range]

/-! ### all rings in one counter -/

theorem sum_flatMap (g : Pt × Pt → Nat) : ∀ (rings : List (List Pt)),
    ((rings.flatMap edges).map g).sum = (rings.map (fun r => ((edges r).map g).sum)).sum
  | [] => rfl
  | r :: rs => by simp [List.flatMap_cons, sum_flatMap g rs]

/-- no ring passes through `p` -/
def OffRings (p : Pt) (rings : List (List Pt)) : Prop :=
  ∀ r ∈ rings, (edges r).any (fun e => onSegment e.1 e.2 p) = false

theorem any_allSegs (p : Pt) (rings : List (List Pt)) (hc : ∀ r ∈ rings, Closed r) :
    (allSegs rings).any (fun e => segOn p e.1 e.2) = rings.any (fun r => (edges r).any (fun e => onSegment e.1 e.2 p)) := by
  unfold allSegs
  rw [List.any_flatMap]
  induction rings with
  | nil => rfl
  | cons r rs ih =>
    simp only [List.any_cons]
    rw [any_segOn_iff p r (hc r (List.mem_cons_self ..)), ih (fun r' m => hc r' (List.mem_cons_of_mem _ m))]

/-- crossing number of one ring -/
def crossCount (p : Pt) (r : List Pt) : Nat := ((edges r).filter (fun e => crosses p e.1 e.2)).length

theorem sum_allSegs (p : Pt) (rings : List (List Pt)) (hc : ∀ r ∈ rings, Closed r) (hoff : OffRings p rings) :
    ((allSegs rings).map (fun e => segInc p e.1 e.2)).sum = (rings.map (crossCount p)).sum := by
  unfold allSegs
  rw [sum_flatMap]
  congr 1
  apply List.map_congr_left
  intro r hr
  apply sum_segInc
  rw [any_segOn_iff p r (hc r hr)]
  exact hoff r hr

theorem locateInRing_off (p : Pt) (r : List Pt) (h : (edges r).any (fun e => onSegment e.1 e.2 p) = false) :
    locateInRing p r = if crossCount p r % 2 = 1 then .interior else .exterior := by
  unfold locateInRing crossCount
  simp only [h, Bool.false_eq_true, if_false]
  split <;> simp_all

/-! ### parity bookkeeping -/

theorem sum_parity_le_one : ∀ (cs : List Nat), (cs.filter (fun c => c % 2 == 1)).length ≤ 1 →
    cs.sum % 2 = (cs.filter (fun c => c % 2 == 1)).length
  | [], _ => rfl
  | c :: cs, h => by
    by_cases hc : c % 2 = 1
    · have hf : (c :: cs).filter (fun c => c % 2 == 1) = c :: cs.filter (fun c => c % 2 == 1) := by simp [List.filter_cons, hc]
      rw [hf] at h ⊢
      simp only [List.length_cons] at h ⊢
      have h0 : (cs.filter (fun c => c % 2 == 1)).length = 0 := by omega
      have ih := sum_parity_le_one cs (by omega)
      rw [List.sum_cons, h0]; omega
    · have hf : (c :: cs).filter (fun c => c % 2 == 1) = cs.filter (fun c => c % 2 == 1) := by simp [List.filter_cons, hc]
      rw [hf] at h ⊢
      have ih := sum_parity_le_one cs h
      rw [List.sum_cons]; omega

/-- the holes lie in the closed shell, as far as `p` can tell: `p` inside or on a hole is not outside the shell,
and `p` strictly inside a hole is strictly inside the shell -/
def HolesInShellAt (p : Pt) (shell : List Pt) (holes : List (List Pt)) : Prop :=
  ∀ h ∈ holes, (locateInRing p h = .interior → locateInRing p shell = .interior) ∧
               (locateInRing p h = .boundary → locateInRing p shell ≠ .exterior)

/-- `p` is strictly inside at most one hole -/
def AtMostOneHoleAt (p : Pt) (holes : List (List Pt)) : Prop :=
  (holes.filter (fun h => locateInRing p h == .interior)).length ≤ 1

theorem locateInRing_boundary_iff (p : Pt) (r : List Pt) :
    locateInRing p r = .boundary ↔ (edges r).any (fun e => onSegment e.1 e.2 p) = true := by
  unfold locateInRing
  by_cases h : (edges r).any (fun e => onSegment e.1 e.2 p) = true
  · simp [h]
  · simp only [h, Bool.false_eq_true, if_false, iff_false]
    split <;> simp

/-- **the ported `IndexedPointInAreaLocator::locate` is the specification**, whatever order the index visits the
segments in -/
theorem locateIndexed_eq (p : Pt) (shell : List Pt) (holes : List (List Pt)) (visited : List (Pt × Pt))
    (hperm : visited.Perm ((allSegs (shell :: holes)).filter (inYRange p)))
    (hc : ∀ r ∈ shell :: holes, Closed r)
    (hin : HolesInShellAt p shell holes) (hone : AtMostOneHoleAt p holes) :
    getLocation (visit p visited) = locateInPolygon p (shell :: holes) := by
  rw [visit_perm p hperm, visit_filter, visit_eq]
  unfold getLocation
  simp only
  rw [any_allSegs p _ hc]
  by_cases hon : (shell :: holes).any (fun r => (edges r).any (fun e => onSegment e.1 e.2 p)) = true
  · -- on some ring: BOUNDARY on both sides
    simp only [hon, if_true]
    simp only [locateInPolygon]
    simp only [List.any_cons, Bool.or_eq_true] at hon
    cases hs : locateInRing p shell with
    | boundary => simp
    | exterior =>
      exfalso
      rcases hon with h | h
      · rw [← locateInRing_boundary_iff] at h; rw [h] at hs; cases hs
      · rw [List.any_eq_true] at h
        obtain ⟨r, hr, hb⟩ := h
        exact (hin r hr).2 ((locateInRing_boundary_iff p r).2 hb) hs
    | interior =>
      rcases hon with h | h
      · rw [← locateInRing_boundary_iff] at h; rw [h] at hs; cases hs
      · have : holes.any (fun h => locateInRing p h == .boundary) = true := by
          rw [List.any_eq_true] at h ⊢
          obtain ⟨r, hr, hb⟩ := h
          exact ⟨r, hr, by simpa using (locateInRing_boundary_iff p r).2 hb⟩
        simp [this]
  · -- off every ring: parity of the total
    have hoff : OffRings p (shell :: holes) := by
      intro r hr
      have : ¬ (edges r).any (fun e => onSegment e.1 e.2 p) = true := by
        intro hb; exact hon (List.any_eq_true.2 ⟨r, hr, hb⟩)
      simpa using this
    have honf : (shell :: holes).any (fun r => (edges r).any (fun e => onSegment e.1 e.2 p)) = false := by simpa using hon
    simp only [honf, Bool.false_eq_true, if_false]
    rw [sum_allSegs p _ hc hoff, List.map_cons, List.sum_cons]
    have hshell := locateInRing_off p shell (hoff shell (List.mem_cons_self ..))
    have hhole : ∀ h ∈ holes, locateInRing p h = if crossCount p h % 2 = 1 then .interior else .exterior :=
      fun h m => locateInRing_off p h (hoff h (List.mem_cons_of_mem _ m))
    -- odd holes = holes with p inside
    have hfilt : (holes.map (crossCount p)).filter (fun c => c % 2 == 1) =
        (holes.filter (fun h => locateInRing p h == .interior)).map (crossCount p) := by
      rw [List.filter_map]
      congr 1
      apply List.filter_congr
      intro h m
      simp only [Function.comp]
      rw [hhole h m]
      by_cases hodd : crossCount p h % 2 = 1 <;> simp [hodd]
    have hle : ((holes.map (crossCount p)).filter (fun c => c % 2 == 1)).length ≤ 1 := by
      rw [hfilt, List.length_map]; exact hone
    have hsum := sum_parity_le_one (holes.map (crossCount p)) hle
    rw [hfilt, List.length_map] at hsum
    have hnb : holes.any (fun h => locateInRing p h == .boundary) = false := by
      rw [List.any_eq_false]
      intro h m hb
      have := (locateInRing_boundary_iff p h).1 (by simpa using hb)
      rw [hoff h (List.mem_cons_of_mem _ m)] at this; cases this
    simp only [locateInPolygon, hnb, Bool.false_eq_true, if_false]
    by_cases hk : (holes.filter (fun h => locateInRing p h == .interior)).length = 0
    · -- no hole contains p
      have hni : holes.any (fun h => locateInRing p h == .interior) = false := by
        rw [List.any_eq_false]
        intro h m hb
        have : h ∈ holes.filter (fun h => locateInRing p h == .interior) := List.mem_filter.2 ⟨m, hb⟩
        rw [List.length_eq_zero_iff] at hk; rw [hk] at this; cases this
      rw [hk] at hsum
      rw [hshell]
      by_cases hs : crossCount p shell % 2 = 1
      · have : (crossCount p shell + (holes.map (crossCount p)).sum) % 2 = 1 := by omega
        simp [hs, this, hni]
      · have : ¬ (crossCount p shell + (holes.map (crossCount p)).sum) % 2 = 1 := by omega
        simp [hs, this]
    · -- exactly one hole contains p, and then the shell does too
      have h1 : (holes.filter (fun h => locateInRing p h == .interior)).length = 1 := by
        unfold AtMostOneHoleAt at hone; omega
      rw [h1] at hsum
      obtain ⟨h, hm⟩ : ∃ h, h ∈ holes.filter (fun h => locateInRing p h == .interior) := by
        cases hl : holes.filter (fun h => locateInRing p h == .interior) with
        | nil => rw [hl] at h1; cases h1
        | cons a _ => exact ⟨a, List.mem_cons_self ..⟩
      obtain ⟨hmem, hint⟩ := List.mem_filter.1 hm
      have hint' : locateInRing p h = .interior := by simpa using hint
      have hsi := (hin h hmem).1 hint'
      have hs : crossCount p shell % 2 = 1 := by
        rw [hshell] at hsi
        by_cases hs : crossCount p shell % 2 = 1
        · exact hs
        · simp [hs] at hsi
      have hni : holes.any (fun h => locateInRing p h == .interior) = true := List.any_eq_true.2 ⟨h, hmem, hint⟩
      have : ¬ (crossCount p shell + (holes.map (crossCount p)).sum) % 2 = 1 := by omega
      rw [hsi]
      simp [this, hni]

end GeosModel.PolyLocate
