import GeosModel.Model.Kernel.Filter
import GeosModel.Proofs.Kernel.Basic
/-!
# The orientation filter on the grid: every intermediate is exactly representable

`Dy.mk' n k` (the double `n·2^k`) is closed under the exact operations with the obvious integer
arithmetic on `n`, and `roundNE` is the identity on it as long as `|n| ≤ 2^53`.  Hence on grid points with
coordinates of at most `2^25` units the filter's `detleft`, `detright`, `det`, `detsum` are the exact
integers, and a non-FAILURE answer is the sign of `Kernel.det`.
-/
namespace GeosModel.Filter
open GeosModel.Kernel

/-! ### algebra of `mk'` -/

@[simp] theorem mk'_m (n k : Int) : (Dy.mk' n k).m = n := by
  unfold Dy.mk'; split <;> simp_all [Dy.zero]

@[simp] theorem mk'_zero (k : Int) : Dy.mk' 0 k = Dy.zero := by simp [Dy.mk']

theorem mk'_of_ne {n : Int} (h : n ≠ 0) (k : Int) : Dy.mk' n k = ⟨n, k⟩ := by simp [Dy.mk', h]

theorem mk'_neg (n k : Int) : Dy.neg (Dy.mk' n k) = Dy.mk' (-n) k := by
  by_cases h : n = 0
  · subst h; simp [Dy.neg, Dy.zero]
  · simp [Dy.mk', h, Dy.neg]

theorem mk'_abs (n k : Int) : Dy.abs (Dy.mk' n k) = Dy.mk' (n.natAbs : Int) k := by
  by_cases h : n = 0
  · subst h; simp [Dy.abs, Dy.zero]
  · have : (n.natAbs : Int) ≠ 0 := by omega
    simp [Dy.mk', h, Dy.abs, this]

theorem mk'_idem (b k : Int) : Dy.mk' (Dy.mk' b k).m (Dy.mk' b k).e = Dy.mk' b k := by
  by_cases hb : b = 0
  · subst hb; simp [Dy.zero]
  · simp [mk'_of_ne hb]

theorem mk'_add (a b k : Int) : Dy.add (Dy.mk' a k) (Dy.mk' b k) = Dy.mk' (a + b) k := by
  by_cases ha : a = 0
  · subst ha
    have := mk'_idem b k
    simpa [Dy.add, Dy.zero] using this
  · by_cases hb : b = 0
    · subst hb; simp [Dy.add, ha, Dy.zero]
    · simp [Dy.add, mk'_of_ne ha, mk'_of_ne hb, ha, hb]

theorem mk'_sub (a b k : Int) : Dy.sub (Dy.mk' a k) (Dy.mk' b k) = Dy.mk' (a - b) k := by
  unfold Dy.sub; rw [mk'_neg, mk'_add]; congr 1

theorem mk'_mul (a b k j : Int) : Dy.mul (Dy.mk' a k) (Dy.mk' b j) = Dy.mk' (a * b) (k + j) := by
  by_cases ha : a = 0
  · subst ha; simp [Dy.mul, Dy.zero]
  · by_cases hb : b = 0
    · subst hb; simp [Dy.mul, Dy.zero]
    · simp [Dy.mul, mk'_of_ne ha, mk'_of_ne hb]

/-- **representability**: an integer of magnitude at most `2^53` times a power of two is a binary64 value
(exponent range permitting): rounding leaves it unchanged -/
theorem roundNat_small {n : Nat} (h : n ≤ 2 ^ 53) : roundNat n = (n, 0) := by
  unfold roundNat; rw [if_pos h]

/-- `roundNE` in sign–magnitude form -/
theorem roundNE_eq (x : Dy) :
    roundNE x = Dy.mk' (x.m.sign * ((roundNat x.m.natAbs).1 : Int)) (x.e + ((roundNat x.m.natAbs).2 : Int)) := by
  unfold roundNE
  rcases Int.lt_trichotomy x.m 0 with h | h | h
  · simp [h, Int.sign_eq_neg_one_of_neg h]
  · simp [h, roundNat]
  · have : ¬ (x.m < 0) := by omega
    simp [this, Int.sign_eq_one_of_pos h]

theorem sign_mul_natAbs (n : Int) : n.sign * (n.natAbs : Int) = n := by
  rcases Int.lt_trichotomy n 0 with h | h | h
  · rw [Int.sign_eq_neg_one_of_neg h]; omega
  · subst h; simp
  · rw [Int.sign_eq_one_of_pos h]; omega

theorem roundNE_mk' (n k : Int) (h : n.natAbs ≤ 2 ^ 53) : roundNE (Dy.mk' n k) = Dy.mk' n k := by
  by_cases h0 : n = 0
  · subst h0; simp [roundNE, roundNat, Dy.zero]
  · rw [mk'_of_ne h0, roundNE_eq]
    simp only [roundNat_small h, Int.natCast_zero, Int.add_zero, sign_mul_natAbs]
    exact mk'_of_ne h0 k

theorem roundNE_zero : roundNE Dy.zero = Dy.zero := by
  simp [roundNE, roundNat, Dy.zero]

/-- rounding is odd: `roundNE (-x) = -(roundNE x)` -/
theorem roundNE_neg (x : Dy) : roundNE (Dy.neg x) = Dy.neg (roundNE x) := by
  rw [roundNE_eq, roundNE_eq, mk'_neg]
  simp only [Dy.neg, Int.natAbs_neg, Int.sign_neg, Int.neg_mul]

/-! ### bounds on the grid -/

theorem natAbs_sub_le_add (a b : Int) : (a - b).natAbs ≤ a.natAbs + b.natAbs := by omega
theorem natAbs_add_le_add (a b : Int) : (a + b).natAbs ≤ a.natAbs + b.natAbs := by omega

theorem natAbs_mul_le {a b : Int} {m n : Nat} (ha : a.natAbs ≤ m) (hb : b.natAbs ≤ n) :
    (a * b).natAbs ≤ m * n := by
  rw [Int.natAbs_mul]; exact Nat.mul_le_mul ha hb

/-- **grid_ops_exact**: for coordinates of at most `2^25` units, differences are at most `2^26`,
products at most `2^52`, and the two-term sums at most `2^53` -/
theorem grid_ops_exact {a b c : Pt} (ha : OnGrid gridBound a) (hb : OnGrid gridBound b) (hc : OnGrid gridBound c) :
    (a.x - c.x).natAbs ≤ 2 ^ 26 ∧ (b.y - c.y).natAbs ≤ 2 ^ 26 ∧ (a.y - c.y).natAbs ≤ 2 ^ 26 ∧ (b.x - c.x).natAbs ≤ 2 ^ 26 ∧
    ((a.x - c.x) * (b.y - c.y)).natAbs ≤ 2 ^ 52 ∧ ((a.y - c.y) * (b.x - c.x)).natAbs ≤ 2 ^ 52 ∧
    ((a.x - c.x) * (b.y - c.y) - (a.y - c.y) * (b.x - c.x)).natAbs ≤ 2 ^ 53 ∧
    ((a.x - c.x) * (b.y - c.y) + (a.y - c.y) * (b.x - c.x)).natAbs ≤ 2 ^ 53 := by
  obtain ⟨hax, hay⟩ := ha; obtain ⟨hbx, hby⟩ := hb; obtain ⟨hcx, hcy⟩ := hc
  simp only [gridBound] at *
  have h1 : (a.x - c.x).natAbs ≤ 2 ^ 26 := by have := natAbs_sub_le_add a.x c.x; omega
  have h2 : (b.y - c.y).natAbs ≤ 2 ^ 26 := by have := natAbs_sub_le_add b.y c.y; omega
  have h3 : (a.y - c.y).natAbs ≤ 2 ^ 26 := by have := natAbs_sub_le_add a.y c.y; omega
  have h4 : (b.x - c.x).natAbs ≤ 2 ^ 26 := by have := natAbs_sub_le_add b.x c.x; omega
  have h5 : ((a.x - c.x) * (b.y - c.y)).natAbs ≤ 2 ^ 52 :=
    Nat.le_trans (natAbs_mul_le h1 h2) (by decide)
  have h6 : ((a.y - c.y) * (b.x - c.x)).natAbs ≤ 2 ^ 52 :=
    Nat.le_trans (natAbs_mul_le h3 h4) (by decide)
  refine ⟨h1, h2, h3, h4, h5, h6, ?_, ?_⟩
  · have := natAbs_sub_le_add ((a.x - c.x) * (b.y - c.y)) ((a.y - c.y) * (b.x - c.x)); omega
  · have := natAbs_add_le_add ((a.x - c.x) * (b.y - c.y)) ((a.y - c.y) * (b.x - c.x)); omega

/-! ### the filter on the grid -/

theorem signIdx_eq_sign (d : Dy) : signIdx d = d.m.sign := by
  unfold signIdx
  rcases Int.lt_trichotomy d.m 0 with h | h | h
  · have : ¬ (0 < d.m) := by omega
    simp [h, this, Int.sign_eq_neg_one_of_neg h]
  · simp [h]
  · have : ¬ (d.m < 0) := by omega
    simp [h, this, Int.sign_eq_one_of_pos h]

/-- the filter's determinant expression is `Kernel.det` -/
theorem filter_det_eq (a b c : Pt) :
    (a.x - c.x) * (b.y - c.y) - (a.y - c.y) * (b.x - c.x) = det a b c := by
  unfold det; ring

/-- on the grid the trace of the machine filter consists of the exact integers -/
theorem filterTrace_grid (coef : Dy) (k : Int) {a b c : Pt}
    (ha : OnGrid gridBound a) (hb : OnGrid gridBound b) (hc : OnGrid gridBound c) :
    let t := filterTrace roundNE coef (ofGrid k a.x) (ofGrid k a.y) (ofGrid k b.x) (ofGrid k b.y) (ofGrid k c.x) (ofGrid k c.y)
    t.detleft = Dy.mk' ((a.x - c.x) * (b.y - c.y)) (k + k) ∧
    t.detright = Dy.mk' ((a.y - c.y) * (b.x - c.x)) (k + k) ∧
    t.det = Dy.mk' (det a b c) (k + k) ∧
    t.detsum = Dy.mk' ((a.x - c.x) * (b.y - c.y) + (a.y - c.y) * (b.x - c.x)) (k + k) := by
  obtain ⟨h1, h2, h3, h4, h5, h6, h7, h8⟩ := grid_ops_exact ha hb hc
  have e26 : (2 : Nat) ^ 26 ≤ 2 ^ 53 := by decide
  have e52 : (2 : Nat) ^ 52 ≤ 2 ^ 53 := by decide
  simp only [filterTrace, fsub, fmul, fadd, ofGrid, mk'_sub, mk'_mul, mk'_add,
    roundNE_mk' _ _ (Nat.le_trans h1 e26), roundNE_mk' _ _ (Nat.le_trans h2 e26),
    roundNE_mk' _ _ (Nat.le_trans h3 e26), roundNE_mk' _ _ (Nat.le_trans h4 e26),
    roundNE_mk' _ _ (Nat.le_trans h5 e52), roundNE_mk' _ _ (Nat.le_trans h6 e52),
    roundNE_mk' _ _ h7, roundNE_mk' _ _ h8, true_and, and_true]
  rw [filter_det_eq]

/-- the machine filter on the grid is its exact-`Int` shadow -/
theorem filterGrid_eq_shadow (coef : Dy) (k : Int) {a b c : Pt}
    (ha : OnGrid gridBound a) (hb : OnGrid gridBound b) (hc : OnGrid gridBound c) :
    filterGrid roundNE coef k a b c = filterShadow roundNE coef k a b c := by
  obtain ⟨e1, e2, e3, e4⟩ := filterTrace_grid coef k ha hb hc
  unfold filterGrid orientationIndexFilterC filterShadow
  simp only at e1 e2 e3 e4 ⊢
  have herr : (filterTrace roundNE coef (ofGrid k a.x) (ofGrid k a.y) (ofGrid k b.x) (ofGrid k b.y) (ofGrid k c.x) (ofGrid k c.y)).error
      = roundNE (Dy.mul (Dy.abs (Dy.mk' ((a.x - c.x) * (b.y - c.y) + (a.y - c.y) * (b.x - c.x)) (k + k))) coef) := by
    rw [← e4]; rfl
  rw [herr, e3, signIdx_eq_sign, mk'_m, filter_det_eq]

/-- the shadow answers FAILURE or the sign of the exact determinant — whatever the error coefficient
and whatever the rounding of the error bound -/
theorem filterShadow_sound (rnd : Dy → Dy) (coef : Dy) (k : Int) (a b c : Pt) :
    filterShadow rnd coef k a b c = FAILURE ∨ filterShadow rnd coef k a b c = (det a b c).sign := by
  unfold filterShadow
  simp only [filter_det_eq]
  split
  · exact Or.inr rfl
  · exact Or.inl rfl

/-! ### antisymmetry of the filter under swapping the first two points -/

theorem Dy.mul_comm (a b : Dy) : Dy.mul a b = Dy.mul b a := by
  unfold Dy.mul; rw [Int.mul_comm, Int.add_comm]

theorem Dy.add_comm (a b : Dy) : Dy.add a b = Dy.add b a := by
  unfold Dy.add
  by_cases ha : a.m = 0 <;> by_cases hb : b.m = 0
  · simp [ha, hb]
  · simp [ha, hb, Dy.mk']
  · simp [ha, hb, Dy.mk']
  · simp only [ha, hb, if_false]
    rw [Int.min_comm, Int.add_comm]

theorem Dy.abs_neg (a : Dy) : Dy.abs (Dy.neg a) = Dy.abs a := by
  simp [Dy.abs, Dy.neg]

/-- `b - a = -(a - b)`, structurally -/
theorem Dy.sub_swap (a b : Dy) : Dy.sub b a = Dy.neg (Dy.sub a b) := by
  unfold Dy.sub Dy.add
  by_cases ha : a.m = 0 <;> by_cases hb : b.m = 0
  · simp [ha, hb, Dy.neg, Dy.zero]
  · simp [ha, hb, Dy.neg, Dy.mk']
  · simp [ha, hb, Dy.neg, Dy.mk']
  · have ha' : (Dy.neg a).m ≠ 0 := by simp [Dy.neg, ha]
    have hb' : (Dy.neg b).m ≠ 0 := by simp [Dy.neg, hb]
    simp only [ha, hb, ha', hb', if_false, mk'_neg]
    simp only [Dy.neg]
    rw [Int.min_comm]
    congr 1
    ring

theorem signIdx_neg (d : Dy) : signIdx (Dy.neg d) = - signIdx d := by
  rw [signIdx_eq_sign, signIdx_eq_sign]; simp [Dy.neg]

/-- negation of an orientation answer; FAILURE stays FAILURE -/
def negIdx (i : Int) : Int := if i = FAILURE then FAILURE else -i

theorem signIdx_ne_failure (d : Dy) : signIdx d ≠ FAILURE := by
  rw [signIdx_eq_sign]
  rcases Int.lt_trichotomy d.m 0 with h | h | h
  · rw [Int.sign_eq_neg_one_of_neg h]; decide
  · rw [h]; decide
  · rw [Int.sign_eq_one_of_pos h]; decide

/-- the decision made from `detleft`, `detright` -/
def decideIdx (rnd : Dy → Dy) (coef dl dr : Dy) : Int :=
  if Dy.ge (Dy.abs (rnd (Dy.sub dl dr))) (rnd (Dy.mul (Dy.abs (rnd (Dy.add dl dr))) coef)) then
    signIdx (rnd (Dy.sub dl dr)) else FAILURE

theorem filterC_eq_decideIdx (rnd : Dy → Dy) (coef ax ay bx by' cx cy : Dy) :
    orientationIndexFilterC rnd coef ax ay bx by' cx cy =
      decideIdx rnd coef (rnd (Dy.mul (rnd (Dy.sub ax cx)) (rnd (Dy.sub by' cy))))
        (rnd (Dy.mul (rnd (Dy.sub ay cy)) (rnd (Dy.sub bx cx)))) := rfl

theorem decideIdx_swap (rnd : Dy → Dy) (hodd : ∀ x, rnd (Dy.neg x) = Dy.neg (rnd x)) (coef dl dr : Dy) :
    decideIdx rnd coef dr dl = negIdx (decideIdx rnd coef dl dr) := by
  unfold decideIdx
  rw [Dy.sub_swap dl dr, hodd, Dy.abs_neg, Dy.add_comm dr dl]
  split
  · rw [signIdx_neg]
    unfold negIdx
    rw [if_neg (signIdx_ne_failure _)]
  · simp [negIdx]

/-- **antisymmetry of the filter, arbitrary doubles**: for any rounding function that is odd
(`rnd (-x) = -(rnd x)`, true of round-to-nearest-even: `roundNE_neg`), swapping the first two points
negates the filter's answer, and it fails for one order iff it fails for the other. -/
theorem filter_antisym (rnd : Dy → Dy) (hodd : ∀ x, rnd (Dy.neg x) = Dy.neg (rnd x))
    (coef ax ay bx by' cx cy : Dy) :
    orientationIndexFilterC rnd coef bx by' ax ay cx cy
      = negIdx (orientationIndexFilterC rnd coef ax ay bx by' cx cy) := by
  rw [filterC_eq_decideIdx, filterC_eq_decideIdx,
    Dy.mul_comm (rnd (Dy.sub bx cx)) (rnd (Dy.sub ay cy)), Dy.mul_comm (rnd (Dy.sub by' cy)) (rnd (Dy.sub ax cx))]
  exact decideIdx_swap rnd hodd coef _ _

end GeosModel.Filter
