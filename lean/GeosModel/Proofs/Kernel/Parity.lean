import GeosModel.Proofs.Kernel.SegSegLemmas
/-!
# The half-open crossing rule is the ε-perturbed ray

`Kernel.crosses p a b` (edge counted iff exactly one endpoint is strictly above `p.y` and the crossing is
strictly right of `p`) is, for a point not on the edge, the same as a *strict* crossing of the edge with
the horizontal ray that starts at `p + (0, ε)`, for every small enough `ε = 1/n`: after scaling by `n`
the perturbed point is `(n·p.x, n·p.y + 1)`, no vertex lies at its level, and the sign of the
determinant is unchanged as soon as `n > |b.x − a.x|`.
-/
namespace GeosModel.Kernel

/-- `p + (0, 1/n)` in coordinates scaled by `n` -/
def perturbUp (n : Int) (p : Pt) : Pt := ⟨n * p.x, n * p.y + 1⟩

/-- strict crossing of the open edge (a, b) with the open horizontal ray from `q` towards +x,
no endpoint at the level of `q` -/
def strictCross (q a b : Pt) : Prop :=
  (a.y < q.y ∧ q.y < b.y ∧ 0 < det a b q) ∨ (b.y < q.y ∧ q.y < a.y ∧ det a b q < 0)

instance (q a b : Pt) : Decidable (strictCross q a b) := by unfold strictCross; exact inferInstance

theorem scaled_lt_succ {n a b : Int} (hn : 2 ≤ n) : n * a < n * b + 1 ↔ a ≤ b := by
  have h0 : 0 < n := by omega
  constructor
  · intro h
    have : n * a ≤ n * b := by omega
    exact (Int.mul_le_mul_left h0).mp this
  · intro h
    have : n * a ≤ n * b := (Int.mul_le_mul_left h0).mpr h
    omega

theorem scaled_succ_lt {n a b : Int} (hn : 2 ≤ n) : n * b + 1 < n * a ↔ b < a := by
  have h0 : 0 < n := by omega
  constructor
  · intro h
    have : n * b < n * a := by omega
    exact (Int.mul_lt_mul_left h0).mp this
  · intro h
    have h1 : b + 1 ≤ a := by omega
    have : n * (b + 1) ≤ n * a := (Int.mul_le_mul_left h0).mpr h1
    have e : n * (b + 1) = n * b + n := by ring
    omega

theorem det_perturb (n : Int) (p a b : Pt) :
    det (Pt.scale n a) (Pt.scale n b) (perturbUp n p) = n * (n * det a b p + (b.x - a.x)) := by
  unfold det Pt.scale perturbUp; ring

theorem det_perturb_pos {n : Int} {p a b : Pt} (hn : (b.x - a.x).natAbs < n) (hd : 0 < det a b p) :
    0 < det (Pt.scale n a) (Pt.scale n b) (perturbUp n p) := by
  rw [det_perturb]
  have h0 : 0 < n := by omega
  apply mul_pos h0
  have : n * 1 ≤ n * det a b p := (Int.mul_le_mul_left h0).mpr (by omega)
  omega

theorem det_perturb_neg {n : Int} {p a b : Pt} (hn : (b.x - a.x).natAbs < n) (hd : det a b p < 0) :
    det (Pt.scale n a) (Pt.scale n b) (perturbUp n p) < 0 := by
  rw [det_perturb]
  have h0 : 0 < n := by omega
  have h1 : n * det a b p ≤ n * (-1) := (Int.mul_le_mul_left h0).mpr (by omega)
  have h2 : n * det a b p + (b.x - a.x) < 0 := by omega
  have := mul_pos h0 (show 0 < -(n * det a b p + (b.x - a.x)) by omega)
  have e : n * (n * det a b p + (b.x - a.x)) = -(n * -(n * det a b p + (b.x - a.x))) := by ring
  omega

/-- **per edge**: for a point not on the edge, the half-open rule is the strict crossing with the ray
perturbed upwards by `1/n`, for every `n ≥ 2` larger than the edge's x-extent -/
theorem crosses_iff_perturbed (p a b : Pt) (hoff : onSegment a b p = false) (n : Int) (hn2 : 2 ≤ n)
    (hn : (b.x - a.x).natAbs < n) :
    crosses p a b = true ↔ strictCross (perturbUp n p) (Pt.scale n a) (Pt.scale n b) := by
  have hne : ∀ (_ : min a.y b.y ≤ p.y ∧ p.y ≤ max a.y b.y) (_ : a.y ≠ b.y), det a b p ≠ 0 := by
    intro hy hab hd
    have := SegSeg.between_of_y hd hab hy
    have hon : onSegment a b p = true := (onSegment_iff a b p).mpr ⟨hd, this⟩
    rw [hon] at hoff; exact absurd hoff (by decide)
  unfold crosses strictCross
  simp only [Pt.scale, perturbUp, Bool.and_eq_true, decide_eq_true_eq]
  have e1 : n * a.y < n * p.y + 1 ↔ a.y ≤ p.y := scaled_lt_succ hn2
  have e2 : n * p.y + 1 < n * b.y ↔ p.y < b.y := scaled_succ_lt hn2
  have e3 : n * b.y < n * p.y + 1 ↔ b.y ≤ p.y := scaled_lt_succ hn2
  have e4 : n * p.y + 1 < n * a.y ↔ p.y < a.y := scaled_succ_lt hn2
  have eP : (⟨n * p.x, n * p.y + 1⟩ : Pt) = perturbUp n p := rfl
  have eA : (⟨n * a.x, n * a.y⟩ : Pt) = Pt.scale n a := rfl
  have eB : (⟨n * b.x, n * b.y⟩ : Pt) = Pt.scale n b := rfl
  rw [e1, e2, e3, e4, eP, eA, eB]
  by_cases up : a.y ≤ p.y ∧ p.y < b.y
  · have hd := hne (by omega) (by omega)
    simp only [up, and_self, if_true, decide_eq_true_eq, true_and]
    have nd : ¬ (b.y ≤ p.y) := by omega
    simp only [nd, false_and, or_false]
    constructor
    · intro h; exact det_perturb_pos hn h
    · intro h
      by_contra hcon
      have := det_perturb_neg (p := p) hn (show det a b p < 0 by omega)
      omega
  · by_cases down : b.y ≤ p.y ∧ p.y < a.y
    · have hd := hne (by omega) (by omega)
      have nu : ¬ (a.y ≤ p.y ∧ p.y < b.y) := up
      have nu' : ¬ (a.y ≤ p.y) := by omega
      simp only [nu, if_false, down, and_self, if_true, decide_eq_true_eq, nu', false_and, false_or, true_and]
      constructor
      · intro h; exact det_perturb_neg hn h
      · intro h
        by_contra hcon
        have := det_perturb_pos (p := p) hn (show 0 < det a b p by omega)
        omega
    · have nu : ¬ (a.y ≤ p.y ∧ p.y < b.y) := up
      have nd : ¬ (b.y ≤ p.y ∧ p.y < a.y) := down
      simp only [nu, nd, if_false, Bool.false_eq_true, false_iff, not_or, not_and]
      constructor
      · intro h1 h2; exact absurd ⟨h1, h2⟩ nu
      · intro h1 h2; exact absurd ⟨h1, h2⟩ nd

/-- a scale that works for every edge of a ring -/
def ringScale (ring : List Pt) : Int :=
  2 + (((edges ring).map (fun e => (e.2.x - e.1.x).natAbs)).sum : Nat)

theorem le_sum_of_mem {l : List Nat} {x : Nat} (h : x ∈ l) : x ≤ l.sum := by
  induction l with
  | nil => cases h
  | cons y t ih =>
    rcases List.mem_cons.mp h with rfl | h'
    · simp
    · have := ih h'; simp; omega

/-- **ring level (PARTIAL: the perturbation is exhibited, the Jordan-curve meaning of parity is not)**:
for a point not on the ring, the edges counted by `Kernel.locateInRing` are exactly the edges strictly
crossed by the ray from `p + (0, 1/n)`, for every `n ≥ ringScale ring` -/
theorem crossing_edges_eq_perturbed (p : Pt) (ring : List Pt)
    (hoff : (edges ring).any (fun e => onSegment e.1 e.2 p) = false) (n : Int) (hn : ringScale ring ≤ n) :
    (edges ring).filter (fun e => crosses p e.1 e.2) =
      (edges ring).filter (fun e => decide (strictCross (perturbUp n p) (Pt.scale n e.1) (Pt.scale n e.2))) := by
  apply List.filter_congr
  intro e he
  have hoff' : onSegment e.1 e.2 p = false := by
    rw [List.any_eq_false] at hoff
    simpa using hoff e he
  have hle : (e.2.x - e.1.x).natAbs ≤ ((edges ring).map (fun e => (e.2.x - e.1.x).natAbs)).sum :=
    le_sum_of_mem (List.mem_map.mpr ⟨e, he, rfl⟩)
  unfold ringScale at hn
  have := crosses_iff_perturbed p e.1 e.2 hoff' n (by omega) (by omega)
  rw [Bool.eq_iff_iff, this]; simp

end GeosModel.Kernel
