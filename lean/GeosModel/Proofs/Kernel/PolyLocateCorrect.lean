import GeosModel.Model.Kernel.PolyLocate
import GeosModel.Proofs.Kernel.RayCountCorrect
/-!
# `locatePointInSurface` (ported) = `Kernel.locateInPolygon`

Two facts carry the proof.  (1) The envelope rejects are sound: a point outside the bounding box of a *closed*
ring is EXTERIOR by the even–odd specification — no segment can contain it, and the edges crossing its ray
are none (box to the left, above or below) or all the edges that change side of the ray's level, an even
number in a closed ring (box to the right).  (2) The early exits of the hole loop agree with the
specification's "BOUNDARY of any hole, else INTERIOR of any hole" unless the point is interior to one hole
and on the boundary of another, which valid polygons exclude.
-/
namespace GeosModel.PolyLocate
open GeosModel.Kernel GeosModel.RayCount

theorem edges_mem : ∀ (l : List Pt) (e : Pt × Pt), e ∈ edges l → e.1 ∈ l ∧ e.2 ∈ l
  | [], e, h => by simp [edges] at h
  | [_], e, h => by simp [edges] at h
  | a :: b :: r, e, h => by
    simp only [edges, List.mem_cons] at h
    rcases h with h | h
    · subst h; simp
    · have := edges_mem (b :: r) e h
      exact ⟨List.mem_cons_of_mem _ this.1, List.mem_cons_of_mem _ this.2⟩

/-- `p.y < v.y` -/
def above (p v : Pt) : Bool := decide (p.y < v.y)

/-- the edge changes side of the level of `p` (half-open) -/
def straddles (p : Pt) (e : Pt × Pt) : Bool := above p e.1 != above p e.2

/-- along any vertex chain the number of level changes has the parity of "first and last on different sides" -/
theorem straddle_parity (p : Pt) : ∀ (l : List Pt) (a z : Pt), l.head? = some a → l.getLast? = some z →
    ((edges l).filter (straddles p)).length % 2 = if above p a != above p z then 1 else 0
  | [], a, z, h, _ => by simp at h
  | [x], a, z, h1, h2 => by
    simp at h1 h2; subst h1; subst h2; simp [edges]
  | x :: y :: r, a, z, h1, h2 => by
    simp at h1; subst h1
    have hl : (y :: r).getLast? = some z := by simpa [List.getLast?_cons_cons] using h2
    have ih := straddle_parity p (y :: r) y z rfl hl
    have hs : straddles p (x, y) = (above p x != above p y) := rfl
    simp only [edges, List.filter_cons, hs]
    cases hx : above p x <;> cases hy : above p y <;> cases hz : above p z <;> simp_all <;> omega

theorem straddle_even_closed (p : Pt) (ring : List Pt) (hc : Closed ring) :
    ((edges ring).filter (straddles p)).length % 2 = 0 := by
  cases ring with
  | nil => simp [edges]
  | cons a r =>
    unfold Closed at hc
    have h2 : (a :: r).getLast? = some a := by rw [← hc]; rfl
    have := straddle_parity p (a :: r) a a rfl h2
    simpa using this

theorem crosses_iff (p a b : Pt) : crosses p a b = true ↔
    (a.y ≤ p.y ∧ p.y < b.y ∧ 0 < det a b p) ∨ (b.y ≤ p.y ∧ p.y < a.y ∧ det a b p < 0) := by
  unfold crosses
  by_cases h1 : a.y ≤ p.y <;> by_cases h2 : p.y < b.y <;> by_cases h3 : b.y ≤ p.y <;> by_cases h4 : p.y < a.y <;>
    simp [h1, h2, h3, h4] <;> omega

theorem straddles_iff (p a b : Pt) : straddles p (a, b) = true ↔
    (a.y ≤ p.y ∧ p.y < b.y) ∨ (b.y ≤ p.y ∧ p.y < a.y) := by
  unfold straddles above
  by_cases h1 : p.y < a.y <;> by_cases h2 : p.y < b.y <;> simp [h1, h2] <;> omega

/-- **envelope reject is sound**: outside the bounding box of a closed ring the specification says EXTERIOR -/
theorem outside_env_exterior (p : Pt) (ring : List Pt) (hc : Closed ring) (h : envContains ring p = false) :
    locateInRing p ring = .exterior := by
  -- which side of the box?
  have hside : (∀ v ∈ ring, p.x < v.x) ∨ (∀ v ∈ ring, v.x < p.x) ∨ (∀ v ∈ ring, p.y < v.y) ∨ (∀ v ∈ ring, v.y < p.y) := by
    unfold envContains at h
    simp only [Bool.and_eq_false_iff, List.any_eq_false, decide_eq_true_eq] at h
    rcases h with ((h | h) | h) | h
    · left; intro v hv; have := h v hv; omega
    · right; left; intro v hv; have := h v hv; omega
    · right; right; left; intro v hv; have := h v hv; omega
    · right; right; right; intro v hv; have := h v hv; omega
  have hon : (edges ring).any (fun e => onSegment e.1 e.2 p) = false := by
    rw [List.any_eq_false]
    intro e he hs
    obtain ⟨m1, m2⟩ := edges_mem ring e he
    rw [onSegment_iff] at hs
    have hb := (inBox_iff e.1 e.2 p).1 hs.2
    rcases hside with hs' | hs' | hs' | hs'
    · have := hs' _ m1; have := hs' _ m2; omega
    · have := hs' _ m1; have := hs' _ m2; omega
    · have := hs' _ m1; have := hs' _ m2; omega
    · have := hs' _ m1; have := hs' _ m2; omega
  have hnone : (∀ e ∈ edges ring, ¬ crosses p e.1 e.2 = true) →
      ((edges ring).filter (fun e => crosses p e.1 e.2)).length % 2 = 0 := by
    intro hn
    have : (edges ring).filter (fun e => crosses p e.1 e.2) = [] := by
      rw [List.filter_eq_nil_iff]; exact hn
    simp [this]
  have hpar : ((edges ring).filter (fun e => crosses p e.1 e.2)).length % 2 = 0 := by
    rcases hside with hs' | hs' | hs' | hs'
    · -- box strictly to the right: every level change is a crossing
      have : (edges ring).filter (fun e => crosses p e.1 e.2) = (edges ring).filter (straddles p) := by
        apply List.filter_congr
        intro e he
        obtain ⟨m1, m2⟩ := edges_mem ring e he
        have x1 := hs' _ m1; have x2 := hs' _ m2
        rw [Bool.eq_iff_iff, crosses_iff, show straddles p e = straddles p (e.1, e.2) from rfl, straddles_iff]
        constructor
        · rintro (⟨a1, a2, _⟩ | ⟨a1, a2, _⟩)
          · exact Or.inl ⟨a1, a2⟩
          · exact Or.inr ⟨a1, a2⟩
        · rintro (⟨a1, a2⟩ | ⟨a1, a2⟩)
          · exact Or.inl ⟨a1, a2, right_up p e.1 e.2 x1 x2 a1 a2⟩
          · exact Or.inr ⟨a1, a2, right_down p e.1 e.2 x1 x2 a1 a2⟩
      rw [this]; exact straddle_even_closed p ring hc
    · -- box strictly to the left: no crossing
      apply hnone
      intro e he
      obtain ⟨m1, m2⟩ := edges_mem ring e he
      have x1 := hs' _ m1; have x2 := hs' _ m2
      rw [crosses_iff]
      rintro (⟨a1, a2, a3⟩ | ⟨a1, a2, a3⟩)
      · have := left_up p e.1 e.2 x1 x2 a1 a2; omega
      · have := left_down p e.1 e.2 x1 x2 a1 a2; omega
    · apply hnone
      intro e he
      obtain ⟨m1, m2⟩ := edges_mem ring e he
      have y1 := hs' _ m1; have y2 := hs' _ m2
      rw [crosses_iff]
      rintro (⟨a1, a2, _⟩ | ⟨a1, a2, _⟩) <;> omega
    · apply hnone
      intro e he
      obtain ⟨m1, m2⟩ := edges_mem ring e he
      have y1 := hs' _ m1; have y2 := hs' _ m2
      rw [crosses_iff]
      rintro (⟨a1, a2, _⟩ | ⟨a1, a2, _⟩) <;> omega
  unfold locateInRing
  simp [hon, hpar]

/-- no point is interior to one hole and on the boundary of another (true of every valid polygon) -/
def HolesSeparateAt (p : Pt) (holes : List (List Pt)) : Prop :=
  ∀ h1 ∈ holes, ∀ h2 ∈ holes, locateInRing p h1 = .interior → locateInRing p h2 ≠ .boundary

theorem holesLoop_eq (p : Pt) : ∀ (holes : List (List Pt)), (∀ h ∈ holes, Closed h) → HolesSeparateAt p holes →
    holesLoop p holes =
      if holes.any (fun h => locateInRing p h == .boundary) then .boundary
      else if holes.any (fun h => locateInRing p h == .interior) then .exterior else .interior
  | [], _, _ => by simp [holesLoop]
  | h :: hs, hc, hsep => by
    have hch : Closed h := hc h (List.mem_cons_self ..)
    have hcs : ∀ h' ∈ hs, Closed h' := fun h' m => hc h' (List.mem_cons_of_mem _ m)
    have hseps : HolesSeparateAt p hs := fun a ma b mb => hsep a (List.mem_cons_of_mem _ ma) b (List.mem_cons_of_mem _ mb)
    have ih := holesLoop_eq p hs hcs hseps
    unfold holesLoop
    rw [locatePointInRing_eq p h hch]
    by_cases he : envContains h p = true
    · simp only [he, if_true]
      cases hl : locateInRing p h with
      | boundary => simp [hl]
      | exterior => simp [hl, ih]
      | interior =>
        -- no other hole has p on its boundary
        have hnb : hs.any (fun h' => locateInRing p h' == .boundary) = false := by
          rw [List.any_eq_false]
          intro h' m hb
          exact hsep h (List.mem_cons_self ..) h' (List.mem_cons_of_mem _ m) hl (by simpa using hb)
        simp [hl, hnb]
    · have he' : envContains h p = false := by simpa using he
      have hl := outside_env_exterior p h hch he'
      simp [he', hl, ih]

/-- **the ported `locatePointInSurface` is the specification `Kernel.locateInPolygon`** for every polygon whose rings
are closed and every point at which the holes are separate -/
theorem locatePointInPolygon_eq (p : Pt) (rings : List (List Pt)) (hc : ∀ r ∈ rings, Closed r)
    (hsep : HolesSeparateAt p rings.tail) :
    locatePointInPolygon p rings = locateInPolygon p rings := by
  cases rings with
  | nil => rfl
  | cons shell holes =>
    have hcs : Closed shell := hc shell (List.mem_cons_self ..)
    have hch : ∀ h ∈ holes, Closed h := fun h m => hc h (List.mem_cons_of_mem _ m)
    simp only [locatePointInPolygon, locateInPolygon, locatePointInRing_eq p shell hcs]
    by_cases he : envContains shell p = true
    · simp only [he, Bool.not_true, Bool.false_eq_true, if_false]
      cases hl : locateInRing p shell with
      | boundary => rfl
      | exterior => rfl
      | interior => simpa using holesLoop_eq p holes hch hsep
    · have he' : envContains shell p = false := by simpa using he
      simp [he', outside_env_exterior p shell hcs he']

end GeosModel.PolyLocate
