import GeosModel.Model.Kernel.RayCount
import GeosModel.Model.Kernel.SegSeg
import GeosModel.Model.Kernel.PolyLocate
import GeosModel.Model.Kernel.CxxDy
import GeosModel.Generated.KernelC07
import GeosModel.Proofs.Kernel.Basic
/-!
# C07 — views between the regenerated C++ (`Generated/KernelC07.lean`) and the hand-written kernels

The regenerated definitions speak about `Cxx.XY R` (a `CoordinateXY`), `DDv R` (a `geos::math::DD`) and tuples of member
values; the hand-written models about `Kernel.Pt`, `Filter.DD`, `RayCount.RCC`, `SegSeg.LI`.  This file holds the (trivial)
conversions the bridge theorems of `Props/C07Gen.lean` are stated with, and a few arithmetic facts about the carriers.
-/
namespace GeosModel.C07Bridge
open GeosModel GeosModel.Kernel GeosModel.Filter GeosModel.Generated

/-! ### exact carrier `Int` -/

/-- a grid point as the C++ sees it -/
def xy (p : Pt) : Cxx.XY Int := ⟨p.x, p.y⟩

/-- the exact orientation index in the place of `Orientation::index` / `CGAlgorithmsDD::orientationIndex(p1, p2, q)` -/
def orientXY (a b c : Cxx.XY Int) : Int := orient ⟨a.x, a.y⟩ ⟨b.x, b.y⟩ ⟨c.x, c.y⟩

@[simp] theorem xy_x (p : Pt) : (xy p).x = p.x := rfl
@[simp] theorem xy_y (p : Pt) : (xy p).y = p.y := rfl
@[simp] theorem orientXY_xy (a b c : Pt) : orientXY (xy a) (xy b) (xy c) = orient a b c := rfl
theorem xyMk_eq (p : Pt) : KernelC07.xyMk p.x p.y = xy p := rfl

/-- the exact orientation index takes the three values of `Orientation::{CLOCKWISE, COLLINEAR, COUNTERCLOCKWISE}` only -/
theorem orient_cases (a b c : Pt) : orient a b c = -1 ∨ orient a b c = 0 ∨ orient a b c = 1 := by
  unfold orient
  rcases Int.lt_trichotomy (det a b c) 0 with h | h | h
  · exact Or.inl (Int.sign_eq_neg_one_of_neg h)
  · exact Or.inr (Or.inl (by rw [h]; rfl))
  · exact Or.inr (Or.inr (Int.sign_eq_one_of_pos h))

theorem cmin (a b : Int) : Cxx.min a b = min a b := by
  simp only [Cxx.min, Cxx.int_lt, decide_eq_true_eq, Int.min_def]; split <;> split <;> omega
theorem cmax (a b : Int) : Cxx.max a b = max a b := by
  simp only [Cxx.max, Cxx.int_lt, decide_eq_true_eq, Int.max_def]; split <;> split <;> omega

/-- the members `(result, isProperVar, intPt[0], intPt[1])` a `LineIntersector` holds after `computeIntersect`, read off the
model's result `m`: reported points are copies of input points, a proper intersection point is whatever
`intersection(p1, p2, q1, q2)` returned (`P`), members the call does not assign keep their previous values `i0`, `i1` -/
def liMembers (P i0 i1 : Cxx.XY Int) (m : SegSeg.LI) : Nat × Bool × Cxx.XY Int × Cxx.XY Int :=
  (m.code, m.proper, (if m.proper then P else (m.pts.map xy).getD 0 i0), (m.pts.map xy).getD 1 i1)

/-- back from the C++ view -/
def unxy (q : Cxx.XY Int) : Pt := ⟨q.x, q.y⟩
@[simp] theorem unxy_xy (p : Pt) : unxy (xy p) = p := rfl
@[simp] theorem xy_unxy (q : Cxx.XY Int) : xy (unxy q) = q := rfl

/-! ### index loops of the C++ as folds over lists

`for (i = 1; i < n; i++) … seq[i-1] … seq[i] …` is regenerated as `for i in [1:n]` over `seqAt ring (i - 1)`, `seqAt ring i`;
`for (i = 0; i < n; i++) … ring(i) …` as `for i in [0:n]`.  The two lemmas turn such loops (any state, early exit included) into
folds over the consecutive pairs / the elements of the list, which is how the models recurse. -/

theorem getD_append_mid {α : Type} (pre : List α) (a : α) (rest : List α) (d : α) :
    (pre ++ a :: rest).getD pre.length d = a := by
  simp [List.getD]

theorem forIn_range_pairs {α σ : Type} (d : α) (f : α → α → σ → Id (ForInStep σ)) :
    ∀ (rest : List α) (pre : List α) (a : α) (s : σ),
      forIn (List.range' (pre.length + 1) rest.length) s
          (fun i s => f ((pre ++ a :: rest).getD (i - 1) d) ((pre ++ a :: rest).getD i d) s)
        = forIn ((a :: rest).zip rest) s (fun ab s => f ab.1 ab.2 s) := by
  intro rest
  induction rest with
  | nil => intro pre a s; simp
  | cons b rest ih =>
    intro pre a s
    have h0 : (pre ++ a :: b :: rest).getD pre.length d = a := getD_append_mid pre a (b :: rest) d
    have h1 : (pre ++ a :: b :: rest).getD (pre.length + 1) d = b := by
      have := getD_append_mid (pre ++ [a]) b rest d
      simpa using this
    have ih' := ih (pre ++ [a]) b
    simp only [List.length_append, List.length_cons, List.length_nil, List.append_assoc, List.cons_append, List.nil_append] at ih'
    simp only [List.length_cons, List.range'_succ, List.forIn_cons, List.zip_cons_cons, Nat.add_sub_cancel, h0, h1]
    congr 1
    funext r
    cases r with
    | done s' => rfl
    | yield s' => exact ih' s'

theorem forIn_range_elems {α σ : Type} (d : α) (f : α → σ → Id (ForInStep σ)) :
    ∀ (l : List α) (pre : List α) (s : σ),
      forIn (List.range' pre.length l.length) s (fun i s => f ((pre ++ l).getD i d) s) = forIn l s f := by
  intro l
  induction l with
  | nil => intro pre s; simp
  | cons a l ih =>
    intro pre s
    have h0 : (pre ++ a :: l).getD pre.length d = a := getD_append_mid pre a l d
    have ih' := ih (pre ++ [a])
    simp only [List.length_append, List.length_cons, List.length_nil, List.append_assoc, List.cons_append, List.nil_append] at ih'
    simp only [List.length_cons, List.range'_succ, List.forIn_cons, h0]
    congr 1
    funext r
    cases r with
    | done s' => rfl
    | yield s' => exact ih' s'

/-- the model's `isOnLine` as a fold over consecutive pairs with early exit -/
theorem isOnLine_fold (p : Pt) : ∀ (a : Pt) (rest : List Pt),
    (forIn (((a :: rest).map xy).zip (rest.map xy)) ((none : Option Bool), ()) (fun ab _ =>
        (if RayCount.isOnSegment p (unxy ab.1) (unxy ab.2) = true then pure (ForInStep.done (some true, ()))
         else pure (ForInStep.yield (none, ())) : Id _))).run
      = (if RayCount.isOnLine p (a :: rest) then (some true, ()) else (none, ())) := by
  intro a rest
  induction rest generalizing a with
  | nil => simp [RayCount.isOnLine]
  | cons b rest ih =>
    simp only [List.map_cons, List.zip_cons_cons, List.forIn_cons, RayCount.isOnLine, unxy_xy]
    by_cases h : RayCount.isOnSegment p a b = true
    · simp [h]
    · have := ih b
      simp only [List.map_cons] at this
      simp [h, this]

/-- one iteration of the loop of `RayCrossingCounter::locatePointInRing`, in terms of the model: count the segment, stop with
the location when the point is on it -/
def ringStep (u v : Cxx.XY Int) (s : Option Loc × KernelC07.RCCv Int) : Id (ForInStep (Option Loc × KernelC07.RCCv Int)) :=
  let st' := RayCount.countSegment (unxy s.2.point) ⟨s.2.isPointOnSegment, s.2.crossingCount⟩ (unxy u) (unxy v)
  if st'.onSeg = true then pure (ForInStep.done (some (RayCount.getLocation st'), ⟨s.2.point, st'.onSeg, st'.count⟩))
  else pure (ForInStep.yield (none, ⟨s.2.point, st'.onSeg, st'.count⟩))

/-- the model's `locLoop` is that fold -/
theorem locLoop_fold (p : Pt) : ∀ (rest : List Pt) (a : Pt) (st : RayCount.RCC), st.onSeg = false →
    (forIn (((a :: rest).map xy).zip (rest.map xy)) ((none : Option Loc), (⟨xy p, st.onSeg, st.count⟩ : KernelC07.RCCv Int))
        (fun ab s => ringStep ab.1 ab.2 s)).run
      = ((if (RayCount.locLoop p st (a :: rest)).onSeg then some (RayCount.getLocation (RayCount.locLoop p st (a :: rest))) else none),
         ⟨xy p, (RayCount.locLoop p st (a :: rest)).onSeg, (RayCount.locLoop p st (a :: rest)).count⟩) := by
  intro rest
  induction rest with
  | nil => intro a st h; simp [RayCount.locLoop, h]
  | cons b rest ih =>
    intro a st h
    cases st with | mk o c =>
    simp only [List.map_cons, List.zip_cons_cons, List.forIn_cons, RayCount.locLoop]
    by_cases h' : (RayCount.countSegment p ⟨o, c⟩ a b).onSeg = true
    · have hs : ringStep (xy a) (xy b) (none, ⟨xy p, o, c⟩)
          = pure (ForInStep.done (some (RayCount.getLocation (RayCount.countSegment p ⟨o, c⟩ a b)),
              ⟨xy p, (RayCount.countSegment p ⟨o, c⟩ a b).onSeg, (RayCount.countSegment p ⟨o, c⟩ a b).count⟩)) := by
        simp [ringStep, h']
      rw [hs]
      simp [h']
    · have h'' : (RayCount.countSegment p ⟨o, c⟩ a b).onSeg = false := by simpa using h'
      have hs : ringStep (xy a) (xy b) (none, ⟨xy p, o, c⟩)
          = pure (ForInStep.yield (none,
              ⟨xy p, (RayCount.countSegment p ⟨o, c⟩ a b).onSeg, (RayCount.countSegment p ⟨o, c⟩ a b).count⟩)) := by
        simp [ringStep, h'']
      have := ih b (RayCount.countSegment p ⟨o, c⟩ a b) h''
      simp only [List.map_cons] at this
      rw [hs]
      simp only [pure_bind, h'', Bool.false_eq_true, if_false] at this ⊢
      exact this

/-- one iteration of the hole loop of `SimplePointInAreaLocator::locatePointInSurface`, in terms of the model -/
def holeStep (p : Pt) (h : List Pt) (_s : Option Loc × Unit) : Id (ForInStep (Option Loc × Unit)) :=
  if PolyLocate.envContains h p = true then
    (if RayCount.locatePointInRing p h = .boundary then pure (ForInStep.done (some Loc.boundary, ()))
     else if RayCount.locatePointInRing p h = .interior then pure (ForInStep.done (some Loc.exterior, ()))
     else pure (ForInStep.yield (none, ())))
  else pure (ForInStep.yield (none, ()))

/-- the model's `holesLoop` is that fold (`none`: fell through all the holes, the point is interior) -/
theorem holesLoop_fold (p : Pt) : ∀ holes : List (List Pt),
    (forIn holes ((none : Option Loc), ()) (holeStep p)).run
      = (match PolyLocate.holesLoop p holes with | .interior => none | l => some l, ()) := by
  intro holes
  induction holes with
  | nil => simp [PolyLocate.holesLoop]
  | cons h hs ih =>
    simp only [List.forIn_cons, PolyLocate.holesLoop, holeStep]
    by_cases he : PolyLocate.envContains h p = true
    · rcases hl : RayCount.locatePointInRing p h <;> simp [he]
      exact ih
    · simp [he]
      exact ih

/-! ### rounded dyadic carrier `Rd rnd` -/

/-- a model double-double as the regenerated code sees it -/
def ddv (rnd : Dy → Dy) (x : DD) : KernelC07.DDv (Rd rnd) := ⟨⟨x.hi⟩, ⟨x.lo⟩⟩

@[simp] theorem ddv_hi (rnd : Dy → Dy) (x : DD) : (ddv rnd x).hi = ⟨x.hi⟩ := rfl
@[simp] theorem ddv_lo (rnd : Dy → Dy) (x : DD) : (ddv rnd x).lo = ⟨x.lo⟩ := rfl

theorem sub_zero_left_m (d : Dy) : (Dy.sub Dy.zero d).m = -d.m := by
  simp [Dy.sub, Dy.add, Dy.neg, Dy.zero, Dy.mk']
  split <;> simp_all
theorem sub_zero_right_m (d : Dy) : (Dy.sub d Dy.zero).m = d.m := by
  simp [Dy.sub, Dy.add, Dy.neg, Dy.zero, Dy.mk']
  split <;> simp_all

/-- `DD(double x) : hi(x), lo(0.0)` is `DD.ofD` -/
theorem ddOfDouble_eq (rnd : Dy → Dy) (x : Dy) : KernelC07.ddOfDouble (R := Rd rnd) ⟨x⟩ = ddv rnd (DD.ofD x) := by
  simp [KernelC07.ddOfDouble, ddv, DD.ofD, Dy.mk']

/-- the literal of `orientationIndexFilter`, converted like a compiler converts it, is the model's coefficient -/
theorem errCoef_literal : decToDy 33306690621773724 (-32) = errCoef := by decide

theorem negOne_literal : Dy.mk' (-1) 0 = negOne := by decide

end GeosModel.C07Bridge
