import GeosModel.Proofs.Kernel.FilterGrid
/-!
# The double-double fallback is exact on the whole 2^25 grid

Every coordinate difference `d` the path forms satisfies `|d| ≤ 2^26`.  For `|d| ≤ 2^26 - 1` the Veltkamp
product `SPLIT · d` (`SPLIT = 2^27 + 1`) is at most `(2^27+1)(2^26-1) < 2^53` and exact; for `d = ±2^26` it is
`(2^27+1)·2^26`, which rounds to itself with the exponent shifted by one, and the two subtractions that
follow bring the exponent back.  Either way the split returns the operand itself and a zero tail
(`veltkamp_hi`), hence every operation of `DD::selfAdd` / `DD::selfMultiply` acts on exactly representable
integers: the high words carry the exact values, all low words are zero, and `orientationIndexDD` returns
the sign of `Kernel.det`.
-/
namespace GeosModel.Filter
open GeosModel.Kernel

theorem neg_zero' : Dy.neg Dy.zero = Dy.zero := by decide

theorem SPLIT_eq : SPLIT = Dy.mk' 134217729 0 := by decide

/-- `selfAdd` on integers with a common exponent and zero low words is exact -/
theorem selfAdd_exact (a b k : Int) (ha : a.natAbs ≤ 2 ^ 52) (hb : b.natAbs ≤ 2 ^ 52) :
    DD.selfAdd roundNE ⟨Dy.mk' a k, Dy.zero⟩ (Dy.mk' b k) Dy.zero = ⟨Dy.mk' (a + b) k, Dy.zero⟩ := by
  have z : Dy.zero = Dy.mk' 0 k := (mk'_zero k).symm
  rw [z]
  unfold DD.selfAdd
  simp (disch := omega) only [fadd, fsub, mk'_add, mk'_sub, roundNE_mk']
  congr 1 <;> congr 1 <;> omega

theorem fmul_zero_left (x : Dy) : fmul roundNE Dy.zero x = Dy.zero := by
  unfold fmul Dy.mul; simp [Dy.zero, roundNE_zero]
  exact roundNE_zero
theorem fmul_zero_right (x : Dy) : fmul roundNE x Dy.zero = Dy.zero := by
  unfold fmul Dy.mul; simp [Dy.zero]
  exact roundNE_zero
theorem fadd_zero_zero : fadd roundNE Dy.zero Dy.zero = Dy.zero := by decide
theorem fadd_zero_right (n e : Int) (h : n.natAbs ≤ 2 ^ 53) :
    fadd roundNE (Dy.mk' n e) Dy.zero = Dy.mk' n e := by
  rw [← mk'_zero e, fadd, mk'_add, Int.add_zero, roundNE_mk' _ _ h]
theorem fsub_self (n e : Int) (h : n.natAbs ≤ 2 ^ 53) : fsub roundNE (Dy.mk' n e) (Dy.mk' n e) = Dy.zero := by
  rw [fsub, mk'_sub, Int.sub_self, mk'_zero, roundNE_zero]

/-- `-1 * x` in `DD::selfSubtract` is exact on representable operands -/
theorem fmul_negOne (n e : Int) (h : n.natAbs ≤ 2 ^ 53) : fmul roundNE negOne (Dy.mk' n e) = Dy.mk' (-n) e := by
  have h1 : negOne = Dy.mk' (-1) 0 := by decide
  rw [fmul, h1, mk'_mul, roundNE_mk' _ _ (by omega)]
  congr 1 <;> omega

/-- subtraction when the left operand's exponent is one higher -/
theorem sub_shift1 (q n k : Int) (hq : q ≠ 0) (hn : n ≠ 0) :
    Dy.sub (Dy.mk' q (k + 1)) (Dy.mk' n k) = Dy.mk' (2 * q - n) k := by
  rw [mk'_of_ne hq, mk'_of_ne hn]
  unfold Dy.sub Dy.add Dy.neg
  have h1 : ¬ (q = 0) := hq
  have h2 : ¬ (-n = 0) := by omega
  simp only [h1, h2, if_false]
  have e1 : min (k + 1) k = k := by omega
  rw [e1]
  have e2 : (k + 1 - k).toNat = 1 := by omega
  have e3 : (k - k).toNat = 0 := by omega
  rw [e2, e3]
  congr 1
  omega

theorem roundNat_ext : roundNat 9007199321849856 = (4503599660924928, 1) := by decide

/-- `SPLIT · (±2^26)` is representable, with the exponent shifted by one -/
theorem fmul_split_ext (s k : Int) (hs : s = 1 ∨ s = -1) :
    fmul roundNE SPLIT (Dy.mk' (s * 67108864) k) = Dy.mk' (s * 4503599660924928) (k + 1) := by
  rw [fmul, SPLIT_eq, mk'_mul, Int.zero_add]
  rcases hs with rfl | rfl
  · rw [mk'_of_ne (by decide)]
    unfold roundNE
    simp only
    have : (134217729 * (1 * 67108864) : Int).natAbs = 9007199321849856 := by decide
    rw [this, roundNat_ext]
    simp
  · rw [mk'_of_ne (by decide)]
    unfold roundNE
    simp only
    have : (134217729 * (-1 * 67108864) : Int).natAbs = 9007199321849856 := by decide
    rw [this, roundNat_ext]
    simp

/-- **Veltkamp split of a grid difference**: `C = SPLIT·a`, `hx = C - (C - a)` returns `a` itself, for every
`|a| ≤ 2^26` -/
theorem veltkamp_hi (a k : Int) (ha : a.natAbs ≤ 2 ^ 26) :
    fsub roundNE (fmul roundNE SPLIT (Dy.mk' a k))
      (fsub roundNE (fmul roundNE SPLIT (Dy.mk' a k)) (Dy.mk' a k)) = Dy.mk' a k := by
  have e26 : (2 : Nat) ^ 26 = 67108864 := by decide
  rw [e26] at ha
  by_cases hext : a.natAbs = 67108864
  · have hs : a = 1 * 67108864 ∨ a = -1 * 67108864 := by omega
    rcases hs with h | h
    · rw [h, fmul_split_ext 1 k (Or.inl rfl)]
      have e1 : fsub roundNE (Dy.mk' (1 * 4503599660924928) (k + 1)) (Dy.mk' (1 * 67108864) k)
          = Dy.mk' 9007199254740992 k := by
        rw [fsub, sub_shift1 _ _ _ (by decide) (by decide), roundNE_mk' _ _ (by decide)]; congr 1
      rw [e1, fsub, sub_shift1 _ _ _ (by decide) (by decide), roundNE_mk' _ _ (by decide)]; congr 1
    · rw [h, fmul_split_ext (-1) k (Or.inr rfl)]
      have e1 : fsub roundNE (Dy.mk' (-1 * 4503599660924928) (k + 1)) (Dy.mk' (-1 * 67108864) k)
          = Dy.mk' (-9007199254740992) k := by
        rw [fsub, sub_shift1 _ _ _ (by decide) (by decide), roundNE_mk' _ _ (by decide)]; congr 1
      rw [e1, fsub, sub_shift1 _ _ _ (by decide) (by decide), roundNE_mk' _ _ (by decide)]; congr 1
  · have ha' : a.natAbs ≤ 67108863 := by omega
    have hC : fmul roundNE SPLIT (Dy.mk' a k) = Dy.mk' (134217729 * a) k := by
      rw [fmul, SPLIT_eq, mk'_mul, Int.zero_add, roundNE_mk' _ _ (by omega)]
    have hx1 : fsub roundNE (Dy.mk' (134217729 * a) k) (Dy.mk' a k) = Dy.mk' (134217728 * a) k := by
      rw [fsub, mk'_sub, roundNE_mk' _ _ (by omega)]; congr 1; omega
    have hx2 : fsub roundNE (Dy.mk' (134217729 * a) k) (Dy.mk' (134217728 * a) k) = Dy.mk' a k := by
      rw [fsub, mk'_sub, roundNE_mk' _ _ (by omega)]; congr 1; omega
    rw [hC, hx1, hx2]

/-- `selfMultiply` on grid differences (`|a|, |b| ≤ 2^26`) with zero low words is exact -/
theorem selfMultiply_exact (a b k j : Int) (ha : a.natAbs ≤ 2 ^ 26) (hb : b.natAbs ≤ 2 ^ 26) :
    DD.selfMultiply roundNE ⟨Dy.mk' a k, Dy.zero⟩ (Dy.mk' b j) Dy.zero = ⟨Dy.mk' (a * b) (k + j), Dy.zero⟩ := by
  have hab : (a * b).natAbs ≤ 2 ^ 52 := Nat.le_trans (natAbs_mul_le ha hb) (by decide)
  have e26 : (2 : Nat) ^ 26 = 67108864 := by decide
  have hva := veltkamp_hi a k ha
  have hvb := veltkamp_hi b j hb
  rw [e26] at ha hb
  have htx : fsub roundNE (Dy.mk' a k) (Dy.mk' a k) = Dy.zero := fsub_self a k (by omega)
  have hty : fsub roundNE (Dy.mk' b j) (Dy.mk' b j) = Dy.zero := fsub_self b j (by omega)
  have hP : fmul roundNE (Dy.mk' a k) (Dy.mk' b j) = Dy.mk' (a * b) (k + j) := by
    rw [fmul, mk'_mul, roundNE_mk' _ _ (by omega)]
  have hP0 : fsub roundNE (Dy.mk' (a * b) (k + j)) (Dy.mk' (a * b) (k + j)) = Dy.zero :=
    fsub_self _ _ (by omega)
  have hPz : fadd roundNE (Dy.mk' (a * b) (k + j)) Dy.zero = Dy.mk' (a * b) (k + j) :=
    fadd_zero_right _ _ (by omega)
  unfold DD.selfMultiply
  simp only [hva, hvb, htx, hty, hP, hP0, fmul_zero_left, fmul_zero_right, fadd_zero_zero, hPz]

/-- **dd_exact_grid**: on the whole `2^25` grid, for every unit `2^k`, the double-double evaluation returns the
exact orientation -/
theorem dd_exact_grid25 (k : Int) {a b c : Pt}
    (ha : OnGrid gridBound a) (hb : OnGrid gridBound b) (hc : OnGrid gridBound c) :
    orientationIndexDD roundNE (ofGrid k a.x) (ofGrid k a.y) (ofGrid k b.x) (ofGrid k b.y) (ofGrid k c.x) (ofGrid k c.y)
      = orient a b c := by
  obtain ⟨hax, hay⟩ := ha; obtain ⟨hbx, hby⟩ := hb; obtain ⟨hcx, hcy⟩ := hc
  have e25 : gridBound = 33554432 := by decide
  rw [e25] at hax hay hbx hby hcx hcy
  unfold orientationIndexDD DD.add DD.mul DD.sub DD.ofD ofGrid
  simp only [mk'_neg]
  rw [selfAdd_exact b.x (-a.x) k (by omega) (by omega), selfAdd_exact b.y (-a.y) k (by omega) (by omega),
    selfAdd_exact c.x (-b.x) k (by omega) (by omega), selfAdd_exact c.y (-b.y) k (by omega) (by omega)]
  simp only
  rw [selfMultiply_exact (b.x + -a.x) (c.y + -b.y) k k (by omega) (by omega),
    selfMultiply_exact (b.y + -a.y) (c.x + -b.x) k k (by omega) (by omega)]
  have h1 : ((b.x + -a.x) * (c.y + -b.y)).natAbs ≤ 2 ^ 52 :=
    Nat.le_trans (natAbs_mul_le (m := 2 ^ 26) (n := 2 ^ 26) (by omega) (by omega)) (by decide)
  have h2 : ((b.y + -a.y) * (c.x + -b.x)).natAbs ≤ 2 ^ 52 :=
    Nat.le_trans (natAbs_mul_le (m := 2 ^ 26) (n := 2 ^ 26) (by omega) (by omega)) (by decide)
  simp only [fmul_negOne _ _ (Nat.le_trans h2 (by decide)), fmul_zero_right]
  rw [selfAdd_exact _ _ (k + k) (by omega) (by omega)]
  have hdet : (b.x + -a.x) * (c.y + -b.y) + -((b.y + -a.y) * (c.x + -b.x)) = det a b c := by
    unfold det; ring
  rw [hdet]
  unfold orientationDD orient
  simp only [Dy.isNeg, Dy.isPos, Dy.isZero, mk'_m, Dy.zero]
  rcases Int.lt_trichotomy (det a b c) 0 with h | h | h
  · have : ¬ (0 < det a b c) := by omega
    simp [h, Int.sign_eq_neg_one_of_neg h]
  · simp [h]
  · have : ¬ (det a b c < 0) := by omega
    simp [h, this, Int.sign_eq_one_of_pos h]

end GeosModel.Filter
