import GeosModel.Proofs.Kernel.FilterGrid
/-!
# The double-double fallback is exact on the grid up to 2^24 units  (PARTIAL w.r.t. the 2^25 grid)

For coordinates of at most `2^24` units every coordinate difference is at most `2^25`, so the Veltkamp
products `SPLIT · d` (`SPLIT = 2^27 + 1`) are at most `2^52 + 2^25 ≤ 2^53` and are exact; every operation
of `DD::selfAdd` / `DD::selfMultiply` then acts on exactly representable integers: the high words carry
the exact values, all low words are zero, and `orientationIndexDD` returns the sign of `Kernel.det`.
(For the band `(2^24, 2^25]` the split products need one rounding; that case is covered by the
correspondence stream only.)
-/
namespace GeosModel.Filter
open GeosModel.Kernel

theorem neg_zero' : Dy.neg Dy.zero = Dy.zero := by decide

theorem SPLIT_eq : SPLIT = Dy.mk' 134217729 0 := by decide

/-- `selfAdd` on integers with a common exponent and zero low words is exact -/
theorem selfAdd_exact (a b k : Int) (ha : a.natAbs ≤ 2 ^ 51) (hb : b.natAbs ≤ 2 ^ 51) :
    DD.selfAdd roundNE ⟨Dy.mk' a k, Dy.zero⟩ (Dy.mk' b k) Dy.zero = ⟨Dy.mk' (a + b) k, Dy.zero⟩ := by
  have z : Dy.zero = Dy.mk' 0 k := (mk'_zero k).symm
  rw [z]
  unfold DD.selfAdd
  simp (disch := omega) only [fadd, fsub, mk'_add, mk'_sub, roundNE_mk']
  congr 1 <;> congr 1 <;> omega

theorem fmul_zero_left (x : Dy) : fmul roundNE Dy.zero x = Dy.zero := by
  unfold fmul Dy.mul; simp [Dy.zero, roundNE_zero]
  exact roundNE_zero
theorem fmul_zero_right (x : Dy) : fmul roundNE x Dy.zero = Dy.zero := by
  unfold fmul Dy.mul; simp [Dy.zero]
  exact roundNE_zero
theorem fadd_zero_zero : fadd roundNE Dy.zero Dy.zero = Dy.zero := by decide
theorem fadd_zero_right (n e : Int) (h : n.natAbs ≤ 2 ^ 53) :
    fadd roundNE (Dy.mk' n e) Dy.zero = Dy.mk' n e := by
  rw [← mk'_zero e, fadd, mk'_add, Int.add_zero, roundNE_mk' _ _ h]
theorem fsub_self (n e : Int) (h : n.natAbs ≤ 2 ^ 53) : fsub roundNE (Dy.mk' n e) (Dy.mk' n e) = Dy.zero := by
  rw [fsub, mk'_sub, Int.sub_self, mk'_zero, roundNE_zero]

/-- `selfMultiply` on integers of at most `2^25` with zero low words is exact -/
theorem selfMultiply_exact (a b k j : Int) (ha : a.natAbs ≤ 2 ^ 25) (hb : b.natAbs ≤ 2 ^ 25) :
    DD.selfMultiply roundNE ⟨Dy.mk' a k, Dy.zero⟩ (Dy.mk' b j) Dy.zero = ⟨Dy.mk' (a * b) (k + j), Dy.zero⟩ := by
  have hab : (a * b).natAbs ≤ 2 ^ 50 := Nat.le_trans (natAbs_mul_le ha hb) (by decide)
  -- the Veltkamp split of both operands returns the operand itself and a zero tail
  have hC : fmul roundNE SPLIT (Dy.mk' a k) = Dy.mk' (134217729 * a) k := by
    rw [fmul, SPLIT_eq, mk'_mul, Int.zero_add, roundNE_mk' _ _ (by omega)]
  have hc : fmul roundNE SPLIT (Dy.mk' b j) = Dy.mk' (134217729 * b) j := by
    rw [fmul, SPLIT_eq, mk'_mul, Int.zero_add, roundNE_mk' _ _ (by omega)]
  have hx1 : fsub roundNE (Dy.mk' (134217729 * a) k) (Dy.mk' a k) = Dy.mk' (134217728 * a) k := by
    rw [fsub, mk'_sub, roundNE_mk' _ _ (by omega)]; congr 1; omega
  have hx2 : fsub roundNE (Dy.mk' (134217729 * a) k) (Dy.mk' (134217728 * a) k) = Dy.mk' a k := by
    rw [fsub, mk'_sub, roundNE_mk' _ _ (by omega)]; congr 1; omega
  have htx : fsub roundNE (Dy.mk' a k) (Dy.mk' a k) = Dy.zero := fsub_self a k (by omega)
  have hy1 : fsub roundNE (Dy.mk' (134217729 * b) j) (Dy.mk' b j) = Dy.mk' (134217728 * b) j := by
    rw [fsub, mk'_sub, roundNE_mk' _ _ (by omega)]; congr 1; omega
  have hy2 : fsub roundNE (Dy.mk' (134217729 * b) j) (Dy.mk' (134217728 * b) j) = Dy.mk' b j := by
    rw [fsub, mk'_sub, roundNE_mk' _ _ (by omega)]; congr 1; omega
  have hty : fsub roundNE (Dy.mk' b j) (Dy.mk' b j) = Dy.zero := fsub_self b j (by omega)
  have hP : fmul roundNE (Dy.mk' a k) (Dy.mk' b j) = Dy.mk' (a * b) (k + j) := by
    rw [fmul, mk'_mul, roundNE_mk' _ _ (by omega)]
  have hP0 : fsub roundNE (Dy.mk' (a * b) (k + j)) (Dy.mk' (a * b) (k + j)) = Dy.zero :=
    fsub_self _ _ (by omega)
  have hPz : fadd roundNE (Dy.mk' (a * b) (k + j)) Dy.zero = Dy.mk' (a * b) (k + j) :=
    fadd_zero_right _ _ (by omega)
  unfold DD.selfMultiply
  simp only [hC, hc, hx1, hx2, htx, hy1, hy2, hty, hP, hP0, fmul_zero_left, fmul_zero_right, fadd_zero_zero, hPz]

/-- **dd_exact_grid** (PARTIAL: bound `2^24`): the double-double evaluation returns the exact orientation -/
theorem dd_exact_grid24 (k : Int) {a b c : Pt}
    (ha : OnGrid (2 ^ 24) a) (hb : OnGrid (2 ^ 24) b) (hc : OnGrid (2 ^ 24) c) :
    orientationIndexDD roundNE (ofGrid k a.x) (ofGrid k a.y) (ofGrid k b.x) (ofGrid k b.y) (ofGrid k c.x) (ofGrid k c.y)
      = orient a b c := by
  obtain ⟨hax, hay⟩ := ha; obtain ⟨hbx, hby⟩ := hb; obtain ⟨hcx, hcy⟩ := hc
  have e24 : (2 : Nat) ^ 24 = 16777216 := by decide
  rw [e24] at hax hay hbx hby hcx hcy
  unfold orientationIndexDD DD.add DD.mul DD.sub DD.ofD ofGrid
  simp only [mk'_neg]
  rw [selfAdd_exact b.x (-a.x) k (by omega) (by omega), selfAdd_exact b.y (-a.y) k (by omega) (by omega),
    selfAdd_exact c.x (-b.x) k (by omega) (by omega), selfAdd_exact c.y (-b.y) k (by omega) (by omega)]
  simp only
  rw [selfMultiply_exact (b.x + -a.x) (c.y + -b.y) k k (by omega) (by omega),
    selfMultiply_exact (b.y + -a.y) (c.x + -b.x) k k (by omega) (by omega)]
  simp only [mk'_neg, neg_zero']
  have h1 : ((b.x + -a.x) * (c.y + -b.y)).natAbs ≤ 2 ^ 50 :=
    Nat.le_trans (natAbs_mul_le (m := 2 ^ 25) (n := 2 ^ 25) (by omega) (by omega)) (by decide)
  have h2 : ((b.y + -a.y) * (c.x + -b.x)).natAbs ≤ 2 ^ 50 :=
    Nat.le_trans (natAbs_mul_le (m := 2 ^ 25) (n := 2 ^ 25) (by omega) (by omega)) (by decide)
  rw [selfAdd_exact _ _ (k + k) (by omega) (by omega)]
  have hdet : (b.x + -a.x) * (c.y + -b.y) + -((b.y + -a.y) * (c.x + -b.x)) = det a b c := by
    unfold det; ring
  rw [hdet]
  unfold orientationDD orient
  simp only [Dy.isNeg, Dy.isPos, Dy.isZero, mk'_m, Dy.zero]
  rcases Int.lt_trichotomy (det a b c) 0 with h | h | h
  · have : ¬ (0 < det a b c) := by omega
    simp [h, Int.sign_eq_neg_one_of_neg h]
  · simp [h]
  · have : ¬ (det a b c < 0) := by omega
    simp [h, this, Int.sign_eq_one_of_pos h]

end GeosModel.Filter
