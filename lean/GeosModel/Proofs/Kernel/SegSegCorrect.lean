import GeosModel.Proofs.Kernel.SegSegLemmas
/-!
# `computeIntersect` (ported) = `Kernel.segRel`

`classify_eq_segRel`: for all `Int` segments (degenerate ones included) the meaning of the ported
`LineIntersector::computeIntersect` result is the specification `Kernel.segRel`.
-/
namespace GeosModel.SegSeg
open GeosModel.Kernel

/-- strictly opposite signs -/
def Opp (a b : Int) : Prop := (0 < a ∧ b < 0) ∨ (a < 0 ∧ 0 < b)
/-- the same strict sign -/
def Same (a b : Int) : Prop := (0 < a ∧ 0 < b) ∨ (a < 0 ∧ b < 0)

instance (a b : Int) : Decidable (Opp a b) := by unfold Opp; exact inferInstance
instance (a b : Int) : Decidable (Same a b) := by unfold Same; exact inferInstance

theorem sign_mul_neg_iff (a b : Int) : a.sign * b.sign < 0 ↔ Opp a b := by
  unfold Opp
  rcases Int.lt_trichotomy a 0 with ha | ha | ha <;> rcases Int.lt_trichotomy b 0 with hb | hb | hb
  all_goals first
    | (subst ha; simp; done)
    | (subst hb; simp; done)
    | skip
  · rw [Int.sign_eq_neg_one_of_neg ha, Int.sign_eq_neg_one_of_neg hb]; simp; omega
  · rw [Int.sign_eq_neg_one_of_neg ha, Int.sign_eq_one_of_pos hb]; simp; omega
  · rw [Int.sign_eq_one_of_pos ha, Int.sign_eq_neg_one_of_neg hb]; simp; omega
  · rw [Int.sign_eq_one_of_pos ha, Int.sign_eq_one_of_pos hb]; simp; omega

/-- `segRel` in terms of the four determinants -/
theorem segRel_det (p1 p2 q1 q2 : Pt) :
    segRel p1 p2 q1 q2 =
      if Opp (det p1 p2 q1) (det p1 p2 q2) ∧ Opp (det q1 q2 p1) (det q1 q2 p2) then .point true
      else if det p1 p2 q1 = 0 ∧ det p1 p2 q2 = 0 ∧ det q1 q2 p1 = 0 ∧ det q1 q2 p2 = 0 then
        if segCands p1 p2 q1 q2 = [] then .disjoint
        else if ∃ a ∈ segCands p1 p2 q1 q2, ∃ b ∈ segCands p1 p2 q1 q2, a ≠ b then .overlap
        else .point false
      else if onSegment p1 p2 q1 = true ∨ onSegment p1 p2 q2 = true ∨
          onSegment q1 q2 p1 = true ∨ onSegment q1 q2 p2 = true then .point false
      else .disjoint := by
  rw [segRel_eq]
  have e1 : ∀ a b c d : Pt, orient a b c * orient a b d < 0 ↔ Opp (det a b c) (det a b d) := by
    intro a b c d; unfold orient; exact sign_mul_neg_iff _ _
  have e2 : ∀ a b c : Pt, (det a b c = 0 ∧ onSegment a b c = true) ↔ onSegment a b c = true := by
    intro a b c
    constructor
    · exact fun h => h.2
    · intro h; exact ⟨((onSegment_iff a b c).mp h).1, h⟩
  simp only [e1, orient_eq_zero, e2]

/-! ### eliminating one determinant from the vector relation -/

theorem elim_D4 {D1 D2 D3 D4 a b c d : Int} (hf : D1 - D2 = D4 - D3)
    (hx : D1 * a - D2 * b + D3 * c - D4 * d = 0) : D1 * (a - d) - D2 * (b - d) + D3 * (c - d) = 0 := by
  have e : D4 = D1 - D2 + D3 := by omega
  subst e; linarith
theorem elim_D3 {D1 D2 D3 D4 a b c d : Int} (hf : D1 - D2 = D4 - D3)
    (hx : D1 * a - D2 * b + D3 * c - D4 * d = 0) : D1 * (a - c) - D2 * (b - c) - D4 * (d - c) = 0 := by
  have e : D3 = D4 - D1 + D2 := by omega
  subst e; linarith
theorem elim_D2 {D1 D2 D3 D4 a b c d : Int} (hf : D1 - D2 = D4 - D3)
    (hx : D1 * a - D2 * b + D3 * c - D4 * d = 0) : D1 * (a - b) + D3 * (c - b) - D4 * (d - b) = 0 := by
  have e : D2 = D1 - D4 + D3 := by omega
  subst e; linarith
theorem elim_D1 {D1 D2 D3 D4 a b c d : Int} (hf : D1 - D2 = D4 - D3)
    (hx : D1 * a - D2 * b + D3 * c - D4 * d = 0) : - (D2 * (b - a)) + D3 * (c - a) - D4 * (d - a) = 0 := by
  have e : D1 = D2 + D4 - D3 := by omega
  subst e; linarith

/-! ### envelope reject is sound -/

theorem proper_env {p1 p2 q1 q2 : Pt} (h12 : Opp (det p1 p2 q1) (det p1 p2 q2))
    (h34 : Opp (det q1 q2 p1) (det q1 q2 p2)) : envIntersects p1 p2 q1 q2 = true := by
  have hf := det_four p1 p2 q1 q2
  have hx := det_vec_x p1 p2 q1 q2
  have hy := det_vec_y p1 p2 q1 q2
  rw [envIntersects_iff]
  generalize det p1 p2 q1 = D1 at *
  generalize det p1 p2 q2 = D2 at *
  generalize det q1 q2 p1 = D3 at *
  generalize det q1 q2 p2 = D4 at *
  unfold Opp at h12 h34
  rcases h12 with ⟨a, b⟩ | ⟨a, b⟩
  · have h3 : D3 < 0 := by omega
    have h4 : 0 < D4 := by omega
    have nx1 := no_separation (u1 := D1) (u2 := -D2) (v1 := D4) (v2 := -D3) (a1 := q2.x) (a2 := q1.x) (b1 := p1.x) (b2 := p2.x)
      (by omega) (by omega) (by omega) (by omega) (by omega) (by omega) (by linarith)
    have nx2 := no_separation (u1 := D4) (u2 := -D3) (v1 := D1) (v2 := -D2) (a1 := p1.x) (a2 := p2.x) (b1 := q2.x) (b2 := q1.x)
      (by omega) (by omega) (by omega) (by omega) (by omega) (by omega) (by linarith)
    have ny1 := no_separation (u1 := D1) (u2 := -D2) (v1 := D4) (v2 := -D3) (a1 := q2.y) (a2 := q1.y) (b1 := p1.y) (b2 := p2.y)
      (by omega) (by omega) (by omega) (by omega) (by omega) (by omega) (by linarith)
    have ny2 := no_separation (u1 := D4) (u2 := -D3) (v1 := D1) (v2 := -D2) (a1 := p1.y) (a2 := p2.y) (b1 := q2.y) (b2 := q1.y)
      (by omega) (by omega) (by omega) (by omega) (by omega) (by omega) (by linarith)
    omega
  · have h3 : 0 < D3 := by omega
    have h4 : D4 < 0 := by omega
    have nx1 := no_separation (u1 := -D1) (u2 := D2) (v1 := -D4) (v2 := D3) (a1 := q2.x) (a2 := q1.x) (b1 := p1.x) (b2 := p2.x)
      (by omega) (by omega) (by omega) (by omega) (by omega) (by omega) (by linarith)
    have nx2 := no_separation (u1 := -D4) (u2 := D3) (v1 := -D1) (v2 := D2) (a1 := p1.x) (a2 := p2.x) (b1 := q2.x) (b2 := q1.x)
      (by omega) (by omega) (by omega) (by omega) (by omega) (by omega) (by linarith)
    have ny1 := no_separation (u1 := -D1) (u2 := D2) (v1 := -D4) (v2 := D3) (a1 := q2.y) (a2 := q1.y) (b1 := p1.y) (b2 := p2.y)
      (by omega) (by omega) (by omega) (by omega) (by omega) (by omega) (by linarith)
    have ny2 := no_separation (u1 := -D4) (u2 := D3) (v1 := -D1) (v2 := D2) (a1 := p1.y) (a2 := p2.y) (b1 := q2.y) (b2 := q1.y)
      (by omega) (by omega) (by omega) (by omega) (by omega) (by omega) (by linarith)
    omega

theorem segCands_ne_nil_env {p1 p2 q1 q2 : Pt} (h : segCands p1 p2 q1 q2 ≠ []) :
    onSegment p1 p2 q1 = true ∨ onSegment p1 p2 q2 = true ∨ onSegment q1 q2 p1 = true ∨ onSegment q1 q2 p2 = true := by
  obtain ⟨x, hx⟩ := List.exists_mem_of_ne_nil _ h
  rw [mem_segCands] at hx
  rcases hx with ⟨rfl | rfl, h'⟩ | ⟨rfl | rfl, h'⟩
  · exact Or.inl h'
  · exact Or.inr (Or.inl h')
  · exact Or.inr (Or.inr (Or.inl h'))
  · exact Or.inr (Or.inr (Or.inr h'))

theorem env_of_touch {p1 p2 q1 q2 : Pt}
    (h : onSegment p1 p2 q1 = true ∨ onSegment p1 p2 q2 = true ∨ onSegment q1 q2 p1 = true ∨ onSegment q1 q2 p2 = true) :
    envIntersects p1 p2 q1 q2 = true := by
  rcases h with h | h | h | h
  · exact env_of_inBox_q1 ((onSegment_iff _ _ _).mp h).2
  · exact env_of_inBox_q2 ((onSegment_iff _ _ _).mp h).2
  · exact env_of_inBox_p1 ((onSegment_iff _ _ _).mp h).2
  · exact env_of_inBox_p2 ((onSegment_iff _ _ _).mp h).2

theorem segRel_disjoint_of_not_env {p1 p2 q1 q2 : Pt} (h : envIntersects p1 p2 q1 q2 = false) :
    segRel p1 p2 q1 q2 = .disjoint := by
  rw [segRel_det]
  have hA : ¬ (Opp (det p1 p2 q1) (det p1 p2 q2) ∧ Opp (det q1 q2 p1) (det q1 q2 p2)) := by
    rintro ⟨a, b⟩; rw [proper_env a b] at h; exact absurd h (by decide)
  have hC : ¬ (onSegment p1 p2 q1 = true ∨ onSegment p1 p2 q2 = true ∨ onSegment q1 q2 p1 = true ∨ onSegment q1 q2 p2 = true) := by
    intro hh; rw [env_of_touch hh] at h; exact absurd h (by decide)
  have hB : segCands p1 p2 q1 q2 = [] := by
    by_contra hne; exact hC (segCands_ne_nil_env hne)
  simp only [hA, hC, hB, if_false, if_true]
  split <;> rfl

/-! ### both endpoints of one segment strictly on one side of the other line -/

theorem same_side_off {p1 p2 q1 q2 : Pt} (hs : Same (det p1 p2 q1) (det p1 p2 q2)) :
    onSegment q1 q2 p1 = false ∧ onSegment q1 q2 p2 = false := by
  have hf := det_four p1 p2 q1 q2
  have hx := det_vec_x p1 p2 q1 q2
  have hy := det_vec_y p1 p2 q1 q2
  have hs' := hs
  unfold Same at hs
  constructor
  · by_contra hon
    have hon : onSegment q1 q2 p1 = true := by simpa using hon
    rw [onSegment_iff, inBox_iff] at hon
    obtain ⟨h3, hb⟩ := hon
    have ex : det p1 p2 q1 * (q2.x - p1.x) = det p1 p2 q2 * (q1.x - p1.x) := by
      have := elim_D4 hf hx; rw [h3] at this; linarith
    have ey : det p1 p2 q1 * (q2.y - p1.y) = det p1 p2 q2 * (q1.y - p1.y) := by
      have := elim_D4 hf hy; rw [h3] at this; linarith
    have zx := opp_zero hs ex (by omega)
    have zy := opp_zero hs ey (by omega)
    have : q1 = p1 := (Pt.ext_iff' _ _).mpr ⟨by omega, by omega⟩
    rw [this] at hs
    simp at hs
  · by_contra hon
    have hon : onSegment q1 q2 p2 = true := by simpa using hon
    rw [onSegment_iff, inBox_iff] at hon
    obtain ⟨h4, hb⟩ := hon
    have ex : det p1 p2 q1 * (q2.x - p2.x) = det p1 p2 q2 * (q1.x - p2.x) := by
      have := elim_D3 hf hx; rw [h4] at this; linarith
    have ey : det p1 p2 q1 * (q2.y - p2.y) = det p1 p2 q2 * (q1.y - p2.y) := by
      have := elim_D3 hf hy; rw [h4] at this; linarith
    have zx := opp_zero hs ex (by omega)
    have zy := opp_zero hs ey (by omega)
    have : q1 = p2 := (Pt.ext_iff' _ _).mpr ⟨by omega, by omega⟩
    rw [this] at hs
    simp at hs

theorem same_side_disjoint {p1 p2 q1 q2 : Pt} (hs : Same (det p1 p2 q1) (det p1 p2 q2)) :
    segRel p1 p2 q1 q2 = .disjoint := by
  rw [segRel_det]
  obtain ⟨o1, o2⟩ := same_side_off hs
  have hA : ¬ (Opp (det p1 p2 q1) (det p1 p2 q2) ∧ Opp (det q1 q2 p1) (det q1 q2 p2)) := by
    unfold Opp; unfold Same at hs; omega
  have hB : ¬ (det p1 p2 q1 = 0 ∧ det p1 p2 q2 = 0 ∧ det q1 q2 p1 = 0 ∧ det q1 q2 p2 = 0) := by
    unfold Same at hs; omega
  have h1 : onSegment p1 p2 q1 = false := by
    by_contra h; have h : onSegment p1 p2 q1 = true := by simpa using h
    have := ((onSegment_iff _ _ _).mp h).1; unfold Same at hs; omega
  have h2 : onSegment p1 p2 q2 = false := by
    by_contra h; have h : onSegment p1 p2 q2 = true := by simpa using h
    have := ((onSegment_iff _ _ _).mp h).1; unfold Same at hs; omega
  simp [hA, hB, h1, h2, o1, o2]

/-! ### T-junctions: an endpoint on the other line, the other segment not strictly on one side -/

/-- `q1` on the line of `p`, `p1`, `p2` not strictly on the same side of the line of `q`, lines distinct:
`q1` is on the segment `p` -/
theorem touch_q1 {p1 p2 q1 q2 : Pt} (h1 : det p1 p2 q1 = 0)
    (hns : ¬ Same (det q1 q2 p1) (det q1 q2 p2))
    (hnz : ¬ (det q1 q2 p1 = 0 ∧ det q1 q2 p2 = 0)) : onSegment p1 p2 q1 = true := by
  have hf := det_four p1 p2 q1 q2
  have hx := det_vec_x p1 p2 q1 q2
  have hy := det_vec_y p1 p2 q1 q2
  rw [onSegment_iff, inBox_iff]
  refine ⟨h1, ?_⟩
  have ex : det q1 q2 p1 * (p2.x - q1.x) = det q1 q2 p2 * (p1.x - q1.x) := by
    have := elim_D2 hf hx; rw [h1] at this; linarith
  have ey : det q1 q2 p1 * (p2.y - q1.y) = det q1 q2 p2 * (p1.y - q1.y) := by
    have := elim_D2 hf hy; rw [h1] at this; linarith
  unfold Same at hns
  have bx := weights_between ex (by omega) (by omega) hnz
  have by' := weights_between ey (by omega) (by omega) hnz
  omega

theorem touch_q2 {p1 p2 q1 q2 : Pt} (h2 : det p1 p2 q2 = 0)
    (hns : ¬ Same (det q1 q2 p1) (det q1 q2 p2))
    (hnz : ¬ (det q1 q2 p1 = 0 ∧ det q1 q2 p2 = 0)) : onSegment p1 p2 q2 = true := by
  have hf := det_four p1 p2 q1 q2
  have hx := det_vec_x p1 p2 q1 q2
  have hy := det_vec_y p1 p2 q1 q2
  rw [onSegment_iff, inBox_iff]
  refine ⟨h2, ?_⟩
  have ex : det q1 q2 p1 * (p2.x - q2.x) = det q1 q2 p2 * (p1.x - q2.x) := by
    have := elim_D1 hf hx; rw [h2] at this; linarith
  have ey : det q1 q2 p1 * (p2.y - q2.y) = det q1 q2 p2 * (p1.y - q2.y) := by
    have := elim_D1 hf hy; rw [h2] at this; linarith
  unfold Same at hns
  have bx := weights_between ex (by omega) (by omega) hnz
  have by' := weights_between ey (by omega) (by omega) hnz
  omega

theorem touch_p1 {p1 p2 q1 q2 : Pt} (h3 : det q1 q2 p1 = 0)
    (hns : ¬ Same (det p1 p2 q1) (det p1 p2 q2))
    (hnz : ¬ (det p1 p2 q1 = 0 ∧ det p1 p2 q2 = 0)) : onSegment q1 q2 p1 = true :=
  touch_q1 (p1 := q1) (p2 := q2) (q1 := p1) (q2 := p2) h3 hns hnz

theorem touch_p2 {p1 p2 q1 q2 : Pt} (h4 : det q1 q2 p2 = 0)
    (hns : ¬ Same (det p1 p2 q1) (det p1 p2 q2))
    (hnz : ¬ (det p1 p2 q1 = 0 ∧ det p1 p2 q2 = 0)) : onSegment q1 q2 p2 = true :=
  touch_q2 (p1 := q1) (p2 := q2) (q1 := p1) (q2 := p2) h4 hns hnz

/-! ### collinear segments -/

/-- four collinear points: if `q1` is in the box of `p` and `q2` is not, an endpoint of `p` is in the box of `q` -/
theorem collinear_exit {p1 p2 q1 q2 : Pt} (h3 : det q1 q2 p1 = 0) (h4 : det q1 q2 p2 = 0)
    (hin : inBox p1 p2 q1 = true) (hout : inBox p1 p2 q2 = false) :
    inBox q1 q2 p1 = true ∨ inBox q1 q2 p2 = true := by
  rw [inBox_iff] at hin
  have hout' : ¬ (inBox p1 p2 q2 = true) := by simp [hout]
  rw [inBox_iff] at hout'
  have hc : q2.x < min p1.x p2.x ∨ max p1.x p2.x < q2.x ∨ q2.y < min p1.y p2.y ∨ max p1.y p2.y < q2.y := by omega
  rcases hc with hc | hc | hc | hc
  · by_cases hp : p1.x ≤ p2.x
    · exact Or.inl (between_of_x h3 (by omega) (by omega))
    · exact Or.inr (between_of_x h4 (by omega) (by omega))
  · by_cases hp : p1.x ≤ p2.x
    · exact Or.inr (between_of_x h4 (by omega) (by omega))
    · exact Or.inl (between_of_x h3 (by omega) (by omega))
  · by_cases hp : p1.y ≤ p2.y
    · exact Or.inl (between_of_y h3 (by omega) (by omega))
    · exact Or.inr (between_of_y h4 (by omega) (by omega))
  · by_cases hp : p1.y ≤ p2.y
    · exact Or.inr (between_of_y h4 (by omega) (by omega))
    · exact Or.inl (between_of_y h3 (by omega) (by omega))

/-- the collinear branch of `segRel` -/
def specCol (p1 p2 q1 q2 : Pt) : SegRel :=
  if segCands p1 p2 q1 q2 = [] then .disjoint
  else if ∃ a ∈ segCands p1 p2 q1 q2, ∃ b ∈ segCands p1 p2 q1 q2, a ≠ b then .overlap
  else .point false

theorem specCol_overlap {p1 p2 q1 q2 x y : Pt} (hx : x ∈ segCands p1 p2 q1 q2) (hy : y ∈ segCands p1 p2 q1 q2)
    (hxy : x ≠ y) : specCol p1 p2 q1 q2 = .overlap := by
  unfold specCol
  have hne : segCands p1 p2 q1 q2 ≠ [] := List.ne_nil_of_mem hx
  rw [if_neg hne, if_pos ⟨x, hx, y, hy, hxy⟩]

theorem specCol_point {p1 p2 q1 q2 x : Pt} (hx : x ∈ segCands p1 p2 q1 q2)
    (hall : ∀ y ∈ segCands p1 p2 q1 q2, y = x) : specCol p1 p2 q1 q2 = .point false := by
  unfold specCol
  have hne : segCands p1 p2 q1 q2 ≠ [] := List.ne_nil_of_mem hx
  have hno : ¬ ∃ a ∈ segCands p1 p2 q1 q2, ∃ b ∈ segCands p1 p2 q1 q2, a ≠ b := by
    rintro ⟨a, ha, b, hb, hab⟩
    exact hab ((hall a ha).trans (hall b hb).symm)
  rw [if_neg hne, if_neg hno]

theorem specCol_disjoint {p1 p2 q1 q2 : Pt} (h : ∀ y, y ∉ segCands p1 p2 q1 q2) :
    specCol p1 p2 q1 q2 = .disjoint := by
  unfold specCol
  rw [if_pos (List.eq_nil_iff_forall_not_mem.mpr h)]

theorem collinear_classify {p1 p2 q1 q2 : Pt} (h1 : det p1 p2 q1 = 0) (h2 : det p1 p2 q2 = 0)
    (h3 : det q1 q2 p1 = 0) (h4 : det q1 q2 p2 = 0) :
    (computeCollinearIntersection p1 p2 q1 q2).classify = specCol p1 p2 q1 q2 := by
  have o1 : onSegment p1 p2 q1 = inBox p1 p2 q1 := by unfold onSegment; simp [h1]
  have o2 : onSegment p1 p2 q2 = inBox p1 p2 q2 := by unfold onSegment; simp [h2]
  have o3 : onSegment q1 q2 p1 = inBox q1 q2 p1 := by unfold onSegment; simp [h3]
  have o4 : onSegment q1 q2 p2 = inBox q1 q2 p2 := by unfold onSegment; simp [h4]
  have mem : ∀ y, y ∈ segCands p1 p2 q1 q2 ↔
      ((y = q1 ∧ inBox p1 p2 q1 = true) ∨ (y = q2 ∧ inBox p1 p2 q2 = true) ∨
       (y = p1 ∧ inBox q1 q2 p1 = true) ∨ (y = p2 ∧ inBox q1 q2 p2 = true)) := by
    intro y
    rw [mem_segCands]
    constructor
    · rintro (⟨rfl | rfl, h⟩ | ⟨rfl | rfl, h⟩)
      · rw [o1] at h; exact Or.inl ⟨rfl, h⟩
      · rw [o2] at h; exact Or.inr (Or.inl ⟨rfl, h⟩)
      · rw [o3] at h; exact Or.inr (Or.inr (Or.inl ⟨rfl, h⟩))
      · rw [o4] at h; exact Or.inr (Or.inr (Or.inr ⟨rfl, h⟩))
    · rintro (⟨rfl, h⟩ | ⟨rfl, h⟩ | ⟨rfl, h⟩ | ⟨rfl, h⟩)
      · rw [← o1] at h; exact Or.inl ⟨Or.inl rfl, h⟩
      · rw [← o2] at h; exact Or.inl ⟨Or.inr rfl, h⟩
      · rw [← o3] at h; exact Or.inr ⟨Or.inl rfl, h⟩
      · rw [← o4] at h; exact Or.inr ⟨Or.inr rfl, h⟩
  -- the geometric facts
  have G1 : inBox p1 p2 q1 = true → inBox p1 p2 q2 = false → inBox q1 q2 p1 = true ∨ inBox q1 q2 p2 = true :=
    fun a b => collinear_exit h3 h4 a b
  have G2 : inBox p1 p2 q2 = true → inBox p1 p2 q1 = false → inBox q1 q2 p1 = true ∨ inBox q1 q2 p2 = true := by
    intro a b
    have := collinear_exit (p1 := p1) (p2 := p2) (q1 := q2) (q2 := q1)
      (by rw [det_swap12]; omega) (by rw [det_swap12]; omega) a b
    rwa [inBox_symm q1 q2 p1, inBox_symm q1 q2 p2] at this
  have G3 : inBox q1 q2 p1 = true → inBox q1 q2 p2 = false → inBox p1 p2 q1 = true ∨ inBox p1 p2 q2 = true :=
    fun a b => collinear_exit (p1 := q1) (p2 := q2) (q1 := p1) (q2 := p2) h1 h2 a b
  have G4 : inBox q1 q2 p2 = true → inBox q1 q2 p1 = false → inBox p1 p2 q1 = true ∨ inBox p1 p2 q2 = true := by
    intro a b
    have := collinear_exit (p1 := q1) (p2 := q2) (q1 := p2) (q2 := p1)
      (by rw [det_swap12]; omega) (by rw [det_swap12]; omega) a b
    rwa [inBox_symm p1 p2 q1, inBox_symm p1 p2 q2] at this
  unfold computeCollinearIntersection
  simp only [envPt_eq_inBox]
  cases ha : inBox p1 p2 q1 <;> cases hb : inBox p1 p2 q2 <;> cases hc : inBox q1 q2 p1 <;> cases hd : inBox q1 q2 p2
  all_goals simp only [ha, hb, hc, hd, Bool.false_eq_true, false_and, and_false, true_and, and_true, false_or, or_false,
    true_implies, false_implies, implies_true, Bool.and_true, Bool.and_false, Bool.true_and, Bool.false_and,
    if_true, if_false, Bool.not_true, Bool.not_false, and_self, or_self, not_true_eq_false, not_false_eq_true] at mem G1 G2 G3 G4 ⊢
  -- FFFF
  · exact (specCol_disjoint (fun y hy => by rw [mem] at hy; exact hy)).symm
  -- FFTT : [p1, p2]
  · symm
    by_cases e : p1 = p2
    · subst e
      simp only [LI.classify, if_true]
      exact specCol_point ((mem p1).mpr (Or.inl rfl)) (fun y hy => by rcases (mem y).mp hy with h | h <;> exact h)
    · simp only [LI.classify, if_neg e]
      exact specCol_overlap ((mem p1).mpr (Or.inl rfl)) ((mem p2).mpr (Or.inr rfl)) e
  -- FTFT : [q2, p2]
  · symm
    by_cases e : q2 = p2
    · subst e
      simp only [LI.classify, and_self, if_true]
      exact specCol_point ((mem q2).mpr (Or.inl rfl)) (fun y hy => by rcases (mem y).mp hy with h | h <;> exact h)
    · simp only [LI.classify, e, false_and, if_false]
      exact specCol_overlap ((mem q2).mpr (Or.inl rfl)) ((mem p2).mpr (Or.inr rfl)) e
  -- FTTF : [q2, p1]
  · symm
    by_cases e : q2 = p1
    · subst e
      simp only [LI.classify, and_self, if_true]
      exact specCol_point ((mem q2).mpr (Or.inl rfl)) (fun y hy => by rcases (mem y).mp hy with h | h <;> exact h)
    · simp only [LI.classify, e, false_and, if_false]
      exact specCol_overlap ((mem q2).mpr (Or.inl rfl)) ((mem p1).mpr (Or.inr rfl)) e
  -- FTTT : [p1, p2]
  · symm
    by_cases e : p1 = p2
    · subst e
      have hq : q2 = p1 := (inBox_self_iff p1 q2).mp hb
      simp only [LI.classify, if_true]
      exact specCol_point ((mem p1).mpr (Or.inr (Or.inl rfl)))
        (fun y hy => by rcases (mem y).mp hy with h | h | h <;> first | exact h | exact h.trans hq)
    · simp only [LI.classify, if_neg e]
      exact specCol_overlap ((mem p1).mpr (Or.inr (Or.inl rfl))) ((mem p2).mpr (Or.inr (Or.inr rfl))) e
  -- TFFT : [q1, p2]
  · symm
    by_cases e : q1 = p2
    · subst e
      simp only [LI.classify, and_self, if_true]
      exact specCol_point ((mem q1).mpr (Or.inl rfl)) (fun y hy => by rcases (mem y).mp hy with h | h <;> exact h)
    · simp only [LI.classify, e, false_and, if_false]
      exact specCol_overlap ((mem q1).mpr (Or.inl rfl)) ((mem p2).mpr (Or.inr rfl)) e
  -- TFTF : [q1, p1]
  · symm
    by_cases e : q1 = p1
    · subst e
      simp only [LI.classify, and_self, if_true]
      exact specCol_point ((mem q1).mpr (Or.inl rfl)) (fun y hy => by rcases (mem y).mp hy with h | h <;> exact h)
    · simp only [LI.classify, e, false_and, if_false]
      exact specCol_overlap ((mem q1).mpr (Or.inl rfl)) ((mem p1).mpr (Or.inr rfl)) e
  -- TFTT : [p1, p2]
  · symm
    by_cases e : p1 = p2
    · subst e
      have hq : q1 = p1 := (inBox_self_iff p1 q1).mp ha
      simp only [LI.classify, if_true]
      exact specCol_point ((mem p1).mpr (Or.inr (Or.inl rfl)))
        (fun y hy => by rcases (mem y).mp hy with h | h | h <;> first | exact h | exact h.trans hq)
    · simp only [LI.classify, if_neg e]
      exact specCol_overlap ((mem p1).mpr (Or.inr (Or.inl rfl))) ((mem p2).mpr (Or.inr (Or.inr rfl))) e
  -- TTFF : [q1, q2]
  · symm
    by_cases e : q1 = q2
    · subst e
      simp only [LI.classify, if_true]
      exact specCol_point ((mem q1).mpr (Or.inl rfl)) (fun y hy => by rcases (mem y).mp hy with h | h <;> exact h)
    · simp only [LI.classify, if_neg e]
      exact specCol_overlap ((mem q1).mpr (Or.inl rfl)) ((mem q2).mpr (Or.inr rfl)) e
  -- TTFT
  · symm
    by_cases e : q1 = q2
    · subst e
      have hp : p2 = q1 := (inBox_self_iff q1 p2).mp hd
      simp only [LI.classify, if_true]
      exact specCol_point ((mem q1).mpr (Or.inl rfl))
        (fun y hy => by rcases (mem y).mp hy with h | h | h <;> first | exact h | exact h.trans hp)
    · simp only [LI.classify, if_neg e]
      exact specCol_overlap ((mem q1).mpr (Or.inl rfl)) ((mem q2).mpr (Or.inr (Or.inl rfl))) e
  -- TTTF
  · symm
    by_cases e : q1 = q2
    · subst e
      have hp : p1 = q1 := (inBox_self_iff q1 p1).mp hc
      simp only [LI.classify, if_true]
      exact specCol_point ((mem q1).mpr (Or.inl rfl))
        (fun y hy => by rcases (mem y).mp hy with h | h | h <;> first | exact h | exact h.trans hp)
    · simp only [LI.classify, if_neg e]
      exact specCol_overlap ((mem q1).mpr (Or.inl rfl)) ((mem q2).mpr (Or.inr (Or.inl rfl))) e
  -- TTTT
  · symm
    by_cases e : q1 = q2
    · subst e
      have hp1 : p1 = q1 := (inBox_self_iff q1 p1).mp hc
      have hp2 : p2 = q1 := (inBox_self_iff q1 p2).mp hd
      simp only [LI.classify, if_true]
      exact specCol_point ((mem q1).mpr (Or.inl rfl))
        (fun y hy => by rcases (mem y).mp hy with h | h | h | h <;> first | exact h | exact h.trans hp1 | exact h.trans hp2)
    · simp only [LI.classify, if_neg e]
      exact specCol_overlap ((mem q1).mpr (Or.inl rfl)) ((mem q2).mpr (Or.inr (Or.inl rfl))) e

/-! ### the main theorem -/

theorem opp_zero_left {b : Int} : ¬ Opp 0 b := by unfold Opp; omega
theorem opp_zero_right {a : Int} : ¬ Opp a 0 := by unfold Opp; omega

theorem opp_of_not_same {a b : Int} (ha : a ≠ 0) (hb : b ≠ 0)
    (h : ¬ ((0 < a ∧ 0 < b) ∨ (a < 0 ∧ b < 0))) : Opp a b := by
  unfold Opp; omega

theorem not_opp_of_zero {D1 D2 D3 D4 : Int} (hz : D1 = 0 ∨ D2 = 0 ∨ D3 = 0 ∨ D4 = 0) :
    ¬ (Opp D1 D2 ∧ Opp D3 D4) := by
  rintro ⟨a, b⟩
  rcases hz with h | h | h | h
  · subst h; exact opp_zero_left a
  · subst h; exact opp_zero_right a
  · subst h; exact opp_zero_left b
  · subst h; exact opp_zero_right b

theorem nz34_of_1 {D1 D2 D3 D4 : Int} (hf : D1 - D2 = D4 - D3) (h : D1 = 0)
    (hn : ¬ (D1 = 0 ∧ D2 = 0 ∧ D3 = 0 ∧ D4 = 0)) : ¬ (D3 = 0 ∧ D4 = 0) := by omega
theorem nz34_of_2 {D1 D2 D3 D4 : Int} (hf : D1 - D2 = D4 - D3) (h : D2 = 0)
    (hn : ¬ (D1 = 0 ∧ D2 = 0 ∧ D3 = 0 ∧ D4 = 0)) : ¬ (D3 = 0 ∧ D4 = 0) := by omega
theorem nz12_of_3 {D1 D2 D3 D4 : Int} (hf : D1 - D2 = D4 - D3) (h : D3 = 0)
    (hn : ¬ (D1 = 0 ∧ D2 = 0 ∧ D3 = 0 ∧ D4 = 0)) : ¬ (D1 = 0 ∧ D2 = 0) := by omega
theorem nz12_of_4 {D1 D2 D3 D4 : Int} (hf : D1 - D2 = D4 - D3) (h : D4 = 0)
    (hn : ¬ (D1 = 0 ∧ D2 = 0 ∧ D3 = 0 ∧ D4 = 0)) : ¬ (D1 = 0 ∧ D2 = 0) := by omega

/-- in the endpoint branch some endpoint lies on the other segment -/
theorem touch_of_zero {p1 p2 q1 q2 : Pt}
    (hns1 : ¬ Same (det p1 p2 q1) (det p1 p2 q2)) (hns2 : ¬ Same (det q1 q2 p1) (det q1 q2 p2))
    (hncol : ¬ (det p1 p2 q1 = 0 ∧ det p1 p2 q2 = 0 ∧ det q1 q2 p1 = 0 ∧ det q1 q2 p2 = 0))
    (hz : det p1 p2 q1 = 0 ∨ det p1 p2 q2 = 0 ∨ det q1 q2 p1 = 0 ∨ det q1 q2 p2 = 0) :
    onSegment p1 p2 q1 = true ∨ onSegment p1 p2 q2 = true ∨ onSegment q1 q2 p1 = true ∨ onSegment q1 q2 p2 = true := by
  have hf := det_four p1 p2 q1 q2
  rcases hz with h | h | h | h
  · exact Or.inl (touch_q1 h hns2 (nz34_of_1 hf h hncol))
  · exact Or.inr (Or.inl (touch_q2 h hns2 (nz34_of_2 hf h hncol)))
  · exact Or.inr (Or.inr (Or.inl (touch_p1 h hns1 (nz12_of_3 hf h hncol))))
  · exact Or.inr (Or.inr (Or.inr (touch_p2 h hns1 (nz12_of_4 hf h hncol))))

/-- **`computeIntersect` classifies exactly like the specification**, for all `Int` segments -/
theorem classify_eq_segRel (p1 p2 q1 q2 : Pt) :
    (computeIntersect p1 p2 q1 q2).classify = segRel p1 p2 q1 q2 := by
  unfold computeIntersect
  simp only [gt_iff_lt, orient_pos, orient_neg, orient_eq_zero]
  split
  · rename_i henv
    have : envIntersects p1 p2 q1 q2 = false := by simpa using henv
    rw [segRel_disjoint_of_not_env this]; rfl
  · split
    · rename_i _ hs
      rw [same_side_disjoint hs]; rfl
    · rename_i _ hns1
      split
      · rename_i hs
        rw [← segRel_symm, same_side_disjoint hs]; rfl
      · rename_i hns2
        split
        · rename_i hcol
          obtain ⟨h1, h2, h3, h4⟩ := hcol
          rw [collinear_classify h1 h2 h3 h4, segRel_det]
          have hA : ¬ (Opp (det p1 p2 q1) (det p1 p2 q2) ∧ Opp (det q1 q2 p1) (det q1 q2 p2)) :=
            not_opp_of_zero (Or.inl h1)
          rw [if_neg hA, if_pos ⟨h1, h2, h3, h4⟩]
          rfl
        · rename_i hncol
          split
          · rename_i hz
            rw [segRel_det, if_neg (not_opp_of_zero hz), if_neg hncol, if_pos (touch_of_zero hns1 hns2 hncol hz)]
            rfl
          · rename_i hnz
            rw [segRel_det]
            have hA : Opp (det p1 p2 q1) (det p1 p2 q2) ∧ Opp (det q1 q2 p1) (det q1 q2 p2) :=
              ⟨opp_of_not_same (fun h => hnz (Or.inl h)) (fun h => hnz (Or.inr (Or.inl h))) hns1,
               opp_of_not_same (fun h => hnz (Or.inr (Or.inr (Or.inl h)))) (fun h => hnz (Or.inr (Or.inr (Or.inr h)))) hns2⟩
            rw [if_pos hA]
            rfl

/-! ### what else the result says -/

theorem classify_point_true_iff (r : LI) : r.classify = .point true ↔ r.code = 1 ∧ r.proper = true := by
  unfold LI.classify
  split
  · rename_i h; simp [h]
  · rename_i h; simp [h]
  · rename_i h0 h1
    constructor
    · intro h
      split at h
      · split at h <;> simp at h
      · simp at h
    · rintro ⟨h, _⟩; exact absurd h h1

theorem collinear_not_proper (p1 p2 q1 q2 : Pt) : (computeCollinearIntersection p1 p2 q1 q2).proper = false := by
  unfold computeCollinearIntersection
  simp only
  split_ifs <;> rfl

/-- the four shapes a result can have -/
theorem computeIntersect_shape (p1 p2 q1 q2 : Pt) :
    computeIntersect p1 p2 q1 q2 = LI.none ∨
    computeIntersect p1 p2 q1 q2 = computeCollinearIntersection p1 p2 q1 q2 ∨
    (∃ p, computeIntersect p1 p2 q1 q2 = ⟨1, false, [p], Option.none⟩) ∨
    computeIntersect p1 p2 q1 q2 = ⟨1, true, [], some (intersectionRat p1 p2 q1 q2)⟩ := by
  unfold computeIntersect
  simp only
  by_cases c1 : (!envIntersects p1 p2 q1 q2) = true
  · rw [if_pos c1]; exact Or.inl rfl
  · rw [if_neg c1]
    by_cases c2 : (orient p1 p2 q1 > 0 ∧ orient p1 p2 q2 > 0) ∨ (orient p1 p2 q1 < 0 ∧ orient p1 p2 q2 < 0)
    · rw [if_pos c2]; exact Or.inl rfl
    · rw [if_neg c2]
      by_cases c3 : (orient q1 q2 p1 > 0 ∧ orient q1 q2 p2 > 0) ∨ (orient q1 q2 p1 < 0 ∧ orient q1 q2 p2 < 0)
      · rw [if_pos c3]; exact Or.inl rfl
      · rw [if_neg c3]
        by_cases c4 : orient p1 p2 q1 = 0 ∧ orient p1 p2 q2 = 0 ∧ orient q1 q2 p1 = 0 ∧ orient q1 q2 p2 = 0
        · rw [if_pos c4]; exact Or.inr (Or.inl rfl)
        · rw [if_neg c4]
          by_cases c5 : orient p1 p2 q1 = 0 ∨ orient p1 p2 q2 = 0 ∨ orient q1 q2 p1 = 0 ∨ orient q1 q2 p2 = 0
          · rw [if_pos c5]; exact Or.inr (Or.inr (Or.inl ⟨_, rfl⟩))
          · rw [if_neg c5]; exact Or.inr (Or.inr (Or.inr rfl))

theorem proper_code (p1 p2 q1 q2 : Pt) (h : (computeIntersect p1 p2 q1 q2).proper = true) :
    (computeIntersect p1 p2 q1 q2).code = 1 := by
  rcases computeIntersect_shape p1 p2 q1 q2 with e | e | ⟨p, e⟩ | e
  · rw [e] at h; exact absurd h Bool.false_ne_true
  · rw [e, collinear_not_proper] at h; exact absurd h Bool.false_ne_true
  · rw [e]
  · rw [e]

/-- `isProper` ⇔ the segments cross at a point interior to both -/
theorem proper_iff (p1 p2 q1 q2 : Pt) :
    (computeIntersect p1 p2 q1 q2).proper = true ↔ segRel p1 p2 q1 q2 = .point true := by
  rw [← classify_eq_segRel, classify_point_true_iff]
  exact ⟨fun h => ⟨proper_code p1 p2 q1 q2 h, h⟩, fun h => h.2⟩

/-- the points listed by the collinear branch lie on both segments -/
theorem collinear_pts_common {p1 p2 q1 q2 : Pt} (h1 : det p1 p2 q1 = 0) (h2 : det p1 p2 q2 = 0)
    (h3 : det q1 q2 p1 = 0) (h4 : det q1 q2 p2 = 0) :
    ∀ x ∈ (computeCollinearIntersection p1 p2 q1 q2).pts, onSegment p1 p2 x = true ∧ onSegment q1 q2 x = true := by
  have o1 : onSegment p1 p2 q1 = inBox p1 p2 q1 := by unfold onSegment; simp [h1]
  have o2 : onSegment p1 p2 q2 = inBox p1 p2 q2 := by unfold onSegment; simp [h2]
  have o3 : onSegment q1 q2 p1 = inBox q1 q2 p1 := by unfold onSegment; simp [h3]
  have o4 : onSegment q1 q2 p2 = inBox q1 q2 p2 := by unfold onSegment; simp [h4]
  unfold computeCollinearIntersection
  simp only [envPt_eq_inBox]
  intro x hx
  split at hx
  · rename_i c
    simp only [Bool.and_eq_true] at c
    simp only [List.mem_cons, List.not_mem_nil, or_false] at hx
    rcases hx with rfl | rfl
    · exact ⟨by rw [o1]; exact c.1, by simp⟩
    · exact ⟨by rw [o2]; exact c.2, by simp⟩
  · split at hx
    · rename_i c
      simp only [Bool.and_eq_true] at c
      simp only [List.mem_cons, List.not_mem_nil, or_false] at hx
      rcases hx with rfl | rfl
      · exact ⟨by simp, by rw [o3]; exact c.1⟩
      · exact ⟨by simp, by rw [o4]; exact c.2⟩
    · split at hx
      · rename_i c
        simp only [Bool.and_eq_true] at c
        simp only [List.mem_cons, List.not_mem_nil, or_false] at hx
        rcases hx with rfl | rfl
        · exact ⟨by rw [o1]; exact c.1, by simp⟩
        · exact ⟨by simp, by rw [o3]; exact c.2⟩
      · split at hx
        · rename_i c
          simp only [Bool.and_eq_true] at c
          simp only [List.mem_cons, List.not_mem_nil, or_false] at hx
          rcases hx with rfl | rfl
          · exact ⟨by rw [o1]; exact c.1, by simp⟩
          · exact ⟨by simp, by rw [o4]; exact c.2⟩
        · split at hx
          · rename_i c
            simp only [Bool.and_eq_true] at c
            simp only [List.mem_cons, List.not_mem_nil, or_false] at hx
            rcases hx with rfl | rfl
            · exact ⟨by rw [o2]; exact c.1, by simp⟩
            · exact ⟨by simp, by rw [o3]; exact c.2⟩
          · split at hx
            · rename_i c
              simp only [Bool.and_eq_true] at c
              simp only [List.mem_cons, List.not_mem_nil, or_false] at hx
              rcases hx with rfl | rfl
              · exact ⟨by rw [o2]; exact c.1, by simp⟩
              · exact ⟨by simp, by rw [o4]; exact c.2⟩
            · simp [LI.none] at hx

/-- the point copied in the endpoint branch -/
def endpointChoice (p1 p2 q1 q2 : Pt) : Pt :=
  if p1 = q1 then p1
  else if p1 = q2 then p1
  else if p2 = q1 then p2
  else if p2 = q2 then p2
  else if orient p1 p2 q1 = 0 then q1
  else if orient p1 p2 q2 = 0 then q2
  else if orient q1 q2 p1 = 0 then p1
  else p2

/-- the result together with the branch conditions -/
theorem computeIntersect_cases (p1 p2 q1 q2 : Pt) :
    computeIntersect p1 p2 q1 q2 = LI.none ∨
    ((det p1 p2 q1 = 0 ∧ det p1 p2 q2 = 0 ∧ det q1 q2 p1 = 0 ∧ det q1 q2 p2 = 0) ∧
      computeIntersect p1 p2 q1 q2 = computeCollinearIntersection p1 p2 q1 q2) ∨
    (¬ Same (det p1 p2 q1) (det p1 p2 q2) ∧ ¬ Same (det q1 q2 p1) (det q1 q2 p2) ∧
      ¬ (det p1 p2 q1 = 0 ∧ det p1 p2 q2 = 0 ∧ det q1 q2 p1 = 0 ∧ det q1 q2 p2 = 0) ∧
      (det p1 p2 q1 = 0 ∨ det p1 p2 q2 = 0 ∨ det q1 q2 p1 = 0 ∨ det q1 q2 p2 = 0) ∧
      computeIntersect p1 p2 q1 q2 = ⟨1, false, [endpointChoice p1 p2 q1 q2], Option.none⟩) ∨
    (Opp (det p1 p2 q1) (det p1 p2 q2) ∧ Opp (det q1 q2 p1) (det q1 q2 p2) ∧
      computeIntersect p1 p2 q1 q2 = ⟨1, true, [], some (intersectionRat p1 p2 q1 q2)⟩) := by
  unfold computeIntersect
  simp only
  by_cases c1 : (!envIntersects p1 p2 q1 q2) = true
  · rw [if_pos c1]; exact Or.inl rfl
  · rw [if_neg c1]
    by_cases c2 : (orient p1 p2 q1 > 0 ∧ orient p1 p2 q2 > 0) ∨ (orient p1 p2 q1 < 0 ∧ orient p1 p2 q2 < 0)
    · rw [if_pos c2]; exact Or.inl rfl
    · rw [if_neg c2]
      by_cases c3 : (orient q1 q2 p1 > 0 ∧ orient q1 q2 p2 > 0) ∨ (orient q1 q2 p1 < 0 ∧ orient q1 q2 p2 < 0)
      · rw [if_pos c3]; exact Or.inl rfl
      · rw [if_neg c3]
        have hns1 : ¬ Same (det p1 p2 q1) (det p1 p2 q2) := by
          simp only [gt_iff_lt, orient_pos, orient_neg] at c2; exact c2
        have hns2 : ¬ Same (det q1 q2 p1) (det q1 q2 p2) := by
          simp only [gt_iff_lt, orient_pos, orient_neg] at c3; exact c3
        by_cases c4 : orient p1 p2 q1 = 0 ∧ orient p1 p2 q2 = 0 ∧ orient q1 q2 p1 = 0 ∧ orient q1 q2 p2 = 0
        · rw [if_pos c4]
          simp only [orient_eq_zero] at c4
          exact Or.inr (Or.inl ⟨c4, rfl⟩)
        · rw [if_neg c4]
          simp only [orient_eq_zero] at c4
          by_cases c5 : orient p1 p2 q1 = 0 ∨ orient p1 p2 q2 = 0 ∨ orient q1 q2 p1 = 0 ∨ orient q1 q2 p2 = 0
          · rw [if_pos c5]
            simp only [orient_eq_zero] at c5
            exact Or.inr (Or.inr (Or.inl ⟨hns1, hns2, c4, c5, rfl⟩))
          · rw [if_neg c5]
            simp only [orient_eq_zero] at c5
            refine Or.inr (Or.inr (Or.inr ⟨?_, ?_, rfl⟩))
            · exact opp_of_not_same (fun h => c5 (Or.inl h)) (fun h => c5 (Or.inr (Or.inl h))) hns1
            · exact opp_of_not_same (fun h => c5 (Or.inr (Or.inr (Or.inl h)))) (fun h => c5 (Or.inr (Or.inr (Or.inr h)))) hns2

theorem endpointChoice_common {p1 p2 q1 q2 : Pt}
    (hns1 : ¬ Same (det p1 p2 q1) (det p1 p2 q2)) (hns2 : ¬ Same (det q1 q2 p1) (det q1 q2 p2))
    (hncol : ¬ (det p1 p2 q1 = 0 ∧ det p1 p2 q2 = 0 ∧ det q1 q2 p1 = 0 ∧ det q1 q2 p2 = 0))
    (hz : det p1 p2 q1 = 0 ∨ det p1 p2 q2 = 0 ∨ det q1 q2 p1 = 0 ∨ det q1 q2 p2 = 0) :
    onSegment p1 p2 (endpointChoice p1 p2 q1 q2) = true ∧ onSegment q1 q2 (endpointChoice p1 p2 q1 q2) = true := by
  have hf := det_four p1 p2 q1 q2
  unfold endpointChoice
  simp only [orient_eq_zero]
  split_ifs with e1 e2 e3 e4 e5 e6 e7
  · subst e1; simp
  · subst e2; simp
  · subst e3; simp
  · subst e4; simp
  · exact ⟨touch_q1 e5 hns2 (nz34_of_1 hf e5 hncol), by simp⟩
  · exact ⟨touch_q2 e6 hns2 (nz34_of_2 hf e6 hncol), by simp⟩
  · exact ⟨by simp, touch_p1 e7 hns1 (nz12_of_3 hf e7 hncol)⟩
  · have e8 : det q1 q2 p2 = 0 := by
      rcases hz with h | h | h | h
      · exact absurd h e5
      · exact absurd h e6
      · exact absurd h e7
      · exact h
    exact ⟨by simp, touch_p2 e8 hns1 (nz12_of_4 hf e8 hncol)⟩

/-- every intersection point that is reported as a copy of an input endpoint lies on both segments -/
theorem reported_common (p1 p2 q1 q2 : Pt) :
    ∀ x ∈ (computeIntersect p1 p2 q1 q2).pts, onSegment p1 p2 x = true ∧ onSegment q1 q2 x = true := by
  rcases computeIntersect_cases p1 p2 q1 q2 with e | ⟨hcol, e⟩ | ⟨hns1, hns2, hncol, hz, e⟩ | ⟨_, _, e⟩
  · rw [e]; intro x hx; simp only [LI.none] at hx; cases hx
  · rw [e]; exact collinear_pts_common hcol.1 hcol.2.1 hcol.2.2.1 hcol.2.2.2
  · rw [e]; intro x hx
    simp only [List.mem_singleton] at hx
    subst hx
    exact endpointChoice_common hns1 hns2 hncol hz
  · rw [e]; intro x hx; cases hx

/-- the reported points `intPt[0 .. result)` lie on both segments -/
theorem reported_on_both (p1 p2 q1 q2 : Pt) :
    ∀ x ∈ (computeIntersect p1 p2 q1 q2).reported, onSegment p1 p2 x = true ∧ onSegment q1 q2 x = true :=
  fun x hx => reported_common p1 p2 q1 q2 x (List.mem_of_mem_take hx)

/-! ### non-degenerate segments: the raw result code is the classification -/

theorem collinear_raw_eq_classify {p1 p2 q1 q2 : Pt} (hp : p1 ≠ p2) (hq : q1 ≠ q2) :
    (computeCollinearIntersection p1 p2 q1 q2).rawClass = (computeCollinearIntersection p1 p2 q1 q2).classify := by
  unfold computeCollinearIntersection
  simp only
  cases envPt p1 p2 q1 <;> cases envPt p1 p2 q2 <;> cases envPt q1 q2 p1 <;> cases envPt q1 q2 p2 <;>
    simp [LI.rawClass, LI.classify, LI.none, hp, hq] <;>
    (split_ifs <;> simp_all)

/-- for segments of positive length the result code itself (NO / POINT / COLLINEAR) is the specification -/
theorem rawClass_eq_segRel (p1 p2 q1 q2 : Pt) (hp : p1 ≠ p2) (hq : q1 ≠ q2) :
    (computeIntersect p1 p2 q1 q2).rawClass = segRel p1 p2 q1 q2 := by
  rw [← classify_eq_segRel]
  rcases computeIntersect_cases p1 p2 q1 q2 with e | ⟨_, e⟩ | ⟨_, _, _, _, e⟩ | ⟨_, _, e⟩
  · rw [e]; rfl
  · rw [e]; exact collinear_raw_eq_classify hp hq
  · rw [e]; rfl
  · rw [e]; rfl

/-! ### the proper intersection point -/

theorem intersectionRat_w (p1 p2 q1 q2 : Pt) :
    (intersectionRat p1 p2 q1 q2).w = det q1 q2 p1 - det q1 q2 p2 := by
  unfold intersectionRat det; ring
theorem intersectionRat_w' (p1 p2 q1 q2 : Pt) :
    (intersectionRat p1 p2 q1 q2).w = det p1 p2 q2 - det p1 p2 q1 := by
  unfold intersectionRat det; ring
theorem intersectionRat_x (p1 p2 q1 q2 : Pt) :
    (intersectionRat p1 p2 q1 q2).x = det q1 q2 p1 * p2.x + (- det q1 q2 p2) * p1.x := by
  unfold intersectionRat det; ring
theorem intersectionRat_y (p1 p2 q1 q2 : Pt) :
    (intersectionRat p1 p2 q1 q2).y = det q1 q2 p1 * p2.y + (- det q1 q2 p2) * p1.y := by
  unfold intersectionRat det; ring
theorem intersectionRat_x' (p1 p2 q1 q2 : Pt) :
    (intersectionRat p1 p2 q1 q2).x = det p1 p2 q2 * q1.x + (- det p1 p2 q1) * q2.x := by
  unfold intersectionRat det; ring
theorem intersectionRat_y' (p1 p2 q1 q2 : Pt) :
    (intersectionRat p1 p2 q1 q2).y = det p1 p2 q2 * q1.y + (- det p1 p2 q1) * q2.y := by
  unfold intersectionRat det; ring

/-- a point `(u·a + v·b) / (u + v)` with `u`, `v` of the same strict sign lies in the box of `a`, `b` -/
theorem ratInBox_of_weights {r : RatPt} {a b : Pt} {u v : Int} (hw : r.w = u + v)
    (hx : r.x = u * b.x + v * a.x) (hy : r.y = u * b.y + v * a.y)
    (hs : (0 < u ∧ 0 < v) ∨ (u < 0 ∧ v < 0)) : r.inBox a b = true := by
  unfold RatPt.inBox
  simp only [Bool.and_eq_true, decide_eq_true_eq]
  rcases hs with ⟨hu, hv⟩ | ⟨hu, hv⟩
  · have hwpos : 0 < r.w := by omega
    rw [Int.sign_eq_one_of_pos hwpos]
    simp only [Int.mul_one]
    have cx := convex_between (Int.le_of_lt hu) (Int.le_of_lt hv) (lo := min a.x b.x) (hi := max a.x b.x)
      (a := b.x) (b := a.x) (by omega) (by omega)
    have cy := convex_between (Int.le_of_lt hu) (Int.le_of_lt hv) (lo := min a.y b.y) (hi := max a.y b.y)
      (a := b.y) (b := a.y) (by omega) (by omega)
    rw [hx, hy, hw]
    exact ⟨⟨⟨cx.1, cx.2⟩, cy.1⟩, cy.2⟩
  · have hwneg : r.w < 0 := by omega
    rw [Int.sign_eq_neg_one_of_neg hwneg]
    have cx := convex_between (u := -u) (v := -v) (by omega) (by omega) (lo := min a.x b.x) (hi := max a.x b.x)
      (a := b.x) (b := a.x) (by omega) (by omega)
    have cy := convex_between (u := -u) (v := -v) (by omega) (by omega) (lo := min a.y b.y) (hi := max a.y b.y)
      (a := b.y) (b := a.y) (by omega) (by omega)
    rw [hx, hy, hw]
    refine ⟨⟨⟨?_, ?_⟩, ?_⟩, ?_⟩ <;> nlinarith [cx.1, cx.2, cy.1, cy.2]

/-- **the exact intersection point of a proper crossing** lies on both lines and in both bounding boxes -/
theorem proper_point (p1 p2 q1 q2 : Pt) (h12 : Opp (det p1 p2 q1) (det p1 p2 q2))
    (h34 : Opp (det q1 q2 p1) (det q1 q2 p2)) :
    (intersectionRat p1 p2 q1 q2).w ≠ 0 ∧
    (intersectionRat p1 p2 q1 q2).inBox p1 p2 = true ∧ (intersectionRat p1 p2 q1 q2).inBox q1 q2 = true ∧
    (intersectionRat p1 p2 q1 q2).onLine p1 p2 = true ∧ (intersectionRat p1 p2 q1 q2).onLine q1 q2 = true := by
  refine ⟨?_, ?_, ?_, ?_, ?_⟩
  · rw [intersectionRat_w]; unfold Opp at h34; omega
  · apply ratInBox_of_weights (u := det q1 q2 p1) (v := - det q1 q2 p2)
      (by rw [intersectionRat_w]; omega) (intersectionRat_x p1 p2 q1 q2) (intersectionRat_y p1 p2 q1 q2)
    unfold Opp at h34; omega
  · apply ratInBox_of_weights (u := - det p1 p2 q1) (v := det p1 p2 q2)
      (by rw [intersectionRat_w']; omega)
      (by rw [intersectionRat_x']; ring) (by rw [intersectionRat_y']; ring)
    unfold Opp at h12; omega
  · unfold RatPt.onLine intersectionRat; simp only [beq_iff_eq]; ring
  · unfold RatPt.onLine intersectionRat; simp only [beq_iff_eq]; ring

end GeosModel.SegSeg
