import GeosModel.Model.Kernel.SegSeg
import GeosModel.Proofs.Kernel.Basic
/-!
# Geometry lemmas behind `computeIntersect = segRel`

Everything is derived from three polynomial identities among the four determinants
`D1 = det p1 p2 q1`, `D2 = det p1 p2 q2`, `D3 = det q1 q2 p1`, `D4 = det q1 q2 p2`
(`det_four`, `det_vec_x`, `det_vec_y` in Basic) plus sign reasoning.
-/
namespace GeosModel.SegSeg
open GeosModel.Kernel

/-! ### integer sign lemmas -/

/-- a weighted mean with non-negative weights lies between the extremes -/
theorem convex_between {u v a b lo hi : Int} (hu : 0 ≤ u) (hv : 0 ≤ v)
    (ha : lo ≤ a ∧ a ≤ hi) (hb : lo ≤ b ∧ b ≤ hi) :
    lo * (u + v) ≤ u * a + v * b ∧ u * a + v * b ≤ hi * (u + v) := by
  have h1 : 0 ≤ u * (a - lo) := mul_nonneg hu (by omega)
  have h2 : 0 ≤ v * (b - lo) := mul_nonneg hv (by omega)
  have h3 : 0 ≤ u * (hi - a) := mul_nonneg hu (by omega)
  have h4 : 0 ≤ v * (hi - b) := mul_nonneg hv (by omega)
  constructor <;> nlinarith

/-- two weighted means with the same positive total weight cannot be separated -/
theorem no_separation {u1 u2 v1 v2 a1 a2 b1 b2 : Int} (hu1 : 0 ≤ u1) (hu2 : 0 ≤ u2) (hv1 : 0 ≤ v1) (hv2 : 0 ≤ v2)
    (hs : u1 + u2 = v1 + v2) (hpos : 0 < u1 + u2) (heq : u1 * a1 + u2 * a2 = v1 * b1 + v2 * b2) :
    ¬ (max a1 a2 < min b1 b2) := by
  intro hsep
  have ha := convex_between hu1 hu2 (lo := min a1 a2) (hi := max a1 a2) (a := a1) (b := a2) (by omega) (by omega)
  have hb := convex_between hv1 hv2 (lo := min b1 b2) (hi := max b1 b2) (a := b1) (b := b2) (by omega) (by omega)
  have h1 : max a1 a2 * (u1 + u2) < min b1 b2 * (u1 + u2) := by
    apply Int.mul_lt_mul_of_pos_right hsep hpos
  rw [hs] at h1 ha
  omega

/-- `d1·A = d2·B` with `d1, d2` of the same strict sign and `A`, `B` of weakly opposite signs: both vanish -/
theorem opp_zero {d1 d2 A B : Int} (hd : (0 < d1 ∧ 0 < d2) ∨ (d1 < 0 ∧ d2 < 0)) (h : d1 * A = d2 * B)
    (hAB : (A ≤ 0 ∧ 0 ≤ B) ∨ (0 ≤ A ∧ B ≤ 0)) : A = 0 ∧ B = 0 := by
  rcases hd with ⟨h1, h2⟩ | ⟨h1, h2⟩ <;> rcases hAB with ⟨ha, hb⟩ | ⟨ha, hb⟩
  · have e1 : d1 * A ≤ 0 := by nlinarith
    have e2 : 0 ≤ d2 * B := by nlinarith
    constructor
    · by_contra hne; have : A < 0 := by omega
      have : d1 * A < 0 := by nlinarith
      omega
    · by_contra hne; have : 0 < B := by omega
      have : 0 < d2 * B := by nlinarith
      omega
  · have e1 : 0 ≤ d1 * A := by nlinarith
    have e2 : d2 * B ≤ 0 := by nlinarith
    constructor
    · by_contra hne; have : 0 < A := by omega
      have : 0 < d1 * A := by nlinarith
      omega
    · by_contra hne; have : B < 0 := by omega
      have : d2 * B < 0 := by nlinarith
      omega
  · have e1 : 0 ≤ d1 * A := by nlinarith
    have e2 : d2 * B ≤ 0 := by nlinarith
    constructor
    · by_contra hne; have : A < 0 := by omega
      have : 0 < d1 * A := by nlinarith
      omega
    · by_contra hne; have : 0 < B := by omega
      have : d2 * B < 0 := by nlinarith
      omega
  · have e1 : d1 * A ≤ 0 := by nlinarith
    have e2 : 0 ≤ d2 * B := by nlinarith
    constructor
    · by_contra hne; have : 0 < A := by omega
      have : d1 * A < 0 := by nlinarith
      omega
    · by_contra hne; have : B < 0 := by omega
      have : 0 < d2 * B := by nlinarith
      omega

/-- `d3·A = d4·B` with `d3, d4` not of the same strict sign and not both zero: `A`, `B` have weakly opposite signs -/
theorem weights_between {d3 d4 A B : Int} (h : d3 * A = d4 * B)
    (hs : ¬ (0 < d3 ∧ 0 < d4)) (hs' : ¬ (d3 < 0 ∧ d4 < 0)) (hnz : ¬ (d3 = 0 ∧ d4 = 0)) :
    (A ≤ 0 ∧ 0 ≤ B) ∨ (0 ≤ A ∧ B ≤ 0) := by
  by_contra hcon
  have hcon' : (0 < A ∧ 0 < B) ∨ (A < 0 ∧ B < 0) := by omega
  rcases Int.lt_trichotomy d3 0 with h3 | h3 | h3 <;> rcases Int.lt_trichotomy d4 0 with h4 | h4 | h4
  · exact hs' ⟨h3, h4⟩
  · subst h4
    rcases hcon' with ⟨a, b⟩ | ⟨a, b⟩
    · have : d3 * A < 0 := by nlinarith
      omega
    · have : 0 < d3 * A := by nlinarith
      omega
  · rcases hcon' with ⟨a, b⟩ | ⟨a, b⟩
    · have : d3 * A < 0 := by nlinarith
      have : 0 < d4 * B := by nlinarith
      omega
    · have : 0 < d3 * A := by nlinarith
      have : d4 * B < 0 := by nlinarith
      omega
  · subst h3
    rcases hcon' with ⟨a, b⟩ | ⟨a, b⟩
    · have : d4 * B < 0 := by nlinarith
      omega
    · have : 0 < d4 * B := by nlinarith
      omega
  · exact hnz ⟨h3, h4⟩
  · subst h3
    rcases hcon' with ⟨a, b⟩ | ⟨a, b⟩
    · have : 0 < d4 * B := by nlinarith
      omega
    · have : d4 * B < 0 := by nlinarith
      omega
  · rcases hcon' with ⟨a, b⟩ | ⟨a, b⟩
    · have : 0 < d3 * A := by nlinarith
      have : d4 * B < 0 := by nlinarith
      omega
    · have : d3 * A < 0 := by nlinarith
      have : 0 < d4 * B := by nlinarith
      omega
  · subst h4
    rcases hcon' with ⟨a, b⟩ | ⟨a, b⟩
    · have : 0 < d3 * A := by nlinarith
      omega
    · have : d3 * A < 0 := by nlinarith
      omega
  · exact hs ⟨h3, h4⟩

/-- `A·u = t·v` with `0 ≤ t ≤ A`, `0 < A`: `u` lies between `0` and `v` -/
theorem frac_between {A t u v : Int} (hA : 0 < A) (ht0 : 0 ≤ t) (htA : t ≤ A) (h : A * u = t * v) :
    (0 ≤ u ∧ u ≤ v) ∨ (v ≤ u ∧ u ≤ 0) := by
  rcases Int.le_total 0 v with hv | hv
  · left
    have e1 : 0 ≤ t * v := mul_nonneg ht0 hv
    have e2 : t * v ≤ A * v := by nlinarith
    constructor
    · by_contra hne; have : u < 0 := by omega
      have : A * u < 0 := by nlinarith
      omega
    · by_contra hne; have : v < u := by omega
      have : A * v < A * u := by nlinarith
      omega
  · right
    have e1 : t * v ≤ 0 := by nlinarith
    have e2 : A * v ≤ t * v := by nlinarith
    constructor
    · by_contra hne; have : u < v := by omega
      have : A * u < A * v := by nlinarith
      omega
    · by_contra hne; have : 0 < u := by omega
      have : 0 < A * u := by nlinarith
      omega

/-! ### collinear points: in the x-range (of a non-vertical segment) means in the box -/

theorem between_of_x {a b c : Pt} (hd : det a b c = 0) (hab : a.x ≠ b.x)
    (hx : min a.x b.x ≤ c.x ∧ c.x ≤ max a.x b.x) : inBox a b c = true := by
  rw [inBox_iff]
  rcases Int.lt_or_gt_of_ne hab with hlt | hgt
  · have e : (b.x - a.x) * (c.y - a.y) = (c.x - a.x) * (b.y - a.y) := by
      have : det a b c = (b.x - a.x) * (c.y - a.y) - (c.x - a.x) * (b.y - a.y) := by unfold det; ring
      omega
    have := frac_between (A := b.x - a.x) (t := c.x - a.x) (u := c.y - a.y) (v := b.y - a.y)
      (by omega) (by omega) (by omega) e
    omega
  · have hd' : det b a c = 0 := by rw [det_swap12]; omega
    have e : (a.x - b.x) * (c.y - b.y) = (c.x - b.x) * (a.y - b.y) := by
      have : det b a c = (a.x - b.x) * (c.y - b.y) - (c.x - b.x) * (a.y - b.y) := by unfold det; ring
      omega
    have := frac_between (A := a.x - b.x) (t := c.x - b.x) (u := c.y - b.y) (v := a.y - b.y)
      (by omega) (by omega) (by omega) e
    omega

theorem between_of_y {a b c : Pt} (hd : det a b c = 0) (hab : a.y ≠ b.y)
    (hy : min a.y b.y ≤ c.y ∧ c.y ≤ max a.y b.y) : inBox a b c = true := by
  rw [inBox_iff]
  rcases Int.lt_or_gt_of_ne hab with hlt | hgt
  · have e : (b.y - a.y) * (c.x - a.x) = (c.y - a.y) * (b.x - a.x) := by
      have : det a b c = (b.x - a.x) * (c.y - a.y) - (b.y - a.y) * (c.x - a.x) := by unfold det; ring
      nlinarith
    have := frac_between (A := b.y - a.y) (t := c.y - a.y) (u := c.x - a.x) (v := b.x - a.x)
      (by omega) (by omega) (by omega) e
    omega
  · have hd' : det b a c = 0 := by rw [det_swap12]; omega
    have e : (a.y - b.y) * (c.x - b.x) = (c.y - b.y) * (a.x - b.x) := by
      have : det b a c = (a.x - b.x) * (c.y - b.y) - (a.y - b.y) * (c.x - b.x) := by unfold det; ring
      nlinarith
    have := frac_between (A := a.y - b.y) (t := c.y - b.y) (u := c.x - b.x) (v := a.x - b.x)
      (by omega) (by omega) (by omega) e
    omega

/-! ### envelopes -/

theorem envPt_eq_inBox (a b p : Pt) : envPt a b p = inBox a b p := by
  rw [Bool.eq_iff_iff, inBox_iff]
  unfold envPt
  simp only [Bool.and_eq_true, decide_eq_true_eq]
  constructor
  · rintro ⟨⟨⟨h1, h2⟩, h3⟩, h4⟩
    split_ifs at h1 h2 h3 h4 <;> omega
  · rintro ⟨h1, h2, h3, h4⟩
    refine ⟨⟨⟨?_, ?_⟩, ?_⟩, ?_⟩ <;> split_ifs <;> omega

theorem envIntersects_iff (p1 p2 q1 q2 : Pt) :
    envIntersects p1 p2 q1 q2 = true ↔
      ¬ (max q1.x q2.x < min p1.x p2.x) ∧ ¬ (max p1.x p2.x < min q1.x q2.x) ∧
      ¬ (max q1.y q2.y < min p1.y p2.y) ∧ ¬ (max p1.y p2.y < min q1.y q2.y) := by
  unfold envIntersects
  simp only
  split_ifs <;> simp <;> omega

/-- an endpoint of one segment in the box of the other: the envelopes intersect -/
theorem env_of_inBox_q1 {p1 p2 q1 q2 : Pt} (h : inBox p1 p2 q1 = true) : envIntersects p1 p2 q1 q2 = true := by
  rw [envIntersects_iff]; rw [inBox_iff] at h; omega
theorem env_of_inBox_q2 {p1 p2 q1 q2 : Pt} (h : inBox p1 p2 q2 = true) : envIntersects p1 p2 q1 q2 = true := by
  rw [envIntersects_iff]; rw [inBox_iff] at h; omega
theorem env_of_inBox_p1 {p1 p2 q1 q2 : Pt} (h : inBox q1 q2 p1 = true) : envIntersects p1 p2 q1 q2 = true := by
  rw [envIntersects_iff]; rw [inBox_iff] at h; omega
theorem env_of_inBox_p2 {p1 p2 q1 q2 : Pt} (h : inBox q1 q2 p2 = true) : envIntersects p1 p2 q1 q2 = true := by
  rw [envIntersects_iff]; rw [inBox_iff] at h; omega

end GeosModel.SegSeg
