import GeosModel.Model.Kernel.CCW
import GeosModel.Proofs.Kernel.Basic
/-!
# `Orientation::isCCW` (ported) on triangles  (PARTIAL result for `isCCW_exact`)

For every ring with three distinct non-collinear vertices `[a, b, c, a]` the extremal-vertex method
returns the sign of the signed area.  The proof evaluates the ported algorithm in each of the thirteen
weak orders of the three `y` coordinates; the leaves are either the orientation of a rotation of
`(a, b, c)` (pointed cap) or the direction of a flat top.
-/
namespace GeosModel.CCW
open GeosModel.Kernel

theorem orient_eq_one_dec (a b c : Pt) : (orient a b c == 1) = decide (0 < det a b c) := by
  rw [Bool.eq_iff_iff]; simp [orient_eq_one]

theorem pos_mul_iff {k t : Int} (hk : 0 < k) : 0 < k * t ↔ 0 < t := by
  constructor
  · intro h
    by_contra hcon
    have : k * t ≤ 0 := by nlinarith
    omega
  · intro h; exact mul_pos hk h

macro "yfact" x:term "," y:term : tactic =>
  `(tactic| (first | (have : $x < $y := by omega) | (have : ¬ ($x < $y) := by omega)
             first | (have : $x ≤ $y := by omega) | (have : ¬ ($x ≤ $y) := by omega)))
macro "yeq" x:term "," y:term : tactic =>
  `(tactic| (first | (have : $x = $y := by omega) | (have : ¬ ($x = $y) := by omega)
             first | (have : ($y = $x) = True := by simp; omega) | (have : ¬ ($y = $x) := by omega)))

set_option maxHeartbeats 1000000 in
/-- the ported `isCCW` on a non-degenerate triangle is the sign of `Kernel.det` -/
theorem isCCW_triangle_det (a b c : Pt) (hd : det a b c ≠ 0) :
    isCCW [a, b, c, a] = decide (0 < det a b c) := by
  have hab : a ≠ b := by rintro rfl; simp at hd
  have hbc : b ≠ c := by rintro rfl; simp at hd
  have hac : a ≠ c := by rintro rfl; simp at hd
  have hba : b ≠ a := Ne.symm hab
  have hcb : c ≠ b := Ne.symm hbc
  have hca : c ≠ a := Ne.symm hac
  rcases Int.lt_trichotomy a.y b.y with h1 | h1 | h1 <;> rcases Int.lt_trichotomy b.y c.y with h2 | h2 | h2 <;>
    rcases Int.lt_trichotomy a.y c.y with h3 | h3 | h3
  all_goals try omega
  all_goals (
    yfact a.y, b.y
    yfact b.y, a.y
    yfact b.y, c.y
    yfact c.y, b.y
    yfact a.y, c.y
    yfact c.y, a.y
    yeq a.y, b.y
    yeq b.y, c.y
    yeq a.y, c.y
    simp [isCCW, upScan, upStep, downScan, at', List.range', *])
  all_goals first
    | (rw [orient_eq_one_dec]; done)
    | (rw [orient_eq_one_dec, det_cycle]; done)
    | (rw [orient_eq_one_dec, det_cycle']; done)
    | (have e : det a b c = (b.y - a.y) * (b.x - c.x) := by unfold det; rw [← h2]; ring
       rw [e, pos_mul_iff (by omega)]; omega)
    | (have e : det a b c = (a.y - c.y) * (a.x - b.x) := by unfold det; rw [← h1]; ring
       rw [e, pos_mul_iff (by omega)]; omega)
    | (have e : det a b c = (a.y - b.y) * (c.x - a.x) := by unfold det; rw [← h3]; ring
       rw [e, pos_mul_iff (by omega)]; omega)
    | (have e : det a b c = 0 := by unfold det; rw [← h2, ← h1]; ring
       omega)

/-- **isCCW on triangles**: counter-clockwise iff the signed area is positive, for every triangle ring of
non-zero area -/
theorem isCCW_triangle (a b c : Pt) (h : area2 [a, b, c, a] ≠ 0) :
    isCCW [a, b, c, a] = ccwSpec [a, b, c, a] := by
  unfold ccwSpec
  rw [area2_triangle] at h ⊢
  exact isCCW_triangle_det a b c h

end GeosModel.CCW
