import GeosModel.Model.Kernel.RayCount
import GeosModel.Proofs.Kernel.Basic
/-!
# `RayCrossingCounter` (ported) = `Kernel.locateInRing` on closed rings

Per segment: what `countSegment` reports as on-segment is a true on-segment; every true on-segment is
reported by this segment except when the point is the segment's *first* vertex and the segment goes
down — in a closed ring that vertex is the second vertex of another segment, which reports it.
When nothing is reported, the counter is incremented exactly when `Kernel.crosses` holds.
-/
namespace GeosModel.RayCount
open GeosModel.Kernel

/-- the on-segment report of one `countSegment` call -/
def segOn (p a b : Pt) : Bool := (countSegment p RCC.init a b).onSeg
/-- the crossing-count increment of one `countSegment` call -/
def segInc (p a b : Pt) : Nat := (countSegment p RCC.init a b).count

theorem countSegment_eq (p : Pt) (st : RCC) (a b : Pt) :
    countSegment p st a b = ⟨st.onSeg || segOn p a b, st.count + segInc p a b⟩ := by
  unfold segOn segInc countSegment RCC.init
  cases st with | mk o c =>
  simp only
  split_ifs <;> simp

/-! ### arithmetic facts -/

theorem det_alt (a b p : Pt) :
    det a b p = -((p.x - b.x) * (p.y - a.y)) - (p.x - a.x) * (b.y - p.y) := by
  unfold det; ring

/-- both endpoints strictly left of p, edge going up through p's level: the crossing is left of p -/
theorem left_up (p a b : Pt) (h1 : a.x < p.x) (h2 : b.x < p.x) (h3 : a.y ≤ p.y) (h4 : p.y < b.y) :
    det a b p < 0 := by
  rw [det_alt]
  have e1 : 0 ≤ (p.x - b.x) * (p.y - a.y) := mul_nonneg (by omega) (by omega)
  have e2 : 0 < (p.x - a.x) * (b.y - p.y) := mul_pos (by omega) (by omega)
  omega

theorem left_down (p a b : Pt) (h1 : a.x < p.x) (h2 : b.x < p.x) (h3 : b.y ≤ p.y) (h4 : p.y < a.y) :
    0 < det a b p := by
  have := left_up p b a h2 h1 h3 h4
  rw [det_swap12] at this; omega

theorem right_up (p a b : Pt) (h1 : p.x < a.x) (h2 : p.x < b.x) (h3 : a.y ≤ p.y) (h4 : p.y < b.y) :
    0 < det a b p := by
  have e : det a b p = (b.x - p.x) * (p.y - a.y) + (a.x - p.x) * (b.y - p.y) := by unfold det; ring
  rw [e]
  have e1 : 0 ≤ (b.x - p.x) * (p.y - a.y) := mul_nonneg (by omega) (by omega)
  have e2 : 0 < (a.x - p.x) * (b.y - p.y) := mul_pos (by omega) (by omega)
  omega

theorem right_down (p a b : Pt) (h1 : p.x < a.x) (h2 : p.x < b.x) (h3 : b.y ≤ p.y) (h4 : p.y < a.y) :
    det a b p < 0 := by
  have := right_up p b a h2 h1 h3 h4
  rw [det_swap12] at this; omega

/-- a point of the segment at the level of one endpoint, the other endpoint at another level, is that endpoint -/
theorem on_level_left (a b p : Pt) (hd : det a b p = 0) (hy : p.y = a.y) (hne : b.y ≠ a.y) : p.x = a.x := by
  have e : det a b p = -((b.y - a.y) * (p.x - a.x)) := by unfold det; rw [hy]; ring
  rw [e] at hd
  have : (b.y - a.y) * (p.x - a.x) = 0 := by omega
  rcases Int.mul_eq_zero.mp this with h | h <;> omega

theorem on_level_right (a b p : Pt) (hd : det a b p = 0) (hy : p.y = b.y) (hne : b.y ≠ a.y) : p.x = b.x := by
  have hd' : det b a p = 0 := by rw [det_swap12]; omega
  exact on_level_left b a p hd' hy (fun h => hne h.symm)

/-! ### per segment -/

/-- what is reported is true -/
theorem segOn_sound (p a b : Pt) (h : segOn p a b = true) : onSegment a b p = true := by
  rw [onSegment_iff, inBox_iff]
  unfold segOn countSegment RCC.init at h
  by_cases c1 : a.x < p.x ∧ b.x < p.x
  · simp [if_pos c1] at h
  · simp only [if_neg c1] at h
    by_cases c2 : p.x = b.x ∧ p.y = b.y
    · have : p = b := (Pt.ext_iff' _ _).mpr c2
      subst this
      refine ⟨by simp, ?_⟩
      omega
    · simp only [if_neg c2] at h
      by_cases c3 : a.y = p.y ∧ b.y = p.y
      · simp only [if_pos c3] at h
        by_cases c4 : p.x ≥ (if a.x > b.x then b.x else a.x) ∧ p.x ≤ (if a.x > b.x then a.x else b.x)
        · have hd : det a b p = 0 := by unfold det; rw [c3.1, c3.2]; ring
          refine ⟨hd, ?_⟩
          obtain ⟨c4a, c4b⟩ := c4
          split_ifs at c4a c4b <;> omega
        · simp [if_neg c4] at h
      · simp only [if_neg c3] at h
        by_cases c5 : (a.y > p.y ∧ b.y ≤ p.y) ∨ (b.y > p.y ∧ a.y ≤ p.y)
        · simp only [if_pos c5] at h
          by_cases c6 : orient a b p = 0
          · have hd : det a b p = 0 := orient_eq_zero.mp c6
            refine ⟨hd, ?_, ?_, by omega, by omega⟩
            · -- min a.x b.x ≤ p.x
              by_contra hlt
              have h1 : p.x < a.x := by omega
              have h2 : p.x < b.x := by omega
              rcases c5 with ⟨u, v⟩ | ⟨u, v⟩
              · have := right_down p a b h1 h2 v u; omega
              · have := right_up p a b h1 h2 v u; omega
            · -- p.x ≤ max a.x b.x
              by_contra hlt
              have h1 : a.x < p.x := by omega
              have h2 : b.x < p.x := by omega
              rcases c5 with ⟨u, v⟩ | ⟨u, v⟩
              · have := left_down p a b h1 h2 v u; omega
              · have := left_up p a b h1 h2 v u; omega
          · simp only [if_neg c6] at h
            split at h <;> (split at h <;> simp at h)
        · simp [if_neg c5] at h

/-- every true on-segment is reported by this segment, except: p is the first vertex and the segment
descends -/
theorem segOn_complete (p a b : Pt) (h : onSegment a b p = true) :
    segOn p a b = true ∨ (p = a ∧ b.y < a.y) := by
  rw [onSegment_iff, inBox_iff] at h
  obtain ⟨hd, hx1, hx2, hy1, hy2⟩ := h
  unfold segOn countSegment RCC.init
  by_cases c1 : a.x < p.x ∧ b.x < p.x
  · omega
  · rw [if_neg c1]
    by_cases c2 : p.x = b.x ∧ p.y = b.y
    · rw [if_pos c2]; exact Or.inl rfl
    · rw [if_neg c2]
      by_cases c3 : a.y = p.y ∧ b.y = p.y
      · rw [if_pos c3]
        left
        simp only
        split_ifs <;> first | rfl | omega
      · rw [if_neg c3]
        by_cases c5 : (a.y > p.y ∧ b.y ≤ p.y) ∨ (b.y > p.y ∧ a.y ≤ p.y)
        · rw [if_pos c5]
          have : orient a b p = 0 := orient_eq_zero.mpr hd
          simp [this]
        · rw [if_neg c5]
          right
          -- p.y is the top level of the segment and the segment is not horizontal
          by_cases ha : p.y = a.y
          · have hb : b.y < a.y := by omega
            have := on_level_left a b p hd ha (by omega)
            exact ⟨(Pt.ext_iff' _ _).mpr ⟨this, ha⟩, hb⟩
          · have hb : p.y = b.y := by omega
            have := on_level_right a b p hd hb (by omega)
            exact absurd ⟨this, hb⟩ c2

/-- when this segment reports nothing, it counts exactly the `Kernel.crosses` crossings -/
theorem segInc_eq (p a b : Pt) (h : segOn p a b = false) :
    segInc p a b = if crosses p a b then 1 else 0 := by
  unfold segOn countSegment RCC.init at h
  unfold segInc countSegment RCC.init crosses
  by_cases c1 : a.x < p.x ∧ b.x < p.x
  · simp only [if_pos c1]
    by_cases up : a.y ≤ p.y ∧ p.y < b.y
    · have := left_up p a b c1.1 c1.2 up.1 up.2
      have : ¬ (det a b p > 0) := by omega
      simp [up, this]
    · by_cases down : b.y ≤ p.y ∧ p.y < a.y
      · have := left_down p a b c1.1 c1.2 down.1 down.2
        have : ¬ (det a b p < 0) := by omega
        have nu : ¬ (a.y ≤ p.y ∧ p.y < b.y) := up
        simp only [Bool.and_eq_true, decide_eq_true_eq, nu, if_false, down, and_self, if_true, this]
      · simp [up, down]
  · simp only [if_neg c1] at h ⊢
    by_cases c2 : p.x = b.x ∧ p.y = b.y
    · simp [if_pos c2] at h
    · simp only [if_neg c2] at h ⊢
      by_cases c3 : a.y = p.y ∧ b.y = p.y
      · simp only [if_pos c3]
        have nu : ¬ (a.y ≤ p.y ∧ p.y < b.y) := by omega
        have nd : ¬ (b.y ≤ p.y ∧ p.y < a.y) := by omega
        simp only [Bool.and_eq_true, decide_eq_true_eq, nu, nd, if_false]
        split <;> (split <;> simp)
      · simp only [if_neg c3] at h ⊢
        by_cases c5 : (a.y > p.y ∧ b.y ≤ p.y) ∨ (b.y > p.y ∧ a.y ≤ p.y)
        · simp only [if_pos c5] at h ⊢
          by_cases c6 : orient a b p = 0
          · simp [c6] at h
          · simp only [if_neg c6] at h ⊢
            have hd : det a b p ≠ 0 := fun hh => c6 (orient_eq_zero.mpr hh)
            rcases c5 with ⟨u, v⟩ | ⟨u, v⟩
            · -- downward edge: flip
              have nu : ¬ (a.y ≤ p.y ∧ p.y < b.y) := by omega
              have dn : b.y ≤ p.y ∧ p.y < a.y := by omega
              have hflip : b.y < a.y := by omega
              simp only [Bool.and_eq_true, decide_eq_true_eq, nu, if_false, dn, and_self, if_true, hflip]
              by_cases hneg : det a b p < 0
              · have : -orient a b p > 0 := by have := orient_neg.mpr hneg; omega
                rw [if_pos this]; simp [hneg]
              · have hpos : 0 < det a b p := by omega
                have : ¬ (-orient a b p > 0) := by have := orient_pos.mpr hpos; omega
                rw [if_neg this]; simp [hneg]
            · have up : a.y ≤ p.y ∧ p.y < b.y := by omega
              have hflip : ¬ (b.y < a.y) := by omega
              simp only [Bool.and_eq_true, decide_eq_true_eq, up, and_self, if_true, hflip, if_false]
              by_cases hpos : det a b p > 0
              · have : orient a b p > 0 := orient_pos.mpr hpos
                rw [if_pos this]; simp [hpos]
              · have hneg : det a b p < 0 := by omega
                have : ¬ (orient a b p > 0) := by have := orient_neg.mpr hneg; omega
                rw [if_neg this]; simp [hpos]
        · simp only [if_neg c5]
          have nu : ¬ (a.y ≤ p.y ∧ p.y < b.y) := by omega
          have nd : ¬ (b.y ≤ p.y ∧ p.y < a.y) := by omega
          simp [nu, nd]

/-! ### the loop -/

theorem locLoop_spec (p : Pt) : ∀ (ring : List Pt) (st : RCC), st.onSeg = false →
    (locLoop p st ring).onSeg = (edges ring).any (fun e => segOn p e.1 e.2) ∧
    ((edges ring).any (fun e => segOn p e.1 e.2) = false →
      (locLoop p st ring).count = st.count + ((edges ring).map (fun e => segInc p e.1 e.2)).sum)
  | [], st, h => by simp [locLoop, edges, h]
  | [_], st, h => by simp [locLoop, edges, h]
  | a :: b :: r, st, h => by
    simp only [locLoop, edges, List.any_cons, List.map_cons, List.sum_cons]
    rw [countSegment_eq, h, Bool.false_or]
    by_cases hs : segOn p a b = true
    · simp [hs]
    · have hs' : segOn p a b = false := by simpa using hs
      simp only [hs', Bool.false_or, Bool.false_eq_true, if_false]
      obtain ⟨h1, h2⟩ := locLoop_spec p (b :: r) ⟨false, st.count + segInc p a b⟩ rfl
      refine ⟨h1, fun hno => ?_⟩
      rw [h2 hno]; simp only; omega

/-! ### closed rings: every first vertex of an edge is the second vertex of an edge -/

theorem edge_first (l : List Pt) : ∀ a b, (a, b) ∈ edges l → l.head? = some a ∨ ∃ z, (z, a) ∈ edges l := by
  induction l with
  | nil => intro a b h; simp [edges] at h
  | cons x t ih =>
    cases t with
    | nil => intro a b h; simp [edges] at h
    | cons y r =>
      intro a b h
      simp only [edges, List.mem_cons] at h
      rcases h with h | h
      · left; simp only [Prod.mk.injEq] at h; simp [h.1]
      · right
        rcases ih a b h with h1 | ⟨z, hz⟩
        · simp only [List.head?_cons, Option.some.injEq] at h1
          subst h1
          exact ⟨x, by simp [edges]⟩
        · exact ⟨z, by simp only [edges, List.mem_cons]; exact Or.inr hz⟩

theorem edge_last (l : List Pt) : ∀ a, 2 ≤ l.length → l.getLast? = some a → ∃ z, (z, a) ∈ edges l := by
  induction l with
  | nil => intro a h; simp at h
  | cons x t ih =>
    cases t with
    | nil => intro a h; simp at h
    | cons y r =>
      intro a _ hl
      cases r with
      | nil =>
        simp at hl; subst hl
        exact ⟨x, by simp [edges]⟩
      | cons w r' =>
        have hl' : (y :: w :: r').getLast? = some a := by
          rw [List.getLast?_cons_cons] at hl; exact hl
        obtain ⟨z, hz⟩ := ih a (by simp) hl'
        exact ⟨z, by rw [edges]; exact List.mem_cons_of_mem _ hz⟩

theorem edges_length_two {l : List Pt} {e : Pt × Pt} (h : e ∈ edges l) : 2 ≤ l.length := by
  cases l with
  | nil => simp [edges] at h
  | cons x t => cases t with
    | nil => simp [edges] at h
    | cons y r => simp

/-- on a closed ring the reports of `countSegment` over all segments detect exactly the boundary -/
theorem any_segOn_iff (p : Pt) (ring : List Pt) (hc : Closed ring) :
    (edges ring).any (fun e => segOn p e.1 e.2) = (edges ring).any (fun e => onSegment e.1 e.2 p) := by
  rw [Bool.eq_iff_iff, List.any_eq_true, List.any_eq_true]
  constructor
  · rintro ⟨e, he, h⟩; exact ⟨e, he, segOn_sound p e.1 e.2 h⟩
  · rintro ⟨⟨a, b⟩, he, h⟩
    rcases segOn_complete p a b h with h1 | ⟨h1, _⟩
    · exact ⟨(a, b), he, h1⟩
    · subst h1
      have hz : ∃ z, (z, p) ∈ edges ring := by
        rcases edge_first ring p b he with hh | hh
        · exact edge_last ring p (edges_length_two he) (by unfold Closed at hc; rw [← hc]; exact hh)
        · exact hh
      obtain ⟨z, hz⟩ := hz
      refine ⟨(z, p), hz, ?_⟩
      unfold segOn countSegment RCC.init
      have c1 : ¬ (z.x < p.x ∧ p.x < p.x) := by omega
      simp [c1]

theorem sum_segInc (p : Pt) : ∀ (es : List (Pt × Pt)), es.any (fun e => segOn p e.1 e.2) = false →
    (es.map (fun e => segInc p e.1 e.2)).sum = (es.filter (fun e => crosses p e.1 e.2)).length
  | [], _ => by simp
  | e :: es, h => by
    simp only [List.any_cons, Bool.or_eq_false_iff] at h
    have ih := sum_segInc p es h.2
    simp only [List.map_cons, List.sum_cons, ih, segInc_eq p e.1 e.2 h.1, List.filter_cons]
    split <;> simp <;> omega

/-- **the ported `locatePointInRing` is the specification `Kernel.locateInRing`** on every closed ring,
for every point (on the ring or not) -/
theorem locatePointInRing_eq (p : Pt) (ring : List Pt) (hc : Closed ring) :
    locatePointInRing p ring = locateInRing p ring := by
  unfold locatePointInRing getLocation locateInRing
  obtain ⟨h1, h2⟩ := locLoop_spec p ring RCC.init rfl
  rw [h1, any_segOn_iff p ring hc]
  simp only
  by_cases hb : (edges ring).any (fun e => onSegment e.1 e.2 p) = true
  · simp [hb]
  · have hb' : (edges ring).any (fun e => onSegment e.1 e.2 p) = false := by simpa using hb
    have hno : (edges ring).any (fun e => segOn p e.1 e.2) = false := by
      rw [any_segOn_iff p ring hc]; exact hb'
    rw [h2 hno, sum_segInc p _ hno]
    simp [hb', RCC.init]

end GeosModel.RayCount
