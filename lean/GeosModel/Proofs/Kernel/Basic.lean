import GeosModel.Base.Kernel
import Mathlib.Tactic.Ring
import Mathlib.Tactic.Linarith
/-!
# Basic facts about the exact predicates of `Base/Kernel` (shared; other builders may rely on them)

`det`: antisymmetry, cyclicity, translation invariance, affine identities among the four determinants of
two segments; `orient` under swaps; `inBox`/`onSegment` symmetry; `segRel` symmetry in its two segments;
`area2` of a closed ring under reversal and rotation.
-/
namespace GeosModel.Kernel

/-! ### `Pt` equality -/

theorem Pt.ext_iff' (a b : Pt) : a = b ↔ a.x = b.x ∧ a.y = b.y := by
  cases a; cases b; simp

theorem Pt.beq_iff (a b : Pt) : (a == b) = true ↔ a = b := by
  cases a with | mk ax ay => cases b with | mk bx by' =>
  show (instBEqPt.beq ⟨ax, ay⟩ ⟨bx, by'⟩ = true) ↔ _
  simp [instBEqPt.beq]

instance : LawfulBEq Pt where
  eq_of_beq := fun h => (Pt.beq_iff _ _).mp h
  rfl := (Pt.beq_iff _ _).mpr rfl

/-! ### `det` -/

theorem det_swap12 (a b c : Pt) : det b a c = - det a b c := by unfold det; ring
theorem det_swap23 (a b c : Pt) : det a c b = - det a b c := by unfold det; ring
theorem det_swap13 (a b c : Pt) : det c b a = - det a b c := by unfold det; ring
theorem det_cycle (a b c : Pt) : det b c a = det a b c := by unfold det; ring
theorem det_cycle' (a b c : Pt) : det c a b = det a b c := by unfold det; ring

@[simp] theorem det_self12 (a c : Pt) : det a a c = 0 := by unfold det; ring
@[simp] theorem det_self13 (a b : Pt) : det a b a = 0 := by unfold det; ring
@[simp] theorem det_self23 (a b : Pt) : det a b b = 0 := by unfold det; ring

/-- translation by a vector -/
def Pt.shift (t p : Pt) : Pt := ⟨p.x + t.x, p.y + t.y⟩

theorem det_shift (t a b c : Pt) : det (t.shift a) (t.shift b) (t.shift c) = det a b c := by
  unfold det Pt.shift; ring

/-- scaling by an integer factor -/
def Pt.scale (n : Int) (p : Pt) : Pt := ⟨n * p.x, n * p.y⟩

theorem det_scale (n : Int) (a b c : Pt) : det (Pt.scale n a) (Pt.scale n b) (Pt.scale n c) = n * n * det a b c := by
  unfold det Pt.scale; ring

/-- the four determinants of two segments satisfy one linear relation -/
theorem det_four (p1 p2 q1 q2 : Pt) :
    det p1 p2 q1 - det p1 p2 q2 = det q1 q2 p2 - det q1 q2 p1 := by
  unfold det; ring

/-- … and one vector relation (x component) -/
theorem det_vec_x (p1 p2 q1 q2 : Pt) :
    det p1 p2 q1 * q2.x - det p1 p2 q2 * q1.x + det q1 q2 p1 * p2.x - det q1 q2 p2 * p1.x = 0 := by
  unfold det; ring

theorem det_vec_y (p1 p2 q1 q2 : Pt) :
    det p1 p2 q1 * q2.y - det p1 p2 q2 * q1.y + det q1 q2 p1 * p2.y - det q1 q2 p2 * p1.y = 0 := by
  unfold det; ring

/-- three points a, b, c and a direction: the Grassmann–Plücker relation in the plane -/
theorem det_plucker_x (o a b w : Pt) :
    det o a b * (w.x - o.x) + det o b w * (a.x - o.x) + det o w a * (b.x - o.x) = 0 := by
  unfold det; ring

theorem det_plucker_y (o a b w : Pt) :
    det o a b * (w.y - o.y) + det o b w * (a.y - o.y) + det o w a * (b.y - o.y) = 0 := by
  unfold det; ring

/-! ### `orient` -/

theorem orient_swap12 (a b c : Pt) : orient b a c = - orient a b c := by
  unfold orient; rw [det_swap12, Int.sign_neg]
theorem orient_swap23 (a b c : Pt) : orient a c b = - orient a b c := by
  unfold orient; rw [det_swap23, Int.sign_neg]
theorem orient_swap13 (a b c : Pt) : orient c b a = - orient a b c := by
  unfold orient; rw [det_swap13, Int.sign_neg]
theorem orient_cycle (a b c : Pt) : orient b c a = orient a b c := by
  unfold orient; rw [det_cycle]
theorem orient_shift (t a b c : Pt) : orient (t.shift a) (t.shift b) (t.shift c) = orient a b c := by
  unfold orient; rw [det_shift]

theorem orient_eq_zero {a b c : Pt} : orient a b c = 0 ↔ det a b c = 0 := by
  unfold orient; exact Int.sign_eq_zero_iff_zero
theorem orient_pos {a b c : Pt} : 0 < orient a b c ↔ 0 < det a b c := by
  unfold orient; exact Int.sign_pos_iff
theorem orient_neg {a b c : Pt} : orient a b c < 0 ↔ det a b c < 0 := by
  unfold orient; exact Int.sign_neg_iff
theorem orient_eq_one {a b c : Pt} : orient a b c = 1 ↔ 0 < det a b c := by
  unfold orient; exact Int.sign_eq_one_iff_pos
theorem orient_eq_neg_one {a b c : Pt} : orient a b c = -1 ↔ det a b c < 0 := by
  unfold orient; exact Int.sign_eq_neg_one_iff_neg

/-- scaling all coordinates by a positive factor does not change the orientation -/
theorem orient_scale (n : Int) (hn : 0 < n) (a b c : Pt) :
    orient (Pt.scale n a) (Pt.scale n b) (Pt.scale n c) = orient a b c := by
  unfold orient
  rw [det_scale, Int.sign_mul, Int.sign_mul, Int.sign_eq_one_of_pos hn]
  simp

/-! ### `inBox`, `onSegment` -/

theorem inBox_iff (a b p : Pt) :
    inBox a b p = true ↔ min a.x b.x ≤ p.x ∧ p.x ≤ max a.x b.x ∧ min a.y b.y ≤ p.y ∧ p.y ≤ max a.y b.y := by
  simp [inBox, and_assoc]

theorem inBox_symm (a b p : Pt) : inBox b a p = inBox a b p := by
  unfold inBox; rw [Int.min_comm b.x, Int.max_comm b.x, Int.min_comm b.y, Int.max_comm b.y]

@[simp] theorem inBox_left (a b : Pt) : inBox a b a = true := by
  rw [inBox_iff]; omega
@[simp] theorem inBox_right (a b : Pt) : inBox a b b = true := by
  rw [inBox_iff]; omega

theorem inBox_self_iff (a p : Pt) : inBox a a p = true ↔ p = a := by
  rw [inBox_iff, Pt.ext_iff']; omega

theorem onSegment_iff (a b p : Pt) : onSegment a b p = true ↔ det a b p = 0 ∧ inBox a b p = true := by
  simp [onSegment]

theorem onSegment_symm (a b p : Pt) : onSegment b a p = onSegment a b p := by
  unfold onSegment; rw [inBox_symm, det_swap12]
  have : (-det a b p == 0) = (det a b p == 0) := by rw [Bool.eq_iff_iff]; simp
  rw [this]

@[simp] theorem onSegment_left (a b : Pt) : onSegment a b a = true := by
  rw [onSegment_iff]; simp
@[simp] theorem onSegment_right (a b : Pt) : onSegment a b b = true := by
  rw [onSegment_iff]; simp

theorem onSegment_self_iff (a p : Pt) : onSegment a a p = true ↔ p = a := by
  rw [onSegment_iff, inBox_self_iff]; simp

theorem onSegment_shift (t a b p : Pt) : onSegment (t.shift a) (t.shift b) (t.shift p) = onSegment a b p := by
  unfold onSegment; rw [det_shift]
  congr 1
  have : inBox (t.shift a) (t.shift b) (t.shift p) = true ↔ inBox a b p = true := by
    rw [inBox_iff, inBox_iff]; simp only [Pt.shift]; omega
  exact Bool.eq_iff_iff.mpr this

/-! ### lists without duplicates: what `eraseDups.length ≥ 2` means -/

theorem eraseDups_ne_nil {α} [BEq α] {l : List α} (h : l ≠ []) : l.eraseDups ≠ [] := by
  cases l with
  | nil => exact absurd rfl h
  | cons a as => rw [List.eraseDups_cons]; simp

theorem two_le_eraseDups_length {α} [BEq α] [LawfulBEq α] (l : List α) :
    2 ≤ l.eraseDups.length ↔ ∃ a ∈ l, ∃ b ∈ l, a ≠ b := by
  cases l with
  | nil => simp
  | cons a as =>
    rw [List.eraseDups_cons]
    constructor
    · intro h
      have hne : (as.filter fun b => !b == a) ≠ [] := by
        intro h0; rw [h0] at h; simp at h
      obtain ⟨b, hb⟩ := List.exists_mem_of_ne_nil _ hne
      rw [List.mem_filter] at hb
      refine ⟨a, by simp, b, by simp [hb.1], ?_⟩
      intro hab; subst hab; simp at hb
    · rintro ⟨x, hx, y, hy, hxy⟩
      have : ∃ b ∈ as, b ≠ a := by
        by_cases hxa : x = a
        · subst hxa
          rcases List.mem_cons.mp hy with rfl | hy'
          · exact absurd rfl hxy
          · exact ⟨y, hy', fun h => hxy h.symm⟩
        · rcases List.mem_cons.mp hx with rfl | hx'
          · exact absurd rfl hxa
          · exact ⟨x, hx', hxa⟩
      obtain ⟨b, hb, hba⟩ := this
      have hne : (as.filter fun b => !b == a) ≠ [] := by
        intro h0
        have : b ∈ as.filter fun b => !b == a := by
          rw [List.mem_filter]; exact ⟨hb, by simpa using hba⟩
        rw [h0] at this; simp at this
      have := eraseDups_ne_nil hne
      cases h : (as.filter fun b => !b == a).eraseDups with
      | nil => exact absurd h this
      | cons c cs => simp

/-! ### `segRel` is symmetric in its two segments -/

/-- the endpoints of either segment that lie on the other one -/
def segCands (p1 p2 q1 q2 : Pt) : List Pt :=
  ([q1, q2].filter (onSegment p1 p2)) ++ ([p1, p2].filter (onSegment q1 q2))

theorem mem_segCands (p1 p2 q1 q2 x : Pt) :
    x ∈ segCands p1 p2 q1 q2 ↔
      ((x = q1 ∨ x = q2) ∧ onSegment p1 p2 x = true) ∨ ((x = p1 ∨ x = p2) ∧ onSegment q1 q2 x = true) := by
  simp [segCands, List.mem_filter]

theorem segCands_symm (p1 p2 q1 q2 x : Pt) : x ∈ segCands q1 q2 p1 p2 ↔ x ∈ segCands p1 p2 q1 q2 := by
  rw [mem_segCands, mem_segCands]; exact or_comm

/-- `segRel` unfolded into propositions -/
theorem segRel_eq (p1 p2 q1 q2 : Pt) :
    segRel p1 p2 q1 q2 =
      if orient p1 p2 q1 * orient p1 p2 q2 < 0 ∧ orient q1 q2 p1 * orient q1 q2 p2 < 0 then .point true
      else if orient p1 p2 q1 = 0 ∧ orient p1 p2 q2 = 0 ∧ orient q1 q2 p1 = 0 ∧ orient q1 q2 p2 = 0 then
        if segCands p1 p2 q1 q2 = [] then .disjoint
        else if ∃ a ∈ segCands p1 p2 q1 q2, ∃ b ∈ segCands p1 p2 q1 q2, a ≠ b then .overlap
        else .point false
      else if (orient p1 p2 q1 = 0 ∧ onSegment p1 p2 q1 = true) ∨ (orient p1 p2 q2 = 0 ∧ onSegment p1 p2 q2 = true) ∨
          (orient q1 q2 p1 = 0 ∧ onSegment q1 q2 p1 = true) ∨ (orient q1 q2 p2 = 0 ∧ onSegment q1 q2 p2 = true) then .point false
      else .disjoint := by
  unfold segRel
  simp only [Bool.and_eq_true, decide_eq_true_eq, beq_iff_eq, Bool.or_eq_true, ← two_le_eraseDups_length]
  have hany : (![onSegment p1 p2 q1, onSegment p1 p2 q2, onSegment q1 q2 p1, onSegment q1 q2 p2].any id) = true ↔
      segCands p1 p2 q1 q2 = [] := by
    simp only [segCands, List.filter_cons, List.filter_nil, List.any_cons, List.any_nil]
    cases onSegment p1 p2 q1 <;> cases onSegment p1 p2 q2 <;> cases onSegment q1 q2 p1 <;>
      cases onSegment q1 q2 p2 <;> simp
  simp only [hany, ge_iff_le, or_assoc, and_assoc, segCands]
  split_ifs <;> simp [*]

theorem segRel_symm (p1 p2 q1 q2 : Pt) : segRel q1 q2 p1 p2 = segRel p1 p2 q1 q2 := by
  rw [segRel_eq, segRel_eq]
  have hc : ∀ x, x ∈ segCands q1 q2 p1 p2 ↔ x ∈ segCands p1 p2 q1 q2 := segCands_symm p1 p2 q1 q2
  have hnil : segCands q1 q2 p1 p2 = [] ↔ segCands p1 p2 q1 q2 = [] := by
    simp only [List.eq_nil_iff_forall_not_mem, hc]
  have h2 : (∃ a ∈ segCands q1 q2 p1 p2, ∃ b ∈ segCands q1 q2 p1 p2, a ≠ b) ↔
      (∃ a ∈ segCands p1 p2 q1 q2, ∃ b ∈ segCands p1 p2 q1 q2, a ≠ b) := by
    simp only [hc]
  simp only [hnil, h2]
  have e1 : (orient q1 q2 p1 * orient q1 q2 p2 < 0 ∧ orient p1 p2 q1 * orient p1 p2 q2 < 0) ↔
      (orient p1 p2 q1 * orient p1 p2 q2 < 0 ∧ orient q1 q2 p1 * orient q1 q2 p2 < 0) := and_comm
  have e2 : (orient q1 q2 p1 = 0 ∧ orient q1 q2 p2 = 0 ∧ orient p1 p2 q1 = 0 ∧ orient p1 p2 q2 = 0) ↔
      (orient p1 p2 q1 = 0 ∧ orient p1 p2 q2 = 0 ∧ orient q1 q2 p1 = 0 ∧ orient q1 q2 p2 = 0) := by
    constructor <;> (rintro ⟨a, b, c, d⟩; exact ⟨c, d, a, b⟩)
  have e3 : ((orient q1 q2 p1 = 0 ∧ onSegment q1 q2 p1 = true) ∨ (orient q1 q2 p2 = 0 ∧ onSegment q1 q2 p2 = true) ∨
          (orient p1 p2 q1 = 0 ∧ onSegment p1 p2 q1 = true) ∨ (orient p1 p2 q2 = 0 ∧ onSegment p1 p2 q2 = true)) ↔
      ((orient p1 p2 q1 = 0 ∧ onSegment p1 p2 q1 = true) ∨ (orient p1 p2 q2 = 0 ∧ onSegment p1 p2 q2 = true) ∨
          (orient q1 q2 p1 = 0 ∧ onSegment q1 q2 p1 = true) ∨ (orient q1 q2 p2 = 0 ∧ onSegment q1 q2 p2 = true)) := by
    constructor
    · rintro (h | h | h | h)
      · exact Or.inr (Or.inr (Or.inl h))
      · exact Or.inr (Or.inr (Or.inr h))
      · exact Or.inl h
      · exact Or.inr (Or.inl h)
    · rintro (h | h | h | h)
      · exact Or.inr (Or.inr (Or.inl h))
      · exact Or.inr (Or.inr (Or.inr h))
      · exact Or.inl h
      · exact Or.inr (Or.inl h)
  simp only [e1, e2, e3]

/-! ### `area2`: shoelace sum, reversal, rotation of a closed ring -/

/-- the shoelace term of one edge -/
def edgeTerm (e : Pt × Pt) : Int := e.1.x * e.2.y - e.2.x * e.1.y

theorem foldl_add_eq_sum {α} (f : α → Int) : ∀ (l : List α) (acc : Int),
    l.foldl (fun acc e => acc + f e) acc = acc + (l.map f).sum
  | [], acc => by simp
  | x :: t, acc => by
    simp only [List.foldl_cons, List.map_cons, List.sum_cons]
    rw [foldl_add_eq_sum f t]; omega

theorem area2_eq_sum (ring : List Pt) : area2 ring = ((edges ring).map edgeTerm).sum := by
  unfold area2
  have := foldl_add_eq_sum edgeTerm (edges ring) 0
  simp only [edgeTerm, Int.zero_add] at this ⊢
  exact this

/-- appending a vertex appends the edge from the previous last vertex -/
theorem edges_concat : ∀ (l : List Pt) (y x : Pt), edges (l ++ [y] ++ [x]) = edges (l ++ [y]) ++ [(y, x)]
  | [], y, x => by simp [edges]
  | [a], y, x => by simp [edges]
  | a :: b :: t, y, x => by
    have ih := edges_concat (b :: t) y x
    simp only [List.cons_append, edges] at ih ⊢
    rw [ih]

theorem edges_reverse : ∀ (l : List Pt), edges l.reverse = ((edges l).map Prod.swap).reverse
  | [] => by simp [edges]
  | [a] => by simp [edges]
  | a :: b :: t => by
    have ih := edges_reverse (b :: t)
    have e : (a :: b :: t).reverse = (b :: t).reverse ++ [a] := by simp
    have e2 : (b :: t).reverse = t.reverse ++ [b] := by simp
    rw [e, e2, edges_concat, ← e2, ih]
    simp [edges]

theorem edgeTerm_swap (e : Pt × Pt) : edgeTerm e.swap = - edgeTerm e := by
  unfold edgeTerm; simp only [Prod.fst_swap, Prod.snd_swap]; ring

theorem sum_map_neg {α} (f : α → Int) : ∀ l : List α, (l.map (fun e => - f e)).sum = - (l.map f).sum
  | [] => by simp
  | x :: t => by simp only [List.map_cons, List.sum_cons, sum_map_neg f t]; ring

/-- reversing the vertex order negates the signed area (any vertex list) -/
theorem area2_reverse (ring : List Pt) : area2 ring.reverse = - area2 ring := by
  rw [area2_eq_sum, area2_eq_sum, edges_reverse, List.map_reverse, List.sum_reverse, List.map_map]
  have : (edgeTerm ∘ Prod.swap) = fun e => - edgeTerm e := by
    funext e; exact edgeTerm_swap e
  rw [this, sum_map_neg]

/-- start a closed ring at its second vertex -/
def rotate1 : List Pt → List Pt
  | _ :: b :: t => b :: t ++ [b]
  | l => l

theorem edges_append_last : ∀ (l : List Pt) (a x : Pt), l.getLast? = some a →
    edges (l ++ [x]) = edges l ++ [(a, x)]
  | [], a, x, h => by simp at h
  | [b], a, x, h => by simp at h; subst h; simp [edges]
  | b :: c :: t, a, x, h => by
    have h' : (c :: t).getLast? = some a := by rw [List.getLast?_cons_cons] at h; exact h
    have ih := edges_append_last (c :: t) a x h'
    simp only [List.cons_append, edges] at ih ⊢
    rw [ih]

/-- rotating a closed ring does not change the signed area -/
theorem area2_rotate1 (ring : List Pt) (hc : ring.head? = ring.getLast?) : area2 (rotate1 ring) = area2 ring := by
  match ring, hc with
  | [], _ => rfl
  | [_], _ => rfl
  | a :: b :: t, hc =>
    have hl : (b :: t).getLast? = some a := by
      simp only [List.head?_cons] at hc
      rw [List.getLast?_cons_cons] at hc
      exact hc.symm
    rw [area2_eq_sum, area2_eq_sum]
    show ((edges ((b :: t) ++ [b])).map edgeTerm).sum = _
    rw [edges_append_last (b :: t) a b hl]
    simp only [edges, List.map_append, List.map_cons, List.map_nil, List.sum_append, List.sum_cons, List.sum_nil]
    omega

theorem rotate1_closed (ring : List Pt) (hc : ring.head? = ring.getLast?) :
    (rotate1 ring).head? = (rotate1 ring).getLast? := by
  match ring, hc with
  | [], _ => rfl
  | [_], _ => rfl
  | a :: b :: t, _ =>
    have : (b :: t ++ [b]).getLast? = some b := by
      rw [show b :: t ++ [b] = (b :: t) ++ [b] from rfl, List.getLast?_append]; simp
    simp only [rotate1, List.head?_cons]
    exact this.symm

/-- the signed area of a triangle ring is the orientation determinant -/
theorem area2_triangle (a b c : Pt) : area2 [a, b, c, a] = det a b c := by
  unfold area2 det; simp [edges]; ring

end GeosModel.Kernel
