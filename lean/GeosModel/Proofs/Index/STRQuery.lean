import GeosModel.Model.Index.STR
/-! Lemmas for query / remove on an STR tree whose branch bounds cover their descendants. -/
namespace GeosModel.STR
variable {β ι : Type}

mutual
  /-- every branch's bounds intersect whatever any descendant leaf's bounds intersect -/
  def Node.Covers (ops : Ops β) : Node β ι → Prop
    | .leaf _ => True
    | .branch b ks => (∀ e ∈ leavesL ks, ∀ q, ops.inter e.b q = true → ops.inter b q = true) ∧ CoversL ops ks
  def CoversL (ops : Ops β) : List (Node β ι) → Prop
    | [] => True
    | k :: ks => k.Covers ops ∧ CoversL ops ks
end

/-- the matching predicate of a query -/
def hit (ops : Ops β) (q : β) (e : Entry β ι) : Bool := !e.deleted && ops.inter e.b q

theorem leavesL_cons (k : Node β ι) (ks) : leavesL (k :: ks) = k.leaves ++ leavesL ks := by
  simp [leavesL]

theorem leavesL_append (a b : List (Node β ι)) : leavesL (a ++ b) = leavesL a ++ leavesL b := by
  induction a with
  | nil => simp [leavesL]
  | cons k ks ih => simp [leavesL, ih]

theorem CoversL_append (ops : Ops β) (a b : List (Node β ι)) :
    CoversL ops (a ++ b) ↔ CoversL ops a ∧ CoversL ops b := by
  induction a with
  | nil => simp [CoversL]
  | cons k ks ih => simp [CoversL, ih, and_assoc]

theorem filter_nil_of_no_hit (ops : Ops β) (q : β) (b : β) (l : List (Entry β ι))
    (hc : ∀ e ∈ l, ∀ q, ops.inter e.b q = true → ops.inter b q = true)
    (hb : ops.inter b q = false) : l.filter (hit ops q) = [] := by
  apply List.filter_eq_nil_iff.mpr
  intro e he hh
  have := hc e he q
  simp only [hit, Bool.and_eq_true] at hh
  rw [this hh.2] at hb
  cases hb

mutual
  /-- a child visited from its parent's loop yields exactly its live leaves whose own bounds intersect
  the query, each once, in depth-first order -/
  theorem queryNode_spec (ops : Ops β) (q : β) :
      ∀ (k : Node β ι), k.Covers ops → queryNode ops q k = (k.leaves.filter (hit ops q)).map (·.item)
    | .leaf e, _ => by
        simp only [queryNode, Node.leaves, List.filter_cons, List.filter_nil, hit]
        by_cases hi : ops.inter e.b q = true <;> by_cases hd : e.deleted = true <;> simp [hi, hd]
    | .branch b kk, h => by
        simp only [Node.Covers] at h
        simp only [queryNode, Node.leaves]
        cases hb : ops.inter b q
        · rw [filter_nil_of_no_hit ops q b _ h.1 hb]; simp
        · simp [queryKids_spec ops q kk h.2]
  theorem queryKids_spec (ops : Ops β) (q : β) :
      ∀ (ks : List (Node β ι)), CoversL ops ks →
        queryKids ops q ks = ((leavesL ks).filter (hit ops q)).map (·.item)
    | [], _ => by simp [queryKids, leavesL]
    | k :: ks, h => by
        simp only [queryKids, leavesL, List.filter_append, List.map_append,
          queryNode_spec ops q k h.1, queryKids_spec ops q ks h.2]
end

theorem queryRoot_spec (ops : Ops β) (q : β) (r : Node β ι) (h : r.Covers ops) :
    queryRoot ops q (some r) = (r.leaves.filter (hit ops q)).map (·.item) := by
  rw [← queryNode_spec ops q r h]
  cases r <;> simp [queryRoot, queryNode]

/-! ### remove -/

/-- mark the first entry satisfying `p` as deleted -/
def markFirst (p : Entry β ι → Bool) : List (Entry β ι) → Option (List (Entry β ι))
  | [] => none
  | e :: es => if p e then some ({ e with deleted := true } :: es) else (markFirst p es).map (e :: ·)

def rmHit [BEq ι] (ops : Ops β) (q : β) (i : ι) (e : Entry β ι) : Bool :=
  ops.inter e.b q && !e.deleted && e.item == i

theorem markFirst_append (p : Entry β ι → Bool) (a b : List (Entry β ι)) :
    markFirst p (a ++ b) =
      match markFirst p a with
      | some a' => some (a' ++ b)
      | none => (markFirst p b).map (a ++ ·) := by
  induction a with
  | nil => simp [markFirst]
  | cons e es ih =>
    simp only [List.cons_append, markFirst]
    split
    · simp
    · rw [ih]; cases markFirst p es <;> simp [Option.map_map, Function.comp_def]

theorem markFirst_none_of_forall (p : Entry β ι → Bool) (l : List (Entry β ι))
    (h : ∀ e ∈ l, p e = false) : markFirst p l = none := by
  induction l with
  | nil => rfl
  | cons e es ih =>
    simp only [markFirst, h e (by simp)]
    simp [ih (fun e he => h e (by simp [he]))]

theorem markFirst_none_iff (p : Entry β ι → Bool) (l : List (Entry β ι)) :
    markFirst p l = none ↔ ∀ e ∈ l, p e = false := by
  constructor
  · induction l with
    | nil => simp
    | cons e es ih =>
      simp only [markFirst]
      split
      · simp
      · rename_i hp
        intro h
        have : markFirst p es = none := by
          cases hm : markFirst p es <;> simp_all
        intro e' he'
        simp only [List.mem_cons] at he'
        rcases he' with rfl | he'
        · simpa using hp
        · exact ih this e' he'
  · exact markFirst_none_of_forall p l

theorem no_rmHit_of_no_inter [BEq ι] (ops : Ops β) (q : β) (i : ι) (b : β) (l : List (Entry β ι))
    (hc : ∀ e ∈ l, ∀ q, ops.inter e.b q = true → ops.inter b q = true)
    (hb : ops.inter b q = false) : ∀ e ∈ l, rmHit ops q i e = false := by
  intro e he
  simp only [rmHit]
  cases hi : ops.inter e.b q
  · simp
  · rw [hc e he q hi] at hb; cases hb

mutual
  theorem removeNode_spec [BEq ι] (ops : Ops β) (q : β) (i : ι) :
      ∀ (k : Node β ι), k.Covers ops →
        (removeNode ops q i k).map Node.leaves = markFirst (rmHit ops q i) k.leaves
    | .leaf e, _ => by
        simp only [removeNode, Node.leaves, markFirst, rmHit]
        by_cases hp : (ops.inter e.b q && !e.deleted && e.item == i) = true
        · simp [hp, Node.leaves]
        · simp [hp]
    | .branch b kk, h => by
        simp only [Node.Covers] at h
        simp only [removeNode, Node.leaves]
        cases hb : ops.inter b q
        · rw [markFirst_none_of_forall _ _ (no_rmHit_of_no_inter ops q i b _ h.1 hb)]; simp
        · rw [← removeKids_spec ops q i kk h.2]
          cases removeKids ops q i kk <;> simp [Node.leaves]
  /-- `remove` over the children marks exactly the first leaf (depth-first) that is live, holds an equal
  item and whose own bounds intersect the removal envelope; bounds and shape are untouched. -/
  theorem removeKids_spec [BEq ι] (ops : Ops β) (q : β) (i : ι) :
      ∀ (ks : List (Node β ι)), CoversL ops ks →
        (removeKids ops q i ks).map leavesL = markFirst (rmHit ops q i) (leavesL ks)
    | [], _ => by simp [removeKids, leavesL, markFirst]
    | k :: ks, h => by
        simp only [removeKids, leavesL]
        rw [markFirst_append, ← removeNode_spec ops q i k h.1, ← removeKids_spec ops q i ks h.2]
        cases removeNode ops q i k with
        | some k' => simp [leavesL]
        | none => cases removeKids ops q i ks <;> simp [leavesL]
end

/-- removal keeps the covering invariant (bounds are not recomputed, leaves keep their bounds) -/
theorem markFirst_bounds (p : Entry β ι → Bool) :
    ∀ (l l' : List (Entry β ι)), markFirst p l = some l' → l'.map (·.b) = l.map (·.b)
  | [], _, h => by simp [markFirst] at h
  | e :: es, l', h => by
    simp only [markFirst] at h
    split at h
    · cases h; simp
    · cases hm : markFirst p es with
      | none => simp [hm] at h
      | some es' =>
        simp [hm] at h; subst h
        simp [markFirst_bounds p es es' hm]

theorem covers_of_same_bounds (ops : Ops β) (b : β) (l l' : List (Entry β ι))
    (hb : l'.map (·.b) = l.map (·.b))
    (hc : ∀ e ∈ l, ∀ q, ops.inter e.b q = true → ops.inter b q = true) :
    ∀ e ∈ l', ∀ q, ops.inter e.b q = true → ops.inter b q = true := by
  intro e he q hq
  have : e.b ∈ l'.map (·.b) := List.mem_map_of_mem he
  rw [hb] at this
  obtain ⟨e0, he0, hbe⟩ := List.mem_map.mp this
  exact hc e0 he0 q (by rw [hbe]; exact hq)

theorem markFirst_bounds_node [BEq ι] (ops : Ops β) (q : β) (i : ι) (k k' : Node β ι) (hc : k.Covers ops)
    (h : removeNode ops q i k = some k') : k'.leaves.map (·.b) = k.leaves.map (·.b) := by
  have hs := removeNode_spec ops q i k hc
  rw [h] at hs
  exact markFirst_bounds _ _ _ hs.symm

mutual
  theorem removeNode_covers [BEq ι] (ops : Ops β) (q : β) (i : ι) :
      ∀ (k k' : Node β ι), k.Covers ops → removeNode ops q i k = some k' →
        k'.Covers ops ∧ k'.bounds = k.bounds
    | .leaf e, k', _, h => by
        simp only [removeNode] at h
        split at h
        · cases h; exact ⟨trivial, rfl⟩
        · cases h
    | .branch b kk, k', hc, h => by
        have hc' := hc
        simp only [Node.Covers] at hc
        simp only [removeNode] at h
        split at h
        · cases hr : removeKids ops q i kk with
          | none => simp [hr] at h
          | some kk' =>
            simp only [hr, Option.some.injEq] at h
            subst h
            refine ⟨?_, rfl⟩
            simp only [Node.Covers]
            refine ⟨?_, removeKids_covers ops q i kk kk' hc.2 hr⟩
            have hs := removeKids_spec ops q i kk hc.2
            rw [hr] at hs
            exact covers_of_same_bounds ops b _ _ (markFirst_bounds _ _ _ hs.symm) hc.1
        · cases h
  theorem removeKids_covers [BEq ι] (ops : Ops β) (q : β) (i : ι) :
      ∀ (ks ks' : List (Node β ι)), CoversL ops ks → removeKids ops q i ks = some ks' → CoversL ops ks'
    | [], _, _, h => by simp [removeKids] at h
    | k :: ks, ks', hc, h => by
        simp only [removeKids] at h
        cases hn : removeNode ops q i k with
        | some k' =>
          simp only [hn, Option.some.injEq] at h
          subst h
          exact ⟨(removeNode_covers ops q i k k' hc.1 hn).1, hc.2⟩
        | none =>
          simp only [hn] at h
          cases hr : removeKids ops q i ks with
          | none => simp [hr] at h
          | some r =>
            simp only [hr, Option.some.injEq] at h
            subst h
            exact ⟨hc.1, removeKids_covers ops q i ks r hc.2 hr⟩
end

end GeosModel.STR
