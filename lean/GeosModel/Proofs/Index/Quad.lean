import GeosModel.Model.Index.Quad
/-! Lemmas about the quadtree model (Model/Index/Quad.lean): pruning, removal, queries. -/
namespace GeosModel.Quad
variable {ι : Type}

theorem hasChildrenL_false (subs : List (QT ι)) (h : hasChildrenL subs = false) : ∀ k ∈ subs, k = .nil := by
  induction subs with
  | nil => simp
  | cons k ks ih =>
    intro x hx
    unfold hasChildrenL at h
    cases k with
    | nil =>
      simp only [QT.isNil, Bool.not_true, Bool.false_eq_true, if_false] at h
      rcases List.mem_cons.mp hx with rfl | hx
      · rfl
      · exact ih h x hx
    | node e s it sb => simp [QT.isNil] at h

theorem allItemsL_all_nil (subs : List (QT ι)) (h : ∀ k ∈ subs, k = .nil) : allItemsL subs = [] := by
  induction subs with
  | nil => simp [allItemsL]
  | cons k ks ih =>
    have hk : k = .nil := h k (List.mem_cons_self ..)
    subst hk
    simp [allItemsL, QT.allItems, ih (fun x hx => h x (List.mem_cons_of_mem _ hx))]

theorem queryL_all_nil (q : Env) (subs : List (QT ι)) (h : ∀ k ∈ subs, k = .nil) : queryL q subs = [] := by
  induction subs with
  | nil => simp [queryL]
  | cons k ks ih =>
    have hk : k = .nil := h k (List.mem_cons_self ..)
    subst hk
    simp [queryL, QT.query, ih (fun x hx => h x (List.mem_cons_of_mem _ hx))]

/-- what `isPrunable()` lets `remove` delete holds no item -/
theorem prunable_allItems (t : QT ι) (h : t.isPrunable = true) : t.allItems = [] := by
  cases t with
  | nil => simp [QT.allItems]
  | node e s items subs =>
    simp only [QT.isPrunable, QT.hasChildren, QT.hasItems, Bool.not_eq_true', Bool.or_eq_false_iff,
      Bool.not_eq_false'] at h
    have h2 : items = [] := by simpa using h.2
    simp [QT.allItems, h2, allItemsL_all_nil subs (hasChildrenL_false subs h.1)]

theorem prunable_query (t : QT ι) (q : Env) (h : t.isPrunable = true) : t.query q = [] := by
  cases t with
  | nil => simp [QT.query]
  | node e s items subs =>
    simp only [QT.isPrunable, QT.hasChildren, QT.hasItems, Bool.not_eq_true', Bool.or_eq_false_iff,
      Bool.not_eq_false'] at h
    have h2 : items = [] := by simpa using h.2
    simp [QT.query, h2, queryL_all_nil q subs (hasChildrenL_false subs h.1)]

mutual
  theorem query_sublist (q : Env) : ∀ t : QT ι, (t.query q).Sublist t.allItems
    | .nil => by simp [QT.query, QT.allItems]
    | .node env _ items subs => by
      simp only [QT.query, QT.allItems]
      split
      · exact List.Sublist.append (List.Sublist.refl _) (queryL_sublist q subs)
      · exact List.nil_sublist _
  theorem queryL_sublist (q : Env) : ∀ ks : List (QT ι), (queryL q ks).Sublist (allItemsL ks)
    | [] => by simp [queryL, allItemsL]
    | k :: ks => by
      simp only [queryL, allItemsL]
      exact List.Sublist.append (query_sublist q k) (queryL_sublist q ks)
end

mutual
  theorem size_eq : ∀ t : QT ι, t.size = t.allItems.length
    | .nil => by simp [QT.size, QT.allItems]
    | .node _ _ items subs => by
      simp only [QT.size, QT.allItems, List.length_append, sizeL_eq subs]; omega
  theorem sizeL_eq : ∀ ks : List (QT ι), sizeL ks = (allItemsL ks).length
    | [] => by simp [sizeL, allItemsL]
    | k :: ks => by simp only [sizeL, allItemsL, List.length_append, size_eq k, sizeL_eq ks]
end

theorem perm_erase_of [DecidableEq ι] {i : ι} {l m : List ι} (h : (i :: l).Perm m) : l.Perm (m.erase i) := by
  have hi : i ∈ m := h.subset (List.mem_cons_self ..)
  exact (h.trans (List.perm_cons_erase hi)).cons_inv

/-- the statement about one removal: a failed removal changes nothing; a successful one takes exactly one occurrence
of the item out of the stored items -/
def RemoveOK [DecidableEq ι] (i : ι) (before after : List ι) (ok : Bool) : Prop :=
  (ok = false → after = before) ∧ (ok = true → (i :: after).Perm before)

mutual
  theorem remove_spec [DecidableEq ι] (q : Env) (i : ι) :
      ∀ t : QT ι, ((t.remove q i).2 = false → (t.remove q i).1 = t) ∧
        ((t.remove q i).2 = true → (i :: (t.remove q i).1.allItems).Perm t.allItems)
    | .nil => by simp [QT.remove]
    | .node env sz items subs => by
      have ih := removeL_spec q i subs
      simp only [QT.remove]
      by_cases hm : searchMatch env q = true
      · simp only [hm, if_true]
        by_cases hr : (removeL q i subs).2 = true
        · simp only [hr, if_true, QT.allItems]
          refine ⟨fun h => by simp at h, fun _ => ?_⟩
          exact List.perm_middle.symm.trans ((ih.2 hr).append_left items)
        · have hr' : (removeL q i subs).2 = false := by simpa using hr
          simp only [hr', Bool.false_eq_true, if_false]
          by_cases hi : i ∈ items
          · have hc : items.contains i = true := by simpa using hi
            simp only [hc, if_true, QT.allItems]
            refine ⟨fun h => by simp at h, fun _ => ?_⟩
            exact ((List.perm_cons_erase hi).symm.append_right (allItemsL subs))
          · have hc : items.contains i = false := by simpa using hi
            simp only [hc, Bool.false_eq_true, if_false]
            exact ⟨fun _ => trivial, fun h => by simp at h⟩
      · simp [hm]
  theorem removeL_spec [DecidableEq ι] (q : Env) (i : ι) :
      ∀ ks : List (QT ι), ((removeL q i ks).2 = false → (removeL q i ks).1 = ks) ∧
        ((removeL q i ks).2 = true → (i :: allItemsL (removeL q i ks).1).Perm (allItemsL ks))
    | [] => by simp [removeL]
    | k :: ks => by
      have ihk := remove_spec q i k
      have ihs := removeL_spec q i ks
      simp only [removeL]
      by_cases hr : (k.remove q i).2 = true
      · simp only [hr, if_true]
        refine ⟨fun h => by simp at h, fun _ => ?_⟩
        have hall : allItemsL ((if (k.remove q i).1.isPrunable = true then QT.nil else (k.remove q i).1) :: ks)
            = (k.remove q i).1.allItems ++ allItemsL ks := by
          by_cases hp : (k.remove q i).1.isPrunable = true
          · simp [hp, allItemsL, QT.allItems, prunable_allItems _ hp]
          · simp [hp, allItemsL]
        rw [hall]
        simp only [allItemsL]
        exact (ihk.2 hr).append_right (allItemsL ks)
      · have hr' : (k.remove q i).2 = false := by simpa using hr
        simp only [hr', Bool.false_eq_true, if_false]
        refine ⟨fun h => by rw [ihs.1 h], fun h => ?_⟩
        simp only [allItemsL]
        exact List.perm_middle.symm.trans ((ihs.2 h).append_left k.allItems)
end

mutual
  /-- a removal of `i` does not change how often any other item is returned by any query -/
  theorem remove_query_count [DecidableEq ι] (q : Env) (i : ι) (q' : Env) (j : ι) (hj : j ≠ i) :
      ∀ t : QT ι, ((t.remove q i).1.query q').count j = (t.query q').count j
    | .nil => by simp [QT.remove]
    | .node env sz items subs => by
      have ih := removeL_query_count q i q' j hj subs
      simp only [QT.remove]
      by_cases hm : searchMatch env q = true
      · simp only [hm, if_true]
        by_cases hr : (removeL q i subs).2 = true
        · simp only [hr, if_true, QT.query]
          split
          · simp only [List.count_append, ih]
          · rfl
        · have hr' : (removeL q i subs).2 = false := by simpa using hr
          simp only [hr', Bool.false_eq_true, if_false]
          by_cases hi : i ∈ items
          · have hc : items.contains i = true := by simpa using hi
            simp only [hc, if_true, QT.query]
            split
            · simp only [List.count_append, List.count_erase_of_ne hj]
            · rfl
          · have hc : items.contains i = false := by simpa using hi
            simp only [hc, Bool.false_eq_true, if_false]
      · simp [hm]
  theorem removeL_query_count [DecidableEq ι] (q : Env) (i : ι) (q' : Env) (j : ι) (hj : j ≠ i) :
      ∀ ks : List (QT ι), (queryL q' (removeL q i ks).1).count j = (queryL q' ks).count j
    | [] => by simp [removeL]
    | k :: ks => by
      have ihk := remove_query_count q i q' j hj k
      have ihs := removeL_query_count q i q' j hj ks
      simp only [removeL]
      by_cases hr : (k.remove q i).2 = true
      · simp only [hr, if_true, queryL, List.count_append]
        by_cases hp : (k.remove q i).1.isPrunable = true
        · simp only [hp, if_true, QT.query, List.count_nil]
          rw [← ihk, prunable_query _ q' hp]; simp
        · simp [hp, ihk]
      · have hr' : (k.remove q i).2 = false := by simpa using hr
        simp only [hr', Bool.false_eq_true, if_false, queryL, List.count_append, ihs]
end

mutual
  /-- an item that the query with envelope `q` returns is found by `remove` with the same envelope -/
  theorem remove_finds [DecidableEq ι] (q : Env) (i : ι) :
      ∀ t : QT ι, i ∈ t.query q → (t.remove q i).2 = true
    | .nil => by simp [QT.query]
    | .node env sz items subs => by
      have ih := removeL_finds q i subs
      intro h
      simp only [QT.query] at h
      by_cases hm : searchMatch env q = true
      · simp only [hm, if_true, List.mem_append] at h
        simp only [QT.remove, hm, if_true]
        by_cases hr : (removeL q i subs).2 = true
        · simp [hr]
        · have hr' : (removeL q i subs).2 = false := by simpa using hr
          have hi : i ∈ items := by
            rcases h with h | h
            · exact h
            · exact absurd (ih h) hr
          have hc : items.contains i = true := by simpa using hi
          simp only [hr', Bool.false_eq_true, if_false, hc, if_true]
      · simp [hm] at h
  theorem removeL_finds [DecidableEq ι] (q : Env) (i : ι) :
      ∀ ks : List (QT ι), i ∈ queryL q ks → (removeL q i ks).2 = true
    | [] => by simp [queryL]
    | k :: ks => by
      have ihk := remove_finds q i k
      have ihs := removeL_finds q i ks
      intro h
      simp only [queryL, List.mem_append] at h
      simp only [removeL]
      by_cases hr : (k.remove q i).2 = true
      · simp [hr]
      · have hr' : (k.remove q i).2 = false := by simpa using hr
        simp only [hr', Bool.false_eq_true, if_false]
        rcases h with h | h
        · exact absurd (ihk h) hr
        · exact ihs h
end

/-! ### `getSubnodeIndex` and `createSubnode` -/

/-- what an index returned by `getSubnodeIndex` says about the envelope (closed half-planes through the centre) -/
def InQuadrant (e : Box) (cx cy : Int) : Nat → Prop
  | 0 => e.maxx ≤ cx ∧ e.maxy ≤ cy
  | 1 => e.minx ≥ cx ∧ e.maxy ≤ cy
  | 2 => e.maxx ≤ cx ∧ e.miny ≥ cy
  | 3 => e.minx ≥ cx ∧ e.miny ≥ cy
  | _ => False

theorem subnodeIndex_sound (e : Box) (cx cy : Int) (k : Nat) (h : subnodeIndex e cx cy = some k) :
    InQuadrant e cx cy k := by
  unfold subnodeIndex at h
  by_cases h1 : e.minx ≥ cx <;> by_cases h2 : e.miny ≥ cy <;> by_cases h3 : e.maxy ≤ cy <;>
    by_cases h4 : e.maxx ≤ cx <;> simp [h1, h2, h3, h4] at h <;> subst h <;> simp [InQuadrant, *]

/-- `-1` is returned exactly when the envelope lies in none of the four closed quadrants -/
theorem subnodeIndex_none (e : Box) (cx cy : Int) :
    subnodeIndex e cx cy = none ↔ ¬ ((e.minx ≥ cx ∨ e.maxx ≤ cx) ∧ (e.miny ≥ cy ∨ e.maxy ≤ cy)) := by
  unfold subnodeIndex
  by_cases h1 : e.minx ≥ cx <;> by_cases h2 : e.miny ≥ cy <;> by_cases h3 : e.maxy ≤ cy <;>
    by_cases h4 : e.maxx ≤ cx <;> simp [h1, h2, h3, h4]

/-- the subquad created for the index of an envelope contained in the quad contains that envelope -/
theorem subBox_covers (b e : Box) (k : Nat) (hc : Env.covers (some b) (some e) = true)
    (hk : subnodeIndex e (centre b).1 (centre b).2 = some k) :
    Env.covers (some (subBox b k)) (some e) = true := by
  have hq := subnodeIndex_sound e _ _ k hk
  simp only [Env.covers, Bool.and_eq_true, decide_eq_true_eq] at hc ⊢
  match k, hq with
  | 0, hq => simp only [InQuadrant] at hq; simp only [subBox]; omega
  | 1, hq => simp only [InQuadrant] at hq; simp only [subBox]; omega
  | 2, hq => simp only [InQuadrant] at hq; simp only [subBox]; omega
  | 3, hq => simp only [InQuadrant] at hq; simp only [subBox]; omega
  | _ + 4, hq => simp [InQuadrant] at hq

end GeosModel.Quad
