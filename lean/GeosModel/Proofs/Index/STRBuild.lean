import GeosModel.Proofs.Index.STRQuery
/-! `build()`: the built tree holds every inserted entry exactly once, its branch bounds cover their
descendants, and the loop ends with a single root (capacity ≥ 2). -/
namespace GeosModel.STR
variable {β ι : Type}

/-- what the theorems need from the bounds type: a union intersects whatever either part intersects -/
structure OpsLaw (ops : Ops β) : Prop where
  left : ∀ a b q, ops.inter a q = true → ops.inter (ops.union a b) q = true
  right : ∀ a b q, ops.inter b q = true → ops.inter (ops.union a b) q = true

/-! #### list plumbing -/

theorem leavesL_eq_flatMap (ks : List (Node β ι)) : leavesL ks = ks.flatMap Node.leaves := by
  induction ks with
  | nil => simp [leavesL]
  | cons k ks ih => simp [leavesL, ih]

theorem leavesL_perm {a b : List (Node β ι)} (h : a.Perm b) : (leavesL a).Perm (leavesL b) := by
  rw [leavesL_eq_flatMap, leavesL_eq_flatMap]; exact h.flatMap_right _

theorem leavesL_flatMap {γ : Type} (f : γ → List (Node β ι)) (l : List γ) :
    leavesL (l.flatMap f) = l.flatMap (fun x => leavesL (f x)) := by
  induction l with
  | nil => simp [leavesL]
  | cons x xs ih => simp [leavesL_append, ih]

theorem leavesL_flatten (L : List (List (Node β ι))) : leavesL L.flatten = L.flatMap leavesL := by
  induction L with
  | nil => simp [leavesL]
  | cons x xs ih => simp [leavesL_append, ih]

theorem flatMap_congr' {α γ : Type} (f g : α → List γ) :
    ∀ (l : List α), (∀ a ∈ l, f a = g a) → l.flatMap f = l.flatMap g
  | [], _ => rfl
  | a :: t, h => by
    simp only [List.flatMap_cons, h a (by simp), flatMap_congr' f g t (fun x hx => h x (by simp [hx]))]

theorem perm_flatMap_left {α γ : Type} (f g : α → List γ) :
    ∀ (l : List α), (∀ a ∈ l, (f a).Perm (g a)) → (l.flatMap f).Perm (l.flatMap g)
  | [], _ => by simp
  | a :: t, h => by
    simp only [List.flatMap_cons]
    exact (h a (by simp)).append (perm_flatMap_left f g t (fun x hx => h x (by simp [hx])))

theorem takeSlices_flatten {α : Type} (per : Nat) :
    ∀ (s : Nat) (l : List α), (takeSlices per s l).flatten = l.take (per * s)
  | 0, l => by simp [takeSlices]
  | s + 1, l => by
    simp only [takeSlices, List.flatten_cons, takeSlices_flatten per s, Nat.mul_succ]
    rw [Nat.add_comm, List.take_add]

theorem mem_of_mem_takeSlices {α : Type} (per : Nat) :
    ∀ (s : Nat) (l sl : List α), sl ∈ takeSlices per s l → ∀ x ∈ sl, x ∈ l
  | 0, _, _, h => by simp [takeSlices] at h
  | s + 1, l, sl, h => by
    simp only [takeSlices, List.mem_cons] at h
    intro x hx
    rcases h with rfl | h
    · exact List.mem_of_mem_take hx
    · exact List.mem_of_mem_drop (mem_of_mem_takeSlices per s _ sl h x hx)

theorem chunksF_flatten {α : Type} (cap : Nat) (hc : 0 < cap) :
    ∀ (f : Nat) (l : List α), l.length ≤ f → (chunksF cap f l).flatten = l
  | 0, l, h => by
    have : l = [] := List.length_eq_zero_iff.mp (Nat.le_zero.mp h)
    simp [chunksF, this]
  | f + 1, l, h => by
    simp only [chunksF]
    cases l with
    | nil => simp
    | cons a t =>
      simp only [List.isEmpty_cons, Bool.false_eq_true, if_false, List.flatten_cons]
      rw [chunksF_flatten cap hc f _ (by simp only [List.length_drop, List.length_cons] at *; omega)]
      simp

theorem chunks_flatten {α : Type} (cap : Nat) (hc : 0 < cap) (l : List α) : (chunks cap l).flatten = l :=
  chunksF_flatten cap hc _ l (Nat.le_refl _)

theorem chunksF_ne_nil {α : Type} (cap : Nat) (hc : 0 < cap) :
    ∀ (f : Nat) (l : List α), ∀ c ∈ chunksF cap f l, c ≠ []
  | 0, _, c, h => by simp [chunksF] at h
  | f + 1, l, c, h => by
    simp only [chunksF] at h
    cases l with
    | nil => simp at h
    | cons a t =>
      simp only [List.isEmpty_cons, Bool.false_eq_true, if_false, List.mem_cons] at h
      rcases h with rfl | h
      · cases cap with
        | zero => omega
        | succ n => simp
      · exact chunksF_ne_nil cap hc f _ c h

theorem mem_of_mem_chunksF {α : Type} (cap : Nat) :
    ∀ (f : Nat) (l c : List α), c ∈ chunksF cap f l → ∀ x ∈ c, x ∈ l
  | 0, _, _, h => by simp [chunksF] at h
  | f + 1, l, c, h => by
    simp only [chunksF] at h
    split at h
    · simp at h
    · simp only [List.mem_cons] at h
      intro x hx
      rcases h with rfl | h
      · exact List.mem_of_mem_take hx
      · exact List.mem_of_mem_drop (mem_of_mem_chunksF cap f _ c h x hx)

theorem chunksF_length_le {α : Type} (cap : Nat) (hc : 0 < cap) :
    ∀ (f : Nat) (l : List α), (chunksF cap f l).length ≤ l.length
  | 0, _ => by simp [chunksF]
  | f + 1, l => by
    simp only [chunksF]
    cases l with
    | nil => simp
    | cons a t =>
      simp only [List.isEmpty_cons, Bool.false_eq_true, if_false, List.length_cons]
      have := chunksF_length_le cap hc f ((a :: t).drop cap)
      simp only [List.length_drop, List.length_cons] at this
      omega

theorem chunksF_length_lt {α : Type} (cap : Nat) (hc : 2 ≤ cap) (f : Nat) (l : List α) (hl : 2 ≤ l.length) :
    (chunksF cap f l).length < l.length := by
  cases f with
  | zero => simp [chunksF]; omega
  | succ f =>
    simp only [chunksF]
    cases l with
    | nil => simp at hl
    | cons a t =>
      simp only [List.isEmpty_cons, Bool.false_eq_true, if_false, List.length_cons]
      have := chunksF_length_le cap (by omega) f ((a :: t).drop cap)
      simp only [List.length_drop, List.length_cons] at this hl
      omega

theorem chunksF_ne_nil_of {α : Type} (cap : Nat) (l : List α) (hl : l ≠ []) : chunks cap l ≠ [] := by
  unfold chunks
  cases l with
  | nil => exact absurd rfl hl
  | cons a t => simp [chunksF]

/-! #### branch creation -/

theorem mkBranch_of_ne_nil (ops : Ops β) (c : List (Node β ι)) (h : c ≠ []) :
    ∃ b, mkBranch ops c = [.branch b c] ∧ boundsOf ops c = some b := by
  cases c with
  | nil => exact absurd rfl h
  | cons k ks => exact ⟨ks.foldl (fun acc c => ops.union acc c.bounds) k.bounds, by simp [mkBranch, boundsOf], rfl⟩

theorem leavesL_mkBranch (ops : Ops β) (c : List (Node β ι)) (h : c ≠ []) :
    leavesL (mkBranch ops c) = leavesL c := by
  obtain ⟨b, hb, _⟩ := mkBranch_of_ne_nil ops c h
  simp [hb, leavesL, Node.leaves]

theorem mkBranch_length_le (ops : Ops β) (c : List (Node β ι)) : (mkBranch ops c).length ≤ 1 := by
  unfold mkBranch; split <;> simp

theorem flatMap_mkBranch_length_le (ops : Ops β) (L : List (List (Node β ι))) :
    (L.flatMap (mkBranch ops)).length ≤ L.length := by
  induction L with
  | nil => simp
  | cons c cs ih =>
    simp only [List.flatMap_cons, List.length_append, List.length_cons]
    have := mkBranch_length_le ops c
    omega

theorem parentsOfSlice_leaves (ops : Ops β) (cap : Nat) (hc : 0 < cap)
    (sortY : List (Node β ι) → List (Node β ι)) (hY : ∀ l, (sortY l).Perm l) (sl : List (Node β ι)) :
    (leavesL (parentsOfSlice ops cap sortY sl)).Perm (leavesL sl) := by
  unfold parentsOfSlice
  rw [leavesL_flatMap]
  have h1 : (chunks cap (sortY sl)).flatMap (fun c => leavesL (mkBranch ops c))
      = (chunks cap (sortY sl)).flatMap leavesL := by
    apply flatMap_congr'
    intro c hcm
    exact leavesL_mkBranch ops c (chunksF_ne_nil cap hc _ _ c hcm)
  rw [h1, ← leavesL_flatten, chunks_flatten cap hc]
  exact leavesL_perm (hY sl)

/-! #### arithmetic of `sliceCount` / `sliceCapacity` -/

theorem le_ceilDiv_mul (n s : Nat) (hs : 0 < s) : n ≤ ceilDiv n s * s := by
  unfold ceilDiv
  have h1 := Nat.div_add_mod (n + s - 1) s
  have h2 := Nat.mod_lt (n + s - 1) hs
  rw [Nat.mul_comm] at h1
  omega

theorem ceilDiv_pos (n s : Nat) (hn : 0 < n) (hs : 0 < s) : 0 < ceilDiv n s := by
  unfold ceilDiv
  exact Nat.div_pos (by omega) hs

theorem ceilSqrtAux_le (n : Nat) : ∀ (f r : Nat), ceilSqrtAux n f r ≤ r + f
  | 0, r => by simp [ceilSqrtAux]
  | f + 1, r => by
    simp only [ceilSqrtAux]
    split
    · omega
    · have := ceilSqrtAux_le n f (r + 1); omega

theorem ceilSqrtAux_ge (n : Nat) : ∀ (f r : Nat), r ≤ ceilSqrtAux n f r
  | 0, r => by simp [ceilSqrtAux]
  | f + 1, r => by
    simp only [ceilSqrtAux]
    split
    · omega
    · have := ceilSqrtAux_ge n f (r + 1); omega

theorem ceilSqrt_pos (m : Nat) (hm : 0 < m) : 0 < ceilSqrt m := by
  unfold ceilSqrt
  obtain ⟨k, rfl⟩ : ∃ k, m = k + 1 := ⟨m - 1, by omega⟩
  simp only [ceilSqrtAux]
  have := ceilSqrtAux_ge (k + 1) k 1
  simp only [Nat.mul_zero, Nat.le_zero_eq, Nat.add_one_ne_zero, if_false, Nat.zero_add]
  omega

theorem ceilSqrt_le (m : Nat) : ceilSqrt m ≤ m := by
  unfold ceilSqrt
  have := ceilSqrtAux_le m m 0
  omega

/-- `ceilSqrt` really is the ceiling of the square root -/
theorem ceilSqrtAux_spec (n : Nat) : ∀ (f r : Nat), (∀ r' < r, r' * r' < n) → n ≤ (r + f) * (r + f) →
    n ≤ ceilSqrtAux n f r * ceilSqrtAux n f r ∧ ∀ r' < ceilSqrtAux n f r, r' * r' < n
  | 0, r, hlt, hle => by simpa [ceilSqrtAux] using ⟨hle, hlt⟩
  | f + 1, r, hlt, hle => by
    simp only [ceilSqrtAux]
    split
    · rename_i h; exact ⟨h, hlt⟩
    · rename_i h
      apply ceilSqrtAux_spec n f (r + 1)
      · intro r' hr'
        by_cases h' : r' < r
        · exact hlt r' h'
        · have : r' = r := by omega
          subst this; omega
      · have : r + 1 + f = r + (f + 1) := by omega
        rw [this]; exact hle

theorem ceilSqrt_spec (n : Nat) : n ≤ ceilSqrt n * ceilSqrt n ∧ ∀ r < ceilSqrt n, r * r < n := by
  unfold ceilSqrt
  apply ceilSqrtAux_spec n n 0 (by intro r' h; omega)
  simp only [Nat.zero_add]
  exact Nat.le_mul_self n

theorem sliceCount_pos (cap n : Nat) (hc : 0 < cap) (hn : 0 < n) : 0 < sliceCount cap n :=
  ceilSqrt_pos _ (ceilDiv_pos n cap hn hc)

theorem sliceCount_lt (cap n : Nat) (hc : 2 ≤ cap) (hn : 2 ≤ n) : sliceCount cap n < n := by
  unfold sliceCount
  have h1 := ceilSqrt_le (ceilDiv n cap)
  have h2 : ceilDiv n cap < n := by
    unfold ceilDiv
    rw [Nat.div_lt_iff_lt_mul (by omega)]
    obtain ⟨c, rfl⟩ : ∃ c, cap = c + 2 := ⟨cap - 2, by omega⟩
    obtain ⟨k, rfl⟩ : ∃ k, n = k + 2 := ⟨n - 2, by omega⟩
    simp only [Nat.mul_add, Nat.add_mul]
    omega
  omega

theorem sliceCapacity_ge_two (n s : Nat) (hs : 0 < s) (hsn : s < n) : 2 ≤ sliceCapacity n s := by
  unfold sliceCapacity ceilDiv
  rw [Nat.le_div_iff_mul_le hs]
  omega

/-! #### one level -/

theorem takeSlices_flatMap_length_le {α γ : Type} (g : List α → List γ) (hg : ∀ sl, (g sl).length ≤ sl.length)
    (per : Nat) : ∀ (s : Nat) (l : List α), ((takeSlices per s l).flatMap g).length ≤ l.length
  | 0, l => by simp [takeSlices]
  | s + 1, l => by
    simp only [takeSlices, List.flatMap_cons, List.length_append]
    have h1 := hg (l.take per)
    have h2 := takeSlices_flatMap_length_le g hg per s (l.drop per)
    have h3 : (l.take per).length + (l.drop per).length = l.length := by
      rw [← List.length_append, List.take_append_drop]
    omega

theorem takeSlices_flatMap_length_lt {α γ : Type} (g : List α → List γ) (hg : ∀ sl, (g sl).length ≤ sl.length)
    (per s : Nat) (hs : 0 < s) (l : List α) (hfirst : (g (l.take per)).length < (l.take per).length) :
    ((takeSlices per s l).flatMap g).length < l.length := by
  cases s with
  | zero => omega
  | succ s =>
    simp only [takeSlices, List.flatMap_cons, List.length_append]
    have h2 := takeSlices_flatMap_length_le g hg per s (l.drop per)
    have h3 : (l.take per).length + (l.drop per).length = l.length := by
      rw [← List.length_append, List.take_append_drop]
    omega

theorem parentsOfSlice_length_le (ops : Ops β) (cap : Nat) (hc : 0 < cap)
    (sortY : List (Node β ι) → List (Node β ι)) (hY : ∀ l, (sortY l).Perm l) (sl : List (Node β ι)) :
    (parentsOfSlice ops cap sortY sl).length ≤ sl.length := by
  unfold parentsOfSlice
  have h1 := flatMap_mkBranch_length_le ops (chunks cap (sortY sl))
  have h2 := chunksF_length_le cap hc (sortY sl).length (sortY sl)
  have h3 := (hY sl).length_eq
  unfold chunks at h1
  unfold chunks
  omega

theorem parentsOfSlice_length_lt (ops : Ops β) (cap : Nat) (hc : 2 ≤ cap)
    (sortY : List (Node β ι) → List (Node β ι)) (hY : ∀ l, (sortY l).Perm l) (sl : List (Node β ι))
    (hl : 2 ≤ sl.length) : (parentsOfSlice ops cap sortY sl).length < sl.length := by
  unfold parentsOfSlice
  have h1 := flatMap_mkBranch_length_le ops (chunks cap (sortY sl))
  have h3 := (hY sl).length_eq
  have h2 := chunksF_length_lt cap hc (sortY sl).length (sortY sl) (by omega)
  unfold chunks at h1
  unfold chunks
  omega



theorem createParents_leaves (ops : Ops β) (cap : Nat) (hc : 0 < cap)
    (sortX sortY : List (Node β ι) → List (Node β ι))
    (hX : ∀ l, (sortX l).Perm l) (hY : ∀ l, (sortY l).Perm l) (ns : List (Node β ι)) :
    (leavesL (createParents ops cap sortX sortY ns)).Perm (leavesL ns) := by
  cases hns : ns with
  | nil =>
    have hx : sortX [] = [] := List.Perm.eq_nil (hX [])
    have hlen := takeSlices_flatMap_length_le (parentsOfSlice ops cap sortY)
      (parentsOfSlice_length_le ops cap hc sortY hY)
      (sliceCapacity 0 (sliceCount cap 0)) (sliceCount cap 0) (sortX ([] : List (Node β ι)))
    rw [hx] at hlen
    have : createParents ops cap sortX sortY ([] : List (Node β ι)) = [] := by
      unfold createParents
      simp only [List.length_nil, hx]
      exact List.length_eq_zero_iff.mp (Nat.le_zero.mp hlen)
    rw [this]
  | cons a t =>
    rw [← hns]
    have hn : 0 < ns.length := by rw [hns]; simp
    unfold createParents
    simp only
    rw [leavesL_flatMap]
    refine List.Perm.trans (perm_flatMap_left _ _ _ (fun sl _ => parentsOfSlice_leaves ops cap hc sortY hY sl)) ?_
    rw [← leavesL_flatten, takeSlices_flatten]
    have hs := sliceCount_pos cap ns.length hc hn
    have hcover := le_ceilDiv_mul ns.length (sliceCount cap ns.length) hs
    rw [List.take_of_length_le (by rw [(hX ns).length_eq]; exact hcover)]
    exact leavesL_perm (hX ns)

/-- each level has strictly fewer nodes than the one below (so `build()` terminates) -/
theorem createParents_length_lt (ops : Ops β) (cap : Nat) (hc : 2 ≤ cap)
    (sortX sortY : List (Node β ι) → List (Node β ι))
    (hX : ∀ l, (sortX l).Perm l) (hY : ∀ l, (sortY l).Perm l) (ns : List (Node β ι)) (hn : 2 ≤ ns.length) :
    (createParents ops cap sortX sortY ns).length < ns.length := by
  unfold createParents
  simp only
  have hs := sliceCount_pos cap ns.length (by omega) (by omega)
  have hlt := sliceCount_lt cap ns.length hc hn
  have hper := sliceCapacity_ge_two ns.length _ hs hlt
  have hlen := (hX ns).length_eq
  have := takeSlices_flatMap_length_lt (parentsOfSlice ops cap sortY)
    (parentsOfSlice_length_le ops cap (by omega) sortY hY)
    (sliceCapacity ns.length (sliceCount cap ns.length)) (sliceCount cap ns.length) hs (sortX ns)
    (by
      apply parentsOfSlice_length_lt ops cap hc sortY hY
      rw [List.length_take]
      omega)
  omega

theorem parentsOfSlice_ne_nil (ops : Ops β) (cap : Nat) (hc : 0 < cap)
    (sortY : List (Node β ι) → List (Node β ι)) (hY : ∀ l, (sortY l).Perm l) (sl : List (Node β ι))
    (hl : sl ≠ []) : parentsOfSlice ops cap sortY sl ≠ [] := by
  unfold parentsOfSlice
  have hne : sortY sl ≠ [] := fun h => hl (by have := hY sl; rw [h] at this; exact this.symm.eq_nil)
  have hch := chunksF_ne_nil_of cap (sortY sl) hne
  cases hcs : chunks cap (sortY sl) with
  | nil => exact absurd hcs hch
  | cons c cs =>
    have hcne : c ≠ [] := chunksF_ne_nil cap hc _ _ c (by unfold chunks at hcs; rw [hcs]; simp)
    obtain ⟨b, hb, _⟩ := mkBranch_of_ne_nil ops c hcne
    simp [hb]

theorem createParents_ne_nil (ops : Ops β) (cap : Nat) (hc : 0 < cap)
    (sortX sortY : List (Node β ι) → List (Node β ι))
    (hX : ∀ l, (sortX l).Perm l) (hY : ∀ l, (sortY l).Perm l) (ns : List (Node β ι)) (hn : ns ≠ []) :
    createParents ops cap sortX sortY ns ≠ [] := by
  have hlen : 0 < ns.length := List.length_pos_iff.mpr hn
  unfold createParents
  simp only
  have hs := sliceCount_pos cap ns.length hc hlen
  obtain ⟨s, hs'⟩ : ∃ s, sliceCount cap ns.length = s + 1 := ⟨sliceCount cap ns.length - 1, by omega⟩
  rw [hs']
  simp only [takeSlices, List.flatMap_cons]
  have hper : 0 < sliceCapacity ns.length (s + 1) := ceilDiv_pos _ _ hlen (by omega)
  have hx : sortX ns ≠ [] := fun h => hn (by have := hX ns; rw [h] at this; exact this.symm.eq_nil)
  have : (sortX ns).take (sliceCapacity ns.length (s + 1)) ≠ [] := by
    cases hsx : sortX ns with
    | nil => exact absurd hsx hx
    | cons a t =>
      obtain ⟨p, hp⟩ : ∃ p, sliceCapacity ns.length (s + 1) = p + 1 := ⟨_, (Nat.succ_pred_eq_of_pos hper).symm⟩
      rw [hp]; simp
  have := parentsOfSlice_ne_nil ops cap hc sortY hY _ this
  intro h
  simp only [List.append_eq_nil_iff] at h
  exact this h.1

/-! #### covering -/

theorem CoversL_iff_forall (ops : Ops β) (ns : List (Node β ι)) :
    CoversL ops ns ↔ ∀ k ∈ ns, k.Covers ops := by
  induction ns with
  | nil => simp [CoversL]
  | cons k ks ih => simp [CoversL, ih]

theorem Node.bcover (ops : Ops β) (k : Node β ι) (h : k.Covers ops) :
    ∀ e ∈ k.leaves, ∀ q, ops.inter e.b q = true → ops.inter k.bounds q = true := by
  cases k with
  | leaf e0 =>
    intro e he q hq
    simp only [Node.leaves, List.mem_singleton] at he
    subst he; exact hq
  | branch b ks =>
    simp only [Node.Covers] at h
    exact h.1

theorem foldl_union_covers (ops : Ops β) (law : OpsLaw ops) (q : β) :
    ∀ (ks : List (Node β ι)) (init : β),
      (ops.inter init q = true → ops.inter (ks.foldl (fun acc c => ops.union acc c.bounds) init) q = true) ∧
      (∀ k ∈ ks, ops.inter k.bounds q = true →
        ops.inter (ks.foldl (fun acc c => ops.union acc c.bounds) init) q = true)
  | [], init => by simp
  | k :: ks, init => by
    have ih := foldl_union_covers ops law q ks (ops.union init k.bounds)
    refine ⟨fun hi => ih.1 (law.left _ _ _ hi), ?_⟩
    intro k' hk' hq
    simp only [List.mem_cons] at hk'
    rcases hk' with rfl | hk'
    · exact ih.1 (law.right _ _ _ hq)
    · exact ih.2 k' hk' hq

theorem mem_leavesL (ks : List (Node β ι)) (e : Entry β ι) :
    e ∈ leavesL ks ↔ ∃ k ∈ ks, e ∈ k.leaves := by
  rw [leavesL_eq_flatMap]; simp [List.mem_flatMap]

theorem mkBranch_covers (ops : Ops β) (law : OpsLaw ops) (c : List (Node β ι))
    (hc : ∀ k ∈ c, k.Covers ops) : ∀ k ∈ mkBranch ops c, k.Covers ops := by
  intro k hk
  cases c with
  | nil => simp [mkBranch, boundsOf] at hk
  | cons k0 ks =>
    simp only [mkBranch, boundsOf, List.mem_singleton] at hk
    subst hk
    simp only [Node.Covers]
    refine ⟨?_, (CoversL_iff_forall ops _).mpr hc⟩
    intro e he q hq
    obtain ⟨k, hkm, hek⟩ := (mem_leavesL _ e).mp he
    have hb := Node.bcover ops k (hc k hkm) e hek q hq
    have hf := foldl_union_covers ops law q ks k0.bounds
    simp only [List.mem_cons] at hkm
    rcases hkm with rfl | hkm
    · exact hf.1 hb
    · exact hf.2 k hkm hb

theorem createParents_covers (ops : Ops β) (law : OpsLaw ops) (cap : Nat)
    (sortX sortY : List (Node β ι) → List (Node β ι))
    (hX : ∀ l, (sortX l).Perm l) (hY : ∀ l, (sortY l).Perm l) (ns : List (Node β ι))
    (h : ∀ k ∈ ns, k.Covers ops) : ∀ k ∈ createParents ops cap sortX sortY ns, k.Covers ops := by
  intro k hk
  unfold createParents at hk
  simp only [List.mem_flatMap] at hk
  obtain ⟨sl, hsl, hk⟩ := hk
  unfold parentsOfSlice at hk
  simp only [List.mem_flatMap] at hk
  obtain ⟨c, hcm, hk⟩ := hk
  apply mkBranch_covers ops law c _ k hk
  intro k' hk'
  apply h
  have h1 := mem_of_mem_chunksF cap _ _ c hcm k' hk'
  have h2 := (hY sl).mem_iff.mp h1
  have h3 := mem_of_mem_takeSlices _ _ _ sl hsl k' h2
  exact (hX ns).mem_iff.mp h3

/-! #### the whole loop -/

theorem buildLoop_leaves (ops : Ops β) (cap : Nat) (hc : 0 < cap)
    (sortX sortY : List (Node β ι) → List (Node β ι))
    (hX : ∀ l, (sortX l).Perm l) (hY : ∀ l, (sortY l).Perm l) :
    ∀ (f : Nat) (ns : List (Node β ι)), (leavesL (buildLoop ops cap sortX sortY f ns)).Perm (leavesL ns)
  | 0, ns => by simp [buildLoop]
  | f + 1, ns => by
    simp only [buildLoop]
    split
    · exact List.Perm.refl _
    · exact (buildLoop_leaves ops cap hc sortX sortY hX hY f _).trans
        (createParents_leaves ops cap hc sortX sortY hX hY ns)

theorem buildLoop_covers (ops : Ops β) (law : OpsLaw ops) (cap : Nat)
    (sortX sortY : List (Node β ι) → List (Node β ι))
    (hX : ∀ l, (sortX l).Perm l) (hY : ∀ l, (sortY l).Perm l) :
    ∀ (f : Nat) (ns : List (Node β ι)), (∀ k ∈ ns, k.Covers ops) →
      ∀ k ∈ buildLoop ops cap sortX sortY f ns, k.Covers ops
  | 0, ns, h => by simpa [buildLoop] using h
  | f + 1, ns, h => by
    simp only [buildLoop]
    split
    · exact h
    · exact buildLoop_covers ops law cap sortX sortY hX hY f _
        (createParents_covers ops law cap sortX sortY hX hY ns h)

/-- with capacity ≥ 2 the loop, given fuel = number of nodes, ends with exactly one top-level node -/
theorem buildLoop_single (ops : Ops β) (cap : Nat) (hc : 2 ≤ cap)
    (sortX sortY : List (Node β ι) → List (Node β ι))
    (hX : ∀ l, (sortX l).Perm l) (hY : ∀ l, (sortY l).Perm l) :
    ∀ (f : Nat) (ns : List (Node β ι)), ns ≠ [] → ns.length ≤ f + 1 →
      (buildLoop ops cap sortX sortY f ns).length = 1
  | 0, ns, hne, hl => by
    have := List.length_pos_iff.mpr hne
    simp only [buildLoop]; omega
  | f + 1, ns, hne, hl => by
    simp only [buildLoop]
    have hpos := List.length_pos_iff.mpr hne
    split
    · omega
    · rename_i hgt
      have hlt := createParents_length_lt ops cap hc sortX sortY hX hY ns (by omega)
      exact buildLoop_single ops cap hc sortX sortY hX hY f _
        (createParents_ne_nil ops cap (by omega) sortX sortY hX hY ns hne) (by omega)

end GeosModel.STR
