import GeosModel.Proofs.Index.STRBuild
/-! `build()` with node capacity 1: every level has exactly as many nodes as the one below, so the loop
`while (nodesWithoutParents > 1)` of `TemplateSTRtree::build` / `treeSize` never ends.  (The hypothesis `2 ≤ cap`
of `createParents_length_lt` is necessary; `GEOSSTRtree_create_r` refuses a smaller capacity since 6546757fa.) -/
namespace GeosModel.STR
variable {β ι : Type}

theorem chunksF_one_length {α : Type} : ∀ (f : Nat) (l : List α), l.length ≤ f → (chunksF 1 f l).length = l.length
  | 0, l, h => by
    have : l = [] := List.length_eq_zero_iff.mp (Nat.le_zero.mp h)
    simp [chunksF, this]
  | f + 1, l, h => by
    simp only [chunksF]
    cases l with
    | nil => simp
    | cons a t =>
      simp only [List.isEmpty_cons, Bool.false_eq_true, if_false, List.length_cons, List.drop_succ_cons, List.drop_zero]
      rw [chunksF_one_length f t (by simp only [List.length_cons] at h; omega)]

theorem flatMap_mkBranch_length_eq (ops : Ops β) (L : List (List (Node β ι))) (hne : ∀ c ∈ L, c ≠ []) :
    (L.flatMap (mkBranch ops)).length = L.length := by
  induction L with
  | nil => simp
  | cons c cs ih =>
    simp only [List.flatMap_cons, List.length_append, List.length_cons]
    obtain ⟨b, hb, _⟩ := mkBranch_of_ne_nil ops c (hne c (by simp))
    rw [hb, ih (fun x hx => hne x (by simp [hx]))]
    simp; omega

theorem parentsOfSlice_one_length (ops : Ops β) (sortY : List (Node β ι) → List (Node β ι))
    (hY : ∀ l, (sortY l).Perm l) (sl : List (Node β ι)) : (parentsOfSlice ops 1 sortY sl).length = sl.length := by
  unfold parentsOfSlice chunks
  rw [flatMap_mkBranch_length_eq ops _ (chunksF_ne_nil 1 (by omega) _ _), chunksF_one_length _ _ (Nat.le_refl _)]
  exact (hY sl).length_eq

theorem takeSlices_flatMap_length_eq {α γ : Type} (g : List α → List γ) (hg : ∀ sl, (g sl).length = sl.length)
    (per : Nat) : ∀ (s : Nat) (l : List α), ((takeSlices per s l).flatMap g).length = (l.take (per * s)).length
  | 0, l => by simp [takeSlices]
  | s + 1, l => by
    simp only [takeSlices, List.flatMap_cons, List.length_append, hg,
      takeSlices_flatMap_length_eq g hg per s (l.drop per), List.length_take, List.length_drop, Nat.mul_succ]
    omega

/-- with node capacity 1 a level of parents has exactly as many nodes as the level below -/
theorem createParents_one_length (ops : Ops β) (sortX sortY : List (Node β ι) → List (Node β ι))
    (hX : ∀ l, (sortX l).Perm l) (hY : ∀ l, (sortY l).Perm l) (ns : List (Node β ι)) :
    (createParents ops 1 sortX sortY ns).length = ns.length := by
  unfold createParents
  simp only
  rw [takeSlices_flatMap_length_eq _ (parentsOfSlice_one_length ops sortY hY), List.length_take, (hX ns).length_eq]
  by_cases hn : ns.length = 0
  · omega
  · have hs := sliceCount_pos 1 ns.length (by omega) (by omega)
    have hcover := le_ceilDiv_mul ns.length (sliceCount 1 ns.length) hs
    unfold sliceCapacity
    omega

/-- …so the build loop makes no progress, whatever the fuel -/
theorem buildLoop_one_length (ops : Ops β) (sortX sortY : List (Node β ι) → List (Node β ι))
    (hX : ∀ l, (sortX l).Perm l) (hY : ∀ l, (sortY l).Perm l) :
    ∀ (fuel : Nat) (ns : List (Node β ι)), (buildLoop ops 1 sortX sortY fuel ns).length = ns.length
  | 0, ns => rfl
  | f + 1, ns => by
    simp only [buildLoop]
    split
    · rfl
    · rw [buildLoop_one_length ops sortX sortY hX hY f, createParents_one_length ops sortX sortY hX hY]

end GeosModel.STR
