import GeosModel.Proofs.Distance.RealBridge
import GeosModel.Proofs.Kernel.SegSegCorrect
/-!
# C08 — `Distance::segmentToSegment` read in the real numbers

`segSegR` is the decision skeleton of `Distance::segmentToSegment` over `ℝ` (degenerate segments first, then the envelope test,
the parallel test `denom = 0` and the parameter tests `r, s ∈ [0,1]`, the minimum of four point–segment distances when no
intersection is reported, 0 otherwise).  `segSegR_eq`: on integer points it is the square root of the exact rational `segSeg2`,
whose contact test is the exact predicate `Kernel.segRel`.  The two tests differ (the C++ reports "no intersection" for parallel
segments even when they overlap); they give the same value because

* if the C++ test reports an intersection, `segRel` is not `disjoint` (`segRel_of_cxx_intersection`), and
* if `segRel` is not `disjoint` but the C++ test reports none, an endpoint of one segment lies on the other, so one of the four
  point–segment distances is 0 (`touch_of_not_disjoint`, `pointSeg2_zero_of_onSegment`).
-/
namespace GeosModel.Distance
open GeosModel.Kernel GeosModel.SegSeg

/-! ### exact facts about `segRel` and `pointSeg2` -/

def Touch (a b c d : Pt) : Prop :=
  onSegment a b c = true ∨ onSegment a b d = true ∨ onSegment c d a = true ∨ onSegment c d b = true

/-- contact is a proper crossing or an endpoint of one segment on the other -/
theorem touch_of_not_disjoint (a b c d : Pt) (h : segRel a b c d ≠ .disjoint) :
    (Opp (det a b c) (det a b d) ∧ Opp (det c d a) (det c d b)) ∨ Touch a b c d := by
  rw [segRel_det] at h
  by_cases hA : Opp (det a b c) (det a b d) ∧ Opp (det c d a) (det c d b)
  · exact Or.inl hA
  · right
    simp only [hA, if_false] at h
    by_cases hB : det a b c = 0 ∧ det a b d = 0 ∧ det c d a = 0 ∧ det c d b = 0
    · simp only [hB, and_self, if_true] at h
      by_cases hC : segCands a b c d = []
      · simp [hC] at h
      · exact segCands_ne_nil_env hC
    · simp only [hB, if_false] at h
      by_cases hT : Touch a b c d
      · exact hT
      · unfold Touch at hT; simp [hT] at h

theorem not_disjoint_of_proper (a b c d : Pt) (h : Opp (det a b c) (det a b d) ∧ Opp (det c d a) (det c d b)) :
    segRel a b c d ≠ .disjoint := by
  rw [segRel_det]; simp [h]

theorem not_disjoint_of_touch (a b c d : Pt) (h : Touch a b c d) : segRel a b c d ≠ .disjoint := by
  rw [segRel_det]
  by_cases hA : Opp (det a b c) (det a b d) ∧ Opp (det c d a) (det c d b)
  · simp [hA]
  · simp only [hA, if_false]
    by_cases hB : det a b c = 0 ∧ det a b d = 0 ∧ det c d a = 0 ∧ det c d b = 0
    · simp only [hB, and_self, if_true]
      have hne : segCands a b c d ≠ [] := by
        intro hnil
        have hmem : ∀ x, x ∉ segCands a b c d := by simp [hnil]
        unfold Touch at h
        rcases h with h | h | h | h
        · exact hmem c ((mem_segCands a b c d c).mpr (Or.inl ⟨Or.inl rfl, h⟩))
        · exact hmem d ((mem_segCands a b c d d).mpr (Or.inl ⟨Or.inr rfl, h⟩))
        · exact hmem a ((mem_segCands a b c d a).mpr (Or.inr ⟨Or.inl rfl, h⟩))
        · exact hmem b ((mem_segCands a b c d b).mpr (Or.inr ⟨Or.inr rfl, h⟩))
      simp only [hne, if_false]
      split <;> simp
    · simp only [hB, if_false]
      unfold Touch at h
      simp [h]

/-- a point on the closed segment has point–segment distance 0 -/
theorem pointSeg2_zero_of_onSegment (p a b : Pt) (h : onSegment a b p = true) : (pointSeg2 p a b).num = 0 := by
  rw [onSegment_iff, inBox_iff] at h
  obtain ⟨hd, hb⟩ := h
  -- u = b − a, v = p − a: collinear, and v lies between 0 and u in both ordinates
  have hdet : (b.x - a.x) * (p.y - a.y) = (b.y - a.y) * (p.x - a.x) := by unfold det at hd; omega
  have hx : 0 ≤ (b.x - a.x) * (p.x - a.x) := by
    rcases Int.le_total a.x b.x with h1 | h1
    · exact Int.mul_nonneg (by omega) (by omega)
    · have := Int.mul_nonneg (a := a.x - b.x) (b := a.x - p.x) (by omega) (by omega); nlinarith
  have hy : 0 ≤ (b.y - a.y) * (p.y - a.y) := by
    rcases Int.le_total a.y b.y with h1 | h1
    · exact Int.mul_nonneg (by omega) (by omega)
    · have := Int.mul_nonneg (a := a.y - b.y) (b := a.y - p.y) (by omega) (by omega); nlinarith
  have hx' : 0 ≤ (b.x - a.x) * (b.x - p.x) := by
    rcases Int.le_total a.x b.x with h1 | h1
    · exact Int.mul_nonneg (by omega) (by omega)
    · have := Int.mul_nonneg (a := a.x - b.x) (b := p.x - b.x) (by omega) (by omega); nlinarith
  have hy' : 0 ≤ (b.y - a.y) * (b.y - p.y) := by
    rcases Int.le_total a.y b.y with h1 | h1
    · exact Int.mul_nonneg (by omega) (by omega)
    · have := Int.mul_nonneg (a := a.y - b.y) (b := p.y - b.y) (by omega) (by omega); nlinarith
  unfold pointSeg2
  split
  · rename_i hl
    split
    · -- dot ≤ 0: both non-negative summands vanish, so p = a
      rename_i ht
      simp only [Q.ofInt]
      have e1 : (b.x - a.x) * (p.x - a.x) = 0 := by unfold dot at ht; omega
      have e2 : (b.y - a.y) * (p.y - a.y) = 0 := by unfold dot at ht; omega
      have px : p.x = a.x := by
        rcases Int.mul_eq_zero.mp e1 with h0 | h0
        · omega
        · omega
      have py : p.y = a.y := by
        rcases Int.mul_eq_zero.mp e2 with h0 | h0
        · omega
        · omega
      simp [sqDist, px, py]
    · split
      · -- dot ≥ L²: p = b
        rename_i ht
        simp only [Q.ofInt]
        have hsum : (b.x - a.x) * (b.x - p.x) + (b.y - a.y) * (b.y - p.y) ≤ 0 := by
          unfold dot sqDist at ht; nlinarith
        have e1 : (b.x - a.x) * (b.x - p.x) = 0 := by omega
        have e2 : (b.y - a.y) * (b.y - p.y) = 0 := by omega
        have px : p.x = b.x := by
          rcases Int.mul_eq_zero.mp e1 with h0 | h0
          · omega
          · omega
        have py : p.y = b.y := by
          rcases Int.mul_eq_zero.mp e2 with h0 | h0
          · omega
          · omega
        simp [sqDist, px, py]
      · simp [hd]
  · rename_i hl
    simp only [Q.ofInt]
    have h0 := sqDist_nonneg a b
    have hz : sqDist a b = 0 := by omega
    have := sq_sum_zero (a.x - b.x) (a.y - b.y) (by unfold sqDist at hz; omega)
    simp only [sqDist]
    have px : p.x = a.x := by omega
    have py : p.y = a.y := by omega
    simp [px, py]

/-- the distance to the segment is at most the distance to either end -/
theorem pointSeg2_le_ends (p a b : Pt) :
    Q.le (pointSeg2 p a b) (Q.ofInt (sqDist p a)) = true ∧ Q.le (pointSeg2 p a b) (Q.ofInt (sqDist p b)) = true := by
  have h0 := pointSeg2_le p a b 0 1 (by decide) (by decide) (by decide)
  have h1 := pointSeg2_le p a b 1 1 (by decide) (by decide) (by decide)
  have e0 : paramDist2 p a b 0 1 = sqDist p a := by simp [paramDist2, sqDist]
  have e1 : paramDist2 p a b 1 1 = sqDist p b := by simp only [paramDist2, sqDist]; ring
  rw [e0] at h0; rw [e1] at h1
  simp only [Q.le, Q.ofInt, decide_eq_true_eq, Int.mul_one] at h0 h1 ⊢
  exact ⟨h0, h1⟩

/-! ### the real reading -/

theorem toReal_qmin (x y : Q) : (Q.min x y).toReal = min x.toReal y.toReal := by
  unfold Q.min
  by_cases h : Q.le x y = true
  · simp only [h, if_true]; exact (min_eq_left ((Q.le_iff_toReal x y).mp h)).symm
  · simp only [h]
    have h' : Q.le y x = true := by
      rcases Q.le_total x y with h1 | h1
      · exact absurd h1 h
      · exact h1
    exact (min_eq_right ((Q.le_iff_toReal y x).mp h')).symm

theorem sqrt_min (x y : ℝ) : Real.sqrt (min x y) = min (Real.sqrt x) (Real.sqrt y) := by
  rcases le_total x y with h | h
  · rw [min_eq_left h, min_eq_left (Real.sqrt_le_sqrt h)]
  · rw [min_eq_right h, min_eq_right (Real.sqrt_le_sqrt h)]

/-- `√(min4 …)` is the nested minimum the C++ writes -/
theorem sqrt_min4 (w x y z : Q) :
    Real.sqrt (min4 w x y z).toReal =
      min (Real.sqrt w.toReal) (min (Real.sqrt x.toReal) (min (Real.sqrt y.toReal) (Real.sqrt z.toReal))) := by
  unfold min4
  rw [toReal_qmin, toReal_qmin, toReal_qmin, sqrt_min, sqrt_min, sqrt_min, min_assoc]

/-- for `x ≠ y`: `x / (x − y)` leaves `[0,1]` exactly when `x`, `y` have the same strict sign -/
theorem ratio_outside (x y : ℝ) (h : x - y ≠ 0) :
    (x / (x - y) < 0 ∨ 1 < x / (x - y)) ↔ ((0 < x ∧ 0 < y) ∨ (x < 0 ∧ y < 0)) := by
  rcases lt_or_gt_of_ne h with hn | hp
  · rw [div_lt_iff_of_neg hn, lt_div_iff_of_neg hn]
    constructor
    · rintro (h1 | h1)
      · left; constructor <;> nlinarith
      · right; constructor <;> nlinarith
    · rintro (⟨h1, h2⟩ | ⟨h1, h2⟩)
      · left; nlinarith
      · right; nlinarith
  · rw [div_lt_iff₀ hp, lt_div_iff₀ hp]
    constructor
    · rintro (h1 | h1)
      · right; constructor <;> nlinarith
      · left; constructor <;> nlinarith
    · rintro (⟨h1, h2⟩ | ⟨h1, h2⟩)
      · right; nlinarith
      · left; nlinarith

/-- the envelope test of `segmentToSegment` over `ℝ` -/
def envR (p1x p1y p2x p2y q1x q1y q2x q2y : ℝ) : Prop :=
  ¬ (max q1x q2x < min p1x p2x) ∧ ¬ (max p1x p2x < min q1x q2x) ∧
  ¬ (max q1y q2y < min p1y p2y) ∧ ¬ (max p1y p2y < min q1y q2y)

theorem envR_iff (p1 p2 q1 q2 : Pt) :
    envR p1.x p1.y p2.x p2.y q1.x q1.y q2.x q2.y ↔ envIntersects p1 p2 q1 q2 = true := by
  rw [envIntersects_iff]
  unfold envR
  have c (a b c d : Int) : (max (a : ℝ) b < min (c : ℝ) d) ↔ (max a b < min c d) := by
    rw [← Int.cast_max, ← Int.cast_min]; exact Int.cast_lt
  rw [c, c, c, c]

open Classical in
/-- the decision skeleton of `Distance::segmentToSegment` over `ℝ` -/
noncomputable def segSegR (ax ay bx by' cx cy dx dy : ℝ) : ℝ :=
  if ax = bx ∧ ay = by' then pointSegR ax ay cx cy dx dy
  else if cx = dx ∧ cy = dy then pointSegR dx dy ax ay bx by'
  else
    let denom := (bx - ax) * (dy - cy) - (by' - ay) * (dx - cx)
    let r := ((ay - cy) * (dx - cx) - (ax - cx) * (dy - cy)) / denom
    let s := ((ay - cy) * (bx - ax) - (ax - cx) * (by' - ay)) / denom
    if ¬ envR ax ay bx by' cx cy dx dy ∨ denom = 0 ∨ r < 0 ∨ 1 < r ∨ s < 0 ∨ 1 < s then
      min (pointSegR ax ay cx cy dx dy) (min (pointSegR bx by' cx cy dx dy)
        (min (pointSegR cx cy ax ay bx by') (pointSegR dx dy ax ay bx by')))
    else 0

theorem toReal_zero_of_num (q : Q) (h : q.num = 0) : q.toReal = 0 := by simp [Q.toReal, h]

theorem min4_toReal_zero (w x y z : Q) (hw : 0 ≤ w.num) (hx : 0 ≤ x.num) (hy : 0 ≤ y.num) (hz : 0 ≤ z.num)
    (h : w.num = 0 ∨ x.num = 0 ∨ y.num = 0 ∨ z.num = 0) : (min4 w x y z).toReal = 0 := by
  unfold min4
  rw [toReal_qmin, toReal_qmin, toReal_qmin]
  have a := Q.toReal_nonneg w hw
  have b := Q.toReal_nonneg x hx
  have c := Q.toReal_nonneg y hy
  have d := Q.toReal_nonneg z hz
  apply le_antisymm
  · rcases h with h | h | h | h
    · exact le_trans (min_le_left _ _) (le_trans (min_le_left _ _) (le_of_eq (toReal_zero_of_num _ h)))
    · exact le_trans (min_le_left _ _) (le_trans (min_le_right _ _) (le_of_eq (toReal_zero_of_num _ h)))
    · exact le_trans (min_le_right _ _) (le_trans (min_le_left _ _) (le_of_eq (toReal_zero_of_num _ h)))
    · exact le_trans (min_le_right _ _) (le_trans (min_le_right _ _) (le_of_eq (toReal_zero_of_num _ h)))
  · exact le_min (le_min a b) (le_min c d)

/-! ### degenerate segments -/

theorem onSegment_left (a b : Pt) : onSegment a b a = true := by
  rw [onSegment_iff, inBox_iff]; refine ⟨by simp [det], ?_⟩; omega

theorem onSegment_right (a b : Pt) : onSegment a b b = true := by
  rw [onSegment_iff, inBox_iff]; refine ⟨by simp only [det]; ring, ?_⟩; omega

theorem eq_of_onSegment_degenerate (a p : Pt) (h : onSegment a a p = true) : p = a := by
  rw [onSegment_iff, inBox_iff] at h
  obtain ⟨px, py⟩ := p; obtain ⟨ax, ay⟩ := a
  simp only [Pt.mk.injEq]; simp only at h; omega

theorem pointSeg2_degenerate (p a : Pt) : pointSeg2 p a a = Q.ofInt (sqDist p a) := by
  have h0 : ¬ 0 < sqDist a a := by simp [sqDist]
  simp [pointSeg2, h0]

theorem sqDist_comm (a b : Pt) : sqDist a b = sqDist b a := by simp only [sqDist]; ring

theorem det_degenerate (a p : Pt) : det a a p = 0 := by simp [det]

/-- contact with a degenerate segment `(a,a)`: the point `a` lies on the other segment -/
theorem onSegment_of_touch_degenerate (a c d : Pt) (h : segRel a a c d ≠ .disjoint) : onSegment c d a = true := by
  rcases touch_of_not_disjoint a a c d h with ⟨h1, _⟩ | h1
  · rw [det_degenerate, det_degenerate] at h1; unfold Opp at h1; omega
  · rcases h1 with h1 | h1 | h1 | h1
    · rw [eq_of_onSegment_degenerate a c h1]; exact onSegment_left a d
    · rw [eq_of_onSegment_degenerate a d h1]; exact onSegment_right c a
    · exact h1
    · exact h1

/-- value of `segSeg2` when the first segment is the point `a`: the point–segment distance -/
theorem segSeg2_degenerate_left (a c d : Pt) : (segSeg2 a a c d).toReal = (pointSeg2 a c d).toReal := by
  unfold segSeg2
  by_cases hr : segRel a a c d = .disjoint
  · simp only [hr, beq_self_eq_true, if_true]
    unfold min4
    rw [toReal_qmin, toReal_qmin, toReal_qmin, pointSeg2_degenerate, pointSeg2_degenerate]
    obtain ⟨e1, e2⟩ := pointSeg2_le_ends a c d
    rw [Q.le_iff_toReal] at e1 e2
    rw [sqDist_comm a c] at e1; rw [sqDist_comm a d] at e2
    rw [min_self]
    exact min_eq_left (le_min e1 e2)
  · have hne : (segRel a a c d == SegRel.disjoint) = false := by simpa using hr
    simp only [hne, Bool.false_eq_true, if_false]
    have hz := pointSeg2_zero_of_onSegment a c d (onSegment_of_touch_degenerate a c d hr)
    rw [toReal_zero_of_num _ hz, Q.toReal_ofInt]; simp

/-- the same with the second segment degenerate -/
theorem segSeg2_degenerate_right (a b c : Pt) : (segSeg2 a b c c).toReal = (pointSeg2 c a b).toReal := by
  unfold segSeg2
  by_cases hr : segRel a b c c = .disjoint
  · simp only [hr, beq_self_eq_true, if_true]
    unfold min4
    rw [toReal_qmin, toReal_qmin, toReal_qmin, pointSeg2_degenerate, pointSeg2_degenerate]
    obtain ⟨e1, e2⟩ := pointSeg2_le_ends c a b
    rw [Q.le_iff_toReal] at e1 e2
    rw [sqDist_comm c a] at e1; rw [sqDist_comm c b] at e2
    rw [min_self]
    exact min_eq_right (le_min e1 e2)
  · have hne : (segRel a b c c == SegRel.disjoint) = false := by simpa using hr
    simp only [hne, Bool.false_eq_true, if_false]
    have hr' : segRel c c a b ≠ .disjoint := by rw [segRel_symm a b c c]; exact hr
    have hz := pointSeg2_zero_of_onSegment c a b (onSegment_of_touch_degenerate c a b hr')
    rw [toReal_zero_of_num _ hz, Q.toReal_ofInt]; simp

/-! ### the main case: both segments proper -/

/-- the "no intersection" test of the C++ over integer points, in terms of the four determinants -/
def CxxNoInt (a b c d : Pt) : Prop :=
  envIntersects a b c d = false ∨ det a b d - det a b c = 0 ∨ Same (det c d a) (det c d b) ∨ Same (det a b c) (det a b d)

/-- if the C++ test reports an intersection, `segRel` reports contact -/
theorem segRel_of_cxx_intersection (a b c d : Pt) (h : ¬ CxxNoInt a b c d) : segRel a b c d ≠ .disjoint := by
  unfold CxxNoInt at h
  have hf := det_four a b c d
  have h2 : det a b d - det a b c ≠ 0 := fun e => h (Or.inr (Or.inl e))
  have h3 : ¬ Same (det c d a) (det c d b) := fun e => h (Or.inr (Or.inr (Or.inl e)))
  have h4 : ¬ Same (det a b c) (det a b d) := fun e => h (Or.inr (Or.inr (Or.inr e)))
  have nz12 : ¬ (det a b c = 0 ∧ det a b d = 0) := by omega
  have nz34 : ¬ (det c d a = 0 ∧ det c d b = 0) := by omega
  by_cases z1 : det a b c = 0
  · exact not_disjoint_of_touch a b c d (Or.inl (touch_q1 z1 h3 nz34))
  by_cases z2 : det a b d = 0
  · exact not_disjoint_of_touch a b c d (Or.inr (Or.inl (touch_q2 z2 h3 nz34)))
  by_cases z3 : det c d a = 0
  · exact not_disjoint_of_touch a b c d (Or.inr (Or.inr (Or.inl (touch_p1 z3 h4 nz12))))
  by_cases z4 : det c d b = 0
  · exact not_disjoint_of_touch a b c d (Or.inr (Or.inr (Or.inr (touch_p2 z4 h4 nz12))))
  apply not_disjoint_of_proper
  unfold Same at h3 h4; unfold Opp
  constructor <;> omega

/-- if the C++ test reports no intersection although `segRel` reports contact, an endpoint lies on the other segment -/
theorem touch_of_cxx_noInt (a b c d : Pt) (h : CxxNoInt a b c d) (hr : segRel a b c d ≠ .disjoint) : Touch a b c d := by
  rcases touch_of_not_disjoint a b c d hr with ⟨o12, o34⟩ | t
  · exfalso
    have hf := det_four a b c d
    have he := proper_env o12 o34
    unfold CxxNoInt at h; unfold Opp at o12 o34; unfold Same at h
    rcases h with h | h | h | h
    · rw [he] at h; exact absurd h (by decide)
    · omega
    · omega
    · omega
  · exact t

theorem min4_zero_of_touch (a b c d : Pt) (t : Touch a b c d) :
    (min4 (pointSeg2 a c d) (pointSeg2 b c d) (pointSeg2 c a b) (pointSeg2 d a b)).toReal = 0 := by
  apply min4_toReal_zero _ _ _ _ (pointSeg2_num_nonneg _ _ _) (pointSeg2_num_nonneg _ _ _) (pointSeg2_num_nonneg _ _ _)
    (pointSeg2_num_nonneg _ _ _)
  rcases t with t | t | t | t
  · exact Or.inr (Or.inr (Or.inl (pointSeg2_zero_of_onSegment c a b t)))
  · exact Or.inr (Or.inr (Or.inr (pointSeg2_zero_of_onSegment d a b t)))
  · exact Or.inl (pointSeg2_zero_of_onSegment a c d t)
  · exact Or.inr (Or.inl (pointSeg2_zero_of_onSegment b c d t))

/-- the real test of `segSegR` on integer points is `CxxNoInt` -/
theorem cxx_noInt_real (a b c d : Pt) :
    (¬ envR a.x a.y b.x b.y c.x c.y d.x d.y ∨
      ((b.x : ℝ) - a.x) * (d.y - c.y) - (b.y - a.y) * (d.x - c.x) = 0 ∨
      (((a.y : ℝ) - c.y) * (d.x - c.x) - (a.x - c.x) * (d.y - c.y)) / (((b.x : ℝ) - a.x) * (d.y - c.y) - (b.y - a.y) * (d.x - c.x)) < 0 ∨
      1 < (((a.y : ℝ) - c.y) * (d.x - c.x) - (a.x - c.x) * (d.y - c.y)) / (((b.x : ℝ) - a.x) * (d.y - c.y) - (b.y - a.y) * (d.x - c.x)) ∨
      (((a.y : ℝ) - c.y) * (b.x - a.x) - (a.x - c.x) * (b.y - a.y)) / (((b.x : ℝ) - a.x) * (d.y - c.y) - (b.y - a.y) * (d.x - c.x)) < 0 ∨
      1 < (((a.y : ℝ) - c.y) * (b.x - a.x) - (a.x - c.x) * (b.y - a.y)) / (((b.x : ℝ) - a.x) * (d.y - c.y) - (b.y - a.y) * (d.x - c.x)))
    ↔ CxxNoInt a b c d := by
  have hden : ((b.x : ℝ) - a.x) * (d.y - c.y) - (b.y - a.y) * (d.x - c.x) = ((det a b d - det a b c : Int) : ℝ) := by
    simp only [det]; push_cast; ring
  have hr : ((a.y : ℝ) - c.y) * (d.x - c.x) - (a.x - c.x) * (d.y - c.y) = ((det c d a : Int) : ℝ) := by
    simp only [det]; push_cast; ring
  have hs : ((a.y : ℝ) - c.y) * (b.x - a.x) - (a.x - c.x) * (b.y - a.y) = -((det a b c : Int) : ℝ) := by
    simp only [det]; push_cast; ring
  have hf := det_four a b c d
  rw [hden, hr, hs]
  unfold CxxNoInt
  have e0 : (¬ envR a.x a.y b.x b.y c.x c.y d.x d.y) ↔ envIntersects a b c d = false := by
    rw [envR_iff]; simp
  by_cases hz : det a b d - det a b c = 0
  · have : ((det a b d - det a b c : Int) : ℝ) = 0 := by exact_mod_cast hz
    simp [hz, this]
  · have hzr : ((det a b d - det a b c : Int) : ℝ) ≠ 0 := by exact_mod_cast hz
    -- r = D3 / (D3 − D4), s = D1 / (D1 − D2)
    have d34 : ((det a b d - det a b c : Int) : ℝ) = (det c d a : ℝ) - (det c d b : ℝ) := by
      have : det a b d - det a b c = det c d a - det c d b := by omega
      rw [this]; push_cast; ring
    have d12 : ((det a b d - det a b c : Int) : ℝ) = -((det a b c : ℝ) - (det a b d : ℝ)) := by push_cast; ring
    have r1 := ratio_outside (det c d a : ℝ) (det c d b : ℝ) (by rw [← d34]; exact hzr)
    have r2 := ratio_outside (det a b c : ℝ) (det a b d : ℝ) (by
      intro e; apply hzr; rw [d12, e]; simp)
    have s1 : Same (det c d a) (det c d b) ↔ ((0 : ℝ) < (det c d a : ℝ) ∧ (0 : ℝ) < (det c d b : ℝ)) ∨ ((det c d a : ℝ) < 0 ∧ (det c d b : ℝ) < 0) := by
      unfold Same; simp only [Int.cast_pos, Int.cast_lt_zero]
    have s2 : Same (det a b c) (det a b d) ↔ ((0 : ℝ) < (det a b c : ℝ) ∧ (0 : ℝ) < (det a b d : ℝ)) ∨ ((det a b c : ℝ) < 0 ∧ (det a b d : ℝ) < 0) := by
      unfold Same; simp only [Int.cast_pos, Int.cast_lt_zero]
    have q1 : (-((det a b c : Int) : ℝ)) / ((det a b d - det a b c : Int) : ℝ) = (det a b c : ℝ) / ((det a b c : ℝ) - (det a b d : ℝ)) := by
      rw [d12, neg_div_neg_eq]
    have hz' : ¬ ((det a b d - det a b c : Int) : ℝ) = 0 := hzr
    have k34 : ((det c d a : ℝ) / ((det a b d - det a b c : Int) : ℝ) < 0 ∨ 1 < (det c d a : ℝ) / ((det a b d - det a b c : Int) : ℝ)) ↔
        Same (det c d a) (det c d b) := by rw [s1, ← r1, d34]
    have k12 : ((-((det a b c : Int) : ℝ)) / ((det a b d - det a b c : Int) : ℝ) < 0 ∨ 1 < (-((det a b c : Int) : ℝ)) / ((det a b d - det a b c : Int) : ℝ)) ↔
        Same (det a b c) (det a b d) := by rw [q1, s2, ← r2]
    constructor
    · rintro (h | h | h | h | h | h)
      · exact Or.inl (e0.mp h)
      · exact absurd h hz'
      · exact Or.inr (Or.inr (Or.inl (k34.mp (Or.inl h))))
      · exact Or.inr (Or.inr (Or.inl (k34.mp (Or.inr h))))
      · exact Or.inr (Or.inr (Or.inr (k12.mp (Or.inl h))))
      · exact Or.inr (Or.inr (Or.inr (k12.mp (Or.inr h))))
    · rintro (h | h | h | h)
      · exact Or.inl (e0.mpr h)
      · exact absurd h hz
      · rcases k34.mpr h with h' | h'
        · exact Or.inr (Or.inr (Or.inl h'))
        · exact Or.inr (Or.inr (Or.inr (Or.inl h')))
      · rcases k12.mpr h with h' | h'
        · exact Or.inr (Or.inr (Or.inr (Or.inr (Or.inl h'))))
        · exact Or.inr (Or.inr (Or.inr (Or.inr (Or.inr h'))))

/-- **`segSegR` on integer points is the square root of the exact `segSeg2`** -/
theorem segSegR_eq (a b c d : Pt) :
    segSegR a.x a.y b.x b.y c.x c.y d.x d.y = Real.sqrt (segSeg2 a b c d).toReal := by
  unfold segSegR
  by_cases hab : a = b
  · subst hab
    simp only [and_self, if_true]
    rw [pointSegR_eq, segSeg2_degenerate_left]
  · have hne : ¬ ((a.x : ℝ) = b.x ∧ (a.y : ℝ) = b.y) := fun h => hab ((pt_eq_iff a b).mpr h)
    simp only [hne, if_false]
    by_cases hcd : c = d
    · subst hcd
      simp only [and_self, if_true]
      rw [pointSegR_eq, segSeg2_degenerate_right]
    · have hne2 : ¬ ((c.x : ℝ) = d.x ∧ (c.y : ℝ) = d.y) := fun h => hcd ((pt_eq_iff c d).mpr h)
      simp only [hne2, if_false]
      have key := cxx_noInt_real a b c d
      unfold segSeg2
      split_ifs with hP hr hr
      · -- no intersection reported, segRel disjoint
        rw [pointSegR_eq, pointSegR_eq, pointSegR_eq, pointSegR_eq, ← sqrt_min4]
      · -- no intersection reported, but contact: an endpoint touches
        have hr' : segRel a b c d ≠ .disjoint := by simpa using hr
        rw [pointSegR_eq, pointSegR_eq, pointSegR_eq, pointSegR_eq, ← sqrt_min4,
          min4_zero_of_touch a b c d (touch_of_cxx_noInt a b c d (key.mp hP) hr'), Q.toReal_ofInt]; simp
      · -- intersection reported: segRel cannot be disjoint
        exfalso
        have hN : ¬ CxxNoInt a b c d := fun h => hP (key.mpr h)
        exact segRel_of_cxx_intersection a b c d hN (by simpa using hr)
      · rw [Q.toReal_ofInt]; simp

end GeosModel.Distance
