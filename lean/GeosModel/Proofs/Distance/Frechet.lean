import GeosModel.Model.Distance.Spec
/-!
The dynamic programme `frechetDP` (row by row, each row from the previous one) computes the recursive
definition `frechetRec` of the discrete Fréchet distance.  Sequences are given as functions on indices
(`p₀ … p_n`, `q₀ … q_m`), i.e. the lists `(List.range (n+1)).map pf`.  Core Lean only; no assumption on `le`.
-/
namespace GeosModel.Distance
variable {α D : Type}

theorem frechetRec_00 (le : D → D → Bool) (dd : Nat → Nat → D) : frechetRec le dd 0 0 = dd 0 0 := by
  rw [frechetRec]

theorem frechetRec_0s (le : D → D → Bool) (dd : Nat → Nat → D) (j : Nat) :
    frechetRec le dd 0 (j + 1) = dmax le (frechetRec le dd 0 j) (dd 0 (j + 1)) := by
  rw [frechetRec]

theorem frechetRec_s0 (le : D → D → Bool) (dd : Nat → Nat → D) (i : Nat) :
    frechetRec le dd (i + 1) 0 = dmax le (frechetRec le dd i 0) (dd (i + 1) 0) := by
  rw [frechetRec]

theorem frechetRec_ss (le : D → D → Bool) (dd : Nat → Nat → D) (i j : Nat) :
    frechetRec le dd (i + 1) (j + 1) =
      dmax le (min3 le (frechetRec le dd i (j + 1)) (frechetRec le dd i j) (frechetRec le dd (i + 1) j)) (dd (i + 1) (j + 1)) := by
  rw [frechetRec]

section
variable (le : D → D → Bool) (d : α → α → D) (pf qf : Nat → α)

/-- the first row of the table is `c(0, ·)` -/
theorem firstRow_eq (c : Nat → D) (p : α)
    (hrec : ∀ j, c (j + 1) = dmax le (c j) (d p (qf (j + 1)))) :
    ∀ (len j0 : Nat) (acc : D), acc = c j0 →
      firstRow le d p acc ((List.range' (j0 + 1) len).map qf) = (List.range' (j0 + 1) len).map c := by
  intro len
  induction len with
  | zero => intro j0 acc _; simp [firstRow]
  | succ len ih =>
    intro j0 acc hacc
    simp only [List.range'_succ, List.map_cons, firstRow]
    rw [hacc, ← hrec j0]
    congr 1
    exact ih (j0 + 1) (c (j0 + 1)) rfl

/-- the tail of a later row: `cp` = previous row, `cn` = this row -/
theorem nextRowAux_eq (cp cn : Nat → D) (p : α)
    (hrec : ∀ j, cn (j + 1) = dmax le (min3 le (cp (j + 1)) (cp j) (cn j)) (d p (qf (j + 1)))) :
    ∀ (len j0 : Nat) (left diag : D), left = cn j0 → diag = cp j0 →
      nextRowAux le d p left diag ((List.range' (j0 + 1) len).map cp) ((List.range' (j0 + 1) len).map qf) =
        (List.range' (j0 + 1) len).map cn := by
  intro len
  induction len with
  | zero => intro j0 left diag _ _; simp [nextRowAux]
  | succ len ih =>
    intro j0 left diag hl hd
    simp only [List.range'_succ, List.map_cons, nextRowAux]
    rw [hl, hd, ← hrec j0]
    congr 1
    exact ih (j0 + 1) (cn (j0 + 1)) (cp (j0 + 1)) rfl rfl

theorem range_succ_eq (m : Nat) : List.range (m + 1) = 0 :: List.range' 1 m := by
  rw [List.range_eq_range', List.range'_succ]

/-- one full row from the previous one -/
theorem nextRow_eq (m i : Nat) :
    nextRow le d (pf (i + 1)) ((List.range (m + 1)).map (frechetRec le (fun a b => d (pf a) (qf b)) i))
        ((List.range (m + 1)).map qf) =
      (List.range (m + 1)).map (frechetRec le (fun a b => d (pf a) (qf b)) (i + 1)) := by
  simp only [range_succ_eq, List.map_cons, nextRow]
  rw [← frechetRec_s0 le (fun a b => d (pf a) (qf b)) i]
  congr 1
  exact nextRowAux_eq le d qf (frechetRec le (fun a b => d (pf a) (qf b)) i)
    (frechetRec le (fun a b => d (pf a) (qf b)) (i + 1)) (pf (i + 1))
    (fun j => frechetRec_ss le (fun a b => d (pf a) (qf b)) i j) m 0 _ _ rfl rfl

/-- all remaining rows -/
theorem rowsFrom_eq (m : Nat) :
    ∀ (len i0 : Nat),
      rowsFrom le d ((List.range (m + 1)).map qf)
          ((List.range (m + 1)).map (frechetRec le (fun a b => d (pf a) (qf b)) i0))
          ((List.range' (i0 + 1) len).map pf) =
        (List.range (m + 1)).map (frechetRec le (fun a b => d (pf a) (qf b)) (i0 + len)) := by
  intro len
  induction len with
  | zero => intro i0; simp [rowsFrom]
  | succ len ih =>
    intro i0
    simp only [List.range'_succ, List.map_cons, rowsFrom]
    rw [nextRow_eq le d pf qf m i0, ih (i0 + 1)]
    congr 2
    omega

/-- **the DP equals the recursive definition** -/
theorem frechetDP_eq (n m : Nat) :
    frechetDP le d ((List.range (n + 1)).map pf) ((List.range (m + 1)).map qf) =
      some (frechetRec le (fun a b => d (pf a) (qf b)) n m) := by
  have hfirst : (d (pf 0) (qf 0) :: firstRow le d (pf 0) (d (pf 0) (qf 0)) ((List.range' 1 m).map qf)) =
      (List.range (m + 1)).map (frechetRec le (fun a b => d (pf a) (qf b)) 0) := by
    rw [range_succ_eq, List.map_cons, frechetRec_00]
    congr 1
    exact firstRow_eq le d qf (frechetRec le (fun a b => d (pf a) (qf b)) 0) (pf 0)
      (fun j => frechetRec_0s le (fun a b => d (pf a) (qf b)) j) m 0 _ (frechetRec_00 le (fun a b => d (pf a) (qf b))).symm
  have hq : (List.range (m + 1)).map qf = qf 0 :: (List.range' 1 m).map qf := by
    rw [range_succ_eq, List.map_cons]
  have hp : (List.range (n + 1)).map pf = pf 0 :: (List.range' 1 n).map pf := by
    rw [range_succ_eq, List.map_cons]
  rw [hp]
  conv => lhs; arg 4; rw [hq]
  simp only [frechetDP]
  rw [hfirst, ← hq]
  have := rowsFrom_eq le d pf qf m n 0
  simp only [Nat.zero_add] at this
  rw [this]
  simp [List.range_succ]

end
end GeosModel.Distance
