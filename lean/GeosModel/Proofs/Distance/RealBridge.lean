import Mathlib.Analysis.Real.Sqrt
import Mathlib.Tactic.Ring
import Mathlib.Tactic.Linarith
import Mathlib.Tactic.FieldSimp
import GeosModel.Proofs.Distance.SpecProofs
/-!
# C08 — the exact specification, read in the real numbers

`Q.toReal q = num / den`.  `pointSegR` is the projection-and-clamp formula written over `ℝ` with a real square root, in the shape
the C++ has it (`r = N / D`, tests `r ≤ 0`, `r ≥ 1`, else `|S / D| · √D`); `pointSegR_eq` proves it equal to the square root of
the exact rational `pointSeg2` on integer points.  These are stepping stones for `Props/C08Gen.lean`: the definition
regenerated from `Distance.cpp`, instantiated at `ℝ`, is proved equal to `pointSegR` by a case analysis whose leaves are ring
identities, and hence to `√(pointSeg2 …)`.
-/
namespace GeosModel.Distance
open GeosModel.Kernel

noncomputable def Q.toReal (q : Q) : ℝ := (q.num : ℝ) / (q.den : ℝ)

theorem Q.toReal_ofInt (n : Int) : (Q.ofInt n).toReal = (n : ℝ) := by simp [Q.toReal, Q.ofInt]

theorem Q.toReal_nonneg (q : Q) (h : 0 ≤ q.num) : 0 ≤ q.toReal := by
  have hd : (0 : ℝ) < q.den := by exact_mod_cast q.pos
  have hn : (0 : ℝ) ≤ q.num := by exact_mod_cast h
  exact div_nonneg hn (le_of_lt hd)

/-- `Q.le` is `≤` of the real values -/
theorem Q.le_iff_toReal (a b : Q) : Q.le a b = true ↔ a.toReal ≤ b.toReal := by
  have ha : (0 : ℝ) < a.den := by exact_mod_cast a.pos
  have hb : (0 : ℝ) < b.den := by exact_mod_cast b.pos
  simp only [Q.le, decide_eq_true_eq, Q.toReal]
  rw [div_le_div_iff₀ ha hb]
  constructor
  · intro h; exact_mod_cast h
  · intro h; exact_mod_cast h

/-- squared distance of two real points -/
noncomputable def d2R (px py qx qy : ℝ) : ℝ := (px - qx) * (px - qx) + (py - qy) * (py - qy)

theorem sqDist_cast (p q : Pt) : ((sqDist p q : Int) : ℝ) = d2R p.x p.y q.x q.y := by
  simp [sqDist, d2R]

/-- the projection-and-clamp formula over `ℝ` (shape of `Distance::pointToSegment`) -/
noncomputable def pointSegR (px py ax ay bx by' : ℝ) : ℝ :=
  if ax = bx ∧ ay = by' then Real.sqrt (d2R px py ax ay)
  else
    let D := d2R bx by' ax ay
    let r := ((px - ax) * (bx - ax) + (py - ay) * (by' - ay)) / D
    if r ≤ 0 then Real.sqrt (d2R px py ax ay)
    else if 1 ≤ r then Real.sqrt (d2R px py bx by')
    else |((ay - py) * (bx - ax) - (ax - px) * (by' - ay)) / D| * Real.sqrt D

theorem pt_eq_iff (a b : Pt) : a = b ↔ ((a.x : ℝ) = b.x ∧ (a.y : ℝ) = b.y) := by
  constructor
  · rintro rfl; exact ⟨rfl, rfl⟩
  · rintro ⟨h1, h2⟩
    have e1 : a.x = b.x := by exact_mod_cast h1
    have e2 : a.y = b.y := by exact_mod_cast h2
    cases a; cases b; simp_all

theorem sqDist_pos_of_ne (a b : Pt) (h : a ≠ b) : 0 < sqDist a b := by
  have h0 := sqDist_nonneg a b
  rcases Int.lt_or_eq_of_le h0 with h1 | h1
  · exact h1
  · exfalso; apply h
    have hz := sq_sum_zero (a.x - b.x) (a.y - b.y) (by simp only [sqDist] at h1; omega)
    obtain ⟨ax, ay⟩ := a; obtain ⟨bx, by'⟩ := b
    simp only [Pt.mk.injEq]; simp only at hz; constructor <;> omega

/-- `|S / D| · √D = √(S² / D)` for `D > 0` -/
theorem abs_div_mul_sqrt (S D : ℝ) (hD : 0 < D) : |S / D| * Real.sqrt D = Real.sqrt (S * S / D) := by
  have hs : 0 < Real.sqrt D := Real.sqrt_pos.mpr hD
  have hsq : Real.sqrt D ^ 2 = D := Real.sq_sqrt (le_of_lt hD)
  rw [abs_div, abs_of_pos hD]
  have h1 : |S| / D * Real.sqrt D = |S| / Real.sqrt D := by
    field_simp
    rw [hsq]
  rw [h1]
  have h2 : S * S / D = (|S| / Real.sqrt D) * (|S| / Real.sqrt D) := by
    field_simp
    rw [hsq, sq_abs]; ring
  rw [h2, Real.sqrt_mul_self (div_nonneg (abs_nonneg S) (le_of_lt hs))]

/-- **the real clamp formula is the square root of the exact rational one** -/
theorem pointSegR_eq (p a b : Pt) :
    pointSegR p.x p.y a.x a.y b.x b.y = Real.sqrt (pointSeg2 p a b).toReal := by
  unfold pointSegR
  by_cases hab : a = b
  · have h := (pt_eq_iff a b).mp hab
    have h0 : ¬ 0 < sqDist a b := by subst hab; simp [sqDist]
    simp only [h, and_self, if_true, pointSeg2, h0, dif_neg, not_false_eq_true, Q.toReal_ofInt, sqDist_cast]
  · have hne : ¬ ((a.x : ℝ) = b.x ∧ (a.y : ℝ) = b.y) := fun h => hab ((pt_eq_iff a b).mpr h)
    have hL := sqDist_pos_of_ne a b hab
    have hD : (0 : ℝ) < d2R b.x b.y a.x a.y := by
      have : ((sqDist a b : Int) : ℝ) = d2R b.x b.y a.x a.y := by simp [sqDist, d2R]; ring
      rw [← this]; exact_mod_cast hL
    have hDe : d2R b.x b.y a.x a.y = ((sqDist a b : Int) : ℝ) := by simp [sqDist, d2R]; ring
    have hN : ((p.x : ℝ) - a.x) * (b.x - a.x) + (p.y - a.y) * (b.y - a.y) = ((dot a b p : Int) : ℝ) := by
      simp [dot]; ring
    have hS : ((a.y : ℝ) - p.y) * (b.x - a.x) - (a.x - p.x) * (b.y - a.y) = -((det a b p : Int) : ℝ) := by
      simp [det]; ring
    simp only [hne, if_false, hN]
    have c1 : ((dot a b p : Int) : ℝ) / d2R b.x b.y a.x a.y ≤ 0 ↔ dot a b p ≤ 0 := by
      rw [div_le_iff₀ hD, zero_mul]; exact_mod_cast Iff.rfl
    have c2 : 1 ≤ ((dot a b p : Int) : ℝ) / d2R b.x b.y a.x a.y ↔ sqDist a b ≤ dot a b p := by
      rw [le_div_iff₀ hD, one_mul, hDe]; exact_mod_cast Iff.rfl
    simp only [c1, c2, pointSeg2, hL, dif_pos]
    by_cases h1 : dot a b p ≤ 0
    · simp only [h1, if_true, Q.toReal_ofInt, sqDist_cast]
    · by_cases h2 : sqDist a b ≤ dot a b p
      · simp only [h1, h2, if_true, if_false, Q.toReal_ofInt, sqDist_cast]
      · simp only [h1, h2, if_false, hS]
        rw [abs_div_mul_sqrt _ _ hD, hDe]
        congr 1
        simp [Q.toReal]

end GeosModel.Distance
