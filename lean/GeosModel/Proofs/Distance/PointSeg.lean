import GeosModel.Model.Distance.Spec
/-!
Exactness of the projection-and-clamp formula `pointSeg2`: it is the minimum, over all rational parameters
`t = k/n ∈ [0,1]`, of `|p − (a + t(b−a))|²`.  Everything is stated cross-multiplied over `Int`
(`paramDist2 p a b k n = n²·|p − (a + (k/n)(b−a))|²`), so no rational-number library is needed.
Core Lean only (identities by `grind`'s ring normaliser, inequalities from explicit sums of squares).
-/
namespace GeosModel.Distance
open GeosModel.Kernel

theorem mul_self_nonneg' (x : Int) : 0 ≤ x * x := by
  have := Int.sq_nonneg x
  grind

theorem sq_sum_zero (x y : Int) (h : x * x + y * y ≤ 0) : x = 0 ∧ y = 0 := by
  have h1 := mul_self_nonneg' x
  have h2 := mul_self_nonneg' y
  have hx : x * x = 0 := by omega
  have hy : y * y = 0 := by omega
  exact ⟨by simpa using Int.mul_eq_zero.mp hx, by simpa using Int.mul_eq_zero.mp hy⟩

theorem sqDist_nonneg (a b : Pt) : 0 ≤ sqDist a b := by
  have h1 := mul_self_nonneg' (a.x - b.x)
  have h2 := mul_self_nonneg' (a.y - b.y)
  simp only [sqDist]; omega

/-- `n² · |p − (a + (k/n)(b − a))|²` -/
def paramDist2 (p a b : Pt) (k n : Int) : Int :=
  (n * (p.x - a.x) - k * (b.x - a.x)) * (n * (p.x - a.x) - k * (b.x - a.x)) +
  (n * (p.y - a.y) - k * (b.y - a.y)) * (n * (p.y - a.y) - k * (b.y - a.y))

theorem paramDist2_nonneg (p a b : Pt) (k n : Int) : 0 ≤ paramDist2 p a b k n := by
  have h1 := mul_self_nonneg' (n * (p.x - a.x) - k * (b.x - a.x))
  have h2 := mul_self_nonneg' (n * (p.y - a.y) - k * (b.y - a.y))
  simp only [paramDist2]; omega

theorem pointSeg2_num_nonneg (p a b : Pt) : 0 ≤ (pointSeg2 p a b).num := by
  unfold pointSeg2
  split
  · split
    · exact sqDist_nonneg _ _
    · split
      · exact sqDist_nonneg _ _
      · exact mul_self_nonneg' _
  · exact sqDist_nonneg _ _

/-- **lower bound**: no point `a + (k/n)(b−a)`, `0 ≤ k ≤ n`, of the segment is closer to `p` than `pointSeg2` -/
theorem pointSeg2_le (p a b : Pt) (k n : Int) (hn : 0 < n) (hk0 : 0 ≤ k) (hkn : k ≤ n) :
    (pointSeg2 p a b).num * (n * n) ≤ paramDist2 p a b k n * (pointSeg2 p a b).den := by
  unfold pointSeg2
  split
  · rename_i hl
    split
    · -- t ≤ 0 : nearest is `a`
      rename_i ht
      simp only [Q.ofInt, Int.mul_one]
      have h1 : 0 ≤ (n * k) * (-(dot a b p)) := Int.mul_nonneg (Int.mul_nonneg (by omega) hk0) (by omega)
      have h2 : 0 ≤ (k * k) * sqDist a b := Int.mul_nonneg (mul_self_nonneg' k) (by omega)
      have key : paramDist2 p a b k n = sqDist p a * (n * n) + 2 * ((n * k) * (-(dot a b p))) + (k * k) * sqDist a b := by
        simp only [paramDist2, sqDist, dot]; grind
      omega
    · split
      · -- t ≥ L² : nearest is `b`
        rename_i ht0 ht
        simp only [Q.ofInt, Int.mul_one]
        have hw : 0 ≤ n - k := by omega
        have h1 : 0 ≤ (n * (n - k)) * (dot a b p - sqDist a b) :=
          Int.mul_nonneg (Int.mul_nonneg (by omega) hw) (by omega)
        have h2 : 0 ≤ sqDist a b * ((n - k) * (n - k)) := Int.mul_nonneg (by omega) (mul_self_nonneg' _)
        have key : paramDist2 p a b k n = sqDist p b * (n * n) + 2 * ((n * (n - k)) * (dot a b p - sqDist a b)) +
            sqDist a b * ((n - k) * (n - k)) := by
          simp only [paramDist2, sqDist, dot]; grind
        omega
      · -- 0 < t < L² : the perpendicular foot
        have h1 := mul_self_nonneg' (n * dot a b p - k * sqDist a b)
        have key : paramDist2 p a b k n * sqDist a b =
            det a b p * det a b p * (n * n) + (n * dot a b p - k * sqDist a b) * (n * dot a b p - k * sqDist a b) := by
          simp only [paramDist2, sqDist, dot, det]; grind
        show det a b p * det a b p * (n * n) ≤ paramDist2 p a b k n * sqDist a b
        omega
  · -- degenerate segment a = b
    rename_i hl
    have hz : sqDist a b ≤ 0 := by omega
    simp only [sqDist] at hz
    obtain ⟨hx, hy⟩ := sq_sum_zero _ _ hz
    simp only [Q.ofInt, Int.mul_one]
    have key : paramDist2 p a b k n = sqDist p a * (n * n) := by
      have hx' : b.x - a.x = 0 := by omega
      have hy' : b.y - a.y = 0 := by omega
      simp only [paramDist2, sqDist, hx', hy']; grind
    omega

/-- **attained**: some point of the segment with a rational parameter is at exactly that distance -/
theorem pointSeg2_attained (p a b : Pt) :
    ∃ k n : Int, 0 < n ∧ 0 ≤ k ∧ k ≤ n ∧
      (pointSeg2 p a b).num * (n * n) = paramDist2 p a b k n * (pointSeg2 p a b).den := by
  unfold pointSeg2
  split
  · rename_i hl
    split
    · refine ⟨0, 1, by decide, by decide, by decide, ?_⟩
      simp only [Q.ofInt, paramDist2, sqDist]; grind
    · split
      · refine ⟨1, 1, by decide, by decide, by decide, ?_⟩
        simp only [Q.ofInt, paramDist2, sqDist]; grind
      · rename_i ht0 ht1
        refine ⟨dot a b p, sqDist a b, hl, by omega, by omega, ?_⟩
        show det a b p * det a b p * (sqDist a b * sqDist a b) = paramDist2 p a b (dot a b p) (sqDist a b) * sqDist a b
        simp only [paramDist2, sqDist, dot, det]; grind
  · refine ⟨0, 1, by decide, by decide, by decide, ?_⟩
    simp only [Q.ofInt, paramDist2, sqDist]; grind

/-- `p = a + (k/n)(b − a)` for some rational parameter in `[0,1]` -/
def OnSegQ (p a b : Pt) : Prop :=
  ∃ k n : Int, 0 < n ∧ 0 ≤ k ∧ k ≤ n ∧ n * (p.x - a.x) = k * (b.x - a.x) ∧ n * (p.y - a.y) = k * (b.y - a.y)

/-- the squared distance is zero exactly when the point lies on the segment -/
theorem pointSeg2_zero_iff (p a b : Pt) : (pointSeg2 p a b).num = 0 ↔ OnSegQ p a b := by
  constructor
  · intro h0
    obtain ⟨k, n, hn, hk0, hkn, heq⟩ := pointSeg2_attained p a b
    rw [h0, Int.zero_mul] at heq
    have hden := (pointSeg2 p a b).pos
    have hz : paramDist2 p a b k n = 0 := by
      rcases Int.mul_eq_zero.mp heq.symm with h | h
      · exact h
      · omega
    simp only [paramDist2] at hz
    obtain ⟨hx, hy⟩ := sq_sum_zero (n * (p.x - a.x) - k * (b.x - a.x)) (n * (p.y - a.y) - k * (b.y - a.y)) (by omega)
    exact ⟨k, n, hn, hk0, hkn, by omega, by omega⟩
  · rintro ⟨k, n, hn, hk0, hkn, hx, hy⟩
    have hle := pointSeg2_le p a b k n hn hk0 hkn
    have hz : paramDist2 p a b k n = 0 := by
      simp only [paramDist2, hx, hy]; simp
    rw [hz, Int.zero_mul] at hle
    have hnn : 0 < n * n := Int.mul_pos hn hn
    have h0 := pointSeg2_num_nonneg p a b
    rcases Int.lt_or_eq_of_le h0 with hpos | heq
    · have : 0 < (pointSeg2 p a b).num * (n * n) := Int.mul_pos hpos hnn
      omega
    · exact heq.symm

end GeosModel.Distance
