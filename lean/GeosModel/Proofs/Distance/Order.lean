import GeosModel.Model.Distance.Spec
import GeosModel.Proofs.Distance.BBProofs
/-!
Order facts: `Q.le` is a total preorder; `minList/maxList/minOver/maxOver/maxMin` compute what their names
say for any total preorder.  Core Lean only.
-/
namespace GeosModel.Distance
open GeosModel.STR (LeOK)

theorem Q.le_total (a b : Q) : Q.le a b = true ∨ Q.le b a = true := by
  simp only [Q.le, decide_eq_true_eq]; omega

theorem Q.le_trans (a b c : Q) (h1 : Q.le a b = true) (h2 : Q.le b c = true) : Q.le a c = true := by
  simp only [Q.le, decide_eq_true_eq] at *
  have ha := a.pos
  have hb := b.pos
  have hc := c.pos
  have h3 : a.num * b.den * c.den ≤ b.num * a.den * c.den := Int.mul_le_mul_of_nonneg_right h1 (by omega)
  have h4 : b.num * c.den * a.den ≤ c.num * b.den * a.den := Int.mul_le_mul_of_nonneg_right h2 (by omega)
  have h5 : b.den * (a.num * c.den) ≤ b.den * (c.num * a.den) := by grind
  exact Int.le_of_mul_le_mul_left h5 hb

theorem qLeOK : LeOK Q.le := ⟨Q.le_total, Q.le_trans⟩

theorem ileOK : LeOK ile := by
  constructor
  · intro a b; simp only [ile, decide_eq_true_eq]; omega
  · intro a b c; simp only [ile, decide_eq_true_eq]; omega

theorem Q.eqv_iff_le_le (a b : Q) : Q.eqv a b = true ↔ (Q.le a b = true ∧ Q.le b a = true) := by
  simp only [Q.eqv, Q.le, decide_eq_true_eq]; omega

theorem Q.eqv_zero (a b : Q) (h : Q.eqv a b = true) : a.isZero = b.isZero := by
  simp only [Q.eqv, decide_eq_true_eq] at h
  have ha := a.pos
  have hb := b.pos
  simp only [Q.isZero]
  by_cases h0 : a.num = 0
  · rw [h0, Int.zero_mul] at h
    have : b.num = 0 := by
      rcases Int.mul_eq_zero.mp h.symm with h | h
      · exact h
      · omega
    simp [h0, this]
  · have : b.num ≠ 0 := by
      intro hb0
      rw [hb0, Int.zero_mul] at h
      rcases Int.mul_eq_zero.mp h with h | h
      · exact h0 h
      · omega
    have e1 : (a.num == 0) = false := by simpa using h0
    have e2 : (b.num == 0) = false := by simpa using this
    rw [e1, e2]

section generic
variable {D : Type} {le : D → D → Bool}

theorem minList_mem (m : D) (ys : List D) : minList le m ys = m ∨ minList le m ys ∈ ys := by
  induction ys generalizing m with
  | nil => simp [minList]
  | cons y ys ih =>
    simp only [minList]
    rcases ih (if le m y then m else y) with h | h
    · rw [h]
      split
      · exact Or.inl rfl
      · exact Or.inr (by simp)
    · exact Or.inr (by simp [h])

theorem minList_le (ok : LeOK le) (m : D) (ys : List D) :
    le (minList le m ys) m = true ∧ ∀ y ∈ ys, le (minList le m ys) y = true := by
  induction ys generalizing m with
  | nil => simp [minList, ok.refl]
  | cons y ys ih =>
    simp only [minList]
    obtain ⟨h1, h2⟩ := ih (if le m y then m else y)
    by_cases hmy : le m y = true
    · simp only [hmy, if_true] at h1 h2 ⊢
      refine ⟨h1, ?_⟩
      intro z hz
      simp only [List.mem_cons] at hz
      rcases hz with rfl | hz
      · exact ok.trans _ _ _ h1 hmy
      · exact h2 z hz
    · have hym : le y m = true := by
        cases ok.total m y with
        | inl h => exact absurd h hmy
        | inr h => exact h
      simp only [hmy] at h1 h2 ⊢
      refine ⟨ok.trans _ _ _ h1 hym, ?_⟩
      intro z hz
      simp only [List.mem_cons] at hz
      rcases hz with rfl | hz
      · exact h1
      · exact h2 z hz

theorem maxList_mem (m : D) (ys : List D) : maxList le m ys = m ∨ maxList le m ys ∈ ys := by
  induction ys generalizing m with
  | nil => simp [maxList]
  | cons y ys ih =>
    simp only [maxList]
    rcases ih (if le m y then y else m) with h | h
    · rw [h]
      split
      · exact Or.inr (by simp)
      · exact Or.inl rfl
    · exact Or.inr (by simp [h])

theorem maxList_ge (ok : LeOK le) (m : D) (ys : List D) :
    le m (maxList le m ys) = true ∧ ∀ y ∈ ys, le y (maxList le m ys) = true := by
  induction ys generalizing m with
  | nil => simp [maxList, ok.refl]
  | cons y ys ih =>
    simp only [maxList]
    obtain ⟨h1, h2⟩ := ih (if le m y then y else m)
    by_cases hmy : le m y = true
    · simp only [hmy, if_true] at h1 h2 ⊢
      refine ⟨ok.trans _ _ _ hmy h1, ?_⟩
      intro z hz
      simp only [List.mem_cons] at hz
      rcases hz with rfl | hz
      · exact h1
      · exact h2 z hz
    · have hym : le y m = true := by
        cases ok.total m y with
        | inl h => exact absurd h hmy
        | inr h => exact h
      simp only [hmy] at h1 h2 ⊢
      refine ⟨h1, ?_⟩
      intro z hz
      simp only [List.mem_cons] at hz
      rcases hz with rfl | hz
      · exact ok.trans _ _ _ hym h1
      · exact h2 z hz

/-- `minOver` returns an element of the list that is below every element -/
theorem minOver_spec (ok : LeOK le) (xs : List D) (v : D) (h : minOver le xs = some v) :
    v ∈ xs ∧ ∀ x ∈ xs, le v x = true := by
  cases xs with
  | nil => simp [minOver] at h
  | cons x xs =>
    simp only [minOver, Option.some.injEq] at h
    subst h
    obtain ⟨h1, h2⟩ := minList_le ok x xs
    refine ⟨?_, ?_⟩
    · rcases minList_mem (le := le) x xs with h | h
      · rw [h]; simp
      · simp [h]
    · intro y hy
      simp only [List.mem_cons] at hy
      rcases hy with rfl | hy
      · exact h1
      · exact h2 y hy

theorem maxOver_spec (ok : LeOK le) (xs : List D) (v : D) (h : maxOver le xs = some v) :
    v ∈ xs ∧ ∀ x ∈ xs, le x v = true := by
  cases xs with
  | nil => simp [maxOver] at h
  | cons x xs =>
    simp only [maxOver, Option.some.injEq] at h
    subst h
    obtain ⟨h1, h2⟩ := maxList_ge ok x xs
    refine ⟨?_, ?_⟩
    · rcases maxList_mem (le := le) x xs with h | h
      · rw [h]; simp
      · simp [h]
    · intro y hy
      simp only [List.mem_cons] at hy
      rcases hy with rfl | hy
      · exact h1
      · exact h2 y hy

theorem minOver_eq_none (xs : List D) : minOver le xs = none ↔ xs = [] := by
  cases xs <;> simp [minOver]

theorem maxOver_eq_none (xs : List D) : maxOver le xs = none ↔ xs = [] := by
  cases xs <;> simp [maxOver]

theorem minOver_isSome_of_ne_nil (xs : List D) (h : xs ≠ []) : ∃ v, minOver le xs = some v := by
  cases xs with
  | nil => exact absurd rfl h
  | cons x xs => exact ⟨_, rfl⟩

/-- **max–min**: the value returned is the minimum of some non-empty row and is at least the minimum of
every non-empty row -/
theorem maxMin_spec (ok : LeOK le) (rows : List (List D)) (v : D) (h : maxMin le rows = some v) :
    (∃ row ∈ rows, v ∈ row ∧ ∀ x ∈ row, le v x = true) ∧
    (∀ row ∈ rows, row ≠ [] → ∃ x ∈ row, le x v = true) := by
  simp only [maxMin] at h
  obtain ⟨hmem, hmax⟩ := maxOver_spec ok _ v h
  simp only [List.mem_filterMap] at hmem
  obtain ⟨row, hrow, hmin⟩ := hmem
  refine ⟨⟨row, hrow, minOver_spec ok row v hmin⟩, ?_⟩
  intro r hr hne
  obtain ⟨w, hw⟩ := minOver_isSome_of_ne_nil (le := le) r hne
  have hwmem : w ∈ rows.filterMap (minOver le) := by
    simp only [List.mem_filterMap]
    exact ⟨r, hr, hw⟩
  exact ⟨w, (minOver_spec ok r w hw).1, hmax w hwmem⟩

theorem maxMin_eq_none (rows : List (List D)) : maxMin le rows = none ↔ ∀ row ∈ rows, row = [] := by
  simp only [maxMin, maxOver_eq_none, List.filterMap_eq_nil_iff, minOver_eq_none]

end generic

end GeosModel.Distance
